(* C11 -- classical (direct) interpolation satisfies its defining equations.  Property
   theorems about the model of rs_direct_interpolation_pass2, over any field
   ([is_field], see C09) and for EVERY splitting and strength pattern. *)
From Coq Require Import ZArith List Bool Field QArith.
Import ListNotations.
Require Import PV.Base.Ops PV.Model.Interp PV.Proofs.RelaxProofs PV.Proofs.InterpProofs PV.Proofs.ClassicalProofs PV.Proofs.OnePointProofs.
Require Import PV.Base.OrdLaws.

(* a coarse point gets an identity row (one entry, value 1, at its coarse index) *)
Theorem C11_direct_C_identity : forall F (o : Ops F) Ap Aj Ax Sp Sj Sx spl i,
  isC spl i = true -> direct_row o Ap Aj Ax Sp Sj Sx spl i = [(cmap spl i, one o)].
Proof.
  intros F [z0 o1 ad sb ml dv op ab eq le lt].
  exact (direct_C_identity F z0 o1 ad ml sb op dv ab eq le lt).
Qed.
Print Assumptions C11_direct_C_identity.

(* a fine point has weights exactly on its strongly connected coarse points *)
Theorem C11_direct_F_support : forall F (o : Ops F) Ap Aj Ax Sp Sj Sx spl i,
  isC spl i = false ->
  map fst (direct_row o Ap Aj Ax Sp Sj Sx spl i) =
  map (fun jj => cmap spl (gz Sj jj)) (filter (strongC Sj spl i) (srange Sp i)).
Proof.
  intros F [z0 o1 ad sb ml dv op ab eq le lt].
  exact (direct_F_support F z0 o1 ad ml sb op dv ab eq le lt).
Qed.
Print Assumptions C11_direct_F_support.

(* M-matrix row (negative off-diagonals, negative strong entries) with zero row sum and at least
   one strong coarse connection: the weights sum to one -- constants are interpolated exactly *)
Theorem C11_direct_rowsum_one : forall F (o : Ops F) inv, is_field o inv ->
  forall Ap Aj Ax Sp Sj Sx spl i, isC spl i = false ->
  (forall jj, In jj (srange Sp i) -> strongC Sj spl i jj = true -> ltb o (gf o Sx jj) (zero o) = true) ->
  (forall jj, In jj (arange Ap i) -> gz Aj jj <> i -> ltb o (gf o Ax jj) (zero o) = true) ->
  add o (osum o (row_diag o Ap Aj Ax i)) (osum o (row_offdiag o Ap Aj Ax i)) = zero o ->   (* zero row sum *)
  osum o (row_diag o Ap Aj Ax i) <> zero o ->
  osum o (row_strongC o Sp Sj Sx spl i) <> zero o ->
  osum o (map snd (direct_row o Ap Aj Ax Sp Sj Sx spl i)) = one o.
Proof.
  intros F [z0 o1 ad sb ml dv op ab eq le lt] inv [Fth Heq].
  exact (direct_rowsum_one F z0 o1 ad ml sb op dv inv ab eq le lt Fth Heq).
Qed.
Print Assumptions C11_direct_rowsum_one.

(* ---- standard classical interpolation (rs_classical_interpolation_pass2) ---- *)
(* C rows are identity rows, for both variants (modified or not) *)
Theorem C11_classical_C_identity : forall F (o : Ops F) Ap Aj Ax Sp Sj Sx spl eps15 modified i,
  isC spl i = true -> classical_row o Ap Aj Ax Sp Sj Sx spl eps15 modified i = [(cmap spl i, one o)].
Proof.
  intros F [z0 o1 ad sb ml dv op ab eq le lt].
  exact (classical_C_identity F z0 o1 ad ml sb op dv ab eq le lt).
Qed.
Print Assumptions C11_classical_C_identity.
(* F rows carry one weight per strongly connected C point and nothing else, for both variants *)
Theorem C11_classical_F_support : forall F (o : Ops F) Ap Aj Ax Sp Sj Sx spl eps15 modified i,
  isC spl i = false ->
  map fst (classical_row o Ap Aj Ax Sp Sj Sx spl eps15 modified i) =
  map (fun jj => cmap spl (gz Sj jj)) (filter (fun jj => isC spl (gz Sj jj)) (srange Sp i)).
Proof.
  intros F [z0 o1 ad sb ml dv op ab eq le lt].
  exact (classical_F_support F z0 o1 ad ml sb op dv ab eq le lt).
Qed.
Print Assumptions C11_classical_F_support.
(* standard variant, F row i with zero row sum: if every strongly connected node is a C or an F point, every
   strongly connected F point k has a nonzero sum of row k over the interpolatory set C_i, and the 1e-15 filter drops
   no nonzero entry a_kj, then the weights of row i sum to one: constants are interpolated exactly *)
Theorem C11_classical_rowsum_one : forall F (o : Ops F) inv, is_field o inv ->
  forall Ap Aj Ax Sp Sj Sx spl eps15 i, isC spl i = false ->
  (forall mm, In mm (srange Sp i) -> isF spl (gz Sj mm) = negb (isC spl (gz Sj mm))) ->
  (forall kk, In kk (srange Sp i) -> cl_isFk Sj spl i kk = true -> cl_inner o Ap Aj Ax Sp Sj spl i kk <> zero o) ->
  (forall kk jj, In kk (srange Sp i) -> cl_isFk Sj spl i kk = true -> In jj (cl_Cs Sp Sj spl i) ->
     ltb o (mul o eps15 (abs o (gf o Sx kk))) (abs o (find_first o Ap Aj Ax (gz Sj kk) (gz Sj jj))) = true \/
     find_first o Ap Aj Ax (gz Sj kk) (gz Sj jj) = zero o) ->
  cl_rowsum o Ap Ax i = zero o ->
  cl_strong_offdiag o Sp Sj Sx i <> zero o ->
  osm o snd (classical_row o Ap Aj Ax Sp Sj Sx spl eps15 false i) = one o.
Proof.
  intros F [z0 o1 ad sb ml dv op ab eq le lt] inv [Fth _].
  exact (classical_rowsum_one F z0 o1 ad ml sb op dv inv ab eq le lt Fth).
Qed.
Print Assumptions C11_classical_rowsum_one.
(* non-vacuity: the graph Laplacian of K4 (diagonal 3, off-diagonals -1, S = A), splitting C F F C, row 1: zero row
   sum, strong off-diagonal sum -3, the F neighbour 2 has inner sum -2, and the model returns the weights 1/2, 1/2 *)
Definition ex_Ap := [0;4;8;12;16]%Z.
Definition ex_Aj := [0;1;2;3; 0;1;2;3; 0;1;2;3; 0;1;2;3]%Z.
Definition ex_Ax : list Q := [3#1;-1#1;-1#1;-1#1; -1#1;3#1;-1#1;-1#1; -1#1;-1#1;3#1;-1#1; -1#1;-1#1;-1#1;3#1].
Example C11_classical_example :
  classical_row opsQ ex_Ap ex_Aj ex_Ax ex_Ap ex_Aj ex_Ax [1;0;0;1]%Z (1#1000000000000000) false 1%Z = [(0%Z, 1#2); (1%Z, 1#2)]
  /\ cl_rowsum opsQ ex_Ap ex_Ax 1 = 0%Q /\ cl_strong_offdiag opsQ ex_Ap ex_Aj ex_Ax 1 = (-3)%Q
  /\ cl_inner opsQ ex_Ap ex_Aj ex_Ax ex_Ap ex_Aj [1;0;0;1]%Z 1 6 = (-2)%Q.
Proof. vm_compute. repeat split; reflexivity. Qed.

(* ---- one_point_interpolation (air.h) ---- *)
Theorem C11_one_point_C_identity : forall F (o : Ops F) Sp Sj Sx spl i,
  isC spl i = true -> one_point_row o Sp Sj Sx spl i = [(cmap spl i, one o)].
Proof. intros F o Sp Sj Sx spl i. exact (one_point_C_identity o Sp Sj Sx spl i). Qed.
Print Assumptions C11_one_point_C_identity.
(* any ordered field in which -1 < |a| for all a, nonnegative column indices: an F row is empty exactly when the row
   has no strongly connected C point, and otherwise is a single entry on a strongly connected C point of maximal
   |strength| with value minus that strength entry ("select one strongly connected coarse point or none") *)
Theorem C11_one_point_F_row : forall F (o : Ops F), OrdLaws o ->
  (forall a, ltb o (opp o (one o)) (abs o a) = true) ->
  forall Sp Sj Sx spl, (forall i t, In t (srange Sp i) -> (0 <= gz Sj t)%Z) ->
  forall i, isC spl i = false ->
  (one_point_row o Sp Sj Sx spl i = [] /\ forall t, In t (srange Sp i) -> isC spl (gz Sj t) = false) \/
  (exists t, In t (srange Sp i) /\ isC spl (gz Sj t) = true /\
     one_point_row o Sp Sj Sx spl i = [(cmap spl (gz Sj t), opp o (gf o Sx t))] /\
     forall t', In t' (srange Sp i) -> isC spl (gz Sj t') = true -> leb o (abs o (gf o Sx t')) (abs o (gf o Sx t)) = true).
Proof. intros F o L H1 Sp Sj Sx spl Hc i. exact (one_point_F_row o L Sp Sj Sx spl H1 Hc i). Qed.
Print Assumptions C11_one_point_F_row.
(* non-vacuity: the rationals satisfy both hypotheses; on the 1D Laplacian with splitting C F C the F row picks the
   first of its two equally strong C neighbours with weight 1 *)
Example C11_one_point_hypotheses_Q : OrdLaws opsQ /\ (forall a : Q, ltb opsQ (opp opsQ (one opsQ)) (abs opsQ a) = true).
Proof. split; [exact OrdLaws_Q|exact neg_one_lt_abs_Q]. Qed.
Example C11_one_point_example :
  one_point_rows opsQ 3 [0;2;5;7]%Z [0;1;0;1;2;1;2]%Z [2#1;-1#1;-1#1;2#1;-1#1;-1#1;2#1] [1;0;1]%Z
  = [[(0%Z, 1#1)]; [(0%Z, 1#1)]; [(1%Z, 1#1)]].
Proof. vm_compute. reflexivity. Qed.

(* local approximate ideal restriction: row i of R (coarse point c) holds the identity at c and weights r on the F points of its
   sparsity pattern F_i; local_air takes r from  r A[F_i, F_i] = -A[c, F_i].  This is EQUIVALENT to (R A)[i, j] = 0 for every j in
   F_i, for point rows and for block rows (b x b blocks) alike, over any ring.  (The check recomputes R A on the pattern for every
   built restriction, QR and GMRES local solves, CSR and BSR.) *)
From mathcomp Require Import all_ssreflect all_algebra.
Require Import PV.Algebra.AirRow.
Local Open Scope ring_scope.
Theorem C11_air_row_annihilates_its_pattern :
  forall (F : ringType) (b k : nat) (Aff : 'M[F]_(k, k)) (Acf : 'M[F]_(b, k)) (r : 'M[F]_(b, k)),
  r *m Aff = - Acf <-> row_mx r 1%:M *m col_mx Aff Acf = 0.
Proof. move=> F b k Aff Acf r; split; [exact: air_row_annihilates_pattern|exact: air_row_characterised]. Qed.
Print Assumptions C11_air_row_annihilates_its_pattern.
