(* C11 -- classical (direct) interpolation satisfies its defining equations.  Property
   theorems about the model of rs_direct_interpolation_pass2, over any field
   ([is_field], see C09) and for EVERY splitting and strength pattern. *)
From Coq Require Import ZArith List Bool Field.
Import ListNotations.
Require Import PV.Base.Ops PV.Model.Interp PV.Proofs.RelaxProofs PV.Proofs.InterpProofs.

(* a coarse point gets an identity row (one entry, value 1, at its coarse index) *)
Theorem C11_direct_C_identity : forall F (o : Ops F) Ap Aj Ax Sp Sj Sx spl i,
  isC spl i = true -> direct_row o Ap Aj Ax Sp Sj Sx spl i = [(cmap spl i, one o)].
Proof.
  intros F [z0 o1 ad sb ml dv op ab eq le lt].
  exact (direct_C_identity F z0 o1 ad ml sb op dv ab eq le lt).
Qed.
Print Assumptions C11_direct_C_identity.

(* a fine point has weights exactly on its strongly connected coarse points *)
Theorem C11_direct_F_support : forall F (o : Ops F) Ap Aj Ax Sp Sj Sx spl i,
  isC spl i = false ->
  map fst (direct_row o Ap Aj Ax Sp Sj Sx spl i) =
  map (fun jj => cmap spl (gz Sj jj)) (filter (strongC Sj spl i) (srange Sp i)).
Proof.
  intros F [z0 o1 ad sb ml dv op ab eq le lt].
  exact (direct_F_support F z0 o1 ad ml sb op dv ab eq le lt).
Qed.
Print Assumptions C11_direct_F_support.

(* M-matrix row (negative off-diagonals, negative strong entries) with zero row sum and at least
   one strong coarse connection: the weights sum to one -- constants are interpolated exactly *)
Theorem C11_direct_rowsum_one : forall F (o : Ops F) inv, is_field o inv ->
  forall Ap Aj Ax Sp Sj Sx spl i, isC spl i = false ->
  (forall jj, In jj (srange Sp i) -> strongC Sj spl i jj = true -> ltb o (gf o Sx jj) (zero o) = true) ->
  (forall jj, In jj (arange Ap i) -> gz Aj jj <> i -> ltb o (gf o Ax jj) (zero o) = true) ->
  add o (osum o (row_diag o Ap Aj Ax i)) (osum o (row_offdiag o Ap Aj Ax i)) = zero o ->   (* zero row sum *)
  osum o (row_diag o Ap Aj Ax i) <> zero o ->
  osum o (row_strongC o Sp Sj Sx spl i) <> zero o ->
  osum o (map snd (direct_row o Ap Aj Ax Sp Sj Sx spl i)) = one o.
Proof.
  intros F [z0 o1 ad sb ml dv op ab eq le lt] inv [Fth Heq].
  exact (direct_rowsum_one F z0 o1 ad ml sb op dv inv ab eq le lt Fth Heq).
Qed.
Print Assumptions C11_direct_rowsum_one.
