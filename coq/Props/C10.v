(* C10 -- the tentative prolongator reproduces the near-nullspace candidates.  Property theorem
   about the model of fit_candidates (per aggregate, modified Gram-Schmidt with drop threshold),
   over any field and for ANY function used as square root. *)
From Coq Require Import ZArith List Bool Field.
Import ListNotations.
Require Import PV.Base.Ops PV.Model.FitCand PV.Proofs.RelaxProofs PV.Proofs.FitCandProofs.

(* for every aggregate, every number of candidates and every threshold: column j of the local
   candidate block equals  sum_{i<=j} R[i,j] q_i  when the column is kept (T * B_coarse = B on the
   aggregated unknowns); when it is dropped (q_j = 0, R[j,j] = 0) the defect is exactly the
   discarded remainder *)
Theorem C10_tentative_reproduces_candidates : forall F (o : Ops F) inv (fsqrt : F -> F), is_field o inv ->
  forall (n : nat) tol qs col,
  (forall q, In q qs -> length q = n) -> length col = n ->
  let '(q, r) := mgs_col o fsqrt tol qs col in
  let '(v, ds) := ortho o qs col in
  let nrm := fsqrt (vnormsq o v) in
  length r = S (length qs) /\
  (ltb o (mul o tol (fsqrt (vnormsq o col))) nrm = true -> nrm <> zero o ->
     forall k, nth k col (zero o) = comb F (zero o) (add o) (mul o) (qs ++ [q]) r k) /\
  (ltb o (mul o tol (fsqrt (vnormsq o col))) nrm = false ->
     forall k, nth k col (zero o) = add o (comb F (zero o) (add o) (mul o) (qs ++ [q]) r k) (nth k v (zero o))).
Proof.
  intros F [z0 o1 ad sb ml dv op ab eq le lt] inv fsqrt [Fth _].
  exact (mgs_col_reconstructs F z0 o1 ad ml sb op dv inv ab eq le lt fsqrt Fth).
Qed.
Print Assumptions C10_tentative_reproduces_candidates.
