(* C10 -- the tentative prolongator reproduces the near-nullspace candidates.  Property theorem
   about the model of fit_candidates (per aggregate, modified Gram-Schmidt with drop threshold),
   over any field and for ANY function used as square root. *)
From Coq Require Import ZArith List Bool Field.
Import ListNotations.
Require Import PV.Base.Ops PV.Model.FitCand PV.Proofs.RelaxProofs PV.Proofs.FitCandProofs PV.Proofs.FitCandOrtho.

(* for every aggregate, every number of candidates and every threshold: column j of the local
   candidate block equals  sum_{i<=j} R[i,j] q_i  when the column is kept (T * B_coarse = B on the
   aggregated unknowns); when it is dropped (q_j = 0, R[j,j] = 0) the defect is exactly the
   discarded remainder *)
Theorem C10_tentative_reproduces_candidates : forall F (o : Ops F) inv (fsqrt : F -> F), is_field o inv ->
  forall (n : nat) tol qs col,
  (forall q, In q qs -> length q = n) -> length col = n ->
  let '(q, r) := mgs_col o fsqrt tol qs col in
  let '(v, ds) := ortho o qs col in
  let nrm := fsqrt (vnormsq o v) in
  length r = S (length qs) /\
  (ltb o (mul o tol (fsqrt (vnormsq o col))) nrm = true -> nrm <> zero o ->
     forall k, nth k col (zero o) = comb F (zero o) (add o) (mul o) (qs ++ [q]) r k) /\
  (ltb o (mul o tol (fsqrt (vnormsq o col))) nrm = false ->
     forall k, nth k col (zero o) = add o (comb F (zero o) (add o) (mul o) (qs ++ [q]) r k) (nth k v (zero o))).
Proof.
  intros F [z0 o1 ad sb ml dv op ab eq le lt] inv fsqrt [Fth _].
  exact (mgs_col_reconstructs F z0 o1 ad ml sb op dv inv ab eq le lt fsqrt Fth).
Qed.
Print Assumptions C10_tentative_reproduces_candidates.

Definition InvO {F} (o : Ops F) (n : nat) (qs : list (list F)) : Prop :=
  Inv F (zero o) (one o) (add o) (mul o) (sub o) (opp o) (div o) (abs o) (eqb o) (leb o) (ltb o) n qs.
(* Gram-Schmidt step preserves "pairwise orthogonal, each column of unit length or zero": the new
   column is orthogonal to all earlier ones, has unit length when kept (given nrm^2 = |v|^2 for the
   remainder at hand and nrm <> 0) and is the zero vector when dropped.  Starting from the empty
   set (Inv_nil) this is the induction step for a whole aggregate: Q^T Q = diag(1 or 0). *)
Theorem C10_gram_schmidt_step_orthonormal : forall F (o : Ops F) inv (fsqrt : F -> F), is_field o inv ->
  forall (n : nat) tol qs col,
  InvO o n qs -> length col = n ->
  let '(q, _) := mgs_col o fsqrt tol qs col in
  let '(v, _) := ortho o qs col in
  let nrm := fsqrt (vnormsq o v) in
  (ltb o (mul o tol (fsqrt (vnormsq o col))) nrm = true -> mul o nrm nrm = vnormsq o v -> nrm <> zero o ->
     InvO o n (qs ++ [q]) /\ vdot o q q = one o) /\
  (ltb o (mul o tol (fsqrt (vnormsq o col))) nrm = false ->
     InvO o n (qs ++ [q]) /\ forall w, vdot o w q = zero o).
Proof.
  intros F [z0 o1 ad sb ml dv op ab eq le lt] inv fsqrt [Fth _].
  exact (mgs_col_orthonormal F z0 o1 ad ml sb op dv inv ab eq le lt fsqrt Fth).
Qed.
Print Assumptions C10_gram_schmidt_step_orthonormal.
(* the invariant holds for the empty set of columns (start of every aggregate) *)
Example C10_invariant_start : forall F (o : Ops F) n, InvO o n [].
Proof. intros F o n. apply Inv_nil. Qed.
