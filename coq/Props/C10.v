(* C10 -- the tentative prolongator reproduces the near-nullspace candidates.  Property theorem
   about the model of fit_candidates (per aggregate, modified Gram-Schmidt with drop threshold),
   over any field and for ANY function used as square root. *)
From Coq Require Import ZArith List Bool Field.
Import ListNotations.
Require Import PV.Base.Ops PV.Model.FitCand PV.Proofs.RelaxProofs PV.Proofs.FitCandProofs PV.Proofs.FitCandOrtho.

(* for every aggregate, every number of candidates and every threshold: column j of the local
   candidate block equals  sum_{i<=j} R[i,j] q_i  when the column is kept (T * B_coarse = B on the
   aggregated unknowns); when it is dropped (q_j = 0, R[j,j] = 0) the defect is exactly the
   discarded remainder *)
Theorem C10_tentative_reproduces_candidates : forall F (o : Ops F) inv (fsqrt : F -> F), is_field o inv ->
  forall (n : nat) tol qs col,
  (forall q, In q qs -> length q = n) -> length col = n ->
  let '(q, r) := mgs_col o fsqrt tol qs col in
  let '(v, ds) := ortho o qs col in
  let nrm := fsqrt (vnormsq o v) in
  length r = S (length qs) /\
  (ltb o (mul o tol (fsqrt (vnormsq o col))) nrm = true -> nrm <> zero o ->
     forall k, nth k col (zero o) = comb F (zero o) (add o) (mul o) (qs ++ [q]) r k) /\
  (ltb o (mul o tol (fsqrt (vnormsq o col))) nrm = false ->
     forall k, nth k col (zero o) = add o (comb F (zero o) (add o) (mul o) (qs ++ [q]) r k) (nth k v (zero o))).
Proof.
  intros F [z0 o1 ad sb ml dv op ab eq le lt] inv fsqrt [Fth _].
  exact (mgs_col_reconstructs F z0 o1 ad ml sb op dv inv ab eq le lt fsqrt Fth).
Qed.
Print Assumptions C10_tentative_reproduces_candidates.

Definition InvO {F} (o : Ops F) (n : nat) (qs : list (list F)) : Prop :=
  Inv F (zero o) (one o) (add o) (mul o) (sub o) (opp o) (div o) (abs o) (eqb o) (leb o) (ltb o) n qs.
(* Gram-Schmidt step preserves "pairwise orthogonal, each column of unit length or zero": the new
   column is orthogonal to all earlier ones, has unit length when kept (given nrm^2 = |v|^2 for the
   remainder at hand and nrm <> 0) and is the zero vector when dropped.  Starting from the empty
   set (Inv_nil) this is the induction step for a whole aggregate: Q^T Q = diag(1 or 0). *)
Theorem C10_gram_schmidt_step_orthonormal : forall F (o : Ops F) inv (fsqrt : F -> F), is_field o inv ->
  forall (n : nat) tol qs col,
  InvO o n qs -> length col = n ->
  let '(q, _) := mgs_col o fsqrt tol qs col in
  let '(v, _) := ortho o qs col in
  let nrm := fsqrt (vnormsq o v) in
  (ltb o (mul o tol (fsqrt (vnormsq o col))) nrm = true -> mul o nrm nrm = vnormsq o v -> nrm <> zero o ->
     InvO o n (qs ++ [q]) /\ vdot o q q = one o) /\
  (ltb o (mul o tol (fsqrt (vnormsq o col))) nrm = false ->
     InvO o n (qs ++ [q]) /\ forall w, vdot o w q = zero o).
Proof.
  intros F [z0 o1 ad sb ml dv op ab eq le lt] inv fsqrt [Fth _].
  exact (mgs_col_orthonormal F z0 o1 ad ml sb op dv inv ab eq le lt fsqrt Fth).
Qed.
Print Assumptions C10_gram_schmidt_step_orthonormal.
(* the invariant holds for the empty set of columns (start of every aggregate) *)
Example C10_invariant_start : forall F (o : Ops F) n, InvO o n [].
Proof. intros F o n. apply Inv_nil. Qed.

(* the whole aggregate: if the square-root function is exact on the squared norms that occur and a kept column has a
   nonzero norm, the columns q_0 .. q_{K-1} produced for one aggregate satisfy  q_i . q_j = 0 for i < j  and, for every i,
   q_i . q_i = 1  or  q_i is orthogonal to every vector (a dropped column): Q^T Q = diag(1 or 0) *)
Definition PInvO {F} (o : Ops F) (n : nat) (Q : list (list F)) : Prop :=
  InvO o n Q /\
  (forall i j, (i < j < length Q)%nat -> vdot o (nth i Q []) (nth j Q []) = zero o) /\
  (forall i, (i < length Q)%nat -> vdot o (nth i Q []) (nth i Q []) = one o \/ forall w, vdot o w (nth i Q []) = zero o).
Theorem C10_gram_schmidt_aggregate_orthonormal : forall F (o : Ops F) inv (fsqrt : F -> F), is_field o inv ->
  (forall v, mul o (fsqrt (vnormsq o v)) (fsqrt (vnormsq o v)) = vnormsq o v) ->
  forall tol, (forall a b, ltb o (mul o tol (fsqrt a)) (fsqrt b) = true -> fsqrt b <> zero o) ->
  forall (n : nat) (cols : list (list F)), (forall c, In c cols -> length c = n) ->
  let Q := fst (mgs o fsqrt tol cols) in
  length Q = length cols /\ PInvO o n Q.
Proof.
  intros F [z0 o1 ad sb ml dv op ab eq le lt] inv fsqrt [Fth _].
  exact (mgs_all_orthonormal F z0 o1 ad ml sb op dv inv ab eq le lt fsqrt Fth).
Qed.
Print Assumptions C10_gram_schmidt_aggregate_orthonormal.
(* non-vacuity: in the two-element field (a field with decidable equality, see C09_field_inhabited) x * x = x, so the
   identity is an exact square root, and "t < b" (false < true) forces b = true <> 0: both hypotheses hold *)
Require Import PV.Props.C09.
Example C10_aggregate_hypotheses_satisfiable :
  is_field b2 (fun a => a) /\
  (forall v, mul b2 ((fun x => x) (vnormsq b2 v)) ((fun x => x) (vnormsq b2 v)) = vnormsq b2 v) /\
  (forall tol a b, ltb b2 (mul b2 tol a) b = true -> b <> zero b2).
Proof.
  split; [exact C09_field_inhabited|]. split.
  - intro v. cbn. destruct (vnormsq b2 v); reflexivity.
  - intros tol a b. cbn. destruct b; [discriminate|]. rewrite andb_false_r. discriminate.
Qed.

(* constrained prolongation smoothing cannot change T * B_coarse: satisfy_constraints replaces each (block) row U_i of a search
   direction, seen on the columns of its sparsity pattern, by  U_i - (U_i B_i) X_i B_i^H  with B_i the rows of the coarse
   candidates on that pattern and X_i the inverse of the local Gram matrix B_i^H B_i; such a row annihilates the candidates,
   so adding any multiple of the projected direction to a prolongator leaves its product with the candidates as it was, and a
   direction that already satisfies the constraints is not changed.  Any commutative ring; B^H enters only through
   X (B^H B) = 1, so real and complex data are covered.  (The check verifies X (B^H B) = 1 for the matrices compute_BtBinv
   returns on the rows where it demands P B_c = B, and P B_c = B itself on every built prolongator.) *)
From mathcomp Require Import all_ssreflect all_algebra.
Require Import PV.Algebra.Constraints.
Local Open Scope ring_scope.
Theorem C10_constrained_update_preserves_candidates :
  forall (F : comRingType) (r k c : nat) (Bs : 'M[F]_(k, c)) (Bh : 'M[F]_(c, k)) (X : 'M[F]_(c, c)),
  X *m (Bh *m Bs) = 1%:M ->
  forall (P U : 'M[F]_(r, k)) (a : F),
  project Bs Bh X U *m Bs = 0 /\
  (P + a *: project Bs Bh X U) *m Bs = P *m Bs /\
  (U *m Bs = 0 -> project Bs Bh X U = U).
Proof.
move=> F r k c Bs Bh X XG P U a; split; [exact: project_annihilates|split].
- exact: constrained_update_preserves.
- exact: project_fixed.
Qed.
Print Assumptions C10_constrained_update_preserves_candidates.

(* not vacuous: one candidate (1, 1) on a pattern of two columns over the rationals, X = 1/2 *)
Example C10_constraints_example :
  let Bs : 'M[rat]_(2, 1) := const_mx 1 in let Bh : 'M[rat]_(1, 2) := const_mx 1 in
  let X : 'M[rat]_(1, 1) := const_mx (1 / 2%:R) in
  X *m (Bh *m Bs) = 1%:M.
Proof.
move=> Bs Bh X. apply/matrixP => i j. rewrite !mxE big_ord1 !mxE big_ord_recl big_ord1 !mxE.
by rewrite !ord1 eqxx.
Qed.

