(* C03 -- a cycle is the textbook multigrid recursion: fixed, linear and consistent.
   Property theorems only.  [wfx h]: every level of the hierarchy is an abelian group, every
   operator (A, the smoother correctors, P, R, the coarse solve) is additive and the coarse
   solve is a left inverse of the coarsest matrix ("stationary smoothers and a direct coarse
   solver").  Nonsymmetric R <> P^T is allowed throughout. *)
From Coq Require Import List Arith ZArith Lia.
Import ListNotations.
Require Import PV.Model.Cycle PV.Proofs.CycleProofs.

(* one cycle is  x <- x + M (b - A x)  with M the textbook composition (coarser level once for
   V, twice for W, F-cycle followed by cycles_per_level V-cycles for F) *)
Theorem C03_cycle_is_textbook_recursion : forall V (h : hier V), wfx h -> forall ct cpl x b,
  cycle h ct cpl x b = gadd (hgrp h) x (Mtb h ct cpl (gsub (hgrp h) b (hA h x))).
Proof. exact cycle_affine. Qed.
Print Assumptions C03_cycle_is_textbook_recursion.

(* M is a fixed additive operator, determined by the hierarchy and the cycle type only *)
Theorem C03_M_linear : forall V (h : hier V), wfx h -> forall ct cpl,
  additive (hgrp h) (hgrp h) (Mtb h ct cpl).
Proof. exact Mtb_additive. Qed.
Print Assumptions C03_M_linear.

(* the exact solution is a fixed point of every cycle *)
Theorem C03_exact_solution_fixed : forall V (h : hier V), wfx h -> forall ct cpl x b,
  hA h x = b -> cycle h ct cpl x b = x.
Proof. exact cycle_fixed_point. Qed.
Print Assumptions C03_exact_solution_fixed.

(* the preconditioner handed to Krylov methods (one cycle from the zero guess) is exactly M *)
Theorem C03_preconditioner_is_M : forall V (h : hier V), wfx h -> forall ct cpl b,
  cycle h ct cpl (gz (hgrp h)) b = Mtb h ct cpl b.
Proof. exact precond_is_M. Qed.
Print Assumptions C03_preconditioner_is_M.

(* k one-cycle calls equal one k-cycle call *)
Theorem C03_k_calls : forall X (f : X -> X) j k x, repeat_fn (j + k) f x = repeat_fn k f (repeat_fn j f x).
Proof. exact @k_calls_compose. Qed.
Print Assumptions C03_k_calls.

(* non-vacuity: a two-level hierarchy over Z^2 -> Z meeting [wfx] (nonsymmetric R <> P^T) *)
Definition gZ : Grp Z := mkGrp Z 0%Z Z.add Z.sub.
Definition gZ2 : Grp (Z * Z) :=
  mkGrp (Z * Z) (0, 0)%Z (fun a b => (fst a + fst b, snd a + snd b)%Z) (fun a b => (fst a - fst b, snd a - snd b)%Z).
Definition h_example : hier (Z * Z) :=
  Level (Z * Z) gZ2 (fun v => (2 * fst v - snd v, 2 * snd v - fst v)%Z)
        (fun v => (fst v, 0)%Z) (fun v => (0, snd v)%Z)
        Z (fun c => (c, c)%Z) (fun v => (fst v + 2 * snd v)%Z)
        (Coarsest Z gZ (fun c => c) (fun c => c)).
Example C03_wfx_inhabited : wfx h_example.
Proof.
  unfold h_example. cbn [wfx hgrp].
  repeat split; unfold additive; intros;
    repeat match goal with x : (Z * Z)%type |- _ => destruct x end;
    cbv beta iota delta [gadd gsub gz gZ gZ2 fst snd]; first [lia | (f_equal; lia)].
Qed.
Example C03_example_run : cycle h_example CW 1 (1, 2)%Z (3, 5)%Z = (11, 7)%Z.
Proof. vm_compute. reflexivity. Qed.
