(* C07 -- Krylov iterates are the optimal elements of the Krylov space.  Property theorems only
   (mathcomp, any real field).  The CG recurrences are those of pyamg/krylov/_cg.py. *)
From mathcomp Require Import all_ssreflect all_algebra.
Require Import PV.Algebra.KrylovOpt.
Set Implicit Arguments. Unset Strict Implicit. Unset Printing Implicit Defensive.
Import GRing.Theory Num.Theory.
Local Open Scope ring_scope.

(* invariants of the CG recurrences (no breakdown before step k): true residual, mutually
   orthogonal residuals, A-conjugate directions *)
Theorem C07_cg_invariants : forall (F : realFieldType) (n : nat) (A : 'M[F]_n), A^T = A ->
  forall (b x0 : 'cV[F]_n) (k : nat), ok A b x0 k -> Inv A b x0 k.
Proof. move=> F n A As b x0 k. exact: cg_invariants. Qed.
Print Assumptions C07_cg_invariants.

(* the k-th CG iterate minimises the energy norm of the error over x0 + span(p_0..p_{k-1}) *)
Theorem C07_cg_optimal : forall (F : realFieldType) (n : nat) (A : 'M[F]_n), A^T = A ->
  forall b x0 xs : 'cV[F]_n, A *m xs = b -> (forall x : 'cV[F]_n, 0 <= dot x (A *m x)) ->
  forall (k : nat) (c : nat -> F), ok A b x0 k ->
  en A (xs - sx (S A b x0 k)) <= en A (xs - (x0 + comb A b x0 k c)).
Proof. move=> F n A As b x0 xs Hxs Ap k c. exact: cg_optimal. Qed.
Print Assumptions C07_cg_optimal.

(* hence the energy norm of the error is monotonically non-increasing *)
Theorem C07_cg_monotone : forall (F : realFieldType) (n : nat) (A : 'M[F]_n), A^T = A ->
  forall b x0 xs : 'cV[F]_n, A *m xs = b -> (forall x : 'cV[F]_n, 0 <= dot x (A *m x)) ->
  forall k : nat, ok A b x0 k.+1 ->
  en A (xs - sx (S A b x0 k.+1)) <= en A (xs - sx (S A b x0 k)).
Proof. move=> F n A As b x0 xs Hxs Ap k. exact: cg_monotone. Qed.
Print Assumptions C07_cg_monotone.

(* exact line search: in any symmetric positive semidefinite form B, the step
   alpha = <v,u>_B / <v,v>_B minimises || u - c v ||_B over all c.
   B = A, u = error, v = search direction: steepest descent (energy norm);
   B = I, u = (preconditioned) residual, v = A z: minimal residual (2-norm). *)
Theorem C07_exact_line_search : forall (F : realFieldType) (n : nat) (B : 'M[F]_n), B^T = B ->
  (forall x : 'cV[F]_n, 0 <= dot x (B *m x)) ->
  forall (u v : 'cV[F]_n) (c : F), bf B v v != 0 ->
  bf B (u - (bf B v u / bf B v v) *: v) (u - (bf B v u / bf B v v) *: v) <= bf B (u - c *: v) (u - c *: v).
Proof. move=> F n B Bs Bp u v c. exact: linesearch_optimal. Qed.
Print Assumptions C07_exact_line_search.
