(* C07 -- Krylov iterates are the optimal elements of the Krylov space.  Property theorems only
   (mathcomp, any real field).  The CG recurrences are those of pyamg/krylov/_cg.py. *)
From mathcomp Require Import all_ssreflect all_algebra.
Require Import PV.Algebra.KrylovOpt.
Set Implicit Arguments. Unset Strict Implicit. Unset Printing Implicit Defensive.
Import GRing.Theory Num.Theory.
Local Open Scope ring_scope.

(* invariants of the CG recurrences (no breakdown before step k): true residual, mutually
   orthogonal residuals, A-conjugate directions *)
Theorem C07_cg_invariants : forall (F : realFieldType) (n : nat) (A : 'M[F]_n), A^T = A ->
  forall (b x0 : 'cV[F]_n) (k : nat), ok A b x0 k -> Inv A b x0 k.
Proof. move=> F n A As b x0 k. exact: cg_invariants. Qed.
Print Assumptions C07_cg_invariants.

(* the k-th CG iterate minimises the energy norm of the error over x0 + span(p_0..p_{k-1}) *)
Theorem C07_cg_optimal : forall (F : realFieldType) (n : nat) (A : 'M[F]_n), A^T = A ->
  forall b x0 xs : 'cV[F]_n, A *m xs = b -> (forall x : 'cV[F]_n, 0 <= dot x (A *m x)) ->
  forall (k : nat) (c : nat -> F), ok A b x0 k ->
  en A (xs - sx (S A b x0 k)) <= en A (xs - (x0 + comb A b x0 k c)).
Proof. move=> F n A As b x0 xs Hxs Ap k c. exact: cg_optimal. Qed.
Print Assumptions C07_cg_optimal.

(* hence the energy norm of the error is monotonically non-increasing *)
Theorem C07_cg_monotone : forall (F : realFieldType) (n : nat) (A : 'M[F]_n), A^T = A ->
  forall b x0 xs : 'cV[F]_n, A *m xs = b -> (forall x : 'cV[F]_n, 0 <= dot x (A *m x)) ->
  forall k : nat, ok A b x0 k.+1 ->
  en A (xs - sx (S A b x0 k.+1)) <= en A (xs - sx (S A b x0 k)).
Proof. move=> F n A As b x0 xs Hxs Ap k. exact: cg_monotone. Qed.
Print Assumptions C07_cg_monotone.

(* exact line search: in any symmetric positive semidefinite form B, the step
   alpha = <v,u>_B / <v,v>_B minimises || u - c v ||_B over all c.
   B = A, u = error, v = search direction: steepest descent (energy norm);
   B = I, u = (preconditioned) residual, v = A z: minimal residual (2-norm). *)
Theorem C07_exact_line_search : forall (F : realFieldType) (n : nat) (B : 'M[F]_n), B^T = B ->
  (forall x : 'cV[F]_n, 0 <= dot x (B *m x)) ->
  forall (u v : 'cV[F]_n) (c : F), bf B v v != 0 ->
  bf B (u - (bf B v u / bf B v v) *: v) (u - (bf B v u / bf B v v) *: v) <= bf B (u - c *: v) (u - c *: v).
Proof. move=> F n B Bs Bp u v c. exact: linesearch_optimal. Qed.
Print Assumptions C07_exact_line_search.

(* ---- conjugate residuals, CGNR, CGNE: the loops of _cr.py, _cgnr.py, _cgne.py (no preconditioner; ANY schedule
   rc of "recompute r = b - A x" versus "update r") are conjugate gradients in another inner product
   (Algebra/KrylovGen.v, KrylovInst.v: simulation lemmas cr_sim, nr_sim, ne_sim), hence: ---- *)
Require Import PV.Algebra.KrylovInst.
Require PV.Algebra.KrylovGen.

(* CR (A symmetric, A xs = b): the k-th iterate minimises ||b - A x||_2 over x0 + span(p_0..p_{k-1}), and the
   residual norm never increases *)
Theorem C07_cr_optimal : forall (F : realFieldType) (n : nat) (A : 'M[F]_n), A^T = A ->
  forall (b x0 : 'cV[F]_n) (rc : nat -> bool) (xs : 'cV[F]_n), A *m xs = b ->
  forall (k : nat) (c : nat -> F), KrylovGen.ok A A b x0 k ->
  rsq A b (cx (crS A b x0 rc k)) <= rsq A b (x0 + KrylovGen.comb A A b x0 k c).
Proof. move=> F n A As b x0 rc xs Hxs k c hk. exact: (@cr_optimal F n A As b x0 rc xs Hxs k c hk). Qed.
Print Assumptions C07_cr_optimal.
Theorem C07_cr_monotone : forall (F : realFieldType) (n : nat) (A : 'M[F]_n), A^T = A ->
  forall (b x0 : 'cV[F]_n) (rc : nat -> bool) (xs : 'cV[F]_n), A *m xs = b ->
  forall k : nat, KrylovGen.ok A A b x0 k.+1 ->
  rsq A b (cx (crS A b x0 rc k.+1)) <= rsq A b (cx (crS A b x0 rc k)).
Proof. move=> F n A As b x0 rc xs Hxs k hk. exact: (@cr_monotone F n A As b x0 rc xs Hxs k hk). Qed.
Print Assumptions C07_cr_monotone.

(* CGNR (any m x n matrix, A xs = b): the k-th iterate minimises ||b - A x||_2 over x0 + span(p_0..p_{k-1}) *)
Theorem C07_cgnr_optimal : forall (F : realFieldType) (m n : nat) (A : 'M[F]_(m, n))
  (b : 'cV[F]_m) (x0 : 'cV[F]_n) (rc : nat -> bool) (xs : 'cV[F]_n), A *m xs = b ->
  forall (k : nat) (c : nat -> F), KrylovGen.ok 1%:M (A^T *m A) (A^T *m b) x0 k ->
  nrsq A b (nx (nrS A b x0 rc k)) <= nrsq A b (x0 + KrylovGen.comb 1%:M (A^T *m A) (A^T *m b) x0 k c).
Proof. move=> F m n A b x0 rc xs Hxs k c hk. exact: (@cgnr_optimal F m n A b x0 rc xs Hxs k c hk). Qed.
Print Assumptions C07_cgnr_optimal.
Theorem C07_cgnr_monotone : forall (F : realFieldType) (m n : nat) (A : 'M[F]_(m, n))
  (b : 'cV[F]_m) (x0 : 'cV[F]_n) (rc : nat -> bool) (xs : 'cV[F]_n), A *m xs = b ->
  forall k : nat, KrylovGen.ok 1%:M (A^T *m A) (A^T *m b) x0 k.+1 ->
  nrsq A b (nx (nrS A b x0 rc k.+1)) <= nrsq A b (nx (nrS A b x0 rc k)).
Proof. move=> F m n A b x0 rc xs Hxs k hk. exact: (@cgnr_monotone F m n A b x0 rc xs Hxs k hk). Qed.
Print Assumptions C07_cgnr_monotone.

(* CGNE (A A^T ys = b - A x0, so xs = x0 + A^T ys solves A xs = b): the k-th iterate minimises the 2-norm of the
   error xs - x over x0 + A^T span(p_0..p_{k-1}) *)
Theorem C07_cgne_optimal : forall (F : realFieldType) (m n : nat) (A : 'M[F]_(m, n))
  (b : 'cV[F]_m) (x0 : 'cV[F]_n) (rc : nat -> bool) (ys : 'cV[F]_m), (A *m A^T) *m ys = b - A *m x0 ->
  forall (k : nat) (c : nat -> F), KrylovGen.ok 1%:M (A *m A^T) (b - A *m x0) 0 k ->
  esq A x0 ys (ex (neS A b x0 rc k)) <=
  esq A x0 ys (x0 + A^T *m (0 + KrylovGen.comb 1%:M (A *m A^T) (b - A *m x0) 0 k c)).
Proof. move=> F m n A b x0 rc ys Hys k c hk. exact: (@cgne_optimal F m n A b x0 rc ys Hys k c hk). Qed.
Print Assumptions C07_cgne_optimal.
Theorem C07_cgne_monotone : forall (F : realFieldType) (m n : nat) (A : 'M[F]_(m, n))
  (b : 'cV[F]_m) (x0 : 'cV[F]_n) (rc : nat -> bool) (ys : 'cV[F]_m), (A *m A^T) *m ys = b - A *m x0 ->
  forall k : nat, KrylovGen.ok 1%:M (A *m A^T) (b - A *m x0) 0 k.+1 ->
  esq A x0 ys (ex (neS A b x0 rc k.+1)) <= esq A x0 ys (ex (neS A b x0 rc k)).
Proof. move=> F m n A b x0 rc ys Hys k hk. exact: (@cgne_monotone F m n A b x0 rc ys Hys k hk). Qed.
Print Assumptions C07_cgne_monotone.

(* GMRES: whenever the basis satisfies the Arnoldi relation A V_k = V_{k+1} H with orthonormal V_{k+1}, the initial
   residual is V_{k+1} g, and an orthogonal Q (the product of the Givens rotations) triangularises H
   (Q H = [R; 0], Q g = [gt; gb]), the iterate x0 + V_k y with R y = gt has squared residual norm gb^2 -- the
   quantity the code reports -- and no element of x0 + range(V_k) has a smaller residual.  (The hypotheses are
   the textbook invariants of Arnoldi + Givens; they are not derived from a model of the loops.) *)
Theorem C07_gmres_least_squares_partial : forall (F : realFieldType) (n k : nat) (A : 'M[F]_n) (b x0 : 'cV[F]_n)
  (Vk : 'M[F]_(n, k)) (V1 : 'M[F]_(n, k + 1)) (H : 'M[F]_(k + 1, k)) (g : 'cV[F]_(k + 1)),
  A *m Vk = V1 *m H -> V1^T *m V1 = 1%:M -> b - A *m x0 = V1 *m g ->
  forall (Q : 'M[F]_(k + 1)) (R : 'M[F]_k) (gt : 'cV[F]_k) (gb : 'cV[F]_1),
  Q^T *m Q = 1%:M -> Q *m H = col_mx R 0 -> Q *m g = col_mx gt gb ->
  forall y w : 'cV[F]_k, R *m y = gt ->
  grsq A b (x0 + Vk *m y) = dot gb gb /\ grsq A b (x0 + Vk *m y) <= grsq A b (x0 + Vk *m w).
Proof. move=> F n k A b x0 Vk V1 H g Ar Or Hr Q R gt gb Qo QH Qg y w Hy. exact: (@gmres_optimal F n k A b x0 Vk V1 H g Ar Or Hr Q R gt gb Qo QH Qg y w Hy). Qed.
Print Assumptions C07_gmres_least_squares_partial.

(* non-vacuity: the no-breakdown hypothesis [ok .. k] holds for k = 1 on the 1x1 identity system (b = 1, x0 = 0),
   which is at once an instance for CR (B = K = A = 1), CGNR and CGNE (B = 1, K = A^T A = A A^T = 1) *)
Example C07_ok_satisfiable : forall F : realFieldType, KrylovGen.ok (1%:M : 'M[F]_1) 1%:M 1%:M 0 1.
Proof. exact: ok_example. Qed.
