(* C05 -- a solver that reports symmetric smoothing yields a Hermitian preconditioner.
   Property theorems only. *)
From mathcomp Require Import all_ssreflect all_algebra.
Require Import PV.Model.Cycle PV.Proofs.CycleProofs PV.Algebra.CycleEnergy PV.Algebra.Hermitian.
Require Import PV.Model.SmoothFlag PV.Proofs.SmoothFlagProofs.
Set Implicit Arguments. Unset Strict Implicit. Unset Printing Implicit Defensive.
Import GRing.Theory Num.Theory.
Local Open Scope ring_scope.

(* with symmetric level matrices, R = P^T, a symmetric coarse solve and adjoint smoother pairs
   (B_post = B_pre^T on every level), the V- (w = false) and W-cycle (w = true) operator is
   symmetric, at every depth *)
Theorem C05_cycle_operator_symmetric :
  forall (F : realFieldType) (w : bool) n (h : mhm F n), symgood h -> (Mmx w h)^T = Mmx w h.
Proof. exact: Mmx_sym. Qed.
Print Assumptions C05_cycle_operator_symmetric.

(* that matrix is the operator of the C03 cycle model *)
Theorem C05_matrix_is_cycle_operator :
  forall (F : realFieldType) (w : bool) n (h : mhm F n) (r : 'cV[F]_n),
  Mtb (hm_to_hier h) (if w then CW else CV) 1 r = Mmx w h *m r.
Proof. exact: Mtb_is_Mmx. Qed.
Print Assumptions C05_matrix_is_cycle_operator.

(* <M u, v> = <u, M v> for all u, v *)
Theorem C05_preconditioner_self_adjoint :
  forall (F : realFieldType) (w : bool) n (h : mhm F n), symgood h -> forall u v : 'cV[F]_n,
  (Mtb (hm_to_hier h) (if w then CW else CV) 1 u)^T *m v = u^T *m Mtb (hm_to_hier h) (if w then CW else CV) 1 v.
Proof. exact: cycle_operator_self_adjoint. Qed.
Print Assumptions C05_preconditioner_self_adjoint.

(* the reported flag: the three list-length branches of change_smoothers compute exactly the
   conjunction, over ALL smoothing levels, of the pairwise test on the smoothers actually
   installed (argument lists extended by their last entry) *)
Theorem C05_flag_is_per_level_conjunction :
  forall symlist krylist cf_j fc_j cf_bj fc_bj cffc_prefix d pre post (L : nat),
  (1 <= length pre)%coq_nat -> (1 <= length post)%coq_nat ->
  flag symlist krylist cf_j fc_j cf_bj fc_bj cffc_prefix d pre post L =
  flag_spec symlist krylist cf_j fc_j cf_bj fc_bj cffc_prefix d pre post L.
Proof. exact: flag_is_per_level_conjunction. Qed.
Print Assumptions C05_flag_is_per_level_conjunction.

(* positive definiteness: for a symmetric positive semidefinite invertible level-0 matrix A, if the cycle's error
   propagation e -> e - M A e strictly reduces the energy norm of every nonzero error (C02 proves it never increases
   it; strictness is what the run-time oracle measures on built hierarchies), the V-/W-cycle matrix M is positive
   definite: u^T M u > 0 for every u <> 0.  Together with C05_cycle_operator_symmetric this is the condition under
   which conjugate gradients may be preconditioned with the cycle. *)
Require Import PV.Algebra.Energy PV.Algebra.PrecondPD.
Theorem C05_preconditioner_positive_definite :
  forall (F : realFieldType) (w : bool) n (h : mhm F n),
  let A := htop h in let M := Mmx w h in
  A^T = A -> (forall x : 'cV[F]_n, 0 <= en A x) -> A \in unitmx ->
  (forall v : 'cV[F]_n, v != 0 -> en A (v - M *m (A *m v)) < en A v) ->
  forall u : 'cV[F]_n, u != 0 -> 0 < sc (u^T *m M *m u).
Proof. move=> F w n h A M As Ap Au Hc u Hu. exact: (@precond_pd F n A M As Ap Au Hc u Hu). Qed.
Print Assumptions C05_preconditioner_positive_definite.
(* pointwise form without invertibility: wherever the cycle strictly reduces the energy of v, the form of M at A v
   is positive *)
Theorem C05_preconditioner_positive_on_range :
  forall (F : realFieldType) n (A M : 'M[F]_n), A^T = A -> (forall x : 'cV[F]_n, 0 <= en A x) ->
  forall v : 'cV[F]_n, en A (v - M *m (A *m v)) < en A v -> 0 < sc ((A *m v)^T *m M *m (A *m v)).
Proof. move=> F n A M As Ap v Hv. exact: (@precond_pos F n A M As Ap v Hv). Qed.
Print Assumptions C05_preconditioner_positive_on_range.
(* non-vacuity: the strict-contraction hypothesis holds for A = M = 1 (exact solve, E = 0) *)
Example C05_strict_contraction_satisfiable : forall (F : realFieldType) (v : 'cV[F]_1), v != 0 ->
  en (1%:M) (v - (1%:M : 'M[F]_1) *m (1%:M *m v)) < en (1%:M) v.
Proof. exact: pd_example. Qed.
