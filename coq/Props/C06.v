(* C06 -- Krylov solvers: status, residual history and callback tell the truth.
   Property theorems about the control skeleton shared by cg, cr, cgne, cgnr, bicgstab,
   steepest_descent and minimal_residual; they hold for every step function, every recorded /
   tested norm, every threshold and every comparison. *)
From Coq Require Import List Arith Bool Lia.
Import ListNotations.
Require Import PV.Model.Solve PV.Proofs.SolveProofs PV.Model.KrylovCtl PV.Proofs.KrylovCtlProofs.

Theorem C06_terminates : forall V F ltb step hist crit thr maxiter early (x0 : V), 1 <= maxiter ->
  exists r, krylov V F ltb step hist crit thr maxiter early x0 = Some r.
Proof. exact terminates. Qed.
Print Assumptions C06_terminates.

(* an initial guess meeting the criterion is returned unchanged with status 0 *)
Theorem C06_converged_guess : forall V F ltb step hist crit thr maxiter (x0 : V),
  ltb (crit x0) (thr x0) = true ->
  krylov V F ltb step hist crit thr maxiter true x0 =
  Some {| rx := x0; rstatus := 0; rres := [obs V F hist crit thr x0]; rcb := [] |}.
Proof. intros. apply converged_guess; [reflexivity|assumption]. Qed.
Print Assumptions C06_converged_guess.

(* status 0 <-> the returned iterate meets the criterion; a positive status is the iteration
   count (= maxiter); one history entry per iterate, the last one belonging to the returned x;
   the callback receives exactly the iterates; the first success stops the iteration *)
Theorem C06_status_history_callback : forall V F ltb step hist crit thr maxiter early (x0 : V) r,
  1 <= maxiter -> (early = false \/ ltb (crit x0) (thr x0) = false) ->
  krylov V F ltb step hist crit thr maxiter early x0 = Some r ->
  exists k, 1 <= k <= maxiter
    /\ rx r = iter V step k x0
    /\ rcb r = iterates V step k x0
    /\ last (rcb r) x0 = rx r
    /\ map (fun t => fst (fst t)) (rres r) = map hist (x0 :: rcb r)
    /\ length (rres r) = S k
    /\ (forall j, j < k - 1 -> ltb (crit (iter V step (S j) x0)) (thr (iter V step (S j) x0)) = false)
    /\ (rstatus r = 0 <-> ltb (crit (rx r)) (thr (rx r)) = true)
    /\ (rstatus r <> 0 -> rstatus r = k /\ k = maxiter).
Proof. exact iterating. Qed.
Print Assumptions C06_status_history_callback.

(* a solver without the early exit (steepest_descent as found, finding F8) does NOT return a
   converged guess unchanged: the faithful model of that code iterates once more *)
Theorem C06_converged_guess_without_early_exit_refuted :
  exists r, krylov nat nat Nat.ltb S (fun x => x) (fun x => x) (fun _ => 5) 3 false 0 = Some r /\ rx r <> 0.
Proof. eexists. split; [vm_compute; reflexivity|]. cbn. discriminate. Qed.
Print Assumptions C06_converged_guess_without_early_exit_refuted.

(* ---- the GMRES family (gmres_mgs, gmres_householder, fgmres): outer/inner loops with the Givens estimate ---- *)
Require Import PV.Model.GmresCtl PV.Proofs.GmresCtlProofs.
From Coq Require Import ZArith.
(* for EVERY sequence of estimates, recomputed norms and stagnation flags, with at least one outer and one inner
   iteration allowed and every Arnoldi step counted: the history has one entry per callback plus the initial one;
   status 0 only if the last history entry is below the threshold; a positive status is the number of Arnoldi steps
   performed and then the last entry is not below the threshold; the only other status is -1 *)
Theorem C06_gmres_status_truthful : forall (F : Type) (ltb : F -> F -> bool) (thr : F) (max_outer max_inner : nat)
  (est tru : nat -> nat -> F) (stag : nat -> nat -> bool) (r0 : F),
  1 <= max_inner -> 1 <= max_outer ->
  let '(st, s') := gmres_ctl F ltb thr true max_outer max_inner est tru stag r0 in
  length (hist s') = S (ncb s') /\
  (st = 0%Z -> last_lt F ltb thr s') /\
  ((0 < st)%Z -> st = Z.of_nat (steps s') /\ last_ge F ltb thr s') /\
  (st = (-1)%Z \/ (0 <= st)%Z).
Proof. intros F ltb thr mo mi est tru stag r0 Hi Ho. exact (gmres_status_truthful F ltb thr mo mi est tru stag Hi r0 Ho). Qed.
Print Assumptions C06_gmres_status_truthful.
(* counting an Arnoldi step only after the convergence test did not fire (fgmres before its repair, F23) is refuted:
   the inner loop stops at its first step on an estimate below the threshold, the recomputed norm 5 is not below
   the threshold 1, no outer iteration is left, and the status is 0 *)
Theorem C06_gmres_count_after_test_refuted :
  exists (est tru : nat -> nat -> nat),
  let '(st, s') := gmres_ctl nat Nat.ltb 1 false 1 2 est tru (fun _ _ => false) 7 in
  st = 0%Z /\ steps s' = 1 /\ hist s' = [7; 5] /\ Nat.ltb 5 1 = false.
Proof. exact gmres_count_after_test_refuted. Qed.
Print Assumptions C06_gmres_count_after_test_refuted.
