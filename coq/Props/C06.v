(* C06 -- Krylov solvers: status, residual history and callback tell the truth.
   Property theorems about the control skeleton shared by cg, cr, cgne, cgnr, bicgstab,
   steepest_descent and minimal_residual; they hold for every step function, every recorded /
   tested norm, every threshold and every comparison. *)
From Coq Require Import List Arith Bool Lia.
Import ListNotations.
Require Import PV.Model.Solve PV.Proofs.SolveProofs PV.Model.KrylovCtl PV.Proofs.KrylovCtlProofs.

Theorem C06_terminates : forall V F ltb step hist crit thr maxiter early (x0 : V), 1 <= maxiter ->
  exists r, krylov V F ltb step hist crit thr maxiter early x0 = Some r.
Proof. exact terminates. Qed.
Print Assumptions C06_terminates.

(* an initial guess meeting the criterion is returned unchanged with status 0 *)
Theorem C06_converged_guess : forall V F ltb step hist crit thr maxiter (x0 : V),
  ltb (crit x0) (thr x0) = true ->
  krylov V F ltb step hist crit thr maxiter true x0 =
  Some {| rx := x0; rstatus := 0; rres := [obs V F hist crit thr x0]; rcb := [] |}.
Proof. intros. apply converged_guess; [reflexivity|assumption]. Qed.
Print Assumptions C06_converged_guess.

(* status 0 <-> the returned iterate meets the criterion; a positive status is the iteration
   count (= maxiter); one history entry per iterate, the last one belonging to the returned x;
   the callback receives exactly the iterates; the first success stops the iteration *)
Theorem C06_status_history_callback : forall V F ltb step hist crit thr maxiter early (x0 : V) r,
  1 <= maxiter -> (early = false \/ ltb (crit x0) (thr x0) = false) ->
  krylov V F ltb step hist crit thr maxiter early x0 = Some r ->
  exists k, 1 <= k <= maxiter
    /\ rx r = iter V step k x0
    /\ rcb r = iterates V step k x0
    /\ last (rcb r) x0 = rx r
    /\ map (fun t => fst (fst t)) (rres r) = map hist (x0 :: rcb r)
    /\ length (rres r) = S k
    /\ (forall j, j < k - 1 -> ltb (crit (iter V step (S j) x0)) (thr (iter V step (S j) x0)) = false)
    /\ (rstatus r = 0 <-> ltb (crit (rx r)) (thr (rx r)) = true)
    /\ (rstatus r <> 0 -> rstatus r = k /\ k = maxiter).
Proof. exact iterating. Qed.
Print Assumptions C06_status_history_callback.

(* a solver without the early exit (steepest_descent as found, finding F8) does NOT return a
   converged guess unchanged: the faithful model of that code iterates once more *)
Theorem C06_converged_guess_without_early_exit_refuted :
  exists r, krylov nat nat Nat.ltb S (fun x => x) (fun x => x) (fun _ => 5) 3 false 0 = Some r /\ rx r <> 0.
Proof. eexists. split; [vm_compute; reflexivity|]. cbn. discriminate. Qed.
Print Assumptions C06_converged_guess_without_early_exit_refuted.
