(* C01 -- multigrid solve: termination, tolerance and truthful reporting.
   Property theorems only (each closed by [exact]); the statements hold for ANY
   comparison [ltb], hence verbatim for the IEEE comparison the code performs. *)
From Coq Require Import List Arith Lia Bool.
Import ListNotations.
Require Import PV.Model.Solve PV.Proofs.SolveProofs.

Theorem C01_terminates : forall V F ltb cyc rn thr maxiter (x0 : V), 1 <= maxiter ->
  exists r, solve V F ltb cyc rn thr maxiter x0 = Some r.
Proof. exact solve_terminates. Qed.
Print Assumptions C01_terminates.

Theorem C01_solve_spec : forall V F ltb cyc rn thr maxiter (x0 : V) r, 1 <= maxiter ->
  solve V F ltb cyc rn thr maxiter x0 = Some r ->
  exists k, 1 <= k <= maxiter
    /\ rx r = iter V cyc k x0
    /\ rcb r = iterates V cyc k x0
    /\ last (rcb r) x0 = rx r
    /\ rres r = map rn (x0 :: rcb r)
    /\ length (rres r) = S k
    /\ (forall j, j < k - 1 -> ltb (rn (iter V cyc (S j) x0)) thr = false)
    /\ (rstatus r = 0 <-> ltb (rn (rx r)) thr = true)
    /\ (rstatus r <> 0 -> rstatus r = k /\ k = maxiter).
Proof. exact solve_result. Qed.
Print Assumptions C01_solve_spec.

Theorem C01_history_length : forall V F ltb cyc rn thr maxiter (x0 : V) r,
  solve V F ltb cyc rn thr maxiter x0 = Some r -> length (rres r) = S (length (rcb r)).
Proof. exact history_length. Qed.
Print Assumptions C01_history_length.

(* non-vacuity: a concrete run (halving iteration, stop below 3, cap 10) *)
Example C01_example_run : solve nat nat Nat.ltb (fun x => x / 2) (fun x => x) 3 10 100
  = Some {| rx := 1; rstatus := 0; rres := [100; 50; 25; 12; 6; 3; 1]; rcb := [50; 25; 12; 6; 3; 1] |}.
Proof. vm_compute. reflexivity. Qed.
Example C01_example_cap : solve nat nat Nat.ltb (fun x => x / 2) (fun x => x) 3 2 100
  = Some {| rx := 25; rstatus := 2; rres := [100; 50; 25]; rcb := [50; 25] |}.
Proof. vm_compute. reflexivity. Qed.
