(* C02 -- SPD problems: no multigrid cycle increases the energy norm of the error.
   Property theorems only.  F is any real field; matrices are mathcomp matrices; the cycle is
   the very function [Cycle.cycle] of C03 instantiated on column vectors. *)
From mathcomp Require Import all_ssreflect all_algebra.
Require Import PV.Model.Cycle PV.Proofs.CycleProofs PV.Algebra.Energy PV.Algebra.CycleEnergy PV.Algebra.Smoothers.
Set Implicit Arguments. Unset Strict Implicit. Unset Printing Implicit Defensive.
Import GRing.Theory Num.Theory.
Local Open Scope ring_scope.

(* [good h]: every level matrix symmetric with nonnegative energy, R = P^T, Galerkin coarse
   matrices (invertible), exact coarsest solve, additive smoother correctors whose error
   propagation does not increase the energy norm.  Then for V, W and F cycles, any
   cycles_per_level, any right-hand side and any initial guess: *)
Theorem C02_cycle_does_not_increase_energy :
  forall (F : realFieldType) n (h : mhier F n), good h ->
  forall ct cpl (x b xs : 'cV[F]_n), mtop h *m xs = b ->
  en (mtop h) (xs - cycle (to_hier h) ct cpl x b) <= en (mtop h) (xs - x).
Proof. exact: cycle_energy_monotone. Qed.
Print Assumptions C02_cycle_does_not_increase_energy.

(* the error propagation operator  e |-> e - M (A e)  of the textbook M is nonexpansive *)
Theorem C02_error_propagation_nonexpansive :
  forall (F : realFieldType) n (h : mhier F n), good h -> forall ct cpl (e : 'cV[F]_n),
  en (mtop h) (e - Mtb (to_hier h) ct cpl (mtop h *m e)) <= en (mtop h) e.
Proof. exact: cycle_error_nonexp. Qed.
Print Assumptions C02_error_propagation_nonexpansive.

(* the stand-alone solve: k cycles never increase the energy of the error (monotone) *)
Theorem C02_solve_energy_monotone :
  forall (F : realFieldType) n (h : mhier F n), good h ->
  forall ct cpl (b xs : 'cV[F]_n), mtop h *m xs = b -> forall k (x : 'cV[F]_n),
  en (mtop h) (xs - repeat_fn k (fun y => cycle (to_hier h) ct cpl y b) x) <= en (mtop h) (xs - x).
Proof.
move=> F n h G ct cpl b xs Hb. elim=> [|k IH] x //=.
apply: (Order.POrderTheory.le_trans (IH _)). exact: cycle_energy_monotone.
Qed.
Print Assumptions C02_solve_energy_monotone.

(* admissible smoothers: (block) Gauss-Seidel in any order and number of sweeps, multiplicative
   Schwarz with exact sub-block solves (omega = 1) and SOR (0 <= omega <= 2): the corrector is
   additive and the error propagation does not increase the energy norm *)
Theorem C02_gs_sor_schwarz_corrector_additive :
  forall (F : realFieldType) n (A : 'M[F]_n) (omega : F) (bs : seq (block F n)),
  additive (cvG F n) (cvG F n) (Bsweep A omega bs).
Proof. move=> F n A omega bs. exact: Bsweep_additive. Qed.
Print Assumptions C02_gs_sor_schwarz_corrector_additive.

Theorem C02_gs_sor_schwarz_nonexpansive :
  forall (F : realFieldType) n (A : 'M[F]_n), A^T = A -> (forall x : 'cV[F]_n, 0 <= en A x) ->
  forall omega : F, 0 <= omega <= 2%:R ->
  forall bs : seq (block F n), all (fun b => gram A b \in unitmx) bs ->
  forall e : 'cV[F]_n, en A (e - Bsweep A omega bs (A *m e)) <= en A e.
Proof. move=> F n A As Ap om Hom bs U e. exact: sweep_nonexp. Qed.
Print Assumptions C02_gs_sor_schwarz_nonexpansive.

(* exact or inexact coarse-grid correction with R = P^T and a Galerkin coarse matrix *)
Theorem C02_coarse_grid_correction_nonexpansive :
  forall (F : realFieldType) (n m : nat) (A : 'M[F]_n) (P : 'M[F]_(n, m)),
  A^T = A -> (P^T *m A *m P) \in unitmx ->
  forall Mc : 'cV[F]_m -> 'cV[F]_m,
  (forall w : 'cV[F]_m, en (P^T *m A *m P) (w - Mc (P^T *m A *m P *m w)) <= en (P^T *m A *m P) w) ->
  forall e : 'cV[F]_n, en A (e - P *m Mc (P^T *m (A *m e))) <= en A e.
Proof. exact: inexact_cgc_nonexp. Qed.
Print Assumptions C02_coarse_grid_correction_nonexpansive.

(* non-vacuity: a two-level hierarchy meeting [good] over every real field *)
Section Example.
Variable F : realFieldType.
Lemma en1_ge0 n (x : 'cV[F]_n) : 0 <= en (1%:M : 'M[F]_n) x.
Proof.
rewrite /en /ip mulmx1 /sc mxE. apply: sumr_ge0 => i _. by rewrite mxE -expr2 sqr_ge0.
Qed.
Definition h2 n : mhier F n :=
  MLevel (1%:M : 'M[F]_n) (fun _ => 0) (fun _ => 0) (1%:M : 'M[F]_(n, n)) (MCoarsest (1%:M : 'M[F]_n)).
Example C02_good_inhabited n : good (h2 n).
Proof.
rewrite /h2 /=. split; [split|split] => //.
- exact: trmx1.
- exact: en1_ge0.
- by rewrite trmx1 !mulmx1.
- exact: unitmx1.
- by move=> a b /=; rewrite addr0.
- by move=> a b /=; rewrite addr0.
- by move=> e; rewrite subr0.
- by move=> e; rewrite subr0.
- split; [exact: unitmx1 | exact: trmx1 | exact: en1_ge0].
Qed.
End Example.
