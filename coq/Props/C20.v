(* C20 -- gallery operators equal the discretisations they document.  Property theorems. *)
From Coq Require Import ZArith List Bool Ring.
Import ListNotations.
Require Import PV.Model.Stencil PV.Model.StencilRun PV.Proofs.StencilBounded PV.Proofs.GalleryProofs.

(* stencil_grid = "row of a grid point holds the stencil entries of the neighbours that exist":
   bounded theorem -- every grid with 1..3 points per dimension in 1-3 D (1..5 in 1-D), 1-wide
   and non-square grids included, stencils 3^d (5 and 1 in 1-D, 1x3 and 3x5 in 2-D) with the
   generic base-4 entries (see StencilBounded.v for why this determines the contributing
   stencil positions of every matrix entry) *)
Theorem C20_stencil_grid_spec_bounded : forall g, In g grids -> ok g = true.
Proof. exact stencil_bounded. Qed.
Print Assumptions C20_stencil_grid_spec_bounded.

(* the 2-D diffusion stencils sum to zero for every anisotropy and rotation, over any
   commutative ring (FE: identically; FD: given cos^2 + sin^2 = 1) *)
Theorem C20_diffusion_FE_sums_to_zero :
  forall R r0 r1 radd rmul rsub ropp, ring_theory r0 r1 radd rmul rsub ropp (@eq R) ->
  forall eps CC SS CS : R,
  radd (radd (radd (radd (fe_a R r1 radd rmul rsub ropp eps CC SS CS) (fe_b R r1 radd rmul rsub ropp eps CC SS))
                   (fe_c R r1 radd rmul rsub ropp eps CC SS CS))
             (radd (radd (fe_d R r1 radd rmul rsub ropp eps CC SS) (fe_e R r1 radd rmul eps CC SS))
                   (fe_d R r1 radd rmul rsub ropp eps CC SS)))
       (radd (radd (fe_c R r1 radd rmul rsub ropp eps CC SS CS) (fe_b R r1 radd rmul rsub ropp eps CC SS))
             (fe_a R r1 radd rmul rsub ropp eps CC SS CS)) = r0.
Proof. exact fe_stencil_sums_to_zero. Qed.
Print Assumptions C20_diffusion_FE_sums_to_zero.

Theorem C20_diffusion_FD_sums_to_zero :
  forall R r0 r1 radd rmul rsub ropp, ring_theory r0 r1 radd rmul rsub ropp (@eq R) ->
  forall eps CC SS CS half : R, radd CC SS = r1 ->
  radd (radd (radd (radd (fd_a R r1 rmul rsub eps CS half) (fd_b R radd rmul ropp eps CC SS))
                   (fd_c R r1 rmul rsub ropp eps CS half))
             (radd (radd (fd_d R radd rmul ropp eps CC SS) (fd_e R r1 radd rmul eps))
                   (fd_d R radd rmul ropp eps CC SS)))
       (radd (radd (fd_c R r1 rmul rsub ropp eps CS half) (fd_b R radd rmul ropp eps CC SS))
             (fd_a R r1 rmul rsub eps CS half)) = r0.
Proof. exact fd_stencil_sums_to_zero. Qed.
Print Assumptions C20_diffusion_FD_sums_to_zero.
