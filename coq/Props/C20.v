(* C20 -- gallery operators equal the discretisations they document.  Property theorems. *)
From Coq Require Import ZArith List Bool Ring.
Import ListNotations.
Require Import PV.Model.Stencil PV.Model.StencilRun PV.Proofs.StencilBounded PV.Proofs.StencilProofs PV.Proofs.StencilEntry PV.Model.Poisson PV.Proofs.PoissonProofs PV.Proofs.StencilRowSum PV.Proofs.GalleryProofs.
Require Import PV.Base.Ops PV.Proofs.RelaxProofs PV.Model.Diffusion PV.Proofs.DiffusionProofs.

(* stencil_grid = "row of a grid point holds the stencil entries of the neighbours that exist":
   bounded theorem -- every grid with 1..3 points per dimension in 1-3 D (1..5 in 1-D), 1-wide
   and non-square grids included, stencils 3^d (5 and 1 in 1-D, 1x3 and 3x5 in 2-D) with the
   generic base-4 entries (see StencilBounded.v for why this determines the contributing
   stencil positions of every matrix entry) *)
Theorem C20_stencil_grid_spec_bounded : forall g, In g grids -> ok g = true.
Proof. exact stencil_bounded. Qed.
Print Assumptions C20_stencil_grid_spec_bounded.

(* ... and without any bound: on EVERY grid (any number of dimensions, every extent positive -- 1-wide and non-square
   grids included) and for every stencil with as many dimensions as the grid, whatever its extents and entries, the
   matrix the generator assembles (one DIA diagonal per nonzero stencil entry, boundary slices zeroed, diagonals outside
   the matrix dropped, equal offsets summed) is the matrix whose (p, q) entry is the sum of the nonzero stencil entries
   e with p + offset(e) = q, rows and columns in row-major order of the grid points.  Values of any type with an
   addition for which the "zero" written into the boundary slices is a right identity. *)
Theorem C20_stencil_grid_is_spec : forall (V : Type) (vzero : V) (vadd : V -> V -> V) (vnz : V -> bool),
  (forall a, vadd a vzero = a) ->
  forall shape g vals, Forall (fun d => 0 < d)%Z g -> length shape = length g ->
  stencil_grid V vzero vadd vnz shape g vals = spec V vzero vadd vnz shape g vals.
Proof. exact stencil_grid_is_spec. Qed.
Print Assumptions C20_stencil_grid_is_spec.

(* what "row-major order of the grid points" means: the rows / columns of the specification are the multi-indices of
   the flat indices 0 .. N-1, each of them a grid point, and flat index <-> multi-index is a bijection *)
Theorem C20_grid_points_row_major : forall g, Forall (fun d => 0 < d)%Z g ->
  box g = map (unravel g) (idx (prodl g)) /\
  (forall j, valid g (unravel g j)) /\
  (forall j, (0 <= j < prodl g)%Z -> dotz (strides g) (unravel g j) = j) /\
  (forall q, valid g q -> unravel g (dotz (strides g) q) = q /\ (0 <= dotz (strides g) q < prodl g)%Z).
Proof.
  intros g Hg. split; [exact (box_unravel g Hg)|]. split; [exact (unravel_valid g Hg)|].
  split; [exact (ravel_unravel g Hg)|]. intros q Hq. split; [exact (unravel_ravel g q Hq)|exact (ravel_range g q Hq)].
Qed.
Print Assumptions C20_grid_points_row_major.

(* the hypotheses are met, and the statement is not empty: the 5-point stencil on the 2 x 3 grid *)
Example C20_stencil_grid_is_spec_example :
  sgZ [3; 3]%Z [2; 3]%Z [0; -1; 0; -1; 4; -1; 0; -1; 0]%Z
  = [[4; -1; 0; -1; 0; 0]; [-1; 4; -1; 0; -1; 0]; [0; -1; 4; 0; 0; -1];
     [-1; 0; 0; 4; -1; 0]; [0; -1; 0; -1; 4; -1]; [0; 0; -1; 0; -1; 4]]%Z
  /\ Forall (fun d => 0 < d)%Z [2; 3]%Z /\ length [3; 3]%Z = length [2; 3]%Z /\ (forall a, a + 0 = a)%Z.
Proof.
  split; [vm_compute; reflexivity|]. split; [repeat constructor|]. split; [reflexivity|]. intros a. apply Z.add_0_r.
Qed.

(* "the row for a grid point holds the stencil entries of the neighbours that exist", entry by entry: the pair of grid points
   (p, q) receives exactly ONE stencil entry, the one at stencil position q - p + centre, and nothing when that position lies
   outside the stencil (any stencil, given as a function of the position; any number of dimensions) *)
Theorem C20_stencil_entry_is_the_neighbour_entry :
  forall (V : Type) (vzero : V) (vadd : V -> V -> V) (vnz : V -> bool), (forall a, vadd vzero a = a) ->
  forall (f : list Z -> V) shape g p q,
  Forall (fun d => 0 < d)%Z shape -> length p = length shape -> length q = length shape ->
  let t := vec_add (vec_sub q p) (centre shape) in
  spec_entry V vzero vadd vnz shape g (map f (Stencil.box shape)) p q
  = if validb shape t then (if vnz (f t) then f t else vzero) else vzero.
Proof. exact spec_entry_single. Qed.
Print Assumptions C20_stencil_entry_is_the_neighbour_entry.

(* pyamg.gallery.poisson as written (Model/Poisson.v: the (3,)*N stencil handed to stencil_grid), on EVERY grid in any number
   of dimensions: entry (p, q) is 2N (FD) / 3^N - 1 (FE) on the diagonal, -1 for q a face neighbour of p (FD) / any of the
   3^N - 1 neighbours (FE), 0 otherwise *)
Theorem C20_poisson_matrix_closed_form : forall fe g, Forall (fun d => 0 < d)%Z g ->
  poissonZ fe g = map (fun p => map (fun q => if fe then fe_entry (length g) p q else fd_entry (length g) p q) (Stencil.box g)) (Stencil.box g).
Proof. exact poisson_matrix. Qed.
Print Assumptions C20_poisson_matrix_closed_form.

(* hence the Poisson matrices are symmetric, with positive diagonal (N >= 1) and off-diagonal entries -1 or 0 *)
Theorem C20_poisson_symmetric_sign_pattern : forall N p q,
  (fd_entry N p q = fd_entry N q p /\ fe_entry N p q = fe_entry N q p) /\
  (fd_entry N p p = 2 * Z.of_nat N /\ fe_entry N p p = 3 ^ Z.of_nat N - 1)%Z /\
  (length p = length q -> p <> q ->
   (fd_entry N p q = -1 \/ fd_entry N p q = 0)%Z /\ (fe_entry N p q = -1 \/ fe_entry N p q = 0)%Z).
Proof.
  intros N p q. split; [exact (poisson_symmetric N p q)|]. split; [exact (poisson_diagonal N p)|].
  exact (poisson_offdiagonal N p q).
Qed.
Print Assumptions C20_poisson_symmetric_sign_pattern.

(* row sums: the sum of row p of the stencil matrix is the sum of the nonzero stencil entries whose neighbour p + offset exists
   in the grid (every grid, every dimension, every integer stencil) *)
Theorem C20_stencil_row_sum : forall shape g vals p,
  Forall (fun d => 0 < d)%Z g -> length shape = length g -> length p = length g ->
  row_sum shape g vals p =
  sumZ (map (fun e => if negb (snd e =? 0)%Z && validb g (vec_add p (centred shape (fst e))) then snd e else 0%Z)
            (combine (Stencil.box shape) vals)).
Proof. exact stencil_row_sum. Qed.
Print Assumptions C20_stencil_row_sum.

(* the finite-difference Poisson matrix is weakly diagonally dominant on every grid in every dimension: every row sum is >= 0
   (the stencil sums to zero in every dimension and only entries -1 are cut off at the boundary); together with the sign
   pattern above: |a_pp| >= sum of |a_pq| over q <> p *)
Theorem C20_poisson_fd_weakly_diagonally_dominant : forall g p, Forall (fun d => 0 < d)%Z g -> valid g p ->
  (0 <= sumZ (map (fun q => fd_entry (length g) p q) (Stencil.box g)))%Z.
Proof. exact poisson_fd_row_sums_nonneg. Qed.
Print Assumptions C20_poisson_fd_weakly_diagonally_dominant.

Example C20_poisson_example :
  poissonZ false [2; 3]%Z = [[4; -1; 0; -1; 0; 0]; [-1; 4; -1; 0; -1; 0]; [0; -1; 4; 0; 0; -1];
                             [-1; 0; 0; 4; -1; 0]; [0; -1; 0; -1; 4; -1]; [0; 0; -1; 0; -1; 4]]%Z /\
  poissonZ true [2; 2]%Z = [[8; -1; -1; -1]; [-1; 8; -1; -1]; [-1; -1; 8; -1]; [-1; -1; -1; 8]]%Z.
Proof. split; vm_compute; reflexivity. Qed.

(* the 2-D diffusion stencils sum to zero for every anisotropy and rotation, over any
   commutative ring (FE: identically; FD: given cos^2 + sin^2 = 1) *)
Theorem C20_diffusion_FE_sums_to_zero :
  forall R r0 r1 radd rmul rsub ropp, ring_theory r0 r1 radd rmul rsub ropp (@eq R) ->
  forall eps CC SS CS : R,
  radd (radd (radd (radd (fe_a R r1 radd rmul rsub ropp eps CC SS CS) (fe_b R r1 radd rmul rsub ropp eps CC SS))
                   (fe_c R r1 radd rmul rsub ropp eps CC SS CS))
             (radd (radd (fe_d R r1 radd rmul rsub ropp eps CC SS) (fe_e R r1 radd rmul eps CC SS))
                   (fe_d R r1 radd rmul rsub ropp eps CC SS)))
       (radd (radd (fe_c R r1 radd rmul rsub ropp eps CC SS CS) (fe_b R r1 radd rmul rsub ropp eps CC SS))
             (fe_a R r1 radd rmul rsub ropp eps CC SS CS)) = r0.
Proof. exact fe_stencil_sums_to_zero. Qed.
Print Assumptions C20_diffusion_FE_sums_to_zero.

Theorem C20_diffusion_FD_sums_to_zero :
  forall R r0 r1 radd rmul rsub ropp, ring_theory r0 r1 radd rmul rsub ropp (@eq R) ->
  forall eps CC SS CS half : R, radd CC SS = r1 ->
  radd (radd (radd (radd (fd_a R r1 rmul rsub eps CS half) (fd_b R radd rmul ropp eps CC SS))
                   (fd_c R r1 rmul rsub ropp eps CS half))
             (radd (radd (fd_d R radd rmul ropp eps CC SS) (fd_e R r1 radd rmul eps))
                   (fd_d R radd rmul ropp eps CC SS)))
       (radd (radd (fd_c R r1 rmul rsub ropp eps CS half) (fd_b R radd rmul ropp eps CC SS))
             (fd_a R r1 rmul rsub eps CS half)) = r0.
Proof. exact fd_stencil_sums_to_zero. Qed.
Print Assumptions C20_diffusion_FD_sums_to_zero.

(* both 2-D diffusion stencils, as the library computes them from eps, C = cos(theta), S = sin(theta), are exact
   on quadratic polynomials: 0 on 1, x, y and  -2 K11, -2 K22, -2 K12  on x^2, y^2, xy, where
   K = Q diag(1, eps) Q^T, Q the rotation by theta -- they discretise -div K grad u (h = 1).  Any field with
   2 and 3 invertible; FD on constants needs C^2 + S^2 = 1.  (First array index = x, second = y.) *)
Theorem C20_diffusion_FE_exact_on_quadratics : forall F (o : Ops F) inv, is_field o inv ->
  add o (one o) (one o) <> zero o -> add o (add o (one o) (one o)) (one o) <> zero o ->
  forall eps C S : F,
  let st := fe_stencil o eps C S in
  let two := add o (one o) (one o) in
  let K11 := add o (mul o C C) (mul o eps (mul o S S)) in
  let K22 := add o (mul o S S) (mul o eps (mul o C C)) in
  let K12 := mul o (sub o (one o) eps) (mul o C S) in
  apply_stencil o st (fun _ _ => one o) = zero o /\
  apply_stencil o st (fun x _ => x) = zero o /\ apply_stencil o st (fun _ y => y) = zero o /\
  apply_stencil o st (fun x _ => mul o x x) = opp o (mul o two K11) /\
  apply_stencil o st (fun _ y => mul o y y) = opp o (mul o two K22) /\
  apply_stencil o st (fun x y => mul o x y) = opp o (mul o two K12).
Proof.
  intros F [z0 o1 ad sb ml dv op ab eq le lt] inv [Fth _] H2 H3 eps C S.
  repeat split.
  - exact (fe_const F z0 o1 ad ml sb op dv inv ab eq le lt Fth H2 H3 eps C S).
  - exact (fe_x F z0 o1 ad ml sb op dv inv ab eq le lt Fth H2 H3 eps C S).
  - exact (fe_y F z0 o1 ad ml sb op dv inv ab eq le lt Fth H2 H3 eps C S).
  - exact (fe_xx F z0 o1 ad ml sb op dv inv ab eq le lt Fth H2 H3 eps C S).
  - exact (fe_yy F z0 o1 ad ml sb op dv inv ab eq le lt Fth H2 H3 eps C S).
  - exact (fe_xy F z0 o1 ad ml sb op dv inv ab eq le lt Fth H2 H3 eps C S).
Qed.
Print Assumptions C20_diffusion_FE_exact_on_quadratics.

Theorem C20_diffusion_FD_exact_on_quadratics : forall F (o : Ops F) inv, is_field o inv ->
  add o (one o) (one o) <> zero o -> add o (add o (one o) (one o)) (one o) <> zero o ->
  forall eps C S : F, add o (mul o C C) (mul o S S) = one o ->
  let st := fd_stencil o eps C S in
  let two := add o (one o) (one o) in
  let K11 := add o (mul o C C) (mul o eps (mul o S S)) in
  let K22 := add o (mul o S S) (mul o eps (mul o C C)) in
  let K12 := mul o (sub o (one o) eps) (mul o C S) in
  apply_stencil o st (fun _ _ => one o) = zero o /\
  apply_stencil o st (fun x _ => x) = zero o /\ apply_stencil o st (fun _ y => y) = zero o /\
  apply_stencil o st (fun x _ => mul o x x) = opp o (mul o two K11) /\
  apply_stencil o st (fun _ y => mul o y y) = opp o (mul o two K22) /\
  apply_stencil o st (fun x y => mul o x y) = opp o (mul o two K12).
Proof.
  intros F [z0 o1 ad sb ml dv op ab eq le lt] inv [Fth _] H2 H3 eps C S HP.
  repeat split.
  - exact (fd_const F z0 o1 ad ml sb op dv inv ab eq le lt Fth H2 eps C S HP).
  - exact (fd_x F z0 o1 ad ml sb op dv inv ab eq le lt Fth H2 eps C S).
  - exact (fd_y F z0 o1 ad ml sb op dv inv ab eq le lt Fth H2 eps C S).
  - exact (fd_xx F z0 o1 ad ml sb op dv inv ab eq le lt Fth H2 eps C S).
  - exact (fd_yy F z0 o1 ad ml sb op dv inv ab eq le lt Fth H2 eps C S).
  - exact (fd_xy F z0 o1 ad ml sb op dv inv ab eq le lt Fth H2 eps C S).
Qed.
Print Assumptions C20_diffusion_FD_exact_on_quadratics.
