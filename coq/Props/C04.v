(* C04 -- hierarchy structure: coarsening limits.  Property theorems only. *)
From Coq Require Import List Arith Bool Lia.
Import ListNotations.
Require Import PV.Model.Hierarchy PV.Proofs.HierarchyProofs.

(* for every level-extension oracle, max_levels and max_coarse: the loop terminates, the finest
   level is the input, 1 <= #levels <= max(1, max_levels), dimensions chain, and coarsening
   stops only because of max_levels, max_coarse or a stall *)
Theorem C04_coarsening_loop : forall step max_levels max_coarse n0,
  exists r, build step max_levels max_coarse n0 = Some r /\
  hd 0 r = n0 /\ 1 <= length r <= Nat.max 1 max_levels /\ chained step 0 r /\
  (length r >= max_levels \/ last r 0 <= max_coarse \/ step (length r - 1) (last r 0) = Stall).
Proof. exact build_spec. Qed.
Print Assumptions C04_coarsening_loop.

(* classical / AIR: the stall test forces 0 < #C < n, hence strictly decreasing sizes *)
Theorem C04_sizes_decrease_when_extension_shrinks : forall step max_levels max_coarse n0 r,
  (forall i n nc, step i n = Next nc -> nc < n) ->
  build step max_levels max_coarse n0 = Some r -> decreasing r.
Proof. exact build_decreasing. Qed.
Print Assumptions C04_sizes_decrease_when_extension_shrinks.

(* aggregation-based constructors have no stall exit: an extension that does not shrink
   (naive aggregation of a diagonal matrix, or a 1-node level with max_coarse = 0) is repeated
   until max_levels -- the strict-decrease clause is refuted by the faithful model (F6) *)
Theorem C04_sizes_decrease_refuted :
  exists step max_levels max_coarse n0 r, build step max_levels max_coarse n0 = Some r /\ ~ decreasing r.
Proof.
  exists (fun _ n => Next n), 4, 0, 1, [1; 1; 1; 1]. split; [vm_compute; reflexivity|].
  cbn. intros [H _]. lia.
Qed.
Print Assumptions C04_sizes_decrease_refuted.

Example C04_example : build (fun i n => if n <? 3 then Stall else Next (n / 2)) 5 1 20 = Some [20; 10; 5; 2].
Proof. vm_compute. reflexivity. Qed.
