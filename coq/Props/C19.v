(* C19 -- matrix utilities: the spectral-radius estimate never exceeds the true spectral radius
   (exact arithmetic): every Ritz value of a symmetric matrix on an orthonormal basis is
   bounded by any bound of the numerical range.  Property theorem (mathcomp, any real field). *)
From mathcomp Require Import all_ssreflect all_algebra.
Require Import PV.Algebra.Energy PV.Algebra.Ritz.
Set Implicit Arguments. Unset Strict Implicit. Unset Printing Implicit Defensive.
Import GRing.Theory Num.Theory.
Local Open Scope ring_scope.

Theorem C19_ritz_value_bounded_by_spectral_radius :
  forall (F : realFieldType) (n k : nat) (A : 'M[F]_n) (V : 'M[F]_(n, k)),
  V^T *m V = 1%:M ->
  forall rho : F, (forall x : 'cV[F]_n, `|sc (x^T *m A *m x)| <= rho * sc (x^T *m x)) ->
  forall (y : 'cV[F]_k) (theta : F), (V^T *m A *m V) *m y = theta *: y -> 0 < sc (y^T *m y) ->
  `|theta| <= rho.
Proof. move=> F n k A V Vo rho Hr y th Hy H0. exact: (ritz_le_rho Vo Hr Hy H0). Qed.
Print Assumptions C19_ritz_value_bounded_by_spectral_radius.

(* ---- utility kernels (Stdlib part of the development) ---- *)
From Coq Require Import ZArith List.
Require Import PV.Base.Ops PV.Model.Utils PV.Proofs.UtilsProofs.
Local Close Scope ring_scope.
Local Open Scope Z_scope.

(* scale_rows on CSC storage: data entry i is multiplied by the scale of ITS ROW index, nothing else changes;
   any scalar type, any matrix size *)
Theorem C19_csc_scale_rows_is_diagonal_product : forall F (o : Ops F) ncol Ap Aj (Ax Xx : list F),
  (0 <= gI Ap ncol <= Z.of_nat (length Ax))%Z ->
  let ax' := csc_scale_rows o ncol Ap Aj Ax Xx in
  length ax' = length Ax /\
  (forall i, (0 <= i < gI Ap ncol)%Z -> gV o ax' i = mul o (gV o Ax i) (gV o Xx (gI Aj i))) /\
  (forall i, (gI Ap ncol <= i)%Z -> gV o ax' i = gV o Ax i).
Proof. exact (fun F o => csc_scale_rows_spec o). Qed.
Print Assumptions C19_csc_scale_rows_is_diagonal_product.

(* scale_columns on CSC storage: every entry of column c is multiplied by the scale of column c (column
   pointer starting at 0 and non-decreasing) *)
Theorem C19_csc_scale_columns_is_diagonal_product : forall F (o : Ops F) (ncol : nat) Ap (Ax Xx : list F),
  gI Ap 0 = 0%Z -> (forall c, (0 <= c < Z.of_nat ncol)%Z -> (gI Ap c <= gI Ap (c + 1))%Z) ->
  (gI Ap (Z.of_nat ncol) <= Z.of_nat (length Ax))%Z ->
  let ax' := csc_scale_columns o (Z.of_nat ncol) Ap Ax Xx in
  length ax' = length Ax /\
  (forall c jj, (0 <= c < Z.of_nat ncol)%Z -> (gI Ap c <= jj < gI Ap (c + 1))%Z -> gV o ax' jj = mul o (gV o Ax jj) (gV o Xx c)) /\
  (forall jj, (gI Ap (Z.of_nat ncol) <= jj)%Z -> gV o ax' jj = gV o Ax jj).
Proof. exact (fun F o => csc_scale_columns_spec o). Qed.
Print Assumptions C19_csc_scale_columns_is_diagonal_product.

(* filtering relative to the diagonal (no lumping): in row r exactly the entries with |a| < theta |a_rr| are set
   to zero, where a_rr is the first stored diagonal entry of the row (threshold 0 if none); valid CSR of any size *)
Theorem C19_filter_matrix_rows_definition : forall F (o : Ops F) (n : nat) theta Ap Aj (Ax : list F),
  gI Ap 0 = 0%Z -> (forall r, (0 <= r < Z.of_nat n)%Z -> (gI Ap r <= gI Ap (r + 1))%Z) ->
  (gI Ap (Z.of_nat n) <= Z.of_nat (length Ax))%Z ->
  let ax' := filter_matrix_rows o (Z.of_nat n) theta Ap Aj Ax false in
  length ax' = length Ax /\
  (forall r jj, (0 <= r < Z.of_nat n)%Z -> (gI Ap r <= jj < gI Ap (r + 1))%Z ->
     gV o ax' jj = if ltb o (abs o (gV o Ax jj)) (row_thr o theta Ap Aj Ax r) then zero o else gV o Ax jj) /\
  (forall jj, (gI Ap (Z.of_nat n) <= jj)%Z -> gV o ax' jj = gV o Ax jj).
Proof. exact (fun F o => filter_matrix_rows_spec o). Qed.
Print Assumptions C19_filter_matrix_rows_definition.
