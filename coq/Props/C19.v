(* C19 -- matrix utilities: the spectral-radius estimate never exceeds the true spectral radius
   (exact arithmetic): every Ritz value of a symmetric matrix on an orthonormal basis is
   bounded by any bound of the numerical range.  Property theorem (mathcomp, any real field). *)
From mathcomp Require Import all_ssreflect all_algebra.
Require Import PV.Algebra.Energy PV.Algebra.Ritz.
Set Implicit Arguments. Unset Strict Implicit. Unset Printing Implicit Defensive.
Import GRing.Theory Num.Theory.
Local Open Scope ring_scope.

Theorem C19_ritz_value_bounded_by_spectral_radius :
  forall (F : realFieldType) (n k : nat) (A : 'M[F]_n) (V : 'M[F]_(n, k)),
  V^T *m V = 1%:M ->
  forall rho : F, (forall x : 'cV[F]_n, `|sc (x^T *m A *m x)| <= rho * sc (x^T *m x)) ->
  forall (y : 'cV[F]_k) (theta : F), (V^T *m A *m V) *m y = theta *: y -> 0 < sc (y^T *m y) ->
  `|theta| <= rho.
Proof. move=> F n k A V Vo rho Hr y th Hy H0. exact: (ritz_le_rho Vo Hr Hy H0). Qed.
Print Assumptions C19_ritz_value_bounded_by_spectral_radius.
