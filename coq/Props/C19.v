(* C19 -- matrix utilities: the spectral-radius estimate never exceeds the true spectral radius
   (exact arithmetic): every Ritz value of a symmetric matrix on an orthonormal basis is
   bounded by any bound of the numerical range.  Property theorem (mathcomp, any real field). *)
From mathcomp Require Import all_ssreflect all_algebra.
Require Import PV.Algebra.Energy PV.Algebra.Ritz.
Set Implicit Arguments. Unset Strict Implicit. Unset Printing Implicit Defensive.
Import GRing.Theory Num.Theory.
Local Open Scope ring_scope.

Theorem C19_ritz_value_bounded_by_spectral_radius :
  forall (F : realFieldType) (n k : nat) (A : 'M[F]_n) (V : 'M[F]_(n, k)),
  V^T *m V = 1%:M ->
  forall rho : F, (forall x : 'cV[F]_n, `|sc (x^T *m A *m x)| <= rho * sc (x^T *m x)) ->
  forall (y : 'cV[F]_k) (theta : F), (V^T *m A *m V) *m y = theta *: y -> 0 < sc (y^T *m y) ->
  `|theta| <= rho.
Proof. move=> F n k A V Vo rho Hr y th Hy H0. exact: (ritz_le_rho Vo Hr Hy H0). Qed.
Print Assumptions C19_ritz_value_bounded_by_spectral_radius.

(* ---- utility kernels (Stdlib part of the development) ---- *)
From Coq Require Import ZArith List.
Require Import PV.Base.Ops PV.Model.Utils PV.Proofs.UtilsProofs.
Local Close Scope ring_scope.
Local Open Scope Z_scope.

(* scale_rows on CSC storage: data entry i is multiplied by the scale of ITS ROW index, nothing else changes;
   any scalar type, any matrix size *)
Theorem C19_csc_scale_rows_is_diagonal_product : forall F (o : Ops F) ncol Ap Aj (Ax Xx : list F),
  (0 <= gI Ap ncol <= Z.of_nat (length Ax))%Z ->
  let ax' := csc_scale_rows o ncol Ap Aj Ax Xx in
  length ax' = length Ax /\
  (forall i, (0 <= i < gI Ap ncol)%Z -> gV o ax' i = mul o (gV o Ax i) (gV o Xx (gI Aj i))) /\
  (forall i, (gI Ap ncol <= i)%Z -> gV o ax' i = gV o Ax i).
Proof. exact (fun F o => csc_scale_rows_spec o). Qed.
Print Assumptions C19_csc_scale_rows_is_diagonal_product.

(* scale_columns on CSC storage: every entry of column c is multiplied by the scale of column c (column
   pointer starting at 0 and non-decreasing) *)
Theorem C19_csc_scale_columns_is_diagonal_product : forall F (o : Ops F) (ncol : nat) Ap (Ax Xx : list F),
  gI Ap 0 = 0%Z -> (forall c, (0 <= c < Z.of_nat ncol)%Z -> (gI Ap c <= gI Ap (c + 1))%Z) ->
  (gI Ap (Z.of_nat ncol) <= Z.of_nat (length Ax))%Z ->
  let ax' := csc_scale_columns o (Z.of_nat ncol) Ap Ax Xx in
  length ax' = length Ax /\
  (forall c jj, (0 <= c < Z.of_nat ncol)%Z -> (gI Ap c <= jj < gI Ap (c + 1))%Z -> gV o ax' jj = mul o (gV o Ax jj) (gV o Xx c)) /\
  (forall jj, (gI Ap (Z.of_nat ncol) <= jj)%Z -> gV o ax' jj = gV o Ax jj).
Proof. exact (fun F o => csc_scale_columns_spec o). Qed.
Print Assumptions C19_csc_scale_columns_is_diagonal_product.

(* filtering relative to the diagonal (no lumping): in row r exactly the entries with |a| < theta |a_rr| are set
   to zero, where a_rr is the first stored diagonal entry of the row (threshold 0 if none); valid CSR of any size *)
Theorem C19_filter_matrix_rows_definition : forall F (o : Ops F) (n : nat) theta Ap Aj (Ax : list F),
  gI Ap 0 = 0%Z -> (forall r, (0 <= r < Z.of_nat n)%Z -> (gI Ap r <= gI Ap (r + 1))%Z) ->
  (gI Ap (Z.of_nat n) <= Z.of_nat (length Ax))%Z ->
  let ax' := filter_matrix_rows o (Z.of_nat n) theta Ap Aj Ax false in
  length ax' = length Ax /\
  (forall r jj, (0 <= r < Z.of_nat n)%Z -> (gI Ap r <= jj < gI Ap (r + 1))%Z ->
     gV o ax' jj = if ltb o (abs o (gV o Ax jj)) (row_thr o theta Ap Aj Ax r) then zero o else gV o Ax jj) /\
  (forall jj, (gI Ap (Z.of_nat n) <= jj)%Z -> gV o ax' jj = gV o Ax jj).
Proof. exact (fun F o => filter_matrix_rows_spec o). Qed.
Print Assumptions C19_filter_matrix_rows_definition.

(* filtering WITH lumping, one row i that stores its diagonal at position d (any field, any abs / comparison): an
   off-diagonal entry with |a| < theta |a_ii| is set to zero and added to the diagonal, every other entry of the
   row is kept, nothing outside the row changes -- so the row sum is preserved *)
Require Import PV.Proofs.RelaxProofs PV.Proofs.FilterLumpProofs.
Theorem C19_filter_row_lumping_definition : forall F (o : Ops F) inv, is_field o inv ->
  forall theta Ap Aj (ax : list F) i d,
  let lo := gI Ap i in let hi := gI Ap (i + 1) in
  (0 <= lo)%Z -> (lo <= hi <= Z.of_nat (length ax))%Z ->
  find (fun jj => (gI Aj jj =? i)%Z) (zrange lo hi) = Some d ->
  let ax' := filter_row o theta true Ap Aj ax i in
  length ax' = length ax /\
  (forall jj, (lo <= jj < hi)%Z -> jj <> d ->
     gV o ax' jj = if lump_removed o theta Aj ax i d jj then zero o else gV o ax jj) /\
  (forall jj, (0 <= jj)%Z -> ~ (lo <= jj < hi)%Z -> gV o ax' jj = gV o ax jj) /\
  gV o ax' d = add o (gV o ax d) (osumz o (fun jj => if lump_removed o theta Aj ax i d jj then gV o ax jj else zero o) (zrange lo hi)) /\
  osumz o (gV o ax') (zrange lo hi) = osumz o (gV o ax) (zrange lo hi).
Proof.
  intros F [z0 o1 ad sb ml dv op ab eq le lt] inv [Fth _] theta Ap Aj ax i d.
  exact (filter_row_lump_spec F z0 o1 ad ml sb op dv inv ab eq le lt Fth theta Ap Aj ax i d).
Qed.
Print Assumptions C19_filter_row_lumping_definition.
(* non-vacuity: row (4, -1, 3) with the diagonal first and theta = 1/2: the entry -1 is lumped, the row becomes (3, 0, 3) *)
Import ListNotations.
Example C19_filter_row_lumping_example :
  let q := fun (a : Z) (b : Z) => QArith_base.Qmake a (Z.to_pos b) in
  filter_row opsQ (q 1 2) true [0;3]%Z [0;1;2]%Z [q 4 1; q (-1) 1; q 3 1] 0%Z = [q 3 1; q 0 1; q 3 1].
Proof. vm_compute. reflexivity. Qed.
