(* C14 -- strength-of-connection contract and rules: property theorems only.
   Each theorem is closed by [exact <lemma>] and followed by Print Assumptions. *)
From Coq Require Import ZArith List Bool QArith.
Import ListNotations.
Require Import PV.Base.Ops PV.Base.OrdLaws PV.Model.Strength PV.Proofs.StrengthProofs.

(* the hypotheses [OrdLaws o] of every theorem below are satisfiable *)
Example C14_laws_inhabited : OrdLaws opsQ.
Proof. exact OrdLaws_Q. Qed.

(* classical 'abs': kept <-> diagonal \/ |a_ij| >= theta * max(tiny, max_{k<>i}|a_ik|) *)
Theorem C14_classical_abs_iff : forall F (o : Ops F), OrdLaws o -> forall tiny theta i r e,
  In e (cls_abs_row o tiny theta i r) <->
  In e r /\ (fst e = i \/ leb o (mul o theta (offdiag_max o tiny i r)) (abs o (snd e)) = true).
Proof. intros F o L. exact (cls_abs_iff o). Qed.
Print Assumptions C14_classical_abs_iff.

Theorem C14_classical_abs_max : forall F (o : Ops F), OrdLaws o -> forall tiny i r,
  let M := offdiag_max o tiny i r in
  leb o tiny M = true /\
  (forall e, In e r -> fst e <> i -> leb o (abs o (snd e)) M = true) /\
  (M = tiny \/ exists e, In e r /\ fst e <> i /\ M = abs o (snd e)).
Proof. intros F o L. exact (offdiag_max_spec o L). Qed.
Print Assumptions C14_classical_abs_max.

(* classical 'min': the signed analogue *)
Theorem C14_classical_min_iff : forall F (o : Ops F), OrdLaws o -> forall theta i r e,
  In e (cls_min_row o theta i r) <->
  In e r /\ (fst e = i \/ leb o (mul o theta (offdiag_max_neg o i r)) (opp o (snd e)) = true).
Proof. intros F o L. exact (cls_min_iff o). Qed.
Print Assumptions C14_classical_min_iff.

Theorem C14_classical_min_max : forall F (o : Ops F), OrdLaws o -> forall i r,
  let M := offdiag_max_neg o i r in
  leb o (zero o) M = true /\
  (forall e, In e r -> fst e <> i -> leb o (opp o (snd e)) M = true) /\
  (M = zero o \/ exists e, In e r /\ fst e <> i /\ M = opp o (snd e)).
Proof. intros F o L. exact (offdiag_max_neg_spec o L). Qed.
Print Assumptions C14_classical_min_max.

(* symmetric: kept <-> diagonal \/ |a_ij|^2 >= theta^2 |a_ii| |a_jj| *)
Theorem C14_symmetric_iff : forall F (o : Ops F), OrdLaws o -> forall theta diags i e r,
  In e (filter (keep_sym o theta diags i) r) <->
  In e r /\ (i = fst e \/
    leb o (mul o (mul o (mul o theta theta) (nthZ diags i (zero o))) (nthZ diags (fst e) (zero o)))
          (mul o (snd e) (snd e)) = true).
Proof. intros F o L. exact (sym_keep_iff o). Qed.
Print Assumptions C14_symmetric_iff.

(* pattern(S) is contained in pattern(A), through the whole pipeline *)
Theorem C14_classical_abs_pattern_subset : forall F (o : Ops F) tiny theta i r,
  incl (map fst (drop_zeros o (scale_row o tiny (abs_row o (cls_abs_row o tiny theta i r))))) (map fst r).
Proof. intros F o. exact (classical_abs_pattern_subset o). Qed.
Print Assumptions C14_classical_abs_pattern_subset.

Theorem C14_classical_min_pattern_subset : forall F (o : Ops F) tiny theta i r,
  incl (map fst (drop_zeros o (scale_row o tiny (abs_row o (cls_min_row o theta i r))))) (map fst r).
Proof. intros F o. exact (classical_min_pattern_subset o). Qed.
Print Assumptions C14_classical_min_pattern_subset.

Theorem C14_symmetric_pattern_subset : forall F (o : Ops F) tiny theta diags i r,
  incl (map fst (scale_row o tiny (abs_row o (filter (keep_sym o theta diags i) r)))) (map fst r).
Proof. intros F o. exact (symmetric_pattern_subset o). Qed.
Print Assumptions C14_symmetric_pattern_subset.

(* monotone in theta *)
Theorem C14_classical_abs_monotone : forall F (o : Ops F), OrdLaws o -> forall tiny t1 t2 i r e,
  leb o (zero o) tiny = true -> leb o t1 t2 = true ->
  In e (cls_abs_row o tiny t2 i r) -> In e (cls_abs_row o tiny t1 i r).
Proof. intros F o L. exact (cls_abs_monotone o L). Qed.
Print Assumptions C14_classical_abs_monotone.

Theorem C14_classical_min_monotone : forall F (o : Ops F), OrdLaws o -> forall t1 t2 i r e,
  leb o t1 t2 = true -> In e (cls_min_row o t2 i r) -> In e (cls_min_row o t1 i r).
Proof. intros F o L. exact (cls_min_monotone o L). Qed.
Print Assumptions C14_classical_min_monotone.

Theorem C14_symmetric_monotone : forall F (o : Ops F), OrdLaws o -> forall t1 t2 diags i r e,
  leb o (zero o) t1 = true -> leb o t1 t2 = true ->
  (forall k, leb o (zero o) (nthZ diags k (zero o)) = true) ->
  In e (filter (keep_sym o t2 diags i) r) -> In e (filter (keep_sym o t1 diags i) r).
Proof. intros F o L. exact (sym_monotone o L). Qed.
Print Assumptions C14_symmetric_monotone.

(* theta = 0 keeps the whole pattern: abs norm and symmetric measure *)
Theorem C14_classical_abs_theta0 : forall F (o : Ops F), OrdLaws o -> forall tiny i r,
  cls_abs_row o tiny (zero o) i r = r.
Proof. intros F o L. exact (cls_abs_theta0 o L). Qed.
Print Assumptions C14_classical_abs_theta0.

Theorem C14_symmetric_theta0 : forall F (o : Ops F), OrdLaws o -> forall diags i r,
  filter (keep_sym o (zero o) diags i) r = r.
Proof. intros F o L. exact (sym_theta0 o L). Qed.
Print Assumptions C14_symmetric_theta0.

(* ... but NOT for the 'min' norm: the faithful model drops positive
   off-diagonals at theta = 0 (finding F10, replayed on the implementation) *)
Theorem C14_classical_min_theta0_refuted :
  exists i r, cls_min_row opsQ 0 i r <> r.
Proof. exists 0%Z, [(0%Z, 2%Q); (1%Z, 1%Q)]. vm_compute. discriminate. Qed.
Print Assumptions C14_classical_min_theta0_refuted.

(* the tail: entries in [0,1], the row maximum becomes 1, nonzero diagonal kept *)
Theorem C14_tail_unit_interval : forall F (o : Ops F), OrdLaws o -> forall tiny r e,
  (forall e0, In e0 r -> leb o (zero o) (snd e0) = true) ->
  ltb o (zero o) (row_max o tiny r) = true ->
  In e (scale_row o tiny r) ->
  leb o (zero o) (snd e) = true /\ leb o (snd e) (one o) = true.
Proof. intros F o L. exact (tail_unit_interval o L). Qed.
Print Assumptions C14_tail_unit_interval.

Theorem C14_tail_rowmax_one : forall F (o : Ops F), OrdLaws o -> forall tiny r,
  (forall e0, In e0 r -> leb o (zero o) (snd e0) = true) ->
  ltb o (zero o) (row_max o tiny r) = true ->
  row_max o tiny r <> tiny ->
  exists e, In e (scale_row o tiny r) /\ eqb o (snd e) (one o) = true.
Proof. intros F o L. exact (tail_rowmax_one o L). Qed.
Print Assumptions C14_tail_rowmax_one.

Theorem C14_classical_abs_diag_kept : forall F (o : Ops F), OrdLaws o -> forall tiny theta i r a,
  In (i, a) r -> eqb o a (zero o) = false -> ltb o (zero o) tiny = true ->
  In i (map fst (drop_zeros o (scale_row o tiny (abs_row o (cls_abs_row o tiny theta i r))))).
Proof. intros F o L. exact (classical_abs_diag_kept o L). Qed.
Print Assumptions C14_classical_abs_diag_kept.

(* non-vacuity: a concrete row meeting the hypotheses of the tail theorems *)
Example C14_tail_example :
  let r := [(0%Z, 4%Q); (1%Z, 1%Q)] in
  (forall e0, In e0 r -> leb opsQ (zero opsQ) (snd e0) = true) /\
  ltb opsQ (zero opsQ) (row_max opsQ (1#1024) r) = true /\ row_max opsQ (1#1024) r <> (1#1024).
Proof.
  cbv zeta. split; [|split].
  - intros e0 [<-|[<-|[]]]; reflexivity.
  - reflexivity.
  - vm_compute. discriminate.
Qed.
