(* C15 -- built solvers are reusable: property theorems about the cache model. *)
From Coq Require Import List Bool.
Import ListNotations.
Require Import PV.Model.Cache PV.Proofs.CacheProofs.

(* every operation returns the value determined by the hierarchy alone, and leaves the caches
   coherent (each filled entry equals its defining function of the hierarchy) *)
Theorem C15_cache_coherent : forall K Val Arg Out keq (def : K -> Val) uses (out : Arg -> (K -> Val) -> Out),
  (forall a b, keq a b = true -> a = b) ->
  (forall a f g, (forall k, f k = g k) -> out a f = out a g) ->
  forall s a, coherent K Val def s ->
  coherent K Val def (fst (step K Val Arg Out keq def uses out s a)) /\
  snd (step K Val Arg Out keq def uses out s a) = out a def.
Proof. exact step_spec. Qed.
Print Assumptions C15_cache_coherent.

(* the result of a solve is the same whatever solves were performed before on the same object *)
Theorem C15_history_independent : forall K Val Arg Out keq (def : K -> Val) uses (out : Arg -> (K -> Val) -> Out),
  (forall a b, keq a b = true -> a = b) ->
  (forall a f g, (forall k, f k = g k) -> out a f = out a g) ->
  forall ops a,
  snd (step K Val Arg Out keq def uses out (run K Val Arg Out keq def uses out (empty K Val) ops) a) =
  snd (step K Val Arg Out keq def uses out (empty K Val) a).
Proof. exact history_independent. Qed.
Print Assumptions C15_history_independent.

Example C15_example :
  snd (step nat nat nat nat Nat.eqb (fun k => k * k) (fun a => [a; a + 1]) (fun a f => f a + f (a + 1))
            (run nat nat nat nat Nat.eqb (fun k => k * k) (fun a => [a; a + 1]) (fun a f => f a + f (a + 1)) (empty nat nat) [1; 5; 2]) 2) = 13.
Proof. vm_compute. reflexivity. Qed.
