(* C08 -- accelerated and black-box solves: property theorems about the control logic. *)
From Coq Require Import List Arith Bool Lia.
Import ListNotations.
Require Import PV.Model.Cycle PV.Proofs.CycleProofs PV.Model.Accel PV.Proofs.AccelProofs.

(* the preconditioner handed to the accelerator is one cycle of the requested type from the
   zero guess, i.e. exactly the textbook operator M of C03 *)
Theorem C08_preconditioner_is_one_cycle : forall V (h : hier V), wfx h -> forall ct cpl b,
  cycle h ct cpl (gz (hgrp h)) b = Mtb h ct cpl b.
Proof. exact precond_is_M. Qed.
Print Assumptions C08_preconditioner_is_one_cycle.

(* SciPy-style accelerators: the residual history is seeded with the initial residual and gets
   exactly one entry per callback invocation (iterate or scalar), in order *)
Theorem C08_history_populated : forall V F (rn : V -> F) x0 calls,
  fallback_history V F rn x0 calls =
    rn x0 :: map (fun c => match c with CbVec _ _ x => rn x | CbScalar _ _ s => s end) calls /\
  length (fallback_history V F rn x0 calls) = S (length calls).
Proof. exact history_populated. Qed.
Print Assumptions C08_history_populated.

(* the black-box call accelerates Hermitian problems with CG and all others with GMRES *)
Theorem C08_blackbox_accelerator : blackbox_accel Hermitian = CG /\ blackbox_accel Nonsymmetric = GMRES.
Proof. split; reflexivity. Qed.
Print Assumptions C08_blackbox_accelerator.
