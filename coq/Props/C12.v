(* C12 -- aggregation routines return valid partitions.  Property theorems only.  Naive
   and standard aggregation: for EVERY graph (any number of vertices; standard: symmetric pattern).
   Pairwise and the finer statements about standard aggregation: bounded -- complete
   enumeration of the symmetric graphs on <= 4 vertices, with and without stored diagonal;
   the bound is part of each statement. *)
From Coq Require Import ZArith List Bool.
Import ListNotations.
Require Import PV.Model.GraphAlg PV.Model.Aggregate PV.Proofs.GraphSpec PV.Proofs.GraphBounded PV.Proofs.AggBounded.
Require Import PV.Proofs.NaiveAggProofs PV.Proofs.StdAggPart.
Open Scope Z_scope.

(* naive aggregation, every graph with N vertices whose column indices are in range (symmetric or
   not, with or without diagonal, any row order): ids 1..c as the kernel leaves them, every vertex
   in exactly one aggregate, aggregate a contains its root y[a-1] (so no aggregate is empty and the
   roots are distinct), and every member is the root or a neighbour of the root *)
Theorem C12_naive_aggregation_partition : forall (N : nat) (Ap Aj y0 : list Z),
  (forall i, 0 <= i < Z.of_nat N -> forall j, In j (nbrs Ap Aj i) -> 0 <= j < Z.of_nat N) ->
  length y0 = N ->
  let n := Z.of_nat N in
  let '(x, y, c) := naive_aggregation n Ap Aj y0 in
  length x = N /\ 0 <= c <= n /\
  (forall k, 0 <= k < n -> 1 <= get x k <= c) /\
  (forall a, 1 <= a <= c -> 0 <= get y (a - 1) < n /\ get x (get y (a - 1)) = a) /\
  (forall k, 0 <= k < n -> k = get y (get x k - 1) \/ In k (nbrs Ap Aj (get y (get x k - 1)))).
Proof. exact (fun N Ap Aj y0 H Hy => naive_aggregation_partition N Ap Aj H y0 Hy). Qed.
Print Assumptions C12_naive_aggregation_partition.

(* non-vacuity: the path 0 - 1 - 2 with stored diagonal *)
Example C12_naive_example :
  naive_aggregation 3 [0; 2; 5; 7] [0; 1; 0; 1; 2; 1; 2] [-7; -7; -7] = ([1; 1; 2], [0; 2; -7], 2).
Proof. vm_compute. reflexivity. Qed.

(* standard aggregation, every graph with N vertices and a SYMMETRIC pattern (any N; self loops, isolated
   vertices, any row order): ids in [-1, c) after the final shift; id -1 exactly for the vertices without
   off-diagonal connection; aggregate a contains its root y[a] (so no aggregate is empty and roots are
   distinct); every member is the root, a neighbour of the root, or a neighbour of such a member of the
   same aggregate (connected, radius <= 2) *)
Theorem C12_standard_aggregation_partition : forall (N : nat) (Ap Aj y0 : list Z),
  (forall i, 0 <= i < Z.of_nat N -> forall j, In j (nbrs Ap Aj i) -> 0 <= j < Z.of_nat N) ->
  (forall i j, 0 <= i < Z.of_nat N -> In j (nbrs Ap Aj i) -> In i (nbrs Ap Aj j)) ->
  length y0 = N ->
  let n := Z.of_nat N in
  let '(x, y, c) := standard_aggregation n Ap Aj y0 in
  length x = N /\ 0 <= c <= n /\
  (forall k, 0 <= k < n -> -1 <= get x k < c) /\
  (forall k, 0 <= k < n -> (get x k = -1 <-> isolated Ap Aj k)) /\
  (forall a, 0 <= a < c -> 0 <= get y a < n /\ get x (get y a) = a) /\
  (forall k, 0 <= k < n -> 0 <= get x k ->
     near Ap Aj (get y (get x k)) k \/ exists j, In j (nbrs Ap Aj k) /\ near Ap Aj (get y (get x k)) j /\ get x j = get x k).
Proof. exact (fun N Ap Aj y0 H1 H2 Hy => standard_aggregation_partition N Ap Aj H1 H2 y0 Hy). Qed.
Print Assumptions C12_standard_aggregation_partition.

(* standard aggregation: a partition with named roots; unaggregated <-> no off-diagonal
   connection; every aggregate connected; the third pass never opens an aggregate *)
Theorem C12_bounded_standard : forall g, In g graphs_le4 -> ok_standard g = true.
Proof. exact bounded_standard. Qed.
Print Assumptions C12_bounded_standard.

(* naive aggregation: a partition with named roots that assigns every vertex *)
Theorem C12_bounded_naive : forall g, In g graphs_le4 -> ok_naive g = true.
Proof. exact bounded_naive. Qed.
Print Assumptions C12_bounded_naive.

(* pairwise aggregation (one matching), all weights over {1,2}: every vertex assigned,
   aggregates of at most two vertices, named roots *)
Theorem C12_bounded_pairwise : forall g, In g graphs_le4 -> ok_pairwise g = true.
Proof. exact bounded_pairwise. Qed.
Print Assumptions C12_bounded_pairwise.

Example C12_enumeration_size : length graphs_le4 = 150%nat.
Proof. exact graphs_le4_count. Qed.
