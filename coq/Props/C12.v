(* C12 -- aggregation routines return valid partitions.  Property theorems only.  Naive
   and standard aggregation: for EVERY graph (any number of vertices; standard: symmetric pattern).
   Pairwise and the finer statements about standard aggregation: bounded -- complete
   enumeration of the symmetric graphs on <= 4 vertices, with and without stored diagonal;
   the bound is part of each statement. *)
From Coq Require Import ZArith List Bool Lia.
Import ListNotations.
Require Import PV.Model.GraphAlg PV.Model.Aggregate PV.Proofs.GraphSpec PV.Proofs.GraphBounded PV.Proofs.AggBounded.
Require Import PV.Proofs.NaiveAggProofs PV.Proofs.StdAggPart PV.Proofs.PairwiseProofs PV.Proofs.PairwiseCompose.
Open Scope Z_scope.

(* naive aggregation, every graph with N vertices whose column indices are in range (symmetric or
   not, with or without diagonal, any row order): ids 1..c as the kernel leaves them, every vertex
   in exactly one aggregate, aggregate a contains its root y[a-1] (so no aggregate is empty and the
   roots are distinct), and every member is the root or a neighbour of the root *)
Theorem C12_naive_aggregation_partition : forall (N : nat) (Ap Aj y0 : list Z),
  (forall i, 0 <= i < Z.of_nat N -> forall j, In j (nbrs Ap Aj i) -> 0 <= j < Z.of_nat N) ->
  length y0 = N ->
  let n := Z.of_nat N in
  let '(x, y, c) := naive_aggregation n Ap Aj y0 in
  length x = N /\ 0 <= c <= n /\
  (forall k, 0 <= k < n -> 1 <= get x k <= c) /\
  (forall a, 1 <= a <= c -> 0 <= get y (a - 1) < n /\ get x (get y (a - 1)) = a) /\
  (forall k, 0 <= k < n -> k = get y (get x k - 1) \/ In k (nbrs Ap Aj (get y (get x k - 1)))).
Proof. exact (fun N Ap Aj y0 H Hy => naive_aggregation_partition N Ap Aj H y0 Hy). Qed.
Print Assumptions C12_naive_aggregation_partition.

(* non-vacuity: the path 0 - 1 - 2 with stored diagonal *)
Example C12_naive_example :
  naive_aggregation 3 [0; 2; 5; 7] [0; 1; 0; 1; 2; 1; 2] [-7; -7; -7] = ([1; 1; 2], [0; 2; -7], 2).
Proof. vm_compute. reflexivity. Qed.

(* standard aggregation, every graph with N vertices and a SYMMETRIC pattern (any N; self loops, isolated
   vertices, any row order): ids in [-1, c) after the final shift; id -1 exactly for the vertices without
   off-diagonal connection; aggregate a contains its root y[a] (so no aggregate is empty and roots are
   distinct); every member is the root, a neighbour of the root, or a neighbour of such a member of the
   same aggregate (connected, radius <= 2) *)
Theorem C12_standard_aggregation_partition : forall (N : nat) (Ap Aj y0 : list Z),
  (forall i, 0 <= i < Z.of_nat N -> forall j, In j (nbrs Ap Aj i) -> 0 <= j < Z.of_nat N) ->
  (forall i j, 0 <= i < Z.of_nat N -> In j (nbrs Ap Aj i) -> In i (nbrs Ap Aj j)) ->
  length y0 = N ->
  let n := Z.of_nat N in
  let '(x, y, c) := standard_aggregation n Ap Aj y0 in
  length x = N /\ 0 <= c <= n /\
  (forall k, 0 <= k < n -> -1 <= get x k < c) /\
  (forall k, 0 <= k < n -> (get x k = -1 <-> isolated Ap Aj k)) /\
  (forall a, 0 <= a < c -> 0 <= get y a < n /\ get x (get y a) = a) /\
  (forall k, 0 <= k < n -> 0 <= get x k ->
     near Ap Aj (get y (get x k)) k \/ exists j, In j (nbrs Ap Aj k) /\ near Ap Aj (get y (get x k)) j /\ get x j = get x k).
Proof. exact (fun N Ap Aj y0 H1 H2 Hy => standard_aggregation_partition N Ap Aj H1 H2 y0 Hy). Qed.
Print Assumptions C12_standard_aggregation_partition.

(* standard aggregation: a partition with named roots; unaggregated <-> no off-diagonal
   connection; every aggregate connected; the third pass never opens an aggregate *)
Theorem C12_bounded_standard : forall g, In g graphs_le4 -> ok_standard g = true.
Proof. exact bounded_standard. Qed.
Print Assumptions C12_bounded_standard.

(* naive aggregation: a partition with named roots that assigns every vertex *)
Theorem C12_bounded_naive : forall g, In g graphs_le4 -> ok_naive g = true.
Proof. exact bounded_naive. Qed.
Print Assumptions C12_bounded_naive.

(* pairwise aggregation (one matching), all weights over {1,2}: every vertex assigned,
   aggregates of at most two vertices, named roots *)
Theorem C12_bounded_pairwise : forall g, In g graphs_le4 -> ok_pairwise g = true.
Proof. exact bounded_pairwise. Qed.
Print Assumptions C12_bounded_pairwise.

(* one pairwise matching, EVERY graph with N vertices whose column indices are in range (symmetric or not), every weight
   vector: the kernel returns (its multimap of unaggregated nodes shrinks in every round, the fuel n+1 of the model is
   never exhausted), every node gets an id in 1..c, and every aggregate 1..c has one or two members *)
Theorem C12_pairwise_matching_pairs : forall (N : nat) (Ap Aj Sx y0 : list Z),
  (forall i, 0 <= i < Z.of_nat N -> forall j, In j (nbrs Ap Aj i) -> 0 <= j < Z.of_nat N) ->
  exists x y c, pairwise_aggregation (Z.of_nat N) Ap Aj Sx y0 = Some (x, y, c) /\
    length x = N /\ 0 <= c /\
    (forall k, 0 <= k < Z.of_nat N -> 1 <= get x k <= c) /\
    (forall a, 1 <= a <= c -> (1 <= count_occ Z.eq_dec x a <= 2)%nat).
Proof.
  intros N Ap Aj Sx y0 H. destruct (pairwise_matching_correct N Ap Aj H Sx y0) as [[[x y] c] [E P]].
  exists x, y, c. split; [exact E|exact P].
Qed.
Print Assumptions C12_pairwise_matching_pairs.

(* m matchings composed as the Python driver composes them (T = T @ T_temp): if every matching puts at most two nodes into
   an aggregate and the ids of each matching index the nodes of the next, an aggregate of the result has at most
   2^m nodes (m = 1 + length xs) *)
Theorem C12_pairwise_at_most_two_to_the_matchings : forall (xs : list (list Z)) (x1 : list Z),
  (forall a, (count_occ Z.eq_dec x1 a <= 2)%nat) ->
  (forall x, In x xs -> forall a, (count_occ Z.eq_dec x a <= 2)%nat) ->
  chain x1 xs ->
  forall b, (count_occ Z.eq_dec (fold_left compose xs x1) b <= 2 ^ S (length xs))%nat.
Proof.
  intros xs x1 H1 H2 Hc b. pose proof (pairwise_size_bound xs x1 2%nat H1 H2 Hc b) as H.
  rewrite Nat.pow_succ_r'. exact H.
Qed.
Print Assumptions C12_pairwise_at_most_two_to_the_matchings.

(* not vacuous: the path 0-1-2-3-4 with unit weights, two matchings *)
Example C12_pairwise_example :
  let Ap := [0; 1; 3; 5; 7; 8] in let Aj := [1; 0; 2; 1; 3; 2; 4; 3] in
  match pairwise_aggregation 5 Ap Aj [1; 1; 1; 1; 1; 1; 1; 1] [0; 0; 0; 0; 0] with
  | Some (x, _, c) => x = [1; 1; 3; 2; 2] /\ c = 3 /\ chain x [[1; 1; 2]] /\ fold_left compose [[1; 1; 2]] x = [1; 1; 2; 1; 1]
  | None => False end.
Proof.
  cbv zeta.
  assert (E : pairwise_aggregation 5 [0; 1; 3; 5; 7; 8] [1; 0; 2; 1; 3; 2; 4; 3] [1; 1; 1; 1; 1; 1; 1; 1] [0; 0; 0; 0; 0]
              = Some ([1; 1; 3; 2; 2], [0; 4; 2; 0; 0], 3)) by (vm_compute; reflexivity).
  rewrite E. split; [reflexivity|]. split; [reflexivity|]. split; [|vm_compute; reflexivity].
  cbn [chain length]. split; [|exact I]. intros a H. cbn [In] in H. lia.
Qed.

Example C12_enumeration_size : length graphs_le4 = 150%nat.
Proof. exact graphs_le4_count. Qed.
