(* C12 -- aggregation routines return valid partitions.  Property theorems only (bounded:
   complete enumeration of the symmetric graphs on <= 4 vertices, with and without stored
   diagonal; the bound is part of each statement). *)
From Coq Require Import ZArith List Bool.
Import ListNotations.
Require Import PV.Model.GraphAlg PV.Model.Aggregate PV.Proofs.GraphSpec PV.Proofs.GraphBounded PV.Proofs.AggBounded.

(* standard aggregation: a partition with named roots; unaggregated <-> no off-diagonal
   connection; every aggregate connected; the third pass never opens an aggregate *)
Theorem C12_bounded_standard : forall g, In g graphs_le4 -> ok_standard g = true.
Proof. exact bounded_standard. Qed.
Print Assumptions C12_bounded_standard.

(* naive aggregation: a partition with named roots that assigns every vertex *)
Theorem C12_bounded_naive : forall g, In g graphs_le4 -> ok_naive g = true.
Proof. exact bounded_naive. Qed.
Print Assumptions C12_bounded_naive.

(* pairwise aggregation (one matching), all weights over {1,2}: every vertex assigned,
   aggregates of at most two vertices, named roots *)
Theorem C12_bounded_pairwise : forall g, In g graphs_le4 -> ok_pairwise g = true.
Proof. exact bounded_pairwise. Qed.
Print Assumptions C12_bounded_pairwise.

Example C12_enumeration_size : length graphs_le4 = 150%nat.
Proof. exact graphs_le4_count. Qed.
