(* C18 -- graph algorithms return what their names promise.  Property theorems only. *)
From Coq Require Import ZArith List Bool Lia.
Import ListNotations.
Require Import PV.Model.GraphAlg PV.Proofs.GraphSpec PV.Proofs.GraphBounded PV.Proofs.MisProofs.
Require Import PV.Proofs.ParMisProofs PV.Proofs.ParMisTerm PV.Proofs.CmisProofs PV.Proofs.CompProofs PV.Proofs.BfsProofs.

(* serial maximal independent set: for EVERY symmetric graph in CSR form, of any size, and any
   three distinct codes: every vertex is decided, the set is independent and maximal *)
Theorem C18_mis_serial_independent_maximal :
  forall (n : nat) (Ap Aj : list Z) (active c f : Z),
  active <> c -> f <> active -> f <> c ->
  (forall i, (i < n)%nat -> forall j, In j (nbrs Ap Aj (Z.of_nat i)) -> (0 <= j < Z.of_nat n)%Z) ->
  (forall i j, (i < n)%nat -> (j < n)%nat ->
     In (Z.of_nat j) (nbrs Ap Aj (Z.of_nat i)) -> In (Z.of_nat i) (nbrs Ap Aj (Z.of_nat j))) ->
  let x := fst (mis_serial (Z.of_nat n) Ap Aj active c f (fillz (Z.of_nat n) active)) in
  length x = n /\
  (forall i, (i < n)%nat -> get x (Z.of_nat i) <> active) /\
  (forall i j, (i < n)%nat -> (j < n)%nat -> get x (Z.of_nat i) = c -> get x (Z.of_nat j) = c ->
               In (Z.of_nat j) (nbrs Ap Aj (Z.of_nat i)) -> i = j) /\
  (forall i, (i < n)%nat -> get x (Z.of_nat i) <> c ->
             exists j, (j < n)%nat /\ In (Z.of_nat j) (nbrs Ap Aj (Z.of_nat i)) /\ get x (Z.of_nat j) = c).
Proof. exact mis_serial_correct_csr. Qed.
Print Assumptions C18_mis_serial_independent_maximal.

(* non-vacuity: the path 0 - 1 - 2 (with a self loop at 1) meets the hypotheses *)
Example C18_mis_hypotheses_inhabited :
  let Ap := [0; 1; 4; 5]%Z in let Aj := [1; 0; 1; 2; 1]%Z in
  (forall i, (i < 3)%nat -> forall j, In j (nbrs Ap Aj (Z.of_nat i)) -> (0 <= j < 3)%Z) /\
  (forall i j, (i < 3)%nat -> (j < 3)%nat ->
     In (Z.of_nat j) (nbrs Ap Aj (Z.of_nat i)) -> In (Z.of_nat i) (nbrs Ap Aj (Z.of_nat j))).
Proof.
  cbv zeta. split.
  - intros i Hi j H. destruct i as [|[|[|i]]]; [| | |lia]; vm_compute in H; intuition lia.
  - intros i j Hi Hj H.
    destruct i as [|[|[|i]]]; [| | |lia]; destruct j as [|[|[|j]]]; try lia;
      vm_compute in H; vm_compute; intuition (try discriminate).
Qed.

(* parallel maximal independent set (the kernel behind PMIS, MIS colouring and MIS seeds), EVERY symmetric
   graph of any size, any three distinct codes:
   (a) any weight type and any comparison: whenever the model, run without iteration limit, returns, every
       vertex is decided, no two adjacent vertices are in the set and every other vertex has a neighbour in it;
   (b) integer weights, ties broken by the vertex index as in the kernel: it always returns -- every pass
       decides at least the largest undecided vertex, so the fuel n + 2 of the model suffices. *)
Theorem C18_mis_parallel_partial_correctness : forall (N : nat) (Ap Aj : list Z),
  (forall i, (0 <= i < Z.of_nat N)%Z -> forall j, In j (nbrs Ap Aj i) -> (0 <= j < Z.of_nat N)%Z) ->
  (forall i j, (0 <= i < Z.of_nat N)%Z -> In j (nbrs Ap Aj i) -> In i (nbrs Ap Aj j)) ->
  forall active c f : Z, active <> c -> active <> f -> c <> f ->
  forall (W : Type) (wt : Wt W) (y : list W) (x0 : list Z),
  length x0 = N -> (forall k, (0 <= k < Z.of_nat N)%Z -> get x0 k = active) ->
  forall x Nn, mis_parallel (Z.of_nat N) Ap Aj wt active c f x0 y (-1)%Z = Some (x, Nn) ->
  length x = N /\
  (forall k, (0 <= k < Z.of_nat N)%Z -> get x k = c \/ get x k = f) /\
  (forall i j, (0 <= i < Z.of_nat N)%Z -> get x i = c -> In j (nbrs Ap Aj i) -> j <> i -> get x j <> c) /\
  (forall i, (0 <= i < Z.of_nat N)%Z -> get x i <> c -> exists j, In j (nbrs Ap Aj i) /\ j <> i /\ get x j = c).
Proof. intros. eapply mis_parallel_partial_correctness; eauto. Qed.
Print Assumptions C18_mis_parallel_partial_correctness.

Theorem C18_mis_parallel_terminates : forall (N : nat) (Ap Aj : list Z),
  (forall i, (0 <= i < Z.of_nat N)%Z -> forall j, In j (nbrs Ap Aj i) -> (0 <= j < Z.of_nat N)%Z) ->
  (forall i j, (0 <= i < Z.of_nat N)%Z -> In j (nbrs Ap Aj i) -> In i (nbrs Ap Aj j)) ->
  forall active c f : Z, active <> c -> active <> f -> c <> f ->
  forall (y x0 : list Z), length x0 = N -> (forall k, (0 <= k < Z.of_nat N)%Z -> get x0 k = active) ->
  exists r, mis_parallel (Z.of_nat N) Ap Aj WtZ active c f x0 y (-1)%Z = Some r.
Proof. intros. eapply mis_parallel_terminates; eauto. Qed.
Print Assumptions C18_mis_parallel_terminates.

(* vertex_coloring_mis (repeated serial maximal independent sets with the shifting codes -1-K / K / -2-K),
   EVERY symmetric graph of any size: the model returns within its fuel n+1, every vertex gets a colour in
   [0, K) and adjacent vertices get different colours *)
Theorem C18_coloring_mis_proper : forall (N : nat) (Ap Aj : list Z),
  (forall i, (0 <= i < Z.of_nat N)%Z -> forall j, In j (nbrs Ap Aj i) -> (0 <= j < Z.of_nat N)%Z) ->
  (forall i j, (0 <= i < Z.of_nat N)%Z -> In j (nbrs Ap Aj i) -> In i (nbrs Ap Aj j)) ->
  exists x K, coloring_mis (Z.of_nat N) Ap Aj = Some (x, K) /\
    length x = N /\ (forall k, (0 <= k < Z.of_nat N)%Z -> (0 <= get x k < K)%Z) /\
    (forall i j, (0 <= i < Z.of_nat N)%Z -> In j (nbrs Ap Aj i) -> j <> i -> get x j <> get x i).
Proof. exact coloring_mis_correct. Qed.
Print Assumptions C18_coloring_mis_proper.

(* connected_components (depth-first search with an explicit stack), EVERY symmetric graph of any size: the
   model returns within its fuel, every vertex gets a label in [0, C), every label is used, and two vertices
   carry the same label exactly when they are connected ([conn] = reflexive-transitive closure of adjacency) *)
Theorem C18_connected_components_correct : forall (N : nat) (Ap Aj : list Z),
  (forall i, (0 <= i < Z.of_nat N)%Z -> forall j, In j (nbrs Ap Aj i) -> (0 <= j < Z.of_nat N)%Z) ->
  (forall i j, (0 <= i < Z.of_nat N)%Z -> In j (nbrs Ap Aj i) -> In i (nbrs Ap Aj j)) ->
  exists comp C, connected_components (Z.of_nat N) Ap Aj = Some (comp, C) /\
    length comp = N /\
    (forall k, (0 <= k < Z.of_nat N)%Z -> (0 <= get comp k < C)%Z) /\
    (forall a, (0 <= a < C)%Z -> exists k, (0 <= k < Z.of_nat N)%Z /\ get comp k = a) /\
    (forall i j, (0 <= i < Z.of_nat N)%Z -> (0 <= j < Z.of_nat N)%Z -> (get comp i = get comp j <-> conn N Ap Aj i j)).
Proof. exact connected_components_correct. Qed.
Print Assumptions C18_connected_components_correct.

(* breadth_first_search, EVERY graph with column indices in range (symmetric or NOT), any size, any seed: the
   model returns within its fuel; level[j] is the hop distance from the seed ([dist L j]: a walk of L edges from
   the seed ends in j and no shorter one does), and it stays -1 exactly for the vertices no walk reaches;
   order[0..N) lists the reached vertices, each once *)
Theorem C18_breadth_first_search_correct : forall (N : nat) (Ap Aj : list Z),
  (forall i, (0 <= i < Z.of_nat N)%Z -> forall j, In j (nbrs Ap Aj i) -> (0 <= j < Z.of_nat N)%Z) ->
  forall seed, (0 <= seed < Z.of_nat N)%Z -> forall order0, length order0 = N ->
  exists order level Nn, bfs (Z.of_nat N) Ap Aj seed order0 = Some (order, level, Nn) /\
    length order = N /\ length level = N /\ (0 <= Nn <= Z.of_nat N)%Z /\
    (forall j, (0 <= j < Z.of_nat N)%Z -> get level j <> (-1)%Z -> dist Ap Aj seed (get level j) j) /\
    (forall j, (0 <= j < Z.of_nat N)%Z -> get level j = (-1)%Z -> forall L, ~ reach Ap Aj seed L j) /\
    NoDup (firstn (Z.to_nat Nn) order) /\
    (forall k, In k (firstn (Z.to_nat Nn) order) <-> exists L, reach Ap Aj seed L k).
Proof. exact bfs_correct. Qed.
Print Assumptions C18_breadth_first_search_correct.
(* non-vacuity: on the directed path 0 -> 1 -> 2 plus the isolated vertex 3 the hypotheses hold and the model
   returns levels 0,1,2,-1 *)
Example C18_bfs_example : bfs 4 [0;1;2;2;2]%Z [1;2]%Z 0 [0;0;0;0]%Z = Some ([0;1;2;0]%Z, [0;1;2;-1]%Z, 3%Z).
Proof. vm_compute. reflexivity. Qed.

(* bounded theorems: ALL symmetric graphs on <= 4 vertices (with and without stored diagonal),
   all weight vectors over {0,1,2} (ties included), all seeds / centre sets; the models never
   run out of fuel and their outputs satisfy the executable specifications of GraphSpec.v *)
Theorem C18_bounded_mis_serial : forall g, In g graphs_le4 -> ok_mis_serial g = true.
Proof. exact bounded_mis_serial. Qed.
Print Assumptions C18_bounded_mis_serial.
Theorem C18_bounded_mis_parallel : forall g, In g graphs_le4 -> ok_mis_parallel g = true.
Proof. exact bounded_mis_parallel. Qed.
Print Assumptions C18_bounded_mis_parallel.
Theorem C18_bounded_mis_distance_k : forall g, In g graphs_le4 -> ok_mis_k g = true.
Proof. exact bounded_mis_k. Qed.
Print Assumptions C18_bounded_mis_distance_k.
Theorem C18_bounded_coloring_mis : forall g, In g graphs_le4 -> ok_coloring_mis g = true.
Proof. exact bounded_coloring_mis. Qed.
Print Assumptions C18_bounded_coloring_mis.
Theorem C18_bounded_coloring_jp : forall g, In g graphs_le4 -> ok_coloring_jp g = true.
Proof. exact bounded_coloring_jp. Qed.
Print Assumptions C18_bounded_coloring_jp.
Theorem C18_bounded_coloring_ldf : forall g, In g graphs_le4 -> ok_coloring_ldf g = true.
Proof. exact bounded_coloring_ldf. Qed.
Print Assumptions C18_bounded_coloring_ldf.
Theorem C18_bounded_components : forall g, In g graphs_le4 -> ok_components g = true.
Proof. exact bounded_components. Qed.
Print Assumptions C18_bounded_components.
Theorem C18_bounded_bfs : forall g, In g graphs_le4 -> ok_bfs g = true.
Proof. exact bounded_bfs. Qed.
Print Assumptions C18_bounded_bfs.
Theorem C18_bounded_bellman_ford : forall g, In g wgraphs_le4 -> ok_bf g = true.
Proof. exact bounded_bf. Qed.
Print Assumptions C18_bounded_bellman_ford.

(* bellman_ford, UNBOUNDED (partial correctness, integer weights of either sign): on every weighted directed graph of
   any size with column indices below n and every list of centres below n, WHENEVER the kernel model returns (its loop
   ran until a pass changed nothing -- with a negative cycle it never does),
     - every finite distance d[v] is the weight of a walk to v from centre number m[v] (which is one of the centres),
     - for every centre c and every walk from c to v of weight L, v has a finite distance d[v] <= L:
   d is the shortest-walk distance to the nearest centre and m names a centre that attains it; unreachable vertices
   keep the distance "infinity".  (That the n+2 passes of fuel suffice for nonnegative weights is the bounded
   theorem above and the correspondence.) *)
Require Import PV.Proofs.BfProofs.
Theorem C18_bellman_ford_shortest_paths : forall (N : nat) (Ap Aj Ax centers : list Z),
  (forall i, 0 <= i < Z.of_nat N -> forall jj, get Ap i <= jj < get Ap (i + 1) -> 0 <= get Aj jj < Z.of_nat N) ->
  (forall c, In c centers -> 0 <= c < Z.of_nat N) ->
  forall d m p, bellman_ford (Z.of_nat N) Ap Aj Ax centers = Some (d, m, p) ->
  (forall v x, 0 <= v < Z.of_nat N -> getd d v = Some x ->
     In (cen centers (get m v)) centers /\ walk N Ap Aj Ax (cen centers (get m v)) v x) /\
  (forall c v L, In c centers -> walk N Ap Aj Ax c v L -> 0 <= v < Z.of_nat N /\ exists x, getd d v = Some x /\ x <= L).
Proof. exact bellman_ford_correct. Qed.
Print Assumptions C18_bellman_ford_shortest_paths.
(* non-vacuity: a directed weighted graph with two centres (0 and 3), a zero-weight edge and an unreachable vertex *)
Example C18_bellman_ford_example :
  bellman_ford 5 [0; 2; 3; 4; 5; 5] [1; 2; 2; 1; 2] [4; 1; 0; 7; 3] [0; 3] =
    Some ([Some 0; Some 4; Some 1; Some 0; None], [0; 0; 0; 1; -1], [-1; 0; 0; -1; -1]).
Proof. vm_compute. reflexivity. Qed.
