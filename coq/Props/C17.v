(* C17 -- native kernels stay inside their arrays.  Property theorems only.
   The checked twins (Model/RelaxChk.v, Model/SplitChk.v) perform every array access through a
   bounds-checked get/set and return None at the first access outside an array; the theorems say
   that on structurally valid input they never return None and compute what the kernels' models
   compute.  Relaxation sweeps: any number of rows, any valid CSR (empty rows, missing/zero
   diagonals, unsorted or repeated columns), any row list inside [0,n).  Ruge-Stuben bucket
   arrays: bounded (133 patterns x 3^n influence vectors, bound stated). *)
From Coq Require Import ZArith List Bool QArith Lia.
Import ListNotations.
Require Import PV.Base.Ops PV.Model.Relax PV.Model.RelaxChk PV.Proofs.RelaxChkProofs.
Require Import PV.Model.GraphAlg PV.Model.Split PV.Model.SplitChk PV.Proofs.GraphSpec PV.Proofs.GraphBounded PV.Proofs.SplitBounded PV.Proofs.SplitChkBounded.
Require Import PV.Model.Aggregate PV.Model.AggChk PV.Proofs.AggChkBounded PV.Proofs.NaiveAggSafe PV.Proofs.StdAggSafe.
Open Scope Z_scope.

Theorem C17_gauss_seidel_stays_in_bounds :
  forall (F : Type) (o : Ops F) (n nnz : nat) Ap Aj (Ax b : list F) rows x,
  wf n nnz Ap Aj Ax x b -> (forall i, In i rows -> 0 <= i < Z.of_nat n) ->
  fold_left (fun ox i => bind ox (fun x => gs_row_chk o Ap Aj Ax b x i)) rows (Some x) =
  Some (fold_left (fun x i => gs_row o Ap Aj Ax b x i) rows x).
Proof. exact (fun F o => gauss_seidel_safe o). Qed.
Print Assumptions C17_gauss_seidel_stays_in_bounds.

(* the two sweep ranges the Python callers pass: (0, n, 1) and (n-1, -1, -1) *)
Theorem C17_gauss_seidel_forward_backward_sweeps :
  forall (F : Type) (o : Ops F) (n nnz : nat) Ap Aj (Ax x b : list F), wf n nnz Ap Aj Ax x b ->
  gauss_seidel_chk o Ap Aj Ax x b 0 (Z.of_nat n) 1 = Some (gauss_seidel o Ap Aj Ax x b 0 (Z.of_nat n) 1) /\
  gauss_seidel_chk o Ap Aj Ax x b (Z.of_nat n - 1) (-1) (-1) = Some (gauss_seidel o Ap Aj Ax x b (Z.of_nat n - 1) (-1) (-1)).
Proof. exact (fun F o => gauss_seidel_forward_backward_safe o). Qed.
Print Assumptions C17_gauss_seidel_forward_backward_sweeps.

Theorem C17_sor_stays_in_bounds :
  forall (F : Type) (o : Ops F) (n nnz : nat) omega Ap Aj (Ax b : list F) rows x,
  wf n nnz Ap Aj Ax x b -> (forall i, In i rows -> 0 <= i < Z.of_nat n) ->
  fold_left (fun ox i => bind ox (fun x => sor_row_chk o omega Ap Aj Ax b x i)) rows (Some x) =
  Some (fold_left (fun x i => sor_row o omega Ap Aj Ax b x i) rows x).
Proof. exact (fun F o => sor_safe o). Qed.
Print Assumptions C17_sor_stays_in_bounds.

Theorem C17_jacobi_stays_in_bounds :
  forall (F : Type) (o : Ops F) (n nnz : nat) omega Ap Aj (Ax x b temp : list F) start stop step,
  wf n nnz Ap Aj Ax x b -> length temp = n ->
  (forall i, In i (loop_idx start stop step) -> 0 <= i < Z.of_nat n) ->
  jacobi_chk o Ap Aj Ax x b temp start stop step omega = Some (jacobi o Ap Aj Ax x b temp start stop step omega).
Proof. exact (fun F o => jacobi_safe o). Qed.
Print Assumptions C17_jacobi_stays_in_bounds.

(* the indexed point kernels (C/F relaxation of the classical and AIR solvers): any valid CSR matrix, any index array with
   entries in [0, n), any positions inside the index array *)
Require Import PV.Proofs.RelaxIdxSafe.
Theorem C17_indexed_relaxation_stays_in_bounds :
  forall (F : Type) (o : Ops F) (n nnz : nat) omega Ap Aj (Ax x b : list F) (Id : list Z) start stop step,
  wf n nnz Ap Aj Ax x b -> (forall k, (k < length Id)%nat -> 0 <= nth k Id 0 < Z.of_nat n) ->
  ((forall ii, In ii (loop_idx start stop step) -> 0 <= ii < Z.of_nat (length Id)) ->
   gauss_seidel_indexed_chk o Ap Aj Ax x b Id start stop step = Some (gauss_seidel_indexed o Ap Aj Ax x b Id start stop step)) /\
  jacobi_indexed_chk o Ap Aj Ax x b Id omega = Some (jacobi_indexed o Ap Aj Ax x b Id omega).
Proof.
  intros F o n nnz omega Ap Aj Ax x b Id start stop step W HId. split.
  - intros Hr. exact (gauss_seidel_indexed_kernel_safe o n nnz Ap Aj Ax x b Id start stop step HId W Hr).
  - apply (jacobi_indexed_safe o n nnz); [exact W|]. intros i Hi. destruct (In_nth Id i 0 Hi) as [k [Hk E]]. rewrite <- E. apply HId. exact Hk.
Qed.
Print Assumptions C17_indexed_relaxation_stays_in_bounds.

(* lambda buckets of the Ruge-Stuben splitting (the "//invalid write!" site): bounded *)
Theorem C17_bounded_rs_splitting_stays_in_bounds : forall p, In p all_patterns -> ok_rs_chk p = true.
Proof. exact bounded_rs_chk. Qed.
Print Assumptions C17_bounded_rs_splitting_stays_in_bounds.

(* sentinel arithmetic of standard aggregation (-n marks isolated nodes, negative ids mark pass-2
   attachments, ids shifted in place, y written at next-1 in pass 1 and at next in pass 3; x and y have n
   entries): UNBOUNDED -- any number of vertices, any structurally valid CSR graph, symmetric or not *)
Theorem C17_standard_aggregation_stays_in_bounds : forall (N : nat) (Ap Aj y0 : list Z),
  length Ap = S N ->
  (forall i, 0 <= i < Z.of_nat N -> 0 <= get Ap i <= get Ap (i + 1) /\ get Ap (i + 1) <= Z.of_nat (length Aj)) ->
  (forall i, 0 <= i < Z.of_nat N -> forall j, In j (nbrs Ap Aj i) -> 0 <= j < Z.of_nat N) ->
  length y0 = N ->
  standard_aggregation_chk (Z.of_nat N) Ap Aj y0 = Some (standard_aggregation (Z.of_nat N) Ap Aj y0).
Proof. exact (fun N Ap Aj y0 H1 H2 H3 Hy => standard_aggregation_safe N Ap Aj H1 H2 H3 y0 Hy). Qed.
Print Assumptions C17_standard_aggregation_stays_in_bounds.

(* naive aggregation, UNBOUNDED: any number of vertices, any structurally valid CSR graph (row pointer
   of n+1 non-decreasing entries within Aj, column indices in [0,n)), x and y of n entries *)
Theorem C17_naive_aggregation_stays_in_bounds : forall (N : nat) (Ap Aj y0 : list Z),
  length Ap = S N ->
  (forall i, 0 <= i < Z.of_nat N -> 0 <= get Ap i <= get Ap (i + 1) /\ get Ap (i + 1) <= Z.of_nat (length Aj)) ->
  (forall i, 0 <= i < Z.of_nat N -> forall j, In j (nbrs Ap Aj i) -> 0 <= j < Z.of_nat N) ->
  length y0 = N ->
  naive_aggregation_chk (Z.of_nat N) Ap Aj y0 = Some (naive_aggregation (Z.of_nat N) Ap Aj y0).
Proof. exact (fun N Ap Aj y0 H1 H2 H3 Hy => naive_aggregation_safe N Ap Aj H1 H2 H3 y0 Hy). Qed.
Print Assumptions C17_naive_aggregation_stays_in_bounds.

(* non-vacuity: a valid 3x3 matrix with an empty row, a missing diagonal and unsorted columns *)
Example C17_wf_inhabited :
  wf 3 4 [0; 2; 2; 4] [2; 0; 1; 0] [1; 2; 3; 4]%Z [0; 0; 0]%Z [1; 1; 1]%Z.
Proof.
  constructor; try reflexivity.
  - intros i Hi. destruct i as [|[|[|i]]]; [ | | |lia]; vm_compute; repeat split; try reflexivity; intro H; discriminate H.
  - intros jj Hj. destruct jj as [|[|[|[|jj]]]]; [ | | | |cbn in Hj; lia]; vm_compute; repeat split; try reflexivity; intro H; discriminate H.
Qed.
(* the checked twins do fail on an out-of-range column index *)
Example C17_chk_detects_bad_column :
  gauss_seidel_chk opsQ [0; 1]%Z [1]%Z [5#1]%Q [7#1]%Q [1#1]%Q 0%Z 1%Z 1%Z = None.
Proof. vm_compute. reflexivity. Qed.
Example C17_rs_chk_detects_bad_column :
  rs_cf_splitting_chk 2 [0; 1; 2] [1; 2] [0; 1; 2] [1; 0] [0; 0] = None.
Proof. exact rs_chk_detects_bad_index. Qed.
Example C17_std_chk_detects_short_y : standard_aggregation_chk 2 [0; 1; 2] [1; 0] [] = None.
Proof. exact std_chk_detects_short_y. Qed.

(* breadth_first_search, unbounded: on every structurally valid CSR graph (symmetric or not, any size) with the seed
   in range and order[] of n entries, the bounds-checked twin never reports an access outside Ap, Aj, order[0..n),
   level[0..n), returns a result, and that result is the unchecked model's (whose functional correctness is
   C18_breadth_first_search_correct); the write order[N] happens only while fewer than n vertices are labelled *)
Require Import PV.Model.BfsChk PV.Proofs.BfsSafe.
Theorem C17_breadth_first_search_stays_in_bounds : forall (N : nat) (Ap Aj : list Z),
  length Ap = S N ->
  (forall i, 0 <= i < Z.of_nat N -> 0 <= get Ap i <= get Ap (i + 1) /\ get Ap (i + 1) <= Z.of_nat (length Aj)) ->
  (forall i, 0 <= i < Z.of_nat N -> forall j, In j (nbrs Ap Aj i) -> 0 <= j < Z.of_nat N) ->
  forall seed, 0 <= seed < Z.of_nat N -> forall order0, length order0 = N ->
  bfs_chk (Z.of_nat N) Ap Aj seed order0 = bfs (Z.of_nat N) Ap Aj seed order0 /\
  exists r, bfs_chk (Z.of_nat N) Ap Aj seed order0 = Some r.
Proof. exact (fun N Ap Aj H1 H2 H3 seed Hs order0 Ho => bfs_safe N Ap Aj H1 H2 H3 seed Hs order0 Ho). Qed.
Print Assumptions C17_breadth_first_search_stays_in_bounds.
Example C17_bfs_chk_detects_bad_column : bfs_chk 2 [0; 1; 2] [1; 2] 0 [0; 0] = None.
Proof. vm_compute. reflexivity. Qed.

(* maximal_independent_set_serial, unbounded: on every structurally valid CSR graph (any size, symmetric or not) and every
   x of n entries, whatever the three marker values, the bounds-checked twin never reports an access outside Ap, Aj or x and
   returns the unchecked model's result (whose functional correctness is C18_mis_serial_independent_maximal) *)
Require Import PV.Model.MisChk PV.Proofs.MisSafe PV.Proofs.RsSafe.
Theorem C17_mis_serial_stays_in_bounds : forall (N : nat) (Ap Aj : list Z), valid_csr N Ap Aj ->
  forall active c f x, length x = N ->
  mis_serial_chk (Z.of_nat N) Ap Aj active c f x = Some (mis_serial (Z.of_nat N) Ap Aj active c f x).
Proof. exact (fun N Ap Aj V active c f x L => mis_chk_safe N Ap Aj V active c f x L). Qed.
Print Assumptions C17_mis_serial_stays_in_bounds.
Example C17_mis_chk_detects_bad_column : mis_serial_chk 2 [0; 1; 2] [2; 0] (-1) 1 0 [-1; -1] = None.
Proof. vm_compute. reflexivity. Qed.
Example C17_mis_chk_valid_example :
  valid_csr 3 [0; 1; 3; 4] [1; 0; 2; 1] /\ mis_serial_chk 3 [0; 1; 3; 4] [1; 0; 2; 1] (-1) 1 0 [-1; -1; -1] = Some ([1; 0; 1], 2).
Proof.
  split; [|vm_compute; reflexivity]. split; [cbn; lia|]. split.
  - intros i Hi. assert (i = 0 \/ i = 1 \/ i = 2) as [-> | [-> | ->]] by lia; unfold get; simpl; lia.
  - intros k Hk. cbn [length] in Hk. assert (k = 0 \/ k = 1 \/ k = 2 \/ k = 3) as [-> | [-> | [-> | ->]]] by lia; unfold get; simpl; lia.
Qed.

(* rs_cf_splitting, UNBOUNDED (the "//invalid write!" site; bucket arrays of max(2*max lambda, n+1) entries and the
   guard lambda >= n-1): on every pair of structurally valid CSR patterns S, T with column indices below n (they
   need not be transposes of each other, nor symmetric) and every nonnegative influence vector, for any number of
   vertices, the bounds-checked twin never reports an access outside lambda, interval_ptr, interval_count,
   index_to_node, node_to_index, splitting, Sp, Sj, Tp, Tj or influence, and returns the kernel model's result.
   The proof keeps the bucket invariant (sorted, gap-free partition of the unvisited positions) through the counting
   sort, incr_lambda, decr_lambda and the removal of the top node. *)
Require Import PV.Proofs.RsSafe.
Theorem C17_rs_splitting_stays_in_bounds : forall (N : nat) (Sp Sj Tp Tj infl : list Z),
  valid_csr N Sp Sj -> valid_csr N Tp Tj -> (N <= length infl)%nat ->
  (forall i, 0 <= i < Z.of_nat N -> 0 <= get infl i) ->
  rs_cf_splitting_chk (Z.of_nat N) Sp Sj Tp Tj infl = Some (rs_cf_splitting (Z.of_nat N) Sp Sj Tp Tj infl).
Proof. exact rs_chk_safe. Qed.
Print Assumptions C17_rs_splitting_stays_in_bounds.
(* the hypotheses are satisfiable (a nonsymmetric pattern on 4 vertices, T its transpose) *)
Example C17_rs_valid_example :
  let Sp := [0; 2; 3; 3; 5] in let Sj := [1; 2; 2; 0; 1] in let Tp := [0; 1; 3; 5; 5] in let Tj := [3; 0; 3; 0; 1] in
  valid_csr 4 Sp Sj /\ valid_csr 4 Tp Tj /\
  rs_cf_splitting_chk 4 Sp Sj Tp Tj [0; 0; 0; 0] = Some (rs_cf_splitting 4 Sp Sj Tp Tj [0; 0; 0; 0]).
Proof.
  cbv zeta. assert (V : forall P J, length P = 5%nat -> length J = 5%nat ->
     forallb (fun i => (0 <=? get P i) && (get P i <=? get P (i + 1)) && (get P (i + 1) <=? 5)) [0; 1; 2; 3] = true ->
     forallb (fun k => (0 <=? get J k) && (get J k <? 4)) [0; 1; 2; 3; 4] = true -> valid_csr 4 P J).
  { intros P J LP LJ H1 H2. rewrite forallb_forall in H1, H2. split; [rewrite LP; lia|]. split.
    - intros i Hi. assert (Hin : In i [0; 1; 2; 3]) by (cbn; lia). specialize (H1 i Hin). rewrite LJ. lia.
    - intros k Hk. rewrite LJ in Hk. assert (Hin : In k [0; 1; 2; 3; 4]) by (cbn; lia). specialize (H2 k Hin). lia. }
  split; [apply V; reflexivity|]. split; [apply V; reflexivity|]. vm_compute. reflexivity.
Qed.

(* rs_direct_interpolation_pass1/2 and rs_classical_interpolation_pass1/2, UNBOUNDED: the Python callers allocate
   P.indices / P.data with nnz = P.indptr[n] entries, where P.indptr comes from pass 1.  For every number of rows, every
   strength pattern and splitting: the entries pass 2 produces for row i (kernel models of C11, tied bit for bit to the
   kernels there) fill exactly the slice [Bp[i], Bp[i+1]) that pass 1 reserved, and all rows together fill exactly
   the nnz entries -- so the write position `nnz` of pass 2 never passes the end of the arrays. *)
Require Import PV.Model.Interp PV.Proofs.InterpSlots.
Theorem C17_interpolation_pass2_fills_reserved_slots :
  forall (F : Type) (o : Ops F) (Ap Aj : list Z) (Ax : list F) (Sp Sj : list Z) (Sx : list F) (spl : list Z) (N : nat),
  let Bp := interp_pass1 (Z.of_nat N) Sp Sj spl in
  (forall i, 0 <= i < Z.of_nat N ->
     nthZ Bp i 0 + Z.of_nat (length (direct_row o Ap Aj Ax Sp Sj Sx spl i)) = nthZ Bp (i + 1) 0) /\
  (forall eps15 modified i, 0 <= i < Z.of_nat N ->
     nthZ Bp i 0 + Z.of_nat (length (classical_row o Ap Aj Ax Sp Sj Sx spl eps15 modified i)) = nthZ Bp (i + 1) 0) /\
  Z.of_nat (length (concat (direct_rows o (Z.of_nat N) Ap Aj Ax Sp Sj Sx spl))) = nthZ Bp (Z.of_nat N) 0 /\
  (forall eps15 modified,
     Z.of_nat (length (concat (classical_rows o (Z.of_nat N) Ap Aj Ax Sp Sj Sx spl eps15 modified))) = nthZ Bp (Z.of_nat N) 0).
Proof.
  intros F o Ap Aj Ax Sp Sj Sx spl N Bp. split; [|split; [|split]].
  - intros i Hi. exact (direct_fills_reserved o Ap Aj Ax Sp Sj Sx spl N i Hi).
  - intros e m i Hi. exact (classical_fills_reserved o Ap Aj Ax Sp Sj Sx spl N e m i Hi).
  - exact (total_rows Sp Sj spl _ N (direct_row_slots o Ap Aj Ax Sp Sj Sx spl)).
  - intros e m. exact (total_rows Sp Sj spl _ N (classical_row_slots o Ap Aj Ax Sp Sj Sx spl e m)).
Qed.
Print Assumptions C17_interpolation_pass2_fills_reserved_slots.
Example C17_interpolation_slots_example :
  let Sp := [0; 2; 3; 5] in let Sj := [1; 2; 0; 0; 1] in let spl := [1; 0; 0] in
  interp_pass1 3 Sp Sj spl = [0; 1; 2; 3] /\
  map (@length _) (direct_rows opsQ 3 Sp Sj [2#1; -1#1; -1#1; 2#1; -1#1] Sp Sj [2#1; -1#1; -1#1; -1#1; 2#1] spl) = [1; 1; 1]%nat.
Proof. split; vm_compute; reflexivity. Qed.
