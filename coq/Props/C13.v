(* C13 -- coarse/fine splittings are well formed and cover the strength graph.  Property
   theorems only; bounded: every directed pattern on <= 3 vertices and every symmetric graph
   on 4 vertices (133 patterns, the bound is part of each statement). *)
From Coq Require Import ZArith List Bool.
Import ListNotations.
Require Import PV.Model.GraphAlg PV.Model.Split PV.Proofs.GraphSpec PV.Proofs.GraphBounded PV.Proofs.SplitBounded.

(* first-pass Ruge-Stuben: 0/1 flags, a C point whenever there is an edge, and on symmetric
   patterns an independent and dominating C set *)
Theorem C13_bounded_rs_first_pass : forall p, In p all_patterns -> ok_rs p = true.
Proof. exact bounded_rs. Qed.
Print Assumptions C13_bounded_rs_first_pass.

(* two-pass Ruge-Stuben: every F point with a strong dependence has a strong C dependence *)
Theorem C13_bounded_rs_two_pass_cover : forall p, In p all_patterns -> ok_rs2 p = true.
Proof. exact bounded_rs2. Qed.
Print Assumptions C13_bounded_rs_two_pass_cover.

(* CLJP, every tied weight vector: terminates, 0/1 flags, some C, cover *)
Theorem C13_bounded_cljp_cover : forall p, In p all_patterns -> ok_cljp p = true.
Proof. exact bounded_cljp. Qed.
Print Assumptions C13_bounded_cljp_cover.

(* PMIS: the parallel maximal independent set on the symmetrised graph is independent and
   dominating (all symmetric graphs on <= 4 vertices, all tied weight vectors) *)
Theorem C13_bounded_pmis_independent_dominating : forall g, In g graphs_le4 -> ok_mis_parallel g = true.
Proof. exact bounded_mis_parallel. Qed.
Print Assumptions C13_bounded_pmis_independent_dominating.

Example C13_enumeration_size : length all_patterns = 133%nat.
Proof. exact all_patterns_count. Qed.
