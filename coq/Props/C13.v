(* C13 -- coarse/fine splittings are well formed and cover the strength graph.  Property
   theorems only; bounded: every directed pattern on <= 3 vertices and every symmetric graph
   on 4 vertices (133 patterns, the bound is part of each statement). *)
From Coq Require Import ZArith List Bool.
Import ListNotations.
Require Import PV.Model.GraphAlg PV.Model.Split PV.Proofs.GraphSpec PV.Proofs.GraphBounded PV.Proofs.SplitBounded.
Require Import PV.Proofs.ParMisProofs PV.Proofs.ParMisTerm PV.Proofs.RsIndep PV.Proofs.RsFinal PV.Proofs.Pass2Proofs PV.Proofs.RsSafe PV.Proofs.RsSomeC.
From Coq Require Import Lia.

(* first-pass Ruge-Stuben: 0/1 flags, a C point whenever there is an edge, and on symmetric
   patterns an independent and dominating C set *)
Theorem C13_bounded_rs_first_pass : forall p, In p all_patterns -> ok_rs p = true.
Proof. exact bounded_rs. Qed.
Print Assumptions C13_bounded_rs_first_pass.

(* two-pass Ruge-Stuben: every F point with a strong dependence has a strong C dependence *)
Theorem C13_bounded_rs_two_pass_cover : forall p, In p all_patterns -> ok_rs2 p = true.
Proof. exact bounded_rs2. Qed.
Print Assumptions C13_bounded_rs_two_pass_cover.

(* CLJP, every tied weight vector: terminates, 0/1 flags, some C, cover *)
Theorem C13_bounded_cljp_cover : forall p, In p all_patterns -> ok_cljp p = true.
Proof. exact bounded_cljp. Qed.
Print Assumptions C13_bounded_cljp_cover.

(* PMIS: the parallel maximal independent set on the symmetrised graph is independent and
   dominating (all symmetric graphs on <= 4 vertices, all tied weight vectors) *)
Theorem C13_bounded_pmis_independent_dominating : forall g, In g graphs_le4 -> ok_mis_parallel g = true.
Proof. exact bounded_mis_parallel. Qed.
Print Assumptions C13_bounded_pmis_independent_dominating.

(* first-pass Ruge-Stuben, UNBOUNDED: for every strength pattern whose transpose T is symmetric as a graph (any
   number of vertices, any influence vector, whatever the lambda buckets hold -- they only fix the order in
   which undecided vertices are promoted): 0/1 flags and an INDEPENDENT coarse set *)
Theorem C13_rs_first_pass_independent : forall (N : nat) (Sp Sj Tp Tj : list Z),
  (forall i, (0 <= i < Z.of_nat N)%Z -> forall j, In j (nbrs Tp Tj i) -> (0 <= j < Z.of_nat N)%Z) ->
  (forall i j, (0 <= i < Z.of_nat N)%Z -> In j (nbrs Tp Tj i) -> In i (nbrs Tp Tj j)) ->
  forall infl : list Z,
  let s := rs_cf_splitting (Z.of_nat N) Sp Sj Tp Tj infl in
  length s = N /\
  (forall k, (0 <= k < Z.of_nat N)%Z -> get s k = 0%Z \/ get s k = 1%Z) /\
  (forall i j, (0 <= i < Z.of_nat N)%Z -> get s i = 1%Z -> In j (nbrs Tp Tj i) -> j <> i -> get s j <> 1%Z).
Proof. exact rs_first_pass_independent. Qed.
Print Assumptions C13_rs_first_pass_independent.

(* PMIS, UNBOUNDED: the splitting is the parallel maximal independent set of the symmetrised strength graph
   with the kernel's codes (-1 undecided, 1 coarse, 0 fine).  For every symmetric graph of any size and any
   weights: whenever the kernel model returns, the coarse points are independent and every fine point has a
   coarse neighbour (dominating); with integer weights (ties by index) it always returns. *)
Theorem C13_pmis_independent_dominating : forall (N : nat) (Gp Gj : list Z),
  (forall i, (0 <= i < Z.of_nat N)%Z -> forall j, In j (nbrs Gp Gj i) -> (0 <= j < Z.of_nat N)%Z) ->
  (forall i j, (0 <= i < Z.of_nat N)%Z -> In j (nbrs Gp Gj i) -> In i (nbrs Gp Gj j)) ->
  forall (W : Type) (wt : Wt W) (weights : list W) (x0 : list Z),
  length x0 = N -> (forall k, (0 <= k < Z.of_nat N)%Z -> get x0 k = (-1)%Z) ->
  forall spl Nn, mis_parallel (Z.of_nat N) Gp Gj wt (-1)%Z 1%Z 0%Z x0 weights (-1)%Z = Some (spl, Nn) ->
  length spl = N /\
  (forall k, (0 <= k < Z.of_nat N)%Z -> get spl k = 1%Z \/ get spl k = 0%Z) /\
  (forall i j, (0 <= i < Z.of_nat N)%Z -> get spl i = 1%Z -> In j (nbrs Gp Gj i) -> j <> i -> get spl j <> 1%Z) /\
  (forall i, (0 <= i < Z.of_nat N)%Z -> get spl i <> 1%Z -> exists j, In j (nbrs Gp Gj i) /\ j <> i /\ get spl j = 1%Z).
Proof. intros. eapply (mis_parallel_partial_correctness N Gp Gj H H0 (-1)%Z 1%Z 0%Z); eauto; discriminate. Qed.
Print Assumptions C13_pmis_independent_dominating.
Theorem C13_pmis_terminates : forall (N : nat) (Gp Gj : list Z),
  (forall i, (0 <= i < Z.of_nat N)%Z -> forall j, In j (nbrs Gp Gj i) -> (0 <= j < Z.of_nat N)%Z) ->
  (forall i j, (0 <= i < Z.of_nat N)%Z -> In j (nbrs Gp Gj i) -> In i (nbrs Gp Gj j)) ->
  forall (weights x0 : list Z), length x0 = N -> (forall k, (0 <= k < Z.of_nat N)%Z -> get x0 k = (-1)%Z) ->
  exists r, mis_parallel (Z.of_nat N) Gp Gj WtZ (-1)%Z 1%Z 0%Z x0 weights (-1)%Z = Some r.
Proof. intros. eapply (mis_parallel_terminates N Gp Gj H H0 (-1)%Z 1%Z 0%Z); eauto; discriminate. Qed.
Print Assumptions C13_pmis_terminates.

(* first-pass Ruge-Stuben, UNBOUNDED: on a symmetric strength pattern (S and its transpose T list the same
   neighbours) with a nonnegative influence vector the coarse set is DOMINATING -- every fine point is either
   without off-diagonal strong connection or strongly connected to a coarse point -- for any number of vertices.
   The proof carries the full invariant of the lambda buckets (sorted, gap-free partition of the unvisited
   positions; Proofs/RsBuckets.v, RsInit.v): the loop visits every vertex or stops when the largest lambda among the
   unvisited ones is <= 0, and an undecided vertex always has lambda >= 1, so no vertex is left undecided. *)
Theorem C13_rs_first_pass_dominating : forall (N : nat) (Sp Sj Tp Tj infl : list Z),
  (forall i, (0 <= i < Z.of_nat N)%Z -> forall j, In j (nbrs Tp Tj i) -> (0 <= j < Z.of_nat N)%Z) ->
  (forall i, (0 <= i < Z.of_nat N)%Z -> forall j, In j (row Sp Sj i) -> (0 <= j < Z.of_nat N)%Z) ->
  (forall i j, (0 <= i < Z.of_nat N)%Z -> In j (nbrs Tp Tj i) -> In i (nbrs Tp Tj j)) ->
  (forall i j, (0 <= i < Z.of_nat N)%Z -> In j (row Sp Sj i) -> In j (nbrs Tp Tj i)) ->
  (forall i, (0 <= i < Z.of_nat N)%Z -> (0 <= get infl i)%Z) ->
  (forall i, (0 <= i < Z.of_nat N)%Z -> (get Tp i <= get Tp (i + 1))%Z) ->
  let r := rs_cf_splitting (Z.of_nat N) Sp Sj Tp Tj infl in
  forall k, (0 <= k < Z.of_nat N)%Z -> get r k = 0%Z ->
    (forall i, In i (nbrs Tp Tj k) -> i = k) \/ exists i, In i (nbrs Tp Tj k) /\ i <> k /\ get r i = 1%Z.
Proof. exact rs_first_pass_dominating. Qed.
Print Assumptions C13_rs_first_pass_dominating.
(* ... and therefore marks a coarse point whenever the (symmetric) strength graph has an edge *)
Theorem C13_rs_first_pass_marks_a_coarse_point : forall (N : nat) (Sp Sj Tp Tj infl : list Z),
  (forall i, (0 <= i < Z.of_nat N)%Z -> forall j, In j (nbrs Tp Tj i) -> (0 <= j < Z.of_nat N)%Z) ->
  (forall i, (0 <= i < Z.of_nat N)%Z -> forall j, In j (row Sp Sj i) -> (0 <= j < Z.of_nat N)%Z) ->
  (forall i j, (0 <= i < Z.of_nat N)%Z -> In j (nbrs Tp Tj i) -> In i (nbrs Tp Tj j)) ->
  (forall i j, (0 <= i < Z.of_nat N)%Z -> In j (row Sp Sj i) -> In j (nbrs Tp Tj i)) ->
  (forall i, (0 <= i < Z.of_nat N)%Z -> (0 <= get infl i)%Z) ->
  (forall i, (0 <= i < Z.of_nat N)%Z -> (get Tp i <= get Tp (i + 1))%Z) ->
  forall k i, (0 <= k < Z.of_nat N)%Z -> In i (nbrs Tp Tj k) -> i <> k ->
  exists c, (0 <= c < Z.of_nat N)%Z /\ get (rs_cf_splitting (Z.of_nat N) Sp Sj Tp Tj infl) c = 1%Z.
Proof.
  intros N Sp Sj Tp Tj infl H1 H2 H3 H4 H5 H6 k i Hk Hi Hne.
  destruct (rs_first_pass_independent N Sp Sj Tp Tj H1 H3 infl) as (_ & B & _).
  destruct (B k Hk) as [Z0|Z1]; [|exists k; split; assumption].
  destruct (rs_first_pass_dominating N Sp Sj Tp Tj infl H1 H2 H3 H4 H5 H6 k Hk Z0) as [Iso|(c & Hc & _ & Hc1)].
  - exfalso. apply Hne. apply Iso. exact Hi.
  - exists c. split; [apply (H1 k Hk c Hc)|exact Hc1].
Qed.
Print Assumptions C13_rs_first_pass_marks_a_coarse_point.
(* the hypotheses are satisfiable and the conclusion is not vacuous: the path 0 - 1 - 2 - 3 (no diagonal) *)
Example C13_rs_dominating_example :
  let Sp := [0; 1; 3; 5; 6]%Z in let Sj := [1; 0; 2; 1; 3; 2]%Z in let infl := [0; 0; 0; 0]%Z in
  rs_cf_splitting 4 Sp Sj Sp Sj infl = [1; 0; 1; 0]%Z /\
  (forall i, (0 <= i < 4)%Z -> forall j, In j (nbrs Sp Sj i) -> (0 <= j < 4)%Z) /\
  (forall i j, (0 <= i < 4)%Z -> In j (nbrs Sp Sj i) -> In i (nbrs Sp Sj j)).
Proof.
  cbv zeta. split; [vm_compute; reflexivity|]. split.
  - intros i Hi j Hj. assert (C : (i = 0 \/ i = 1 \/ i = 2 \/ i = 3)%Z) by lia.
    destruct C as [-> | [-> | [-> | ->]]]; vm_compute in Hj; intuition lia.
  - intros i j Hi Hj. assert (C : (i = 0 \/ i = 1 \/ i = 2 \/ i = 3)%Z) by lia.
    destruct C as [-> | [-> | [-> | ->]]]; vm_compute in Hj; intuition (subst; vm_compute; auto).
Qed.

(* two-pass Ruge-Stuben, UNBOUNDED: for EVERY strength pattern (symmetric or not, with or without stored diagonal,
   any T and influence handed to the first pass) with column indices below n, any number of vertices: the result is one
   0/1 flag per vertex, and every fine point with a nonempty strength row strongly depends on a coarse point.
   (First pass: the flags are 0/1 on every pattern.  Second pass, as the kernel does it -- on a second conflict in a
   row the tentative coarse point is put back and the new one promoted: coarse points present when a row starts are
   never demoted, and once the first entry of a fine row has been looked at the row contains a coarse point.) *)
Theorem C13_rs_two_pass_cover : forall (N : nat) (Sp Sj Tp Tj infl : list Z),
  (forall i, (0 <= i < Z.of_nat N)%Z -> forall j, In j (srow Sp Sj i) -> (0 <= j < Z.of_nat N)%Z) ->
  let r := rs_pass2 (Z.of_nat N) Sp Sj (rs_cf_splitting (Z.of_nat N) Sp Sj Tp Tj infl) in
  length r = N /\
  (forall k, (0 <= k < Z.of_nat N)%Z -> get r k = 0%Z \/ get r k = 1%Z) /\
  forall i, (0 <= i < Z.of_nat N)%Z -> get r i = 0%Z -> srow Sp Sj i <> [] -> exists j, In j (srow Sp Sj i) /\ get r j = 1%Z.
Proof. exact rs_two_pass_cover. Qed.
Print Assumptions C13_rs_two_pass_cover.
(* non-vacuity: a nonsymmetric pattern (1 -> 3, 2 -> 1) on which the first pass alone leaves the fine point 2 without a
   coarse point in its row, and the second pass promotes vertex 1 *)
Example C13_rs_two_pass_example :
  let Sp := [0; 0; 1; 2; 2]%Z in let Sj := [3; 1]%Z in let Tp := [0; 0; 1; 1; 2]%Z in let Tj := [2; 1]%Z in
  rs_cf_splitting 4 Sp Sj Tp Tj [0; 0; 0; 0]%Z = [0; 0; 0; 1]%Z /\
  rs_pass2 4 Sp Sj (rs_cf_splitting 4 Sp Sj Tp Tj [0; 0; 0; 0]%Z) = [0; 1; 0; 1]%Z.
Proof. split; vm_compute; reflexivity. Qed.

(* one- and two-pass Ruge-Stuben, UNBOUNDED, EVERY pattern: on any pair of structurally valid CSR patterns S, T (symmetric
   or not; T is what the caller passes as transpose) with nonnegative influence, as soon as some vertex k has an
   off-diagonal entry in its row of T (somebody else strongly depends on k) the first pass marks a coarse point, and the
   second pass never demotes a coarse point of the first *)
Theorem C13_rs_marks_a_coarse_point_on_every_pattern : forall (N : nat) (Sp Sj Tp Tj infl : list Z),
  valid_csr N Sp Sj -> valid_csr N Tp Tj -> (N <= length infl)%nat ->
  (forall i, (0 <= i < Z.of_nat N)%Z -> (0 <= get infl i)%Z) ->
  forall k j, (0 <= k < Z.of_nat N)%Z -> In j (nbrs Tp Tj k) -> j <> k ->
  (exists c, (0 <= c < Z.of_nat N)%Z /\ get (rs_cf_splitting (Z.of_nat N) Sp Sj Tp Tj infl) c = 1%Z) /\
  (exists c, (0 <= c < Z.of_nat N)%Z /\ get (rs_pass2 (Z.of_nat N) Sp Sj (rs_cf_splitting (Z.of_nat N) Sp Sj Tp Tj infl)) c = 1%Z).
Proof.
  intros N Sp Sj Tp Tj infl VS VT Li Hi k j Hk Hj Hne. split.
  - exact (rs_first_pass_some_C N Sp Sj Tp Tj infl VS VT Li Hi k j Hk Hj Hne).
  - exact (rs_two_pass_some_C N Sp Sj Tp Tj infl VS VT Li Hi k j Hk Hj Hne).
Qed.
Print Assumptions C13_rs_marks_a_coarse_point_on_every_pattern.

Example C13_enumeration_size : length all_patterns = 133%nat.
Proof. exact all_patterns_count. Qed.
