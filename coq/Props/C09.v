(* C09 -- relaxation sweeps compute exactly their defining splitting update.
   Property theorems only.  [is_field o inv]: the operations of [o] form a field
   (Stdlib field_theory) and [eqb o] decides equality; every theorem holds for
   every such scalar type, every CSR structure and all vectors. *)
From Coq Require Import ZArith List Bool QArith Field Lia.
Import ListNotations.
Require Import PV.Base.Ops PV.Model.Relax PV.Proofs.RelaxProofs PV.Proofs.KaczmarzProofs.
Require PV.Proofs.GsNrProofs.
Require Import PV.Proofs.RelaxFrame.

(* Gauss-Seidel on row i:  a_ii x'_i + sum_{j<>i} a_ij x'_j = b_i ; a zero diagonal leaves x
   untouched; no other entry changes *)
Theorem C09_gauss_seidel_row : forall F (o : Ops F) inv, is_field o inv ->
  forall Ap Aj Ax b i, (0 <= i)%Z -> cols_nonneg Ap Aj i -> forall x, (Z.to_nat i < length x)%nat ->
  let x' := gs_row o Ap Aj Ax b x i in
  (rdiag o Ap Aj Ax i <> zero o ->
     add o (mul o (rdiag o Ap Aj Ax i) (nthZ x' i (zero o))) (rsum o Ap Aj Ax x' i) = nthZ b i (zero o)) /\
  (rdiag o Ap Aj Ax i = zero o -> x' = x) /\
  (forall k, k <> Z.to_nat i -> nth k x' (zero o) = nth k x (zero o)) /\
  length x' = length x.
Proof.
  intros F [z0 o1 ad sb ml dv op ab eq le lt] inv [Fth Heq].
  exact (gs_row_equation F z0 o1 ad ml sb op dv inv ab eq le lt Fth Heq).
Qed.
Print Assumptions C09_gauss_seidel_row.

(* SOR:  a_ii x'_i = omega (b_i - sum_{j<>i} a_ij x'_j) + (1 - omega) a_ii x_i *)
Theorem C09_sor_row : forall F (o : Ops F) inv, is_field o inv ->
  forall Ap Aj Ax b i, (0 <= i)%Z -> cols_nonneg Ap Aj i -> forall omega x, (Z.to_nat i < length x)%nat ->
  let x' := sor_row o omega Ap Aj Ax b x i in
  (rdiag o Ap Aj Ax i <> zero o ->
     mul o (rdiag o Ap Aj Ax i) (nthZ x' i (zero o)) =
     add o (mul o omega (sub o (nthZ b i (zero o)) (rsum o Ap Aj Ax x' i)))
           (mul o (sub o (one o) omega) (mul o (rdiag o Ap Aj Ax i) (nthZ x i (zero o))))) /\
  (rdiag o Ap Aj Ax i = zero o -> x' = x) /\
  (forall k, k <> Z.to_nat i -> nth k x' (zero o) = nth k x (zero o)) /\
  length x' = length x.
Proof.
  intros F [z0 o1 ad sb ml dv op ab eq le lt] inv [Fth Heq].
  exact (sor_row_equation F z0 o1 ad ml sb op dv inv ab eq le lt Fth Heq).
Qed.
Print Assumptions C09_sor_row.

(* weighted Jacobi (reads only the frozen copy temp):
   a_ii x'_i = (1 - omega) a_ii temp_i + omega (b_i - sum_{j<>i} a_ij temp_j) *)
Theorem C09_jacobi_row : forall F (o : Ops F) inv, is_field o inv ->
  forall Ap Aj Ax b i omega temp x, (Z.to_nat i < length x)%nat ->
  let x' := jac_row o omega Ap Aj Ax b temp x i in
  (rdiag o Ap Aj Ax i <> zero o ->
     mul o (rdiag o Ap Aj Ax i) (nthZ x' i (zero o)) =
     add o (mul o (sub o (one o) omega) (mul o (rdiag o Ap Aj Ax i) (nthZ temp i (zero o))))
           (mul o omega (sub o (nthZ b i (zero o)) (rsum o Ap Aj Ax temp i)))) /\
  (rdiag o Ap Aj Ax i = zero o -> x' = x) /\
  (forall k, k <> Z.to_nat i -> nth k x' (zero o) = nth k x (zero o)) /\
  length x' = length x.
Proof.
  intros F [z0 o1 ad sb ml dv op ab eq le lt] inv [Fth Heq].
  exact (jac_row_equation F z0 o1 ad ml sb op dv inv ab eq le lt Fth Heq).
Qed.
Print Assumptions C09_jacobi_row.

(* Kaczmarz (gauss_seidel_ne), any field, ANY conjugation function, row i with pairwise distinct in-range columns:
   a_i.x' = a_i.x + (sum_j a_ij conj(a_ij)) delta  with  delta = (b_i - a_i.x) Dinv_i omega;  when Dinv_i is the
   inverse of the squared row norm the residual of row i is multiplied by (1 - omega) (omega = 1 solves the row);
   entries outside the row's columns do not change; a solved row is left alone *)
Theorem C09_kaczmarz_row : forall F (o : Ops F) inv (conj : F -> F), is_field o inv ->
  forall Aj Ax Ap b Dinv i omega x,
  let cols := zrange (nthZ Ap i 0%Z) (nthZ Ap (i + 1) 0%Z) in
  let cj := fun j => Z.to_nat (nthZ Aj j 0%Z) in
  let rd := rdot F (zero o) (add o) (mul o) Aj Ax cols in
  let nrm2 := sqs F (zero o) (add o) (mul o) conj Ax cols in
  NoDup (map cj cols) -> (forall j, In j cols -> (cj j < length x)%nat) ->
  let x' := gs_ne_row o conj Ap Aj Ax b Dinv x omega i in
  rd x' = add o (rd x) (mul o nrm2 (kdelta F (zero o) (add o) (mul o) (sub o) Aj Ax Ap b Dinv i omega x)) /\
  (mul o (nthZ Dinv i (zero o)) nrm2 = one o ->
     sub o (nthZ b i (zero o)) (rd x') = mul o (sub o (one o) omega) (sub o (nthZ b i (zero o)) (rd x))) /\
  (forall k, ~ In k (map cj cols) -> nth k x' (zero o) = nth k x (zero o)) /\
  length x' = length x /\
  (rd x = nthZ b i (zero o) -> x' = x).
Proof.
  intros F [z0 o1 ad sb ml dv op ab eq le lt] inv conj [Fth _] Aj Ax Ap b Dinv i omega x.
  exact (kaczmarz_row F z0 o1 ad ml sb op dv inv ab eq le lt Fth conj Aj Ax Ap b Dinv i omega x).
Qed.
Print Assumptions C09_kaczmarz_row.
(* non-vacuity: the row (1 2) with b = 5, Dinv = 1/5, omega = 1, x = 0 has distinct in-range columns; the step
   returns x' = (1, 2), which solves the row *)
Example C09_kaczmarz_example :
  gs_ne_row opsQ (fun a => a) [0;2]%Z [0;1]%Z [1#1;2#1] [5#1] [1#5] [0#1;0#1] (1#1) 0%Z = [1#1;2#1]
  /\ NoDup (map (fun j => Z.to_nat (nthZ [0;1]%Z j 0%Z)) (zrange 0 2)).
Proof. split; [vm_compute; reflexivity|]. vm_compute. repeat constructor; cbn; intuition lia. Qed.
(* a vector satisfying every row equation of the sweep is a fixed point of the whole Kaczmarz sweep (any order) *)
Theorem C09_kaczmarz_fixed_point : forall F (o : Ops F) inv (conj : F -> F), is_field o inv ->
  forall Aj Ax Ap b Dinv x start stop step omega,
  (forall i, In i (loop_idx start stop step) ->
     rdot F (zero o) (add o) (mul o) Aj Ax (zrange (nthZ Ap i 0%Z) (nthZ Ap (i + 1) 0%Z)) x = nthZ b i (zero o)) ->
  gauss_seidel_ne o conj Ap Aj Ax x b start stop step Dinv omega = x.
Proof.
  intros F [z0 o1 ad sb ml dv op ab eq le lt] inv conj [Fth _] Aj Ax Ap b Dinv x start stop step omega.
  exact (gauss_seidel_ne_fixed_point F z0 o1 ad ml sb op dv inv ab eq le lt Fth conj Aj Ax Ap b Dinv x start stop step omega).
Qed.
Print Assumptions C09_kaczmarz_fixed_point.

(* gauss_seidel_nr (CSC storage, r = b - A x carried along), any field, ANY conjugation, column i with pairwise
   distinct in-range row indices: with d = sum_j conj(a_ji) r_j the step leaves  sum_j conj(a_ji) r'_j = d - |a_i|^2 delta,
   i.e. (1 - omega) d when Dinv_i = 1/|a_i|^2 (omega = 1: the residual becomes orthogonal to column i); only x_i and
   the residual entries of the column's rows change; d = 0 leaves (x, r) unchanged *)
Theorem C09_gauss_seidel_nr_column : forall F (o : Ops F) inv (conj : F -> F), is_field o inv ->
  forall Ap Aj Ax Dinv omega i x r,
  let rows := zrange (nthZ Ap i 0%Z) (nthZ Ap (i + 1) 0%Z) in
  let cj := fun j => Z.to_nat (nthZ Aj j 0%Z) in
  let cd := GsNrProofs.cdot F (zero o) (add o) (mul o) conj Ap Aj Ax i in
  let nrm2 := GsNrProofs.cnorm2 F (zero o) (add o) (mul o) conj Ap Ax i in
  NoDup (map cj rows) -> (forall j, In j rows -> (cj j < length r)%nat) ->
  let '(x', r') := gs_nr_col o conj Ap Aj Ax Dinv omega (x, r) i in
  cd r' = sub o (cd r) (mul o nrm2 (GsNrProofs.ndelta F (zero o) (add o) (mul o) conj Ap Aj Ax Dinv omega i r)) /\
  (mul o (nthZ Dinv i (zero o)) nrm2 = one o -> cd r' = mul o (sub o (one o) omega) (cd r)) /\
  (forall k, ~ In k (map cj rows) -> nth k r' (zero o) = nth k r (zero o)) /\
  (forall k, k <> Z.to_nat i -> nth k x' (zero o) = nth k x (zero o)) /\
  length r' = length r /\ length x' = length x /\
  (cd r = zero o -> x' = x /\ r' = r).
Proof.
  intros F [z0 o1 ad sb ml dv op ab eq le lt] inv conj [Fth _] Ap Aj Ax Dinv omega i x r.
  exact (GsNrProofs.gs_nr_column F z0 o1 ad ml sb op dv inv ab eq le lt Fth conj Ap Aj Ax Dinv omega i x r).
Qed.
Print Assumptions C09_gauss_seidel_nr_column.
(* non-vacuity: column (1 2)^T, r = (5 0), Dinv = 1/5, omega = 1: x_0 becomes 1 and r becomes (4, -2), orthogonal to
   the column *)
Example C09_gauss_seidel_nr_example :
  gs_nr_col opsQ (fun a => a) [0;2]%Z [0;1]%Z [1#1;2#1] [1#5] (1#1) ([0#1], [5#1;0#1]) 0%Z = ([1#1], [4#1;-2#1]).
Proof. vm_compute. reflexivity. Qed.


(* "rows whose diagonal is zero are left unchanged" -- for WHOLE sweeps of the point kernels (any range start/stop/step, any
   CSR arrays, any scalar type and operations, no algebra needed): entry k of the result is entry k of the input unless a
   swept row i = k stores a nonzero diagonal; in particular every entry outside the swept range is untouched.  The stored
   diagonal [diag_of] is the one the kernel finds (last stored entry of the row with column i) and does not depend on x. *)
Theorem C09_sweeps_leave_zero_diagonal_and_unswept_rows : forall F (o : Ops F) (Ap Aj : list Z) (Ax b : list F)
  k dflt x start stop step omega temp,
  (forall i, In i (loop_idx start stop step) -> Z.to_nat i = k -> isz o (diag_of o Ap Aj Ax i) = true) ->
  nth k (gauss_seidel o Ap Aj Ax x b start stop step) dflt = nth k x dflt /\
  nth k (sor_gauss_seidel o Ap Aj Ax x b start stop step omega) dflt = nth k x dflt /\
  nth k (jacobi o Ap Aj Ax x b temp start stop step omega) dflt = nth k x dflt.
Proof. intros F o Ap Aj Ax b k dflt x start stop step omega temp H.
  exact (sweeps_leave_zero_diagonal_rows o Ap Aj Ax b k dflt x start stop step omega temp [] [] H). Qed.
Print Assumptions C09_sweeps_leave_zero_diagonal_and_unswept_rows.

Theorem C09_indexed_sweeps_leave_zero_diagonal_and_unswept_rows : forall F (o : Ops F) (Ap Aj : list Z) (Ax b : list F)
  k dflt x start stop step omega (Id indices : list Z),
  (forall i, In i (loop_idx start stop step) -> Z.to_nat (nthZ Id i 0%Z) = k -> isz o (diag_of o Ap Aj Ax (nthZ Id i 0%Z)) = true) ->
  (forall i, In i indices -> Z.to_nat i = k -> isz o (diag_of o Ap Aj Ax i) = true) ->
  nth k (gauss_seidel_indexed o Ap Aj Ax x b Id start stop step) dflt = nth k x dflt /\
  nth k (jacobi_indexed o Ap Aj Ax x b indices omega) dflt = nth k x dflt.
Proof. intros F o Ap Aj Ax b k dflt x start stop step omega Id indices.
  exact (indexed_sweeps_leave_zero_diagonal_rows o Ap Aj Ax b k dflt x start stop step omega Id indices). Qed.
Print Assumptions C09_indexed_sweeps_leave_zero_diagonal_and_unswept_rows.

(* not vacuous: a 3 x 3 matrix with a zero diagonal in row 1, forward Gauss-Seidel over all rows (rationals) *)
Example C09_zero_diagonal_example :
  let Ap := [0; 2; 4; 6]%Z in let Aj := [0; 1; 0; 1; 1; 2]%Z in
  let Ax := [2; 1; 1; 0; 1; 4]%Q in let b := [1; 1; 1]%Q in let x := [5; 7; 9]%Q in
  nth 1 (gauss_seidel opsQ Ap Aj Ax x b 0 3 1) 0%Q = 7%Q /\
  isz opsQ (diag_of opsQ Ap Aj Ax 1%Z) = true /\
  nth 0 (gauss_seidel opsQ Ap Aj Ax x b 0 3 1) 0%Q <> 5%Q.
Proof. cbv zeta. split; [vm_compute; reflexivity|]. split; [vm_compute; reflexivity|]. vm_compute. discriminate. Qed.

(* the exact solution is a fixed point of a whole sweep, in any row order *)
Theorem C09_gauss_seidel_fixed_point : forall F (o : Ops F) inv, is_field o inv ->
  forall Ap Aj Ax x b start stop step,
  rows_solved o Ap Aj Ax b x (loop_idx start stop step) ->
  gauss_seidel o Ap Aj Ax x b start stop step = x.
Proof.
  intros F [z0 o1 ad sb ml dv op ab eq le lt] inv [Fth Heq].
  exact (gauss_seidel_fixed_point F z0 o1 ad ml sb op dv inv ab eq le lt Fth Heq).
Qed.
Print Assumptions C09_gauss_seidel_fixed_point.

Theorem C09_sor_fixed_point : forall F (o : Ops F) inv, is_field o inv ->
  forall Ap Aj Ax x b start stop step omega,
  rows_solved o Ap Aj Ax b x (loop_idx start stop step) ->
  sor_gauss_seidel o Ap Aj Ax x b start stop step omega = x.
Proof.
  intros F [z0 o1 ad sb ml dv op ab eq le lt] inv [Fth Heq].
  exact (sor_fixed_point F z0 o1 ad ml sb op dv inv ab eq le lt Fth Heq).
Qed.
Print Assumptions C09_sor_fixed_point.

Theorem C09_sor_omega_one_is_gauss_seidel : forall F (o : Ops F) inv, is_field o inv ->
  forall Ap Aj Ax x b start stop step,
  sor_gauss_seidel o Ap Aj Ax x b start stop step (one o) = gauss_seidel o Ap Aj Ax x b start stop step.
Proof.
  intros F [z0 o1 ad sb ml dv op ab eq le lt] inv [Fth Heq].
  exact (sor_one_is_gauss_seidel F z0 o1 ad ml sb op dv inv ab eq le lt Fth Heq).
Qed.
Print Assumptions C09_sor_omega_one_is_gauss_seidel.

(* the Python driver: every sweep direction, iteration count and omega fixes the exact solution *)
Theorem C09_driver_fixed_point : forall F (o : Ops F) inv, is_field o inv ->
  forall Ap Aj Ax b N its sw omega x,
  rows_solved o Ap Aj Ax b x (loop_idx 0 N 1) -> rows_solved o Ap Aj Ax b x (loop_idx (N - 1) (-1) (-1)) ->
  drv_gauss_seidel_csr o true Ap Aj Ax b N its sw omega x = x.
Proof.
  intros F [z0 o1 ad sb ml dv op ab eq le lt] inv [Fth Heq].
  exact (driver_gs_fixed_point F z0 o1 ad ml sb op dv inv ab eq le lt Fth Heq).
Qed.
Print Assumptions C09_driver_fixed_point.

(* iterations = k-fold composition *)
Theorem C09_iterations_compose : forall A (f : A -> A) k a, iterate (S k) f a = iterate k f (f a).
Proof. exact @iterate_succ. Qed.
Print Assumptions C09_iterations_compose.

(* the driver as found in the original tree dropped omega in the symmetric sweep (finding F2,
   repaired by a fix: commit); the faithful model of that code disagrees with the specification *)
Theorem C09_sor_symmetric_unrepaired_refuted :
  exists Ap Aj Ax b x, drv_gauss_seidel_csr opsQ false Ap Aj Ax b 2 1 Symmetric (1 # 2) x
                    <> drv_gauss_seidel_csr opsQ true Ap Aj Ax b 2 1 Symmetric (1 # 2) x.
Proof.
  exists [0; 2; 4]%Z, [0; 1; 0; 1]%Z, [2; 1; 1; 2]%Q, [1; 1]%Q, [0; 0]%Q. vm_compute. discriminate.
Qed.
Print Assumptions C09_sor_symmetric_unrepaired_refuted.

(* non-vacuity: Q is a field in the sense of [is_field] on reduced fractions is NOT claimed
   (Qred normal forms are not closed under Leibniz equality); the hypotheses are inhabited by
   any Coq field with decidable Leibniz equality -- here the two-element field. *)
Definition b2 : Ops bool := mkOps bool false true xorb xorb andb andb (fun a => a) (fun a => a)
                                  Bool.eqb (fun a b => implb a b) (fun a b => negb a && b).
Example C09_field_inhabited : is_field b2 (fun a => a).
Proof.
  split.
  - constructor.
    + constructor; cbn; intros;
        repeat match goal with x : bool |- _ => destruct x end; reflexivity.
    + cbn. discriminate.
    + cbn. intros [] []; reflexivity.
    + cbn. intros [] H; [reflexivity | exfalso; apply H; reflexivity].
  - intros [] []; cbn; split; congruence.
Qed.
