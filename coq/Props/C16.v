(* C16 -- coarse-grid solvers: property theorems about the caching state machine and the
   zero row/column handling of the sparse-LU solver. *)
From mathcomp Require Import all_ssreflect all_algebra.
Require Import PV.Model.Coarse PV.Proofs.CoarseProofs PV.Algebra.SpluMap.
Set Implicit Arguments. Unset Strict Implicit. Unset Printing Implicit Defensive.
Import GRing.Theory.
Local Open Scope ring_scope.

(* for every factorisation / application pair and every sequence of right-hand sides: each call
   returns the solve of its own right-hand side (zero correction for a matrix without
   nonzeros), the factorisation being created on first use and reused *)
Theorem C16_repeated_calls_correct :
  forall (Mat Fac V : Type) (factor : Mat -> Fac) (apply : Fac -> V -> V) (nnz0 : Mat -> bool)
         (zeros_like : V -> V) (A : Mat) (bs : seq V),
  snd (run Mat Fac V factor apply nnz0 zeros_like None A bs)
    = map (fun b => if nnz0 A then zeros_like b else apply (factor A) b) bs.
Proof.
move=> Mat Fac V factor apply nnz0 zl A bs.
by have [H _] := run_spec Mat Fac V factor apply nnz0 zl A bs None (or_introl (erefl None)).
Qed.
Print Assumptions C16_repeated_calls_correct.

(* the answer to a call does not depend on the calls made before it *)
Theorem C16_history_independent :
  forall (Mat Fac V : Type) (factor : Mat -> Fac) (apply : Fac -> V -> V) (nnz0 : Mat -> bool)
         (zeros_like : V -> V) (A : Mat) (bs1 bs2 : seq V) (b : V),
  snd (call Mat Fac V factor apply nnz0 zeros_like (fst (run Mat Fac V factor apply nnz0 zeros_like None A bs1)) A b) =
  snd (call Mat Fac V factor apply nnz0 zeros_like (fst (run Mat Fac V factor apply nnz0 zeros_like None A bs2)) A b).
Proof. move=> Mat Fac V factor apply nnz0 zl A bs1 bs2 b. exact: history_independent. Qed.
Print Assumptions C16_history_independent.

(* sparse LU with removed zero rows/columns: the retained equations are solved *)
Theorem C16_splu_map_correct :
  forall (F : fieldType) (n k : nat) (A : 'M[F]_n) (Map : 'M[F]_(n, k)),
  (Map^T *m A *m Map) \in unitmx ->
  forall b : 'cV[F]_n, Map^T *m (A *m splu_solve A Map b) = Map^T *m b.
Proof. move=> F n k A Map U b. exact: splu_retained_equations. Qed.
Print Assumptions C16_splu_map_correct.
