(* C16 -- coarse-grid solvers: property theorems about the caching state machine and the
   zero row/column handling of the sparse-LU solver. *)
From mathcomp Require Import all_ssreflect all_algebra.
Require Import PV.Model.Coarse PV.Proofs.CoarseProofs PV.Algebra.SpluMap.
Set Implicit Arguments. Unset Strict Implicit. Unset Printing Implicit Defensive.
Import GRing.Theory.
Local Open Scope ring_scope.

(* for every factorisation / application pair and every sequence of right-hand sides: each call
   returns the solve of its own right-hand side (zero correction for a matrix without
   nonzeros), the factorisation being created on first use and reused *)
Theorem C16_repeated_calls_correct :
  forall (Mat Fac V : Type) (factor : Mat -> Fac) (apply : Fac -> V -> V) (nnz0 : Mat -> bool)
         (zeros_like : V -> V) (A : Mat) (bs : seq V),
  snd (run Mat Fac V factor apply nnz0 zeros_like None A bs)
    = map (fun b => if nnz0 A then zeros_like b else apply (factor A) b) bs.
Proof.
move=> Mat Fac V factor apply nnz0 zl A bs.
by have [H _] := run_spec Mat Fac V factor apply nnz0 zl A bs None (or_introl (erefl None)).
Qed.
Print Assumptions C16_repeated_calls_correct.

(* the answer to a call does not depend on the calls made before it *)
Theorem C16_history_independent :
  forall (Mat Fac V : Type) (factor : Mat -> Fac) (apply : Fac -> V -> V) (nnz0 : Mat -> bool)
         (zeros_like : V -> V) (A : Mat) (bs1 bs2 : seq V) (b : V),
  snd (call Mat Fac V factor apply nnz0 zeros_like (fst (run Mat Fac V factor apply nnz0 zeros_like None A bs1)) A b) =
  snd (call Mat Fac V factor apply nnz0 zeros_like (fst (run Mat Fac V factor apply nnz0 zeros_like None A bs2)) A b).
Proof. move=> Mat Fac V factor apply nnz0 zl A bs1 bs2 b. exact: history_independent. Qed.
Print Assumptions C16_history_independent.

(* sparse LU with removed zero rows/columns: the retained equations are solved *)
Theorem C16_splu_map_correct :
  forall (F : fieldType) (n k : nat) (A : 'M[F]_n) (Map : 'M[F]_(n, k)),
  (Map^T *m A *m Map) \in unitmx ->
  forall b : 'cV[F]_n, Map^T *m (A *m splu_solve A Map b) = Map^T *m b.
Proof. move=> F n k A Map U b. exact: splu_retained_equations. Qed.
Print Assumptions C16_splu_map_correct.

(* the pseudo-inverse solver: ANY matrix X that satisfies the four Penrose equations with A (real data, any shape,
   singular or not) gives, for every right-hand side b, a least-squares solution x = X b of A x = b -- no y has a
   smaller residual 2-norm -- and among all least-squares solutions (A^T (A y - b) = 0) the one of smallest 2-norm.
   (The check verifies the four equations numerically for the matrix the 'pinv' solver applies, and compares its
   answers with an independent minimum-norm least-squares solve.) *)
Require Import PV.Algebra.KrylovOpt PV.Algebra.PinvLS.
Theorem C16_pseudo_inverse_minimum_norm_least_squares :
  forall (F : realFieldType) (m n : nat) (A : 'M[F]_(m, n)) (X : 'M[F]_(n, m)),
  A *m X *m A = A -> X *m A *m X = X -> (A *m X)^T = A *m X -> (X *m A)^T = X *m A ->
  forall b : 'cV[F]_m,
  (forall y, dot (A *m (X *m b) - b) (A *m (X *m b) - b) <= dot (A *m y - b) (A *m y - b)) /\
  (forall y, A^T *m (A *m y - b) = 0 -> dot (X *m b) (X *m b) <= dot y y).
Proof.
move=> F m n A X P1 P2 P3 P4 b; split=> y.
- exact: (pinv_least_squares P1 P3).
- exact: (pinv_minimum_norm P1 P2 P3 P4).
Qed.
Print Assumptions C16_pseudo_inverse_minimum_norm_least_squares.
(* non-vacuity: the hypotheses hold for a nonsingular matrix with its inverse and for a singular one (the zero map between
   spaces of different dimension) with its pseudo-inverse *)
Example C16_penrose_example :
  (let A : 'M[rat]_3 := 2%:Q%:M in let X : 'M[rat]_3 := (2%:Q)^-1%:M in
   A *m X *m A = A /\ X *m A *m X = X /\ (A *m X)^T = A *m X /\ (X *m A)^T = X *m A) /\
  (let A : 'M[rat]_(2, 3) := 0 in let X : 'M[rat]_(3, 2) := 0 in
   A *m X *m A = A /\ X *m A *m X = X /\ (A *m X)^T = A *m X /\ (X *m A)^T = X *m A).
Proof.
split=> /=.
- have E : (2%:Q)%:M *m ((2%:Q)^-1)%:M = 1%:M :> 'M[rat]_3 by rewrite -scalar_mxM divff.
  have E' : ((2%:Q)^-1)%:M *m (2%:Q)%:M = 1%:M :> 'M[rat]_3 by rewrite -scalar_mxM mulVf.
  by rewrite E E' !mul1mx !trmx1.
- by rewrite !mulmx0 ?mul0mx !trmx0.
Qed.
