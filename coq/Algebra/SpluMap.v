(* C16: the sparse-LU coarse solver removes identically zero rows/columns through a selection
   matrix Map:  x = Map (Map^T A Map)^-1 Map^T b.  The result solves the retained equations and
   lies in the range of Map (vanishes on the removed unknowns). *)
From mathcomp Require Import all_ssreflect all_algebra.
Set Implicit Arguments. Unset Strict Implicit. Unset Printing Implicit Defensive.
Import GRing.Theory.
Local Open Scope ring_scope.

Section Splu.
Variable F : fieldType.
Variables (n k : nat) (A : 'M[F]_n) (Map : 'M[F]_(n, k)).
Hypothesis Ured : (Map^T *m A *m Map) \in unitmx.
Definition splu_solve (b : 'cV[F]_n) : 'cV[F]_n := Map *m (invmx (Map^T *m A *m Map) *m (Map^T *m b)).

Theorem splu_retained_equations b : Map^T *m (A *m splu_solve b) = Map^T *m b.
Proof. by rewrite /splu_solve !mulmxA -[Map^T *m A *m Map *m _ *m _]mulmxA mulKVmx. Qed.

Theorem splu_in_range b : exists y, splu_solve b = Map *m y.
Proof. by eexists. Qed.
End Splu.
