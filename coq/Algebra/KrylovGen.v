(* C07: the conjugate-gradient recurrences in an arbitrary symmetric bilinear form <x,y>_B = x^T B y, for an
   operator K that is self-adjoint in that form ((B K)^T = B K).  Instances (KrylovInst.v): B = I, K = A (CG);
   B = A, K = A (conjugate residuals); B = I, K = A^T A (CGNR); B = I, K = A A^T (CGNE). *)
From mathcomp Require Import all_ssreflect all_algebra.
From mathcomp Require Import ring.
Require Import PV.Algebra.KrylovOpt.
Set Implicit Arguments. Unset Strict Implicit. Unset Printing Implicit Defensive.
Import Order.Theory GRing.Theory Num.Theory.
Local Open Scope ring_scope.

Section Gen.
Variable F : realFieldType.
Variable n : nat.
Variables (B K : 'M[F]_n).
Hypothesis Bsym : B^T = B.
Hypothesis BKsym : (B *m K)^T = B *m K.
Definition bdot (x y : 'cV[F]_n) : F := dot x (B *m y).
Lemma bdotC x y : bdot x y = bdot y x.
Proof. by rewrite /bdot (dotA Bsym) dotC. Qed.
Lemma bdotDl x y z : bdot (x + y) z = bdot x z + bdot y z. Proof. by rewrite /bdot dotDl. Qed.
Lemma bdotDr x y z : bdot x (y + z) = bdot x y + bdot x z. Proof. by rewrite /bdot mulmxDr dotDr. Qed.
Lemma bdotZl a x y : bdot (a *: x) y = a * bdot x y. Proof. by rewrite /bdot dotZl. Qed.
Lemma bdotZr a x y : bdot x (a *: y) = a * bdot x y. Proof. by rewrite /bdot -scalemxAr dotZr. Qed.
Lemma bdotNl x y : bdot (- x) y = - bdot x y. Proof. by rewrite /bdot dotNl. Qed.
Lemma bdotNr x y : bdot x (- y) = - bdot x y. Proof. by rewrite /bdot mulmxN dotNr. Qed.
Lemma bdotBl x y z : bdot (x - y) z = bdot x z - bdot y z. Proof. by rewrite bdotDl bdotNl. Qed.
Lemma bdotBr x y z : bdot x (y - z) = bdot x y - bdot x z. Proof. by rewrite bdotDr bdotNr. Qed.
Lemma bdot0r x : bdot x 0 = 0. Proof. by rewrite -(scale0r (0 : 'cV[F]_n)) bdotZr mul0r. Qed.
Lemma bdotA x y : bdot x (K *m y) = bdot (K *m x) y.
Proof. by rewrite /bdot mulmxA (dotA BKsym) -mulmxA -(dotA Bsym). Qed.


Variables (f x0 : 'cV[F]_n).

Record st := St { sx : 'cV[F]_n; sr : 'cV[F]_n; sp : 'cV[F]_n }.
Definition alpha (s : st) := bdot (sr s) (sr s) / bdot (sp s) (K *m sp s).
Definition rnew (s : st) := sr s - alpha s *: (K *m sp s).
Definition beta (s : st) := bdot (rnew s) (rnew s) / bdot (sr s) (sr s).
Definition step (s : st) : st :=
  St (sx s + alpha s *: sp s) (rnew s) (rnew s + beta s *: sp s).
Definition s0 := let r0 := f - K *m x0 in St x0 r0 r0.
Definition S k := iter k step s0.
Notation X k := (sx (S k)). Notation R k := (sr (S k)). Notation Pd k := (sp (S k)).
Notation rho k := (bdot (R k) (R k)). Notation pAp k := (bdot (Pd k) (K *m Pd k)).

Lemma SS k : S k.+1 = step (S k). Proof. by []. Qed.
Lemma R_S k : R k.+1 = R k - alpha (S k) *: (K *m Pd k). Proof. by []. Qed.
Lemma P_S k : Pd k.+1 = R k.+1 + beta (S k) *: Pd k. Proof. by []. Qed.
Lemma X_S k : X k.+1 = X k + alpha (S k) *: Pd k. Proof. by []. Qed.

Lemma res_true k : R k = f - K *m X k.
Proof. by elim: k => [|k IH] //; rewrite R_S X_S IH mulmxDr -scalemxAr opprD addrA. Qed.

(* no breakdown strictly before step k *)
Definition ok k := forall j, (j < k)%N -> rho j != 0 /\ pAp j != 0.

Record Inv k : Prop := {
  i_res  : forall j, (j <= k)%N -> R j = f - K *m X j;
  i_rr   : forall i j, (i < j)%N -> (j <= k)%N -> bdot (R i) (R j) = 0;
  i_pAp  : forall i j, (i < j)%N -> (j <= k)%N -> bdot (Pd i) (K *m Pd j) = 0;
  i_rp   : forall j, (j <= k)%N -> bdot (R j) (Pd j) = rho j;
  i_rpi  : forall i j, (i < j)%N -> (j <= k)%N -> bdot (R j) (Pd i) = 0 }.

Lemma Inv0 : Inv 0.
Proof.
split.
- by move=> j; rewrite leqn0 => /eqP->.
- by move=> i j ij; rewrite leqn0 => /eqP jj; rewrite jj in ij.
- by move=> i j ij; rewrite leqn0 => /eqP jj; rewrite jj in ij.
- by move=> j; rewrite leqn0 => /eqP->.
- by move=> i j ij; rewrite leqn0 => /eqP jj; rewrite jj in ij.
Qed.

(* A p_i in terms of residuals, r_i in terms of directions *)
Lemma Ap_res i : rho i != 0 -> pAp i != 0 ->
  K *m Pd i = (alpha (S i))^-1 *: (R i - R i.+1).
Proof.
move=> hr hp. rewrite R_S opprB addrC subrK scalerA mulVf ?scale1r //.
by rewrite /alpha mulf_neq0 // invr_neq0.
Qed.

Lemma r_dir i : R i.+1 = Pd i.+1 - beta (S i) *: Pd i.
Proof. by rewrite P_S addrK. Qed.

Lemma alpha_pAp k : pAp k != 0 -> alpha (S k) * pAp k = rho k.
Proof. by move=> h; rewrite /alpha divfK. Qed.

Lemma InvS k : ok k.+1 -> Inv k -> Inv k.+1.
Proof.
move=> hok [Hres Hrr Hpp Hrp Hrpi].
have [hrk hpk] := hok k (ltnSn k).
have oki : forall i, (i <= k)%N -> rho i != 0 /\ pAp i != 0 by move=> i; rewrite -ltnS; apply: hok.
(* key quantities at step k *)
have rAp_k : bdot (R k) (K *m Pd k) = pAp k.
{ case: k Hres Hrr Hpp Hrp Hrpi hok hrk hpk oki => [|k'] Hres Hrr Hpp Hrp Hrpi hok hrk hpk oki //.
  rewrite {1}r_dir bdotBl bdotZl (Hpp k' k'.+1) // mulr0 subr0 //. }
have rr_new_k : bdot (R k) (R k.+1) = 0.
{ by rewrite R_S bdotBr bdotZr rAp_k alpha_pAp // subrr. }
have rAp_i : forall i, (i < k)%N -> bdot (R i) (K *m Pd k) = 0.
{ move=> i ik. case: i ik => [|i'] ik.
  - have -> : R 0 = Pd 0 by []. exact: Hpp.
  - rewrite r_dir bdotBl bdotZl (Hpp i'.+1 k) // (Hpp i' k) ?mulr0 ?subr0 //. exact: ltnW. }
have rr_new : forall i, (i <= k)%N -> bdot (R i) (R k.+1) = 0.
{ move=> i; rewrite leq_eqVlt => /orP[/eqP->|ik]; first exact: rr_new_k.
  by rewrite R_S bdotBr bdotZr rAp_i // mulr0 subr0 Hrr. }
have rp_new : forall i, (i <= k)%N -> bdot (R k.+1) (Pd i) = 0.
{ move=> i; rewrite leq_eqVlt => /orP[/eqP->|ik].
  - by rewrite R_S bdotBl bdotZl Hrp // (bdotC (K *m Pd k)) alpha_pAp // subrr.
  - by rewrite R_S bdotBl bdotZl Hrpi // (bdotC (K *m Pd k)) Hpp ?mulr0 ?subr0. }
split.
- move=> j; rewrite leq_eqVlt => /orP[/eqP->|]; last by rewrite ltnS; apply: Hres.
  by rewrite R_S X_S Hres // mulmxDr -scalemxAr opprD addrA.
- move=> i j ij; rewrite leq_eqVlt => /orP[/eqP jj|]; last by rewrite ltnS; apply: Hrr.
  by rewrite jj; apply: rr_new; rewrite -ltnS -jj.
- move=> i j ij; rewrite leq_eqVlt => /orP[/eqP jj|]; last by rewrite ltnS; apply: Hpp.
  rewrite jj in ij *. rewrite ltnS in ij.
  have [hri hpi] := oki i ij.
  rewrite bdotA P_S bdotDr bdotZr {1}Ap_res // bdotZl bdotBl rr_new // sub0r.
  move: ij; rewrite leq_eqVlt => /orP[/eqP ii|ik].
  + rewrite ii -bdotA /beta /alpha.
    have -> : bdot (R k.+1) (R k.+1) = bdot (rnew (S k)) (rnew (S k)) by [].
    set a := rho k; set c := pAp k; set d := bdot (rnew (S k)) (rnew (S k)).
    rewrite -/a in hrk; rewrite -/c in hpk. field. by rewrite hrk hpk.
  + by rewrite rr_new // oppr0 mulr0 add0r -bdotA Hpp // mulr0.
- move=> j; rewrite leq_eqVlt => /orP[/eqP->|]; last by rewrite ltnS; apply: Hrp.
  by rewrite P_S bdotDr bdotZr rp_new // mulr0 addr0.
- move=> i j ij; rewrite leq_eqVlt => /orP[/eqP jj|]; last by rewrite ltnS; apply: Hrpi.
  by rewrite jj; apply: rp_new; rewrite -ltnS -jj.
Qed.

Lemma ok_le j k : (j <= k)%N -> ok k -> ok j.
Proof. by move=> jk h i ij; apply: h; apply: leq_trans jk. Qed.

Theorem cg_invariants k : ok k -> Inv k.
Proof.
elim: k => [|k IH] hk; first exact: Inv0.
by apply: InvS => //; apply: IH; apply: ok_le hk.
Qed.

(* optimality: with A x* = b, the k-th iterate minimises the energy of the error
   over x0 + span(p_0 .. p_{k-1}) *)
Variable xs : 'cV[F]_n.
Hypothesis Hxs : K *m xs = f.
Hypothesis Kpsd : forall x : 'cV[F]_n, 0 <= bdot x (K *m x).
Definition en (x : 'cV[F]_n) := bdot x (K *m x).

Definition comb (k : nat) (c : nat -> F) : 'cV[F]_n := \sum_(i < k) c i *: Pd i.

Lemma X_comb k : X k = x0 + comb k (fun i => alpha (S i)).
Proof.
elim: k => [|k IH]; first by rewrite /comb big_ord0 addr0.
by rewrite X_S IH /comb big_ord_recr /= addrA.
Qed.

Lemma res_orth_comb k c : ok k -> bdot (R k) (comb k c) = 0.
Proof.
move=> hk. have [_ _ _ _ Hrpi] := cg_invariants hk.
rewrite /comb. elim/big_ind: _ => [||i _].
- by rewrite bdot0r.
- by move=> x y hx hy; rewrite bdotDr hx hy addr0.
- by rewrite bdotZr Hrpi ?mulr0.
Qed.

Theorem cg_optimal k c : ok k -> en (xs - X k) <= en (xs - (x0 + comb k c)).
Proof.
move=> hk. have [Hres _ _ _ _] := cg_invariants hk.
set d := comb k (fun i => c i - alpha (S i)).
have Hd : xs - (x0 + comb k c) = (xs - X k) - d.
{ rewrite X_comb /d /comb.
  have -> : \sum_(i < k) (c i - alpha (S i)) *: Pd i
          = \sum_(i < k) c i *: Pd i - \sum_(i < k) alpha (S i) *: Pd i.
  { by rewrite -sumrB; apply: eq_bigr => i _; rewrite scalerBl. }
  have Hgen : forall a b0 c0 d0 : 'cV[F]_n, a - (b0 + c0) = (a - (b0 + d0)) - (c0 - d0).
  { by move=> a b0 c0 d0; apply/matrixP=> p q; rewrite !mxE; ring. }
  exact: Hgen. }
have Hr : K *m (xs - X k) = R k by rewrite mulmxBr Hxs Hres.
rewrite Hd /en. move: Hr; move: (xs - X k) => e Hr.
have t1 : bdot e (K *m d) = 0 by rewrite bdotA Hr (res_orth_comb _ hk).
have t2 : bdot d (K *m e) = 0 by rewrite Hr bdotC (res_orth_comb _ hk).
rewrite mulmxBr bdotBl !bdotBr t1 t2 subr0 sub0r opprK ler_addl.
exact: Kpsd.
Qed.

(* monotone: the energy of the error never increases from one iterate to the next *)
Corollary cg_monotone k : ok k.+1 -> en (xs - X k.+1) <= en (xs - X k).
Proof.
move=> hk.
have H := cg_optimal (fun i => if (i < k)%N then alpha (S i) else 0) hk.
suff E : x0 + comb k.+1 (fun i => if (i < k)%N then alpha (S i) else 0) = X k by rewrite E in H.
rewrite X_comb /comb big_ord_recr /= ltnn scale0r addr0. congr (_ + _).
by apply: eq_bigr => i _; rewrite ltn_ord.
Qed.
End Gen.
