(* C07: conjugate residuals, CGNR and CGNE as written in pyamg/krylov/_cr.py, _cgnr.py, _cgne.py (no
   preconditioner, real data, any schedule of "recompute the residual from x" steps) are the generic
   conjugate-gradient recurrences of KrylovGen.v in the forms (B,K) = (A,A), (I,A^T A), (I,A A^T); hence their
   iterates minimise the residual norm (CR, CGNR) resp. the error norm (CGNE) over the Krylov space. *)
From mathcomp Require Import all_ssreflect all_algebra.
From mathcomp Require Import ring.
Require Import PV.Algebra.KrylovOpt.
Require PV.Algebra.KrylovGen.
Set Implicit Arguments. Unset Strict Implicit. Unset Printing Implicit Defensive.
Import Order.Theory GRing.Theory Num.Theory.
Local Open Scope ring_scope.

Lemma dot_ge0 (F : realFieldType) n (x : 'cV[F]_n) : 0 <= dot x x.
Proof.
rewrite /dot /sc mxE. apply: sumr_ge0 => i _. by rewrite mxE -expr2 sqr_ge0.
Qed.

Section CR.
Variable F : realFieldType.
Variable n : nat.
Variable A : 'M[F]_n.
Hypothesis Asym : A^T = A.
Variables (b x0 : 'cV[F]_n).
Variable rc : nat -> bool.           (* rc k: the residual of step k is recomputed as b - A x *)

Record crst := CRst { cx : 'cV[F]_n; cr : 'cV[F]_n; cp : 'cV[F]_n; cq : 'cV[F]_n }.
Definition cr_step (recompute : bool) (s : crst) : crst :=
  let rAz := dot (cr s) (A *m cr s) in
  let alpha := rAz / dot (cq s) (cq s) in
  let x := cx s + alpha *: cp s in
  let r := if recompute then b - A *m x else cr s - alpha *: cq s in
  let Az := A *m r in
  let beta := dot r Az / rAz in
  CRst x r (beta *: cp s + r) (beta *: cq s + Az).
Definition cr_init : crst := let r := b - A *m x0 in CRst x0 r r (A *m r).
Fixpoint crS (k : nat) : crst := if k is k'.+1 then cr_step (rc k') (crS k') else cr_init.

Lemma AAsym : (A *m A)^T = A *m A. Proof. by rewrite trmx_mul Asym. Qed.
Notation G := (@KrylovGen.S F n A A b x0).

Lemma cr_sim k : crS k = CRst (KrylovGen.sx (G k)) (KrylovGen.sr (G k)) (KrylovGen.sp (G k)) (A *m KrylovGen.sp (G k)).
Proof.
elim: k => [|k IH] //=. rewrite IH /cr_step /=.
set g := G k.
have Ealpha : dot (KrylovGen.sr g) (A *m KrylovGen.sr g) / dot (A *m KrylovGen.sp g) (A *m KrylovGen.sp g) = KrylovGen.alpha A A g.
{ by rewrite /KrylovGen.alpha /KrylovGen.bdot -(dotA Asym). }
rewrite Ealpha.
have Er : (if rc k then b - A *m (KrylovGen.sx g + KrylovGen.alpha A A g *: KrylovGen.sp g)
           else KrylovGen.sr g - KrylovGen.alpha A A g *: (A *m KrylovGen.sp g)) = KrylovGen.rnew A A g.
{ case: (rc k) => //. rewrite /KrylovGen.rnew (KrylovGen.res_true A A b x0 k) -/g.
  by rewrite mulmxDr -scalemxAr opprD addrA. }
rewrite Er.
have Eb : dot (KrylovGen.rnew A A g) (A *m KrylovGen.rnew A A g) / dot (KrylovGen.sr g) (A *m KrylovGen.sr g) = KrylovGen.beta A A g by [].
rewrite Eb /KrylovGen.step /=. congr CRst.
- by rewrite addrC.
- by rewrite [in RHS]mulmxDr -scalemxAr addrC.
Qed.

Variable xs : 'cV[F]_n.
Hypothesis Hxs : A *m xs = b.
Definition rsq (x : 'cV[F]_n) : F := dot (b - A *m x) (b - A *m x).
Lemma en_rsq x : KrylovGen.en A A (xs - x) = rsq x.
Proof. by rewrite /KrylovGen.en /KrylovGen.bdot /rsq (dotA Asym) mulmxBr Hxs. Qed.

(* the k-th CR iterate minimises the residual norm over x0 + span(p_0 .. p_{k-1}) *)
Theorem cr_optimal k c : KrylovGen.ok A A b x0 k ->
  rsq (cx (crS k)) <= rsq (x0 + KrylovGen.comb A A b x0 k c).
Proof.
move=> hk. rewrite cr_sim /= -!en_rsq.
apply: (KrylovGen.cg_optimal Asym AAsym) => //.
by move=> x; rewrite /KrylovGen.bdot (dotA Asym) dot_ge0.
Qed.
Theorem cr_monotone k : KrylovGen.ok A A b x0 k.+1 -> rsq (cx (crS k.+1)) <= rsq (cx (crS k)).
Proof.
move=> hk. rewrite !cr_sim /= -!en_rsq.
apply: (KrylovGen.cg_monotone Asym AAsym) => //.
by move=> x; rewrite /KrylovGen.bdot (dotA Asym) dot_ge0.
Qed.
End CR.

Lemma dotT (F : realFieldType) m n (M : 'M[F]_(m,n)) (x : 'cV[F]_n) (y : 'cV[F]_m) : dot (M *m x) y = dot x (M^T *m y).
Proof. by rewrite /dot trmx_mul mulmxA. Qed.

Section CGNR.
Variable F : realFieldType.
Variables m n : nat.
Variable A : 'M[F]_(m,n).
Variables (b : 'cV[F]_m) (x0 : 'cV[F]_n).
Variable rc : nat -> bool.

Record nrst := NRst { nx : 'cV[F]_n; nr : 'cV[F]_m; np : 'cV[F]_n; nzr : F }.
Definition nr_step (recompute : bool) (s : nrst) : nrst :=
  let w := A *m np s in
  let alpha := nzr s / dot w w in
  let x := nx s + alpha *: np s in
  let r := if recompute then b - A *m x else nr s - alpha *: w in
  let rhat := A^T *m r in
  let new := dot rhat rhat in
  let beta := new / nzr s in
  NRst x r (beta *: np s + rhat) new.
Definition nr_init : nrst := let r := b - A *m x0 in let rhat := A^T *m r in NRst x0 r rhat (dot rhat rhat).
Fixpoint nrS (k : nat) : nrst := if k is k'.+1 then nr_step (rc k') (nrS k') else nr_init.

Let B1 : 'M[F]_n := 1%:M.
Let K := A^T *m A.
Lemma B1sym : B1^T = B1. Proof. by rewrite /B1 trmx1. Qed.
Lemma B1Ksym : (B1 *m K)^T = B1 *m K. Proof. by rewrite /B1 /K mul1mx trmx_mul trmxK. Qed.
Notation G := (@KrylovGen.S F n B1 K (A^T *m b) x0).

Lemma nr_res k : KrylovGen.sr (G k) = A^T *m (b - A *m KrylovGen.sx (G k)).
Proof. by rewrite (KrylovGen.res_true B1 K (A^T *m b) x0 k) /K mulmxBr !mulmxA. Qed.

Lemma nr_sim k : nrS k = NRst (KrylovGen.sx (G k)) (b - A *m KrylovGen.sx (G k)) (KrylovGen.sp (G k))
                              (dot (KrylovGen.sr (G k)) (KrylovGen.sr (G k))).
Proof.
elim: k => [|k IH]; first by rewrite /= /nr_init /KrylovGen.s0 /= /K mulmxBr !mulmxA.
rewrite [nrS k.+1]/= IH /nr_step /=.
set g := G k.
have Ealpha : dot (KrylovGen.sr g) (KrylovGen.sr g) / dot (A *m KrylovGen.sp g) (A *m KrylovGen.sp g) = KrylovGen.alpha B1 K g.
{ by rewrite /KrylovGen.alpha /KrylovGen.bdot /B1 !mul1mx dotT /K mulmxA. }
rewrite Ealpha.
have Ex : KrylovGen.sx (G k.+1) = KrylovGen.sx g + KrylovGen.alpha B1 K g *: KrylovGen.sp g by [].
have Er : (if rc k then b - A *m (KrylovGen.sx g + KrylovGen.alpha B1 K g *: KrylovGen.sp g)
           else b - A *m KrylovGen.sx g - KrylovGen.alpha B1 K g *: (A *m KrylovGen.sp g))
          = b - A *m KrylovGen.sx (G k.+1).
{ rewrite Ex. case: (rc k) => //. by rewrite mulmxDr -scalemxAr opprD addrA. }
rewrite Er -(nr_res k.+1).
have Eb : dot (KrylovGen.sr (G k.+1)) (KrylovGen.sr (G k.+1)) / dot (KrylovGen.sr g) (KrylovGen.sr g) = KrylovGen.beta B1 K g.
{ by rewrite /KrylovGen.beta /KrylovGen.bdot /B1 !mul1mx. }
rewrite Eb. congr NRst. by rewrite addrC.
Qed.

Variable xs : 'cV[F]_n.
Hypothesis Hxs : A *m xs = b.
Definition nrsq (x : 'cV[F]_n) : F := dot (b - A *m x) (b - A *m x).
Lemma nr_en x : KrylovGen.en B1 K (xs - x) = nrsq x.
Proof. by rewrite /KrylovGen.en /KrylovGen.bdot /B1 mul1mx /K -mulmxA -dotT mulmxBr Hxs. Qed.
Lemma nr_psd (x : 'cV[F]_n) : 0 <= KrylovGen.bdot B1 x (K *m x).
Proof. by rewrite /KrylovGen.bdot /B1 mul1mx /K -mulmxA -dotT dot_ge0. Qed.
Lemma nr_xs : K *m xs = A^T *m b. Proof. by rewrite /K -mulmxA Hxs. Qed.

(* the k-th CGNR iterate minimises the residual norm over x0 + span(p_0 .. p_{k-1}) *)
Theorem cgnr_optimal k c : KrylovGen.ok B1 K (A^T *m b) x0 k ->
  nrsq (nx (nrS k)) <= nrsq (x0 + KrylovGen.comb B1 K (A^T *m b) x0 k c).
Proof. move=> hk. rewrite nr_sim /= -!nr_en. exact: (KrylovGen.cg_optimal B1sym B1Ksym nr_xs nr_psd). Qed.
Theorem cgnr_monotone k : KrylovGen.ok B1 K (A^T *m b) x0 k.+1 -> nrsq (nx (nrS k.+1)) <= nrsq (nx (nrS k)).
Proof. move=> hk. rewrite !nr_sim /= -!nr_en. exact: (KrylovGen.cg_monotone B1sym B1Ksym nr_xs nr_psd). Qed.
End CGNR.

Section CGNE.
Variable F : realFieldType.
Variables m n : nat.
Variable A : 'M[F]_(m,n).
Variables (b : 'cV[F]_m) (x0 : 'cV[F]_n).
Variable rc : nat -> bool.

Record nest := NEst { ex : 'cV[F]_n; er : 'cV[F]_m; ep : 'cV[F]_n; ezr : F }.
Definition ne_step (recompute : bool) (s : nest) : nest :=
  let alpha := ezr s / dot (ep s) (ep s) in
  let x := ex s + alpha *: ep s in
  let r := if recompute then b - A *m x else er s - alpha *: (A *m ep s) in
  let new := dot r r in
  let beta := new / ezr s in
  NEst x r (beta *: ep s + A^T *m r) new.
Definition ne_init : nest := let r := b - A *m x0 in NEst x0 r (A^T *m r) (dot r r).
Fixpoint neS (k : nat) : nest := if k is k'.+1 then ne_step (rc k') (neS k') else ne_init.

Let B1 : 'M[F]_m := 1%:M.
Let K := A *m A^T.
Let f := b - A *m x0.
Lemma E1sym : B1^T = B1. Proof. by rewrite /B1 trmx1. Qed.
Lemma E1Ksym : (B1 *m K)^T = B1 *m K. Proof. by rewrite /B1 /K mul1mx trmx_mul trmxK. Qed.
Notation G := (@KrylovGen.S F m B1 K f 0).

Lemma ne_sim k : neS k = NEst (x0 + A^T *m KrylovGen.sx (G k)) (KrylovGen.sr (G k)) (A^T *m KrylovGen.sp (G k))
                              (dot (KrylovGen.sr (G k)) (KrylovGen.sr (G k))).
Proof.
elim: k => [|k IH]; first by rewrite /= /ne_init /KrylovGen.s0 /= !mulmx0 addr0 subr0.
rewrite [neS k.+1]/= IH /ne_step /=.
set g := G k.
have Ealpha : dot (KrylovGen.sr g) (KrylovGen.sr g) / dot (A^T *m KrylovGen.sp g) (A^T *m KrylovGen.sp g) = KrylovGen.alpha B1 K g.
{ by rewrite /KrylovGen.alpha /KrylovGen.bdot /B1 !mul1mx dotT trmxK /K mulmxA. }
rewrite Ealpha.
have Ex : x0 + A^T *m KrylovGen.sx g + KrylovGen.alpha B1 K g *: (A^T *m KrylovGen.sp g) = x0 + A^T *m KrylovGen.sx (G k.+1).
{ have -> : KrylovGen.sx (G k.+1) = KrylovGen.sx g + KrylovGen.alpha B1 K g *: KrylovGen.sp g by [].
  by rewrite mulmxDr -scalemxAr addrA. }
rewrite Ex.
have Er : (if rc k then b - A *m (x0 + A^T *m KrylovGen.sx (G k.+1))
           else KrylovGen.sr g - KrylovGen.alpha B1 K g *: (A *m (A^T *m KrylovGen.sp g)))
          = KrylovGen.sr (G k.+1).
{ case: (rc k); last by rewrite mulmxA.
  by rewrite (KrylovGen.res_true B1 K f 0 k.+1) /f /K mulmxDr opprD addrA mulmxA. }
rewrite Er.
have Eb : dot (KrylovGen.sr (G k.+1)) (KrylovGen.sr (G k.+1)) / dot (KrylovGen.sr g) (KrylovGen.sr g) = KrylovGen.beta B1 K g.
{ by rewrite /KrylovGen.beta /KrylovGen.bdot /B1 !mul1mx. }
rewrite Eb. congr NEst.
have -> : KrylovGen.sr (G k.+1) = KrylovGen.rnew B1 K g by [].
by rewrite [in RHS]mulmxDr -scalemxAr addrC.
Qed.

Variable ys : 'cV[F]_m.
Hypothesis Hys : K *m ys = f.
Definition xs_ne : 'cV[F]_n := x0 + A^T *m ys.
Lemma xs_ne_solves : A *m xs_ne = b.
Proof. by rewrite /xs_ne mulmxDr mulmxA -/K Hys /f addrC subrK. Qed.
Definition esq (x : 'cV[F]_n) : F := dot (xs_ne - x) (xs_ne - x).
Lemma ne_en y : KrylovGen.en B1 K (ys - y) = esq (x0 + A^T *m y).
Proof.
rewrite /KrylovGen.en /KrylovGen.bdot /B1 mul1mx /K -mulmxA -[in LHS](trmxK A) -dotT trmxK /esq /xs_ne.
have -> : x0 + A^T *m ys - (x0 + A^T *m y) = A^T *m (ys - y).
{ rewrite mulmxBr. set u := A^T *m ys; set v := A^T *m y. apply/matrixP=> i j; rewrite !mxE; ring. }
by [].
Qed.
Lemma ne_psd (y : 'cV[F]_m) : 0 <= KrylovGen.bdot B1 y (K *m y).
Proof. by rewrite /KrylovGen.bdot /B1 mul1mx /K -mulmxA -[A in A *m _](trmxK A) -dotT dot_ge0. Qed.

(* the k-th CGNE iterate minimises the 2-norm of the error over x0 + A^T span(p_0 .. p_{k-1}) *)
Theorem cgne_optimal k c : KrylovGen.ok B1 K f 0 k ->
  esq (ex (neS k)) <= esq (x0 + A^T *m (0 + KrylovGen.comb B1 K f 0 k c)).
Proof. move=> hk. rewrite ne_sim /= -!ne_en. exact: (KrylovGen.cg_optimal E1sym E1Ksym Hys ne_psd). Qed.
Theorem cgne_monotone k : KrylovGen.ok B1 K f 0 k.+1 -> esq (ex (neS k.+1)) <= esq (ex (neS k)).
Proof. move=> hk. rewrite !ne_sim /= -!ne_en. exact: (KrylovGen.cg_monotone E1sym E1Ksym Hys ne_psd). Qed.
End CGNE.

(* ---- GMRES: the Arnoldi relation turns the residual norm into a small least-squares problem, and the
   orthogonal (Givens) triangularisation solves it ---- *)
Lemma dot_col_mx (F : realFieldType) p q (a c : 'cV[F]_p) (d e : 'cV[F]_q) :
  dot (col_mx a d) (col_mx c e) = dot a c + dot d e.
Proof. by rewrite /dot tr_col_mx mul_row_col scD. Qed.

Section GMRES.
Variable F : realFieldType.
Variables n k : nat.
Variable A : 'M[F]_n.
Variables (b x0 : 'cV[F]_n).
Variable Vk : 'M[F]_(n, k).            (* Krylov basis v_1 .. v_k *)
Variable V1 : 'M[F]_(n, k + 1).        (* v_1 .. v_{k+1} *)
Variable H : 'M[F]_(k + 1, k).         (* Hessenberg matrix *)
Variable g : 'cV[F]_(k + 1).           (* beta e_1 *)
Hypothesis Arnoldi : A *m Vk = V1 *m H.
Hypothesis Orth : V1^T *m V1 = 1%:M.
Hypothesis Hr0 : b - A *m x0 = V1 *m g.
Definition grsq (x : 'cV[F]_n) : F := dot (b - A *m x) (b - A *m x).

Lemma gmres_small y : grsq (x0 + Vk *m y) = dot (g - H *m y) (g - H *m y).
Proof.
rewrite /grsq mulmxDr opprD addrA Hr0 mulmxA Arnoldi -mulmxA -mulmxBr.
by rewrite dotT mulmxA Orth mul1mx.
Qed.

(* Q orthogonal, Q H = [R; 0], Q g = [gt; gb], R y = gt *)
Variable Q : 'M[F]_(k + 1).
Variable R : 'M[F]_k.
Variables (gt : 'cV[F]_k) (gb : 'cV[F]_1).
Hypothesis Qorth : Q^T *m Q = 1%:M.
Hypothesis QH : Q *m H = col_mx R 0.
Hypothesis Qg : Q *m g = col_mx gt gb.

Lemma small_split w : dot (g - H *m w) (g - H *m w) = dot (gt - R *m w) (gt - R *m w) + dot gb gb.
Proof.
have -> : dot (g - H *m w) (g - H *m w) = dot (Q *m (g - H *m w)) (Q *m (g - H *m w)).
{ by rewrite dotT mulmxA Qorth mul1mx. }
rewrite mulmxBr Qg mulmxA QH mul_col_mx mul0mx.
have -> : col_mx gt gb - col_mx (R *m w) 0 = col_mx (gt - R *m w) gb.
{ by rewrite opp_col_mx add_col_mx subr0. }
by rewrite dot_col_mx.
Qed.

(* the GMRES iterate x0 + V_k y with R y = gt has residual norm |gb| (what the code reports as |g[inner+1]|)
   and no element of x0 + range(V_k) has a smaller residual *)
Theorem gmres_optimal y w : R *m y = gt ->
  grsq (x0 + Vk *m y) = dot gb gb /\ grsq (x0 + Vk *m y) <= grsq (x0 + Vk *m w).
Proof.
move=> Hy. rewrite !gmres_small !small_split Hy subrr.
have -> : dot (0 : 'cV[F]_k) 0 = 0 by rewrite /dot mulmx0 /sc mxE.
rewrite add0r. split=> //. by rewrite ler_addr dot_ge0.
Qed.
End GMRES.

(* the no-breakdown hypothesis is satisfiable beyond k = 0: the 1x1 identity system with b = 1, x0 = 0 *)
Lemma ok_example (F : realFieldType) : KrylovGen.ok (1%:M : 'M[F]_1) 1%:M 1%:M 0 1.
Proof.
move=> j; rewrite ltnS leqn0 => /eqP->.
rewrite /= /KrylovGen.s0 /= /KrylovGen.bdot mulmx0 subr0 !mul1mx /dot trmx1 mul1mx /sc mxE eqxx /=.
by split; exact: oner_neq0.
Qed.
