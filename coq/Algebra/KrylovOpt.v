(* C07: optimality of Krylov iterates (mathcomp, any real field).
   - conjugate gradients: invariants of the recurrences as written in pyamg/krylov/_cg.py and
     minimality of the energy-norm error over x0 + span(p_0..p_{k-1});
   - exact line searches (steepest descent, minimal residual): one-dimensional optimality. *)
From mathcomp Require Import all_ssreflect all_algebra.
From mathcomp Require Import ring.
Set Implicit Arguments. Unset Strict Implicit. Unset Printing Implicit Defensive.
Import Order.Theory GRing.Theory Num.Theory.
Local Open Scope ring_scope.

Section CG.
Variable F : realFieldType.
Variable n : nat.
Definition sc (M : 'M[F]_1) : F := M 0 0.
Lemma scD M N : sc (M + N) = sc M + sc N. Proof. by rewrite /sc mxE. Qed.
Lemma scN M : sc (- M) = - sc M. Proof. by rewrite /sc mxE. Qed.
Lemma scZ a M : sc (a *: M) = a * sc M. Proof. by rewrite /sc mxE. Qed.
Lemma scT M : sc M^T = sc M. Proof. by rewrite /sc mxE. Qed.

Definition dot (x y : 'cV[F]_n) : F := sc (x^T *m y).
Lemma dotC x y : dot x y = dot y x.
Proof. by rewrite /dot -scT trmx_mul trmxK. Qed.
Lemma dotDl x y z : dot (x + y) z = dot x z + dot y z.
Proof. by rewrite /dot linearD /= mulmxDl scD. Qed.
Lemma dotDr x y z : dot x (y + z) = dot x y + dot x z.
Proof. by rewrite dotC dotDl !(dotC _ x). Qed.
Lemma dotZl a x y : dot (a *: x) y = a * dot x y.
Proof. by rewrite /dot linearZ /= -scalemxAl scZ. Qed.
Lemma dotZr a x y : dot x (a *: y) = a * dot x y.
Proof. by rewrite dotC dotZl dotC. Qed.
Lemma dotNl x y : dot (- x) y = - dot x y.
Proof. by rewrite /dot linearN /= mulNmx scN. Qed.
Lemma dotNr x y : dot x (- y) = - dot x y.
Proof. by rewrite dotC dotNl dotC. Qed.
Lemma dotBl x y z : dot (x - y) z = dot x z - dot y z.
Proof. by rewrite dotDl dotNl. Qed.
Lemma dotBr x y z : dot x (y - z) = dot x y - dot x z.
Proof. by rewrite dotDr dotNr. Qed.

Variable A : 'M[F]_n.
Hypothesis Asym : A^T = A.
Lemma dotA x y : dot x (A *m y) = dot (A *m x) y.
Proof. by rewrite /dot trmx_mul Asym !mulmxA. Qed.

Variables (b x0 : 'cV[F]_n).

Record st := St { sx : 'cV[F]_n; sr : 'cV[F]_n; sp : 'cV[F]_n }.
Definition alpha (s : st) := dot (sr s) (sr s) / dot (sp s) (A *m sp s).
Definition rnew (s : st) := sr s - alpha s *: (A *m sp s).
Definition beta (s : st) := dot (rnew s) (rnew s) / dot (sr s) (sr s).
Definition step (s : st) : st :=
  St (sx s + alpha s *: sp s) (rnew s) (rnew s + beta s *: sp s).
Definition s0 := let r0 := b - A *m x0 in St x0 r0 r0.
Definition S k := iter k step s0.
Notation X k := (sx (S k)). Notation R k := (sr (S k)). Notation Pd k := (sp (S k)).
Notation rho k := (dot (R k) (R k)). Notation pAp k := (dot (Pd k) (A *m Pd k)).

Lemma SS k : S k.+1 = step (S k). Proof. by []. Qed.
Lemma R_S k : R k.+1 = R k - alpha (S k) *: (A *m Pd k). Proof. by []. Qed.
Lemma P_S k : Pd k.+1 = R k.+1 + beta (S k) *: Pd k. Proof. by []. Qed.
Lemma X_S k : X k.+1 = X k + alpha (S k) *: Pd k. Proof. by []. Qed.

(* no breakdown strictly before step k *)
Definition ok k := forall j, (j < k)%N -> rho j != 0 /\ pAp j != 0.

Record Inv k : Prop := {
  i_res  : forall j, (j <= k)%N -> R j = b - A *m X j;
  i_rr   : forall i j, (i < j)%N -> (j <= k)%N -> dot (R i) (R j) = 0;
  i_pAp  : forall i j, (i < j)%N -> (j <= k)%N -> dot (Pd i) (A *m Pd j) = 0;
  i_rp   : forall j, (j <= k)%N -> dot (R j) (Pd j) = rho j;
  i_rpi  : forall i j, (i < j)%N -> (j <= k)%N -> dot (R j) (Pd i) = 0 }.

Lemma Inv0 : Inv 0.
Proof.
split.
- by move=> j; rewrite leqn0 => /eqP->.
- by move=> i j ij; rewrite leqn0 => /eqP jj; rewrite jj in ij.
- by move=> i j ij; rewrite leqn0 => /eqP jj; rewrite jj in ij.
- by move=> j; rewrite leqn0 => /eqP->.
- by move=> i j ij; rewrite leqn0 => /eqP jj; rewrite jj in ij.
Qed.

(* A p_i in terms of residuals, r_i in terms of directions *)
Lemma Ap_res i : rho i != 0 -> pAp i != 0 ->
  A *m Pd i = (alpha (S i))^-1 *: (R i - R i.+1).
Proof.
move=> hr hp. rewrite R_S opprB addrC subrK scalerA mulVf ?scale1r //.
by rewrite /alpha mulf_neq0 // invr_neq0.
Qed.

Lemma r_dir i : R i.+1 = Pd i.+1 - beta (S i) *: Pd i.
Proof. by rewrite P_S addrK. Qed.

Lemma alpha_pAp k : pAp k != 0 -> alpha (S k) * pAp k = rho k.
Proof. by move=> h; rewrite /alpha divfK. Qed.

Lemma InvS k : ok k.+1 -> Inv k -> Inv k.+1.
Proof.
move=> hok [Hres Hrr Hpp Hrp Hrpi].
have [hrk hpk] := hok k (ltnSn k).
have oki : forall i, (i <= k)%N -> rho i != 0 /\ pAp i != 0 by move=> i; rewrite -ltnS; apply: hok.
(* key quantities at step k *)
have rAp_k : dot (R k) (A *m Pd k) = pAp k.
{ case: k Hres Hrr Hpp Hrp Hrpi hok hrk hpk oki => [|k'] Hres Hrr Hpp Hrp Hrpi hok hrk hpk oki //.
  rewrite {1}r_dir dotBl dotZl (Hpp k' k'.+1) // mulr0 subr0 //. }
have rr_new_k : dot (R k) (R k.+1) = 0.
{ by rewrite R_S dotBr dotZr rAp_k alpha_pAp // subrr. }
have rAp_i : forall i, (i < k)%N -> dot (R i) (A *m Pd k) = 0.
{ move=> i ik. case: i ik => [|i'] ik.
  - have -> : R 0 = Pd 0 by []. exact: Hpp.
  - rewrite r_dir dotBl dotZl (Hpp i'.+1 k) // (Hpp i' k) ?mulr0 ?subr0 //. exact: ltnW. }
have rr_new : forall i, (i <= k)%N -> dot (R i) (R k.+1) = 0.
{ move=> i; rewrite leq_eqVlt => /orP[/eqP->|ik]; first exact: rr_new_k.
  by rewrite R_S dotBr dotZr rAp_i // mulr0 subr0 Hrr. }
have rp_new : forall i, (i <= k)%N -> dot (R k.+1) (Pd i) = 0.
{ move=> i; rewrite leq_eqVlt => /orP[/eqP->|ik].
  - by rewrite R_S dotBl dotZl Hrp // (dotC (A *m Pd k)) alpha_pAp // subrr.
  - by rewrite R_S dotBl dotZl Hrpi // (dotC (A *m Pd k)) Hpp ?mulr0 ?subr0. }
split.
- move=> j; rewrite leq_eqVlt => /orP[/eqP->|]; last by rewrite ltnS; apply: Hres.
  by rewrite R_S X_S Hres // mulmxDr -scalemxAr opprD addrA.
- move=> i j ij; rewrite leq_eqVlt => /orP[/eqP jj|]; last by rewrite ltnS; apply: Hrr.
  by rewrite jj; apply: rr_new; rewrite -ltnS -jj.
- move=> i j ij; rewrite leq_eqVlt => /orP[/eqP jj|]; last by rewrite ltnS; apply: Hpp.
  rewrite jj in ij *. rewrite ltnS in ij.
  have [hri hpi] := oki i ij.
  rewrite dotA P_S dotDr dotZr {1}Ap_res // dotZl dotBl rr_new // sub0r.
  move: ij; rewrite leq_eqVlt => /orP[/eqP ii|ik].
  + rewrite ii -dotA /beta /alpha.
    have -> : dot (R k.+1) (R k.+1) = dot (rnew (S k)) (rnew (S k)) by [].
    set a := rho k; set c := pAp k; set d := dot (rnew (S k)) (rnew (S k)).
    rewrite -/a in hrk; rewrite -/c in hpk. field. by rewrite hrk hpk.
  + by rewrite rr_new // oppr0 mulr0 add0r -dotA Hpp // mulr0.
- move=> j; rewrite leq_eqVlt => /orP[/eqP->|]; last by rewrite ltnS; apply: Hrp.
  by rewrite P_S dotDr dotZr rp_new // mulr0 addr0.
- move=> i j ij; rewrite leq_eqVlt => /orP[/eqP jj|]; last by rewrite ltnS; apply: Hrpi.
  by rewrite jj; apply: rp_new; rewrite -ltnS -jj.
Qed.

Lemma ok_le j k : (j <= k)%N -> ok k -> ok j.
Proof. by move=> jk h i ij; apply: h; apply: leq_trans jk. Qed.

Theorem cg_invariants k : ok k -> Inv k.
Proof.
elim: k => [|k IH] hk; first exact: Inv0.
by apply: InvS => //; apply: IH; apply: ok_le hk.
Qed.

(* optimality: with A x* = b, the k-th iterate minimises the energy of the error
   over x0 + span(p_0 .. p_{k-1}) *)
Variable xs : 'cV[F]_n.
Hypothesis Hxs : A *m xs = b.
Hypothesis Apsd : forall x : 'cV[F]_n, 0 <= dot x (A *m x).
Definition en (x : 'cV[F]_n) := dot x (A *m x).

Definition comb (k : nat) (c : nat -> F) : 'cV[F]_n := \sum_(i < k) c i *: Pd i.

Lemma X_comb k : X k = x0 + comb k (fun i => alpha (S i)).
Proof.
elim: k => [|k IH]; first by rewrite /comb big_ord0 addr0.
by rewrite X_S IH /comb big_ord_recr /= addrA.
Qed.

Lemma res_orth_comb k c : ok k -> dot (R k) (comb k c) = 0.
Proof.
move=> hk. have [_ _ _ _ Hrpi] := cg_invariants hk.
rewrite /comb. elim/big_ind: _ => [||i _].
- by rewrite /dot mulmx0 /sc mxE.
- by move=> x y hx hy; rewrite dotDr hx hy addr0.
- by rewrite dotZr Hrpi ?mulr0.
Qed.

Theorem cg_optimal k c : ok k -> en (xs - X k) <= en (xs - (x0 + comb k c)).
Proof.
move=> hk. have [Hres _ _ _ _] := cg_invariants hk.
set d := comb k (fun i => c i - alpha (S i)).
have Hd : xs - (x0 + comb k c) = (xs - X k) - d.
{ rewrite X_comb /d /comb.
  have -> : \sum_(i < k) (c i - alpha (S i)) *: Pd i
          = \sum_(i < k) c i *: Pd i - \sum_(i < k) alpha (S i) *: Pd i.
  { by rewrite -sumrB; apply: eq_bigr => i _; rewrite scalerBl. }
  have Hgen : forall a b0 c0 d0 : 'cV[F]_n, a - (b0 + c0) = (a - (b0 + d0)) - (c0 - d0).
  { by move=> a b0 c0 d0; apply/matrixP=> p q; rewrite !mxE; ring. }
  exact: Hgen. }
have Hr : A *m (xs - X k) = R k by rewrite mulmxBr Hxs Hres.
rewrite Hd /en. move: Hr; move: (xs - X k) => e Hr.
have t1 : dot e (A *m d) = 0 by rewrite dotA Hr (res_orth_comb _ hk).
have t2 : dot d (A *m e) = 0 by rewrite Hr dotC (res_orth_comb _ hk).
rewrite mulmxBr dotBl !dotBr t1 t2 subr0 sub0r opprK ler_addl.
exact: Apsd.
Qed.

(* monotone: the energy of the error never increases from one iterate to the next *)
Corollary cg_monotone k : ok k.+1 -> en (xs - X k.+1) <= en (xs - X k).
Proof.
move=> hk.
have H := cg_optimal (fun i => if (i < k)%N then alpha (S i) else 0) hk.
suff E : x0 + comb k.+1 (fun i => if (i < k)%N then alpha (S i) else 0) = X k by rewrite E in H.
rewrite X_comb /comb big_ord_recr /= ltnn scale0r addr0. congr (_ + _).
by apply: eq_bigr => i _; rewrite ltn_ord.
Qed.
End CG.

(* ---- one-dimensional least squares in a symmetric positive semidefinite form ---- *)
Section LineSearch.
Variable F : realFieldType.
Variable n : nat.
Variable B : 'M[F]_n.
Hypothesis Bsym : B^T = B.
Hypothesis Bpsd : forall x : 'cV[F]_n, 0 <= dot x (B *m x).
Definition bf (x y : 'cV[F]_n) : F := dot x (B *m y).
Lemma bfC x y : bf x y = bf y x.
Proof. by rewrite /bf (dotA Bsym) dotC. Qed.
Lemma bf_sub_sq (u v : 'cV[F]_n) (c : F) :
  bf (u - c *: v) (u - c *: v) = bf u u - 2%:R * c * bf v u + c * c * bf v v.
Proof.
rewrite /bf mulmxBr -scalemxAr !dotBl !dotBr !dotZl !dotZr.
have -> : dot u (B *m v) = dot v (B *m u) by rewrite -/(bf u v) bfC.
set a := dot u (B *m u); set g := dot v (B *m u); set q := dot v (B *m v). ring.
Qed.
(* the step  alpha = <v,u>_B / <v,v>_B  minimises  || u - c v ||_B  over all c *)
Theorem linesearch_optimal (u v : 'cV[F]_n) (c : F) : bf v v != 0 ->
  bf (u - (bf v u / bf v v) *: v) (u - (bf v u / bf v v) *: v) <= bf (u - c *: v) (u - c *: v).
Proof.
move=> Hq. rewrite !bf_sub_sq.
set a := bf u u; set g := bf v u; set q := bf v v.
have Hq0 : 0 <= q by exact: Bpsd.
have -> : a - 2%:R * c * g + c * c * q = (a - 2%:R * (g / q) * g + g / q * (g / q) * q) + q * ((c - g / q) * (c - g / q)).
{ field. exact: Hq. }
rewrite ler_addl. apply: mulr_ge0 => //. by rewrite -expr2 sqr_ge0.
Qed.
End LineSearch.
