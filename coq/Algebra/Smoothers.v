(* Gauss-Seidel-type smoothers as successive A-orthogonal projections: point / block
   Gauss-Seidel in any order and with any number of sweeps (forward, backward, symmetric),
   multiplicative Schwarz with exact sub-block solves.  Their corrector  B  (x <- x + B (b - A x))
   is additive and the error propagation  e - B (A e)  does not increase the energy norm:
   exactly the two smoother premises of [CycleEnergy.good]. *)
From mathcomp Require Import all_ssreflect all_algebra.
From mathcomp Require Import ring.
Require Import PV.Model.Cycle PV.Proofs.CycleProofs PV.Algebra.Energy PV.Algebra.CycleEnergy.
Set Implicit Arguments. Unset Strict Implicit. Unset Printing Implicit Defensive.
Import Order.Theory GRing.Theory Num.Theory.
Local Open Scope ring_scope.

Section Sweeps.
Variable F : realFieldType.
Variable n : nat.
Variable A : 'M[F]_n.
Hypothesis Asym : A^T = A.
Hypothesis Apsd : forall x : 'cV[F]_n, 0 <= en A x.
(* relaxation weight: 1 for (block) Gauss-Seidel and Schwarz, 0 <= omega <= 2 for SOR *)
Variable omega : F.
Hypothesis Hom : 0 <= omega <= 2%:R.

(* a block: the columns spanning the subspace that one relaxation step solves exactly
   (a unit vector for point Gauss-Seidel, several for block Gauss-Seidel / a Schwarz subdomain) *)
Definition block := {k : nat & 'M[F]_(n, k)}.
Definition gram (b : block) := (projT2 b)^T *m A *m projT2 b.
(* the local solve applied to a residual *)
Definition Bv (b : block) (r : 'cV[F]_n) : 'cV[F]_n := projT2 b *m (invmx (gram b) *m ((projT2 b)^T *m r)).
(* one relaxation step on x for the system A x = rhs *)
Definition relax (rhs : 'cV[F]_n) (x : 'cV[F]_n) (b : block) := x + omega *: Bv b (rhs - A *m x).
Definition sweep (bs : seq block) (x rhs : 'cV[F]_n) := foldl (relax rhs) x bs.
(* the corrector of the whole sweep: the sweep applied to the zero guess *)
Definition Bsweep (bs : seq block) (r : 'cV[F]_n) := sweep bs 0 r.

Definition pstep (e : 'cV[F]_n) (b : block) := e - omega *: proj A (projT2 b) e.

Lemma Bv_proj b e : Bv b (A *m e) = proj A (projT2 b) e.
Proof. by []. Qed.

Lemma sweep_err bs : forall x e, e - sweep bs x (A *m e) = foldl pstep (e - x) bs.
Proof.
elim: bs => [|b bs IH] x e //=.
rewrite IH. congr (foldl _ _ _).
by rewrite /relax /pstep -mulmxBr Bv_proj opprD addrA.
Qed.

Lemma Bv_additive b r s : Bv b (r + s) = Bv b r + Bv b s.
Proof. by rewrite /Bv !mulmxDr. Qed.

Lemma sweep_additive bs : forall x y r s, sweep bs (x + y) (r + s) = sweep bs x r + sweep bs y s.
Proof.
elim: bs => [|b bs IH] x y r s //=.
rewrite -IH. congr (sweep _ _ _).
rewrite /relax mulmxDr.
have -> : r + s - (A *m x + A *m y) = (r - A *m x) + (s - A *m y) by rewrite opprD addrACA.
by rewrite Bv_additive scalerDr addrACA.
Qed.

Theorem Bsweep_additive bs : additive (cvG F n) (cvG F n) (Bsweep bs).
Proof. move=> r s /=. by rewrite /Bsweep -sweep_additive addr0. Qed.

Theorem sweep_nonexp bs : all (fun b => gram b \in unitmx) bs ->
  forall e, en A (e - Bsweep bs (A *m e)) <= en A e.
Proof.
move=> U e. rewrite /Bsweep sweep_err subr0.
elim: bs U e => [|b bs IH] //= /andP [Ub Ubs] e.
apply: (le_trans (IH Ubs _)).
exact: (@damped_proj_nonexp _ _ _ Asym Apsd _ _ Ub omega _ Hom).
Qed.
End Sweeps.
