(* C05: positive definiteness of the preconditioner.  For a symmetric positive semidefinite A and ANY matrix M
   (the cycle operator), whenever the error propagation E = I - M A strictly reduces the energy of v, the
   quadratic form of M at u = A v is positive; so a cycle that contracts the energy norm (C02 gives
   non-expansion, the dense oracle checks strictness) has a positive definite M on the range of A -- on the
   whole space when A is invertible. *)
From mathcomp Require Import all_ssreflect all_algebra.
From mathcomp Require Import ring.
Require Import PV.Algebra.Energy.
Set Implicit Arguments. Unset Strict Implicit. Unset Printing Implicit Defensive.
Import Order.Theory GRing.Theory Num.Theory.
Local Open Scope ring_scope.

Section PD.
Variable F : realFieldType.
Variable n : nat.
Variables A M : 'M[F]_n.
Hypothesis Asym : A^T = A.
Hypothesis Apsd : forall x : 'cV[F]_n, 0 <= en A x.
Definition Eop (v : 'cV[F]_n) : 'cV[F]_n := v - M *m (A *m v).
Definition qf (u : 'cV[F]_n) : F := sc (u^T *m M *m u).

Lemma qf_Av v : qf (A *m v) = en A v - ip A v (Eop v).
Proof.
rewrite /qf /Eop /en /ip mulmxBr scB trmx_mul Asym.
have -> : v^T *m A *m M *m (A *m v) = v^T *m A *m (M *m (A *m v)) by rewrite !mulmxA.
set a := sc (v^T *m A *m v); set c := sc _. ring.
Qed.

Theorem precond_pos v : en A (Eop v) < en A v -> 0 < qf (A *m v).
Proof.
move=> Hlt. rewrite qf_Av.
have H0 : 0 <= en A (v - Eop v) by exact: Apsd.
have E1 : en A (v - Eop v) = en A v - 2%:R * ip A v (Eop v) + en A (Eop v).
{ rewrite (en_add Asym).
  have -> : ip A v (- Eop v) = - ip A v (Eop v).
  { by rewrite -scaleN1r (ipZr Asym) mulN1r. }
  have -> : en A (- Eop v) = en A (Eop v).
  { by rewrite /en -scaleN1r ipZl (ipZr Asym) mulrA mulrNN !mul1r. }
  set a := en A v; set c := ip A v (Eop v); set d := en A (Eop v). ring. }
rewrite E1 in H0.
move: H0 Hlt. set a := en A v; set c := ip A v (Eop v); set d := en A (Eop v). move=> H0 Hlt.
have H2 : 0 < 2%:R * (a - c).
{ have -> : 2%:R * (a - c) = (a - 2%:R * c + d) + (a - d) by ring.
  apply: ltr_paddl => //. by rewrite subr_gt0. }
by rewrite pmulr_rgt0 // ltr0n in H2.
Qed.

(* with A invertible every u is A v: M is positive definite as soon as the cycle strictly contracts *)
Corollary precond_pd : A \in unitmx -> (forall v : 'cV[F]_n, v != 0 -> en A (Eop v) < en A v) ->
  forall u : 'cV[F]_n, u != 0 -> 0 < qf u.
Proof.
move=> Au Hc u Hu.
have Eu : u = A *m (invmx A *m u) by rewrite mulmxA mulmxV // mul1mx.
rewrite Eu. apply: precond_pos. apply: Hc.
apply/eqP => H0. move: Hu. by rewrite Eu H0 mulmx0 eqxx.
Qed.
End PD.

(* the strict-contraction hypothesis is satisfiable: A = M = 1 (1x1), where E = 0 *)
Lemma pd_example (F : realFieldType) (v : 'cV[F]_1) : v != 0 ->
  en (1%:M) (v - (1%:M : 'M[F]_1) *m (1%:M *m v)) < en (1%:M) v.
Proof.
move=> Hv. rewrite !mul1mx subrr en0 /en /ip mulmx1 /sc mxE big_ord1 mxE -expr2.
rewrite lt_def sqr_ge0 andbT sqrf_eq0. apply: contra Hv => /eqP H.
by apply/eqP/matrixP => i j; rewrite !ord1 mxE H.
Qed.
