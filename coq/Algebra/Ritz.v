(* C19: a Ritz value of a symmetric matrix never exceeds a bound of its numerical range.
   A^T = A, V has orthonormal columns, H = V^T A V, H y = theta y, y <> 0,
   |x^T A x| <= rho x^T x for all x   ==>   |theta| <= rho. *)
From mathcomp Require Import all_ssreflect all_algebra.
Require Import PV.Algebra.Energy.
Set Implicit Arguments. Unset Strict Implicit. Unset Printing Implicit Defensive.
Import Order.Theory GRing.Theory Num.Theory.
Local Open Scope ring_scope.

Section Ritz.
Variable F : realFieldType.
Variables (n k : nat) (A : 'M[F]_n) (V : 'M[F]_(n, k)).
Hypothesis Vorth : V^T *m V = 1%:M.
Variable rho : F.
Hypothesis Hrho : forall x : 'cV[F]_n, `|sc (x^T *m A *m x)| <= rho * sc (x^T *m x).
Variables (y : 'cV[F]_k) (theta : F).
Hypothesis Hy : (V^T *m A *m V) *m y = theta *: y.
Hypothesis Hy0 : 0 < sc (y^T *m y).

Theorem ritz_le_rho : `|theta| <= rho.
Proof.
set x := V *m y.
have Ex : sc (x^T *m x) = sc (y^T *m y).
{ by rewrite /x trmx_mul -mulmxA [V^T *m (V *m y)]mulmxA Vorth mul1mx. }
have EA : sc (x^T *m A *m x) = theta * sc (y^T *m y).
{ rewrite /x trmx_mul -!mulmxA.
  have -> : V^T *m (A *m (V *m y)) = (V^T *m A *m V) *m y by rewrite !mulmxA.
  by rewrite Hy -scalemxAr /sc mxE. }
have H := Hrho x. rewrite EA Ex normrM (gtr0_norm Hy0) in H.
by rewrite -(ler_pmul2r Hy0).
Qed.
End Ritz.
