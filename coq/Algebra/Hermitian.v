(* C05: with per-level adjoint smoothers (B_post = B_pre^T), R = P^T, symmetric level
   matrices and a symmetric coarse solve, the V- and W-cycle operator M is symmetric:
   <M u, v> = <u, M v>.  M is given as a matrix by the textbook recursion and proved equal
   to the operator [Cycle.Mtb] of C03 on the corresponding hierarchy. *)
From mathcomp Require Import all_ssreflect all_algebra.
Require Import PV.Model.Cycle PV.Proofs.CycleProofs PV.Algebra.CycleEnergy.
Set Implicit Arguments. Unset Strict Implicit. Unset Printing Implicit Defensive.
Import GRing.Theory Num.Theory.
Local Open Scope ring_scope.

Section Herm.
Variable F : realFieldType.

Inductive mhm : nat -> Type :=
| HCoarsest n (A Ainv : 'M[F]_n) : mhm n
| HLevel n m (A Bpre Bpost : 'M[F]_n) (P : 'M[F]_(n, m)) (R : 'M[F]_(m, n)) (h : mhm m) : mhm n.

Definition htop n (h : mhm n) : 'M[F]_n :=
  match h with HCoarsest _ A _ => A | HLevel _ _ A _ _ _ _ _ => A end.

(* the textbook operator as a matrix; w = false: V-cycle, w = true: W-cycle *)
Fixpoint Mmx (w : bool) n (h : mhm n) : 'M[F]_n :=
  match h with
  | HCoarsest _ A Ainv => Ainv
  | HLevel n m A Bpre Bpost P R hc =>
      let Mc := Mmx w hc in
      let C := if w then Mc + Mc *m (1%:M - htop hc *m Mc) else Mc in
      let X2 := Bpre + P *m (C *m (R *m (1%:M - A *m Bpre))) in
      X2 + Bpost *m (1%:M - A *m X2)
  end.

Fixpoint symgood n (h : mhm n) : Prop :=
  match h with
  | HCoarsest _ A Ainv => A^T = A /\ Ainv^T = Ainv
  | HLevel n m A Bpre Bpost P R hc =>
      [/\ A^T = A, Bpost = Bpre^T, R = P^T & symgood hc]
  end.

Lemma symgood_top n (h : mhm n) : symgood h -> (htop h)^T = htop h.
Proof. by case: h => [k A Ai [] | k m A B1 B2 P R hc []]. Qed.

Theorem Mmx_sym w n (h : mhm n) : symgood h -> (Mmx w h)^T = Mmx w h.
Proof.
elim: h => [k A Ainv | k m A Bpre Bpost P R hc IH] /=; first by case.
case=> Asym -> -> Hc.
set B := Bpre.
set Mc := Mmx w hc.
have McT : Mc^T = Mc by exact: IH.
have AcT := symgood_top Hc.
set C := if w then _ else _.
have CT : C^T = C.
{ rewrite /C; case: (w) => //.
  rewrite linearD /= trmx_mul linearB /= trmx1 trmx_mul McT AcT.
  congr (_ + _). by rewrite mulmxBr mulmxBl mulmx1 mul1mx mulmxA. }
set N := 1%:M - A *m B.
have NT : N^T = 1%:M - B^T *m A by rewrite /N linearB /= trmx1 trmx_mul Asym.
set K := P *m (C *m (P^T *m N)).
(* K = (P C P^T) N *)
set X2 := B + K.
have EM : X2 + B^T *m (1%:M - A *m X2) = (B + B^T - B^T *m A *m B) + N^T *m (P *m C *m P^T) *m N.
{ rewrite /X2 [A *m (B + K)]mulmxDr.
  have -> : 1%:M - (A *m B + A *m K) = N - A *m K by rewrite opprD addrA.
  rewrite mulmxBr.
  have -> : B^T *m N = B^T - B^T *m A *m B by rewrite /N mulmxBr mulmx1 mulmxA.
  have -> : N^T *m (P *m C *m P^T) *m N = K - B^T *m (A *m K).
  { rewrite NT /K mulmxBl mul1mx mulmxBl -!mulmxA. by []. }
  rewrite -!addrA. congr (_ + _).
  rewrite [LHS]addrCA. congr (_ + _).
  by rewrite [LHS]addrCA. }
rewrite EM linearD /= linearB /= linearD /= trmxK.
rewrite !trmx_mul trmxK Asym !trmxK CT.
congr (_ + _); first by rewrite [B^T + B]addrC mulmxA.
by rewrite !mulmxA.
Qed.

(* --- link with the operator of C03 --- *)
Fixpoint hm_to_hier n (h : mhm n) : hier 'cV[F]_n :=
  match h with
  | HCoarsest n A Ainv => Coarsest 'cV[F]_n (cvG F n) (mulmx A) (mulmx Ainv)
  | HLevel n m A Bpre Bpost P R hc =>
      Level 'cV[F]_n (cvG F n) (mulmx A) (mulmx Bpre) (mulmx Bpost) 'cV[F]_m (mulmx P) (mulmx R) (hm_to_hier hc)
  end.
Lemma hgrp_hm n (h : mhm n) : hgrp (hm_to_hier h) = cvG F n. Proof. by case: h. Qed.
Lemma hA_hm n (h : mhm n) : hA (hm_to_hier h) = mulmx (htop h). Proof. by case: h. Qed.

Theorem Mtb_is_Mmx w n (h : mhm n) : forall r : 'cV[F]_n,
  Mtb (hm_to_hier h) (if w then CW else CV) 1 r = Mmx w h *m r.
Proof.
elim: h => [k A Ainv | k m A Bpre Bpost P R hc IH] r //=.
rewrite hgrp_hm hA_hm /=.
set cb := R *m (r - A *m (Bpre *m r)).
have Ecx :
  match (if w then CW else CV) with
  | CV => Mtb (hm_to_hier hc) CV 1 cb
  | CW => corr (cvG F m) (mulmx (htop hc)) (Mtb (hm_to_hier hc) CW 1) cb (Mtb (hm_to_hier hc) CW 1 cb)
  | CF => repeat_fn 1 (corr (cvG F m) (mulmx (htop hc)) (Mtb (hm_to_hier hc) CV 1) cb) (Mtb (hm_to_hier hc) CF 1 cb)
  end = (if w then Mmx w hc + Mmx w hc *m (1%:M - htop hc *m Mmx w hc) else Mmx w hc) *m cb.
{ case: (w) IH => IH.
  - rewrite /corr /= !IH mulmxDl. congr (_ + _).
    by rewrite -mulmxA mulmxBl mul1mx -mulmxA.
  - exact: IH. }
rewrite Ecx.
set C := if w then _ else _.
have Ecb : cb = (R *m (1%:M - A *m Bpre)) *m r by rewrite /cb -mulmxA mulmxBl mul1mx -mulmxA.
rewrite mulmxDl. congr (_ + _).
- by rewrite mulmxDl Ecb -!mulmxA.
- rewrite -mulmxA. congr (_ *m _).
  rewrite mulmxBl mul1mx. congr (_ - _).
  by rewrite -mulmxA mulmxDl Ecb -!mulmxA.
Qed.

(* hence: <M u, v> = <u, M v> for the C03 operator itself *)
Corollary cycle_operator_self_adjoint w n (h : mhm n) : symgood h -> forall u v : 'cV[F]_n,
  (Mtb (hm_to_hier h) (if w then CW else CV) 1 u)^T *m v = u^T *m Mtb (hm_to_hier h) (if w then CW else CV) 1 v.
Proof. move=> G u v. by rewrite !Mtb_is_Mmx trmx_mul (Mmx_sym w G) mulmxA. Qed.
End Herm.
