(* C16: what "the pseudo-inverse solver returns the minimum-norm least-squares solution" means, as a theorem: any
   matrix X that satisfies the four Penrose equations with A (real data, any shape, singular or not) gives, for every
   right-hand side b, a vector x = X b that (1) minimises |A y - b|_2 over all y and (2) has the smallest 2-norm among
   all minimisers.  The check of C16 verifies the four equations for the matrix the 'pinv' coarse solver applies and
   compares its answers with an independent least-squares solve. *)
From mathcomp Require Import all_ssreflect all_algebra.
From mathcomp Require Import ring.
Require Import PV.Algebra.KrylovOpt PV.Algebra.KrylovInst.
Set Implicit Arguments. Unset Strict Implicit. Unset Printing Implicit Defensive.
Import Order.Theory GRing.Theory Num.Theory.
Local Open Scope ring_scope.

Lemma dot_eq0 (F : realFieldType) n (x : 'cV[F]_n) : dot x x = 0 -> x = 0.
Proof.
rewrite /dot /sc mxE => H.
have Hge : forall i : 'I_n, true -> 0 <= (x^T) 0 i * x i 0.
  by move=> i _; rewrite mxE -expr2 sqr_ge0.
have H0 := psumr_eq0P Hge H.
apply/colP => i. have := H0 i isT. rewrite !mxE -expr2 => /eqP.
by rewrite sqrf_eq0 => /eqP.
Qed.

Lemma pyth_le (F : realFieldType) k (a r : 'cV[F]_k) : dot a r = 0 -> dot r r <= dot (a + r) (a + r).
Proof.
move=> Z. rewrite dotDl !dotDr Z (dotC r a) Z addr0 add0r.
by rewrite ler_addr dot_ge0.
Qed.

Section Penrose.
Variable F : realFieldType.
Variables (m n : nat) (A : 'M[F]_(m, n)) (X : 'M[F]_(n, m)).
Hypothesis P1 : A *m X *m A = A.
Hypothesis P2 : X *m A *m X = X.
Hypothesis P3 : (A *m X)^T = A *m X.
Hypothesis P4 : (X *m A)^T = X *m A.

(* normal equations: A^T (A X b - b) = 0 *)
Lemma normal_eq (b : 'cV[F]_m) : A^T *m (A *m (X *m b) - b) = 0.
Proof.
have E : A^T *m (A *m X) = A^T.
  by rewrite -{1}P3 -trmx_mul P1.
by rewrite mulmxBr (mulmxA A X b) (mulmxA A^T (A *m X) b) E subrr.
Qed.

Theorem pinv_least_squares (b : 'cV[F]_m) (y : 'cV[F]_n) :
  dot (A *m (X *m b) - b) (A *m (X *m b) - b) <= dot (A *m y - b) (A *m y - b).
Proof.
have -> : A *m y - b = A *m (y - X *m b) + (A *m (X *m b) - b) by rewrite mulmxBr addrA subrK.
apply: pyth_le.
by rewrite dotT normal_eq /dot mulmx0 /sc mxE.
Qed.

Theorem pinv_minimum_norm (b : 'cV[F]_m) (y : 'cV[F]_n) :
  A^T *m (A *m y - b) = 0 -> dot (X *m b) (X *m b) <= dot y y.
Proof.
move=> Hy.
have Hd : A *m (y - X *m b) = 0.
  apply: dot_eq0. rewrite dotT.
  have -> : A^T *m (A *m (y - X *m b)) = A^T *m (A *m y - b) - A^T *m (A *m (X *m b) - b).
    rewrite -mulmxBr; congr (_ *m _). by rewrite mulmxBr opprB addrA subrK.
  by rewrite Hy normal_eq subr0 /dot mulmx0 /sc mxE.
have Hx : X *m b = (X *m A) *m (X *m b) by rewrite !mulmxA P2.
have Z : dot (y - X *m b) (X *m b) = 0.
  by rewrite dotC {1}Hx dotT P4 -!mulmxA Hd !mulmx0 /dot mulmx0 /sc mxE.
have -> : y = (y - X *m b) + X *m b by rewrite subrK.
exact: pyth_le.
Qed.
End Penrose.
