(* C10: why constrained prolongation smoothing cannot change T * B_coarse.  satisfy_constraints replaces every (block) row
   U_i of the search direction, seen on the columns of its sparsity pattern, by  U_i - (U_i B_i) X_i B_i^H  where B_i holds the
   rows of the coarse candidates on that pattern and X_i is the inverse of the local Gram matrix B_i^H B_i (compute_BtBinv).
   Then U_i B_i = 0, and adding any multiple of such a direction to a prolongator leaves its product with the candidates
   unchanged.  Any commutative ring; B^H enters only through X (B^H B) = 1, so real and complex data are both covered. *)
From mathcomp Require Import all_ssreflect all_algebra.
Set Implicit Arguments. Unset Strict Implicit. Unset Printing Implicit Defensive.
Import GRing.Theory.
Local Open Scope ring_scope.

Section Constraints.
Variable F : comRingType.
Variables (r k c : nat).
Variables (Bs : 'M[F]_(k, c)) (Bh : 'M[F]_(c, k)) (X : 'M[F]_(c, c)).
Hypothesis XG : X *m (Bh *m Bs) = 1%:M.

Definition project (U : 'M[F]_(r, k)) : 'M[F]_(r, k) := U - U *m Bs *m X *m Bh.

Lemma project_annihilates (U : 'M[F]_(r, k)) : project U *m Bs = 0.
Proof.
by rewrite /project mulmxBl -!mulmxA XG mulmx1 subrr.
Qed.

Theorem constrained_update_preserves (P U : 'M[F]_(r, k)) (a : F) :
  (P + a *: project U) *m Bs = P *m Bs.
Proof. by rewrite mulmxDl -scalemxAl project_annihilates scaler0 addr0. Qed.

(* a direction that already satisfies the constraints is not changed *)
Lemma project_fixed (U : 'M[F]_(r, k)) : U *m Bs = 0 -> project U = U.
Proof. by move=> H; rewrite /project H !mul0mx subr0. Qed.
End Constraints.
