(* C02: no V-, W- or F-cycle increases the energy norm of the error.
   The matrix hierarchy below is turned into an instance of the cycle model of C03
   ([Cycle.hier] over mathcomp column vectors, a genuine abelian group), so the theorem is
   about the very function [Cycle.cycle]. *)
From mathcomp Require Import all_ssreflect all_algebra.
From mathcomp Require Import ring.
Require Import PV.Model.Cycle PV.Proofs.CycleProofs PV.Algebra.Energy.
Set Implicit Arguments. Unset Strict Implicit. Unset Printing Implicit Defensive.
Import Order.Theory GRing.Theory Num.Theory.
Local Open Scope ring_scope.

Section MH.
Variable F : realFieldType.

Inductive mhier : nat -> Type :=
| MCoarsest n (A : 'M[F]_n) : mhier n
| MLevel n m (A : 'M[F]_n) (Bpre Bpost : 'cV[F]_n -> 'cV[F]_n) (P : 'M[F]_(n, m)) (h : mhier m) : mhier n.
(* Bpre, Bpost: the smoother correctors  x <- x + B (b - A x)  as (additive) functions *)

Definition mtop n (h : mhier n) : 'M[F]_n :=
  match h with MCoarsest _ A => A | MLevel _ _ A _ _ _ _ => A end.

Definition cvG n : Grp 'cV[F]_n := mkGrp 'cV[F]_n 0 (fun a b => a + b) (fun a b => a - b).

(* restriction is the transpose of prolongation; the coarsest solve is the exact inverse *)
Fixpoint to_hier n (h : mhier n) : hier 'cV[F]_n :=
  match h with
  | MCoarsest n A => Coarsest 'cV[F]_n (cvG n) (mulmx A) (mulmx (invmx A))
  | MLevel n m A Bpre Bpost P hc =>
      Level 'cV[F]_n (cvG n) (mulmx A) Bpre Bpost 'cV[F]_m (mulmx P) (mulmx P^T) (to_hier hc)
  end.

Lemma hgrp_to_hier n (h : mhier n) : hgrp (to_hier h) = cvG n.
Proof. by case: h. Qed.
Lemma hA_to_hier n (h : mhier n) : hA (to_hier h) = mulmx (mtop h).
Proof. by case: h. Qed.

Lemma cvG_laws n : GrpLaws (cvG n).
Proof.
split => /=.
- by move=> a b c; rewrite addrA.
- by move=> a b; rewrite addrC.
- by move=> a; rewrite add0r.
- by move=> a b; rewrite subrK.
Qed.
Lemma mulmx_additive n m (M : 'M[F]_(n, m)) : additive (cvG m) (cvG n) (mulmx M).
Proof. by move=> a b /=; rewrite mulmxDr. Qed.

(* the hypotheses of the property, level by level *)
Fixpoint good n (h : mhier n) : Prop :=
  match h with
  | MCoarsest n A => [/\ A \in unitmx, A^T = A & forall x : 'cV[F]_n, 0 <= en A x]
  | MLevel n m A Bpre Bpost P hc =>
      [/\ A^T = A, (forall x : 'cV[F]_n, 0 <= en A x),
          mtop hc = P^T *m A *m P                                   (* Galerkin coarse operator *)
        & mtop hc \in unitmx] /\
      [/\ additive (cvG n) (cvG n) Bpre, additive (cvG n) (cvG n) Bpost,
          (forall e : 'cV[F]_n, en A (e - Bpre (A *m e)) <= en A e),   (* smoothers do not increase *)
          (forall e : 'cV[F]_n, en A (e - Bpost (A *m e)) <= en A e)   (* the energy of the error  *)
        & good hc]
  end.

Lemma to_hier_wfx n (h : mhier n) : good h -> wfx (to_hier h).
Proof.
elim: h => [k A | k m A Bpre Bpost P hc IH] /=.
- case=> U _ _. split; first exact: cvG_laws. split; first exact: mulmx_additive.
  split; first exact: mulmx_additive. by move=> x; rewrite mulKmx.
- case=> [[_ _ _ _] [Apre Apost _ _ Hc]]. rewrite hgrp_to_hier.
  split; first exact: cvG_laws.
  split; first exact: mulmx_additive.
  split; first exact: Apre. split; first exact: Apost.
  do 2 (split; first exact: mulmx_additive).
  exact: IH.
Qed.

(* --- nonexpansiveness of the coarse operators built by the textbook recursion --- *)
Section Coarse.
Variables (m : nat) (Ac : 'M[F]_m) (Mv Mw Mf : 'cV[F]_m -> 'cV[F]_m).
Hypothesis HV : forall w, en Ac (w - Mv (Ac *m w)) <= en Ac w.
Hypothesis HW : forall w, en Ac (w - Mw (Ac *m w)) <= en Ac w.
Hypothesis HF : forall w, en Ac (w - Mf (Ac *m w)) <= en Ac w.

Lemma corr_err (Mc : 'cV[F]_m -> 'cV[F]_m) (w s : 'cV[F]_m) :
  w - corr (cvG m) (mulmx Ac) Mc (Ac *m w) s = (w - s) - Mc (Ac *m (w - s)).
Proof. by rewrite /corr /= mulmxBr opprD addrA. Qed.

Lemma W_nonexp w : en Ac (w - corr (cvG m) (mulmx Ac) Mw (Ac *m w) (Mw (Ac *m w))) <= en Ac w.
Proof. rewrite corr_err. exact: (le_trans (HW _) (HW _)). Qed.

Lemma F_nonexp k : forall (w s : 'cV[F]_m),
  en Ac (w - repeat_fn k (corr (cvG m) (mulmx Ac) Mv (Ac *m w)) s) <= en Ac (w - s).
Proof.
elim: k => [|k IH] w s /=; first by [].
apply: (le_trans (IH _ _)). rewrite corr_err. exact: HV.
Qed.
End Coarse.

(* --- the multilevel theorem --- *)
Theorem cycle_error_nonexp n (h : mhier n) : good h -> forall ct cpl (e : 'cV[F]_n),
  en (mtop h) (e - Mtb (to_hier h) ct cpl (mtop h *m e)) <= en (mtop h) e.
Proof.
elim: h => [k A | k m A Bpre Bpost P hc IH] /=.
- case=> U _ Hpsd ct cpl e. by rewrite mulKmx // subrr en0.
- case=> [[Asym Apsd Gal Ucu] [_ _ Hpre Hpost Hc]] ct cpl e.
  rewrite hgrp_to_hier hA_to_hier /=.
  set r := A *m e.
  set x1 := Bpre r.
  set e1 := e - x1.
  have Er1 : r - A *m x1 = A *m e1 by rewrite /e1 mulmxBr.
  rewrite Er1.
  set cb := P^T *m (A *m e1).
  set C := fun cb' : 'cV[F]_m =>
    match ct with
    | CV => Mtb (to_hier hc) CV 1 cb'
    | CW => corr (cvG m) (mulmx (mtop hc)) (Mtb (to_hier hc) CW cpl) cb' (Mtb (to_hier hc) CW cpl cb')
    | CF => repeat_fn cpl (corr (cvG m) (mulmx (mtop hc)) (Mtb (to_hier hc) CV 1) cb') (Mtb (to_hier hc) CF cpl cb')
    end.
  have -> : match ct with
            | CV => Mtb (to_hier hc) CV 1 cb
            | CW => corr (cvG m) (mulmx (mtop hc)) (Mtb (to_hier hc) CW cpl) cb (Mtb (to_hier hc) CW cpl cb)
            | CF => repeat_fn cpl (corr (cvG m) (mulmx (mtop hc)) (Mtb (to_hier hc) CV 1) cb) (Mtb (to_hier hc) CF cpl cb)
            end = C cb by [].
  have HC : forall w, en (mtop hc) (w - C (mtop hc *m w)) <= en (mtop hc) w.
  { move=> w. rewrite /C. case: ct {C}.
    - exact: (IH Hc).
    - apply: W_nonexp. exact: (IH Hc).
    - apply: (le_trans (F_nonexp _ _ _ _)); last exact: (IH Hc). exact: (IH Hc). }
  set x2 := x1 + P *m C cb.
  set e2 := e - x2.
  have Ee2 : e2 = e1 - P *m C cb by rewrite /e2 /x2 /e1 opprD addrA.
  have Er2 : r - A *m x2 = A *m e2 by rewrite /e2 mulmxBr.
  rewrite Er2.
  have -> : e - (x2 + Bpost (A *m e2)) = e2 - Bpost (A *m e2) by rewrite /e2 opprD addrA.
  apply: (le_trans (Hpost e2)).
  rewrite Ee2 /cb.
  have Hcgc := @inexact_cgc_nonexp F k m A P Asym.
  rewrite -Gal in Hcgc.
  apply: (le_trans (Hcgc Ucu C HC e1)).
  exact: Hpre.
Qed.

(* in terms of the cycle itself: the error after a cycle is no larger in energy *)
Corollary cycle_energy_monotone n (h : mhier n) : good h -> forall ct cpl (x b xs : 'cV[F]_n),
  mtop h *m xs = b ->
  en (mtop h) (xs - cycle (to_hier h) ct cpl x b) <= en (mtop h) (xs - x).
Proof.
move=> G ct cpl x b xs Hb.
rewrite (@cycle_affine _ _ (to_hier_wfx G)) hgrp_to_hier hA_to_hier /=.
have -> : b - mtop h *m x = mtop h *m (xs - x) by rewrite mulmxBr Hb.
have -> : xs - (x + Mtb (to_hier h) ct cpl (mtop h *m (xs - x)))
        = (xs - x) - Mtb (to_hier h) ct cpl (mtop h *m (xs - x)) by rewrite opprD addrA.
exact: cycle_error_nonexp.
Qed.

(* a Gauss-Seidel / block Gauss-Seidel / Schwarz step is an A-orthogonal projection, hence
   admissible as a smoother; any composition of nonexpansive steps is nonexpansive *)
Lemma nonexp_comp n (A : 'M[F]_n) (f g : 'cV[F]_n -> 'cV[F]_n) :
  (forall e, en A (f e) <= en A e) -> (forall e, en A (g e) <= en A e) -> forall e, en A (g (f e)) <= en A e.
Proof. move=> Hf Hg e. exact: (le_trans (Hg _) (Hf _)). Qed.
End MH.
