(* C11: the defining equation of the local approximate ideal restriction.  Row i of R belongs to a coarse point c; its entries
   are the identity entry at c and weights r on the F points of its sparsity pattern F_i (nothing else).  local_air determines
   r from  r A[F_i, F_i] = - A[c, F_i].  Then (R A)[i, j] = 0 for every j in F_i -- for point rows (1 x k) and for block rows
   (b x kb) alike.  Any ring. *)
From mathcomp Require Import all_ssreflect all_algebra.
Set Implicit Arguments. Unset Strict Implicit. Unset Printing Implicit Defensive.
Import GRing.Theory.
Local Open Scope ring_scope.

Section Air.
Variable F : ringType.
Variables (b k : nat).
Variables (Aff : 'M[F]_(k, k)) (Acf : 'M[F]_(b, k)) (r : 'M[F]_(b, k)).

(* the row(s) of R on the columns [F_i | c] times the rows [F_i ; c] of A, restricted to the columns F_i *)
Theorem air_row_annihilates_pattern : r *m Aff = - Acf -> row_mx r 1%:M *m col_mx Aff Acf = 0.
Proof. by move=> H; rewrite mul_row_col H mul1mx addNr. Qed.

(* conversely, a restriction row with the identity at c that annihilates the pattern solves the local system *)
Theorem air_row_characterised : row_mx r 1%:M *m col_mx Aff Acf = 0 -> r *m Aff = - Acf.
Proof. by rewrite mul_row_col mul1mx => /eqP; rewrite addr_eq0 => /eqP. Qed.
End Air.
