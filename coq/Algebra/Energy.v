(* Energy-norm algebra over an arbitrary real field (mathcomp): A-inner product, A-orthogonal
   projections are nonexpansive (covers point/block Gauss-Seidel, multiplicative Schwarz with
   exact sub-block solves and the exact coarse-grid correction), and the inexact coarse-grid
   correction lemma that is the induction step of the multilevel theorem (C02). *)
From mathcomp Require Import all_ssreflect all_algebra.
From mathcomp Require Import ring.
Set Implicit Arguments. Unset Strict Implicit. Unset Printing Implicit Defensive.
Import GRing.Theory Num.Theory.
Local Open Scope ring_scope.

Section Quad.
Variable F : realFieldType.
Definition sc (M : 'M[F]_1) : F := M 0 0.
Lemma scD M N : sc (M + N) = sc M + sc N. Proof. by rewrite /sc mxE. Qed.
Lemma scB M N : sc (M - N) = sc M - sc N. Proof. by rewrite /sc !mxE. Qed.
Lemma scT M : sc M^T = sc M. Proof. by rewrite /sc mxE. Qed.

Section One.
Variable n : nat.
Variable A : 'M[F]_n.
Definition ip (x y : 'cV[F]_n) : F := sc (x^T *m A *m y).
Definition en (x : 'cV[F]_n) : F := ip x x.
Hypothesis Asym : A^T = A.
Lemma ip_sym x y : ip x y = ip y x.
Proof.
rewrite /ip.
have -> : y^T *m A *m x = (x^T *m A *m y)^T by rewrite !trmx_mul trmxK Asym mulmxA.
by rewrite scT.
Qed.
Lemma ipDl x y z : ip (x + y) z = ip x z + ip y z.
Proof. by rewrite /ip linearD /= !mulmxDl scD. Qed.
Lemma ipDr x y z : ip x (y + z) = ip x y + ip x z.
Proof. by rewrite /ip mulmxDr scD. Qed.
Lemma en_add x y : en (x + y) = en x + 2%:R * ip x y + en y.
Proof.
rewrite /en ipDl !ipDr (ip_sym y x).
set a := ip x x; set b := ip x y; set c := ip y y. ring.
Qed.
Lemma en0 : en 0 = 0.
Proof. by rewrite /en /ip trmx0 !mul0mx /sc mxE. Qed.

Hypothesis Apsd : forall x : 'cV[F]_n, 0 <= en x.

(* A-orthogonal decomposition: if (e - p) is A-orthogonal to p then en (e - p) <= en e *)
Lemma orth_nonexp (e p : 'cV[F]_n) : ip (e - p) p = 0 -> en (e - p) <= en e.
Proof.
move=> H.
have -> : en e = en ((e - p) + p) by rewrite subrK.
rewrite [X in _ <= X]en_add H mulr0 addr0 ler_addl. exact: Apsd.
Qed.

(* projection onto the range of E in the A-inner product *)
Section Proj.
Variable k : nat.
Variable E : 'M[F]_(n,k).
Let G := E^T *m A *m E.
Hypothesis Gunit : G \in unitmx.
Definition proj (e : 'cV[F]_n) : 'cV[F]_n := E *m (invmx G *m (E^T *m (A *m e))).
Lemma Gsym : G^T = G.
Proof. by rewrite /G !trmx_mul trmxK Asym mulmxA. Qed.
Lemma proj_orth e : ip (e - proj e) (proj e) = 0.
Proof.
rewrite /ip.
have -> : (e - proj e)^T = e^T - (proj e)^T by rewrite linearB.
rewrite !mulmxBl scB.
apply/eqP; rewrite subr_eq0; apply/eqP.
congr sc.
rewrite /proj.
rewrite !trmx_mul trmxK Asym.
have GiT : (invmx G)^T = invmx G by rewrite trmx_inv Gsym.
rewrite GiT.
rewrite -!mulmxA.
congr (_ *m (_ *m (_ *m _))).
set Y := E^T *m (A *m e).
have -> : E^T *m (A *m (E *m (invmx G *m Y))) = G *m (invmx G *m Y) by rewrite /G !mulmxA.
by rewrite mulKVmx.
Qed.
Theorem proj_A_nonexp e : en (e - proj e) <= en e.
Proof. apply: orth_nonexp. exact: proj_orth. Qed.

(* damped projection (one SOR row / block step): e - omega * proj e, 0 <= omega <= 2 *)
Lemma scZ c (M : 'M[F]_1) : sc (c *: M) = c * sc M.
Proof. by rewrite /sc mxE. Qed.
Lemma ipZl c x y : ip (c *: x) y = c * ip x y.
Proof. by rewrite /ip linearZ /= -!scalemxAl scZ. Qed.
Lemma ipZr c x y : ip x (c *: y) = c * ip x y.
Proof. by rewrite ip_sym ipZl ip_sym. Qed.
Theorem damped_proj_nonexp omega e : 0 <= omega <= 2%:R -> en (e - omega *: proj e) <= en e.
Proof.
move=> /andP [H0 H2].
set p := proj e. set q := e - p.
have Hq : ip q p = 0 by exact: proj_orth.
have -> : e - omega *: p = q + (1 - omega) *: p.
{ by rewrite /q scalerBl scale1r addrA subrK. }
have -> : en e = en (q + p) by rewrite /q subrK.
rewrite !en_add ipZr Hq !mulr0 !addr0 ler_add2l.
rewrite /en ipZl ipZr mulrA.
rewrite -[X in _ <= X]mul1r. apply: ler_wpmul2r; first exact: Apsd.
have -> : (1 - omega) * (1 - omega) = 1 - omega * (2%:R - omega) by ring.
rewrite ler_subl_addr ler_addl. apply: mulr_ge0 => //. by rewrite subr_ge0.
Qed.
End Proj.
End One.

(* coarse-grid correction with an arbitrary (possibly inexact, possibly nonlinear) coarse solve *)
Section TwoGrid.
Variables n m : nat.
Variable A : 'M[F]_n.
Variable P : 'M[F]_(n,m).
Hypothesis Asym : A^T = A.
Hypothesis Apsd : forall x : 'cV[F]_n, 0 <= en A x.
Let Ac : 'M[F]_m := P^T *m A *m P.
Hypothesis Acunit : Ac \in unitmx.
Variable Mc : 'cV[F]_m -> 'cV[F]_m.
(* the coarse iteration  w |-> w - Mc (Ac w)  is Ac-nonexpansive *)
Hypothesis Hc : forall w : 'cV[F]_m, en Ac (w - Mc (Ac *m w)) <= en Ac w.

Lemma Ac_sym : Ac^T = Ac.
Proof. by rewrite /Ac !trmx_mul trmxK Asym mulmxA. Qed.
Lemma ip_P (u v : 'cV[F]_m) : ip A (P *m u) (P *m v) = ip Ac u v.
Proof. by rewrite /ip /Ac trmx_mul !mulmxA. Qed.
Lemma ip_Pr (x : 'cV[F]_n) (v : 'cV[F]_m) : ip A x (P *m v) = sc ((P^T *m (A *m x))^T *m v).
Proof. by rewrite /ip !trmx_mul trmxK Asym !mulmxA. Qed.
Lemma Ac_psd (w : 'cV[F]_m) : 0 <= en Ac w.
Proof. by rewrite /en -ip_P; exact: Apsd. Qed.

Theorem inexact_cgc_nonexp (e : 'cV[F]_n) :
  en A (e - P *m (Mc (P^T *m (A *m e)))) <= en A e.
Proof.
set rc := P^T *m (A *m e).
set w := invmx Ac *m rc.
have Hw : Ac *m w = rc by rewrite /w mulKVmx.
set q := e - P *m w.
have Horth : forall v, ip A q (P *m v) = 0.
{ move=> v. rewrite ip_Pr /q mulmxBr mulmxBr -/rc.
  have -> : P^T *m (A *m (P *m w)) = Ac *m w by rewrite /Ac !mulmxA.
  by rewrite Hw subrr trmx0 mul0mx /sc mxE. }
have He : e = q + P *m w by rewrite /q subrK.
have Ht : e - P *m (Mc rc) = q + P *m (w - Mc (Ac *m w)).
{ by rewrite Hw mulmxBr addrA /q subrK. }
rewrite Ht [X in _ <= en A X]He !en_add // !Horth !mulr0 !addr0.
rewrite ler_add2l /en !ip_P. exact: Hc.
Qed.
End TwoGrid.
End Quad.
