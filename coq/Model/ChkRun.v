(* C17 run-side: the checked twins against the kernels.  A case carries either the kernel's output
   (the checked model must return exactly that) or None (the sanitizer stopped the kernel: the
   checked model must report an out-of-range access). *)
From Coq Require Import ZArith List Bool QArith PrimFloat.
Import ListNotations.
Require Import PV.Base.Ops PV.Model.Relax PV.Model.RelaxChk PV.Model.RelaxRun PV.Model.GraphAlg PV.Model.Split PV.Model.SplitChk PV.Model.Aggregate PV.Model.AggChk PV.Model.BfsChk PV.Model.MisChk.
Open Scope Z_scope.

Section Run.
Context {F : Type} (o : Ops F).
Definition run_chk (kind : nat) (zs : list Z) (fs : list F) (zls : list (list Z)) (fls : list (list F)) : option (list F) :=
  let Ap := zln zls 0 in let Aj := zln zls 1 in
  let Ax := fln fls 0 in let x := fln fls 1 in let b := fln fls 2 in
  match kind with
  | 0%nat => gauss_seidel_chk o Ap Aj Ax x b (zn zs 0) (zn zs 1) (zn zs 2)
  | 1%nat => sor_gauss_seidel_chk o Ap Aj Ax x b (zn zs 0) (zn zs 1) (zn zs 2) (fnn o fs 0)
  | 3%nat => jacobi_chk o Ap Aj Ax x b (fln fls 3) (zn zs 0) (zn zs 1) (zn zs 2) (fnn o fs 0)
  | 5%nat => jacobi_indexed_chk o Ap Aj Ax x b (zln zls 2) (fnn o fs 0)
  | 7%nat => gauss_seidel_indexed_chk o Ap Aj Ax x b (zln zls 2) (zn zs 0) (zn zs 1) (zn zs 2)
  | _ => None
  end.
End Run.

Definition ccaseT (F : Type) := (nat * list Z * list F * list (list Z) * list (list F) * option (list F))%type.
Definition cchk {F} (o : Ops F) (e : F -> F -> bool) (c : ccaseT F) : bool :=
  let '(kind, zs, fs, zls, fls, expected) := c in
  match run_chk o kind zs fs zls fls, expected with
  | Some r, Some ex => list_eqb e r ex
  | None, None => true
  | _, _ => false
  end.
Definition cchkF := cchk opsF PrimFloat.eqb.

(* rs_cf_splitting: (n, [Sp; Sj; Tp; Tj; influence], expected) *)
Definition rs_chk_case (c : Z * list (list Z) * option (list Z)) : bool :=
  let '(n, ls, expected) := c in
  match rs_cf_splitting_chk n (zln ls 0) (zln ls 1) (zln ls 2) (zln ls 3) (zln ls 4), expected with
  | Some r, Some ex => list_eqb Z.eqb r ex
  | None, None => true
  | _, _ => false
  end.

(* aggregation twins: (kind (0 standard, 1 naive), n, [Ap; Aj; y0], expected (x, y, count)) *)
Definition agg_chk_case (c : nat * Z * list (list Z) * option (list Z * list Z * Z)) : bool :=
  let '(kind, n, ls, expected) := c in
  let r := match kind with
           | 0%nat => standard_aggregation_chk n (zln ls 0) (zln ls 1) (zln ls 2)
           | _ => naive_aggregation_chk n (zln ls 0) (zln ls 1) (zln ls 2)
           end in
  match r, expected with
  | Some (x, y, k), Some (x', y', k') => list_eqb Z.eqb x x' && list_eqb Z.eqb y y' && (k =? k')
  | None, None => true
  | _, _ => false
  end.

(* breadth_first_search twin: (n, [Ap; Aj; order0], seed, expected (reached count :: order prefix ++ level)) *)
Definition bfs_chk_case (c : Z * list (list Z) * Z * option (list Z)) : bool :=
  let '(n, ls, seed, expected) := c in
  match bfs_chk n (zln ls 0) (zln ls 1) seed (zln ls 2), expected with
  | Some (order, level, N), Some ex => list_eqb Z.eqb (N :: firstn (Z.to_nat N) order ++ level) ex
  | None, None => true
  | _, _ => false
  end.

(* maximal_independent_set_serial twin: (n, [Ap; Aj; x], [active; C; F], expected (count :: x)) *)
Definition mis_chk_case (c : Z * list (list Z) * list Z * option (list Z)) : bool :=
  let '(n, ls, ps, expected) := c in
  match mis_serial_chk n (zln ls 0) (zln ls 1) (zn ps 0) (zn ps 1) (zn ps 2) (zln ls 2), expected with
  | Some (x, N), Some ex => list_eqb Z.eqb (N :: x) ex
  | None, None => true
  | _, _ => false
  end.
