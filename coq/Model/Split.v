(* Models of the C/F splitting kernels (pyamg/amg_core/ruge_stuben.h): rs_cf_splitting with its
   lambda buckets, rs_cf_splitting_pass2, cljp_naive_splitting (C13). *)
From Coq Require Import ZArith List Bool PrimFloat.
Import ListNotations.
Require Import PV.Model.GraphAlg.
Open Scope Z_scope.

Definition F_NODE := 0. Definition C_NODE := 1. Definition U_NODE := 2. Definition PRE_F_NODE := 3.

Record st := { lam : list Z; iptr : list Z; icnt : list Z; i2n : list Z; n2i : list Z; spl : list Z }.

(* the three-statement swap of the C code *)
Definition swap_pos (s : st) (old_pos new_pos : Z) : st :=
  let n2i1 := set (n2i s) (get (i2n s) old_pos) new_pos in
  let n2i2 := set n2i1 (get (i2n s) new_pos) old_pos in
  let a := get (i2n s) old_pos in let b := get (i2n s) new_pos in
  let i2n' := set (set (i2n s) old_pos b) new_pos a in
  {| lam := lam s; iptr := iptr s; icnt := icnt s; i2n := i2n'; n2i := n2i2; spl := spl s |}.

Definition incr_lambda (n : Z) (s : st) (k : Z) : st :=
  if negb (get (spl s) k =? U_NODE) then s else
  if get (lam s) k >=? n - 1 then s else
  let lk := get (lam s) k in
  let old_pos := get (n2i s) k in
  let new_pos := get (iptr s) lk + get (icnt s) lk - 1 in
  let s1 := swap_pos s old_pos new_pos in
  let c1 := set (icnt s1) lk (get (icnt s1) lk - 1) in
  let c2 := set c1 (lk + 1) (get c1 (lk + 1) + 1) in
  {| lam := set (lam s1) k (lk + 1); iptr := set (iptr s1) (lk + 1) new_pos; icnt := c2;
     i2n := i2n s1; n2i := n2i s1; spl := spl s1 |}.

Definition decr_lambda (s : st) (j : Z) : st :=
  if negb (get (spl s) j =? U_NODE) then s else
  if get (lam s) j =? 0 then s else
  let lj := get (lam s) j in
  let old_pos := get (n2i s) j in
  let new_pos := get (iptr s) lj in
  let s1 := swap_pos s old_pos new_pos in
  let c1 := set (icnt s1) lj (get (icnt s1) lj - 1) in
  let c2 := set c1 (lj - 1) (get c1 (lj - 1) + 1) in
  let p1 := set (iptr s1) lj (get (iptr s1) lj + 1) in
  let p2 := set p1 (lj - 1) (get p1 lj - get c2 (lj - 1)) in
  {| lam := set (lam s1) j (lj - 1); iptr := p2; icnt := c2; i2n := i2n s1; n2i := n2i s1; spl := spl s1 |}.

Definition with_spl (s : st) (v : list Z) : st :=
  {| lam := lam s; iptr := iptr s; icnt := icnt s; i2n := i2n s; n2i := n2i s; spl := v |}.

Section RS.
Variables (n : Z) (Sp Sj Tp Tj infl : list Z).
Definition row (P J : list Z) (i : Z) : list Z := map (get J) (zr (get P i) (get P (i + 1))).

Definition make_C (s : st) (i : Z) : st :=
  let s1 := with_spl s (set (spl s) i C_NODE) in
  (* tentative F points *)
  let s2 := fold_left (fun s j => if get (spl s) j =? U_NODE then with_spl s (set (spl s) j PRE_F_NODE) else s) (row Tp Tj i) s1 in
  let s3 := fold_left (fun s j =>
              if get (spl s) j =? PRE_F_NODE then
                let s' := with_spl s (set (spl s) j F_NODE) in
                fold_left (incr_lambda n) (row Sp Sj j) s'
              else s) (row Tp Tj i) s2 in
  fold_left decr_lambda (row Sp Sj i) s3.

(* main loop, top_index = n-1 downto 0 with `break` *)
Fixpoint main (tops : list Z) (s : st) : st :=
  match tops with
  | [] => s
  | top :: rest =>
    let i := get (i2n s) top in
    let li := get (lam s) i in
    let s1 := {| lam := lam s; iptr := iptr s; icnt := set (icnt s) li (get (icnt s) li - 1);
                 i2n := i2n s; n2i := n2i s; spl := spl s |} in
    if get (lam s1) i <=? 0 then s1
    else if get (spl s1) i =? U_NODE then main rest (make_C s1 i) else main rest s1
  end.

Definition init : st :=
  let nodes := zr 0 n in
  let lambda := map (fun i => get Tp (i + 1) - get Tp i + get infl i) nodes in
  let lmax0 := fold_left Z.max lambda 0 in
  let lmax := Z.max (2 * lmax0) (n + 1) in
  let zeros := map (fun _ => 0) (zr 0 lmax) in
  let cnt := fold_left (fun c i => set c (get lambda i) (get c (get lambda i) + 1)) nodes zeros in
  let '(ptr, _) := fold_left (fun '(p, cum) l => (set p l cum, cum + get cnt l)) (zr 0 lmax) (zeros, 0) in
  let zn := map (fun _ => 0) nodes in
  let '(c2, i2n0, n2i0) := fold_left (fun '(c, a, b) i =>
        let l := get lambda i in let idx := get ptr l + get c l in
        (set c l (get c l + 1), set a idx i, set b i idx)) nodes (zeros, zn, zn) in
  let spl0 := map (fun i => if (get lambda i =? 0) || ((get lambda i =? 1) && (get Tp i <? get Tp (i + 1)) && (get Tj (get Tp i) =? i)) then F_NODE else U_NODE) nodes in
  {| lam := lambda; iptr := ptr; icnt := c2; i2n := i2n0; n2i := n2i0; spl := spl0 |}.

Definition rs_cf_splitting : list Z :=
  let s := main (rev (zr 0 n)) init in
  map (fun v => if v =? U_NODE then F_NODE else v) (spl s).
End RS.

(* ---- rs_cf_splitting_pass2 ---- *)
Section Pass2.
Variables (n : Z) (Sp Sj : list Z).
Definition srow (i : Z) : list Z := map (get Sj) (zr (get Sp i) (get Sp (i + 1))).
(* do row and j share a strong C connection?  (S_j /\ S_row /\ C nonempty) *)
Definition common_C (spl : list Z) (row j : Z) : bool :=
  existsb (fun ri => (get spl ri =? C_NODE) && existsb (Z.eqb ri) (srow j)) (srow row).
Definition rs_pass2 (spl : list Z) : list Z :=
  fold_left (fun spl row =>
      if negb (get spl row =? F_NODE) then spl
      else fst (fold_left (fun (s : list Z * Z) j =>
                 let '(spl, cpt0) := s in
                 if negb (get spl j =? F_NODE) then s
                 else if common_C spl row j then s
                 else if cpt0 <? 0 then (set spl j C_NODE, j)
                 else (set (set spl cpt0 F_NODE) j C_NODE, j))
               (srow row) (spl, -1)))
    (zr 0 n) spl.
End Pass2.

(* ---- cljp_naive_splitting, generic in the weight arithmetic ---- *)
Record Wc (W : Type) := { cgt : W -> W -> bool; clt1 : W -> bool; cinc : W -> W; cdec : W -> W; cw0 : W }.
Arguments cgt {W}. Arguments clt1 {W}. Arguments cinc {W}. Arguments cdec {W}. Arguments cw0 {W}.
(* integers scaled by [den]: w represents w/den *)
Definition WcZ (den : Z) : Wc Z :=
  {| cgt := fun a b => b <? a; clt1 := fun a => a <? den; cinc := fun a => a + den; cdec := fun a => a - den; cw0 := 0 |}.
Definition WcF : Wc float :=
  {| cgt := fun a b => PrimFloat.ltb b a; clt1 := fun a => PrimFloat.ltb a 1%float;
     cinc := fun a => PrimFloat.add a 1%float; cdec := fun a => PrimFloat.sub a 1%float; cw0 := 0%float |}.

Section CLJP.
Context {W : Type} (wc : Wc W).
Variables (n : Z) (Sp Sj Tp Tj : list Z).
Definition gw (w : list W) (i : Z) : W := nth (Z.to_nat i) w (cw0 wc).
Definition sw (w : list W) (i : Z) (v : W) : list W := set w i v.
Record cst := { cspl : list Z; cwgt : list W; cemark : list Z; ccache : list Z; cunas : Z }.

(* INITIALIZE WEIGHTS: weight[j]++ for every stored (i,j), i <> j *)
Definition init_weights (w0 : list W) : list W :=
  fold_left (fun w i => fold_left (fun w jj => let j := get Sj jj in if i =? j then w else sw w j (cinc wc (gw w j)))
                                  (zr (get Sp i) (get Sp (i + 1))) w) (zr 0 n) w0.

Definition select (s : cst) : list Z * Z :=     (* Dlist and the new unassigned count *)
  fold_left (fun (acc : list Z * Z) i =>
      if negb (get (cspl s) i =? U_NODE) then acc
      else
        let bigger j := (get (cspl s) j =? U_NODE) && cgt wc (gw (cwgt s) j) (gw (cwgt s) i) in
        if existsb bigger (map (get Sj) (zr (get Sp i) (get Sp (i + 1)))) then acc
        else if existsb bigger (map (get Tj) (zr (get Tp i) (get Tp (i + 1)))) then acc
        else (fst acc ++ [i], snd acc - 1))
    (zr 0 n) ([], cunas s).

Definition p5 (s : cst) (dl : list Z) : cst :=
  fold_left (fun s c =>
    fold_left (fun s jj =>
        let j := get Sj jj in
        if (get (cspl s) j =? U_NODE) && negb (get (cemark s) jj =? 0) then
          let w' := cdec wc (gw (cwgt s) j) in
          let f := clt1 wc w' in
          {| cspl := if f then set (cspl s) j F_NODE else cspl s; cwgt := sw (cwgt s) j w';
             cemark := set (cemark s) jj 0; ccache := ccache s; cunas := if f then cunas s - 1 else cunas s |}
        else s)
      (zr (get Sp c) (get Sp (c + 1))) s) dl s.

Definition p6 (s : cst) (dl : list Z) : cst :=
  fold_left (fun s c =>
    let tcols := map (get Tj) (zr (get Tp c) (get Tp (c + 1))) in
    let s1 := fold_left (fun s j => if get (cspl s) j =? U_NODE then
                 {| cspl := cspl s; cwgt := cwgt s; cemark := cemark s; ccache := set (ccache s) j c; cunas := cunas s |} else s)
               tcols s in
    fold_left (fun s j =>
      fold_left (fun s kk =>
          let k := get Sj kk in
          if (get (cspl s) k =? U_NODE) && negb (get (cemark s) kk =? 0) && (get (ccache s) k =? c) then
            let w' := cdec wc (gw (cwgt s) k) in
            let f := clt1 wc w' in
            {| cspl := if f then set (cspl s) k F_NODE else cspl s; cwgt := sw (cwgt s) k w';
               cemark := set (cemark s) kk 0; ccache := ccache s; cunas := if f then cunas s - 1 else cunas s |}
          else s)
        (zr (get Sp j) (get Sp (j + 1))) s) tcols s1) dl s.

Fixpoint cljp_loop (fuel : nat) (s : cst) : option cst :=
  match fuel with
  | O => None
  | S k =>
    if negb (0 <? cunas s) then Some s
    else
      let '(dl, un) := select s in
      let s1 := {| cspl := fold_left (fun sp i => set sp i C_NODE) dl (cspl s); cwgt := cwgt s; cemark := cemark s;
                   ccache := ccache s; cunas := un |} in
      cljp_loop k (p6 (p5 s1 dl) dl)
  end.

(* w0: the initial weights (rand()/RAND_MAX or colour/ncolors), supplied by the caller *)
Definition cljp (w0 : list W) : option (list Z) :=
  let s0 := {| cspl := fillz n U_NODE; cwgt := init_weights w0; cemark := fillz (get Sp n) 1;
               ccache := fillz n (-1); cunas := n |} in
  match cljp_loop (S (S (Z.to_nat n))) s0 with
  | None => None
  | Some s => Some (map (fun v => if v =? U_NODE then F_NODE else v) (cspl s))
  end.
End CLJP.
