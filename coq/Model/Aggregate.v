(* Models of the aggregation kernels (pyamg/amg_core/smoothed_aggregation.h):
   standard_aggregation, naive_aggregation, pairwise_aggregation (C12). *)
From Coq Require Import ZArith List Bool.
Import ListNotations.
Require Import PV.Model.GraphAlg.
Open Scope Z_scope.

Section Agg.
Variables (n : Z) (Ap Aj : list Z).

(* ---- standard_aggregation: returns (x, y, number of aggregates) ---- *)
Definition std_pass1 (y0 : list Z) : list Z * list Z * Z :=
  fold_left (fun (s : list Z * list Z * Z) i =>
      let '(x, y, next) := s in
      if negb (get x i =? 0) then s
      else
        let row := nbrs Ap Aj i in
        let has_nb := existsb (fun j => negb (i =? j)) row in
        (* the scan breaks at the first aggregated neighbour; only the two flags survive *)
        let has_agg := existsb (fun j => negb (i =? j) && negb (get x j =? 0)) row in
        if negb has_nb then (set x i (- n), y, next)
        else if negb has_agg then
          (fold_left (fun x j => set x j next) row (set x i next), set y (next - 1) i, next + 1)
        else s)
    (zr 0 n) (fillz n 0, y0, 1).

Definition std_pass2 (x : list Z) : list Z :=
  fold_left (fun x i =>
      if negb (get x i =? 0) then x
      else match find (fun j => 0 <? get x j) (nbrs Ap Aj i) with
           | Some j => set x i (- get x j)
           | None => x
           end)
    (zr 0 n) x.

Definition std_pass3 (s : list Z * list Z * Z) : list Z * list Z * Z :=
  fold_left (fun (s : list Z * list Z * Z) i =>
      let '(x, y, next) := s in
      let xi := get x i in
      if negb (xi =? 0) then
        (set x i (if 0 <? xi then xi - 1 else if xi =? - n then -1 else - xi - 1), y, next)
      else
        (fold_left (fun x j => if get x j =? 0 then set x j next else x) (nbrs Ap Aj i) (set x i next),
         set y next i, next + 1))
    (zr 0 n) s.

Definition standard_aggregation (y0 : list Z) : list Z * list Z * Z :=
  let '(x1, y1, next1) := std_pass1 y0 in
  std_pass3 (std_pass2 x1, y1, next1 - 1).

(* ---- naive_aggregation ---- *)
Definition naive_aggregation (y0 : list Z) : list Z * list Z * Z :=
  let '(x, y, next) :=
    fold_left (fun (s : list Z * list Z * Z) i =>
        let '(x, y, next) := s in
        if negb (get x i =? 0) then s
        else (fold_left (fun x j => if get x j =? 0 then set x j next else x) (nbrs Ap Aj i) (set x i next),
              set y (next - 1) i, next + 1))
      (zr 0 n) (fillz n 0, y0, 1) in
  (x, y, next - 1).

(* ---- pairwise_aggregation: std::multimap<key,node> as a list ordered by key, insertion
        order among equal keys (insert = after the last entry with key <= k) ---- *)
Definition mm := list (Z * Z).
Fixpoint mm_insert (m : mm) (k v : Z) : mm :=
  match m with
  | [] => [(k, v)]
  | (k', v') :: t => if k' <=? k then (k', v') :: mm_insert t k v else (k, v) :: m
  end.
Definition mm_erase (m : mm) (v : Z) : mm := filter (fun p => negb (snd p =? v)) m.
Definition mm_key (m : mm) (v : Z) : Z :=
  match find (fun p => snd p =? v) m with Some p => fst p | None => 0 end.
(* for every unaggregated neighbour: reinsert with key-1 (new entry goes after equal keys) *)
Definition mm_decr_row (x : list Z) (m : mm) (row : list Z) : mm :=
  fold_left (fun m j => if get x j =? 0 then mm_insert (mm_erase m j) (mm_key m j - 1) j else m) row m.

Fixpoint pw_loop (fuel : nat) (Sx : list Z) (x y : list Z) (m : mm) (next : Z) : option (list Z * list Z * Z) :=
  match fuel with
  | O => None
  | S k =>
    match m with
    | [] => Some (x, y, next - 1)
    | (_, i) :: _ =>
      let idx := zr (get Ap i) (get Ap (i + 1)) in
      let x1 := set x i next in
      (* strongest unaggregated neighbour, last maximum wins (>=) *)
      let best := fold_left (fun (b : option (Z * Z)) jj =>
            let j := get Aj jj in
            if (get x1 j =? 0) && (match b with None => true | Some (mv, _) => mv <=? get Sx jj end)
            then Some (get Sx jj, j) else b) idx None in
      let x2 := match best with Some (_, j) => set x1 j next | None => x1 end in
      let y' := set y (next - 1) i in
      let m1 := mm_erase (mm_decr_row x2 m (map (get Aj) idx)) i in
      let m2 := match best with
                | Some (_, j) => mm_erase (mm_decr_row x2 m1 (nbrs Ap Aj j)) j
                | None => m1 end in
      pw_loop k Sx x2 y' m2 (next + 1)
    end
  end.
Definition pairwise_aggregation (Sx : list Z) (y0 : list Z) : option (list Z * list Z * Z) :=
  let deg := fold_left (fun d i => fold_left (fun d j => if j =? i then d else set d j (get d j + 1)) (nbrs Ap Aj i) d)
                       (zr 0 n) (fillz n 0) in
  let m0 := fold_left (fun m i => mm_insert m (get deg i) i) (zr 0 n) [] in
  pw_loop (S (Z.to_nat n)) Sx (fillz n 0) y0 m0 1.
End Agg.

(* the Python driver pairwise_aggregation multiplies the 0/1 matrices of successive matchings (T = T @ T_temp, one entry per row):
   the product is the composition of the id maps (ids 1-based as the kernel leaves them) *)
Definition compose (x1 x2 : list Z) : list Z := map (fun a => get x2 (a - 1)) x1.
