(* C17: checked twin of the Gauss-Seidel kernel model: every array access goes through
   bounds-checked get/set and the result is None as soon as one access falls outside its array.
   Proofs/RelaxChkProofs.v shows  gauss_seidel_chk = Some gauss_seidel  for every structurally
   valid CSR matrix and every admissible sweep range. *)
From Coq Require Import ZArith List Bool.
Import ListNotations.
Require Import PV.Base.Ops PV.Model.Relax.
Open Scope Z_scope.

Section Chk.
Context {F : Type} (o : Ops F).
Definition bind {A B} (x : option A) (f : A -> option B) : option B := match x with Some a => f a | None => None end.
Notation "x <- e ;; k" := (bind e (fun x => k)) (at level 60, e at next level, right associativity).

Fixpoint row_chk (Aj : list Z) (Ax x : list F) (i : Z) (jj cnt : nat) (rsum diag : F) : option (F * F) :=
  match cnt with
  | O => Some (rsum, diag)
  | S c =>
    j <- nth_error Aj jj ;;
    a <- nth_error Ax jj ;;
    if (i =? j)%Z then row_chk Aj Ax x i (S jj) c rsum a
    else xj <- getZ x j ;; row_chk Aj Ax x i (S jj) c (add o rsum (mul o a xj)) diag
  end.

Definition gs_row_chk (Ap Aj : list Z) (Ax b x : list F) (i : Z) : option (list F) :=
  s <- getZ Ap i ;;
  e <- getZ Ap (i + 1) ;;
  if (s <? 0)%Z then None else
  rd <- row_chk Aj Ax x i (Z.to_nat s) (Z.to_nat (e - s)) (zero o) (zero o) ;;
  let '(rsum, diag) := rd in
  if isz o diag then Some x
  else bi <- getZ b i ;; setZ x i (div o (sub o bi rsum) diag).

Definition gauss_seidel_chk Ap Aj Ax x b (start stop step : Z) : option (list F) :=
  fold_left (fun ox i => x <- ox ;; gs_row_chk Ap Aj Ax b x i) (loop_idx start stop step) (Some x).

(* sor_gauss_seidel: additionally reads x[i] *)
Definition sor_row_chk (omega : F) (Ap Aj : list Z) (Ax b x : list F) (i : Z) : option (list F) :=
  s <- getZ Ap i ;;
  e <- getZ Ap (i + 1) ;;
  if (s <? 0)%Z then None else
  rd <- row_chk Aj Ax x i (Z.to_nat s) (Z.to_nat (e - s)) (zero o) (zero o) ;;
  let '(rsum, diag) := rd in
  if isz o diag then Some x
  else bi <- getZ b i ;; xi <- getZ x i ;;
       setZ x i (add o (mul o omega (div o (sub o bi rsum) diag)) (mul o (sub o (one o) omega) xi)).
Definition sor_gauss_seidel_chk Ap Aj Ax x b (start stop step : Z) (omega : F) : option (list F) :=
  fold_left (fun ox i => x <- ox ;; sor_row_chk omega Ap Aj Ax b x i) (loop_idx start stop step) (Some x).

(* jacobi: temp[i] = x[i] on the swept rows, then every swept row from temp *)
Definition jac_row_chk (omega : F) (Ap Aj : list Z) (Ax b temp x : list F) (i : Z) : option (list F) :=
  s <- getZ Ap i ;;
  e <- getZ Ap (i + 1) ;;
  if (s <? 0)%Z then None else
  rd <- row_chk Aj Ax temp i (Z.to_nat s) (Z.to_nat (e - s)) (zero o) (zero o) ;;
  let '(rsum, diag) := rd in
  if isz o diag then Some x
  else bi <- getZ b i ;; ti <- getZ temp i ;;
       setZ x i (add o (mul o (sub o (one o) omega) ti) (mul o omega (div o (sub o bi rsum) diag))).
Definition copy_rows_chk (x temp : list F) (rows : list Z) : option (list F) :=
  fold_left (fun ot i => t <- ot ;; xi <- getZ x i ;; setZ t i xi) rows (Some temp).
Definition jacobi_chk Ap Aj Ax x b temp (start stop step : Z) (omega : F) : option (list F) :=
  let rows := loop_idx start stop step in
  temp' <- copy_rows_chk x temp rows ;;
  fold_left (fun ox i => x <- ox ;; jac_row_chk omega Ap Aj Ax b temp' x i) rows (Some x).
(* gauss_seidel_indexed: the swept rows are Id[start], Id[start+step], ... ; jacobi_indexed: temp is a full copy of x, the
   swept rows are the entries of the index array *)
Definition gauss_seidel_indexed_chk Ap Aj Ax x b (Id : list Z) (start stop step : Z) : option (list F) :=
  fold_left (fun ox ii => x <- ox ;; i <- getZ Id ii ;; gs_row_chk Ap Aj Ax b x i) (loop_idx start stop step) (Some x).
Definition jacobi_indexed_chk Ap Aj Ax x b (indices : list Z) (omega : F) : option (list F) :=
  fold_left (fun ox i => x' <- ox ;; jac_row_chk omega Ap Aj Ax b x x' i) indices (Some x).
End Chk.
