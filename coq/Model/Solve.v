From Coq Require Import List Arith Lia Bool.
Import ListNotations.

(* The stand-alone iteration of MultilevelSolver.solve (pyamg/multilevel.py) as a
   fuelled state machine over an abstract iterate type.  [cyc] is one multigrid
   cycle (or, for a one-level hierarchy, the coarse solve), [rn] the recomputed
   residual norm, [thr] = tol * normb and [ltb] the comparison the code makes. *)
Section Solve.
Variables (V F : Type).
Variable ltb : F -> F -> bool.          (* the code's  normr < tol*normb  *)
Variable cyc : V -> V.                  (* one multigrid cycle (or 1-level coarse solve) *)
Variable rn  : V -> F.                  (* ||b - A x|| as the code computes it *)
Variable thr : F.                       (* tol * normb *)
Variable maxiter : nat.

Record result := { rx : V; rstatus : nat; rres : list F; rcb : list V }.

(* mirrors the `while True:` body of MultilevelSolver.solve; fuel makes it total *)
Fixpoint loop (fuel it : nat) (x : V) (res : list F) (cb : list V) : option result :=
  match fuel with
  | O => None
  | S f =>
    let x' := cyc x in
    let it' := S it in
    let r := rn x' in
    let res' := res ++ [r] in
    let cb' := cb ++ [x'] in
    if ltb r thr then Some {| rx := x'; rstatus := 0; rres := res'; rcb := cb' |}
    else if Nat.eqb it' maxiter then Some {| rx := x'; rstatus := it'; rres := res'; rcb := cb' |}
    else loop f it' x' res' cb'
  end.

Definition solve (x0 : V) : option result := loop maxiter 0 x0 [rn x0] [].
End Solve.
Arguments rx {V F}. Arguments rstatus {V F}. Arguments rres {V F}. Arguments rcb {V F}.
