From Coq Require Import ZArith List Bool PrimFloat QArith.
Import ListNotations.
Require Import PV.Base.Ops PV.Model.Interp.
Open Scope Z_scope.

Definition flat {F} (rows : list (list (Z * F))) : list Z * list F := (map fst (concat rows), map snd (concat rows)).
Definition eps15F : float := 0x1.203af9ee75616p-50%float.     (* the double nearest to 1e-15 *)
(* kind 0: direct ; 1: classical (not modified) ; 2: classical modified ; 3: remove_strong_FF (returns Sx) ;
   4: one_point_interpolation (strength matrix in the S slot)
   case: (kind, n, (Ap,Aj,Ax), (Sp,Sj,Sx), splitting, (Pp, Pj, Px)) *)
Definition caseT := (nat * Z * (list Z * list Z * list float) * (list Z * list Z * list float) * list Z *
                     (list Z * list Z * list float))%type.
Definition chk (c : caseT) : bool :=
  let '(kind, n, (Ap, Aj, Ax), (Sp, Sj, Sx), spl, (Pp, Pj, Px)) := c in
  match kind with
  | 3%nat => list_eqb PrimFloat.eqb (remove_strong_FF opsF n Sp Sj Sx spl) Px
  | 4%nat => let '(pj, px) := flat (one_point_rows opsF n Sp Sj Sx spl) in
             list_eqb Z.eqb (one_point_ptr opsF n Sp Sj Sx spl) Pp && list_eqb Z.eqb pj Pj && list_eqb PrimFloat.eqb px Px
  | _ =>
    let rows := match kind with
                | 0%nat => direct_rows opsF n Ap Aj Ax Sp Sj Sx spl
                | 1%nat => classical_rows opsF n Ap Aj Ax Sp Sj Sx spl eps15F false
                | _ => classical_rows opsF n Ap Aj Ax Sp Sj Sx spl eps15F true
                end in
    let '(pj, px) := flat rows in
    list_eqb Z.eqb (interp_pass1 n Sp Sj spl) Pp && list_eqb Z.eqb pj Pj && list_eqb PrimFloat.eqb px Px
  end.
