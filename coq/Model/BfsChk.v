(* C17: checked twin of breadth_first_search (Model/GraphAlg.v): every access to Ap, Aj, order[0..n) and
   level[0..n) is bounds-checked; None at the first access outside an array. *)
From Coq Require Import ZArith List Bool.
Import ListNotations.
Require Import PV.Model.GraphAlg PV.Model.SplitChk.
Open Scope Z_scope.

Section B.
Variables (n : Z) (Ap Aj : list Z).
Definition bfs_visit_chk (st : list Z * list Z * Z) (cur i : Z) : option (list Z * list Z * Z) :=
  row <- row_chk Ap Aj i ;;
  ofold (fun (st : list Z * list Z * Z) j =>
      let '(order, level, N) := st in
      lj <- cget level j ;;
      if lj =? -1 then
        o' <- cset order N j ;;
        l' <- cset level j cur ;;
        Some (o', l', N + 1)
      else Some st) row st.
Fixpoint bfs_loop_chk (fuel : nat) (st : list Z * list Z * Z) (lb le cur : Z) : option (list Z * list Z * Z) :=
  match fuel with
  | O => None
  | S k =>
    if negb (lb <? le) then Some st
    else
      st' <- ofold (fun (st : list Z * list Z * Z) ii => i <- cget (fst (fst st)) ii ;; bfs_visit_chk st cur i) (zr lb le) st ;;
      bfs_loop_chk k st' le (snd st') (cur + 1)
  end.
Definition bfs_chk (seed : Z) (order0 : list Z) : option (list Z * list Z * Z) :=
  o <- cset order0 0 seed ;;
  l <- cset (fillz n (-1)) seed 0 ;;
  bfs_loop_chk (S (S (Z.to_nat n))) (o, l, 1) 0 1 1.
End B.
