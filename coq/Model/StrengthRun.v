(* Boolean checkers used by the harness-generated case files of C14: model output
   == implementation output, at the PrimFloat (bit-exact) and Q (exact) instances. *)
From Coq Require Import ZArith List Bool QArith PrimFloat.
Import ListNotations.
Require Import PV.Base.Ops PV.Model.Strength.

Definition out3 (F : Type) := (list Z * list Z * list F)%type.
Definition out3_eqb {F} (e : F -> F -> bool) (a b : out3 F) : bool :=
  let '(p1, j1, x1) := a in let '(p2, j2, x2) := b in
  list_eqb Z.eqb p1 p2 && list_eqb Z.eqb j1 j2 && list_eqb e x1 x2.

Definition tinyF : float := 0x1p-1022%float.
Definition tinyQ : Q := Qmake 1 (Pos.pow 2 1022).

(* kind: 0 abs kernel, 1 min kernel, 2 symmetric kernel,
         3 classical(abs) pipeline, 4 classical(min) pipeline, 5 symmetric pipeline *)
Definition model {F} (o : Ops F) (tiny : F) (kind : nat) (n : Z) (theta : F)
           (Ap Aj : list Z) (Ax : list F) : out3 F :=
  match kind with
  | 0%nat => k_classical_abs o tiny theta n Ap Aj Ax
  | 1%nat => k_classical_min o theta n Ap Aj Ax
  | 2%nat => k_symmetric o theta n Ap Aj Ax
  | 3%nat => flatten_rows (classical_abs o tiny theta (csr_rows o n Ap Aj Ax))
  | 4%nat => flatten_rows (classical_min o tiny theta (csr_rows o n Ap Aj Ax))
  | _ => flatten_rows (symmetric o tiny theta (csr_rows o n Ap Aj Ax))
  end.

Definition caseT (F : Type) := (nat * Z * F * (list Z * list Z * list F) * out3 F)%type.
Definition chk {F} (o : Ops F) (tiny : F) (e : F -> F -> bool) (c : caseT F) : bool :=
  let '(kind, n, theta, (Ap, Aj, Ax), expected) := c in
  out3_eqb e (model o tiny kind n theta Ap Aj Ax) expected.
Definition chkF := chk opsF tinyF PrimFloat.eqb.
Definition chkQ := chk opsQ tinyQ Qeq_bool.
