(* C09 run-side dispatcher: one generic case format for all relaxation kernels. *)
From Coq Require Import ZArith List Bool QArith PrimFloat.
Import ListNotations.
Require Import PV.Base.Ops PV.Model.Relax.
Open Scope Z_scope.

Section Run.
Context {F : Type} (o : Ops F).
Definition zn (l : list Z) (k : nat) : Z := nth k l 0%Z.
Definition fnn (l : list F) (k : nat) : F := nth k l (zero o).
Definition zln (l : list (list Z)) (k : nat) : list Z := nth k l [].
Definition fln (l : list (list F)) (k : nat) : list F := nth k l [].
Definition idc (a : F) : F := a.      (* real scalars: conj = id *)

(* zls = [Ap; Aj; (indices)] ; fls = [Ax; x; b; (extra...)] ; zs = scalars ; fs = scalars *)
Definition run_kernel (kind : nat) (zs : list Z) (fs : list F) (zls : list (list Z)) (fls : list (list F)) : list F :=
  let Ap := zln zls 0 in let Aj := zln zls 1 in
  let Ax := fln fls 0 in let x := fln fls 1 in let b := fln fls 2 in
  match kind with
  | 0%nat => gauss_seidel o Ap Aj Ax x b (zn zs 0) (zn zs 1) (zn zs 2)
  | 1%nat => sor_gauss_seidel o Ap Aj Ax x b (zn zs 0) (zn zs 1) (zn zs 2) (fnn fs 0)
  | 2%nat => bsr_gauss_seidel o Ap Aj Ax x b (zn zs 0) (zn zs 1) (zn zs 2) (zn zs 3)
  | 3%nat => jacobi o Ap Aj Ax x b (fln fls 3) (zn zs 0) (zn zs 1) (zn zs 2) (fnn fs 0)
  | 4%nat => bsr_jacobi o Ap Aj Ax x b (fln fls 3) (zn zs 0) (zn zs 1) (zn zs 2) (zn zs 3) (fnn fs 0)
  | 5%nat => jacobi_indexed o Ap Aj Ax x b (zln zls 2) (fnn fs 0)
  | 6%nat => bsr_jacobi_indexed o Ap Aj Ax x b (zln zls 2) (zn zs 0) (fnn fs 0)
  | 7%nat => gauss_seidel_indexed o Ap Aj Ax x b (zln zls 2) (zn zs 0) (zn zs 1) (zn zs 2)
  | 8%nat => jacobi_ne o idc Ap Aj Ax x (fln fls 3) (fln fls 4) (zn zs 0) (zn zs 1) (zn zs 2) (fnn fs 0)
  | 9%nat => gauss_seidel_ne o idc Ap Aj Ax x b (zn zs 0) (zn zs 1) (zn zs 2) (fln fls 3) (fnn fs 0)
  | 10%nat => let '(x', r') := gauss_seidel_nr o idc Ap Aj Ax x b (zn zs 0) (zn zs 1) (zn zs 2) (fln fls 3) (fnn fs 0) in x' ++ r'
  | 11%nat => block_jacobi o Ap Aj Ax x b (fln fls 3) (fln fls 4) (zn zs 0) (zn zs 1) (zn zs 2) (fnn fs 0) (zn zs 3)
  | 12%nat => block_jacobi_indexed o Ap Aj Ax x b (fln fls 3) (zln zls 2) (fnn fs 0) (zn zs 0)
  | 13%nat => block_gauss_seidel o Ap Aj Ax x b (fln fls 3) (zn zs 0) (zn zs 1) (zn zs 2) (zn zs 3)
  (* Python driver gauss_seidel(A,x,b,iterations,sweep,omega) on CSR, as written (omega dropped in
     the symmetric recursion iff zs[3] = 0): zs = [N; iterations; sweep(0 fwd,1 bwd,2 sym); pass_omega] *)
  | 14%nat => drv_gauss_seidel_csr o (negb (zn zs 3 =? 0)) Ap Aj Ax b (zn zs 0) (Z.to_nat (zn zs 1))
                 (match zn zs 2 with 0 => Forward | 1 => Backward | _ => Symmetric end) (fnn fs 0) x
  | _ => []
  end.
End Run.

Definition caseT (F : Type) := (nat * list Z * list F * list (list Z) * list (list F) * list F)%type.
Definition chk {F} (o : Ops F) (e : F -> F -> bool) (c : caseT F) : bool :=
  let '(kind, zs, fs, zls, fls, expected) := c in
  list_eqb e (run_kernel o kind zs fs zls fls) expected.
Definition chkF := chk opsF PrimFloat.eqb.
Definition chkQ := chk opsQ Qeq_bool.
