(* Models of the graph kernels of pyamg/amg_core/graph.h (C18, shared by C12/C13).
   Arrays are [list Z]; the loops follow the C++ statement order, `break` is an
   early return of the scan, `while` loops take fuel and return None when it
   runs out (the theorems state the fuel that always suffices). *)
From Coq Require Import ZArith List Bool.
Import ListNotations.
Open Scope Z_scope.

Definition get (l : list Z) (i : Z) : Z := nth (Z.to_nat i) l 0.
Fixpoint setn {A} (l : list A) (i : nat) (v : A) : list A :=
  match l, i with [], _ => [] | _ :: t, O => v :: t | h :: t, S k => h :: setn t k v end.
Definition set {A} (l : list A) (i : Z) (v : A) : list A := if i <? 0 then l else setn l (Z.to_nat i) v.
Definition zr (a b : Z) : list Z := map (fun k => a + Z.of_nat k) (seq 0 (Z.to_nat (b - a))).
Definition fillz (n v : Z) : list Z := map (fun _ => v) (zr 0 n).

(* weights of the randomised algorithms: any type with <, = and "+ small integer" *)
Record Wt (W : Type) := { wlt : W -> W -> bool; weq : W -> W -> bool; wplus : W -> Z -> W; w0 : W }.
Arguments wlt {W}. Arguments weq {W}. Arguments wplus {W}. Arguments w0 {W}.
Definition WtZ : Wt Z := {| wlt := Z.ltb; weq := Z.eqb; wplus := Z.add; w0 := 0 |}.

Section G.
Variables (n : Z) (Ap Aj : list Z).
Definition nbrs (i : Z) : list Z := map (get Aj) (zr (get Ap i) (get Ap (i + 1))).

(* ---- maximal_independent_set_serial ---- *)
Definition mark_active (active f : Z) (x : list Z) (js : list Z) : list Z :=
  fold_left (fun x j => if get x j =? active then set x j f else x) js x.
Definition mis_serial (active c f : Z) (x : list Z) : list Z * Z :=
  fold_left (fun (s : list Z * Z) i =>
      let '(x, N) := s in
      if negb (get x i =? active) then (x, N)
      else (mark_active active f (set x i c) (nbrs i), N + 1))
    (zr 0 n) (x, 0).

(* ---- maximal_independent_set_parallel ---- *)
Section Par.
Context {W : Type} (wt : Wt W).
Definition getw (y : list W) (i : Z) : W := nth (Z.to_nat i) y (w0 wt).
Inductive scan := ScanEnd | BreakC | BreakW.
Fixpoint scan_row (active c : Z) (x : list Z) (y : list W) (i : Z) (yi : W) (js : list Z) : scan :=
  match js with
  | [] => ScanEnd
  | j :: t =>
    let xj := get x j in
    if xj =? c then BreakC
    else if xj =? active then
      let yj := getw y j in
      if wlt wt yi yj then BreakW
      else if weq wt yj yi && (j >? i) then BreakW
      else scan_row active c x y i yi t
    else scan_row active c x y i yi t
  end.
(* one pass over all rows: (x, N, active_nodes) *)
Definition par_sweep (active c f : Z) (y : list W) (s : list Z * Z) : list Z * Z * bool :=
  fold_left (fun (s : list Z * Z * bool) i =>
      let '(x, N, act) := s in
      if negb (get x i =? active) then s
      else match scan_row active c x y i (getw y i) (nbrs i) with
           | ScanEnd => (set (mark_active active f x (nbrs i)) i c, N + 1, act)
           | BreakC => (set x i f, N, true)
           | BreakW => (x, N, true)
           end)
    (zr 0 n) (fst s, snd s, false).
Fixpoint par_loop (fuel : nat) (active c f : Z) (y : list W) (max_iters iters : Z) (s : list Z * Z)
  : option (list Z * Z) :=
  match fuel with
  | O => None
  | S k =>
    if negb (max_iters =? -1) && (max_iters <=? iters) then Some s
    else let '(x, N, act) := par_sweep active c f y s in
         if act then par_loop k active c f y max_iters (iters + 1) (x, N) else Some (x, N)
  end.
Definition mis_parallel (active c f : Z) (x : list Z) (y : list W) (max_iters : Z) : option (list Z * Z) :=
  (* the while condition is tested before the first pass as well *)
  par_loop (S (S (Z.to_nat n))) active c f y max_iters 0 (x, 0).

(* ---- vertex_coloring_first_fit ---- *)
Definition first_fit (x : list Z) (K : Z) : list Z :=
  fold_left (fun x i =>
      if negb (get x i =? K) then x
      else let used := map (get x) (filter (fun j => negb (j =? i) && (0 <=? get x j)) (nbrs i)) in
           let free := filter (fun col => negb (existsb (Z.eqb col) used)) (zr 0 K) in
           set x i (hd K free))
    (zr 0 n) x.
Definition unmark (x : list Z) : list Z := map (fun v => if v =? -2 then -1 else v) x.
Definition maxl (x : list Z) : Z := fold_left Z.max (tl x) (hd 0 x).

(* ---- vertex_coloring_jones_plassmann ---- *)
Fixpoint jp_loop (fuel : nat) (z : list W) (x : list Z) (N K : Z) : option (list Z) :=
  match fuel with
  | O => None
  | S k =>
    if negb (N <? n) then Some x
    else match par_loop 3 (-1) K (-2) z 1 0 (x, 0) with
         | None => None
         | Some (x1, dN) => jp_loop k z (first_fit (unmark x1) K) (N + dN) (K + 1)
         end
  end.
Definition coloring_jp (z : list W) : option (list Z * Z) :=
  let z' := map (fun i => wplus wt (getw z i) (get Ap (i + 1) - get Ap i)) (zr 0 n) in
  match jp_loop (S (Z.to_nat n)) z' (fillz n (-1)) 0 0 with
  | None => None | Some x => Some (x, maxl x) end.

(* ---- vertex_coloring_LDF ---- *)
Fixpoint ldf_loop (fuel : nat) (y weights : list W) (x : list Z) (N K : Z) : option (list Z) :=
  match fuel with
  | O => None
  | S k =>
    if negb (N <? n) then Some x
    else
      let weights' := fold_left (fun w i =>
            if negb (get x i =? -1) then w
            else let nn := Z.of_nat (length (filter (fun j => (get x j =? -1) && negb (i =? j)) (nbrs i))) in
                 set w i (wplus wt (getw y i) nn)) (zr 0 n) weights in
      match par_loop 3 (-1) K (-2) weights' 1 0 (x, 0) with
      | None => None
      | Some (x1, dN) => ldf_loop k y weights' (first_fit (unmark x1) K) (N + dN) (K + 1)
      end
  end.
Definition coloring_ldf (y : list W) : option (list Z * Z) :=
  match ldf_loop (S (Z.to_nat n)) y (map (fun _ => w0 wt) (zr 0 n)) (fillz n (-1)) 0 0 with
  | None => None | Some x => Some (x, maxl x) end.
End Par.

(* ---- vertex_coloring_mis ---- *)
Fixpoint cmis_loop (fuel : nat) (x : list Z) (N K : Z) : option (list Z * Z) :=
  match fuel with
  | O => None
  | S k =>
    if negb (N <? n) then Some (x, K)
    else let '(x1, dN) := mis_serial (-1 - K) K (-2 - K) x in cmis_loop k x1 (N + dN) (K + 1)
  end.
Definition coloring_mis : option (list Z * Z) := cmis_loop (S (Z.to_nat n)) (fillz n (-1)) 0 0.

(* ---- breadth_first_search: (order, level); order is written only where reached ---- *)
Definition bfs_visit (st : list Z * list Z * Z) (cur : Z) (i : Z) : list Z * list Z * Z :=
  fold_left (fun (st : list Z * list Z * Z) j =>
      let '(order, level, N) := st in
      if get level j =? -1 then (set order N j, set level j cur, N + 1) else st)
    (nbrs i) st.
Fixpoint bfs_loop (fuel : nat) (st : list Z * list Z * Z) (lb le cur : Z) : option (list Z * list Z * Z) :=
  match fuel with
  | O => None
  | S k =>
    if negb (lb <? le) then Some st
    else let st' := fold_left (fun st ii => bfs_visit st cur (get (fst (fst st)) ii)) (zr lb le) st in
         bfs_loop k st' le (snd st') (cur + 1)
  end.
Definition bfs (seed : Z) (order0 : list Z) : option (list Z * list Z * Z) :=
  bfs_loop (S (S (Z.to_nat n))) (set order0 0 seed, set (fillz n (-1)) seed 0, 1) 0 1 1.

(* ---- connected_components (explicit DFS stack) ---- *)
Fixpoint cc_dfs (fuel : nat) (stack : list Z) (comp : list Z) (c : Z) : option (list Z) :=
  match fuel with
  | O => None
  | S k =>
    match stack with
    | [] => Some comp
    | top :: rest =>
      let '(stack', comp') := fold_left (fun (s : list Z * list Z) j =>
            if get (snd s) j =? -1 then (j :: fst s, set (snd s) j c) else s) (nbrs top) (rest, comp) in
      cc_dfs k stack' comp' c
    end
  end.
Definition connected_components : option (list Z * Z) :=
  fold_left (fun (s : option (list Z * Z)) i =>
      match s with
      | None => None
      | Some (comp, c) =>
        if get comp i =? -1 then
          match cc_dfs (S (S (Z.to_nat n))) [i] (set comp i c) c with
          | None => None | Some comp' => Some (comp', c + 1) end
        else s
      end) (zr 0 n) (Some (fillz n (-1), 0)).

(* ---- bellman_ford with integer weights; distance None = +infinity ---- *)
Definition dlt (a b : option Z) : bool :=
  match a, b with Some u, Some v => u <? v | Some _, None => true | None, _ => false end.
Definition dadd (a : option Z) (w : Z) : option Z := match a with Some u => Some (u + w) | None => None end.
Definition getd (d : list (option Z)) (i : Z) : option Z := nth (Z.to_nat i) d None.
Definition bf_pass (Ax : list Z) (s : list (option Z) * list Z * list Z * bool)
  : list (option Z) * list Z * list Z * bool :=
  fold_left (fun (s : list (option Z) * list Z * list Z * bool) i =>
    fold_left (fun (s : list (option Z) * list Z * list Z * bool) jj =>
        let '(d, m, p, done) := s in
        let j := get Aj jj in
        let nd := dadd (getd d i) (get Ax jj) in
        if dlt nd (getd d j) then (set d j nd, set m j (get m i), set p j i, false) else s)
      (zr (get Ap i) (get Ap (i + 1))) s)
    (zr 0 n) (fst (fst (fst s)), snd (fst (fst s)), snd (fst s), true).
Fixpoint bf_loop (fuel : nat) (Ax : list Z) (d : list (option Z)) (m p : list Z)
  : option (list (option Z) * list Z * list Z) :=
  match fuel with
  | O => None
  | S k => let '(d', m', p', done) := bf_pass Ax (d, m, p, true) in
           if done then Some (d', m', p') else bf_loop k Ax d' m' p'
  end.
Definition bellman_ford (Ax : list Z) (centers : list Z) :=
  let idx := combine centers (zr 0 (Z.of_nat (length centers))) in
  let d0 := fold_left (fun d c => set d c (Some 0)) centers (map (fun _ => None) (zr 0 n)) in
  let m0 := fold_left (fun m ck => set m (fst ck) (snd ck)) idx (fillz n (-1)) in
  bf_loop (S (S (Z.to_nat n))) Ax d0 m0 (fillz n (-1)).

(* ---- maximal_independent_set_k_parallel ---- *)
Section MisK.
Context {W : Type} (wt : Wt W).
Definition propagate_max (keys : list Z) (vals : list W) : list Z * list W :=
  let kv := map (fun i =>
      fold_left (fun (kv : Z * W) j =>
          let '(kmax, vmax) := kv in
          let kj := get keys j in let vj := getw wt vals j in
          if kj =? kmax then kv
          else if wlt wt vj vmax then kv
          else if wlt wt vmax vj || (kmax <? kj) then (kj, vj) else kv)
        (nbrs i) (get keys i, getw wt vals i)) (zr 0 n) in
  (map fst kv, map snd kv).
Fixpoint iter_prop (k : nat) (kv : list Z * list W) : list Z * list W :=
  match k with O => kv | S k' => iter_prop k' (propagate_max (fst kv) (snd kv)) end.
(* of_x : 0/1 flag as a weight; one : the weight 1 ; neg1 : the weight -1 *)
Fixpoint misk_loop (fuel : nat) (k : nat) (y : list W) (ofz : Z -> W)
         (x : list Z) (active : list bool) (keys : list Z) (vals : list W) (max_iters iter : Z) : option (list Z) :=
  match fuel with
  | O => None
  | S f =>
    if negb (max_iters =? -1) && (max_iters <=? iter) then Some x
    else
      let '(keys1, vals1) := iter_prop k (keys, vals) in
      let x' := map (fun i => if (get keys1 i =? i) && nth (Z.to_nat i) active false then 1 else get x i) (zr 0 n) in
      let '(keys2, vals2) := iter_prop k (zr 0 n, map (fun i => ofz (get x' i)) (zr 0 n)) in
      let isone := map (fun i => weq wt (getw wt vals2 i) (ofz 1)) (zr 0 n) in
      let active' := map (fun p : bool * bool => if snd p then false else fst p) (combine active isone) in
      let work_left := existsb negb isone in
      let vals3 := map (fun i => if nth (Z.to_nat i) isone false then ofz (-1) else getw wt y i) (zr 0 n) in
      if work_left then misk_loop f k y ofz x' active' (zr 0 n) vals3 max_iters (iter + 1) else Some x'
  end.
Definition mis_k (k : Z) (y : list W) (ofz : Z -> W) (max_iters : Z) : option (list Z) :=
  misk_loop (S (S (Z.to_nat n))) (Z.to_nat k) y ofz (fillz n 0) (map (fun _ => true) (zr 0 n))
            (zr 0 n) y max_iters 0.
End MisK.
End G.
