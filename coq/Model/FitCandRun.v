From Coq Require Import ZArith List Bool PrimFloat.
Import ListNotations.
Require Import PV.Base.Ops PV.Model.FitCand.
Open Scope Z_scope.

(* gather the K2 columns of aggregate j from B, run MGS, scatter into the Ax / R layouts *)
Definition agg_cols (K1 K2 : Z) (Ai : list Z) (B : list float) (s e : Z) : list (list float) :=
  map (fun c => flat_map (fun ii => map (fun r => nthZ B ((nthZ Ai ii 0 * K1 + r) * K2 + c) 0%float) (zrange 0 K1)) (zrange s e))
      (zrange 0 K2).
Definition scatter_Q (K1 K2 : Z) (nnodes : Z) (qs : list (list float)) : list float :=
  flat_map (fun t => flat_map (fun r => map (fun c => nth (Z.to_nat (t * K1 + r)) (nth (Z.to_nat c) qs []) 0%float) (zrange 0 K2))
                              (zrange 0 K1)) (zrange 0 nnodes).
Definition scatter_R (K2 : Z) (rs : list (list float)) : list float :=
  flat_map (fun bi => map (fun bj => nth (Z.to_nat bi) (nth (Z.to_nat bj) rs []) 0%float) (zrange 0 K2)) (zrange 0 K2).
Definition fit (ncol K1 K2 : Z) (Ap Ai : list Z) (B : list float) (tol : float) : list float * list float :=
  let per := map (fun j => let s := nthZ Ap j 0 in let e := nthZ Ap (j + 1) 0 in
                           let '(qs, rs) := mgs opsF PrimFloat.sqrt tol (agg_cols K1 K2 Ai B s e) in
                           (scatter_Q K1 K2 (e - s) qs, scatter_R K2 rs)) (zrange 0 ncol) in
  (flat_map fst per, flat_map snd per).
Definition caseT := (Z * Z * Z * list Z * list Z * list float * float * (list float * list float))%type.
Definition chk (c : caseT) : bool :=
  let '(ncol, K1, K2, Ap, Ai, B, tol, (Qx, R)) := c in
  let '(q, r) := fit ncol K1 K2 Ap Ai B tol in
  list_eqb PrimFloat.eqb q Qx && list_eqb PrimFloat.eqb r R.
