(* C20: pyamg.gallery.diffusion.diffusion_stencil_2d, both discretisations, written operation by
   operation as the Python source computes it from eps, C = cos(theta), S = sin(theta). *)
From Coq Require Import ZArith List Bool.
Import ListNotations.
Require Import PV.Base.Ops.

Section Diff.
Context {F : Type} (o : Ops F).
Notation "a + b" := (add o a b). Notation "a - b" := (sub o a b). Notation "a * b" := (mul o a b).
Notation "a / b" := (div o a b). Notation "- a" := (opp o a).
Definition c1 := one o.
Definition c2 := c1 + c1. Definition c3 := c2 + c1. Definition c4 := c2 + c2.
Definition c6 := c3 + c3. Definition c8 := c4 + c4. Definition chalf := c1 / c2.

(* type='FE':  [[a, b, c], [d, e, d], [c, b, a]] / 6.0 *)
(* the stencils as functions of eps and of the three products the library forms first: CS = C*S, CC = C**2, SS = S**2
   (the two squares go through libm's pow, which is not always the correctly rounded product: the run side feeds the
   values the library obtained; the theorems are about CC = C*C, SS = S*S) *)
Definition fe_stencil_of (eps CS CC SS : F) : list (list F) :=
  let m := (- c1) * eps - c1 in
  let a := (m * CC + m * SS) + (c3 * eps - c3) * CS in
  let b := (c2 * eps - c4) * CC + ((- c4) * eps + c2) * SS in
  let c := (m * CC + m * SS) + ((- c3) * eps + c3) * CS in
  let d := ((- c4) * eps + c2) * CC + (c2 * eps - c4) * SS in
  let e := (c8 * eps + c8) * CC + (c8 * eps + c8) * SS in
  map (map (fun v => v / c6)) [[a; b; c]; [d; e; d]; [c; b; a]].
Definition fe_stencil (eps C S : F) : list (list F) := fe_stencil_of eps (C * S) (C * C) (S * S).

(* type='FD' *)
Definition fd_stencil_of (eps CS CC SS : F) : list (list F) :=
  let a := (chalf * (eps - c1)) * CS in
  let b := - (eps * SS + CC) in
  let c := - a in
  let d := - (eps * CC + SS) in
  let e := c2 * (eps + c1) in
  [[a; b; c]; [d; e; d]; [c; b; a]].
Definition fd_stencil (eps C S : F) : list (list F) := fd_stencil_of eps (C * S) (C * C) (S * S).

(* the stencil applied to a grid function u(x, y), x = i - 1 (first index), y = j - 1 (second index) *)
Definition coord (k : nat) : F := match k with O => - c1 | S O => zero o | _ => c1 end.
Definition entry (st : list (list F)) (i j : nat) : F := nth j (nth i st []) (zero o).
Definition apply_stencil (st : list (list F)) (u : F -> F -> F) : F :=
  fold_left (fun acc ij => acc + entry st (fst ij) (snd ij) * u (coord (fst ij)) (coord (snd ij)))
            [(0,0); (0,1); (0,2); (1,0); (1,1); (1,2); (2,0); (2,1); (2,2)]%nat (zero o).
End Diff.
