(* Run-side dispatcher for the aggregation (C12) and splitting (C13) kernels. *)
From Coq Require Import ZArith List Bool PrimFloat Uint63.
Import ListNotations.
Require Import PV.Base.Ops PV.Model.GraphAlg PV.Model.GraphRun PV.Model.Aggregate PV.Model.Split.
Open Scope Z_scope.

Definition run2 (alg : nat) (n : Z) (Ap Aj : list Z) (zs : list Z) (ls : list (list Z)) : list Z :=
  let a k := nth k zs 0 in
  let l k := nth k ls [] in
  match alg with
  | 20%nat => let '(x, y, c) := standard_aggregation n Ap Aj (l 0%nat) in c :: x ++ firstn (Z.to_nat c) y
  | 21%nat => let '(x, y, c) := naive_aggregation n Ap Aj (l 0%nat) in c :: x ++ firstn (Z.to_nat c) y
  | 22%nat => match pairwise_aggregation n Ap Aj (l 0%nat) (l 1%nat) with
              | Some (x, y, c) => c :: x ++ firstn (Z.to_nat c) y | None => FAIL end
  (* splitting: Ap/Aj = S, ls = [Tp; Tj; influence] *)
  | 30%nat => rs_cf_splitting n Ap Aj (l 0%nat) (l 1%nat) (l 2%nat)
  | 31%nat => rs_pass2 n Ap Aj (l 0%nat)
  | 32%nat => rs_pass2 n Ap Aj (rs_cf_splitting n Ap Aj (l 0%nat) (l 1%nat) (l 2%nat))
  (* CLJP with integer weights scaled by den = zs[0] *)
  | 33%nat => match cljp (WcZ (a 0%nat)) n Ap Aj (l 0%nat) (l 1%nat) (l 2%nat) with Some s => s | None => FAIL end
  | _ => run_graph alg n Ap Aj zs ls
  end.
Definition chk2 (c : caseT) : bool :=
  let '(alg, n, Ap, Aj, zs, ls, expected) := c in
  list_eqb Z.eqb (run2 alg n Ap Aj zs ls) expected.

(* two matchings of the Python driver: ids of the first (1-based), ids of the second, column indices of T = T1 @ T2 (0-based) *)
Definition chkCompose (c : list Z * list Z * list Z) : bool :=
  let '(x1, x2, expected) := c in list_eqb Z.eqb (map (fun v => v - 1) (compose x1 x2)) expected.

(* CLJP with binary64 weights, as the kernel computes them *)
Definition fz (v : Z) : float := PrimFloat.of_uint63 (Uint63.of_Z v).
Definition caseTF := (Z * list Z * list Z * list Z * list Z * Z * list float * list Z)%type.
(* colorflag = 0: w0 given (rand()/RAND_MAX);  colorflag = 1: colour/ncolors from vertex_coloring_mis *)
Definition chkF (c : caseTF) : bool :=
  let '(n, Sp, Sj, Tp, Tj, colorflag, w0, expected) := c in
  let w := if colorflag =? 1 then
             match coloring_mis n Sp Sj with
             | Some (col, K) => map (fun cv => PrimFloat.div (fz cv) (fz (maxl col + 1))) col
             | None => [] end
           else w0 in
  match cljp WcF n Sp Sj Tp Tj w with
  | Some s => list_eqb Z.eqb s expected
  | None => false
  end.
