(* C11: models of the interpolation kernels of pyamg/amg_core/ruge_stuben.h:
   rs_direct_interpolation_pass1/2, remove_strong_FF_connections,
   rs_classical_interpolation_pass1/2 (standard and modified). *)
From Coq Require Import ZArith List Bool.
Import ListNotations.
Require Import PV.Base.Ops.
Open Scope Z_scope.

Section Interp.
Context {F : Type} (o : Ops F).
Notation "0" := (zero o).
Notation "a + b" := (add o a b). Notation "a - b" := (sub o a b).
Notation "a * b" := (mul o a b). Notation "a / b" := (div o a b).
Variables (n : Z) (Ap Aj : list Z) (Ax : list F) (Sp Sj : list Z) (Sx : list F) (spl : list Z).
Definition gz (l : list Z) (i : Z) : Z := nthZ l i 0%Z.
Definition gf (l : list F) (i : Z) : F := nthZ l i 0.
Definition srange (i : Z) := zrange (gz Sp i) (gz Sp (Z.add i 1)).
Definition arange (i : Z) := zrange (gz Ap i) (gz Ap (Z.add i 1)).
Definition isC (j : Z) : bool := (gz spl j =? 1)%Z.
Definition isF (j : Z) : bool := (gz spl j =? 0)%Z.
Definition strongC (i jj : Z) : bool := isC (gz Sj jj) && negb (gz Sj jj =? i).

(* pass 1 (identical for direct and classical): row pointer of P *)
Definition interp_pass1 : list Z :=
  let cnt i := if isC i then 1%Z else Z.of_nat (length (filter (strongC i) (srange i))) in
  fold_left (fun acc i => acc ++ [Z.add (last acc 0%Z) (cnt i)]) (zrange 0 n) [0%Z].

(* coarse index map: map[i] = number of C points before i *)
Definition cmap (i : Z) : Z := fold_left (fun s k => Z.add s (gz spl k)) (zrange 0 i) 0%Z.

(* ---- direct interpolation, one row: list of (coarse column, weight) ---- *)
Definition direct_row (i : Z) : list (Z * F) :=
  if isC i then [(cmap i, one o)]
  else
    let '(ssp, ssn) := fold_left (fun (acc : F * F) jj =>
          if strongC i jj then
            if ltb o (gf Sx jj) 0 then (fst acc, snd acc + gf Sx jj) else (fst acc + gf Sx jj, snd acc)
          else acc) (srange i) (0, 0) in
    let '(sap, san, diag) := fold_left (fun (acc : F * F * F) jj =>
          let '(p, ng, d) := acc in
          if gz Aj jj =? i then (p, ng, d + gf Ax jj)
          else if ltb o (gf Ax jj) 0 then (p, ng + gf Ax jj, d) else (p + gf Ax jj, ng, d))
        (arange i) (0, 0, 0) in
    let alpha := san / ssn in
    let beta0 := sap / ssp in
    let '(diag', beta) := if eqb o ssp 0 then (diag + sap, 0) else (diag, beta0) in
    let neg_coeff := opp o alpha / diag' in
    let pos_coeff := opp o beta / diag' in
    map (fun jj => (cmap (gz Sj jj),
                    if ltb o (gf Sx jj) 0 then neg_coeff * gf Sx jj else pos_coeff * gf Sx jj))
        (filter (strongC i) (srange i)).
Definition direct_rows : list (list (Z * F)) := map direct_row (zrange 0 n).

(* ---- remove_strong_FF_connections: returns the new Sx ---- *)
Definition common_C (row j : Z) : bool :=
  existsb (fun ii => isC (gz Sj ii) && existsb (fun kk => gz Sj kk =? gz Sj ii) (srange j)) (srange row).
Definition remove_strong_FF : list F :=
  fold_left (fun sx row =>
      if negb (isF row) then sx
      else fold_left (fun sx jj =>
             let j := gz Sj jj in
             if isF j && negb (common_C row j) then updZ sx jj 0 else sx) (srange row) sx)
    (zrange 0 n) Sx.

(* ---- classical interpolation, one row ---- *)
Definition signof (a : F) : bool := ltb o a 0.          (* true = negative *)
(* A[k, j]: first stored occurrence (loop with break) / last one (loop without break) *)
Definition find_first (k j : Z) : F :=
  match find (fun t => gz Aj t =? j) (arange k) with Some t => gf Ax t | None => 0 end.
Definition find_last (k j : Z) : F :=
  fold_left (fun acc t => if gz Aj t =? j then gf Ax t else acc) (arange k) 0.
(* the modified search: one pass, "if col == j ... else if col == k ..." *)
Definition find_kj_kk (k j : Z) : F * F :=
  fold_left (fun (acc : F * F) t =>
      if gz Aj t =? j then (gf Ax t, snd acc) else if gz Aj t =? k then (fst acc, gf Ax t) else acc)
    (arange k) (0, 0).

Variable eps15 : F.          (* 1e-15 *)
Variable modified : bool.

Definition classical_row (i : Z) : list (Z * F) :=
  if isC i then [(cmap i, one o)]
  else
    let den0 := fold_left (fun d mm => d + gf Ax mm) (arange i) 0 in
    let denominator := fold_left (fun d mm => if gz Sj mm =? i then d else d - gf Sx mm) (srange i) den0 in
    map (fun jj =>
        let j := gz Sj jj in
        let numerator :=
          fold_left (fun num kk =>
              let k := gz Sj kk in
              if isF k && negb (k =? i) then
                let a_ik := gf Sx kk in
                let '(a_kj0, a_kk) := if modified then find_kj_kk k j else (find_first k j, 0) in
                let a_kj := if modified && Bool.eqb (signof a_kj0) (signof a_kk) then 0 else a_kj0 in
                if ltb o (eps15 * abs o a_ik) (abs o a_kj) then
                  let inner := fold_left (fun acc ll =>
                        let l := gz Sj ll in
                        if isC l then
                          match find (fun t => gz Aj t =? l) (arange k) with
                          | Some t => let a_kl := gf Ax t in
                                      if negb modified || negb (Bool.eqb (signof a_kl) (signof a_kk)) then acc + a_kl else acc
                          | None => acc
                          end
                        else acc) (srange i) 0 in
                  num + (a_ik * a_kj) / inner
                else num
              else num) (srange i) (gf Sx jj) in
        (cmap j, opp o numerator / denominator))
      (filter (fun jj => isC (gz Sj jj)) (srange i)).
Definition classical_rows : list (list (Z * F)) := map classical_row (zrange 0 n).

(* ---- one_point_interpolation (air.h): C rows are identity rows; an F row takes -Cx of its strongest
   (largest |Cx|, first one on ties) strongly connected C point, or nothing.  The strength matrix is (Sp, Sj, Sx).
   pointInd[i] = number of C points before i = cmap i. ---- *)
Definition one_point_pick (i : Z) : F * Z * F :=
  fold_left (fun (acc : F * Z * F) t =>
      let '(mx, ind, val) := acc in
      if isC (gz Sj t) then
        let vv := abs o (gf Sx t) in
        if ltb o mx vv then (vv, gz Sj t, gf Sx t) else acc
      else acc) (srange i) (opp o (one o), (-1)%Z, 0).
Definition one_point_row (i : Z) : list (Z * F) :=
  if isC i then [(cmap i, one o)]
  else let '(_, ind, val) := one_point_pick i in
       if (ind >? -1)%Z then [(cmap ind, opp o val)] else [].
Definition one_point_rows : list (list (Z * F)) := map one_point_row (zrange 0 n).
Definition one_point_ptr : list Z :=
  rev (fst (fold_left (fun (acc : list Z * Z) r => let nx := Z.add (snd acc) (Z.of_nat (length r)) in (nx :: fst acc, nx))
                      one_point_rows ([0%Z], 0%Z))).
End Interp.
