(* C01 run-side checker: the control model is fed the residual norms observed on
   the implementation (full history of a long run) and must predict the status,
   the number of cycles, the residual history and the number of callbacks of a
   second run with the given tol / maxiter. *)
From Coq Require Import ZArith List Bool PrimFloat.
Import ListNotations.
Require Import PV.Base.Ops PV.Model.Solve.

(* normb := 1 if ||b|| == 0 *)
Definition thr_of (tol nb : float) : float :=
  PrimFloat.mul tol (if PrimFloat.eqb nb 0%float then 1%float else nb).

(* case: (norms r_0.., ||b||, tol, maxiter, (status, observed residual history, #callbacks)) *)
Definition caseT := (list float * float * float * nat * (nat * list float * nat))%type.
Definition chk (c : caseT) : bool :=
  let '(norms, nb, tol, maxiter, (st, res, ncb)) := c in
  match solve nat float PrimFloat.ltb S (fun j => nth j norms nan) (thr_of tol nb) maxiter 0%nat with
  | None => false
  | Some r => Nat.eqb (rstatus r) st && list_eqb PrimFloat.eqb (rres r) res
              && Nat.eqb (length (rcb r)) ncb
  end.
