(* C17: checked twin of maximal_independent_set_serial (Model/GraphAlg.v): every access to Ap, Aj and x is bounds-checked;
   None at the first access outside an array. *)
From Coq Require Import ZArith List Bool.
Import ListNotations.
Require Import PV.Model.GraphAlg PV.Model.SplitChk.
Open Scope Z_scope.

Section M.
Variables (n : Z) (Ap Aj : list Z).
Definition mark_active_chk (active f : Z) (x : list Z) (js : list Z) : option (list Z) :=
  ofold (fun x j => xj <- cget x j ;; if xj =? active then cset x j f else Some x) js x.
Definition mis_serial_chk (active c f : Z) (x : list Z) : option (list Z * Z) :=
  ofold (fun (s : list Z * Z) i =>
      let '(x, N) := s in
      xi <- cget x i ;;
      if negb (xi =? active) then Some (x, N)
      else
        x1 <- cset x i c ;;
        row <- row_chk Ap Aj i ;;
        x2 <- mark_active_chk active f x1 row ;;
        Some (x2, N + 1))
    (zr 0 n) (x, 0).
End M.
