(* C07 run side: the recurrences of pyamg/krylov/_cg.py, _steepest_descent.py and
   _minimal_residual.py on dense rational data (exact), compared with the implementation's
   iterates to a stated tolerance. *)
From Coq Require Import ZArith List QArith Qabs Bool.
Import ListNotations.
Require Import PV.Base.Ops PV.Model.CycleRun.

Definition qdiv (a b : Q) := Qred (a / b).
Definition axpy (a : Q) (x y : vec) : vec := map2 (fun xi yi => qadd (qmul a xi) yi) x y.   (* a x + y *)
Definition vsub := map2 qsub.

Record cgst := { cx : vec; cr : vec; cp : vec; crz : Q }.
(* one CG step: Ap, alpha = rz/pAp, x += alpha p, r = b - A x, z = M r, beta = rz'/rz, p = z + beta p *)
Definition cg_step (A M : mat) (b : vec) (s : cgst) : cgst :=
  let Ap := mv A (cp s) in
  let alpha := qdiv (crz s) (dotq Ap (cp s)) in
  let x := axpy alpha (cp s) (cx s) in
  let r := vsub b (mv A x) in
  let z := mv M r in
  let rz := dotq r z in
  let beta := qdiv rz (crz s) in
  {| cx := x; cr := r; cp := axpy beta (cp s) z; crz := rz |}.
Definition cg_init (A M : mat) (b x0 : vec) : cgst :=
  let r := vsub b (mv A x0) in let z := mv M r in {| cx := x0; cr := r; cp := z; crz := dotq r z |}.
Fixpoint iterates {S} (k : nat) (f : S -> S) (s : S) : list S :=
  match k with O => [] | S k' => let s' := f s in s' :: iterates k' f s' end.
Definition cg (A M : mat) (b x0 : vec) (k : nat) : list vec := map cx (iterates k (cg_step A M b) (cg_init A M b x0)).

(* steepest descent: z = M r, alpha = <r,z>/<z,Az>, x += alpha z *)
Definition sd_step (A M : mat) (b x : vec) : vec :=
  let r := vsub b (mv A x) in let z := mv M r in
  axpy (qdiv (dotq r z) (dotq z (mv A z))) z x.
Definition sd (A M : mat) (b x0 : vec) (k : nat) : list vec := iterates k (sd_step A M b) x0.

(* minimal residual: z = M r, p = M A z, alpha = <p,z>/<p,p>, x += alpha z *)
Definition mr_step (A M : mat) (b x : vec) : vec :=
  let z := mv M (vsub b (mv A x)) in let p := mv M (mv A z) in
  axpy (qdiv (dotq p z) (dotq p p)) z x.
Definition mr (A M : mat) (b x0 : vec) (k : nat) : list vec := iterates k (mr_step A M b) x0.

(* comparison to tolerance: every entry within tol * (1 + |model|) *)
Definition close (tol : Q) (a b : Q) : bool := Qle_bool (Qabs (a - b)) (tol * (1 + Qabs a)).
Definition vclose tol (u v : vec) : bool := (Nat.eqb (length u) (length v)) && forallb (fun p => close tol (fst p) (snd p)) (combine u v).
(* (method: 0 cg, 1 sd, 2 mr ; A ; M ; b ; x0 ; tol ; expected iterates) *)
Definition caseT := (nat * mat * mat * vec * vec * Q * list vec)%type.
Definition chk (c : caseT) : bool :=
  let '(m, A, M, b, x0, tol, expected) := c in
  let k := length expected in
  let got := match m with 0%nat => cg A M b x0 k | 1%nat => sd A M b x0 k | _ => mr A M b x0 k end in
  (Nat.eqb (length got) k) && forallb (fun p => vclose tol (fst p) (snd p)) (combine got expected).
