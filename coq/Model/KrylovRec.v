(* C07 run side: the recurrences of pyamg/krylov/_cg.py, _steepest_descent.py and
   _minimal_residual.py on dense rational data (exact), compared with the implementation's
   iterates to a stated tolerance. *)
From Coq Require Import ZArith List QArith Qabs Bool.
Import ListNotations.
Require Import PV.Base.Ops PV.Model.CycleRun.

Definition qdiv (a b : Q) := Qred (a / b).
Definition axpy (a : Q) (x y : vec) : vec := map2 (fun xi yi => qadd (qmul a xi) yi) x y.   (* a x + y *)
Definition vsub := map2 qsub.

Record cgst := { cx : vec; cr : vec; cp : vec; crz : Q }.
(* one CG step: Ap, alpha = rz/pAp, x += alpha p, r = b - A x, z = M r, beta = rz'/rz, p = z + beta p *)
Definition cg_step (A M : mat) (b : vec) (s : cgst) : cgst :=
  let Ap := mv A (cp s) in
  let alpha := qdiv (crz s) (dotq Ap (cp s)) in
  let x := axpy alpha (cp s) (cx s) in
  let r := vsub b (mv A x) in
  let z := mv M r in
  let rz := dotq r z in
  let beta := qdiv rz (crz s) in
  {| cx := x; cr := r; cp := axpy beta (cp s) z; crz := rz |}.
Definition cg_init (A M : mat) (b x0 : vec) : cgst :=
  let r := vsub b (mv A x0) in let z := mv M r in {| cx := x0; cr := r; cp := z; crz := dotq r z |}.
Fixpoint iterates {S} (k : nat) (f : S -> S) (s : S) : list S :=
  match k with O => [] | S k' => let s' := f s in s' :: iterates k' f s' end.
Definition cg (A M : mat) (b x0 : vec) (k : nat) : list vec := map cx (iterates k (cg_step A M b) (cg_init A M b x0)).

(* steepest descent: z = M r, alpha = <r,z>/<z,Az>, x += alpha z *)
Definition sd_step (A M : mat) (b x : vec) : vec :=
  let r := vsub b (mv A x) in let z := mv M r in
  axpy (qdiv (dotq r z) (dotq z (mv A z))) z x.
Definition sd (A M : mat) (b x0 : vec) (k : nat) : list vec := iterates k (sd_step A M b) x0.

(* minimal residual: z = M r, p = M A z, alpha = <p,z>/<p,p>, x += alpha z *)
Definition mr_step (A M : mat) (b x : vec) : vec :=
  let z := mv M (vsub b (mv A x)) in let p := mv M (mv A z) in
  axpy (qdiv (dotq p z) (dotq p p)) z x.
Definition mr (A M : mat) (b x0 : vec) (k : nat) : list vec := iterates k (mr_step A M b) x0.

(* ---- conjugate residuals, CGNR, CGNE exactly as the loops of _cr.py, _cgnr.py, _cgne.py are written (left
   preconditioner M; the residual is recomputed from x when it mod 8 = 0 and updated otherwise) ---- *)
Definition mtr (A : mat) (n : nat) : mat := map (fun j => map (fun row => nth j row 0) A) (seq 0 n).
Definition vscale (a : Q) (x : vec) : vec := map (qmul a) x.
Definition rcomp (it : nat) : bool := Nat.eqb (Nat.modulo it 8) 0.

Record crst := { rx : vec; rr : vec; rp : vec; rAp : vec; rrAz : Q; rit : nat }.
Definition cr_init (A M : mat) (b x0 : vec) : crst :=
  let r := vsub b (mv A x0) in let z := mv M r in let Az := mv A z in
  {| rx := x0; rr := r; rp := z; rAp := mv A z; rrAz := dotq r Az; rit := 0 |}.
Definition cr_step (A M : mat) (b : vec) (s : crst) : crst :=
  let alpha := qdiv (rrAz s) (dotq (rAp s) (rAp s)) in
  let x := axpy alpha (rp s) (rx s) in
  let r := if rcomp (rit s) then vsub b (mv A x) else vsub (rr s) (vscale alpha (rAp s)) in
  let z := mv M r in
  let Az := mv A z in
  let rAz := dotq r Az in
  let beta := qdiv rAz (rrAz s) in
  {| rx := x; rr := r; rp := axpy beta (rp s) z; rAp := axpy beta (rAp s) Az; rrAz := rAz; rit := S (rit s) |}.
Definition crq (A M : mat) (b x0 : vec) (k : nat) : list vec := map rx (iterates k (cr_step A M b) (cr_init A M b x0)).

Record nst := { nx : vec; nr : vec; np : vec; nzr : Q; nit : nat }.
Definition cgnr_init (A M : mat) (b x0 : vec) : nst :=
  let At := mtr A (length x0) in
  let r := vsub b (mv A x0) in let rhat := mv At r in let z := mv M rhat in
  {| nx := x0; nr := r; np := z; nzr := dotq z rhat; nit := 0 |}.
Definition cgnr_step (A M : mat) (b : vec) (s : nst) : nst :=
  let At := mtr A (length (nx s)) in
  let w := mv A (np s) in
  let alpha := qdiv (nzr s) (dotq w w) in
  let x := axpy alpha (np s) (nx s) in
  let r := if rcomp (nit s) then vsub b (mv A x) else vsub (nr s) (vscale alpha w) in
  let rhat := mv At r in
  let z := mv M rhat in
  let new := dotq z rhat in
  let beta := qdiv new (nzr s) in
  {| nx := x; nr := r; np := axpy beta (np s) z; nzr := new; nit := S (nit s) |}.
Definition cgnrq (A M : mat) (b x0 : vec) (k : nat) : list vec := map nx (iterates k (cgnr_step A M b) (cgnr_init A M b x0)).

Definition cgne_init (A M : mat) (b x0 : vec) : nst :=
  let At := mtr A (length x0) in
  let r := vsub b (mv A x0) in let z := mv M r in
  {| nx := x0; nr := r; np := mv At z; nzr := dotq z r; nit := 0 |}.
Definition cgne_step (A M : mat) (b : vec) (s : nst) : nst :=
  let At := mtr A (length (nx s)) in
  let alpha := qdiv (nzr s) (dotq (np s) (np s)) in
  let x := axpy alpha (np s) (nx s) in
  let r := if rcomp (nit s) then vsub b (mv A x) else vsub (nr s) (vscale alpha (mv A (np s))) in
  let z := mv M r in
  let new := dotq z r in
  let beta := qdiv new (nzr s) in
  {| nx := x; nr := r; np := axpy beta (np s) (mv At z); nzr := new; nit := S (nit s) |}.
Definition cgneq (A M : mat) (b x0 : vec) (k : nat) : list vec := map nx (iterates k (cgne_step A M b) (cgne_init A M b x0)).

(* comparison to tolerance: every entry within tol * (1 + |model|) *)
Definition close (tol : Q) (a b : Q) : bool := Qle_bool (Qabs (a - b)) (tol * (1 + Qabs a)).
Definition vclose tol (u v : vec) : bool := (Nat.eqb (length u) (length v)) && forallb (fun p => close tol (fst p) (snd p)) (combine u v).
(* (method: 0 cg, 1 sd, 2 mr, 3 cr, 4 cgnr, 5 cgne ; A ; M ; b ; x0 ; tol ; expected iterates) *)
Definition caseT := (nat * mat * mat * vec * vec * Q * list vec)%type.
Definition chk (c : caseT) : bool :=
  let '(m, A, M, b, x0, tol, expected) := c in
  let k := length expected in
  let got := match m with 0%nat => cg A M b x0 k | 1%nat => sd A M b x0 k | 2%nat => mr A M b x0 k
                         | 3%nat => crq A M b x0 k | 4%nat => cgnrq A M b x0 k | _ => cgneq A M b x0 k end in
  (Nat.eqb (length got) k) && forallb (fun p => vclose tol (fst p) (snd p)) (combine got expected).
