(* C20: pyamg.gallery.stencil_grid as written: nonzero stencil entries in row-major order,
   strides cumprod([1] + reversed(grid))[:-1], one DIA diagonal per entry with the boundary
   positions zeroed by slices, diagonals with |offset| >= N dropped, equal offsets summed, and
   the DIA semantics  A[i, i + off] = data[off][i + off].
   Multi-indices are lists of Z (one entry per grid dimension, slowest first). *)
From Coq Require Import ZArith List Bool.
Import ListNotations.
Open Scope Z_scope.

Section Stencil.
Variable V : Type.
Variables (vzero : V) (vadd : V -> V -> V) (vnz : V -> bool).    (* S != 0 *)

Definition prodl (g : list Z) : Z := fold_left Z.mul g 1.
(* all multi-indices of a box, row-major *)
Fixpoint box (g : list Z) : list (list Z) :=
  match g with
  | [] => [[]]
  | d :: t => flat_map (fun i => map (cons i) (box t)) (map Z.of_nat (seq 0 (Z.to_nat d)))
  end.
(* strides: row-major, last dimension has stride 1 *)
Fixpoint strides (g : list Z) : list Z :=
  match g with [] => [] | _ :: t => prodl t :: strides t end.
Definition dotz (a b : list Z) : Z := fold_left Z.add (map (fun p => fst p * snd p) (combine a b)) 0.
Definition unravel (g : list Z) (j : Z) : list Z :=
  map (fun p => (j / snd p) mod fst p) (combine g (strides g)).

(* the stencil: shape (odd sizes) and a value per position (row-major) *)
Definition centred (shape : list Z) (pos : list Z) : list Z :=
  map (fun p => fst p - snd p / 2) (combine pos shape).

(* is grid point with coordinates q a kept position of the diagonal for offset o ?
   (slices [0:i] zeroed for i > 0, [i:] zeroed for i < 0) *)
Definition kept (g : list Z) (o q : list Z) : bool :=
  forallb (fun t => let '(gn, on, qn) := t in
             if 0 <? on then on <=? qn else if on <? 0 then qn <? gn + on else true)
          (combine (combine g o) q).

(* diagonals: (offset, data row indexed by the column j) *)
Definition diagonals (shape g : list Z) (vals : list V) : list (Z * list V) :=
  let N := prodl g in
  let entries := filter (fun p => vnz (snd p)) (combine (box shape) vals) in
  map (fun p =>
         let o := centred shape (fst p) in
         (dotz (strides g) o,
          map (fun j => if kept g o (unravel g j) then snd p else vzero) (map Z.of_nat (seq 0 (Z.to_nat N)))))
      entries.

(* mask |diag| < N, then sum rows with equal offsets (np.unique order is irrelevant for the result) *)
Definition masked (N : Z) (ds : list (Z * list V)) := filter (fun d => Z.abs (fst d) <? N) ds.
Definition entry (ds : list (Z * list V)) (i j : Z) : V :=
  fold_left (fun acc d => if fst d =? j - i then vadd acc (nth (Z.to_nat j) (snd d) vzero) else acc) ds vzero.

Definition stencil_grid (shape g : list Z) (vals : list V) : list (list V) :=
  let N := prodl g in
  let ds := masked N (diagonals shape g vals) in
  map (fun i => map (fun j => entry ds i j) (map Z.of_nat (seq 0 (Z.to_nat N)))) (map Z.of_nat (seq 0 (Z.to_nat N))).

(* ---- specification: row p holds the stencil entries of the neighbours that exist ---- *)
Definition vec_add (a b : list Z) := map (fun p => fst p + snd p) (combine a b).
Definition leqb (a b : list Z) : bool := forallb (fun p => fst p =? snd p) (combine a b).
Definition spec_entry (shape g : list Z) (vals : list V) (p q : list Z) : V :=
  fold_left (fun acc e => if vnz (snd e) && leqb (vec_add p (centred shape (fst e))) q then vadd acc (snd e) else acc)
            (combine (box shape) vals) vzero.
Definition spec (shape g : list Z) (vals : list V) : list (list V) :=
  map (fun p => map (fun q => spec_entry shape g vals p q) (box g)) (box g).
End Stencil.
