(* C19: models of the utility kernels: csc_scale_columns / csc_scale_rows and
   filter_matrix_rows (pyamg/amg_core/linalg.h), truncate_rows_csr with its in-place
   two-array quicksort (pyamg/amg_core/smoothed_aggregation.h). *)
From Coq Require Import ZArith List Bool.
Import ListNotations.
Require Import PV.Base.Ops.
Open Scope Z_scope.

Section Utils.
Context {F : Type} (o : Ops F).
Definition gI (l : list Z) (i : Z) : Z := nthZ l i 0%Z.
Definition gV (l : list F) (i : Z) : F := nthZ l i (zero o).

(* CSC: column i owns entries Ap[i]..Ap[i+1] *)
Definition csc_scale_columns (ncol : Z) (Ap : list Z) (Ax Xx : list F) : list F :=
  fold_left (fun ax i => fold_left (fun ax jj => updZ ax jj (mul o (gV ax jj) (gV Xx i))) (zrange (gI Ap i) (gI Ap (i + 1))) ax)
            (zrange 0 ncol) Ax.
Definition csc_scale_rows (ncol : Z) (Ap Aj : list Z) (Ax Xx : list F) : list F :=
  fold_left (fun ax i => updZ ax i (mul o (gV ax i) (gV Xx (gI Aj i)))) (zrange 0 (gI Ap ncol)) Ax.

(* filter_matrix_rows: entries with |a_ij| < theta |a_ii| are zeroed (lump: added to the diagonal) *)
Definition filter_row (theta : F) (lump : bool) (Ap Aj : list Z) (ax : list F) (i : Z) : list F :=
  let rng := zrange (gI Ap i) (gI Ap (i + 1)) in
  let dind := match find (fun jj => gI Aj jj =? i) rng with Some jj => jj | None => -1 end in
  let diagonal := if dind =? -1 then zero o else abs o (gV ax dind) in
  let thr := mul o theta diagonal in
  fold_left (fun ax jj =>
      if ltb o (abs o (gV ax jj)) thr && (negb lump || negb (gI Aj jj =? i)) then
        if lump then updZ (updZ ax dind (add o (gV ax dind) (gV ax jj))) jj (zero o)
        else updZ ax jj (zero o)
      else ax) rng ax.
Definition filter_matrix_rows (n : Z) (theta : F) (Ap Aj : list Z) (Ax : list F) (lump : bool) : list F :=
  fold_left (filter_row theta lump Ap Aj) (zrange 0 n) Ax.

(* two-array quicksort by increasing magnitude, as written (middle pivot, Lomuto partition) *)
Definition swap2 (x : list F) (y : list Z) (a b : Z) : list F * list Z :=
  (updZ (updZ x a (gV x b)) b (gV x a), updZ (updZ y a (gI y b)) b (gI y a)).
Fixpoint qsort2 (fuel : nat) (x : list F) (y : list Z) (left right : Z) : list F * list Z :=
  match fuel with
  | O => (x, y)
  | S f =>
    if right <=? left then (x, y)
    else
      let '(x1, y1) := swap2 x y left ((left + right) / 2) in
      let '(x2, y2, last) := fold_left (fun (s : list F * list Z * Z) i =>
            let '(xx, yy, last) := s in
            if ltb o (abs o (gV xx i)) (abs o (gV xx left)) then
              let '(xs, ys) := swap2 xx yy (last + 1) i in (xs, ys, last + 1)
            else s) (zrange (left + 1) (right + 1)) (x1, y1, left) in
      let '(x3, y3) := swap2 x2 y2 left last in
      let '(x4, y4) := qsort2 f x3 y3 left (last - 1) in
      qsort2 f x4 y4 (last + 1) right
  end.
Definition truncate_rows_csr (n k : Z) (Sp Sj : list Z) (Sx : list F) : list Z * list F :=
  fold_left (fun (s : list Z * list F) i =>
      let rs := gI Sp i in let re := gI Sp (i + 1) in
      if k <? re - rs then
        let '(x, y) := qsort2 (Z.to_nat (re - rs) + 1) (snd s) (fst s) rs (re - 1) in
        (y, fold_left (fun x jj => updZ x jj (zero o)) (zrange rs (re - k)) x)
      else s) (zrange 0 n) (Sj, Sx).
End Utils.
