From Coq Require Import List Arith Bool ZArith.
Import ListNotations.
Require Import PV.Base.Ops PV.Model.Hierarchy.
(* observed long build: sizes s_0..s_K, stalled? ; predict the sizes for (max_levels, max_coarse) *)
Definition step_of (sizes : list nat) (stalled : bool) (i n : nat) : outcome :=
  match nth_error sizes (S i) with
  | Some nc => Next nc
  | None => Stall          (* beyond the observation: only reached when the long build stalled *)
  end.
Definition caseT := (list nat * bool * nat * nat * list nat)%type.
Definition chk (c : caseT) : bool :=
  let '(sizes, stalled, max_levels, max_coarse, expected) := c in
  match build (step_of sizes stalled) max_levels max_coarse (hd 0%nat sizes) with
  | Some r => list_eqb Nat.eqb r expected
  | None => false
  end.
