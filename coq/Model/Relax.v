(* Models of the native relaxation kernels (pyamg/amg_core/relaxation.h) and of
   the Python drivers in pyamg/relaxation/relaxation.py (sweep -> range,
   iterations, omega routing).  Arrays are lists, indices Z; the loops follow
   the C++ statement order so that the PrimFloat instance is bit-exact. *)
From Coq Require Import ZArith List Bool.
Import ListNotations.
Require Import PV.Base.Ops.
Open Scope Z_scope.

Section Relax.
Context {F : Type} (o : Ops F) (conj : F -> F).
Notation "0" := (zero o).
Notation "a + b" := (add o a b). Notation "a - b" := (sub o a b).
Notation "a * b" := (mul o a b). Notation "a / b" := (div o a b).

(* for(I i = start; i != stop; i += step): the ranges the callers produce are
   (0,N,1) and (N-1,-1,-1); in general |stop-start| must be a multiple of step *)
Definition loop_idx (start stop step : Z) : list Z :=
  if (step =? 0)%Z then []
  else map (fun k => (start + Z.of_nat k * step)%Z) (seq 0 (Z.to_nat ((stop - start) / step))).

(* the common inner loop: rsum over off-diagonal entries, last diagonal entry *)
Fixpoint row (Aj : list Z) (Ax x : list F) (i : Z) (jj cnt : nat) (rsum diag : F) : F * F :=
  match cnt with
  | O => (rsum, diag)
  | S c =>
    let j := nth jj Aj 0%Z in
    let a := nth jj Ax 0 in
    if (i =? j)%Z then row Aj Ax x i (S jj) c rsum a
    else row Aj Ax x i (S jj) c (rsum + a * nthZ x j 0) diag
  end.

Definition row_of (Ap Aj : list Z) (Ax x : list F) (i : Z) : F * F :=
  let s := nthZ Ap i 0%Z in
  let e := nthZ Ap (i + 1)%Z 0%Z in
  row Aj Ax x i (Z.to_nat s) (Z.to_nat (e - s)) 0 0.

(* ---- gauss_seidel ---- *)
Definition gs_row (Ap Aj : list Z) (Ax b x : list F) (i : Z) : list F :=
  let '(rsum, diag) := row_of Ap Aj Ax x i in
  if isz o diag then x else upd x (Z.to_nat i) ((nthZ b i 0 - rsum) / diag).
Definition gauss_seidel Ap Aj Ax x b (start stop step : Z) : list F :=
  fold_left (fun x i => gs_row Ap Aj Ax b x i) (loop_idx start stop step) x.

(* ---- sor_gauss_seidel ---- *)
Definition sor_row (omega : F) Ap Aj Ax (b x : list F) (i : Z) : list F :=
  let '(rsum, diag) := row_of Ap Aj Ax x i in
  if isz o diag then x
  else upd x (Z.to_nat i) (omega * ((nthZ b i 0 - rsum) / diag) + (one o - omega) * nthZ x i 0).
Definition sor_gauss_seidel Ap Aj Ax x b start stop step omega : list F :=
  fold_left (fun x i => sor_row omega Ap Aj Ax b x i) (loop_idx start stop step) x.

(* ---- gauss_seidel_indexed ---- *)
Definition gauss_seidel_indexed Ap Aj Ax x b (Id : list Z) start stop step : list F :=
  fold_left (fun x i => gs_row Ap Aj Ax b x (nthZ Id i 0%Z)) (loop_idx start stop step) x.

(* ---- jacobi: temp[i] = x[i] on the swept rows, then every row from temp ---- *)
Definition jac_row (omega : F) Ap Aj Ax (b temp x : list F) (i : Z) : list F :=
  let '(rsum, diag) := row_of Ap Aj Ax temp i in
  if isz o diag then x
  else upd x (Z.to_nat i) ((one o - omega) * nthZ temp i 0 + omega * ((nthZ b i 0 - rsum) / diag)).
Definition copy_rows (x temp : list F) (rows : list Z) : list F :=
  fold_left (fun t i => upd t (Z.to_nat i) (nthZ x i 0)) rows temp.
Definition jacobi Ap Aj Ax x b temp start stop step omega : list F :=
  let rows := loop_idx start stop step in
  let temp' := copy_rows x temp rows in
  fold_left (fun x i => jac_row omega Ap Aj Ax b temp' x i) rows x.

(* ---- jacobi_indexed: temp is a full copy of x ---- *)
Definition jacobi_indexed Ap Aj Ax x b (indices : list Z) omega : list F :=
  fold_left (fun x' i => jac_row omega Ap Aj Ax b x x' i) indices x.

(* ---- dense helpers (gemm with 'F','F','F','T': S = A v, accumulated from 0) ---- *)
Definition dot_from (M : list F) (moff : Z) (v : list F) (voff : Z) (bs : Z) : F :=
  fold_left (fun acc k => acc + nthZ M (moff + k) 0 * nthZ v (voff + k) 0) (zrange 0 bs) 0.
Definition matvec (M : list F) (moff : Z) (v : list F) (voff : Z) (bs : Z) : list F :=
  map (fun i => dot_from M (moff + i * bs) v voff bs) (zrange 0 bs).

(* write a block into x at offset *)
Definition write_block (x : list F) (off : Z) (blk : list F) : list F :=
  fold_left (fun x p => upd x (Z.to_nat (off + fst p)) (snd p)) (combine (zrange 0 (Z.of_nat (length blk))) blk) x.

(* ---- bsr_gauss_seidel (point Gauss-Seidel inside each diagonal block) ---- *)
(* rsum = b_i - sum_{j<>i} A_ij x_j ; returns (rsum, diag_ptr) *)
Definition bsr_rsum Ap Aj (Ax : list F) (src b : list F) (i bs : Z) : list F * Z :=
  let B2 := (bs * bs)%Z in
  fold_left (fun acc jj =>
      let j := nthZ Aj jj 0%Z in
      if (i =? j)%Z then (fst acc, (jj * B2)%Z)
      else (map (fun p => fst p - snd p) (combine (fst acc) (matvec Ax (jj * B2) src (j * bs) bs)), snd acc))
    (zrange (nthZ Ap i 0%Z) (nthZ Ap (i + 1) 0%Z))
    (map (fun k => nthZ b (i * bs + k) 0) (zrange 0 bs), (-1)%Z).

Definition blk_order (step bs : Z) : list Z :=
  if (step <? 0)%Z then rev (zrange 0 bs) else zrange 0 bs.

Definition bsr_gs_row Ap Aj Ax (b x : list F) (i bs step : Z) : list F :=
  let '(rsum, dptr) := bsr_rsum Ap Aj Ax x b i bs in
  if (dptr =? -1)%Z then x
  else fold_left (fun x k =>
         let '(rk, diag) := fold_left (fun acc kk =>
               if (k =? kk)%Z then (fst acc, nthZ Ax (k * bs + kk + dptr) 0)
               else (fst acc - nthZ Ax (k * bs + kk + dptr) 0 * nthZ x (i * bs + kk) 0, snd acc))
             (blk_order step bs) (nthZ rsum k 0, one o) in
         if isz o diag then x else upd x (Z.to_nat (i * bs + k)) (rk / diag))
       (blk_order step bs) x.
Definition bsr_gauss_seidel Ap Aj Ax x b start stop step bs : list F :=
  fold_left (fun x i => bsr_gs_row Ap Aj Ax b x i bs step) (loop_idx start stop step) x.

(* ---- bsr_jacobi / bsr_jacobi_indexed ---- *)
Definition bsr_jac_row (omega : F) Ap Aj Ax (b temp x : list F) (i bs step : Z) : list F :=
  let '(rsum, dptr) := bsr_rsum Ap Aj Ax temp b i bs in
  if (dptr =? -1)%Z then x
  else fold_left (fun x k =>
         let '(rk, diag) := fold_left (fun acc kk =>
               if (k =? kk)%Z then (fst acc, nthZ Ax (k * bs + kk + dptr) 0)
               else (fst acc - nthZ Ax (k * bs + kk + dptr) 0 * nthZ temp (i * bs + kk) 0, snd acc))
             (blk_order step bs) (nthZ rsum k 0, one o) in
         if isz o diag then x
         else upd x (Z.to_nat (i * bs + k))
                  ((one o - omega) * nthZ temp (i * bs + k) 0 + (omega * rk) / diag))
       (blk_order step bs) x.
(* forward only (the copy loop of the kernel is only meaningful for step > 0) *)
Definition bsr_jacobi Ap Aj Ax x b (temp : list F) start stop step bs omega : list F :=
  let temp' := copy_rows x temp (zrange 0 (Z.abs (stop - start) * bs)) in
  fold_left (fun x i => bsr_jac_row omega Ap Aj Ax b temp' x i bs step) (loop_idx start stop step) x.
Definition bsr_jacobi_indexed Ap Aj Ax x b (indices : list Z) bs omega : list F :=
  fold_left (fun x' i => bsr_jac_row omega Ap Aj Ax b x x' i bs 1) indices x.

(* ---- block_jacobi / block_jacobi_indexed / block_gauss_seidel (Dinv given) ---- *)
Definition blk_rsum Ap Aj (Ax src b : list F) (i bs : Z) : list F :=
  let B2 := (bs * bs)%Z in
  let acc := fold_left (fun acc jj =>
      let j := nthZ Aj jj 0%Z in
      if (i =? j)%Z then acc
      else map (fun p => fst p + snd p) (combine acc (matvec Ax (jj * B2) src (j * bs) bs)))
    (zrange (nthZ Ap i 0%Z) (nthZ Ap (i + 1) 0%Z)) (map (fun _ => 0) (zrange 0 bs)) in
  map (fun p => nthZ b (i * bs + fst p) 0 - snd p) (combine (zrange 0 bs) acc).

Definition blk_jac_row (omega : F) Ap Aj Ax (b Dinv temp x : list F) (i bs : Z) : list F :=
  let rsum := blk_rsum Ap Aj Ax temp b i bs in
  let v := matvec Dinv (i * bs * bs) rsum 0 bs in
  write_block x (i * bs)
    (map (fun p => (one o - omega) * nthZ temp (i * bs + fst p) 0 + omega * snd p) (combine (zrange 0 bs) v)).
Definition block_jacobi Ap Aj Ax x b Dinv (temp : list F) start stop step omega bs : list F :=
  let rows := loop_idx start stop step in
  let temp' := copy_rows x temp (concat (map (fun i => zrange (i * bs) (i * bs + bs)) rows)) in
  fold_left (fun x i => blk_jac_row omega Ap Aj Ax b Dinv temp' x i bs) rows x.
Definition block_jacobi_indexed Ap Aj Ax x b Dinv (indices : list Z) omega bs : list F :=
  fold_left (fun x' i => blk_jac_row omega Ap Aj Ax b Dinv x x' i bs) indices x.

Definition blk_gs_row Ap Aj Ax (b Dinv x : list F) (i bs : Z) : list F :=
  let rsum := blk_rsum Ap Aj Ax x b i bs in
  write_block x (i * bs) (matvec Dinv (i * bs * bs) rsum 0 bs).
Definition block_gauss_seidel Ap Aj Ax x b Dinv start stop step bs : list F :=
  fold_left (fun x i => blk_gs_row Ap Aj Ax b Dinv x i bs) (loop_idx start stop step) x.

(* ---- normal-equation variants ---- *)
(* jacobi_ne: temp = 0 on rows; temp[Aj[j]] += omega*conj(Ax[j])*delta[i]; x += temp *)
Definition jacobi_ne Ap Aj (Ax x delta temp : list F) start stop step omega : list F :=
  let rows := if (step >? 0)%Z then loop_idx start (Z.max start stop) step else [] in
  let t0 := fold_left (fun t i => upd t (Z.to_nat i) 0) rows temp in
  let t1 := fold_left (fun t i =>
              fold_left (fun t j => upd t (Z.to_nat (nthZ Aj j 0%Z))
                                        (nthZ t (nthZ Aj j 0%Z) 0 + (omega * conj (nthZ Ax j 0)) * nthZ delta i 0))
                        (zrange (nthZ Ap i 0%Z) (nthZ Ap (i + 1) 0%Z)) t) rows t0 in
  fold_left (fun x i => upd x (Z.to_nat i) (nthZ x i 0 + nthZ t1 i 0)) rows x.

(* gauss_seidel_ne (Kaczmarz): delta = (b_i - a_i.x) * Dinv_i * omega ; x += conj(a_i) delta *)
Definition gs_ne_row Ap Aj (Ax b Dinv x : list F) (omega : F) (i : Z) : list F :=
  let cols := zrange (nthZ Ap i 0%Z) (nthZ Ap (i + 1) 0%Z) in
  let d := fold_left (fun d j => d + nthZ Ax j 0 * nthZ x (nthZ Aj j 0%Z) 0) cols 0 in
  let delta := ((nthZ b i 0 - d) * nthZ Dinv i 0) * omega in
  fold_left (fun x j => upd x (Z.to_nat (nthZ Aj j 0%Z)) (nthZ x (nthZ Aj j 0%Z) 0 + conj (nthZ Ax j 0) * delta)) cols x.
Definition gauss_seidel_ne Ap Aj Ax x b start stop step Dinv omega : list F :=
  fold_left (fun x i => gs_ne_row Ap Aj Ax b Dinv x omega i) (loop_idx start stop step) x.

(* gauss_seidel_nr on CSC: returns (x, r) *)
Definition gs_nr_col Ap Aj (Ax Dinv : list F) (omega : F) (xr : list F * list F) (i : Z) : list F * list F :=
  let '(x, r) := xr in
  let rows := zrange (nthZ Ap i 0%Z) (nthZ Ap (i + 1) 0%Z) in
  let d := fold_left (fun d j => d + conj (nthZ Ax j 0) * nthZ r (nthZ Aj j 0%Z) 0) rows 0 in
  let delta := d * (nthZ Dinv i 0 * omega) in
  (upd x (Z.to_nat i) (nthZ x i 0 + delta),
   fold_left (fun r j => upd r (Z.to_nat (nthZ Aj j 0%Z)) (nthZ r (nthZ Aj j 0%Z) 0 - delta * nthZ Ax j 0)) rows r).
Definition gauss_seidel_nr Ap Aj Ax x z start stop step Dinv omega : list F * list F :=
  fold_left (gs_nr_col Ap Aj Ax Dinv omega) (loop_idx start stop step) (x, z).

(* ================= Python drivers (pyamg/relaxation/relaxation.py) ================= *)
Inductive sweep := Forward | Backward | Symmetric.

Fixpoint iterate {A} (n : nat) (f : A -> A) (a : A) : A :=
  match n with O => a | S k => iterate k f (f a) end.

Definition range_of (sw : sweep) (N : Z) : Z * Z * Z :=
  match sw with Backward => (N - 1, -1, -1)%Z | _ => (0%Z, N, 1%Z) end.

(* gauss_seidel(A, x, b, iterations, sweep, omega) on CSR *)
Definition drv_gs_one (omega_is_one : bool) Ap Aj Ax b (omega : F) (sw : sweep) (N : Z) (x : list F) : list F :=
  let '(s, e, st) := range_of sw N in
  if omega_is_one then gauss_seidel Ap Aj Ax x b s e st
  else sor_gauss_seidel Ap Aj Ax x b s e st omega.
(* as written in the working tree: the symmetric branch recurses WITHOUT omega (finding F2) *)
Definition drv_gauss_seidel_csr (pass_omega : bool) Ap Aj Ax b (N : Z) (iterations : nat) (sw : sweep)
           (omega : F) (x : list F) : list F :=
  let one_is := eqb o omega (one o) in
  match sw with
  | Symmetric =>
      let w := if pass_omega then one_is else true in
      iterate iterations (fun x => drv_gs_one w Ap Aj Ax b omega Backward N
                                     (drv_gs_one w Ap Aj Ax b omega Forward N x)) x
  | _ => iterate iterations (drv_gs_one one_is Ap Aj Ax b omega sw N) x
  end.
End Relax.
