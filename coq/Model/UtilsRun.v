From Coq Require Import ZArith List Bool PrimFloat.
Import ListNotations.
Require Import PV.Base.Ops PV.Model.Utils.
Open Scope Z_scope.
(* kind 0 csc_scale_columns, 1 csc_scale_rows, 2 filter_matrix_rows, 3 filter (lump), 4 truncate_rows_csr
   (kind, zs, theta, Ap, Aj, Ax, Xx, expected Aj, expected Ax) *)
Definition caseT := (nat * list Z * float * list Z * list Z * list float * list float * list Z * list float)%type.
Definition chk (c : caseT) : bool :=
  let '(kind, zs, theta, Ap, Aj, Ax, Xx, eAj, eAx) := c in
  let a k := nth k zs 0 in
  match kind with
  | 0%nat => list_eqb PrimFloat.eqb (csc_scale_columns opsF (a 0%nat) Ap Ax Xx) eAx
  | 1%nat => list_eqb PrimFloat.eqb (csc_scale_rows opsF (a 0%nat) Ap Aj Ax Xx) eAx
  | 2%nat => list_eqb PrimFloat.eqb (filter_matrix_rows opsF (a 0%nat) theta Ap Aj Ax false) eAx
  | 3%nat => list_eqb PrimFloat.eqb (filter_matrix_rows opsF (a 0%nat) theta Ap Aj Ax true) eAx
  | _ => let '(j, x) := truncate_rows_csr opsF (a 0%nat) (a 1%nat) Ap Aj Ax in list_eqb Z.eqb j eAj && list_eqb PrimFloat.eqb x eAx
  end.
