(* C06: the control skeleton shared by gmres_mgs, gmres_householder and fgmres (pyamg/krylov/_gmres_mgs.py,
   _gmres_householder.py, _fgmres.py):

     residuals[:] = [r0]; if r0 < thr: return x, 0
     niter = 0
     for outer in range(max_outer):
         for inner in range(max_inner):
             ... one Arnoldi step ...                      niter += 1      (counted here)
             if inner < max_inner - 1:
                 normr = est(outer, inner)                 # |g[inner+1]|
                 if normr < thr: break
                 residuals.append(normr); callback(x + update)
         x += update of the inner+1 steps performed; normr = recomputed residual norm
         callback(x); residuals.append(normr)
         if stagnated: return x, -1
         if normr < thr: return x, 0
     return x, niter

   [est], [tru] (recomputed norm after an outer iteration that used k inner steps) and [stag] are the observations;
   [count_before] = true is the code as it stands (every Arnoldi step is counted); false is fgmres before its
   repair, which counted a step only after the convergence test had not fired (kept for the refutation theorem). *)
From Coq Require Import ZArith List Arith Lia Bool.
Import ListNotations.

Section G.
Variables (F : Type) (ltb : F -> F -> bool).
Variable thr : F.
Variable count_before : bool.
Variables (max_outer max_inner : nat).
Variable est : nat -> nat -> F.
Variable tru : nat -> nat -> F.
Variable stag : nat -> nat -> bool.

(* history, number of callbacks, the solver's counter, and (ghost) the number of Arnoldi steps performed *)
Record gst := { hist : list F; ncb : nat; niter : nat; steps : nat }.
Definition bump (s : gst) : gst := {| hist := hist s; ncb := ncb s; niter := S (niter s); steps := steps s |}.
Definition step1 (s : gst) : gst := {| hist := hist s; ncb := ncb s; niter := niter s; steps := S (steps s) |}.
Definition emit (s : gst) (v : F) : gst := {| hist := hist s ++ [v]; ncb := S (ncb s); niter := niter s; steps := steps s |}.

(* the inner loop from index [inner] on; returns the state and the number of inner steps performed *)
Fixpoint inner_loop (fuel inner outer : nat) (s : gst) : gst * nat :=
  match fuel with
  | O => (s, inner)
  | S f =>
    let s0 := step1 s in
    let s1 := if count_before then bump s0 else s0 in
    if inner <? max_inner - 1 then
      let e := est outer inner in
      if ltb e thr then (s1, S inner)
      else let s2 := emit s1 e in
           inner_loop f (S inner) outer (if count_before then s2 else bump s2)
    else ((if count_before then s1 else bump s1), S inner)
  end.

Fixpoint outer_loop (fuel outer : nat) (s : gst) : Z * gst :=
  match fuel with
  | O => (Z.of_nat (niter s), s)
  | S f =>
    let '(s1, k) := inner_loop max_inner 0 outer s in
    let t := tru outer k in
    let s2 := emit s1 t in
    if stag outer k then ((-1)%Z, s2)
    else if ltb t thr then (0%Z, s2)
    else outer_loop f (S outer) s2
  end.

Definition gmres_ctl (r0 : F) : Z * gst :=
  let s0 := {| hist := [r0]; ncb := 0; niter := 0; steps := 0 |} in
  if ltb r0 thr then (0%Z, s0) else outer_loop max_outer 0 s0.
End G.
Arguments hist {F}. Arguments ncb {F}. Arguments niter {F}. Arguments steps {F}.
