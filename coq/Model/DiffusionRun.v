(* C20 run-side: diffusion_stencil_2d(eps, theta, type) against the Gallina stencils, bit for bit.
   case = (type (0 FE, 1 FD), (eps, C*S, C**2, S**2) with C = cos theta, S = sin theta as the library computes them
   (cos, sin and pow are libm's), the 3x3 array returned by the library). *)
From Coq Require Import ZArith List Bool PrimFloat.
Import ListNotations.
Require Import PV.Base.Ops PV.Model.Diffusion.

Definition diff_case := (nat * (float * float * float * float) * list (list float))%type.
Definition diff_chk (c : diff_case) : bool :=
  let '(typ, (eps, cs, cc, ss), expected) := c in
  let st := match typ with O => fe_stencil_of opsF eps cs cc ss | _ => fd_stencil_of opsF eps cs cc ss end in
  list_eqb (list_eqb PrimFloat.eqb) st expected.
