(* C20 run-side: diffusion_stencil_2d(eps, theta, type) against the Gallina stencils, bit for bit.
   case = (type (0 FE, 1 FD), (eps, cos theta, sin theta), the 3x3 array returned by the library). *)
From Coq Require Import ZArith List Bool PrimFloat.
Import ListNotations.
Require Import PV.Base.Ops PV.Model.Diffusion.

Definition diff_case := (nat * (float * float * float) * list (list float))%type.
Definition diff_chk (c : diff_case) : bool :=
  let '(typ, (eps, cs, sn), expected) := c in
  let st := match typ with O => fe_stencil opsF eps cs sn | _ => fd_stencil opsF eps cs sn end in
  list_eqb (list_eqb PrimFloat.eqb) st expected.
