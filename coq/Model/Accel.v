(* C08: the `accel` branch of MultilevelSolver.solve (pyamg/multilevel.py) and the black-box
   configuration (pyamg/blackbox.py), as control logic.

   accel branch:  M := aspreconditioner(cycle)   -- one cycle from the zero guess (C03)
     try   accel(A, b, x0, tol, maxiter, M, callback, residuals)        (PyAMG-style interface)
     except TypeError:                                                   (SciPy-style interface)
           residuals[:] = [ ||b - A x0|| ];  callback_wrapper appends one entry per call
           accel(A, b, x0, maxiter, M, callback_wrapper, rtol = tol, atol = 0)            *)
From Coq Require Import List Arith Bool.
Import ListNotations.
Require Import PV.Model.Cycle.

Section Accel.
Variables (V F : Type).
Variable rn : V -> F.                       (* || b - A x || *)
Inductive cbarg := CbVec (x : V) | CbScalar (s : F).     (* SciPy solvers pass iterates or residual norms *)

(* what the wrapping callback does to the residual list, and what it forwards to the user *)
Definition wrapper_step (res : list F) (c : cbarg) : list F :=
  res ++ [match c with CbVec x => rn x | CbScalar s => s end].
Definition fallback_history (x0 : V) (calls : list cbarg) : list F := fold_left wrapper_step calls [rn x0].
Definition forwarded (calls : list cbarg) : list cbarg := calls.

(* interface selection: native accelerators accept `residuals`, SciPy ones raise TypeError *)
Inductive style := PyAMGStyle | SciPyStyle.
Record call := { c_tol_as_rtol : bool; c_atol_zero : bool; c_seeded : bool }.
Definition accel_call (s : style) : call :=
  match s with
  | PyAMGStyle => {| c_tol_as_rtol := false; c_atol_zero := false; c_seeded := false |}
  | SciPyStyle => {| c_tol_as_rtol := true; c_atol_zero := true; c_seeded := true |}
  end.

(* black-box: the accelerator is chosen from the symmetry flag stored on the level-0 matrix *)
Inductive sym := Hermitian | Nonsymmetric.
Inductive accel_name := CG | GMRES.
Definition blackbox_accel (s : sym) : accel_name := match s with Hermitian => CG | Nonsymmetric => GMRES end.
End Accel.
