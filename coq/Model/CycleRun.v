(* C03 run side: the cycle model instantiated on dense rational data. *)
From Coq Require Import ZArith List QArith Bool.
Import ListNotations.
Require Import PV.Base.Ops PV.Model.Cycle.

Definition vec := list Q.
Definition mat := list (list Q).
Definition qadd (a b : Q) := Qred (a + b).
Definition qsub (a b : Q) := Qred (a - b).
Definition qmul (a b : Q) := Qred (a * b).
Fixpoint map2 (f : Q -> Q -> Q) (u v : vec) : vec :=
  match u, v with a :: u', b :: v' => f a b :: map2 f u' v' | _, _ => [] end.
Definition dotq (u v : vec) : Q := fold_left qadd (map2 qmul u v) 0.
Definition mv (M : mat) (v : vec) : vec := map (fun row => dotq row v) M.
Definition grpQ (n : nat) : Grp vec := mkGrp vec (repeat 0 n) (map2 qadd) (map2 qsub).

(* a fine level: (n, A, Bpre, Bpost, P, R) ; the coarsest: (n, A, Ainv) *)
Definition lvl := (nat * mat * mat * mat * mat * mat)%type.
Fixpoint build (ls : list lvl) (nc : nat) (Ac Ainv : mat) : hier vec :=
  match ls with
  | [] => Coarsest vec (grpQ nc) (mv Ac) (mv Ainv)
  | (n, A, Bpre, Bpost, P, R) :: t =>
      Level vec (grpQ n) (mv A) (mv Bpre) (mv Bpost) vec (mv P) (mv R) (build t nc Ac Ainv)
  end.
Definition ct_of (z : Z) : ctype := match z with 0%Z => CV | 1%Z => CW | _ => CF end.

(* ((levels, (nc, Ac, Ainv)), cycle type, cpl, number of cycles, x0, b, expected x) *)
Definition caseT := (list lvl * (nat * mat * mat) * Z * nat * nat * vec * vec * vec)%type.
Definition chk (c : caseT) : bool :=
  let '(ls, (nc, Ac, Ainv), ct, cpl, k, x0, b, expected) := c in
  let h := build ls nc Ac Ainv in
  list_eqb Qeq_bool (repeat_fn k (fun x => cycle h (ct_of ct) cpl x b) x0) expected.
(* the preconditioner: M b, both through the cycle from zero and through the textbook operator *)
Definition chkM (c : caseT) : bool :=
  let '(ls, (nc, Ac, Ainv), ct, cpl, k, x0, b, expected) := c in
  let h := build ls nc Ac Ainv in
  list_eqb Qeq_bool (Mtb h (ct_of ct) cpl b) expected &&
  list_eqb Qeq_bool (cycle h (ct_of ct) cpl (gz (hgrp h)) b) expected.
