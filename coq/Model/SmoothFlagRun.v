(* C05 run side: the flag model evaluated on the configurations the harness enumerated,
   with the method lists read from the working-tree source. *)
From Coq Require Import ZArith List Bool.
Import ListNotations.
Require Import PV.Base.Ops PV.Model.SmoothFlag.
Open Scope Z_scope.

Definition sp (m it f c s : Z) : spec := mkSpec m it f c s.
Definition dspec : spec := mkSpec (-1) 1 1 1 0.
(* (symlist, krylist, (cf_j, fc_j, cf_bj, fc_bj), prefixed ids, pre, post, L, expected) *)
Definition caseT := (list Z * list Z * (Z * Z * Z * Z) * list Z * list spec * list spec * nat * bool)%type.
Definition chk (c : caseT) : bool :=
  let '(sl, kl, (a, b, cc, dd), pref, pre, post, L, expected) := c in
  Bool.eqb (flag sl kl a b cc dd (fun m => memz m pref) dspec pre post L) expected.

(* the methods whose (sweep-paired) preconditioner form is A-self-adjoint by the lemmas of
   Algebra/Hermitian.v + C09: ids are fixed by the harness' alphabetical numbering and are
   compared by name on the Python side; here: the structural requirement on the source lists *)
Definition subset (a b : list Z) : bool := forallb (fun x => memz x b) a.
