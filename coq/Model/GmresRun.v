(* C06 run side: the GMRES control skeleton fed the observed estimates / recomputed norms. *)
From Coq Require Import ZArith List Bool PrimFloat.
Import ListNotations.
Require Import PV.Base.Ops PV.Model.GmresCtl.

(* (thr, r0, max_outer, max_inner, est[outer][inner], tru[outer][k], (status, history, #callbacks)) *)
Definition caseT := (float * float * nat * nat * list (list float) * list (list float) * (Z * list float * nat))%type.
Definition chk (c : caseT) : bool :=
  let '(thr, r0, mo, mi, es, ts, (st, res, n)) := c in
  let g (ll : list (list float)) (a b : nat) := nth b (nth a ll []) nan in
  let '(st', s') := gmres_ctl float PrimFloat.ltb thr true mo mi (g es) (g ts) (fun _ _ => false) r0 in
  Z.eqb st' st && list_eqb PrimFloat.eqb (hist s') res && Nat.eqb (ncb s') n.
