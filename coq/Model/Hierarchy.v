(* C04: the coarsening loop shared by the constructors
     while len(levels) < max_levels and size(levels[-1]) > max_coarse:
         bottom = _extend_hierarchy(...);  if bottom: break          (classical, AIR)
         _extend_hierarchy(...)                                      (SA, root-node, pairwise)
   over the list of level sizes; the level extension is an oracle that either stalls or
   yields the next (coarse) size.  size = rows / blocksize. *)
From Coq Require Import List Arith Bool Lia.
Import ListNotations.

Inductive outcome := Stall | Next (nc : nat).

Section Loop.
Variable step : nat -> nat -> outcome.      (* level index, its size *)
Variables (max_levels max_coarse : nat).

Fixpoint grow (fuel : nat) (sizes : list nat) : option (list nat) :=
  match fuel with
  | O => None
  | S f =>
    if (length sizes <? max_levels) && (max_coarse <? last sizes 0) then
      match step (length sizes - 1) (last sizes 0) with
      | Stall => Some sizes
      | Next nc => grow f (sizes ++ [nc])
      end
    else Some sizes
  end.
Definition build (n0 : nat) : option (list nat) := grow (S max_levels) [n0].
End Loop.
