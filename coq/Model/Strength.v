(* Models of the strength-of-connection code paths (C14).

   amg_core::classical_strength_of_connection_abs / _min   (ruge_stuben.h)
   amg_core::symmetric_strength_of_connection              (smoothed_aggregation.h)
   amg_core::maximum_row_value                             (ruge_stuben.h)
   pyamg.strength.classical_strength_of_connection / symmetric_... tails:
       S.data = abs(S.data); scale_rows_by_largest_entry; eliminate_zeros

   A CSR matrix is read through (Ap, Aj, Ax) exactly as the kernels do; the
   kernels emit the kept entries of each row in storage order, which is a
   [filter] of the row's entries, and Sp is the running count. *)
From Coq Require Import ZArith List Bool.
Import ListNotations.
Require Import PV.Base.Ops.

Section Strength.
Context {F : Type} (o : Ops F).

(* entries (column, value) of row i in storage order *)
Definition row_entries (Ap Aj : list Z) (Ax : list F) (i : Z) : list (Z * F) :=
  map (fun jj => (nthZ Aj jj 0%Z, nthZ Ax jj (zero o)))
      (zrange (nthZ Ap i 0%Z) (nthZ Ap (i + 1) 0%Z)).

Definition csr_rows (n : Z) (Ap Aj : list Z) (Ax : list F) : list (list (Z * F)) :=
  map (row_entries Ap Aj Ax) (zrange 0 n).

(* rows -> (Sp, Sj, Sx) *)
Fixpoint ptr_of_rows {A} (acc : Z) (rs : list (list A)) : list Z :=
  match rs with
  | [] => []
  | r :: t => let acc' := (acc + Z.of_nat (length r))%Z in acc' :: ptr_of_rows acc' t
  end.
Definition flatten_rows (rs : list (list (Z * F))) : list Z * list Z * list F :=
  (0%Z :: ptr_of_rows 0%Z rs, map fst (concat rs), map snd (concat rs)).

(* ---- classical, norm = 'abs' ------------------------------------------- *)
(* max_offdiagonal: starts from numeric_limits<F>::min() = [tiny] *)
Definition offdiag_max (tiny : F) (i : Z) (r : list (Z * F)) : F :=
  fold_left (fun m e => if Z.eqb (fst e) i then m else maxF o m (abs o (snd e))) r tiny.

Definition keep_abs (thr : F) (i : Z) (e : Z * F) : bool :=
  Z.eqb (fst e) i || leb o thr (abs o (snd e)).

Definition cls_abs_row (tiny theta : F) (i : Z) (r : list (Z * F)) : list (Z * F) :=
  filter (keep_abs (mul o theta (offdiag_max tiny i r)) i) r.

(* ---- classical, norm = 'min' ------------------------------------------- *)
Definition offdiag_max_neg (i : Z) (r : list (Z * F)) : F :=
  fold_left (fun m e => if Z.eqb (fst e) i then m else maxF o m (opp o (snd e))) r (zero o).

Definition keep_min (thr : F) (i : Z) (e : Z * F) : bool :=
  Z.eqb (fst e) i || leb o thr (opp o (snd e)).

Definition cls_min_row (theta : F) (i : Z) (r : list (Z * F)) : list (Z * F) :=
  filter (keep_min (mul o theta (offdiag_max_neg i r)) i) r.

(* ---- symmetric ---------------------------------------------------------- *)
(* diags[i] = | sum of the stored diagonal entries of row i | *)
Definition diag_norm (i : Z) (r : list (Z * F)) : F :=
  abs o (fold_left (fun d e => if Z.eqb (fst e) i then add o d (snd e) else d) r (zero o)).

Definition keep_sym (theta : F) (diags : list F) (i : Z) (e : Z * F) : bool :=
  Z.eqb i (fst e) ||
  leb o (mul o (mul o (mul o theta theta) (nthZ diags i (zero o))) (nthZ diags (fst e) (zero o)))
        (mul o (snd e) (snd e)).

Definition sym_rows (theta : F) (rs : list (list (Z * F))) : list (list (Z * F)) :=
  let diags := map (fun p => diag_norm (fst p) (snd p)) (combine (zrange 0 (Z.of_nat (length rs))) rs) in
  map (fun p => filter (keep_sym theta diags (fst p)) (snd p))
      (combine (zrange 0 (Z.of_nat (length rs))) rs).

(* ---- the Python tail ---------------------------------------------------- *)
(* maximum_row_value *)
Definition row_max (tiny : F) (r : list (Z * F)) : F :=
  fold_left (fun m e => maxF o m (abs o (snd e))) r tiny.
(* largest[largest != 0] = 1.0 / largest[...];  csr_scale_rows: a * x[i] *)
Definition recip (m : F) : F := if eqb o m (zero o) then m else div o (one o) m.
Definition scale_row (tiny : F) (r : list (Z * F)) : list (Z * F) :=
  let s := recip (row_max tiny r) in map (fun e => (fst e, mul o (snd e) s)) r.
Definition abs_row (r : list (Z * F)) : list (Z * F) := map (fun e => (fst e, abs o (snd e))) r.
Definition drop_zeros (r : list (Z * F)) : list (Z * F) :=
  filter (fun e => negb (eqb o (snd e) (zero o))) r.

Definition with_index {A} (rs : list A) : list (Z * A) :=
  combine (zrange 0 (Z.of_nat (length rs))) rs.

(* classical_strength_of_connection(A, theta, norm) for CSR input *)
Definition classical_abs (tiny theta : F) (rs : list (list (Z * F))) : list (list (Z * F)) :=
  map (fun p => drop_zeros (scale_row tiny (abs_row (cls_abs_row tiny theta (fst p) (snd p)))))
      (with_index rs).
Definition classical_min (tiny theta : F) (rs : list (list (Z * F))) : list (list (Z * F)) :=
  map (fun p => drop_zeros (scale_row tiny (abs_row (cls_min_row theta (fst p) (snd p)))))
      (with_index rs).
(* symmetric_strength_of_connection(A, theta) for CSR input (no eliminate_zeros) *)
Definition symmetric (tiny theta : F) (rs : list (list (Z * F))) : list (list (Z * F)) :=
  map (fun r => scale_row tiny (abs_row r)) (sym_rows theta rs).

(* kernel-level outputs, as the arrays the kernels fill *)
Definition k_classical_abs tiny theta n Ap Aj Ax :=
  flatten_rows (map (fun p => cls_abs_row tiny theta (fst p) (snd p)) (with_index (csr_rows n Ap Aj Ax))).
Definition k_classical_min theta n Ap Aj Ax :=
  flatten_rows (map (fun p => cls_min_row theta (fst p) (snd p)) (with_index (csr_rows n Ap Aj Ax))).
Definition k_symmetric theta n Ap Aj Ax :=
  flatten_rows (sym_rows theta (csr_rows n Ap Aj Ax)).

End Strength.
