(* C10: fit_candidates_common (pyamg/amg_core/smoothed_aggregation.h): for each aggregate the
   rows of B belonging to it are copied into a local tall matrix whose K2 columns are then
   orthonormalised by modified Gram-Schmidt with a drop threshold; R holds the coefficients.
   The local matrix is handled column-wise: [cols] = the K2 columns (lists of equal length). *)
From Coq Require Import ZArith List Bool.
Import ListNotations.
Require Import PV.Base.Ops.

Section Fit.
Context {F : Type} (o : Ops F).
Variable fsqrt : F -> F.
Notation "0" := (zero o).
Notation "a + b" := (add o a b). Notation "a - b" := (sub o a b). Notation "a * b" := (mul o a b).

Fixpoint vmap2 (f : F -> F -> F) (u v : list F) : list F :=
  match u, v with a :: u', b :: v' => f a b :: vmap2 f u' v' | _, _ => [] end.
Definition vdot (u v : list F) : F := fold_left (fun acc p => acc + snd p * fst p) (combine u v) 0.   (* += dot(u_k, v_k) = v_k * u_k *)
Definition vnormsq (u : list F) : F := fold_left (fun acc a => acc + a * a) u 0.
Definition vaxmy (d : F) (q v : list F) : list F := vmap2 (fun vk qk => vk - d * qk) v q.           (* v - d q *)
Definition vscale (s : F) (v : list F) : list F := map (fun a => a * s) v.

(* orthogonalise column v against the already processed columns qs (in order); returns the
   remainder and the coefficients *)
Definition ortho (qs : list (list F)) (v : list F) : list F * list F :=
  fold_left (fun (acc : list F * list F) q =>
      let d := vdot (fst acc) q in (vaxmy d q (fst acc), snd acc ++ [d])) qs (v, []).

(* one column bj: (q_bj, column bj of R restricted to rows 0..bj) *)
Definition mgs_col (tol : F) (qs : list (list F)) (col : list F) : list F * list F :=
  let norm0 := fsqrt (vnormsq col) in
  let thr := tol * norm0 in
  let '(v, ds) := ortho qs col in
  let nrm := fsqrt (vnormsq v) in
  if ltb o thr nrm then (vscale (div o (one o) nrm) v, ds ++ [nrm])
  else (vscale 0 v, ds ++ [0]).

(* all columns of one aggregate: (Q columns, R columns) *)
Definition mgs (tol : F) (cols : list (list F)) : list (list F) * list (list F) :=
  fold_left (fun (acc : list (list F) * list (list F)) col =>
      let '(q, r) := mgs_col tol (fst acc) col in (fst acc ++ [q], snd acc ++ [r])) cols ([], []).
End Fit.
