(* C20: pyamg.gallery.poisson as written: the (3,)*N stencil with -1 at the 2N face neighbours and 2N at the centre (FD), or -1
   everywhere and 3^N - 1 at the centre (FE), handed to stencil_grid. *)
From Coq Require Import ZArith List Bool.
Import ListNotations.
Require Import PV.Base.Ops PV.Model.Stencil PV.Model.StencilRun.
Open Scope Z_scope.

Definition ndiff (t : list Z) : nat := length (filter (fun x => negb (x =? 1)) t).
Definition poisson_fd (N : nat) (t : list Z) : Z :=
  match ndiff t with O => 2 * Z.of_nat N | S O => -1 | _ => 0 end.
Definition poisson_fe (N : nat) (t : list Z) : Z :=
  match ndiff t with O => 3 ^ Z.of_nat N - 1 | _ => -1 end.
Definition poisson_shape (N : nat) : list Z := repeat 3 N.
Definition poissonZ (fe : bool) (g : list Z) : list (list Z) :=
  let N := length g in
  sgZ (poisson_shape N) g (map (if fe then poisson_fe N else poisson_fd N) (box (poisson_shape N))).
(* (FE?, grid, expected dense matrix) *)
Definition chkP (c : bool * list Z * list (list Z)) : bool :=
  let '(fe, g, expected) := c in list_eqb (list_eqb Z.eqb) (poissonZ fe g) expected.
