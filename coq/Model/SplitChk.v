(* C17: checked twin of the Ruge-Stuben first-pass splitting model (Model/Split.v): the same
   statements, but every read and write of lambda, interval_ptr, interval_count, index_to_node,
   node_to_index, splitting, Sp, Sj, Tp, Tj and influence is bounds-checked; the result is None
   as soon as one index falls outside its array (the bucket arrays have lambda_max =
   max(2*max lambda, n+1) entries, exactly as the C code allocates them). *)
From Coq Require Import ZArith List Bool.
Import ListNotations.
Require Import PV.Model.GraphAlg PV.Model.Split.
Open Scope Z_scope.

Definition cget (l : list Z) (i : Z) : option Z := if i <? 0 then None else nth_error l (Z.to_nat i).
Definition cset (l : list Z) (i v : Z) : option (list Z) :=
  if i <? 0 then None else if (Z.to_nat i <? length l)%nat then Some (setn l (Z.to_nat i) v) else None.
Definition obind {A B} (x : option A) (f : A -> option B) : option B := match x with Some a => f a | None => None end.
Notation "x <- e ;; k" := (obind e (fun x => k)) (at level 60, e at next level, right associativity).
Fixpoint ofold {A B} (f : A -> B -> option A) (l : list B) (a : A) : option A :=
  match l with [] => Some a | b :: t => a' <- f a b ;; ofold f t a' end.
Fixpoint omap {A B} (f : A -> option B) (l : list A) : option (list B) :=
  match l with [] => Some [] | a :: t => b <- f a ;; r <- omap f t ;; Some (b :: r) end.

Definition mk (l p c a b s : list Z) : st := {| lam := l; iptr := p; icnt := c; i2n := a; n2i := b; spl := s |}.

Definition swap_pos_chk (s : st) (old_pos new_pos : Z) : option st :=
  a <- cget (i2n s) old_pos ;;
  n2i1 <- cset (n2i s) a new_pos ;;
  b <- cget (i2n s) new_pos ;;
  n2i2 <- cset n2i1 b old_pos ;;
  t1 <- cset (i2n s) old_pos b ;;
  t2 <- cset t1 new_pos a ;;
  Some (mk (lam s) (iptr s) (icnt s) t2 n2i2 (spl s)).

Definition incr_lambda_chk (n : Z) (s : st) (k : Z) : option st :=
  sk <- cget (spl s) k ;;
  if negb (sk =? U_NODE) then Some s else
  lk <- cget (lam s) k ;;
  if lk >=? n - 1 then Some s else
  old_pos <- cget (n2i s) k ;;
  p <- cget (iptr s) lk ;;
  c <- cget (icnt s) lk ;;
  let new_pos := p + c - 1 in
  s1 <- swap_pos_chk s old_pos new_pos ;;
  c0 <- cget (icnt s1) lk ;;
  c1 <- cset (icnt s1) lk (c0 - 1) ;;
  c0' <- cget c1 (lk + 1) ;;
  c2 <- cset c1 (lk + 1) (c0' + 1) ;;
  p' <- cset (iptr s1) (lk + 1) new_pos ;;
  l' <- cset (lam s1) k (lk + 1) ;;
  Some (mk l' p' c2 (i2n s1) (n2i s1) (spl s1)).

Definition decr_lambda_chk (s : st) (j : Z) : option st :=
  sj <- cget (spl s) j ;;
  if negb (sj =? U_NODE) then Some s else
  lj <- cget (lam s) j ;;
  if lj =? 0 then Some s else
  old_pos <- cget (n2i s) j ;;
  new_pos <- cget (iptr s) lj ;;
  s1 <- swap_pos_chk s old_pos new_pos ;;
  c0 <- cget (icnt s1) lj ;;
  c1 <- cset (icnt s1) lj (c0 - 1) ;;
  c0' <- cget c1 (lj - 1) ;;
  c2 <- cset c1 (lj - 1) (c0' + 1) ;;
  p0 <- cget (iptr s1) lj ;;
  p1 <- cset (iptr s1) lj (p0 + 1) ;;
  p1j <- cget p1 lj ;;
  c2j <- cget c2 (lj - 1) ;;
  p2 <- cset p1 (lj - 1) (p1j - c2j) ;;
  l' <- cset (lam s1) j (lj - 1) ;;
  Some (mk l' p2 c2 (i2n s1) (n2i s1) (spl s1)).

Section RS.
Variables (n : Z) (Sp Sj Tp Tj infl : list Z).
Definition row_chk (P J : list Z) (i : Z) : option (list Z) :=
  a <- cget P i ;; b <- cget P (i + 1) ;; omap (cget J) (zr a b).

Definition make_C_chk (s : st) (i : Z) : option st :=
  v1 <- cset (spl s) i C_NODE ;;
  let s1 := with_spl s v1 in
  ti <- row_chk Tp Tj i ;;
  s2 <- ofold (fun s j => sj <- cget (spl s) j ;;
                 if sj =? U_NODE then v <- cset (spl s) j PRE_F_NODE ;; Some (with_spl s v) else Some s) ti s1 ;;
  s3 <- ofold (fun s j => sj <- cget (spl s) j ;;
                 if sj =? PRE_F_NODE then
                   v <- cset (spl s) j F_NODE ;;
                   sr <- row_chk Sp Sj j ;;
                   ofold (incr_lambda_chk n) sr (with_spl s v)
                 else Some s) ti s2 ;;
  si <- row_chk Sp Sj i ;;
  ofold decr_lambda_chk si s3.

Fixpoint main_chk (tops : list Z) (s : st) : option st :=
  match tops with
  | [] => Some s
  | top :: rest =>
    i <- cget (i2n s) top ;;
    li <- cget (lam s) i ;;
    c0 <- cget (icnt s) li ;;
    c1 <- cset (icnt s) li (c0 - 1) ;;
    let s1 := mk (lam s) (iptr s) c1 (i2n s) (n2i s) (spl s) in
    li' <- cget (lam s1) i ;;
    if li' <=? 0 then Some s1
    else si <- cget (spl s1) i ;;
         if si =? U_NODE then s2 <- make_C_chk s1 i ;; main_chk rest s2 else main_chk rest s1
  end.

Definition init_chk : option st :=
  let nodes := zr 0 n in
  lambda <- omap (fun i => a <- cget Tp (i + 1) ;; b <- cget Tp i ;; c <- cget infl i ;; Some (a - b + c)) nodes ;;
  let lmax0 := fold_left Z.max lambda 0 in
  let lmax := Z.max (2 * lmax0) (n + 1) in
  let zeros := map (fun _ => 0) (zr 0 lmax) in
  cnt <- ofold (fun c i => l <- cget lambda i ;; v <- cget c l ;; cset c l (v + 1)) nodes zeros ;;
  pc <- ofold (fun (pc : list Z * Z) l => v <- cget cnt l ;; p' <- cset (fst pc) l (snd pc) ;; Some (p', snd pc + v))
              (zr 0 lmax) (zeros, 0) ;;
  let ptr := fst pc in
  let zn := map (fun _ => 0) nodes in
  r <- ofold (fun (t : list Z * list Z * list Z) i =>
        let '(c, a, b) := t in
        l <- cget lambda i ;; p <- cget ptr l ;; v <- cget c l ;;
        let idx := p + v in
        c' <- cset c l (v + 1) ;; a' <- cset a idx i ;; b' <- cset b i idx ;; Some (c', a', b')) nodes (zeros, zn, zn) ;;
  let '(c2, i2n0, n2i0) := r in
  spl0 <- omap (fun i => l <- cget lambda i ;;
                  if l =? 0 then Some F_NODE
                  else if l =? 1 then (tp <- cget Tp i ;; tq <- cget Tp (i + 1) ;;
                                       if tp <? tq then tj <- cget Tj tp ;; Some (if tj =? i then F_NODE else U_NODE)
                                       else Some U_NODE)
                  else Some U_NODE) nodes ;;
  Some (mk lambda ptr c2 i2n0 n2i0 spl0).

Definition rs_cf_splitting_chk : option (list Z) :=
  s0 <- init_chk ;;
  s <- main_chk (rev (zr 0 n)) s0 ;;
  Some (map (fun v => if v =? U_NODE then F_NODE else v) (spl s)).
End RS.
