(* C15: a built solver as an immutable hierarchy plus lazily filled caches (coarse
   factorisation, spectral-radius estimates rho / rho_D_inv / rho_block_D_inv, Schwarz
   parameters, format copies, block-diagonal inverses).  Every cache entry is read through
   "compute if absent" and its value is a function of the hierarchy only. *)
From Coq Require Import List Bool.
Import ListNotations.

Section Cache.
Variables (K Val Arg Out : Type).
Variable keq : K -> K -> bool.
Variable def : K -> Val.                         (* the defining function of cache entry k *)
Variable uses : Arg -> list K.                   (* the entries an operation touches *)
Variable out : Arg -> (K -> Val) -> Out.         (* its result, from the values it reads *)

Definition state := K -> option Val.
Definition fill (s : state) (k : K) : state :=
  match s k with Some _ => s | None => fun k' => if keq k' k then Some (def k) else s k' end.
Definition view (s : state) (k : K) : Val := match s k with Some v => v | None => def k end.
(* one operation (a solve, an aspreconditioner application, ...) *)
Definition step (s : state) (a : Arg) : state * Out :=
  let s' := fold_left fill (uses a) s in (s', out a (view s')).
Fixpoint run (s : state) (ops : list Arg) : state :=
  match ops with [] => s | a :: t => run (fst (step s a)) t end.
Definition empty : state := fun _ => None.
End Cache.
