(* C06: the control skeleton shared by cg, cr, cgne, cgnr, bicgstab, steepest_descent and
   minimal_residual (pyamg/krylov/_*.py):

     r0 ...; residuals[:] = [hist x0]; if crit x0 < thr x0: return x0, 0        (early exit)
     while True: x = step x; it += 1; residuals.append(hist x); callback(x)
                 if crit x < thr x: return x, 0
                 if it == maxiter:  return x, it

   hist: the norm recorded in the history (||r||), crit: the tested quantity (||r||, ||Mr|| or
   sqrt(<r,Mr>)), thr: the threshold (may depend on x for criteria 'rr+').  It is the loop of
   C01 (Solve.v) at the instance where a history entry is the triple (hist, crit, thr), plus the
   early exit. *)
From Coq Require Import List Arith Bool.
Import ListNotations.
Require Import PV.Model.Solve.

Section Krylov.
Variables (V F : Type).
Variable ltb : F -> F -> bool.
Variable step : V -> V.
Variables (hist crit thr : V -> F).
Variable maxiter : nat.
Variable early : bool.            (* the solver tests the initial guess before iterating *)

Definition obs (x : V) : F * F * F := (hist x, crit x, thr x).
Definition passes (t _ : F * F * F) : bool := ltb (snd (fst t)) (snd t).

Definition krylov (x0 : V) : option (result V (F * F * F)) :=
  if early && passes (obs x0) (obs x0) then
    Some {| rx := x0; rstatus := 0; rres := [obs x0]; rcb := [] |}
  else solve V (F * F * F) passes step obs (obs x0) maxiter x0.
End Krylov.
