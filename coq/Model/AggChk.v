(* C17: checked twins of standard_aggregation and naive_aggregation (Model/Aggregate.v): the same
   statements with every access to Ap, Aj, x and y bounds-checked (x and y have n entries, as the
   Python caller allocates them); None at the first access outside an array.  The sentinel
   arithmetic (-n marks isolated nodes, negative ids mark pass-2 attachments) is kept literally. *)
From Coq Require Import ZArith List Bool.
Import ListNotations.
Require Import PV.Model.GraphAlg PV.Model.Aggregate PV.Model.SplitChk.
Open Scope Z_scope.

Section Agg.
Variables (n : Z) (Ap Aj : list Z).
Definition nbrs_chk (i : Z) : option (list Z) := row_chk Ap Aj i.

Definition std_pass1_chk (y0 : list Z) : option (list Z * list Z * Z) :=
  ofold (fun (s : list Z * list Z * Z) i =>
      let '(x, y, next) := s in
      xi <- cget x i ;;
      if negb (xi =? 0) then Some s
      else
        row <- nbrs_chk i ;;
        (* the scan (with its break) reads x[j] for every neighbour up to the first aggregated one *)
        scan <- ofold (fun (f : bool * bool) j =>
                  if snd f then Some f
                  else if i =? j then Some f
                  else xj <- cget x j ;; Some (true, negb (xj =? 0))) row (false, false) ;;
        let '(has_nb, has_agg) := scan in
        if negb has_nb then x' <- cset x i (- n) ;; Some (x', y, next)
        else if negb has_agg then
          x1 <- cset x i next ;;
          y' <- cset y (next - 1) i ;;
          x2 <- ofold (fun x j => cset x j next) row x1 ;;
          Some (x2, y', next + 1)
        else Some s)
    (zr 0 n) (fillz n 0, y0, 1).

Definition std_pass2_chk (x : list Z) : option (list Z) :=
  ofold (fun x i =>
      xi <- cget x i ;;
      if negb (xi =? 0) then Some x
      else
        row <- nbrs_chk i ;;
        r <- ofold (fun (f : option Z) j => match f with Some _ => Some f | None =>
                     xj <- cget x j ;; Some (if 0 <? xj then Some xj else None) end) row None ;;
        match r with Some xj => cset x i (- xj) | None => Some x end)
    (zr 0 n) x.

Definition std_pass3_chk (s : list Z * list Z * Z) : option (list Z * list Z * Z) :=
  ofold (fun (s : list Z * list Z * Z) i =>
      let '(x, y, next) := s in
      xi <- cget x i ;;
      if negb (xi =? 0) then
        x' <- cset x i (if 0 <? xi then xi - 1 else if xi =? - n then -1 else - xi - 1) ;; Some (x', y, next)
      else
        row <- nbrs_chk i ;;
        x1 <- cset x i next ;;
        y' <- cset y next i ;;
        x2 <- ofold (fun x j => xj <- cget x j ;; if xj =? 0 then cset x j next else Some x) row x1 ;;
        Some (x2, y', next + 1))
    (zr 0 n) s.

Definition standard_aggregation_chk (y0 : list Z) : option (list Z * list Z * Z) :=
  s1 <- std_pass1_chk y0 ;;
  let '(x1, y1, next1) := s1 in
  x2 <- std_pass2_chk x1 ;;
  std_pass3_chk (x2, y1, next1 - 1).

Definition naive_aggregation_chk (y0 : list Z) : option (list Z * list Z * Z) :=
  r <- ofold (fun (s : list Z * list Z * Z) i =>
        let '(x, y, next) := s in
        xi <- cget x i ;;
        if negb (xi =? 0) then Some s
        else
          row <- nbrs_chk i ;;
          x1 <- cset x i next ;;
          x2 <- ofold (fun x j => xj <- cget x j ;; if xj =? 0 then cset x j next else Some x) row x1 ;;
          y' <- cset y (next - 1) i ;;
          Some (x2, y', next + 1))
      (zr 0 n) (fillz n 0, y0, 1) ;;
  let '(x, y, next) := r in Some (x, y, next - 1).
End Agg.
