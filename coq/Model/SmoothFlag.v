(* C05: the derivation of MultilevelSolver.symmetric_smoothing in
   pyamg.relaxation.smoothing.change_smoothers, as written (three list-length branches with
   the carried-over last (fn, kwargs) pair), and its meaning: the flag is true iff every
   smoothing level's effective (pre, post) pair passes the pairwise test. *)
From Coq Require Import ZArith List Bool Arith Lia.
Import ListNotations.
Open Scope Z_scope.

Record spec := mkSpec { meth : Z; iters : Z; fit : Z; cit : Z; swp : Z }.   (* swp: 0 forward, 1 backward, 2 symmetric *)

Section Flag.
(* constants read from the source on every run *)
Variables (symlist krylist : list Z).        (* SYMMETRIC_RELAXATION, KRYLOV_RELAXATION as method ids *)
Variables (cf_j fc_j cf_bj fc_bj : Z).       (* ids of cf_jacobi, fc_jacobi, cf_block_jacobi, fc_block_jacobi *)
Variable cffc_prefix : Z -> bool.            (* name starts with 'cf_' or 'fc_' *)

Definition memz (x : Z) (l : list Z) : bool := existsb (Z.eqb x) l.
Definition cffc_pair (a b : Z) : bool :=
  ((a =? cf_j) && (b =? fc_j)) || ((a =? fc_j) && (b =? cf_j)) ||
  ((a =? cf_bj) && (b =? fc_bj)) || ((a =? fc_bj) && (b =? cf_bj)).
Definition sweep_ok (s1 s2 : Z) : bool :=
  ((s1 =? 0) && (s2 =? 1)) || ((s1 =? 1) && (s2 =? 0)) || ((s1 =? 2) && (s2 =? 2)).

(* the if/elif chain evaluated for one level *)
Definition pair_ok (p q : spec) : bool :=
  if negb (iters p =? iters q)%Z then false
  else if cffc_pair (meth p) (meth q) then (fit p =? fit q)%Z && (cit p =? cit q)%Z
  else if negb (meth p =? meth q)%Z then false
  else if memz (meth p) krylist || memz (meth q) krylist then false
  else if memz (meth p) symlist then true
  else if cffc_prefix (meth p) then false
  else sweep_ok (swp p) (swp q).

Variable d : spec.
Definition range (a b : nat) : list nat := seq a (b - a)%nat.

(* change_smoothers: L = len(ml.levels[:-1]) smoothing levels *)
Definition flag (pre post : list spec) (L : nat) : bool :=
  let min_len := Nat.min (Nat.min (length pre) (length post)) L in
  let f1 := forallb (fun i => pair_ok (nth i pre d) (nth i post d)) (range 0 min_len) in
  let k1 := nth (min_len - 1)%nat pre d in
  let k2 := nth (min_len - 1)%nat post d in
  if (length pre <? length post)%nat then
    let mid := Nat.min (length post) L in
    f1 && forallb (fun i => pair_ok k1 (nth i post d)) (range min_len mid)
  else if (length post <? length pre)%nat then
    let mid := Nat.min (length pre) L in
    f1 && forallb (fun i => pair_ok (nth i pre d) k2) (range min_len mid)
  else f1.

(* the smoother actually installed on level i: lists are extended by their last entry *)
Definition eff (l : list spec) (i : nat) : spec := nth (Nat.min i (length l - 1)%nat) l d.
Definition flag_spec (pre post : list spec) (L : nat) : bool :=
  forallb (fun i => pair_ok (eff pre i) (eff post i)) (range 0 L).
End Flag.
