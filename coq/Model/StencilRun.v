From Coq Require Import ZArith List Bool.
Import ListNotations.
Require Import PV.Base.Ops PV.Model.Stencil.
Open Scope Z_scope.
Definition sgZ := stencil_grid Z 0 Z.add (fun v => negb (v =? 0)).
Definition specZ := spec Z 0 Z.add (fun v => negb (v =? 0)).
(* (stencil shape, grid, stencil values row-major, expected dense matrix) *)
Definition caseT := (list Z * list Z * list Z * list (list Z))%type.
Definition chk (c : caseT) : bool :=
  let '(shape, g, vals, expected) := c in
  list_eqb (list_eqb Z.eqb) (sgZ shape g vals) expected && list_eqb (list_eqb Z.eqb) (specZ shape g vals) expected.
