(* C06 run side: the control model fed the observed (history, criterion, threshold) triples. *)
From Coq Require Import ZArith List Bool PrimFloat.
Import ListNotations.
Require Import PV.Base.Ops PV.Model.Solve PV.Model.KrylovCtl.

(* (hist, crit, thr per iterate 0..K ; maxiter ; early ; (status, history, #callbacks)) *)
Definition caseT := (list float * list float * list float * nat * bool * (nat * list float * nat))%type.
Definition chk (c : caseT) : bool :=
  let '(hs, cs, ts, maxiter, early, (st, res, ncb)) := c in
  let g (l : list float) (j : nat) := nth j l nan in
  match krylov nat float PrimFloat.ltb S (g hs) (g cs) (g ts) maxiter early 0%nat with
  | None => false
  | Some r => Nat.eqb (rstatus r) st && list_eqb PrimFloat.eqb (map (fun t => fst (fst t)) (rres r)) res
              && Nat.eqb (length (rcb r)) ncb
  end.
