(* C16: coarse_grid_solver (pyamg/multilevel.py) as a state machine: a lazily created,
   cached factorisation; a matrix without nonzeros yields a zero correction; the result takes
   the shape of b. *)
From Coq Require Import List Bool.
Import ListNotations.

Section Coarse.
Variables (Mat Fac V : Type).
Variable factor : Mat -> Fac.             (* pinv / lu_factor / cho_factor / splu (+ Map) *)
Variable apply : Fac -> V -> V.           (* P @ b / lu_solve / cho_solve / Map LU^-1 Map^T b *)
Variable nnz0 : Mat -> bool.              (* A.nnz == 0 *)
Variable zeros_like : V -> V.

Definition state := option Fac.
(* GenericSolver.__call__(A, b) *)
Definition call (s : state) (A : Mat) (b : V) : state * V :=
  if nnz0 A then (s, zeros_like b)
  else match s with
       | Some f => (s, apply f b)
       | None => let f := factor A in (Some f, apply f b)
       end.
(* a history of calls with the same matrix *)
Fixpoint run (s : state) (A : Mat) (bs : list V) : state * list V :=
  match bs with
  | [] => (s, [])
  | b :: t => let '(s1, x) := call s A b in let '(s2, xs) := run s1 A t in (s2, x :: xs)
  end.
End Coarse.
