(* Run-side dispatcher for the graph kernels (C18; extended by C12/C13 files). *)
From Coq Require Import ZArith List Bool.
Import ListNotations.
Require Import PV.Base.Ops PV.Model.GraphAlg.
Open Scope Z_scope.

Definition enc_d (d : option Z) : Z := match d with Some v => v | None => -1 end.
Definition opt_list {A} (o : option (list A)) : list A := match o with Some l => l | None => [] end.
Definition FAIL : list Z := [-99; -99; -99].     (* out of fuel: never equals a real output *)

(* alg, n, Ap, Aj, scalar args, list args -> flat output *)
Definition run_graph (alg : nat) (n : Z) (Ap Aj : list Z) (zs : list Z) (ls : list (list Z)) : list Z :=
  let a k := nth k zs 0 in
  let l k := nth k ls [] in
  match alg with
  | 0%nat => let '(x, N) := mis_serial n Ap Aj (a 0%nat) (a 1%nat) (a 2%nat) (l 0%nat) in N :: x
  | 1%nat => match mis_parallel n Ap Aj WtZ (a 0%nat) (a 1%nat) (a 2%nat) (l 0%nat) (l 1%nat) (a 3%nat) with
             | Some (x, N) => N :: x | None => FAIL end
  | 2%nat => match coloring_mis n Ap Aj with Some (x, K) => K :: x | None => FAIL end
  | 3%nat => match coloring_jp n Ap Aj WtZ (l 0%nat) with Some (x, K) => K :: x | None => FAIL end
  | 4%nat => match coloring_ldf n Ap Aj WtZ (l 0%nat) with Some (x, K) => K :: x | None => FAIL end
  | 5%nat => match bfs n Ap Aj (a 0%nat) (l 0%nat) with
             | Some (order, level, N) => N :: firstn (Z.to_nat N) order ++ level | None => FAIL end
  | 6%nat => match connected_components n Ap Aj with Some (comp, c) => c :: comp | None => FAIL end
  | 7%nat => match bellman_ford n Ap Aj (l 0%nat) (l 1%nat) with
             | Some (d, m, p) => map enc_d d ++ m ++ p | None => FAIL end
  | 8%nat => match mis_k n Ap Aj WtZ (a 0%nat) (l 0%nat) (fun v => v) (a 1%nat) with
             | Some x => x | None => FAIL end
  | _ => FAIL
  end.

Definition caseT := (nat * Z * list Z * list Z * list Z * list (list Z) * list Z)%type.
Definition chk (c : caseT) : bool :=
  let '(alg, n, Ap, Aj, zs, ls, expected) := c in
  list_eqb Z.eqb (run_graph alg n Ap Aj zs ls) expected.
