(* The multigrid cycle of MultilevelSolver.__solve (pyamg/multilevel.py) over a
   hierarchy of abstract vector types: one Gallina definition, executed on
   [list Q] by the correspondence check and reasoned about for every family of
   additive groups and additive maps (Proofs/CycleProofs.v).

   Each level carries its operators as functions:  A, the pre-/post-smoother
   correctors Bpre, Bpost (a stationary smoother is  x <- x + B (b - A x)),
   prolongation P, restriction R; the coarsest level carries the direct solve. *)
From Coq Require Import List Arith.
Import ListNotations.

Record Grp (V : Type) := mkGrp { gz : V; gadd : V -> V -> V; gsub : V -> V -> V }.
Arguments gz {V}. Arguments gadd {V}. Arguments gsub {V}.

Inductive hier : Type -> Type :=
| Coarsest (V : Type) (g : Grp V) (A Ainv : V -> V) : hier V
| Level (V : Type) (g : Grp V) (A Bpre Bpost : V -> V)
        (Vc : Type) (P : Vc -> V) (R : V -> Vc) (h : hier Vc) : hier V.

Inductive ctype := CV | CW | CF.

Definition hgrp {V} (h : hier V) : Grp V :=
  match h with Coarsest _ g _ _ => g | Level _ g _ _ _ _ _ _ _ => g end.
Definition hA {V} (h : hier V) : V -> V :=
  match h with Coarsest _ _ A _ => A | Level _ _ A _ _ _ _ _ _ => A end.

Fixpoint repeat_fn {X} (k : nat) (f : X -> X) (x : X) : X :=
  match k with O => x | S k' => repeat_fn k' f (f x) end.

(* __solve(lvl, x, b, cycle, cycles_per_level), returning the updated x.
   The one-level case (coarse solve only) is [Coarsest]: x = coarse_solver(A, b). *)
Fixpoint cycle {V} (h : hier V) (ct : ctype) (cpl : nat) (x b : V) {struct h} : V :=
  match h in hier V0 return V0 -> V0 -> V0 with
  | Coarsest _ g A Ainv => fun x b => Ainv b
  | Level _ g A Bpre Bpost Vc P R hc => fun x b =>
      let x1 := gadd g x (Bpre (gsub g b (A x))) in                 (* presmoother(A, x, b) *)
      let residual := gsub g b (A x1) in
      let coarse_b := R residual in
      let coarse_x0 := gz (hgrp hc) in                              (* zeros_like(coarse_b) *)
      let coarse_x :=
        match ct with
        | CV => cycle hc CV 1 coarse_x0 coarse_b
        | CW => cycle hc CW cpl (cycle hc CW cpl coarse_x0 coarse_b) coarse_b
        | CF => repeat_fn cpl (fun cx => cycle hc CV 1 cx coarse_b) (cycle hc CF cpl coarse_x0 coarse_b)
        end in
      let x2 := gadd g x1 (P coarse_x) in                           (* x += P @ coarse_x *)
      gadd g x2 (Bpost (gsub g b (A x2)))                           (* postsmoother(A, x, b) *)
  end x b.

(* ---- the textbook operator: M_c determined by the hierarchy and the cycle type only ---- *)
(* k corrections with operator Mc on the system  Ac s = cb, from the zero guess *)
Definition corr {Vc} (g : Grp Vc) (Ac Mc : Vc -> Vc) (cb s : Vc) : Vc := gadd g s (Mc (gsub g cb (Ac s))).

Fixpoint Mtb {V} (h : hier V) (ct : ctype) (cpl : nat) (r : V) {struct h} : V :=
  match h in hier V0 return V0 -> V0 with
  | Coarsest _ g A Ainv => fun r => Ainv r
  | Level _ g A Bpre Bpost Vc P R hc => fun r =>
      let gc := hgrp hc in
      let Ac := hA hc in
      let x1 := Bpre r in
      let cb := R (gsub g r (A x1)) in
      let cx :=
        match ct with
        | CV => Mtb hc CV 1 cb                                                  (* coarser level once *)
        | CW => corr gc Ac (Mtb hc CW cpl) cb (Mtb hc CW cpl cb)                (* twice *)
        | CF => repeat_fn cpl (corr gc Ac (Mtb hc CV 1) cb) (Mtb hc CF cpl cb)  (* F, then cpl V-cycles *)
        end in
      let x2 := gadd g x1 (P cx) in
      gadd g x2 (Bpost (gsub g r (A x2)))
  end r.
