(* The ordered-field facts the discrete/threshold theorems need, stated on the
   boolean operations of an [Ops] record; [OrdLaws opsQ] is proved at the end
   (so the hypotheses of every theorem that assumes them are satisfiable). *)
From Coq Require Import ZArith List QArith Qabs Bool Lia.
Require Import PV.Base.Ops.

Record OrdLaws {F} (o : Ops F) : Prop := {
  leb_ltb : forall a b, leb o a b = negb (ltb o b a);
  leb_trans : forall a b c, leb o a b = true -> leb o b c = true -> leb o a c = true;
  leb_total : forall a b, leb o a b = true \/ leb o b a = true;
  eqb_leb : forall a b, eqb o a b = true <-> (leb o a b = true /\ leb o b a = true);
  abs_nonneg : forall a, leb o (zero o) (abs o a) = true;
  abs_zero : forall a, eqb o (abs o a) (zero o) = true -> eqb o a (zero o) = true;
  abs_of_nonneg : forall a, leb o (zero o) a = true -> eqb o (abs o a) a = true;
  zero_le_one : leb o (zero o) (one o) = true;
  mul_zero_l : forall a, mul o (zero o) a = zero o;
  sq_nonneg : forall a, leb o (zero o) (mul o a a) = true;
  sq_mono : forall a b, leb o (zero o) a = true -> leb o a b = true ->
             leb o (mul o a a) (mul o b b) = true;
  mul_mono : forall t1 t2 m, leb o (zero o) m = true -> leb o t1 t2 = true ->
             leb o (mul o t1 m) (mul o t2 m) = true;
  mul_nonneg : forall a b, leb o (zero o) a = true -> leb o (zero o) b = true ->
             leb o (zero o) (mul o a b) = true;
  mul_nonzero : forall a b, eqb o a (zero o) = false -> eqb o b (zero o) = false ->
             eqb o (mul o a b) (zero o) = false;
  recip_pos : forall m, ltb o (zero o) m = true -> ltb o (zero o) (div o (one o) m) = true;
  recip_self : forall m, ltb o (zero o) m = true -> eqb o (mul o m (div o (one o) m)) (one o) = true;
  recip_le : forall a m, ltb o (zero o) m = true -> leb o a m = true ->
             leb o (mul o a (div o (one o) m)) (one o) = true
}.

Section Derived.
Context {F} (o : Ops F) (L : OrdLaws o).

Lemma leb_refl a : leb o a a = true.
Proof. destruct (leb_total o L a a); assumption. Qed.

Lemma mul_zero_le a : leb o (mul o (zero o) a) (zero o) = true.
Proof. rewrite (mul_zero_l o L). apply leb_refl. Qed.

Lemma ltb_false_leb a b : ltb o a b = false -> leb o b a = true.
Proof. intro H. rewrite (leb_ltb o L), H. reflexivity. Qed.

Lemma ltb_true_leb a b : ltb o a b = true -> leb o a b = true.
Proof.
  intro H. destruct (leb_total o L a b) as [|H']; [assumption|].
  rewrite (leb_ltb o L), H in H'. discriminate.
Qed.

Lemma maxF_ub_l a b : leb o a (maxF o a b) = true.
Proof. unfold maxF. destruct (ltb o a b) eqn:E; [apply ltb_true_leb; exact E|apply leb_refl]. Qed.

Lemma maxF_ub_r a b : leb o b (maxF o a b) = true.
Proof. unfold maxF. destruct (ltb o a b) eqn:E; [apply leb_refl|apply ltb_false_leb; exact E]. Qed.

Lemma maxF_cases a b : maxF o a b = a \/ maxF o a b = b.
Proof. unfold maxF. destruct (ltb o a b); auto. Qed.

Lemma maxF_lub a b c : leb o a c = true -> leb o b c = true -> leb o (maxF o a b) c = true.
Proof. intros. destruct (maxF_cases a b) as [->| ->]; assumption. Qed.
End Derived.

(* ------------------------------------------------------------------ Q *)
Lemma Qle_bool_red_l a b : Qle_bool (Qred a) b = Qle_bool a b.
Proof.
  destruct (Qle_bool a b) eqn:E.
  - apply Qle_bool_iff. rewrite Qred_correct. apply Qle_bool_iff; assumption.
  - destruct (Qle_bool (Qred a) b) eqn:E'; [|reflexivity].
    apply Qle_bool_iff in E'. rewrite Qred_correct in E'. apply Qle_bool_iff in E'. congruence.
Qed.
Lemma Qle_bool_red_r a b : Qle_bool a (Qred b) = Qle_bool a b.
Proof.
  destruct (Qle_bool a b) eqn:E.
  - apply Qle_bool_iff. rewrite Qred_correct. apply Qle_bool_iff; assumption.
  - destruct (Qle_bool a (Qred b)) eqn:E'; [|reflexivity].
    apply Qle_bool_iff in E'. rewrite Qred_correct in E'. apply Qle_bool_iff in E'. congruence.
Qed.
Lemma Qeq_bool_red_l a b : Qeq_bool (Qred a) b = Qeq_bool a b.
Proof.
  destruct (Qeq_bool a b) eqn:E.
  - apply Qeq_bool_iff. rewrite Qred_correct. apply Qeq_bool_iff; assumption.
  - destruct (Qeq_bool (Qred a) b) eqn:E'; [|reflexivity].
    apply Qeq_bool_iff in E'. rewrite Qred_correct in E'. apply Qeq_bool_iff in E'. congruence.
Qed.

Lemma Qle_bool_false a b : Qle_bool a b = false -> b < a.
Proof.
  intro H. apply Qnot_le_lt. intro H'. apply Qle_bool_iff in H'. congruence.
Qed.

Lemma OrdLaws_Q : OrdLaws opsQ.
Proof.
  constructor; cbn [opsQ leb ltb eqb zero one add mul div abs Qltb]; intros.
  - unfold Qltb. rewrite negb_involutive. reflexivity.
  - apply Qle_bool_iff in H, H0. apply Qle_bool_iff. eapply Qle_trans; eassumption.
  - destruct (Qlt_le_dec b a) as [H|H].
    + right. apply Qle_bool_iff. apply Qlt_le_weak; assumption.
    + left. apply Qle_bool_iff; assumption.
  - split.
    + intro H. apply Qeq_bool_iff in H. split; apply Qle_bool_iff; rewrite H; apply Qle_refl.
    + intros [H1 H2]. apply Qle_bool_iff in H1, H2. apply Qeq_bool_iff. apply Qle_antisym; assumption.
  - rewrite Qle_bool_red_r. apply Qle_bool_iff. apply Qabs_nonneg.
  - rewrite Qeq_bool_red_l in H. apply Qeq_bool_iff in H. apply Qeq_bool_iff.
    revert H. apply (Qabs_case a (fun x => x == 0 -> a == 0)).
    + intros _ H1; exact H1.
    + intros _ H1. rewrite <- (Qopp_involutive a). rewrite H1. reflexivity.
  - rewrite Qeq_bool_red_l. apply Qeq_bool_iff. apply Qabs_pos. apply Qle_bool_iff; assumption.
  - reflexivity.
  - change 0 with (Qred 0). apply Qred_complete. apply Qmult_0_l.
  - rewrite Qle_bool_red_r. apply Qle_bool_iff.
    destruct (Qlt_le_dec a 0) as [H|H].
    + setoid_replace (a * a) with ((- a) * (- a)) by ring.
      apply Qmult_le_0_compat; apply Qlt_le_weak; apply Qopp_lt_compat in H; exact H.
    + apply Qmult_le_0_compat; assumption.
  - rewrite Qle_bool_red_l, Qle_bool_red_r. apply Qle_bool_iff in H, H0. apply Qle_bool_iff.
    apply Qle_trans with (a * b).
    + rewrite (Qmult_comm a b). apply Qmult_le_compat_r; assumption.
    + apply Qmult_le_compat_r; [assumption|]. eapply Qle_trans; eassumption.
  - rewrite Qle_bool_red_l, Qle_bool_red_r. apply Qle_bool_iff in H, H0. apply Qle_bool_iff.
    apply Qmult_le_compat_r; assumption.
  - rewrite Qle_bool_red_r. apply Qle_bool_iff in H, H0. apply Qle_bool_iff.
    apply Qmult_le_0_compat; assumption.
  - rewrite Qeq_bool_red_l. destruct (Qeq_bool (a * b) 0) eqn:E; [|reflexivity].
    apply Qeq_bool_iff in E. apply Qmult_integral in E. destruct E as [E|E]; apply Qeq_bool_iff in E; congruence.
  - unfold Qltb in *. apply negb_true_iff in H. apply negb_true_iff.
    rewrite Qle_bool_red_l. apply Qle_bool_false in H.
    destruct (Qle_bool (1 / m) 0) eqn:E; [|reflexivity]. exfalso.
    apply Qle_bool_iff in E. unfold Qdiv in E. rewrite Qmult_1_l in E.
    apply Qinv_lt_0_compat in H. apply (Qlt_irrefl 0). eapply Qlt_le_trans; eassumption.
  - unfold Qltb in H. apply negb_true_iff in H. apply Qle_bool_false in H.
    rewrite Qeq_bool_red_l. apply Qeq_bool_iff. rewrite Qred_correct. field.
    intro E. rewrite E in H. apply (Qlt_irrefl 0); assumption.
  - unfold Qltb in H. apply negb_true_iff in H. apply Qle_bool_false in H.
    apply Qle_bool_iff in H0. rewrite Qle_bool_red_l. apply Qle_bool_iff. rewrite Qred_correct.
    unfold Qdiv. rewrite Qmult_1_l. apply Qle_shift_div_r; [assumption|]. rewrite Qmult_1_l. assumption.
Qed.
