(* Scalar operations as an explicit record, so that every numeric model is one
   Gallina definition used at three instances: an abstract field (theorems),
   Stdlib Q (exact correspondence runs) and PrimFloat (binary64 runs). *)
From Coq Require Import ZArith List QArith Qabs PrimFloat Bool.
Import ListNotations.

Record Ops (F : Type) := mkOps {
  zero : F; one : F;
  add : F -> F -> F; sub : F -> F -> F; mul : F -> F -> F; div : F -> F -> F;
  opp : F -> F;
  abs : F -> F;          (* magnitude (real scalars) *)
  eqb : F -> F -> bool;
  leb : F -> F -> bool;  (* a <= b *)
  ltb : F -> F -> bool   (* a <  b *)
}.
Arguments zero {F}. Arguments one {F}. Arguments add {F}. Arguments sub {F}.
Arguments mul {F}. Arguments div {F}. Arguments opp {F}. Arguments abs {F}.
Arguments eqb {F}. Arguments leb {F}. Arguments ltb {F}.

Definition isz {F} (o : Ops F) (a : F) : bool := eqb o a (zero o).
Definition maxF {F} (o : Ops F) (a b : F) : F := if ltb o a b then b else a. (* std::max *)
Definition minF {F} (o : Ops F) (a b : F) : F := if ltb o b a then b else a. (* std::min *)

(* ---- exact rationals; every result reduced so that equality is syntactic *)
Definition Qltb (a b : Q) : bool := negb (Qle_bool b a).
Definition opsQ : Ops Q := {|
  zero := 0; one := 1;
  add := fun a b => Qred (a + b); sub := fun a b => Qred (a - b);
  mul := fun a b => Qred (a * b); div := fun a b => Qred (a / b);
  opp := fun a => Qred (- a); abs := fun a => Qred (Qabs a);
  eqb := Qeq_bool; leb := Qle_bool; ltb := Qltb |}.

(* ---- IEEE binary64 *)
Definition opsF : Ops float := {|
  zero := 0%float; one := 1%float;
  add := PrimFloat.add; sub := PrimFloat.sub; mul := PrimFloat.mul; div := PrimFloat.div;
  opp := PrimFloat.opp; abs := PrimFloat.abs;
  eqb := PrimFloat.eqb; leb := PrimFloat.leb; ltb := PrimFloat.ltb |}.

(* ---- list helpers shared by the kernel models (arrays are lists, indices Z) *)
Definition nthZ {A} (l : list A) (i : Z) (d : A) : A := nth (Z.to_nat i) l d.
Fixpoint upd {A} (l : list A) (i : nat) (v : A) : list A :=
  match l, i with
  | [], _ => []
  | _ :: t, O => v :: t
  | h :: t, S k => h :: upd t k v
  end.
Definition updZ {A} (l : list A) (i : Z) (v : A) : list A :=
  if (i <? 0)%Z then l else upd l (Z.to_nat i) v.

(* checked access: None outside the array *)
Definition getZ {A} (l : list A) (i : Z) : option A :=
  if (i <? 0)%Z then None else nth_error l (Z.to_nat i).
Definition setZ {A} (l : list A) (i : Z) (v : A) : option (list A) :=
  if (i <? 0)%Z then None
  else if (Z.to_nat i <? length l)%nat then Some (upd l (Z.to_nat i) v) else None.

Definition zseq (s : Z) (n : nat) : list Z := map (fun k => (s + Z.of_nat k)%Z) (seq 0 n).
(* the index range [a, b) *)
Definition zrange (a b : Z) : list Z := zseq a (Z.to_nat (b - a)).

(* list equality for outputs *)
Fixpoint list_eqb {A} (e : A -> A -> bool) (l1 l2 : list A) : bool :=
  match l1, l2 with
  | [], [] => true
  | a :: t1, b :: t2 => e a b && list_eqb e t1 t2
  | _, _ => false
  end.
Definition Qeqb_exact (a b : Q) : bool := Qeq_bool a b.

(* indices of the cases on which a check fails (printed by the Run files) *)
Definition bad_indices {C} (chk : C -> bool) (cs : list C) : list nat :=
  map fst (filter (fun p => negb (chk (snd p))) (combine (seq 0 (length cs)) cs)).
