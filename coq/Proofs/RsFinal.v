(* C13 / C17, unbounded: the initial state of rs_cf_splitting satisfies the bucket and domination invariants; first-pass
   Ruge-Stuben on a symmetric strength pattern returns a dominating coarse set (any number of vertices). *)
From Coq Require Import ZArith List Bool Lia.
Import ListNotations.
Require Import PV.Model.GraphAlg PV.Model.Split.
Require Import PV.Proofs.NaiveAggProofs PV.Proofs.RsIndep PV.Proofs.RsBuckets PV.Proofs.RsInit PV.Proofs.RsDom.
Open Scope Z_scope.

Section F.
Variables (N : nat) (Tp Tj infl : list Z).
Let n := Z.of_nat N.
Definition lamL : list Z := map (fun i => get Tp (i + 1) - get Tp i + get infl i) (zr 0 n).
Definition spl0 : list Z :=
  map (fun i => if (get lamL i =? 0) || ((get lamL i =? 1) && (get Tp i <? get Tp (i + 1)) && (get Tj (get Tp i) =? i)) then F_NODE else U_NODE) (zr 0 n).

Lemma init_eq : init n Tp Tj infl =
  {| lam := lamL; iptr := fst (ptrP N lamL); icnt := fst (fst (fillT N lamL));
     i2n := snd (fst (fillT N lamL)); n2i := snd (fillT N lamL); spl := spl0 |}.
Proof.
  unfold init, fillT, ptrP, cntA, zerosL, zn, lmax, spl0. fold n. fold lamL. cbv zeta.
  match goal with |- context [let '(a, b) := ?e in _] => destruct e as [pp cc] end.
  cbn [fst].
  match goal with |- context [let '(a, b) := ?e in _] => destruct e as [[c2 aa] bb] end.
  reflexivity.
Qed.

Lemma length_zr a b : length (zr a b) = Z.to_nat (b - a).
Proof. unfold zr. rewrite map_length, seq_length. reflexivity. Qed.
Lemma get_zr0 m k : 0 <= k < m -> get (zr 0 m) k = k.
Proof.
  intro H. unfold get, zr. rewrite nth_indep with (d' := 0 + Z.of_nat 0) by (rewrite map_length, seq_length; lia).
  rewrite (map_nth (fun k => 0 + Z.of_nat k)). rewrite seq_nth by lia. lia.
Qed.
Lemma LlamL : length lamL = N.
Proof. unfold lamL. rewrite map_length, length_zr. unfold n. lia. Qed.
Lemma lamL_at i : 0 <= i < n -> get lamL i = get Tp (i + 1) - get Tp i + get infl i.
Proof.
  intro H. unfold lamL. rewrite (get_map (fun i => get Tp (i + 1) - get Tp i + get infl i)) by (rewrite length_zr; lia).
  rewrite get_zr0 by exact H. reflexivity.
Qed.

Hypothesis infl_nonneg : forall i, 0 <= i < n -> 0 <= get infl i.
Hypothesis Tp_mono : forall i, 0 <= i < n -> get Tp i <= get Tp (i + 1).

Lemma lam_nn : forall i, (i < N)%nat -> 0 <= lamf lamL i.
Proof.
  intros i Hi. unfold lamf. rewrite lamL_at by (unfold n; lia).
  pose proof (infl_nonneg (Z.of_nat i) ltac:(unfold n; lia)). pose proof (Tp_mono (Z.of_nat i) ltac:(unfold n; lia)). lia.
Qed.

Notation LN := (Ln N lamL).
Lemma init_BI : BI N LN n (init n Tp Tj infl).
Proof.
  rewrite init_eq.
  pose proof (fillT_spec N lamL LlamL lam_nn) as FS. destruct (fillT N lamL) as [[c2 a] b].
  destruct FS as (Lc & La & Lb & Hc & Hab).
  destruct (ptrP_spec N lamL LlamL lam_nn) as [Lp Hp].
  cbn [fst snd].
  pose proof (lam_lt N lamL LlamL lam_nn) as LamR.
  assert (Pos : forall v, 0 <= v < n -> get b v = pos N lamL (Z.to_nat v) /\ get a (get b v) = v).
  { intros v Hv. destruct (Hab (Z.to_nat v) ltac:(unfold n in *; lia)) as [A B]. rewrite Z2Nat.id in A, B by lia.
    split; [exact A|]. rewrite A. exact B. }
  assert (Inv : forall p, 0 <= p < n -> exists v : nat, (v < N)%nat /\ pos N lamL v = p /\ get a p = Z.of_nat v /\ get b (Z.of_nat v) = p).
  { intros p Hp'. destruct (bucket_of N lamL LlamL lam_nn p Hp') as (v & Hv & Ev). exists v.
    destruct (Hab v Hv) as [A B]. rewrite Ev in *. repeat split; assumption. }
  assert (Posl : forall p v, (v < N)%nat -> get a p = Z.of_nat v -> get lamL (get a p) = lamf lamL v).
  { intros p v Hv E. rewrite E. reflexivity. }
  constructor; cbn [lam iptr icnt i2n n2i spl].
  - unfold n. lia.
  - exact LlamL.
  - exact La.
  - exact Lb.
  - unfold spl0. rewrite map_length, length_zr. unfold n. lia.
  - exact Lp.
  - exact Lc.
  - apply (Lz_n N lamL LlamL).
  - intros v Hv. destruct (Pos v Hv) as [A B]. split; [|exact B]. rewrite A. apply (pos_range N lamL LlamL lam_nn). unfold n in *. lia.
  - intros p Hp'. destruct (Inv p Hp') as (v & Hv & Ev & Ea & Eb). rewrite Ea. split; [unfold n; lia|exact Eb].
  - intros v Hv. pose proof (LamR (Z.to_nat v) ltac:(unfold n in *; lia)) as Hl. unfold lamf in Hl. rewrite Z2Nat.id in Hl by lia. exact Hl.
  - (* own *) intros p Hp'. unfold posl; cbn [lam i2n]. destruct (Inv p Hp') as (v & Hv & Ev & Ea & Eb).
    rewrite Ea. fold (lamf lamL v). destruct (LamR v Hv) as [L0 L1].
    rewrite Hp, Hc by lia. unfold pos in Ev.
    pose proof (cntf_nonneg N lamL LlamL v (lamf lamL v)). pose proof (cntf_lt N lamL LlamL v N Hv). lia.
  - (* hom *) intros l p Hl Hin. rewrite Hp, Hc in Hin by lia.
    pose proof (startz_top N lamL LlamL lam_nn l Hl) as Tl. pose proof (startz_nonneg N lamL LlamL l) as Sl. fold n in Tl.
    split; [lia|]. unfold posl; cbn [lam i2n].
    destruct (exists_rank N lamL LlamL l N (p - startz N lamL l) ltac:(lia)) as (v & Hv & A & B).
    assert (Ev : pos N lamL v = p) by (unfold pos; rewrite A, B; lia).
    destruct (Hab v Hv) as [_ Ea]. rewrite Ev in Ea. rewrite Ea. exact A.
  - (* sorted *) intros p q Hp0 Hpq Hq. unfold posl; cbn [lam i2n].
    destruct (Inv p ltac:(lia)) as (v & Hv & Ev & Ea & _). destruct (Inv q ltac:(lia)) as (w & Hw & Ew & Eq & _).
    rewrite Ea, Eq. fold (lamf lamL v) (lamf lamL w).
    destruct (Z_le_dec (lamf lamL v) (lamf lamL w)) as [H|H]; [exact H|]. exfalso.
    pose proof (startz_gap N lamL LlamL (lamf lamL w) (lamf lamL v) (lam_nn w Hw) ltac:(lia)).
    pose proof (cntf_lt N lamL LlamL w N Hw). pose proof (cntf_nonneg N lamL LlamL v (lamf lamL v)). unfold pos in Ev, Ew. lia.
  - intros l Hl. rewrite Hc by exact Hl. apply (cntf_nonneg N lamL LlamL).
  - intros v Hv Hge. destruct (Pos v Hv) as [A _]. rewrite A in Hge.
    pose proof (pos_range N lamL LlamL lam_nn (Z.to_nat v) ltac:(unfold n in *; lia)). unfold n in *. lia.
Qed.

Lemma spl0_at k : 0 <= k < n -> get spl0 k =
  if (get lamL k =? 0) || ((get lamL k =? 1) && (get Tp k <? get Tp (k + 1)) && (get Tj (get Tp k) =? k)) then F_NODE else U_NODE.
Proof.
  intro H. unfold spl0.
  rewrite (get_map (fun i => if (get lamL i =? 0) || ((get lamL i =? 1) && (get Tp i <? get Tp (i + 1)) && (get Tj (get Tp i) =? i)) then F_NODE else U_NODE))
    by (rewrite length_zr; lia).
  rewrite get_zr0 by exact H. reflexivity.
Qed.

Lemma zr_empty a b : b <= a -> zr a b = [].
Proof. intro H. unfold zr. replace (Z.to_nat (b - a)) with O by lia. reflexivity. Qed.
Lemma zr_one a : zr a (a + 1) = [a].
Proof. unfold zr. replace (Z.to_nat (a + 1 - a)) with 1%nat by lia. cbn. f_equal. lia. Qed.

Lemma init_J (Sp Sj : list Z) : J N LN Tp Tj n (init n Tp Tj infl).
Proof.
  split; [exact init_BI|]. rewrite init_eq. cbn [spl lam].
  assert (L0 : length spl0 = N) by (unfold spl0; rewrite map_length, length_zr; unfold n; lia).
  assert (FU : forall k, 0 <= k < n -> get spl0 k = F_NODE \/ get spl0 k = U_NODE).
  { intros k Hk. rewrite spl0_at by exact Hk. destruct (_ || _); [left|right]; reflexivity. }
  split; [|split].
  - constructor.
    + exact L0.
    + intros k Hk. destruct (FU k Hk) as [Q|Q]; rewrite Q; auto.
    + intros i j Hi Hc. exfalso. destruct (FU i Hi) as [Q|Q]; rewrite Q in Hc; discriminate.
    + intros i j Hi Hc. exfalso. destruct (FU i Hi) as [Q|Q]; rewrite Q in Hc; discriminate.
  - intros k Hk Hu. cbn [spl lam] in *. rewrite spl0_at in Hu by exact Hk.
    pose proof (lam_nn (Z.to_nat k) ltac:(unfold n in *; lia)) as Hl. unfold lamf in Hl. rewrite Z2Nat.id in Hl by lia.
    destruct (Z.eqb_spec (get lamL k) 0) as [E|E]; cbn [orb] in Hu; [discriminate|lia].
  - intros k Hk Hf. left. rewrite spl0_at in Hf by exact Hk.
    pose proof (infl_nonneg k Hk) as Hi. pose proof (Tp_mono k Hk) as Hm. pose proof (lamL_at k Hk) as El.
    unfold nbrs.
    destruct (Z.eqb_spec (get lamL k) 0) as [E|E]; cbn [orb] in Hf.
    + rewrite zr_empty by lia. intros i [].
    + destruct (Z.eqb_spec (get lamL k) 1) as [E1|E1]; cbn [andb] in Hf; [|discriminate].
      destruct (Z.ltb_spec (get Tp k) (get Tp (k + 1))) as [Hlt|Hlt]; cbn [andb] in Hf; [|discriminate].
      destruct (Z.eqb_spec (get Tj (get Tp k)) k) as [Ek|Ek]; [|discriminate].
      replace (get Tp (k + 1)) with (get Tp k + 1) by lia. rewrite zr_one. cbn [map].
      intros i [<-|[]]. exact Ek.
Qed.
End F.

(* ---------------------------------------------------------------- the statement about the kernel *)
Section Thm.
Variables (N : nat) (Sp Sj Tp Tj infl : list Z).
Let n := Z.of_nat N.
Notation trow := (nbrs Tp Tj).
Hypothesis t_range : forall i, 0 <= i < n -> forall j, In j (trow i) -> 0 <= j < n.
Hypothesis s_range : forall i, 0 <= i < n -> forall j, In j (row Sp Sj i) -> 0 <= j < n.
Hypothesis sym : forall i j, 0 <= i < n -> In j (trow i) -> In i (trow j).
Hypothesis s_sub_t : forall i j, 0 <= i < n -> In j (row Sp Sj i) -> In j (trow i).
Hypothesis infl_nonneg : forall i, 0 <= i < n -> 0 <= get infl i.
Hypothesis Tp_mono : forall i, 0 <= i < n -> get Tp i <= get Tp (i + 1).

Theorem rs_first_pass_dominating :
  let r := rs_cf_splitting n Sp Sj Tp Tj infl in
  forall k, 0 <= k < n -> get r k = 0 ->
    (forall i, In i (trow k) -> i = k) \/ exists i, In i (trow k) /\ i <> k /\ get r i = 1.
Proof.
  apply (rs_dom_of_init N (Ln N (lamL N Tp infl)) Sp Sj Tp Tj t_range s_range sym s_sub_t infl).
  apply (init_J N Tp Tj infl infl_nonneg Tp_mono Sp Sj).
Qed.
End Thm.
Print Assumptions rs_first_pass_dominating.
