(* Theorems about the strength-of-connection models (C14), for any scalar type
   whose boolean order satisfies [OrdLaws] (exact arithmetic). *)
From Coq Require Import ZArith List Bool Lia.
Import ListNotations.
Require Import PV.Base.Ops PV.Base.OrdLaws PV.Model.Strength.

Section P.
Context {F : Type} (o : Ops F) (L : OrdLaws o).
Notation "a <=? b" := (leb o a b).

(* ---------- generic: a running maximum is the least upper bound ---------- *)
Section FoldMax.
Variable sel : Z * F -> option F.   (* the quantity an entry contributes, if any *)
Definition fmax (r : list (Z * F)) (m0 : F) : F :=
  fold_left (fun m e => match sel e with None => m | Some v => maxF o m v end) r m0.

Lemma fmax_ge_init r : forall m0, (m0 <=? fmax r m0) = true.
Proof.
  induction r as [|e r IH]; intro m0; cbn [fmax fold_left].
  - apply (leb_refl o L).
  - destruct (sel e) as [v|]; [|apply IH].
    eapply (leb_trans o L); [apply (maxF_ub_l o L)|apply IH].
Qed.

Lemma fmax_ub r : forall m0 e v, In e r -> sel e = Some v -> (v <=? fmax r m0) = true.
Proof.
  induction r as [|e0 r IH]; intros m0 e v Hin Hs; [destruct Hin|].
  cbn [fmax fold_left]. destruct Hin as [->|Hin].
  - rewrite Hs. eapply (leb_trans o L); [apply (maxF_ub_r o L)|apply fmax_ge_init].
  - apply (IH _ e v Hin Hs).
Qed.

Lemma fmax_attained r : forall m0,
  fmax r m0 = m0 \/ exists e v, In e r /\ sel e = Some v /\ fmax r m0 = v.
Proof.
  induction r as [|e0 r IH]; intro m0; cbn [fmax fold_left]; [left; reflexivity|].
  destruct (sel e0) as [v|] eqn:Es.
  - destruct (IH (maxF o m0 v)) as [H|[e [w [Hin [Hs H]]]]].
    + destruct (maxF_cases o m0 v) as [E|E].
      * left. unfold fmax in H. rewrite H. exact E.
      * right. exists e0, v. split; [left; reflexivity|]. split; [exact Es|]. unfold fmax in H. rewrite H. exact E.
    + right. exists e, w. split; [right; exact Hin|]. split; assumption.
  - destruct (IH m0) as [H|[e [w [Hin [Hs H]]]]]; [left; exact H|].
    right. exists e, w. split; [right; exact Hin|]. split; assumption.
Qed.

Lemma fmax_lub r : forall m0 c, (m0 <=? c) = true ->
  (forall e v, In e r -> sel e = Some v -> (v <=? c) = true) -> (fmax r m0 <=? c) = true.
Proof.
  intros m0 c H0 H. destruct (fmax_attained r m0) as [->|[e [v [Hin [Hs ->]]]]]; [exact H0|].
  apply (H e v Hin Hs).
Qed.
End FoldMax.

Lemma filter_all_id {A} (k : A -> bool) (l : list A) : (forall x, In x l -> k x = true) -> filter k l = l.
Proof.
  induction l as [|a l IH]; intro H; cbn [filter]; [reflexivity|].
  rewrite (H a (or_introl eq_refl)). f_equal. apply IH. intros x Hx. apply H. right; exact Hx.
Qed.

(* ---------- classical, abs ---------- *)
Definition sel_abs (i : Z) (e : Z * F) : option F :=
  if Z.eqb (fst e) i then None else Some (abs o (snd e)).

Lemma offdiag_max_is_fmax tiny i r : offdiag_max o tiny i r = fmax (sel_abs i) r tiny.
Proof.
  unfold offdiag_max, fmax. revert tiny. induction r as [|e r IH]; intro t; cbn [fold_left]; [reflexivity|].
  unfold sel_abs at 2. destruct (Z.eqb (fst e) i); apply IH.
Qed.

(* M = max(tiny, max_{k<>i} |a_ik|): upper bound, not below tiny, attained *)
Theorem offdiag_max_spec tiny i r :
  let M := offdiag_max o tiny i r in
  (tiny <=? M) = true /\
  (forall e, In e r -> fst e <> i -> (abs o (snd e) <=? M) = true) /\
  (M = tiny \/ exists e, In e r /\ fst e <> i /\ M = abs o (snd e)).
Proof.
  cbn zeta. rewrite offdiag_max_is_fmax. split; [apply fmax_ge_init|]. split.
  - intros e Hin Hne. apply (fmax_ub (sel_abs i) r tiny e); [exact Hin|].
    unfold sel_abs. destruct (Z.eqb_spec (fst e) i); [contradiction|reflexivity].
  - destruct (fmax_attained (sel_abs i) r tiny) as [H|[e [v [Hin [Hs H]]]]]; [left; exact H|].
    right. exists e. unfold sel_abs in Hs. destruct (Z.eqb_spec (fst e) i); [discriminate|].
    injection Hs as <-. auto.
Qed.

(* the kept entries of row i are exactly: the diagonal entries, and the
   off-diagonal entries with |a_ij| >= theta * M *)
Theorem cls_abs_iff tiny theta i r e :
  In e (cls_abs_row o tiny theta i r) <->
  In e r /\ (fst e = i \/ (mul o theta (offdiag_max o tiny i r) <=? abs o (snd e)) = true).
Proof.
  unfold cls_abs_row. rewrite filter_In. unfold keep_abs. rewrite orb_true_iff, Z.eqb_eq. tauto.
Qed.

Theorem cls_abs_order tiny theta i r :
  exists keep, cls_abs_row o tiny theta i r = filter keep r.
Proof. eexists; reflexivity. Qed.

(* ---------- classical, min ---------- *)
Definition sel_neg (i : Z) (e : Z * F) : option F :=
  if Z.eqb (fst e) i then None else Some (opp o (snd e)).

Lemma offdiag_max_neg_is_fmax i r : offdiag_max_neg o i r = fmax (sel_neg i) r (zero o).
Proof.
  unfold offdiag_max_neg, fmax. generalize (zero o). induction r as [|e r IH]; intro t; cbn [fold_left]; [reflexivity|].
  unfold sel_neg at 2. destruct (Z.eqb (fst e) i); apply IH.
Qed.

Theorem offdiag_max_neg_spec i r :
  let M := offdiag_max_neg o i r in
  (zero o <=? M) = true /\
  (forall e, In e r -> fst e <> i -> (opp o (snd e) <=? M) = true) /\
  (M = zero o \/ exists e, In e r /\ fst e <> i /\ M = opp o (snd e)).
Proof.
  cbn zeta. rewrite offdiag_max_neg_is_fmax. split; [apply fmax_ge_init|]. split.
  - intros e Hin Hne. apply (fmax_ub (sel_neg i) r (zero o) e); [exact Hin|].
    unfold sel_neg. destruct (Z.eqb_spec (fst e) i); [contradiction|reflexivity].
  - destruct (fmax_attained (sel_neg i) r (zero o)) as [H|[e [v [Hin [Hs H]]]]]; [left; exact H|].
    right. exists e. unfold sel_neg in Hs. destruct (Z.eqb_spec (fst e) i); [discriminate|].
    injection Hs as <-. auto.
Qed.

Theorem cls_min_iff theta i r e :
  In e (cls_min_row o theta i r) <->
  In e r /\ (fst e = i \/ (mul o theta (offdiag_max_neg o i r) <=? opp o (snd e)) = true).
Proof.
  unfold cls_min_row. rewrite filter_In. unfold keep_min. rewrite orb_true_iff, Z.eqb_eq. tauto.
Qed.

(* ---------- symmetric ---------- *)
Theorem sym_keep_iff theta diags i e r :
  In e (filter (keep_sym o theta diags i) r) <->
  In e r /\ (i = fst e \/
    (mul o (mul o (mul o theta theta) (nthZ diags i (zero o))) (nthZ diags (fst e) (zero o))
       <=? mul o (snd e) (snd e)) = true).
Proof. rewrite filter_In. unfold keep_sym. rewrite orb_true_iff, Z.eqb_eq. tauto. Qed.

(* ---------- pattern containment (every stage filters or maps values) ---------- *)
Lemma filter_cols_incl (k : Z * F -> bool) r : incl (map fst (filter k r)) (map fst r).
Proof.
  intros c Hc. apply in_map_iff in Hc. destruct Hc as [e [<- He]]. apply filter_In in He.
  apply in_map. tauto.
Qed.

Lemma tail_cols tiny r : incl (map fst (drop_zeros o (scale_row o tiny (abs_row o r)))) (map fst r).
Proof.
  intros c Hc. apply filter_cols_incl in Hc.
  unfold scale_row, abs_row in Hc. rewrite !map_map in Hc. cbn [fst] in Hc. exact Hc.
Qed.

Theorem classical_abs_pattern_subset tiny theta i r :
  incl (map fst (drop_zeros o (scale_row o tiny (abs_row o (cls_abs_row o tiny theta i r))))) (map fst r).
Proof. intros c Hc. apply tail_cols in Hc. apply (filter_cols_incl _ r c Hc). Qed.

Theorem classical_min_pattern_subset tiny theta i r :
  incl (map fst (drop_zeros o (scale_row o tiny (abs_row o (cls_min_row o theta i r))))) (map fst r).
Proof. intros c Hc. apply tail_cols in Hc. apply (filter_cols_incl _ r c Hc). Qed.

Theorem symmetric_pattern_subset tiny theta diags i r :
  incl (map fst (scale_row o tiny (abs_row o (filter (keep_sym o theta diags i) r)))) (map fst r).
Proof.
  intros c Hc. unfold scale_row, abs_row in Hc. rewrite !map_map in Hc. cbn [fst] in Hc.
  apply (filter_cols_incl _ r c Hc).
Qed.

(* ---------- monotone in theta, and theta = 0 ---------- *)
Theorem cls_abs_monotone tiny t1 t2 i r e :
  (zero o <=? tiny) = true -> (t1 <=? t2) = true ->
  In e (cls_abs_row o tiny t2 i r) -> In e (cls_abs_row o tiny t1 i r).
Proof.
  intros Ht H12. rewrite !cls_abs_iff. intros [Hin [Hd|Hk]]; split; auto.
  right. eapply (leb_trans o L); [|exact Hk]. apply (mul_mono o L); [|exact H12].
  eapply (leb_trans o L); [exact Ht|]. apply offdiag_max_spec.
Qed.

Theorem cls_min_monotone t1 t2 i r e :
  (t1 <=? t2) = true ->
  In e (cls_min_row o t2 i r) -> In e (cls_min_row o t1 i r).
Proof.
  intros H12. rewrite !cls_min_iff. intros [Hin [Hd|Hk]]; split; auto.
  right. eapply (leb_trans o L); [|exact Hk]. apply (mul_mono o L); [|exact H12].
  apply offdiag_max_neg_spec.
Qed.

Theorem sym_monotone t1 t2 diags i r e :
  (zero o <=? t1) = true -> (t1 <=? t2) = true ->
  (forall k, (zero o <=? nthZ diags k (zero o)) = true) ->
  In e (filter (keep_sym o t2 diags i) r) -> In e (filter (keep_sym o t1 diags i) r).
Proof.
  intros H0 H12 Hd. rewrite !sym_keep_iff. intros [Hin [He|Hk]]; split; auto.
  right. eapply (leb_trans o L); [|exact Hk].
  apply (mul_mono o L); [apply Hd|]. apply (mul_mono o L); [apply Hd|].
  apply (sq_mono o L); assumption.
Qed.

(* theta = 0 keeps the whole pattern (abs norm and symmetric measure) *)
Theorem cls_abs_theta0 tiny i r : cls_abs_row o tiny (zero o) i r = r.
Proof.
  unfold cls_abs_row. apply filter_all_id. intros e _.
  unfold keep_abs. apply orb_true_iff. right.
  eapply (leb_trans o L); [apply (mul_zero_le o L)|apply (abs_nonneg o L)].
Qed.

Theorem sym_theta0 diags i r : filter (keep_sym o (zero o) diags i) r = r.
Proof.
  apply filter_all_id. intros e _.
  unfold keep_sym. apply orb_true_iff. right.
  rewrite !(mul_zero_l o L). apply (sq_nonneg o L).
Qed.

(* ---------- the tail: |.|, scale by the row maximum, drop zeros ---------- *)
Definition sel_all (e : Z * F) : option F := Some (abs o (snd e)).
Lemma row_max_is_fmax tiny r : row_max o tiny r = fmax sel_all r tiny.
Proof. reflexivity. Qed.

Lemma abs_row_In r e : In e (abs_row o r) -> exists e0, In e0 r /\ e = (fst e0, abs o (snd e0)).
Proof. unfold abs_row. intro H. apply in_map_iff in H. destruct H as [e0 [<- H]]. eauto. Qed.

(* every entry of a scaled row lies in [0,1] (rows whose maximum is positive) *)
Theorem tail_unit_interval tiny r e :
  (forall e0, In e0 r -> (zero o <=? snd e0) = true) ->
  ltb o (zero o) (row_max o tiny r) = true ->
  In e (scale_row o tiny r) ->
  (zero o <=? snd e) = true /\ (snd e <=? one o) = true.
Proof.
  intros Hpos Hm Hin. unfold scale_row in Hin. apply in_map_iff in Hin. destruct Hin as [e0 [<- Hin]].
  cbn [snd]. unfold recip.
  assert (Hnz : eqb o (row_max o tiny r) (zero o) = false).
  { destruct (eqb o (row_max o tiny r) (zero o)) eqn:E; [|reflexivity].
    apply (eqb_leb o L) in E. destruct E as [E _]. rewrite (leb_ltb o L), Hm in E. discriminate. }
  rewrite Hnz. split.
  - apply (mul_nonneg o L); [apply Hpos; exact Hin|]. apply (ltb_true_leb o L). apply (recip_pos o L). exact Hm.
  - apply (recip_le o L); [exact Hm|].
    eapply (leb_trans o L); [|apply (fmax_ub sel_all r tiny e0 (abs o (snd e0)) Hin eq_refl)].
    pose proof (abs_of_nonneg o L _ (Hpos _ Hin)) as E. apply (eqb_leb o L) in E. tauto.
Qed.

(* the maximum is attained: some entry of the scaled row equals 1 *)
Theorem tail_rowmax_one tiny r :
  (forall e0, In e0 r -> (zero o <=? snd e0) = true) ->
  ltb o (zero o) (row_max o tiny r) = true ->
  row_max o tiny r <> tiny ->
  exists e, In e (scale_row o tiny r) /\ eqb o (snd e) (one o) = true.
Proof.
  intros Hpos Hm Hne. rewrite row_max_is_fmax in *.
  destruct (fmax_attained sel_all r tiny) as [H|[e0 [v [Hin [Hs H]]]]]; [contradiction|].
  injection Hs as <-.
  exists (fst e0, mul o (snd e0) (recip o (fmax sel_all r tiny))). split.
  - unfold scale_row. rewrite row_max_is_fmax. apply (in_map (fun e => (fst e, mul o (snd e) _)) r e0 Hin).
  - cbn [snd]. unfold recip.
    assert (Hnz : eqb o (fmax sel_all r tiny) (zero o) = false).
    { destruct (eqb o (fmax sel_all r tiny) (zero o)) eqn:E; [|reflexivity].
      apply (eqb_leb o L) in E. destruct E as [E _]. rewrite (leb_ltb o L), Hm in E. discriminate. }
    rewrite Hnz.
    (* snd e0 and |snd e0| are equal as field elements; the maximum is |snd e0| *)
    pose proof (abs_of_nonneg o L _ (Hpos _ Hin)) as E.
    pose proof (recip_self o L _ Hm) as R. rewrite H in R at 1.
    apply (eqb_leb o L). apply (eqb_leb o L) in R. apply (eqb_leb o L) in E.
    destruct R as [R1 R2], E as [E1 E2].
    assert (Hr : (zero o <=? div o (one o) (fmax sel_all r tiny)) = true)
      by (apply (ltb_true_leb o L), (recip_pos o L), Hm).
    split.
    + eapply (leb_trans o L); [|exact R1]. apply (mul_mono o L); assumption.
    + eapply (leb_trans o L); [exact R2|]. apply (mul_mono o L); assumption.
Qed.

(* a nonzero stored diagonal survives the whole classical pipeline *)
Theorem classical_abs_diag_kept tiny theta i r a :
  In (i, a) r -> eqb o a (zero o) = false ->
  ltb o (zero o) tiny = true ->
  In i (map fst (drop_zeros o (scale_row o tiny (abs_row o (cls_abs_row o tiny theta i r))))).
Proof.
  intros Hin Hnz Ht.
  set (k := cls_abs_row o tiny theta i r).
  assert (Hk : In (i, a) k) by (apply cls_abs_iff; split; [exact Hin|left; reflexivity]).
  set (r1 := abs_row o k).
  assert (H1 : In (i, abs o a) r1) by (apply (in_map (fun e => (fst e, abs o (snd e))) k (i, a) Hk)).
  set (m := row_max o tiny r1).
  assert (Hm : ltb o (zero o) m = true).
  { destruct (ltb o (zero o) m) eqn:E; [reflexivity|]. exfalso.
    apply (ltb_false_leb o L) in E.
    pose proof (fmax_ge_init sel_all r1 tiny) as G. change (fmax sel_all r1 tiny) with m in G.
    pose proof (leb_trans o L _ _ _ G E) as G'. rewrite (leb_ltb o L), Ht in G'. discriminate. }
  assert (Hs : eqb o (recip o m) (zero o) = false).
  { unfold recip. destruct (eqb o m (zero o)) eqn:E.
    - apply (eqb_leb o L) in E. destruct E as [E _]. rewrite (leb_ltb o L), Hm in E. discriminate.
    - pose proof (recip_pos o L _ Hm) as P.
      destruct (eqb o (div o (one o) m) (zero o)) eqn:E'; [|reflexivity].
      apply (eqb_leb o L) in E'. destruct E' as [E' _]. rewrite (leb_ltb o L), P in E'. discriminate. }
  assert (Ha : eqb o (abs o a) (zero o) = false).
  { destruct (eqb o (abs o a) (zero o)) eqn:E; [|reflexivity]. apply (abs_zero o L) in E. congruence. }
  apply in_map_iff. exists (i, mul o (abs o a) (recip o m)). split; [reflexivity|].
  unfold drop_zeros. apply filter_In. split.
  - unfold scale_row. fold m. apply (in_map (fun e => (fst e, mul o (snd e) (recip o m))) r1 (i, abs o a) H1).
  - cbn [snd]. rewrite (mul_nonzero o L); [reflexivity|exact Ha|exact Hs].
Qed.
End P.
