From Coq Require Import List Bool.
Import ListNotations.
Require Import PV.Model.Coarse.

Section P.
Variables (Mat Fac V : Type) (factor : Mat -> Fac) (apply : Fac -> V -> V) (nnz0 : Mat -> bool) (zeros_like : V -> V).
Notation call := (call Mat Fac V factor apply nnz0 zeros_like).
Notation run := (run Mat Fac V factor apply nnz0 zeros_like).

(* the cache is coherent: empty, or the factorisation of the matrix *)
Definition coherent (s : option Fac) (A : Mat) : Prop := s = None \/ s = Some (factor A).

Lemma call_spec s A b : coherent s A ->
  coherent (fst (call s A b)) A /\
  snd (call s A b) = if nnz0 A then zeros_like b else apply (factor A) b.
Proof.
  intros H. unfold Coarse.call. destruct (nnz0 A); [split; [exact H|reflexivity]|].
  destruct H as [->| ->]; cbn; split; try reflexivity; right; reflexivity.
Qed.

(* every call of a history returns the solve of ITS right-hand side, whatever came before:
   the factorisation is created on first use and reused, never keyed on an earlier b *)
Theorem run_spec A : forall bs s, coherent s A ->
  snd (run s A bs) = map (fun b => if nnz0 A then zeros_like b else apply (factor A) b) bs /\
  coherent (fst (run s A bs)) A.
Proof.
  induction bs as [|b t IH]; intros s H; cbn [Coarse.run map]; [split; [reflexivity|exact H]|].
  destruct (call s A b) as [s1 x] eqn:E1.
  pose proof (call_spec s A b H) as [Hc Hx]. rewrite E1 in Hc, Hx. cbn in Hc, Hx.
  destruct (run s1 A t) as [s2 xs] eqn:E2.
  pose proof (IH s1 Hc) as [Hxs Hc2]. rewrite E2 in Hxs, Hc2. cbn in Hxs, Hc2.
  cbn. split; [rewrite Hx, Hxs; reflexivity|exact Hc2].
Qed.

Corollary history_independent A bs1 bs2 b : 
  let s1 := fst (run None A bs1) in let s2 := fst (run None A bs2) in
  snd (call s1 A b) = snd (call s2 A b).
Proof.
  cbn zeta.
  pose proof (run_spec A bs1 None (or_introl eq_refl)) as [_ H1].
  pose proof (run_spec A bs2 None (or_introl eq_refl)) as [_ H2].
  rewrite (proj2 (call_spec _ A b H1)), (proj2 (call_spec _ A b H2)). reflexivity.
Qed.
End P.
