(* Executable specifications (boolean validity predicates) for the graph kernels,
   and the complete enumeration of small symmetric graphs used by the bounded
   theorems.  The predicates are deliberately naive restatements of the
   property text; they share no code with the algorithm models. *)
From Coq Require Import ZArith List Bool.
Import ListNotations.
Require Import PV.Model.GraphAlg.
Open Scope Z_scope.

(* ---- graphs as CSR ---- *)
Definition csr_of_adj (n : Z) (adj : Z -> list Z) : list Z * list Z :=
  let rows := map adj (zr 0 n) in
  let ptr := fold_left (fun (acc : list Z * Z) r =>
                 let e := snd acc + Z.of_nat (length r) in (fst acc ++ [e], e)) rows ([0], 0) in
  (fst ptr, concat rows).

Definition pairs (n : Z) : list (Z * Z) :=
  flat_map (fun i => map (fun j => (i, j)) (zr (i + 1) n)) (zr 0 n).
Fixpoint subsets {A} (l : list A) : list (list A) :=
  match l with [] => [[]] | a :: t => let s := subsets t in s ++ map (cons a) s end.
Definition has (e : list (Z * Z)) (i j : Z) : bool :=
  existsb (fun p => ((fst p =? i) && (snd p =? j)) || ((fst p =? j) && (snd p =? i))) e.
(* symmetric graph with the given undirected edges, optionally with stored diagonal *)
Definition sym_graph (n : Z) (e : list (Z * Z)) (diag : bool) : list Z * list Z :=
  csr_of_adj n (fun i => filter (fun j => (diag && (i =? j)) || has e i j) (zr 0 n)).
Definition all_graphs (n : Z) : list (list Z * list Z) :=
  flat_map (fun e => [sym_graph n e false; sym_graph n e true]) (subsets (pairs n)).

(* ---- predicates ---- *)
Section Spec.
Variables (n : Z) (Ap Aj : list Z).
Definition adjb (i j : Z) : bool := negb (i =? j) && existsb (Z.eqb j) (nbrs Ap Aj i).
Definition nodes := zr 0 n.

(* ball of radius k around a set *)
Fixpoint ball (k : nat) (S : list Z) : list Z :=
  match k with
  | O => S
  | S k' => let B := ball k' S in filter (fun j => existsb (Z.eqb j) B || existsb (fun i => adjb i j) B) nodes
  end.
Definition within (k : nat) (i j : Z) : bool := existsb (Z.eqb j) (ball k [i]).

(* independent and maximal at distance k; flags must be 0/1 *)
Definition is_mis (k : nat) (x : list Z) : bool :=
  (Z.of_nat (length x) =? n) &&
  forallb (fun i => (get x i =? 0) || (get x i =? 1)) nodes &&
  forallb (fun i => forallb (fun j => negb ((get x i =? 1) && (get x j =? 1) && negb (i =? j) && within k i j)) nodes) nodes &&
  forallb (fun i => (get x i =? 1) || existsb (fun j => (get x j =? 1) && within k i j) nodes) nodes.

Definition is_coloring (x : list Z) (K : Z) : bool :=
  (Z.of_nat (length x) =? n) &&
  forallb (fun i => forallb (fun j => negb (adjb i j && (get x i =? get x j))) nodes) nodes &&
  forallb (fun c => existsb (fun i => get x i =? c) nodes) (zr 0 K) &&
  forallb (fun i => (0 <=? get x i) && (get x i <? K)) nodes.

Definition is_components (comp : list Z) (c : Z) : bool :=
  forallb (fun i => forallb (fun j => Bool.eqb (get comp i =? get comp j) (within (Z.to_nat n) i j)) nodes) nodes &&
  forallb (fun k => existsb (fun i => get comp i =? k) nodes) (zr 0 c) &&
  forallb (fun i => (0 <=? get comp i) && (get comp i <? c)) nodes.

(* hop count from seed = least k with j in the k-ball; -1 if unreachable *)
Definition hops (seed j : Z) : Z :=
  match find (fun k => within (Z.to_nat k) seed j) (zr 0 (n + 1)) with Some k => k | None => -1 end.
Definition is_bfs (seed : Z) (order level : list Z) (N : Z) : bool :=
  forallb (fun j => get level j =? hops seed j) nodes &&
  (N =? Z.of_nat (length (filter (fun j => 0 <=? hops seed j) nodes))) &&
  forallb (fun j => Bool.eqb (0 <=? hops seed j) (existsb (Z.eqb j) (firstn (Z.to_nat N) order))) nodes.

(* shortest distances from a set of centres by n rounds of naive relaxation *)
Definition omin (a b : option Z) : option Z :=
  match a, b with Some u, Some v => Some (Z.min u v) | Some u, None => Some u | None, b => b end.
Definition wt (Ax : list Z) (i j : Z) : option Z :=     (* weight of edge i -> j (last stored) *)
  fold_left (fun acc jj => if get Aj jj =? j then Some (get Ax jj) else acc) (zr (get Ap i) (get Ap (i + 1))) None.
Fixpoint spd (Ax : list Z) (cs : list Z) (k : nat) (j : Z) : option Z :=
  match k with
  | O => if existsb (Z.eqb j) cs then Some 0 else None
  | S k' => fold_left (fun acc i =>
              match spd Ax cs k' i, wt Ax i j with
              | Some u, Some w => omin acc (Some (u + w)) | _, _ => acc end) nodes (spd Ax cs k' j)
  end.
Definition oeq (a b : option Z) : bool :=
  match a, b with Some u, Some v => u =? v | None, None => true | _, _ => false end.
Definition is_bf (Ax cs : list Z) (d : list (option Z)) (m p : list Z) : bool :=
  let k := Z.to_nat n in
  forallb (fun j => oeq (getd d j) (spd Ax cs k j)) nodes &&
  forallb (fun j =>
     match getd d j with
     | None => (get m j =? -1) && (get p j =? -1)
     | Some dj =>
         (* the assigned centre attains the distance *)
         (0 <=? get m j) && (get m j <? Z.of_nat (length cs)) &&
         oeq (spd Ax [nth (Z.to_nat (get m j)) cs (-1)] k j) (Some dj) &&
         (* predecessor consistent: centres have none (or distance 0), others d_p + w = d_j *)
         ((existsb (Z.eqb j) cs && (dj =? 0)) ||
          match getd d (get p j), wt Ax (get p j) j with
          | Some dp, Some w => (0 <=? get p j) && (dp + w =? dj) | _, _ => false end)
     end) nodes.
End Spec.
