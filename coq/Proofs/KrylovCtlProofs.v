From Coq Require Import List Arith Bool Lia.
Import ListNotations.
Require Import PV.Model.Solve PV.Proofs.SolveProofs PV.Model.KrylovCtl.

Section P.
Variables (V F : Type) (ltb : F -> F -> bool) (step : V -> V) (hist crit thr : V -> F) (maxiter : nat) (early : bool).
Notation krylov := (krylov V F ltb step hist crit thr maxiter early).
Notation conv x := (ltb (crit x) (thr x)).

(* an initial guess that already meets the criterion is returned unchanged with status 0,
   an empty callback trace and a one-entry history *)
Theorem converged_guess x0 : early = true -> conv x0 = true ->
  krylov x0 = Some {| rx := x0; rstatus := 0; rres := [obs V F hist crit thr x0]; rcb := [] |}.
Proof. intros -> H. unfold KrylovCtl.krylov, passes, obs. cbn. rewrite H. reflexivity. Qed.

(* otherwise: the C01 loop specification *)
Theorem iterating x0 r : 1 <= maxiter -> (early = false \/ conv x0 = false) -> krylov x0 = Some r ->
  exists k, 1 <= k <= maxiter
    /\ rx r = iter V step k x0
    /\ rcb r = iterates V step k x0
    /\ last (rcb r) x0 = rx r
    /\ map (fun t => fst (fst t)) (rres r) = map hist (x0 :: rcb r)
    /\ length (rres r) = S k
    /\ (forall j, j < k - 1 -> conv (iter V step (S j) x0) = false)
    /\ (rstatus r = 0 <-> conv (rx r) = true)
    /\ (rstatus r <> 0 -> rstatus r = k /\ k = maxiter).
Proof.
  intros Hm He Hk. unfold KrylovCtl.krylov in Hk.
  assert (E : early && passes F ltb (obs V F hist crit thr x0) (obs V F hist crit thr x0) = false).
  { destruct He as [->|H]; [reflexivity|]. unfold passes, obs. cbn. rewrite H. apply andb_false_r. }
  rewrite E in Hk.
  destruct (solve_result V (F * F * F) (passes F ltb) step (obs V F hist crit thr) (obs V F hist crit thr x0) maxiter x0 r Hm Hk)
    as (k & H1 & H2 & H3 & H4 & H5 & H6 & H7 & H8 & H9).
  exists k. split; [exact H1|]. split; [exact H2|]. split; [exact H3|]. split; [exact H4|].
  split; [rewrite H5, map_map; reflexivity|]. split; [exact H6|]. split; [exact H7|]. split; [exact H8|exact H9].
Qed.

Theorem terminates x0 : 1 <= maxiter -> exists r, krylov x0 = Some r.
Proof.
  intro Hm. unfold KrylovCtl.krylov. destruct (early && _); [eauto|].
  apply solve_terminates. exact Hm.
Qed.
End P.
