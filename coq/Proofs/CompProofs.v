(* C18, unbounded: connected_components (depth-first search with an explicit stack) on EVERY symmetric
   graph of any size: it terminates within its fuel, labels every vertex with a number in [0, C), adjacent
   vertices get the same label, and two vertices with the same label are connected -- the labels are exactly
   the connected components. *)
From Coq Require Import ZArith List Bool Lia.
Import ListNotations.
Require Import PV.Model.GraphAlg.
Require Import PV.Proofs.NaiveAggProofs PV.Proofs.CmisProofs.
Open Scope Z_scope.

Lemma nodup_app {A} (l1 l2 : list A) : NoDup l1 -> NoDup l2 -> (forall a, In a l1 -> ~ In a l2) -> NoDup (l1 ++ l2).
Proof.
  induction l1 as [|a l1 IH]; intros N1 N2 D; cbn [app]; [exact N2|].
  inversion N1; subst. constructor.
  - intro Hin. apply in_app_or in Hin. destruct Hin as [H|H]; [contradiction|exact (D a (or_introl eq_refl) H)].
  - apply IH; [assumption|exact N2|intros b Hb; apply D; right; exact Hb].
Qed.

Section S.
Variables (N : nat) (Ap Aj : list Z).
Let n := Z.of_nat N.
Notation nb := (nbrs Ap Aj).
Hypothesis cols_in_range : forall i, 0 <= i < n -> forall j, In j (nb i) -> 0 <= j < n.
Hypothesis sym : forall i j, 0 <= i < n -> In j (nb i) -> In i (nb j).

(* connectivity: reflexive-transitive closure of adjacency among vertices in range *)
Inductive conn : Z -> Z -> Prop :=
| conn_refl i : 0 <= i < n -> conn i i
| conn_step i j k : conn i j -> In k (nb j) -> conn i k.
Lemma conn_in_range i j : conn i j -> 0 <= i < n /\ 0 <= j < n.
Proof. induction 1 as [i Hi|i j k H IH Hk]; [split; exact Hi|]. destruct IH as [A B]. split; [exact A|apply (cols_in_range j B); exact Hk]. Qed.
Lemma conn_trans i j k : conn i j -> conn j k -> conn i k.
Proof. intros H1 H2. induction H2 as [j Hj|j k l H IH Hl]; [exact H1|]. apply conn_step with k; [apply IH; exact H1|exact Hl]. Qed.
Lemma conn_sym i j : conn i j -> conn j i.
Proof.
  induction 1 as [i Hi|i j k H IH Hk]; [apply conn_refl; exact Hi|].
  destruct (conn_in_range _ _ H) as [_ Hj].
  apply conn_trans with j; [|exact IH]. apply conn_step with k; [apply conn_refl; apply (cols_in_range j Hj); exact Hk|apply (sym j k Hj Hk)].
Qed.

Definition lab (v : Z) : bool := negb (v =? -1).

(* ---- the inner loop over the neighbours of the popped vertex ---- *)
Definition push_step (c : Z) (s : list Z * list Z) (j : Z) : list Z * list Z :=
  if get (snd s) j =? -1 then (j :: fst s, set (snd s) j c) else s.
Lemma push_spec c : c <> -1 -> forall row stack comp, length comp = N -> (forall j, In j row -> 0 <= j < n) ->
  let '(stack', comp') := fold_left (push_step c) row (stack, comp) in
  length comp' = N /\
  (forall k, 0 <= k < n -> get comp' k = get comp k \/ (get comp k = -1 /\ get comp' k = c /\ In k row)) /\
  (forall k, In k row -> get comp' k <> -1) /\
  (exists new, stack' = new ++ stack /\ NoDup new /\ (forall k, In k new <-> (0 <= k < n /\ get comp k = -1 /\ get comp' k = c)) /\
               Z.of_nat (cnt n lab comp') = Z.of_nat (cnt n lab comp) + Z.of_nat (length new)).
Proof.
  intros Hc. induction row as [|j row IH]; intros stack comp Hl Hr; cbn [fold_left].
  - split; [exact Hl|]. split; [intros k Hk; left; reflexivity|]. split; [intros k []|].
    exists []. split; [reflexivity|]. split; [constructor|]. split; [|cbn [length]; lia].
    intro k. split; [intros []|]. intros (K1 & K2 & K3). rewrite K2 in K3. congruence.
  - assert (Hj : 0 <= j < n) by (apply Hr; left; reflexivity).
    assert (Hr' : forall k, In k row -> 0 <= k < n) by (intros k Hk; apply Hr; right; exact Hk).
    unfold push_step at 2. cbn [fst snd].
    destruct (Z.eqb_spec (get comp j) (-1)) as [E|E].
    + specialize (IH (j :: stack) (set comp j c) ltac:(rewrite length_set; exact Hl) Hr').
      destruct (fold_left (push_step c) row (j :: stack, set comp j c)) as [stack' comp'].
      destruct IH as (L & A & B & new & S1 & Nd & Mem & Cn).
      assert (Sj : get (set comp j c) j = c) by (apply get_set_same; rewrite Hl; unfold n in *; lia).
      assert (Cj : get comp' j = c) by (destruct (A j Hj) as [Q|(Q & _)]; [rewrite Q; exact Sj|rewrite Sj in Q; congruence]).
      repeat split.
      * exact L.
      * intros k Hk. destruct (Z.eq_dec k j) as [->|Hne]; [right; repeat split; auto; left; reflexivity|].
        destruct (A k Hk) as [Q|(Q1 & Q2 & Q3)].
        -- left. rewrite Q. apply get_set_other; lia.
        -- right. rewrite get_set_other in Q1 by lia. repeat split; auto. right; exact Q3.
      * intros k [<-|Hk]; [rewrite Cj; exact Hc|apply B; exact Hk].
      * exists (new ++ [j]).
        assert (Hnj : ~ In j new) by (intro Hin; apply Mem in Hin; destruct Hin as (_ & Q & _); rewrite Sj in Q; congruence).
        split; [rewrite S1, <- app_assoc; reflexivity|]. split.
        { clear - Nd Hnj. induction new as [|a new IHn]; cbn [app]; [constructor; [intros []|constructor]|].
          inversion Nd; subst. constructor; [intro Hin; apply in_app_or in Hin; destruct Hin as [H|[H|[]]]; [contradiction|subst; apply Hnj; left; reflexivity]|].
          apply IHn; [assumption|intro; apply Hnj; right; assumption]. }
        split.
        { intro k. split.
          - intro Hin. apply in_app_or in Hin. destruct Hin as [Hin|[<-|[]]].
            + apply Mem in Hin. destruct Hin as (K1 & K2 & K3). assert (k <> j) by (intro; subst; rewrite Sj in K2; congruence).
              rewrite get_set_other in K2 by lia. auto.
            + auto.
          - intros (K1 & K2 & K3). apply in_or_app. destruct (Z.eq_dec k j) as [->|Hne]; [right; left; reflexivity|].
            left. apply Mem. rewrite get_set_other by lia. auto. }
        rewrite app_length. cbn [length]. rewrite Cn.
        rewrite (cnt_one n lab comp (set comp j c) j Hj).
        -- lia.
        -- unfold lab. rewrite E. reflexivity.
        -- unfold lab. rewrite Sj. destruct (Z.eqb_spec c (-1)); [contradiction|reflexivity].
        -- intros k Hk Hne. rewrite get_set_other by lia. reflexivity.
    + specialize (IH stack comp Hl Hr').
      destruct (fold_left (push_step c) row (stack, comp)) as [stack' comp'].
      destruct IH as (L & A & B & new & S1 & Nd & Mem & Cn).
      repeat split; auto.
      * intros k Hk. destruct (A k Hk) as [Q|(Q1 & Q2 & Q3)]; [left; exact Q|right; repeat split; auto; right; exact Q3].
      * intros k [<-|Hk]; [|apply B; exact Hk]. destruct (A j Hj) as [Q|(Q & _)]; [rewrite Q; exact E|contradiction].
      * exists new. split; [exact S1|]. split; [exact Nd|]. split; [exact Mem|exact Cn].
Qed.

(* ---- the depth-first search for one label ---- *)
Record DI (c r : Z) (comp0 stack comp : list Z) : Prop := {
  d_l : length comp = N; d_c : 0 <= c; d_r : 0 <= r < n;
  d_val : forall k, 0 <= k < n -> get comp k = -1 \/ 0 <= get comp k <= c;
  d_keep : forall k, 0 <= k < n -> get comp0 k <> -1 -> get comp k = get comp0 k;
  d_stk : forall k, In k stack -> 0 <= k < n /\ get comp k = c;
  d_nd : NoDup stack;
  d_oldcl : forall i, 0 <= i < n -> 0 <= get comp i < c -> forall j, In j (nb i) -> get comp j = get comp i;
  d_oldconn : forall i j, 0 <= i < n -> 0 <= j < n -> 0 <= get comp i < c -> get comp j = get comp i -> conn i j;
  d_new : forall k, 0 <= k < n -> get comp k = c -> conn r k;
  d_proc : forall k, 0 <= k < n -> get comp k = c -> ~ In k stack -> forall j, In j (nb k) -> get comp j = c
}.
Definition mu (stack comp : list Z) : Z := Z.of_nat (length stack) + n - Z.of_nat (cnt n lab comp).

Lemma dfs_step c r comp0 top rest comp : c <> -1 -> DI c r comp0 (top :: rest) comp ->
  let '(stack', comp') := fold_left (push_step c) (nb top) (rest, comp) in
  DI c r comp0 stack' comp' /\ mu stack' comp' = mu (top :: rest) comp - 1.
Proof.
  intros Hc [Lc Hc0 Hr Val Keep Stk Nd Ocl Ocn New Proc].
  destruct (Stk top (or_introl eq_refl)) as [Ht Ct].
  pose proof (push_spec c Hc (nb top) rest comp Lc (cols_in_range top Ht)) as P.
  destruct (fold_left (push_step c) (nb top) (rest, comp)) as [stack' comp'].
  destruct P as (L & A & B & new & S1 & NdN & Mem & Cn).
  inversion Nd as [|t0 r0 Hnot Ndr]; subst t0 r0.
  (* entries that already carry a label are untouched *)
  assert (Same : forall k, 0 <= k < n -> get comp k <> -1 -> get comp' k = get comp k).
  { intros k Hk Hx. destruct (A k Hk) as [Q|(Q & _)]; [exact Q|contradiction]. }
  assert (Lt : forall k, 0 <= k < n -> 0 <= get comp' k < c -> get comp' k = get comp k).
  { intros k Hk Hx. destruct (A k Hk) as [Q|(_ & Q & _)]; [exact Q|lia]. }
  split.
  - constructor; auto.
    + intros k Hk. destruct (A k Hk) as [Q|(_ & Q & _)]; [rewrite Q; apply Val; exact Hk|right; lia].
    + intros k Hk Hx. rewrite <- (Keep k Hk Hx). apply Same; [exact Hk|]. rewrite (Keep k Hk Hx). exact Hx.
    + intros k Hk. rewrite S1 in Hk. apply in_app_or in Hk. destruct Hk as [Hk|Hk].
      * apply Mem in Hk. destruct Hk as (K1 & _ & K3). split; assumption.
      * destruct (Stk k (or_intror Hk)) as [K1 K2]. split; [exact K1|]. rewrite Same; [exact K2|exact K1|lia].
    + rewrite S1. apply nodup_app; [exact NdN|exact Ndr|].
      intros a Ha Hin. apply Mem in Ha. destruct Ha as (_ & Q & _).
      destruct (Stk a (or_intror Hin)) as [_ Ca]. lia.
    + intros i Hi Hx j Hj. pose proof (Lt i Hi Hx) as Ei. rewrite Ei in Hx |- *. assert (Hjr : 0 <= j < n) by (apply (cols_in_range i Hi); exact Hj).
      pose proof (Ocl i Hi Hx j Hj) as Q. rewrite Same; [exact Q|exact Hjr|lia].
    + intros i j Hi Hj Hx Heq. pose proof (Lt i Hi Hx) as Ei. rewrite Ei in Hx, Heq. rewrite (Lt j Hj ltac:(lia)) in Heq. apply Ocn; assumption.
    + intros k Hk Hx. destruct (A k Hk) as [Q|(_ & _ & Q)]; [rewrite Q in Hx; apply New; assumption|].
      apply conn_step with top; [apply New; assumption|exact Q].
    + intros k Hk Hx Hnin j Hj. assert (Hjr : 0 <= j < n) by (apply (cols_in_range k Hk); exact Hj).
      rewrite S1 in Hnin.
      destruct (Z.eq_dec k top) as [->|Hkt].
      * (* the vertex just processed: all its neighbours carry the label now *)
        pose proof (B j Hj) as Nz. destruct (A j Hjr) as [Q|(_ & Q & _)]; [|exact Q].
        rewrite Q in *. destruct (Val j Hjr) as [V|V]; [contradiction|].
        destruct (Z.eq_dec (get comp j) c) as [E|E]; [exact E|].
        exfalso. assert (Hold : 0 <= get comp j < c) by lia.
        pose proof (Ocl j Hjr Hold top (sym top j Ht Hj)) as Q2. lia.
      * assert (Ck : get comp k = c).
        { destruct (A k Hk) as [Q|(Q1 & Q2 & Q3)]; [rewrite <- Q; exact Hx|].
          exfalso. apply Hnin. apply in_or_app. left. apply Mem. auto. }
        assert (Hnin' : ~ In k (top :: rest)) by (intros [E|E]; [congruence|apply Hnin; apply in_or_app; right; exact E]).
        pose proof (Proc k Hk Ck Hnin' j Hj) as Q. rewrite Same; [exact Q|exact Hjr|lia].
  - unfold mu. rewrite S1, app_length. cbn [length]. lia.
Qed.

Lemma dfs_spec c r comp0 : c <> -1 -> forall fuel stack comp, DI c r comp0 stack comp -> mu stack comp < Z.of_nat fuel ->
  exists comp', cc_dfs Ap Aj fuel stack comp c = Some comp' /\ DI c r comp0 [] comp'.
Proof.
  intros Hc. induction fuel as [|fuel IH]; intros stack comp I Hm.
  - exfalso. unfold mu in Hm. pose proof (cnt_le n lab comp). unfold n in *. lia.
  - cbn [cc_dfs]. destruct stack as [|top rest]; [exists comp; split; [reflexivity|exact I]|].
    pose proof (dfs_step c r comp0 top rest comp Hc I) as S1.
    change (fold_left _ (nb top) (rest, comp)) with (fold_left (push_step c) (nb top) (rest, comp)).
    destruct (fold_left (push_step c) (nb top) (rest, comp)) as [stack' comp']. destruct S1 as [I' M'].
    apply IH; [exact I'|lia].
Qed.

(* ---- the outer loop ---- *)
Record OI (m : nat) (comp : list Z) (c : Z) : Prop := {
  o_l : length comp = N; o_c : 0 <= c;
  o_val : forall k, 0 <= k < n -> get comp k = -1 \/ 0 <= get comp k < c;
  o_done : forall k, 0 <= k < Z.of_nat m -> get comp k <> -1;
  o_cl : forall i, 0 <= i < n -> get comp i <> -1 -> forall j, In j (nb i) -> get comp j = get comp i;
  o_conn : forall i j, 0 <= i < n -> 0 <= j < n -> get comp i <> -1 -> get comp j = get comp i -> conn i j;
  o_used : forall a, 0 <= a < c -> exists k, 0 <= k < n /\ get comp k = a
}.
Definition ostep (s : option (list Z * Z)) (i : Z) : option (list Z * Z) :=
  match s with
  | None => None
  | Some (comp, c) =>
    if get comp i =? -1 then
      match cc_dfs Ap Aj (S (S (Z.to_nat n))) [i] (set comp i c) c with
      | None => None | Some comp' => Some (comp', c + 1) end
    else s
  end.
Lemma ostep_inv m comp c : (m < N)%nat -> OI m comp c ->
  exists comp' c', ostep (Some (comp, c)) (Z.of_nat m) = Some (comp', c') /\ OI (S m) comp' c'.
Proof.
  intros Hm [Lc Hc Val Done Cl Cn Used]. assert (Hmn : 0 <= Z.of_nat m < n) by (unfold n; lia).
  unfold ostep. destruct (Z.eqb_spec (get comp (Z.of_nat m)) (-1)) as [E|E].
  2:{ exists comp, c. split; [reflexivity|]. constructor; auto.
      intros k Hk. destruct (Z.eq_dec k (Z.of_nat m)) as [->|Hne]; [exact E|apply Done; lia]. }
  set (comp1 := set comp (Z.of_nat m) c).
  assert (L1 : length comp1 = N) by (unfold comp1; rewrite length_set; exact Lc).
  assert (C1m : get comp1 (Z.of_nat m) = c) by (unfold comp1; apply get_set_same; rewrite Lc; lia).
  assert (C1o : forall k, 0 <= k -> k <> Z.of_nat m -> get comp1 k = get comp k) by (intros k H0 H1; unfold comp1; apply get_set_other; lia).
  assert (Cne : c <> -1) by lia.
  assert (I0 : DI c (Z.of_nat m) comp1 [Z.of_nat m] comp1).
  { constructor; auto.
    - intros k Hk. destruct (Z.eq_dec k (Z.of_nat m)) as [->|Hne]; [right; lia|]. rewrite C1o by lia. destruct (Val k Hk); [left; assumption|right; lia].
    - intros k [<-|[]]. split; assumption.
    - constructor; [intros []|constructor].
    - intros i Hi Hx j Hj. assert (Him : i <> Z.of_nat m) by (intro Eq; rewrite Eq, C1m in Hx; lia). rewrite (C1o i) in Hx |- * by lia.
      assert (Hjr : 0 <= j < n) by (apply (cols_in_range i Hi); exact Hj).
      pose proof (Cl i Hi ltac:(lia) j Hj) as Q. assert (j <> Z.of_nat m) by (intro Eq; rewrite Eq, E in Q; lia). rewrite C1o by lia. exact Q.
    - intros i j Hi Hj Hx Heq. assert (Him : i <> Z.of_nat m) by (intro Eq; rewrite Eq, C1m in Hx; lia). rewrite (C1o i) in Hx, Heq by lia.
      assert (Hjm : j <> Z.of_nat m) by (intro Eq; rewrite Eq, C1m in Heq; lia). rewrite C1o in Heq by lia. apply Cn; auto; lia.
    - intros k Hk Hx. destruct (Z.eq_dec k (Z.of_nat m)) as [->|Hne]; [apply conn_refl; exact Hmn|].
      rewrite C1o in Hx by lia. destruct (Val k Hk); lia.
    - intros k Hk Hx Hnin. exfalso. apply Hnin. destruct (Z.eq_dec k (Z.of_nat m)) as [->|Hne]; [left; reflexivity|].
      rewrite C1o in Hx by lia. destruct (Val k Hk); lia. }
  assert (Hmu : mu [Z.of_nat m] comp1 < Z.of_nat (S (S (Z.to_nat n)))).
  { unfold mu. cbn [length]. pose proof (cnt_pos N lab comp1 (Z.of_nat m) Hmn ltac:(unfold lab; rewrite C1m; destruct (Z.eqb_spec c (-1)); [lia|reflexivity])). unfold n in *. lia. }
  destruct (dfs_spec c (Z.of_nat m) comp1 Cne _ _ _ I0 Hmu) as [comp2 [E2 [L2 _ _ V2 K2 _ _ Ocl2 Ocn2 New2 Proc2]]].
  rewrite E2. exists comp2, (c + 1). split; [reflexivity|].
  assert (Keep : forall k, 0 <= k < n -> get comp k <> -1 -> get comp2 k = get comp k).
  { intros k Hk Hx. assert (k <> Z.of_nat m) by (intro Eq; rewrite Eq in Hx; contradiction). rewrite <- (C1o k) by lia. apply K2; [exact Hk|]. rewrite C1o by lia. exact Hx. }
  assert (C2m : get comp2 (Z.of_nat m) = c) by (rewrite K2; [exact C1m|exact Hmn|rewrite C1m; exact Cne]).
  constructor.
  - exact L2.
  - lia.
  - intros k Hk. destruct (V2 k Hk) as [Q|Q]; [left; exact Q|right; lia].
  - intros k Hk. destruct (Z.eq_dec k (Z.of_nat m)) as [->|Hne]; [rewrite C2m; exact Cne|].
    assert (Hkr : 0 <= k < n) by (unfold n in *; lia). rewrite Keep; [apply Done; lia|exact Hkr|apply Done; lia].
  - intros i Hi Hx j Hj. destruct (V2 i Hi) as [Q|Q]; [contradiction|].
    destruct (Z.eq_dec (get comp2 i) c) as [Ec|Ec].
    + rewrite Ec. apply (Proc2 i Hi Ec); [intros []|exact Hj].
    + apply Ocl2; [exact Hi|lia|exact Hj].
  - intros i j Hi Hj Hx Heq. destruct (V2 i Hi) as [Q|Q]; [contradiction|].
    destruct (Z.eq_dec (get comp2 i) c) as [Ec|Ec].
    + apply conn_trans with (Z.of_nat m); [apply conn_sym; apply New2; assumption|apply New2; [exact Hj|congruence]].
    + apply Ocn2; auto. lia.
  - intros a Ha. destruct (Z.eq_dec a c) as [->|Hne]; [exists (Z.of_nat m); split; assumption|].
    destruct (Used a ltac:(lia)) as [k [K1 K3]]. exists k. split; [exact K1|]. rewrite Keep; [exact K3|exact K1|lia].
Qed.
Lemma ofold_inv : forall (k m : nat) comp c, (m + k <= N)%nat -> OI m comp c ->
  exists comp' c', fold_left ostep (map Z.of_nat (seq m k)) (Some (comp, c)) = Some (comp', c') /\ OI (m + k) comp' c'.
Proof.
  induction k as [|k IH]; intros m comp c Hb I; cbn [seq map fold_left].
  - exists comp, c. rewrite Nat.add_0_r. auto.
  - destruct (ostep_inv m comp c ltac:(lia) I) as [comp1 [c1 [E1 I1]]]. rewrite E1.
    replace (m + S k)%nat with (S m + k)%nat by lia. apply IH; [lia|exact I1].
Qed.

Theorem connected_components_correct :
  exists comp C, connected_components n Ap Aj = Some (comp, C) /\
    length comp = N /\
    (forall k, 0 <= k < n -> 0 <= get comp k < C) /\
    (forall a, 0 <= a < C -> exists k, 0 <= k < n /\ get comp k = a) /\
    (forall i j, 0 <= i < n -> 0 <= j < n -> (get comp i = get comp j <-> conn i j)).
Proof.
  unfold connected_components.
  assert (I0 : OI 0 (fillz n (-1)) 0).
  { constructor.
    - apply length_fillz.
    - lia.
    - intros k Hk. left. unfold n in *. apply get_fillz. lia.
    - intros k Hk. lia.
    - intros i Hi Hx. exfalso. apply Hx. unfold n in *. apply get_fillz. lia.
    - intros i j Hi Hj Hx. exfalso. apply Hx. unfold n in *. apply get_fillz. lia.
    - intros a Ha. lia. }
  destruct (ofold_inv N 0 _ _ ltac:(lia) I0) as [comp [C [E [Lc HC Val Done Cl Cn Used]]]].
  rewrite <- (zr_seq N) in E. fold n in E. cbn [Nat.add] in Done.
  change (fold_left _ (zr 0 n) (Some (fillz n (-1), 0))) with (fold_left ostep (zr 0 n) (Some (fillz n (-1), 0))).
  exists comp, C. split; [exact E|]. split; [exact Lc|].
  assert (All : forall k, 0 <= k < n -> 0 <= get comp k < C).
  { intros k Hk. destruct (Val k Hk) as [Q|Q]; [exfalso; apply (Done k); [unfold n in *; lia|exact Q]|exact Q]. }
  split; [exact All|]. split; [exact Used|].
  intros i j Hi Hj. split.
  - intro Heq. apply Cn; [exact Hi|exact Hj|destruct (All i Hi); lia|symmetry; exact Heq].
  - intro H. induction H as [i0 Hi0|i0 j0 k0 H IH Hk0]; [reflexivity|].
    destruct (conn_in_range _ _ H) as [_ Hj0]. rewrite IH by (try assumption; exact Hj0).
    symmetry. apply Cl; [exact Hj0| |exact Hk0]. destruct (All j0 Hj0); lia.
Qed.
End S.
