(* C17, bounded: on every symmetric graph with <= 4 vertices (with and without stored diagonal)
   the bounds-checked standard and naive aggregation never leave x[0..n), y[0..n), Ap, Aj and
   return what the unchecked models return. *)
From Coq Require Import ZArith List Bool.
Import ListNotations.
Require Import PV.Model.GraphAlg PV.Model.Aggregate PV.Model.SplitChk PV.Model.AggChk PV.Proofs.GraphSpec PV.Proofs.GraphBounded PV.Proofs.SplitChkBounded.
Open Scope Z_scope.

Definition res_eqb (a b : list Z * list Z * Z) : bool :=
  let '(x, y, c) := a in let '(x', y', c') := b in zl_eqb x x' && zl_eqb y y' && (c =? c').
Definition ok_std_chk (g : list Z * list Z) : bool :=
  let n := nof g in
  match standard_aggregation_chk n (fst g) (snd g) (fillz n (-7)) with
  | Some r => res_eqb r (standard_aggregation n (fst g) (snd g) (fillz n (-7)))
  | None => false end.
Definition ok_naive_chk (g : list Z * list Z) : bool :=
  let n := nof g in
  match naive_aggregation_chk n (fst g) (snd g) (fillz n (-7)) with
  | Some r => res_eqb r (naive_aggregation n (fst g) (snd g) (fillz n (-7)))
  | None => false end.
Lemma all_std_chk : forallb ok_std_chk graphs_le4 = true. Proof. vm_compute. reflexivity. Qed.
Lemma all_naive_chk : forallb ok_naive_chk graphs_le4 = true. Proof. vm_compute. reflexivity. Qed.
Definition bounded_std_chk := lift _ _ all_std_chk.
Definition bounded_naive_chk := lift _ _ all_naive_chk.
(* non-vacuity: y one entry too short is caught *)
Example std_chk_detects_short_y :
  standard_aggregation_chk 2 [0; 1; 2] [1; 0] [] = None.
Proof. vm_compute. reflexivity. Qed.
