(* C06: properties of the GMRES control skeleton, for every observation sequence. *)
From Coq Require Import ZArith List Arith Lia Bool.
Import ListNotations.
Require Import PV.Model.GmresCtl.

Section P.
Variables (F : Type) (ltb : F -> F -> bool) (thr : F).
Variables (max_outer max_inner : nat).
Variable est : nat -> nat -> F.
Variable tru : nat -> nat -> F.
Variable stag : nat -> nat -> bool.
Hypothesis inner_pos : (1 <= max_inner)%nat.

Notation IL cb := (inner_loop F ltb thr cb max_inner est).
Notation OL cb := (outer_loop F ltb thr cb max_inner est tru stag).

(* history length = callbacks + 1; with counting before the test the counter equals the steps performed *)
Definition Good (cb : bool) (s : gst F) : Prop :=
  length (hist s) = S (ncb s) /\ (cb = true -> niter s = steps s).

Lemma inner_good cb : forall fuel inner outer s, Good cb s -> Good cb (fst (IL cb fuel inner outer s)).
Proof.
  assert (T : forall s : gst F, Good cb s ->
     Good cb (if cb then bump F (step1 F s) else step1 F s) /\
     (forall e, Good cb (if cb then emit F (bump F (step1 F s)) e else bump F (emit F (step1 F s) e))) /\
     Good cb (if cb then bump F (step1 F s) else bump F (step1 F s))).
  { intros s [GL GN]. destruct cb; repeat split; cbn; rewrite ?app_length; cbn; try lia; intro Hc; try discriminate;
      rewrite (GN eq_refl); reflexivity. }
  induction fuel as [|f IH]; intros inner outer s G; cbn [inner_loop]; [exact G|].
  destruct (T s G) as (T1 & T2 & T3).
  destruct (inner <? max_inner - 1).
  - destruct (ltb (est outer inner) thr); cbn [fst].
    + exact T1.
    + apply IH. specialize (T2 (est outer inner)). destruct cb; exact T2.
  - cbn [fst]. destruct cb; exact T3.
Qed.

Lemma inner_steps_mono cb : forall fuel inner outer s, (steps s <= steps (fst (IL cb fuel inner outer s)))%nat.
Proof.
  induction fuel as [|f IH]; intros inner outer s; cbn [inner_loop]; [cbn; lia|].
  destruct (inner <? max_inner - 1).
  - destruct (ltb (est outer inner) thr); cbn [fst].
    + destruct cb; cbn; lia.
    + etransitivity; [|apply IH]. destruct cb; cbn; lia.
  - cbn [fst]. destruct cb; cbn; lia.
Qed.
Lemma inner_steps_pos' cb fuel inner outer s : (1 <= fuel)%nat -> (S (steps s) <= steps (fst (IL cb fuel inner outer s)))%nat.
Proof.
  destruct fuel as [|f]; [lia|]. intros _. cbn [inner_loop].
  destruct (inner <? max_inner - 1).
  - destruct (ltb (est outer inner) thr); cbn [fst].
    + destruct cb; cbn; lia.
    + etransitivity; [|apply inner_steps_mono]. destruct cb; cbn; lia.
  - cbn [fst]. destruct cb; cbn; lia.
Qed.
Lemma inner_steps_pos cb inner outer s : (S (steps s) <= steps (fst (IL cb max_inner inner outer s)))%nat.
Proof. apply inner_steps_pos'. exact inner_pos. Qed.

Definition last_lt (s : gst F) : Prop := exists l v, hist s = l ++ [v] /\ ltb v thr = true.
Definition last_ge (s : gst F) : Prop := exists l v, hist s = l ++ [v] /\ ltb v thr = false.

(* the outer loop with every Arnoldi step counted *)
Lemma outer_spec : forall fuel outer s, Good true s ->
  let '(st, s') := OL true fuel outer s in
  Good true s' /\ (steps s <= steps s')%nat /\
  (st = 0%Z -> last_lt s' \/ (fuel = 0%nat /\ steps s = 0%nat)) /\
  ((0 < st)%Z -> st = Z.of_nat (steps s') /\ (s' = s \/ last_ge s')) /\
  (st = (-1)%Z \/ (0 <= st)%Z).
Proof.
  induction fuel as [|f IH]; intros outer s G; cbn [outer_loop].
  - destruct G as [GL GN]. split; [split; assumption|]. split; [lia|].
    split; [intro H; right; split; [reflexivity|rewrite <- (GN eq_refl); lia]|].
    split; [intro H; split; [rewrite (GN eq_refl); reflexivity|left; reflexivity]|right; lia].
  - pose proof (inner_good true max_inner 0 outer s G) as G1.
    pose proof (inner_steps_pos true 0 outer s) as P1.
    destruct (IL true max_inner 0 outer s) as [s1 k]. cbn [fst] in G1, P1.
    assert (G2 : Good true (emit F s1 (tru outer k))).
    { destruct G1 as [A B]. split; cbn; [rewrite app_length; cbn; lia|exact B]. }
    assert (S2 : steps (emit F s1 (tru outer k)) = steps s1) by reflexivity.
    destruct (stag outer k).
    + split; [exact G2|]. split; [lia|]. split; [discriminate|]. split; [lia|left; reflexivity].
    + destruct (ltb (tru outer k) thr) eqn:E.
      * split; [exact G2|]. split; [lia|].
        split; [intros _; left; exists (hist s1), (tru outer k); split; [reflexivity|exact E]|].
        split; [lia|right; lia].
      * specialize (IH (S outer) (emit F s1 (tru outer k)) G2).
        destruct (OL true f (S outer) (emit F s1 (tru outer k))) as [st s'].
        destruct IH as (A & M & B & C & D). split; [exact A|]. split; [lia|]. split; [|split; [|exact D]].
        -- intro H0. destruct (B H0) as [L|[Hf Hn]]; [left; exact L|]. exfalso. lia.
        -- intro H0. destruct (C H0) as [C1 C2]. split; [exact C1|]. right.
           destruct C2 as [->|L]; [|exact L].
           exists (hist s1), (tru outer k). split; [reflexivity|exact E].
Qed.

(* ---- the solver as it stands (every step counted), at least one outer iteration ---- *)
Theorem gmres_status_truthful r0 : (1 <= max_outer)%nat ->
  let '(st, s') := gmres_ctl F ltb thr true max_outer max_inner est tru stag r0 in
  length (hist s') = S (ncb s') /\
  (st = 0%Z -> last_lt s') /\
  ((0 < st)%Z -> st = Z.of_nat (steps s') /\ last_ge s') /\
  (st = (-1)%Z \/ (0 <= st)%Z).
Proof.
  intro Ho. unfold gmres_ctl. destruct (ltb r0 thr) eqn:E0.
  - split; [reflexivity|]. split; [intros _; exists [], r0; split; [reflexivity|exact E0]|]. split; [lia|right; lia].
  - set (s0 := {| hist := [r0]; ncb := 0; niter := 0; steps := 0 |}).
    assert (G0 : Good true s0) by (split; [reflexivity|reflexivity]).
    pose proof (outer_spec max_outer 0 s0 G0) as H.
    destruct (OL true max_outer 0 s0) as [st s']. destruct H as ((GL & _) & M & B & C & D).
    split; [exact GL|]. split; [|split; [|exact D]].
    + intro H0. destruct (B H0) as [L|[Hf _]]; [exact L|lia].
    + intro H0. destruct (C H0) as [C1 [->|L]]; (split; [exact C1|]); [exists [], r0; split; [reflexivity|exact E0]|exact L].
Qed.
End P.

(* ---- counting a step only after the convergence test (fgmres before its repair) is not truthful: the inner loop
   stops at its first step on an estimate below the threshold, the recomputed norm is not below it, and the solver
   reports status 0 ---- *)
Theorem gmres_count_after_test_refuted :
  exists (est tru : nat -> nat -> nat),
  let '(st, s') := gmres_ctl nat Nat.ltb 1 false 1 2 est tru (fun _ _ => false) 7 in
  st = 0%Z /\ steps s' = 1%nat /\ hist s' = [7; 5] /\ Nat.ltb 5 1 = false.
Proof. exists (fun _ _ => 0), (fun _ _ => 5). vm_compute. repeat split. Qed.
