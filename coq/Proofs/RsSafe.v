(* C17, unbounded: the bounds-checked twin of rs_cf_splitting (Model/SplitChk.v) never fails and returns the kernel
   model's result on EVERY structurally valid pair of CSR patterns (S and T need not be related) with nonnegative
   lambdas, for any number of vertices: every read and write of lambda, interval_ptr, interval_count,
   index_to_node, node_to_index and splitting stays inside its array.  The argument is the bucket invariant of
   Proofs/RsBuckets.v (kept by incr_lambda, decr_lambda and the removal of the top node). *)
From Coq Require Import ZArith List Bool Lia.
Import ListNotations.
Require Import PV.Model.GraphAlg PV.Model.Split PV.Model.SplitChk.
Require Import PV.Proofs.NaiveAggProofs PV.Proofs.RsIndep PV.Proofs.RsBuckets PV.Proofs.RsInit PV.Proofs.RsDom PV.Proofs.RsFinal.
Open Scope Z_scope.

Lemma cget_ok (l : list Z) i : 0 <= i < Z.of_nat (length l) -> cget l i = Some (get l i).
Proof.
  intro H. unfold cget, get. destruct (Z.ltb_spec i 0); [lia|].
  rewrite (nth_error_nth' l 0) by lia. reflexivity.
Qed.
Lemma cset_ok (l : list Z) i v : 0 <= i < Z.of_nat (length l) -> cset l i v = Some (set l i v).
Proof.
  intro H. unfold cset, set. destruct (Z.ltb_spec i 0); [lia|].
  destruct (Nat.ltb_spec (Z.to_nat i) (length l)); [reflexivity|lia].
Qed.

Lemma ofold_ok {A B} (P : A -> Prop) (f : A -> B -> A) (fc : A -> B -> option A) :
  forall l a, P a -> (forall a b, P a -> In b l -> fc a b = Some (f a b) /\ P (f a b)) ->
  ofold fc l a = Some (fold_left f l a) /\ P (fold_left f l a).
Proof.
  induction l as [|b l IH]; intros a Pa H; cbn [ofold fold_left]; [split; [reflexivity|exact Pa]|].
  destruct (H a b Pa (or_introl eq_refl)) as [E Pb]. rewrite E. cbn [obind].
  apply IH; [exact Pb|]. intros a' b' Pa' Hin. apply H; [exact Pa'|right; exact Hin].
Qed.
Lemma omap_ok {A B} (f : A -> B) (fc : A -> option B) :
  forall l, (forall a, In a l -> fc a = Some (f a)) -> omap fc l = Some (map f l).
Proof.
  induction l as [|a l IH]; intro H; cbn [omap map]; [reflexivity|].
  rewrite (H a (or_introl eq_refl)). cbn [obind]. rewrite IH by (intros a' Ha'; apply H; right; exact Ha'). reflexivity.
Qed.

Section S.
Variables (N Ln : nat).
Let n := Z.of_nat N.
Let Lz := Z.of_nat Ln.
Notation BI := (BI N Ln).

Lemma swap_ok s p0 q : length (i2n s) = N -> length (n2i s) = N -> 0 <= p0 < n -> 0 <= q < n ->
  0 <= get (i2n s) p0 < n -> 0 <= get (i2n s) q < n ->
  swap_pos_chk s p0 q = Some (swap_pos s p0 q).
Proof.
  intros Li Ln2 Hp Hq Ha Hb. unfold swap_pos_chk, swap_pos.
  rewrite (cget_ok (i2n s) p0) by (rewrite Li; exact Hp). cbn [obind].
  rewrite cset_ok by (rewrite Ln2; exact Ha). cbn [obind].
  rewrite (cget_ok (i2n s) q) by (rewrite Li; exact Hq). cbn [obind].
  rewrite cset_ok by (rewrite length_set, Ln2; exact Hb). cbn [obind].
  rewrite cset_ok by (rewrite Li; exact Hp). cbn [obind].
  rewrite cset_ok by (rewrite length_set, Li; exact Hq). cbn [obind].
  reflexivity.
Qed.

Lemma incr_ok top s k : BI top s -> 0 <= k < n -> incr_lambda_chk n s k = Some (incr_lambda n s k).
Proof.
  intros B Hk. unfold incr_lambda_chk, incr_lambda.
  destruct B as [Ht Ll Li Ln2 Ls Lp Lc LL P2 P1 Lam Own Hom Sort Cnt Done].
  rewrite (cget_ok (spl s) k) by (rewrite Ls; exact Hk). cbn [obind].
  destruct (get (spl s) k =? U_NODE) eqn:EU; cbn [negb]; [|reflexivity].
  rewrite (cget_ok (lam s) k) by (rewrite Ll; exact Hk). cbn [obind].
  destruct (get (lam s) k >=? n - 1) eqn:EG; [reflexivity|].
  apply Z.eqb_eq in EU. rewrite Z.geb_leb in EG. apply Z.leb_gt in EG.
  set (lk := get (lam s) k) in *. set (p0 := get (n2i s) k).
  destruct (P2 k Hk) as [Rp0 Ip0]. fold p0 in Rp0, Ip0.
  assert (Hp0 : p0 < top).
  { destruct (Z_lt_dec p0 top) as [H|H]; [exact H|]. exfalso. apply (Done k Hk); [fold p0; lia|exact EU]. }
  assert (Pl0 : posl s p0 = lk) by (unfold posl; rewrite Ip0; reflexivity).
  pose proof (Own p0 ltac:(lia)) as O0. rewrite Pl0 in O0.
  destruct (Lam k Hk) as [Lk0 Lk1]. fold lk in Lk0, Lk1.
  set (c := get (icnt s) lk) in *. set (a := get (iptr s) lk) in *.
  destruct (Hom lk (a + c - 1) ltac:(lia) ltac:(fold a c; lia)) as [Rq _].
  destruct (P1 (a + c - 1) Rq) as [Rb _].
  rewrite (cget_ok (n2i s) k) by (rewrite Ln2; exact Hk). cbn [obind]. fold p0.
  rewrite (cget_ok (iptr s) lk) by (rewrite Lp; fold Lz; lia). cbn [obind]. fold a.
  rewrite (cget_ok (icnt s) lk) by (rewrite Lc; fold Lz; lia). cbn [obind]. fold c.
  rewrite (swap_ok s p0 (a + c - 1)) by (try assumption; try lia; rewrite Ip0; exact Hk). cbn [obind].
  cbn [swap_pos lam iptr icnt i2n n2i spl].
  rewrite (cget_ok (icnt s) lk) by (rewrite Lc; fold Lz; lia). cbn [obind]. fold c.
  rewrite cset_ok by (rewrite Lc; fold Lz; lia). cbn [obind].
  rewrite cget_ok by (rewrite length_set, Lc; fold Lz; lia). cbn [obind].
  rewrite cset_ok by (rewrite length_set, Lc; fold Lz; lia). cbn [obind].
  rewrite cset_ok by (rewrite Lp; fold Lz; lia). cbn [obind].
  rewrite cset_ok by (rewrite Ll; exact Hk). cbn [obind].
  reflexivity.
Qed.

Lemma decr_ok top s k : BI top s -> 0 <= k < n -> decr_lambda_chk s k = Some (decr_lambda s k).
Proof.
  intros B Hk. unfold decr_lambda_chk, decr_lambda.
  destruct B as [Ht Ll Li Ln2 Ls Lp Lc LL P2 P1 Lam Own Hom Sort Cnt Done].
  rewrite (cget_ok (spl s) k) by (rewrite Ls; exact Hk). cbn [obind].
  destruct (get (spl s) k =? U_NODE) eqn:EU; cbn [negb]; [|reflexivity].
  rewrite (cget_ok (lam s) k) by (rewrite Ll; exact Hk). cbn [obind].
  destruct (get (lam s) k =? 0) eqn:EG; [reflexivity|].
  apply Z.eqb_eq in EU. apply Z.eqb_neq in EG.
  set (lk := get (lam s) k) in *. set (p0 := get (n2i s) k).
  destruct (P2 k Hk) as [Rp0 Ip0]. fold p0 in Rp0, Ip0.
  assert (Hp0 : p0 < top).
  { destruct (Z_lt_dec p0 top) as [H|H]; [exact H|]. exfalso. apply (Done k Hk); [fold p0; lia|exact EU]. }
  assert (Pl0 : posl s p0 = lk) by (unfold posl; rewrite Ip0; reflexivity).
  pose proof (Own p0 ltac:(lia)) as O0. rewrite Pl0 in O0.
  destruct (Lam k Hk) as [Lk0 Lk1]. fold lk in Lk0, Lk1.
  set (c := get (icnt s) lk) in *. set (a := get (iptr s) lk) in *.
  destruct (Hom lk a ltac:(lia) ltac:(fold a c; lia)) as [Rq _].
  destruct (P1 a Rq) as [Rb _].
  rewrite (cget_ok (n2i s) k) by (rewrite Ln2; exact Hk). cbn [obind]. fold p0.
  rewrite (cget_ok (iptr s) lk) by (rewrite Lp; fold Lz; lia). cbn [obind]. fold a.
  rewrite (swap_ok s p0 a) by (try assumption; try lia; rewrite Ip0; exact Hk). cbn [obind].
  cbn [swap_pos lam iptr icnt i2n n2i spl].
  rewrite (cget_ok (icnt s) lk) by (rewrite Lc; fold Lz; lia). cbn [obind]. fold c.
  rewrite cset_ok by (rewrite Lc; fold Lz; lia). cbn [obind].
  rewrite cget_ok by (rewrite length_set, Lc; fold Lz; lia). cbn [obind].
  rewrite cset_ok by (rewrite length_set, Lc; fold Lz; lia). cbn [obind].
  rewrite (cget_ok (iptr s) lk) by (rewrite Lp; fold Lz; lia). cbn [obind]. fold a.
  rewrite cset_ok by (rewrite Lp; fold Lz; lia). cbn [obind].
  rewrite cget_ok by (rewrite length_set, Lp; fold Lz; lia). cbn [obind].
  rewrite cget_ok by (rewrite !length_set, Lc; fold Lz; lia). cbn [obind].
  rewrite cset_ok by (rewrite length_set, Lp; fold Lz; lia). cbn [obind].
  rewrite cset_ok by (rewrite Ll; exact Hk). cbn [obind].
  reflexivity.
Qed.
End S.

Lemma in_zr' a b k : In k (zr a b) -> a <= k < b.
Proof. unfold zr. rewrite in_map_iff. intros (x & <- & Hx). apply in_seq in Hx. lia. Qed.

(* structurally valid CSR pattern with column indices below n *)
Definition valid_csr (N : nat) (P J : list Z) : Prop :=
  (N + 1 <= length P)%nat /\
  (forall i, 0 <= i < Z.of_nat N -> 0 <= get P i /\ get P i <= get P (i + 1) /\ get P (i + 1) <= Z.of_nat (length J)) /\
  (forall k, 0 <= k < Z.of_nat (length J) -> 0 <= get J k < Z.of_nat N).

Lemma row_ok N P J i : valid_csr N P J -> 0 <= i < Z.of_nat N ->
  row_chk P J i = Some (row P J i) /\ forall j, In j (row P J i) -> 0 <= j < Z.of_nat N.
Proof.
  intros (LP & HP & HJ) Hi. destruct (HP i Hi) as (A & B & C). split.
  - unfold row_chk, row. rewrite (cget_ok P i) by lia. cbn [obind]. rewrite (cget_ok P (i + 1)) by lia. cbn [obind].
    apply omap_ok. intros k Hk. apply in_zr' in Hk. apply cget_ok. lia.
  - intros j Hj. unfold row in Hj. rewrite in_map_iff in Hj. destruct Hj as (k & <- & Hk). apply in_zr' in Hk. apply HJ. lia.
Qed.

Section M.
Variables (N Ln : nat) (Sp Sj Tp Tj : list Z).
Let n := Z.of_nat N.
Let Lz := Z.of_nat Ln.
Notation BI := (BI N Ln).
Hypothesis VS : valid_csr N Sp Sj.
Hypothesis VT : valid_csr N Tp Tj.

Lemma makeC_ok top s : BI top s -> 0 < top ->
  let t := top - 1 in let i := get (i2n s) t in
  get (spl s) i = U_NODE ->
  make_C_chk n Sp Sj Tp Tj (pop s t) i = Some (make_C n Sp Sj Tp Tj (pop s t) i) /\
  BI t (make_C n Sp Sj Tp Tj (pop s t) i).
Proof.
  intros B Htop t i HU.
  destruct (b_p1 _ _ _ _ B t ltac:(unfold t; lia)) as [Ri _]. fold i in Ri.
  pose proof (b_lspl _ _ _ _ B) as Ls.
  set (sA := pop (with_spl s (set (spl s) i C_NODE)) t).
  assert (BA : BI t sA).
  { unfold sA, t. apply pop_BI; [apply (set_nonU N Ln); [exact B|discriminate]|exact Htop|].
    cbn [with_spl spl i2n]. fold t. fold i. rewrite gs by lia. rewrite Z.eqb_refl, Ls. fold n.
    destruct (Z.ltb_spec i n); [discriminate|lia]. }
  destruct (row_ok N Tp Tj i VT Ri) as [RT InT]. destruct (row_ok N Sp Sj i VS Ri) as [RS InS].
  unfold make_C_chk, make_C.
  change (spl (pop s t)) with (spl s).
  rewrite cset_ok by (rewrite Ls; exact Ri). cbn [obind].
  change (with_spl (pop s t) (set (spl s) i C_NODE)) with sA.
  rewrite RT. cbn [obind].
  (* first loop *)
  match goal with |- context [ofold ?fc (row Tp Tj i) sA] =>
    destruct (ofold_ok (BI t) (fun s j => if get (spl s) j =? U_NODE then with_spl s (set (spl s) j PRE_F_NODE) else s) fc (row Tp Tj i) sA BA) as [E1 B1] end.
  { intros a j Ba Hj. pose proof (InT j Hj) as Rj. rewrite (cget_ok (spl a) j) by (rewrite (b_lspl _ _ _ _ Ba); exact Rj). cbn [obind].
    destruct (get (spl a) j =? U_NODE); [|split; [reflexivity|exact Ba]].
    rewrite cset_ok by (rewrite (b_lspl _ _ _ _ Ba); exact Rj). cbn [obind]. split; [reflexivity|].
    apply (set_nonU N Ln); [exact Ba|discriminate]. }
  rewrite E1. cbn [obind].
  set (s2 := fold_left (fun s j => if get (spl s) j =? U_NODE then with_spl s (set (spl s) j PRE_F_NODE) else s) (row Tp Tj i) sA) in *.
  (* second loop *)
  match goal with |- context [ofold ?fc (row Tp Tj i) s2] =>
    destruct (ofold_ok (BI t) (fun s j => if get (spl s) j =? PRE_F_NODE
                 then let s' := with_spl s (set (spl s) j F_NODE) in fold_left (incr_lambda n) (row Sp Sj j) s' else s)
                fc (row Tp Tj i) s2 B1) as [E2 B2] end.
  { intros a j Ba Hj. pose proof (InT j Hj) as Rj. rewrite (cget_ok (spl a) j) by (rewrite (b_lspl _ _ _ _ Ba); exact Rj). cbn [obind].
    destruct (get (spl a) j =? PRE_F_NODE); [|split; [reflexivity|exact Ba]].
    rewrite cset_ok by (rewrite (b_lspl _ _ _ _ Ba); exact Rj). cbn [obind].
    destruct (row_ok N Sp Sj j VS Rj) as [RSj InSj]. rewrite RSj. cbn [obind]. cbv zeta.
    apply (ofold_ok (BI t) (incr_lambda n) (incr_lambda_chk n)).
    - apply (set_nonU N Ln); [exact Ba|discriminate].
    - intros a' k Ba' Hk. split; [apply (incr_ok N Ln t); [exact Ba'|apply InSj; exact Hk]|apply incr_BI; [exact Ba'|apply InSj; exact Hk]]. }
  rewrite E2. cbn [obind].
  rewrite RS. cbn [obind].
  apply (ofold_ok (BI t) decr_lambda decr_lambda_chk); [exact B2|].
  intros a' k Ba' Hk. split; [apply (decr_ok N Ln t); [exact Ba'|apply InS; exact Hk]|apply decr_BI; [exact Ba'|apply InS; exact Hk]].
Qed.

Lemma main_ok : forall (m : nat) s, BI (Z.of_nat m) s ->
  main_chk n Sp Sj Tp Tj (rev (zr 0 (Z.of_nat m))) s = Some (main n Sp Sj Tp Tj (rev (zr 0 (Z.of_nat m))) s).
Proof.
  induction m as [|m IH]; intros s B; [reflexivity|].
  rewrite rev_zr_S. rewrite (main_cons N Sp Sj Tp Tj). cbv zeta. cbn [main_chk].
  set (top := Z.of_nat (S m)) in *. assert (Et : Z.of_nat m = top - 1) by (unfold top; lia).
  rewrite Et in *. set (t := top - 1) in *. set (i := get (i2n s) t).
  assert (Htop : 0 < top) by (unfold top; lia).
  pose proof B as [Ht Ll Li Ln2 Ls Lp Lc LL P2 P1 Lam Own Hom Sort Cnt Done].
  destruct (P1 t ltac:(unfold t; lia)) as [Ri Ii]. fold i in Ri, Ii.
  destruct (Lam i Ri) as [Rl0 Rl1].
  rewrite (cget_ok (i2n s) t) by (rewrite Li; fold n; unfold t; lia). cbn [obind]. fold i.
  rewrite (cget_ok (lam s) i) by (rewrite Ll; exact Ri). cbn [obind].
  rewrite (cget_ok (icnt s) (get (lam s) i)) by (rewrite Lc; fold Lz; lia). cbn [obind].
  rewrite cset_ok by (rewrite Lc; fold Lz; lia). cbn [obind].
  change (mk (lam s) (iptr s) (set (icnt s) (get (lam s) i) (get (icnt s) (get (lam s) i) - 1)) (i2n s) (n2i s) (spl s)) with (pop s t).
  change (lam (pop s t)) with (lam s). change (spl (pop s t)) with (spl s).
  rewrite (cget_ok (lam s) i) by (rewrite Ll; exact Ri). cbn [obind].
  destruct (get (lam s) i <=? 0); [reflexivity|].
  rewrite (cget_ok (spl s) i) by (rewrite Ls; exact Ri). cbn [obind].
  destruct (Z.eqb_spec (get (spl s) i) U_NODE) as [HU|HnU].
  - destruct (makeC_ok top s B Htop HU) as [E Bc]. fold t in E, Bc. fold i in E, Bc. rewrite E. cbn [obind].
    apply IH. exact Bc.
  - apply IH. unfold t. apply pop_BI; assumption.
Qed.
End M.

Lemma ofold_seq_ok {A} (f : A -> Z -> A) (fc : A -> Z -> option A) (P : nat -> A -> Prop) (M : nat) :
  forall b a0, b = Z.of_nat M -> P O a0 ->
  (forall m a, (m < M)%nat -> P m a -> fc a (Z.of_nat m) = Some (f a (Z.of_nat m)) /\ P (S m) (f a (Z.of_nat m))) ->
  ofold fc (zr 0 b) a0 = Some (fold_left f (zr 0 b) a0).
Proof.
  intros b a0 -> H0 Hs. rewrite zr_seq.
  assert (Gen : forall k m a, (m + k = M)%nat -> P m a ->
            ofold fc (map Z.of_nat (seq m k)) a = Some (fold_left f (map Z.of_nat (seq m k)) a)).
  { induction k as [|k IH]; intros m a E Pa; cbn [seq map fold_left ofold]; [reflexivity|].
    destruct (Hs m a ltac:(lia) Pa) as [E1 P1]. rewrite E1. cbn [obind]. apply IH; [lia|exact P1]. }
  apply (Gen M O a0); [lia|exact H0].
Qed.

Section Init.
Variables (N : nat) (Tp Tj infl : list Z).
Let n := Z.of_nat N.
Hypothesis VT : valid_csr N Tp Tj.
Hypothesis Linfl : (N <= length infl)%nat.
Hypothesis infl_nonneg : forall i, 0 <= i < n -> 0 <= get infl i.
Notation lamL := (lamL N Tp infl).
Notation LN := (Ln N lamL).

Lemma Tp_mono : forall i, 0 <= i < n -> get Tp i <= get Tp (i + 1).
Proof. intros i Hi. destruct VT as (_ & H & _). destruct (H i Hi) as (_ & A & _). exact A. Qed.
Let Hnn := lam_nn N Tp infl infl_nonneg Tp_mono.
Let LL := LlamL N Tp infl.

Lemma init_ok : init_chk n Tp Tj infl = Some (init n Tp Tj infl).
Proof.
  pose proof (lam_lt N lamL LL Hnn) as LamR.
  pose proof (Lz_eq N lamL LL) as LzE.
  destruct VT as (LTp & HTp & HTj).
  unfold init_chk.
  (* lambda *)
  rewrite (omap_ok (fun i => get Tp (i + 1) - get Tp i + get infl i)).
  2:{ intros i Hi. apply in_zr' in Hi. fold n in Hi.
      rewrite (cget_ok Tp (i + 1)) by (unfold n in *; lia). cbn [obind].
      rewrite (cget_ok Tp i) by (unfold n in *; lia). cbn [obind].
      rewrite (cget_ok infl i) by (unfold n in *; lia). cbn [obind]. reflexivity. }
  cbn [obind]. cbv zeta. fold n. change (map (fun i => get Tp (i + 1) - get Tp i + get infl i) (zr 0 n)) with lamL.
  change (Z.max (2 * fold_left Z.max lamL 0) (n + 1)) with (lmax N lamL).
  change (map (fun _ : Z => 0) (zr 0 (lmax N lamL))) with (zerosL N lamL).
  (* counts *)
  match goal with |- context [ofold ?fc (zr 0 n) (zerosL N lamL)] =>
    assert (E1 : ofold fc (zr 0 n) (zerosL N lamL) = Some (cntA N lamL)) end.
  { unfold cntA. fold n.
    apply (ofold_seq_ok (fun c i => set c (get lamL i) (get c (get lamL i) + 1)) _
             (fun m c => length c = LN /\ forall l, 0 <= l < Z.of_nat LN -> get c l = cntf lamL m l) N); [reflexivity| |].
    - split; [apply (len_zerosL N lamL LL)|]. intros l _. rewrite get_zerosL. reflexivity.
    - intros m c Hm [Lc Hc]. destruct (LamR m Hm) as [A B]. unfold lamf in A, B.
      rewrite (cget_ok lamL) by (rewrite LL; lia). cbn [obind].
      rewrite (cget_ok c) by (rewrite Lc; lia). cbn [obind].
      rewrite cset_ok by (rewrite Lc; lia). split; [reflexivity|].
      split; [rewrite length_set; exact Lc|]. intros l Hl.
      rewrite gs by lia. rewrite Lc. cbn [cntf]. unfold lamf.
      destruct (Z.eqb_spec (get lamL (Z.of_nat m)) l) as [E|E]; cbn [andb].
      + destruct (Z.ltb_spec (get lamL (Z.of_nat m)) (Z.of_nat LN)); [|lia]. rewrite (Hc (get lamL (Z.of_nat m)) ltac:(lia)). rewrite E. reflexivity.
      + rewrite (Hc l Hl). lia. }
  rewrite E1. cbn [obind].
  destruct (cntA_spec N lamL LL Hnn) as [LcA HcA].
  (* pointers *)
  match goal with |- context [ofold ?fc (zr 0 (lmax N lamL)) (zerosL N lamL, 0)] =>
    assert (E2 : ofold fc (zr 0 (lmax N lamL)) (zerosL N lamL, 0) = Some (ptrP N lamL)) end.
  { unfold ptrP.
    apply (ofold_seq_ok (fun '(p, cum) l => (set p l cum, cum + get (cntA N lamL) l)) _
             (fun m (pc : list Z * Z) => length (fst pc) = LN) LN); [symmetry; exact LzE| |].
    - cbn [fst]. apply (len_zerosL N lamL LL).
    - intros m [p cum] Hm Lp. cbn [fst snd] in *.
      rewrite (cget_ok (cntA N lamL)) by (rewrite LcA; lia). cbn [obind].
      rewrite cset_ok by (rewrite Lp; lia). cbn [obind]. split; [reflexivity|]. rewrite length_set. exact Lp. }
  rewrite E2. cbn [obind].
  destruct (ptrP_spec N lamL LL Hnn) as [LpP HpP].
  change (map (fun _ : Z => 0) (zr 0 n)) with (zn N).
  (* filling the buckets *)
  match goal with |- context [ofold ?fc (zr 0 n) (zerosL N lamL, zn N, zn N)] =>
    assert (E3 : ofold fc (zr 0 n) (zerosL N lamL, zn N, zn N) = Some (fillT N lamL)) end.
  { unfold fillT. fold n.
    apply (ofold_seq_ok (fun '(c, a, b) i =>
               let l := get lamL i in let idx := get (fst (ptrP N lamL)) l + get c l in
               (set c l (get c l + 1), set a idx i, set b i idx)) _
             (fun m t => let '(c, a, b) := t in
                 length c = LN /\ length a = N /\ length b = N /\
                 (forall l, 0 <= l < Z.of_nat LN -> get c l = cntf lamL m l)) N); [reflexivity| |].
    - split; [apply (len_zerosL N lamL LL)|]. split; [apply (len_zn N lamL LL)|]. split; [apply (len_zn N lamL LL)|]. intros l _. rewrite get_zerosL. reflexivity.
    - intros m [[c a] b] Hm (Lc & La & Lb & Hc). destruct (LamR m Hm) as [A B]. unfold lamf in A, B.
      rewrite (cget_ok lamL) by (rewrite LL; lia). cbn [obind].
      rewrite (cget_ok (fst (ptrP N lamL))) by (rewrite LpP; lia). cbn [obind].
      rewrite (cget_ok c) by (rewrite Lc; lia). cbn [obind]. cbv zeta.
      assert (Eidx : get (fst (ptrP N lamL)) (get lamL (Z.of_nat m)) + get c (get lamL (Z.of_nat m)) = pos N lamL m).
      { unfold pos, lamf. rewrite HpP, Hc by lia. reflexivity. }
      rewrite Eidx. pose proof (pos_range N lamL LL Hnn m Hm) as Rm.
      rewrite cset_ok by (rewrite Lc; lia). cbn [obind].
      rewrite cset_ok by (rewrite La; lia). cbn [obind].
      rewrite cset_ok by (rewrite Lb; lia). cbn [obind]. split; [reflexivity|].
      split; [rewrite length_set; exact Lc|]. split; [rewrite length_set; exact La|]. split; [rewrite length_set; exact Lb|].
      intros l Hl. rewrite gs by lia. rewrite Lc. cbn [cntf]. unfold lamf.
      destruct (Z.eqb_spec (get lamL (Z.of_nat m)) l) as [E|E]; cbn [andb].
      + destruct (Z.ltb_spec (get lamL (Z.of_nat m)) (Z.of_nat LN)); [|lia]. rewrite (Hc (get lamL (Z.of_nat m)) ltac:(lia)). rewrite E. reflexivity.
      + rewrite (Hc l Hl). lia. }
  rewrite E3. cbn [obind].
  destruct (fillT N lamL) as [[c2 a] b] eqn:EF.
  (* the initial splitting *)
  rewrite (omap_ok (fun i => if (get lamL i =? 0) || ((get lamL i =? 1) && (get Tp i <? get Tp (i + 1)) && (get Tj (get Tp i) =? i)) then F_NODE else U_NODE)).
  2:{ intros i Hi. apply in_zr' in Hi. fold n in Hi.
      rewrite (cget_ok lamL) by (rewrite LL; unfold n in *; lia). cbn [obind].
      destruct (get lamL i =? 0); cbn [orb]; [reflexivity|].
      destruct (get lamL i =? 1); cbn [andb]; [|reflexivity].
      rewrite (cget_ok Tp i) by (unfold n in *; lia). cbn [obind].
      rewrite (cget_ok Tp (i + 1)) by (unfold n in *; lia). cbn [obind].
      destruct (HTp i Hi) as (A0 & A1 & A2).
      destruct (Z.ltb_spec (get Tp i) (get Tp (i + 1))); cbn [andb]; [|reflexivity].
      rewrite (cget_ok Tj) by lia. cbn [obind]. reflexivity. }
  cbn [obind]. unfold n. rewrite (init_eq N Tp Tj infl). rewrite EF. reflexivity.
Qed.
End Init.

(* ---------------------------------------------------------------- the statement about the twin *)
Theorem rs_chk_safe (N : nat) (Sp Sj Tp Tj infl : list Z) :
  valid_csr N Sp Sj -> valid_csr N Tp Tj -> (N <= length infl)%nat ->
  (forall i, 0 <= i < Z.of_nat N -> 0 <= get infl i) ->
  rs_cf_splitting_chk (Z.of_nat N) Sp Sj Tp Tj infl = Some (rs_cf_splitting (Z.of_nat N) Sp Sj Tp Tj infl).
Proof.
  intros VS VT Li Hi. unfold rs_cf_splitting_chk, rs_cf_splitting.
  rewrite (init_ok N Tp Tj infl VT Li Hi). cbn [obind].
  rewrite (main_ok N (Ln N (lamL N Tp infl)) Sp Sj Tp Tj VS VT N).
  - reflexivity.
  - apply init_BI; [exact Hi|apply (Tp_mono N Tp Tj VT)].
Qed.
Print Assumptions rs_chk_safe.
