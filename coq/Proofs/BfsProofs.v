(* C18, unbounded: breadth_first_search on EVERY graph with column indices in range (symmetric or not), any
   size: the model returns within its fuel; level[j] is the hop distance from the seed (the length of a shortest
   walk), -1 exactly for the vertices that cannot be reached; order[0..N) lists the reached vertices without
   repetition. *)
From Coq Require Import ZArith List Bool Lia.
Import ListNotations.
Require Import PV.Model.GraphAlg.
Require Import PV.Proofs.NaiveAggProofs PV.Proofs.CmisProofs PV.Proofs.CompProofs.
Open Scope Z_scope.

Section S.
Variables (N : nat) (Ap Aj : list Z).
Let n := Z.of_nat N.
Notation nb := (nbrs Ap Aj).
Hypothesis cols_in_range : forall i, 0 <= i < n -> forall j, In j (nb i) -> 0 <= j < n.
Variable seed : Z.
Hypothesis seed_in : 0 <= seed < n.

(* walks of a given length from the seed *)
Inductive reach : Z -> Z -> Prop :=
| reach_0 : reach 0 seed
| reach_S k i j : reach k i -> In j (nb i) -> reach (k + 1) j.
Lemma reach_range k j : reach k j -> 0 <= k /\ 0 <= j < n.
Proof. induction 1 as [|k i j H IH Hj]; [split; [lia|exact seed_in]|]. destruct IH as [A B]. split; [lia|apply (cols_in_range i B); exact Hj]. Qed.
Definition dist (L j : Z) : Prop := reach L j /\ forall k, k < L -> ~ reach k j.

(* ---- the inner loop: label the unlabelled neighbours of one frontier vertex ---- *)
Definition vstep (cur : Z) (st : list Z * list Z * Z) (j : Z) : list Z * list Z * Z :=
  let '(order, level, Nn) := st in
  if get level j =? -1 then (set order Nn j, set level j cur, Nn + 1) else st.

(* the state: order prefix = labelled vertices without repetition *)
Record BI (order level : list Z) (Nn : Z) : Prop := {
  b_lo : length order = N; b_ll : length level = N;
  b_N : 0 <= Nn <= n;
  b_nd : NoDup (firstn (Z.to_nat Nn) order);
  b_in : forall k, In k (firstn (Z.to_nat Nn) order) <-> (0 <= k < n /\ get level k <> -1)
}.
Lemma firstn_set_out (l : list Z) (i : Z) v (m : nat) : (m <= Z.to_nat i)%nat -> 0 <= i -> firstn m (set l i v) = firstn m l.
Proof.
  intros H Hi. unfold set. destruct (Z.ltb_spec i 0); [lia|]. revert m H. generalize (Z.to_nat i) as q. clear.
  induction l as [|a l IH]; intros q m H; destruct q, m; cbn; try reflexivity; try lia. f_equal. apply IH. lia.
Qed.
Lemma firstn_snoc (l : list Z) (m : nat) : (m < length l)%nat -> firstn (S m) l = firstn m l ++ [nth m l 0].
Proof.
  revert m. induction l as [|a l IH]; intros m H; cbn in H; [lia|]. destruct m; cbn; [reflexivity|]. f_equal. apply IH. lia.
Qed.
Lemma nodup_snoc (l : list Z) a : NoDup l -> ~ In a l -> NoDup (l ++ [a]).
Proof. intros Nd Hn. apply nodup_app; [exact Nd|constructor; [intros []|constructor]|]. intros b Hb [<-|[]]. contradiction. Qed.

Lemma nodup_bound (l : list Z) : NoDup l -> (forall r, In r l -> 0 <= r < n) -> (length l <= N)%nat.
Proof.
  intros Nd Hin. assert (H : incl l (map Z.of_nat (seq 0 N))).
  { intros r Hr. specialize (Hin r Hr). apply in_map_iff. exists (Z.to_nat r). split; [lia|apply in_seq; unfold n in *; lia]. }
  pose proof (NoDup_incl_length Nd H) as B. rewrite map_length, seq_length in B. exact B.
Qed.
(* fewer than n labelled vertices as long as an unlabelled one exists *)
Lemma room order level Nn j : BI order level Nn -> 0 <= j < n -> get level j = -1 -> Nn < n.
Proof.
  intros [Lo Ll HN Nd Hin] Hj Hu.
  assert (Hnot : ~ In j (firstn (Z.to_nat Nn) order)) by (intro H; apply Hin in H; destruct H as [_ H]; contradiction).
  assert (Nd' : NoDup (j :: firstn (Z.to_nat Nn) order)) by (constructor; assumption).
  assert (B : (length (j :: firstn (Z.to_nat Nn) order) <= N)%nat).
  { apply nodup_bound; [exact Nd'|]. intros r [<-|Hr]; [exact Hj|apply Hin in Hr; destruct Hr as [H _]; exact H]. }
  cbn [length] in B. rewrite firstn_length, Lo in B. unfold n in *. lia.
Qed.

Lemma vstep_BI cur order level Nn j : cur <> -1 -> 0 <= j < n -> BI order level Nn ->
  let '(o', l', N') := vstep cur (order, level, Nn) j in
  BI o' l' N' /\
  (get level j = -1 -> o' = set order Nn j /\ l' = set level j cur /\ N' = Nn + 1) /\
  (get level j <> -1 -> o' = order /\ l' = level /\ N' = Nn).
Proof.
  intros Hc Hj I. unfold vstep. destruct (Z.eqb_spec (get level j) (-1)) as [E|E]; [|split; [exact I|split; [contradiction|auto]]].
  pose proof (room _ _ _ j I Hj E) as Hroom. destruct I as [Lo Ll HN Nd Hin].
  split; [|split; [auto|contradiction]].
  assert (Hnot : ~ In j (firstn (Z.to_nat Nn) order)) by (intro H; apply Hin in H; destruct H as [_ H]; contradiction).
  assert (F1 : firstn (Z.to_nat (Nn + 1)) (set order Nn j) = firstn (Z.to_nat Nn) order ++ [j]).
  { replace (Z.to_nat (Nn + 1)) with (S (Z.to_nat Nn)) by lia.
    rewrite firstn_snoc by (rewrite length_set, Lo; unfold n in *; lia).
    rewrite firstn_set_out by lia. f_equal. f_equal.
    change (nth (Z.to_nat Nn) (set order Nn j) 0) with (get (set order Nn j) Nn). apply get_set_same. rewrite Lo. unfold n in *. lia. }
  constructor.
  - rewrite length_set; exact Lo.
  - rewrite length_set; exact Ll.
  - lia.
  - rewrite F1. apply nodup_snoc; assumption.
  - intro k. rewrite F1. split.
    + intro H. apply in_app_or in H. destruct H as [H|[<-|[]]].
      * apply Hin in H. destruct H as [K1 K2]. split; [exact K1|]. assert (k <> j) by (intro; subst; contradiction).
        rewrite get_set_other by lia. exact K2.
      * split; [exact Hj|]. rewrite get_set_same by (rewrite Ll; unfold n in *; lia). exact Hc.
    + intros [K1 K2]. apply in_or_app. destruct (Z.eq_dec k j) as [->|Hne]; [right; left; reflexivity|].
      left. apply Hin. split; [exact K1|]. rewrite get_set_other in K2 by lia. exact K2.
Qed.

(* ---- one round: relative to the state (o0, l0, le) at its start ---- *)
Section Round.
Variables (cur le : Z) (o0 l0 : list Z).
Hypothesis cur1 : 1 <= cur.
Hypothesis le0 : 0 <= le.
Record RI (order level : list Z) (Nn : Z) : Prop := {
  r_bi : BI order level Nn;
  r_le : le <= Nn;
  r_pre : forall k, 0 <= k < le -> get order k = get o0 k;
  r_old : forall j, 0 <= j < n -> get l0 j <> -1 -> get level j = get l0 j;
  r_new : forall j, 0 <= j < n -> get l0 j = -1 -> get level j = -1 \/
            (get level j = cur /\ (exists i, 0 <= i < n /\ get l0 i = cur - 1 /\ In j (nb i)) /\ exists k, le <= k < Nn /\ get order k = j);
  r_seg : forall k, le <= k < Nn -> 0 <= get order k < n /\ get l0 (get order k) = -1 /\ get level (get order k) = cur
}.
Lemma visit_RI i : 0 <= i < n -> get l0 i = cur - 1 -> forall row order level Nn, (forall j, In j row -> In j (nb i)) ->
  RI order level Nn ->
  let '(o', l', N') := fold_left (vstep cur) row (order, level, Nn) in
  RI o' l' N' /\ (forall j, In j row -> get l' j <> -1) /\ (forall j, 0 <= j < n -> get level j <> -1 -> get l' j <> -1).
Proof.
  intros Hi Li. induction row as [|j row IH]; intros order level Nn Hsub I; cbn [fold_left].
  - split; [exact I|]. split; [intros j []|auto].
  - assert (Hjn : In j (nb i)) by (apply Hsub; left; reflexivity).
    assert (Hj : 0 <= j < n) by (apply (cols_in_range i Hi); exact Hjn).
    assert (Hc : cur <> -1) by lia.
    destruct I as [Bi Hle Pre Old New Seg].
    pose proof (vstep_BI cur order level Nn j Hc Hj Bi) as V.
    destruct (vstep cur (order, level, Nn) j) as [[o1 l1] N1]. destruct V as (Bi1 & Vnew & Vold).
    assert (I1 : RI o1 l1 N1 /\ get l1 j <> -1 /\ (forall q, 0 <= q < n -> get level q <> -1 -> get l1 q <> -1)).
    { destruct (Z.eq_dec (get level j) (-1)) as [E|E].
      - destruct (Vnew E) as (-> & -> & ->).
        destruct Bi as [Lo Ll HN Nd Hin]. pose proof (room _ _ _ j (Build_BI _ _ _ Lo Ll HN Nd Hin) Hj E) as Hroom.
        assert (L0j : get l0 j = -1).
        { destruct (Z.eq_dec (get l0 j) (-1)) as [Q|Q]; [exact Q|]. rewrite (Old j Hj Q) in E. contradiction. }
        split; [|split].
        + constructor.
          * exact Bi1.
          * lia.
          * intros k Hk. rewrite get_set_other by lia. apply Pre; exact Hk.
          * intros q Hq Hx. assert (q <> j) by (intro; subst; contradiction). rewrite get_set_other by lia. apply Old; assumption.
          * intros q Hq Hx. destruct (Z.eq_dec q j) as [->|Hne].
            -- right. rewrite get_set_same by (rewrite Ll; unfold n in *; lia). split; [reflexivity|]. split.
               ++ exists i. auto.
               ++ exists Nn. split; [lia|]. apply get_set_same. rewrite Lo. unfold n in *. lia.
            -- rewrite get_set_other by lia. destruct (New q Hq Hx) as [A|(A & B & (k & K1 & K2))]; [left; exact A|].
               right. split; [exact A|]. split; [exact B|]. exists k. split; [lia|]. rewrite get_set_other by lia. exact K2.
          * intros k Hk. destruct (Z.eq_dec k Nn) as [->|Hne].
            -- rewrite get_set_same by (rewrite Lo; unfold n in *; lia). split; [exact Hj|]. split; [exact L0j|].
               apply get_set_same. rewrite Ll. unfold n in *. lia.
            -- rewrite (get_set_other order Nn k) by lia. destruct (Seg k ltac:(lia)) as (S1 & S2 & S3).
               split; [exact S1|]. split; [exact S2|]. assert (get order k <> j) by (intro Q; rewrite Q in S3; lia).
               rewrite get_set_other by lia. exact S3.
        + rewrite get_set_same by (rewrite Ll; unfold n in *; lia). exact Hc.
        + intros q Hq Hx. assert (q <> j) by (intro; subst; contradiction). rewrite get_set_other by lia. exact Hx.
      - destruct (Vold E) as (-> & -> & ->). split; [constructor; assumption|]. split; [exact E|auto]. }
    destruct I1 as (I1 & J1 & M1).
    specialize (IH o1 l1 N1 (fun q Hq => Hsub q (or_intror Hq)) I1).
    destruct (fold_left (vstep cur) row (o1, l1, N1)) as [[o' l'] N']. destruct IH as (I' & A' & M').
    split; [exact I'|]. split.
    + intros q [<-|Hq]; [apply M'; assumption|apply A'; exact Hq].
    + intros q Hq Hx. apply M'; [exact Hq|apply M1; assumption].
Qed.

Lemma round_RI (lb : Z) : 0 <= lb -> (forall k, lb <= k < le -> 0 <= get o0 k < n /\ get l0 (get o0 k) = cur - 1) ->
  forall ps order level Nn, (forall k, In k ps -> lb <= k < le) -> RI order level Nn ->
  let '(o', l', N') := fold_left (fun st ii => bfs_visit Ap Aj st cur (get (fst (fst st)) ii)) ps (order, level, Nn) in
  RI o' l' N' /\ (forall k j, In k ps -> In j (nb (get o0 k)) -> get l' j <> -1) /\
  (forall j, 0 <= j < n -> get level j <> -1 -> get l' j <> -1).
Proof.
  intros Hlb Fr. induction ps as [|p ps IH]; intros order level Nn Hps I; cbn [fold_left].
  - split; [exact I|]. split; [intros k j []|auto].
  - assert (Hp : lb <= p < le) by (apply Hps; left; reflexivity).
    cbn [fst]. rewrite (r_pre _ _ _ I p ltac:(lia)).
    destruct (Fr p Hp) as [Hi Li].
    pose proof (visit_RI (get o0 p) Hi Li (nb (get o0 p)) order level Nn (fun j H => H) I) as V.
    change (bfs_visit Ap Aj (order, level, Nn) cur (get o0 p)) with (fold_left (vstep cur) (nb (get o0 p)) (order, level, Nn)).
    destruct (fold_left (vstep cur) (nb (get o0 p)) (order, level, Nn)) as [[o1 l1] N1]. destruct V as (I1 & A1 & M1).
    specialize (IH o1 l1 N1 (fun k Hk => Hps k (or_intror Hk)) I1).
    destruct (fold_left _ ps (o1, l1, N1)) as [[o' l'] N']. destruct IH as (I' & A' & M').
    split; [exact I'|]. split.
    + intros k j [<-|Hk] Hj; [|apply (A' k j Hk Hj)].
      apply M'; [apply (cols_in_range _ Hi); exact Hj|apply A1; exact Hj].
    + intros j Hj Hx. apply M'; [exact Hj|apply M1; assumption].
Qed.
End Round.

Lemma reach_inv L j : reach L j -> (L = 0 /\ j = seed) \/ (exists i, reach (L - 1) i /\ In j (nb i)).
Proof. destruct 1 as [|k i j H Hj]; [left; auto|right; exists i; replace (k + 1 - 1) with k by lia; auto]. Qed.

(* ---- the outer loop ---- *)
Record LI (cur lb le : Z) (order level : list Z) : Prop := {
  l_bi : BI order level le;
  l_cur : 1 <= cur;
  l_lb : 0 <= lb <= le;
  l_lev : forall j, 0 <= j < n -> get level j <> -1 -> 0 <= get level j < cur /\ dist (get level j) j;
  l_compl : forall L j, L < cur -> reach L j -> get level j <> -1;
  l_front : forall k, lb <= k < le -> 0 <= get order k < n /\ get level (get order k) = cur - 1;
  l_front2 : forall j, 0 <= j < n -> get level j = cur - 1 -> exists k, lb <= k < le /\ get order k = j
}.

Lemma RI_start cur le o0 l0 : BI o0 l0 le -> RI cur le o0 l0 o0 l0 le.
Proof.
  intro B. constructor; auto; try lia.
Qed.

Lemma round_LI cur lb le o0 l0 : LI cur lb le o0 l0 ->
  let '(o', l', N') := fold_left (fun st ii => bfs_visit Ap Aj st cur (get (fst (fst st)) ii)) (zr lb le) (o0, l0, le) in
  le <= N' /\ LI (cur + 1) le N' o' l'.
Proof.
  intros [Bi Hc Hlb Lev Compl Fr Fr2].
  pose proof (round_RI cur le o0 l0 Hc ltac:(lia) lb (proj1 Hlb) Fr (zr lb le) o0 l0 le (fun k Hk => proj1 (in_zr lb le k) Hk) (RI_start cur le o0 l0 Bi)) as R.
  destruct (fold_left _ (zr lb le) (o0, l0, le)) as [[o' l'] N']. destruct R as ([Bi' Hle Pre Old New Seg] & Vis & Mono).
  split; [exact Hle|]. constructor.
  - exact Bi'.
  - lia.
  - lia.
  - intros j Hj Hx. destruct (Z.eq_dec (get l0 j) (-1)) as [E|E].
    + destruct (New j Hj E) as [A|(A & (i & Hi & Li & Hji) & _)]; [contradiction|]. rewrite A. split; [lia|].
      assert (Hli : get l0 i <> -1) by lia. destruct (Lev i Hi Hli) as [_ [Ri _]]. rewrite Li in Ri. split.
      * replace cur with (cur - 1 + 1) by lia. apply reach_S with (i := i); assumption.
      * intros k Hk Rk. apply (Compl k j Hk Rk). exact E.
    + rewrite (Old j Hj E). destruct (Lev j Hj E) as [A B]. split; [lia|exact B].
  - intros L j HL Rj. destruct (reach_range L j Rj) as [HL0 Hj].
    destruct (Z.eq_dec L cur) as [->|Hne].
    + destruct (reach_inv cur j Rj) as [[Q _]|(i & Ri & Hji)]; [lia|].
      destruct (reach_range _ _ Ri) as [_ Hi]. pose proof (Compl (cur - 1) i ltac:(lia) Ri) as Hli.
      destruct (Lev i Hi Hli) as [Rg [Rd Rmin]].
      destruct (Z.eq_dec (get l0 i) (cur - 1)) as [Q|Q].
      * destruct (Fr2 i Hi Q) as (k & Hk & Ek). apply (Vis k j); [apply in_zr; exact Hk|rewrite Ek; exact Hji].
      * apply Mono; [exact Hj|]. apply (Compl (get l0 i + 1) j); [lia|]. apply reach_S with (i := i); assumption.
    + apply Mono; [exact Hj|]. apply (Compl L j); [lia|exact Rj].
  - intros k Hk. destruct (Seg k Hk) as (S1 & S2 & S3). split; [exact S1|]. rewrite S3. lia.
  - intros j Hj Hx. replace (cur + 1 - 1) with cur in Hx by lia.
    destruct (Z.eq_dec (get l0 j) (-1)) as [E|E].
    + destruct (New j Hj E) as [A|(_ & _ & (k & Hk & Ek))]; [lia|]. exists k. split; [exact Hk|exact Ek].
    + rewrite (Old j Hj E) in Hx. destruct (Lev j Hj E) as [A _]. lia.
Qed.

Definition Final (order level : list Z) (Nn : Z) : Prop :=
  BI order level Nn /\
  (forall j, 0 <= j < n -> get level j <> -1 -> dist (get level j) j) /\
  (forall L j, reach L j -> get level j <> -1).

Lemma loop_final : forall (fuel : nat) cur lb le order level,
  n - le + 1 + (if lb <? le then 1 else 0) <= Z.of_nat fuel -> LI cur lb le order level ->
  exists o' l' N', bfs_loop Ap Aj fuel (order, level, le) lb le cur = Some (o', l', N') /\ Final o' l' N'.
Proof.
  induction fuel as [|k IH]; intros cur lb le order level Hf I.
  - exfalso. destruct I as [[_ _ HN _ _] _ _ _ _ _ _]. destruct (lb <? le); lia.
  - cbn [bfs_loop]. destruct (Z.ltb_spec lb le) as [Hlt|Hge]; cbn [negb].
    + pose proof (round_LI cur lb le order level I) as R.
      destruct (fold_left _ (zr lb le) (order, level, le)) as [[o1 l1] N1]. destruct R as (Hle & I1). cbn [snd].
      apply (IH (cur + 1) le N1 o1 l1); [|exact I1].
      destruct I1 as [[_ _ HN _ _] _ _ _ _ _ _]. destruct (Z.ltb_spec le N1); lia.
    + exists order, level, le. split; [reflexivity|]. destruct I as [Bi Hc Hlb Lev Compl Fr Fr2].
      split; [exact Bi|]. split; [intros j Hj Hx; apply (Lev j Hj Hx)|].
      induction 1 as [|q i j Ri IHr Hji].
      * apply (Compl 0 seed); [lia|constructor].
      * destruct (reach_range _ _ Ri) as [_ Hi]. destruct (Lev i Hi IHr) as [Rg [Rd _]].
        assert (Q : get level i <> cur - 1) by (intro Q; destruct (Fr2 i Hi Q) as (k0 & Hk0 & _); lia).
        apply (Compl (get level i + 1) j); [lia|]. apply reach_S with (i := i); assumption.
Qed.

Lemma LI_init order0 : length order0 = N -> LI 1 0 1 (set order0 0 seed) (set (fillz n (-1)) seed 0).
Proof.
  intro Lo. assert (HN : (1 <= N)%nat) by (unfold n in *; lia).
  assert (Lf : length (fillz n (-1)) = N) by apply length_fillz.
  assert (Lv : forall k, 0 <= k < n -> get (set (fillz n (-1)) seed 0) k = if Z.eq_dec k seed then 0 else -1).
  { intros k Hk. destruct (Z.eq_dec k seed) as [->|Hne]; [apply get_set_same; rewrite Lf; exact seed_in|].
    rewrite get_set_other by lia. apply get_fillz. exact Hk. }
  assert (G0 : get (set order0 0 seed) 0 = seed) by (apply get_set_same; rewrite Lo; lia).
  assert (F1 : firstn (Z.to_nat 1) (set order0 0 seed) = [seed]).
  { change (Z.to_nat 1) with 1%nat. rewrite firstn_snoc by (rewrite length_set, Lo; lia). cbn [firstn app].
    change (nth 0 (set order0 0 seed) 0) with (get (set order0 0 seed) 0). rewrite G0. reflexivity. }
  constructor.
  - constructor.
    + rewrite length_set; exact Lo.
    + rewrite length_set; exact Lf.
    + unfold n in *; lia.
    + rewrite F1. constructor; [intros []|constructor].
    + intro k. rewrite F1. split.
      * intros [<-|[]]. split; [exact seed_in|]. rewrite Lv by exact seed_in. destruct (Z.eq_dec seed seed); [lia|contradiction].
      * intros [Hk Hx]. rewrite Lv in Hx by exact Hk. destruct (Z.eq_dec k seed) as [->|]; [left; reflexivity|contradiction].
  - lia.
  - lia.
  - intros j Hj Hx. rewrite Lv in * by exact Hj. destruct (Z.eq_dec j seed) as [->|]; [|contradiction].
    split; [lia|]. split; [constructor|]. intros k Hk Rk. destruct (reach_range _ _ Rk). lia.
  - intros L j HL Rj. destruct (reach_range _ _ Rj) as [HL0 Hj]. assert (L = 0) by lia. subst L.
    destruct (reach_inv 0 j Rj) as [[_ ->]|(i & Ri & _)].
    + rewrite Lv by exact seed_in. destruct (Z.eq_dec seed seed); [lia|contradiction].
    + destruct (reach_range _ _ Ri). lia.
  - intros k Hk. assert (k = 0) by lia. subst k. rewrite G0. split; [exact seed_in|].
    rewrite Lv by exact seed_in. destruct (Z.eq_dec seed seed); [lia|contradiction].
  - intros j Hj Hx. rewrite Lv in Hx by exact Hj. destruct (Z.eq_dec j seed) as [->|]; [|lia]. exists 0. split; [lia|exact G0].
Qed.

Theorem bfs_correct order0 : length order0 = N ->
  exists order level Nn, bfs n Ap Aj seed order0 = Some (order, level, Nn) /\
    length order = N /\ length level = N /\ 0 <= Nn <= n /\
    (forall j, 0 <= j < n -> get level j <> -1 -> dist (get level j) j) /\
    (forall j, 0 <= j < n -> get level j = -1 -> forall L, ~ reach L j) /\
    NoDup (firstn (Z.to_nat Nn) order) /\
    (forall k, In k (firstn (Z.to_nat Nn) order) <-> exists L, reach L k).
Proof.
  intro Lo. unfold bfs.
  destruct (loop_final (S (S (Z.to_nat n))) 1 0 1 _ _ ltac:(cbn [Z.ltb]; unfold n; destruct (0 <? 1); lia) (LI_init order0 Lo))
    as (o' & l' & N' & E & [Lo' Ll' HN Nd Hin] & Lev & All).
  exists o', l', N'. split; [exact E|]. repeat (split; [assumption|]). split; [|split; [exact Nd|]].
  - intros j Hj Hx L Rj. apply (All L j Rj). exact Hx.
  - intro k. rewrite Hin. split.
    + intros [Hk Hx]. exists (get l' k). apply (Lev k Hk Hx).
    + intros [L Rk]. split; [apply (reach_range L k Rk)|apply (All L k Rk)].
Qed.
End S.
