(* C11: one_point_interpolation -- coarse points get an identity row; a fine point gets either no entry (it has no
   strongly connected coarse point) or exactly one, on a strongly connected coarse point whose |strength| is maximal in
   the row, with value minus that strength entry. *)
From Coq Require Import ZArith List Bool Lia.
Import ListNotations.
Require Import PV.Base.Ops PV.Base.OrdLaws PV.Model.Interp.

Section P.
Context {F : Type} (o : Ops F) (L : OrdLaws o).
Variables (n : Z) (Sp Sj : list Z) (Sx : list F) (spl : list Z).
Notation isC := (isC spl).
Notation srange := (srange Sp).
Notation pick := (one_point_pick o Sp Sj Sx spl).
Notation oprow := (one_point_row o Sp Sj Sx spl).

Theorem one_point_C_identity i : isC i = true -> oprow i = [(cmap spl i, one o)].
Proof. intro H. unfold one_point_row. rewrite H. reflexivity. Qed.

(* every |x| exceeds the initial maximum -1 *)
Hypothesis neg_one_lt_abs : forall a, ltb o (opp o (one o)) (abs o a) = true.

(* invariant of the scan over a prefix of the row *)
Definition Pinv (seen : list Z) (acc : F * Z * F) : Prop :=
  let '(mx, ind, val) := acc in
  ((forall t, In t seen -> isC (gz Sj t) = false) /\ mx = opp o (one o) /\ ind = (-1)%Z) \/
  (exists t, In t seen /\ isC (gz Sj t) = true /\ ind = gz Sj t /\ val = gf o Sx t /\ mx = abs o val /\
             forall t', In t' seen -> isC (gz Sj t') = true -> leb o (abs o (gf o Sx t')) mx = true).

Lemma pick_inv : forall l seen acc, Pinv seen acc ->
  Pinv (seen ++ l) (fold_left (fun (acc : F * Z * F) t =>
      let '(mx, ind, val) := acc in
      if isC (gz Sj t) then
        let vv := abs o (gf o Sx t) in
        if ltb o mx vv then (vv, gz Sj t, gf o Sx t) else acc
      else acc) l acc).
Proof.
  induction l as [|t l IH]; intros seen acc H; cbn [fold_left]; [rewrite app_nil_r; exact H|].
  replace (seen ++ t :: l) with ((seen ++ [t]) ++ l) by (rewrite <- app_assoc; reflexivity).
  apply IH. destruct acc as [[mx ind] val]. unfold Pinv in *.
  destruct (isC (gz Sj t)) eqn:Ec.
  - destruct (ltb o mx (abs o (gf o Sx t))) eqn:El.
    + right. exists t. split; [apply in_or_app; right; left; reflexivity|]. repeat split; auto.
      intros t' Ht' Hc'. apply in_app_or in Ht'. destruct Ht' as [Ht'|[<-|[]]]; [|apply (leb_refl o L)].
      destruct H as [(Hn & _ & _)|(t0 & Ht0 & Hc0 & _ & _ & Hm & Hmax)].
      * rewrite (Hn t' Ht') in Hc'. discriminate.
      * apply (leb_trans o L) with (b := mx); [apply Hmax; assumption|apply (ltb_true_leb o L); exact El].
    + destruct H as [(Hn & Hm & Hi)|(t0 & Ht0 & Hc0 & Hi & Hv & Hm & Hmax)].
      * exfalso. rewrite Hm, neg_one_lt_abs in El. discriminate.
      * right. exists t0. split; [apply in_or_app; left; exact Ht0|]. repeat split; auto.
        intros t' Ht' Hc'. apply in_app_or in Ht'. destruct Ht' as [Ht'|[<-|[]]]; [apply Hmax; assumption|].
        apply (ltb_false_leb o L). exact El.
  - destruct H as [(Hn & Hm & Hi)|(t0 & Ht0 & Hc0 & Hi & Hv & Hm & Hmax)].
    + left. split; [|auto]. intros t' Ht'. apply in_app_or in Ht'. destruct Ht' as [Ht'|[<-|[]]]; [apply Hn; exact Ht'|exact Ec].
    + right. exists t0. split; [apply in_or_app; left; exact Ht0|]. repeat split; auto.
      intros t' Ht' Hc'. apply in_app_or in Ht'. destruct Ht' as [Ht'|[<-|[]]]; [apply Hmax; assumption|].
      rewrite Ec in Hc'. discriminate.
Qed.

Hypothesis cols_nonneg : forall i t, In t (srange i) -> (0 <= gz Sj t)%Z.

Theorem one_point_F_row i : isC i = false ->
  (oprow i = [] /\ forall t, In t (srange i) -> isC (gz Sj t) = false) \/
  (exists t, In t (srange i) /\ isC (gz Sj t) = true /\
     oprow i = [(cmap spl (gz Sj t), opp o (gf o Sx t))] /\
     forall t', In t' (srange i) -> isC (gz Sj t') = true -> leb o (abs o (gf o Sx t')) (abs o (gf o Sx t)) = true).
Proof.
  intro HF. unfold one_point_row. rewrite HF.
  pose proof (pick_inv (srange i) [] (opp o (one o), (-1)%Z, zero o)) as H.
  cbn [app] in H. fold (pick i) in H.
  assert (H0 : Pinv [] (opp o (one o), (-1)%Z, zero o)).
  { left. split; [intros t []|auto]. }
  specialize (H H0). unfold one_point_pick in *.
  destruct (fold_left _ (srange i) _) as [[mx ind] val]. unfold Pinv in H.
  destruct H as [(Hn & Hm & Hi)|(t & Ht & Hc & Hi & Hv & Hm & Hmax)].
  - left. subst ind. cbn. split; [reflexivity|exact Hn].
  - right. exists t. split; [exact Ht|]. split; [exact Hc|]. split.
    + pose proof (cols_nonneg i t Ht) as Hnn. subst ind val.
      destruct (Z.gtb_spec (gz Sj t) (-1)); [reflexivity|lia].
    + intros t' Ht' Hc'. rewrite <- Hv, <- Hm. apply Hmax; assumption.
Qed.
End P.

(* the extra hypothesis holds over Q *)
From Coq Require Import QArith Qabs.
Lemma neg_one_lt_abs_Q : forall a : Q, ltb opsQ (opp opsQ (one opsQ)) (abs opsQ a) = true.
Proof.
  intro a. cbn. unfold Qltb. apply negb_true_iff. apply not_true_is_false. intro H.
  apply Qle_bool_iff in H. rewrite !Qred_correct in H.
  pose proof (Qabs_nonneg a) as H0.
  assert (H1 : (0 <= - (1))%Q) by (eapply Qle_trans; [exact H0|exact H]).
  revert H1. compute. intro H1. apply H1. reflexivity.
Qed.
