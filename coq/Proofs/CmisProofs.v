(* C18, unbounded: vertex_coloring_mis (repeated serial maximal independent sets with shifting codes
   -1-K / K / -2-K) on EVERY symmetric graph of any size: it terminates within its fuel n+1 and returns a
   proper colouring: every vertex gets a colour in [0, K) and adjacent vertices get different colours. *)
From Coq Require Import ZArith List Bool Lia FinFun.
Import ListNotations.
Require Import PV.Model.GraphAlg.
Require Import PV.Proofs.NaiveAggProofs.
Open Scope Z_scope.

Lemma in_zr a b k : In k (zr a b) <-> a <= k < b.
Proof.
  unfold zr. split.
  - intro H. apply in_map_iff in H. destruct H as [q [<- Hq]]. apply in_seq in Hq. lia.
  - intro H. apply in_map_iff. exists (Z.to_nat (k - a)). split; [lia|apply in_seq; lia].
Qed.
Lemma nodup_zr a b : NoDup (zr a b).
Proof. unfold zr. apply Injective_map_NoDup; [intros p q H; lia|apply seq_NoDup]. Qed.

(* counting the entries with a given property *)
Section Cnt.
Variable n : Z.
Definition cnt (p : Z -> bool) (x : list Z) : nat := length (filter (fun k => p (get x k)) (zr 0 n)).
Lemma cnt_ext p x x' : (forall k, 0 <= k < n -> p (get x' k) = p (get x k)) -> cnt p x' = cnt p x.
Proof.
  intro H. unfold cnt. f_equal. apply filter_ext_in. intros k Hk. apply in_zr in Hk. apply H. exact Hk.
Qed.
Lemma filter_one (p q : Z -> bool) i : forall l, NoDup l -> In i l -> p i = false -> q i = true ->
  (forall k, In k l -> k <> i -> q k = p k) -> length (filter q l) = S (length (filter p l)).
Proof.
  induction l as [|a l IH]; intros Nd Hin Pi Qi H; [destruct Hin|]. inversion Nd as [|a' l' Hnot Nd']; subst.
  cbn [filter]. destruct Hin as [->|Hin].
  - rewrite Pi, Qi. cbn [length]. f_equal. f_equal. apply filter_ext_in. intros k Hk. apply H; [right; exact Hk|intro; subst; contradiction].
  - assert (a <> i) by (intro; subst; contradiction).
    rewrite (H a (or_introl eq_refl) H0). destruct (p a); cbn [length]; rewrite (IH Nd' Hin Pi Qi (fun k Hk => H k (or_intror Hk))); reflexivity.
Qed.
Lemma cnt_one p x x' i : 0 <= i < n -> p (get x i) = false -> p (get x' i) = true ->
  (forall k, 0 <= k < n -> k <> i -> p (get x' k) = p (get x k)) -> cnt p x' = S (cnt p x).
Proof.
  intros Hi P Q H. unfold cnt. apply (filter_one (fun k => p (get x k)) (fun k => p (get x' k)) i); auto.
  - apply nodup_zr.
  - apply in_zr. exact Hi.
  - intros k Hk Hne. apply in_zr in Hk. apply H; assumption.
Qed.
Lemma cnt_le p x : (cnt p x <= Z.to_nat n)%nat.
Proof.
  unfold cnt. assert (G : forall (q : Z -> bool) l, (length (filter q l) <= length l)%nat).
  { intros q l. induction l as [|a l IH]; cbn [filter length]; [lia|]. destruct (q a); cbn [length]; lia. }
  etransitivity; [apply G|]. unfold zr. rewrite map_length, seq_length. lia.
Qed.
Lemma cnt_full p x : cnt p x = Z.to_nat n -> forall k, 0 <= k < n -> p (get x k) = true.
Proof.
  unfold cnt. intros H k Hk.
  assert (G : forall (q : Z -> bool) l, length (filter q l) = length l -> forall a, In a l -> q a = true).
  { intros q l. induction l as [|a l IH]; intros E b Hb; [destruct Hb|]. cbn [filter] in E.
    assert (L : (length (filter q l) <= length l)%nat).
    { clear. induction l as [|a l IH]; cbn [filter length]; [lia|]. destruct (q a); cbn [length]; lia. }
    destruct (q a) eqn:Q; cbn [length] in E; [|lia].
    destruct Hb as [<-|Hb]; [exact Q|apply IH; [lia|exact Hb]]. }
  apply (G (fun k => p (get x k)) (zr 0 n)); [|apply in_zr; exact Hk].
  rewrite H. unfold zr. rewrite map_length, seq_length. lia.
Qed.
End Cnt.

Section S.
Variables (N : nat) (Ap Aj : list Z).
Let n := Z.of_nat N.
Hypothesis cols_in_range : forall i, 0 <= i < n -> forall j, In j (nbrs Ap Aj i) -> 0 <= j < n.
Hypothesis sym : forall i j, 0 <= i < n -> In j (nbrs Ap Aj i) -> In i (nbrs Ap Aj j).

(* ---- one serial MIS round with arbitrary other ("inert") values in the array ---- *)
Section Round.
Variables (a c f : Z).
Hypothesis ac : a <> c.
Hypothesis af : a <> f.
Hypothesis cf : c <> f.
Variable x0 : list Z.
Hypothesis L0 : length x0 = N.
Hypothesis noc : forall k, 0 <= k < n -> get x0 k <> c.

Definition isc (v : Z) : bool := v =? c.
Definition sstep (s : list Z * Z) (i : Z) : list Z * Z :=
  let '(x, Nn) := s in
  if negb (get x i =? a) then (x, Nn) else (mark_active a f (set x i c) (nbrs Ap Aj i), Nn + 1).

Lemma mark_spec : forall js x, length x = N -> (forall j, In j js -> 0 <= j < n) ->
  let x' := mark_active a f x js in
  length x' = N /\ (forall k, 0 <= k < n -> get x' k = get x k \/ (get x k = a /\ get x' k = f /\ In k js)) /\
  (forall k, In k js -> get x k = a -> get x' k = f).
Proof.
  induction js as [|j js IH]; intros x Hl Hr; cbn [mark_active fold_left].
  - repeat split; auto. intros k [].
  - assert (Hj : 0 <= j < n) by (apply Hr; left; reflexivity).
    fold (mark_active a f (if get x j =? a then set x j f else x) js).
    destruct (Z.eqb_spec (get x j) a) as [E|E].
    + destruct (IH (set x j f) ltac:(rewrite length_set; exact Hl) (fun k Hk => Hr k (or_intror Hk))) as (L & A & B).
      assert (Sj : get (set x j f) j = f) by (apply get_set_same; rewrite Hl; unfold n in *; lia).
      assert (Fj : get (mark_active a f (set x j f) js) j = f).
      { destruct (A j Hj) as [Q|(Q & _)]; [rewrite Q; exact Sj|rewrite Sj in Q; congruence]. }
      repeat split.
      * exact L.
      * intros k Hk. destruct (Z.eq_dec k j) as [->|Hne]; [right; split; [exact E|split; [exact Fj|left; reflexivity]]|].
        destruct (A k Hk) as [Q|(Q1 & Q2 & Q3)].
        -- left. rewrite Q. apply get_set_other; lia.
        -- right. rewrite get_set_other in Q1 by lia. repeat split; auto. right; exact Q3.
      * intros k [<-|Hk] Hx; [exact Fj|]. destruct (Z.eq_dec k j) as [->|Hne]; [exact Fj|].
        apply B; [exact Hk|]. pose proof (Hr k (or_intror Hk)). rewrite get_set_other by lia. exact Hx.
    + destruct (IH x Hl (fun k Hk => Hr k (or_intror Hk))) as (L & A & B). repeat split; auto.
      * intros k Hk. destruct (A k Hk) as [Q|(Q1 & Q2 & Q3)]; [left; exact Q|right; repeat split; auto; right; exact Q3].
      * intros k [<-|Hk] Hx; [contradiction|apply B; assumption].
Qed.

Record SI (m : nat) (s : list Z * Z) : Prop := {
  s_l : length (fst s) = N;
  s_val : forall k, 0 <= k < n -> get (fst s) k = get x0 k \/ (get x0 k = a /\ (get (fst s) k = c \/ get (fst s) k = f));
  s_done : forall k, 0 <= k < Z.of_nat m -> get (fst s) k <> a;
  s_ind : forall i j, 0 <= i < n -> get (fst s) i = c -> In j (nbrs Ap Aj i) -> j <> i -> get (fst s) j <> c;
  s_cl : forall i j, 0 <= i < n -> get (fst s) i = c -> In j (nbrs Ap Aj i) -> j <> i -> get (fst s) j <> a;
  s_cnt : snd s = Z.of_nat (cnt n isc (fst s));
  s_dom : forall i, 0 <= i < n -> get x0 i = a -> get (fst s) i = f -> exists j, In j (nbrs Ap Aj i) /\ get (fst s) j = c
}.
Lemma sstep_inv m s : (m < N)%nat -> SI m s -> SI (S m) (sstep s (Z.of_nat m)).
Proof.
  destruct s as [x Nn]. intros Hm [Lx Val Done Ind Cl Cn Dom]. cbn [fst snd] in *.
  assert (Hmn : 0 <= Z.of_nat m < n) by (unfold n; lia).
  assert (Hrow : forall j, In j (nbrs Ap Aj (Z.of_nat m)) -> 0 <= j < n) by (exact (cols_in_range _ Hmn)).
  unfold sstep. destruct (Z.eqb_spec (get x (Z.of_nat m)) a) as [E|E]; cbn [negb].
  2:{ constructor; cbn [fst snd]; auto. intros k Hk. destruct (Z.eq_dec k (Z.of_nat m)) as [->|Hne]; [exact E|apply Done; lia]. }
  set (x1 := set x (Z.of_nat m) c).
  assert (L1 : length x1 = N) by (unfold x1; rewrite length_set; exact Lx).
  destruct (mark_spec (nbrs Ap Aj (Z.of_nat m)) x1 L1 Hrow) as (L & A & B).
  set (x' := mark_active a f x1 (nbrs Ap Aj (Z.of_nat m))) in *.
  assert (X1m : get x1 (Z.of_nat m) = c) by (unfold x1; apply get_set_same; rewrite Lx; lia).
  assert (X1o : forall k, 0 <= k -> k <> Z.of_nat m -> get x1 k = get x k) by (intros k H0 H1; unfold x1; apply get_set_other; lia).
  assert (X'm : get x' (Z.of_nat m) = c).
  { destruct (A _ Hmn) as [Q|(Q & _)]; [rewrite Q; exact X1m|rewrite X1m in Q; congruence]. }
  (* no neighbour of m is in the set: otherwise m would not be undecided *)
  assert (NoC : forall j, In j (nbrs Ap Aj (Z.of_nat m)) -> j <> Z.of_nat m -> get x j <> c).
  { intros j Hj Hne Hc. assert (Hjr : 0 <= j < n) by (apply Hrow; exact Hj).
    apply (Cl j (Z.of_nat m) Hjr Hc (sym _ _ Hmn Hj)); [congruence|exact E]. }
  assert (Cx' : forall k, 0 <= k < n -> k <> Z.of_nat m -> (get x' k = c <-> get x k = c)).
  { intros k Hk Hne. destruct (A k Hk) as [Q|(Q1 & Q2 & _)].
    - rewrite Q, X1o by lia. tauto.
    - rewrite X1o in Q1 by lia. split; intro H; [rewrite Q2 in H; congruence|rewrite Q1 in H; congruence]. }
  constructor; cbn [fst snd].
  - exact L.
  - intros k Hk. destruct (Z.eq_dec k (Z.of_nat m)) as [->|Hne].
    + right. rewrite X'm. destruct (Val _ Hmn) as [Q|(Q & _)]; [split; [congruence|left; reflexivity]|split; [exact Q|left; reflexivity]].
    + destruct (A k Hk) as [Q|(Q1 & Q2 & _)].
      * rewrite Q, X1o by lia. apply Val; exact Hk.
      * rewrite X1o in Q1 by lia. right. destruct (Val k Hk) as [V|(V & _)]; [split; [congruence|right; exact Q2]|split; [exact V|right; exact Q2]].
  - intros k Hk. destruct (Z.eq_dec k (Z.of_nat m)) as [->|Hne]; [rewrite X'm; congruence|].
    assert (Hkr : 0 <= k < n) by (unfold n in *; lia).
    destruct (A k Hkr) as [Q|(_ & Q & _)]; [rewrite Q, X1o by lia; apply Done; lia|rewrite Q; congruence].
  - intros i j Hi Hc Hj Hne. assert (Hjr : 0 <= j < n) by (apply (cols_in_range i Hi); exact Hj).
    destruct (Z.eq_dec i (Z.of_nat m)) as [->|Him].
    + intro Q. apply (Cx' j Hjr Hne) in Q. exact (NoC j Hj Hne Q).
    + apply (Cx' i Hi Him) in Hc. destruct (Z.eq_dec j (Z.of_nat m)) as [->|Hjm].
      * exfalso. apply (NoC i); [apply (sym i _ Hi Hj)|exact Him|exact Hc].
      * intro Q. apply (Cx' j Hjr Hjm) in Q. exact (Ind i j Hi Hc Hj Hne Q).
  - intros i j Hi Hc Hj Hne. assert (Hjr : 0 <= j < n) by (apply (cols_in_range i Hi); exact Hj).
    destruct (Z.eq_dec j (Z.of_nat m)) as [->|Hjm]; [rewrite X'm; congruence|].
    destruct (Z.eq_dec i (Z.of_nat m)) as [->|Him].
    + destruct (Z.eq_dec (get x1 j) a) as [Qa|Qa]; [rewrite (B j Hj Qa); congruence|].
      destruct (A j Hjr) as [Q|(Q & _)]; [rewrite Q; exact Qa|contradiction].
    + apply (Cx' i Hi Him) in Hc. destruct (A j Hjr) as [Q|(_ & Q & _)]; [|rewrite Q; congruence].
      rewrite Q, X1o by lia. exact (Cl i j Hi Hc Hj Hne).
  - rewrite Cn. rewrite (cnt_one n isc x x' (Z.of_nat m) Hmn).
    + lia.
    + unfold isc. rewrite E. apply Z.eqb_neq. exact ac.
    + unfold isc. rewrite X'm. apply Z.eqb_refl.
    + intros k Hk Hne. unfold isc. destruct (Z.eqb_spec (get x' k) c) as [Q|Q]; destruct (Z.eqb_spec (get x k) c) as [R|R]; auto.
      * apply (Cx' k Hk Hne) in Q. contradiction.
      * apply (Cx' k Hk Hne) in R. contradiction.
  - intros i Hi Ha Hf. destruct (Z.eq_dec i (Z.of_nat m)) as [->|Him]; [rewrite X'm in Hf; congruence|].
    destruct (A i Hi) as [Q|(Q1 & Q2 & Q3)].
    + rewrite Q, X1o in Hf by lia. destruct (Dom i Hi Ha Hf) as [j [J1 J2]].
      assert (Hjr : 0 <= j < n) by (apply (cols_in_range i Hi); exact J1).
      exists j. split; [exact J1|]. destruct (Z.eq_dec j (Z.of_nat m)) as [->|Hjm]; [exact X'm|]. apply (Cx' j Hjr Hjm). exact J2.
    + exists (Z.of_nat m). split; [apply (sym _ _ Hmn Q3)|exact X'm].
Qed.
Lemma sfold_inv : forall (k m : nat) s, (m + k <= N)%nat -> SI m s -> SI (m + k) (fold_left sstep (map Z.of_nat (seq m k)) s).
Proof.
  induction k as [|k IH]; intros m s Hb I; cbn [seq map fold_left]; [rewrite Nat.add_0_r; exact I|].
  replace (m + S k)%nat with (S m + k)%nat by lia. apply IH; [lia|apply sstep_inv; [lia|exact I]].
Qed.
Lemma round_spec : SI N (mis_serial n Ap Aj a c f x0).
Proof.
  unfold mis_serial.
  assert (I0 : SI 0 (x0, 0)).
  { constructor; cbn [fst snd]; auto; try lia.
    - intros i j Hi Hc. exfalso. exact (noc i Hi Hc).
    - intros i j Hi Hc. exfalso. exact (noc i Hi Hc).
    - assert (Z0 : cnt n isc x0 = 0%nat).
      { unfold cnt. assert (G : forall (q : Z -> bool) l, (forall k, In k l -> q k = false) -> filter q l = []).
        { intros q l. induction l as [|b l IH]; intro H; cbn [filter]; [reflexivity|].
          rewrite (H b (or_introl eq_refl)). apply IH. intros k Hk; apply H; right; exact Hk. }
        rewrite G; [reflexivity|]. intros k Hk. apply in_zr in Hk. unfold isc. apply Z.eqb_neq. apply noc. exact Hk. }
      rewrite Z0. reflexivity. }
  pose proof (sfold_inv N 0 (x0, 0) ltac:(lia) I0) as F. rewrite <- (zr_seq N) in F. fold n in F. cbn [Nat.add] in F.
  exact F.
Qed.
End Round.

(* ---- the colouring loop ---- *)
Definition colored (v : Z) : bool := 0 <=? v.
Lemma cnt_split p q r x x' : (forall k, 0 <= k < n -> r (get x' k) = p (get x k) || q (get x' k)) ->
  (forall k, 0 <= k < n -> p (get x k) = true -> q (get x' k) = false) ->
  cnt n r x' = (cnt n p x + cnt n q x')%nat.
Proof.
  intros H1 H2. unfold cnt.
  assert (G : forall l, (forall k, In k l -> 0 <= k < n) ->
              length (filter (fun k => r (get x' k)) l) = (length (filter (fun k => p (get x k)) l) + length (filter (fun k => q (get x' k)) l))%nat).
  { induction l as [|b l IH]; intro Hr; cbn [filter]; [reflexivity|].
    specialize (IH (fun k Hk => Hr k (or_intror Hk))). pose proof (Hr b (or_introl eq_refl)) as Hb.
    rewrite (H1 b Hb). destruct (p (get x b)) eqn:P.
    - rewrite (H2 b Hb P). cbn [orb length]. lia.
    - cbn [orb]. destruct (q (get x' b)); cbn [length]; lia. }
  apply G. intros k Hk. apply in_zr in Hk. exact Hk.
Qed.
Lemma cnt_pos p x k : 0 <= k < n -> p (get x k) = true -> (1 <= cnt n p x)%nat.
Proof.
  intros Hk P. unfold cnt. assert (Hin : In k (filter (fun k => p (get x k)) (zr 0 n))) by (apply filter_In; split; [apply in_zr; exact Hk|exact P]).
  destruct (filter (fun k => p (get x k)) (zr 0 n)); [destruct Hin|cbn [length]; lia].
Qed.

Record PI (K : Z) (x : list Z) (Nn : Z) : Prop := {
  c_l : length x = N; c_K : 0 <= K;
  c_val : forall k, 0 <= k < n -> get x k = -1 - K \/ 0 <= get x k < K;
  c_prop : forall i j, 0 <= i < n -> 0 <= get x i -> In j (nbrs Ap Aj i) -> j <> i -> get x j <> get x i;
  c_cnt : Nn = Z.of_nat (cnt n colored x)
}.
Lemma round_inv K x Nn : PI K x Nn ->
  let '(x1, dN) := mis_serial n Ap Aj (-1 - K) K (-2 - K) x in PI (K + 1) x1 (Nn + dN) /\ (Nn < n -> 1 <= dN).
Proof.
  intros [Lx HK Val Ppr Cn].
  assert (ac : -1 - K <> K) by lia. assert (af : -1 - K <> -2 - K) by lia. assert (cf : K <> -2 - K) by lia.
  assert (noc : forall k, 0 <= k < n -> get x k <> K) by (intros k Hk; destruct (Val k Hk); lia).
  pose proof (round_spec (-1 - K) K (-2 - K) ac af cf x Lx noc) as R.
  destruct (mis_serial n Ap Aj (-1 - K) K (-2 - K) x) as [x1 dN]. destruct R as [L1 V1 D1 I1 _ C1 Dom1]. cbn [fst snd] in *.
  assert (V : forall k, 0 <= k < n -> (get x1 k = get x k /\ 0 <= get x k < K) \/ (get x k = -1 - K /\ (get x1 k = K \/ get x1 k = -2 - K))).
  { intros k Hk. destruct (V1 k Hk) as [Q|Q]; [|right; exact Q]. left. split; [exact Q|].
    destruct (Val k Hk) as [W|W]; [|exact W]. exfalso. apply (D1 k); [unfold n in *; lia|]. rewrite Q. exact W. }
  split.
  - constructor.
    + exact L1.
    + lia.
    + intros k Hk. destruct (V k Hk) as [[Q W]|[_ [Q|Q]]]; [right; lia|right; lia|left; lia].
    + intros i j Hi Hc Hj Hne. assert (Hjr : 0 <= j < n) by (apply (cols_in_range i Hi); exact Hj).
      destruct (V i Hi) as [[Qi Wi]|[Ai [Qi|Qi]]]; [| |lia].
      * destruct (V j Hjr) as [[Qj Wj]|[Aj' [Qj|Qj]]]; [|lia|lia].
        rewrite Qi, Qj. apply (Ppr i j Hi ltac:(lia) Hj Hne).
      * rewrite Qi. apply (I1 i j Hi Qi Hj Hne).
    + rewrite Cn, C1. rewrite (cnt_split colored (isc K) colored x x1).
      * lia.
      * intros k Hk. unfold colored, isc. destruct (V k Hk) as [[Q W]|[Ak [Q|Q]]].
        -- rewrite Q. destruct (Z.leb_spec 0 (get x k)); [|lia]. reflexivity.
        -- rewrite Q, Ak. destruct (Z.leb_spec 0 K); [|lia]. destruct (Z.leb_spec 0 (-1 - K)); [lia|]. rewrite Z.eqb_refl. reflexivity.
        -- rewrite Q, Ak. destruct (Z.leb_spec 0 (-2 - K)); [lia|]. destruct (Z.leb_spec 0 (-1 - K)); [lia|].
           destruct (Z.eqb_spec (-2 - K) K); [lia|reflexivity].
      * intros k Hk P. unfold colored in P. apply Z.leb_le in P. unfold isc.
        destruct (V k Hk) as [[Q W]|[Ak _]]; [|lia]. rewrite Q. apply Z.eqb_neq. lia.
  - (* progress: some vertex is uncoloured, it ends in the set or next to a vertex of the set *)
    intro Hlt. rewrite C1.
    assert (Ex : exists k, 0 <= k < n /\ get x k = -1 - K).
    { destruct (Nat.eq_dec (cnt n colored x) N) as [Full|NotFull].
      - exfalso. rewrite Cn, Full in Hlt. unfold n in Hlt. lia.
      - (* not all coloured *)
        assert (G : forall l, (forall k, In k l -> 0 <= k < n) -> length (filter (fun k => colored (get x k)) l) <> length l ->
                    exists k, In k l /\ colored (get x k) = false).
        { induction l as [|b l IH]; intros Hr Hne; cbn [filter length] in Hne; [contradiction|].
          destruct (colored (get x b)) eqn:Cb.
          - cbn [length] in Hne. destruct (IH (fun k Hk => Hr k (or_intror Hk)) ltac:(lia)) as [k [K1 K2]]. exists k. split; [right; exact K1|exact K2].
          - exists b. split; [left; reflexivity|exact Cb]. }
        destruct (G (zr 0 n) (fun k Hk => proj1 (in_zr 0 n k) Hk)) as [k [K1 K2]].
        + unfold cnt in NotFull. unfold zr at 2. rewrite map_length, seq_length. unfold n. rewrite Z.sub_0_r, Nat2Z.id. exact NotFull.
        + apply in_zr in K1. exists k. split; [exact K1|]. unfold colored in K2. apply Z.leb_gt in K2. destruct (Val k K1); lia. }
    destruct Ex as [k [Hk Ak]].
    destruct (V k Hk) as [[_ W]|[_ [Q|Q]]]; [lia| |].
    + pose proof (cnt_pos (isc K) x1 k Hk ltac:(unfold isc; rewrite Q; apply Z.eqb_refl)). lia.
    + destruct (Dom1 k Hk Ak Q) as [j [J1 J2]]. assert (Hjr : 0 <= j < n) by (apply (cols_in_range k Hk); exact J1).
      pose proof (cnt_pos (isc K) x1 j Hjr ltac:(unfold isc; rewrite J2; apply Z.eqb_refl)). lia.
Qed.

Lemma loop_spec : forall fuel x Nn K, PI K x Nn -> (Z.to_nat (n - Nn) < fuel)%nat ->
  exists x' K', cmis_loop n Ap Aj fuel x Nn K = Some (x', K') /\ exists Nn', PI K' x' Nn' /\ n <= Nn'.
Proof.
  induction fuel as [|fuel IH]; intros x Nn K I Hf; [lia|]. cbn [cmis_loop].
  destruct (Z.ltb_spec Nn n) as [Hlt|Hge]; cbn [negb].
  - pose proof (round_inv K x Nn I) as R.
    destruct (mis_serial n Ap Aj (-1 - K) K (-2 - K) x) as [x1 dN]. destruct R as [I1 Pg]. specialize (Pg Hlt).
    apply IH; [exact I1|lia].
  - exists x, K. split; [reflexivity|]. exists Nn. split; [exact I|lia].
Qed.

Theorem coloring_mis_correct :
  exists x K, coloring_mis n Ap Aj = Some (x, K) /\
    length x = N /\ (forall k, 0 <= k < n -> 0 <= get x k < K) /\
    (forall i j, 0 <= i < n -> In j (nbrs Ap Aj i) -> j <> i -> get x j <> get x i).
Proof.
  unfold coloring_mis.
  assert (I0 : PI 0 (fillz n (-1)) 0).
  { constructor.
    - apply length_fillz.
    - lia.
    - intros k Hk. left. unfold n in *. rewrite get_fillz by lia. lia.
    - intros i j Hi Hc. unfold n in *. rewrite get_fillz in Hc by lia. lia.
    - assert (Z0 : cnt n colored (fillz n (-1)) = 0%nat).
      { unfold cnt. assert (G : forall (q : Z -> bool) l, (forall k, In k l -> q k = false) -> filter q l = []).
        { intros q l. induction l as [|b l IH]; intro H; cbn [filter]; [reflexivity|].
          rewrite (H b (or_introl eq_refl)). apply IH. intros k Hk; apply H; right; exact Hk. }
        rewrite G; [reflexivity|]. intros k Hk. apply in_zr in Hk. unfold n in *. rewrite get_fillz by lia. reflexivity. }
      rewrite Z0. reflexivity. }
  destruct (loop_spec (S (Z.to_nat n)) (fillz n (-1)) 0 0 I0 ltac:(lia)) as [x [K [E [Nn [[Lx HK Val Ppr Cn] Hge]]]]].
  exists x, K. split; [exact E|]. split; [exact Lx|].
  assert (Full : cnt n colored x = Z.to_nat n).
  { pose proof (cnt_le n colored x). lia. }
  assert (All : forall k, 0 <= k < n -> 0 <= get x k < K).
  { intros k Hk. pose proof (cnt_full n colored x Full k Hk) as C. unfold colored in C. apply Z.leb_le in C. destruct (Val k Hk); lia. }
  split; [exact All|]. intros i j Hi Hj Hne. apply Ppr; auto. destruct (All i Hi); lia.
Qed.
End S.
