(* Serial maximal independent set over an abstract symmetric adjacency: invariant proof
   (independent, maximal, every vertex decided).  Tied to the executable list/CSR model by
   the simulation in MisProofs.v. *)
From Coq Require Import List Arith Lia Bool.
Import ListNotations.

(* state of a vertex: active / in the set (C) / excluded (F) *)
Inductive st := Act | C | Fx.
Definition st_eqb a b := match a,b with Act,Act | C,C | Fx,Fx => true | _,_ => false end.

Section Mis.
Variable n : nat.
Variable adj : nat -> list nat.                 (* row i of the CSR pattern *)
Hypothesis adj_lt : forall i j, In j (adj i) -> j < n.
Hypothesis adj_sym : forall i j, In j (adj i) -> In i (adj j).

Definition state := nat -> st.
Definition upd (x : state) (i : nat) (v : st) : state := fun k => if Nat.eqb k i then v else x k.

(* inner loop: neighbours that are still active become F *)
Definition mark (x : state) (js : list nat) : state :=
  fold_left (fun x j => match x j with Act => upd x j Fx | _ => x end) js x.

(* outer loop body of maximal_independent_set_serial *)
Definition step (x : state) (i : nat) : state :=
  match x i with Act => mark (upd x i C) (adj i) | _ => x end.

Definition mis (x0 : state) : state := fold_left step (seq 0 n) x0.

Lemma upd_same x i v : upd x i v i = v. Proof. unfold upd. now rewrite Nat.eqb_refl. Qed.
Lemma upd_other x i v k : k <> i -> upd x i v k = x k.
Proof. intros H. unfold upd. destruct (Nat.eqb_spec k i); congruence. Qed.

(* what `mark` does *)
Lemma mark_spec js : forall x k,
  mark x js k = match x k with Act => if existsb (Nat.eqb k) js then Fx else Act | s => s end.
Proof.
induction js as [|j js IH]; intros x k; cbn [mark fold_left existsb].
- destruct (x k); reflexivity.
- change (fold_left _ js ?y k) with (mark y js k). rewrite IH.
  destruct (x j) eqn:Ej.
  + destruct (Nat.eqb_spec k j) as [->|Hne].
    * rewrite upd_same, Ej. reflexivity.
    * rewrite upd_other by auto. destruct (x k); reflexivity.
  + destruct (Nat.eqb_spec k j) as [->|Hne]; [rewrite Ej; reflexivity|]. destruct (x k); reflexivity.
  + destruct (Nat.eqb_spec k j) as [->|Hne]; [rewrite Ej; reflexivity|]. destruct (x k); reflexivity.
Qed.

Lemma existsb_In k js : existsb (Nat.eqb k) js = true <-> In k js.
Proof. rewrite existsb_exists. split; [intros (y & Hy & E); apply Nat.eqb_eq in E; subst; auto | intros H; exists k; split; auto; apply Nat.eqb_refl]. Qed.

(* invariant after the vertices < m have been visited *)
Record Inv (m : nat) (x : state) : Prop := {
  visited_decided : forall i, i < m -> x i <> Act;
  indep   : forall i j, x i = C -> x j = C -> In j (adj i) -> i = j;
  dom     : forall i, x i = Fx -> exists j, In j (adj i) /\ x j = C;
  closedC : forall i j, x i = C -> In j (adj i) -> x j <> Act }.

Lemma step_inv m x : m < n -> Inv m x -> Inv (S m) (step x m).
Proof.
intros Hm [Hv Hi Hd Hc]. unfold step. destruct (x m) eqn:Em.
2,3: (constructor; auto; intros i Hlt; destruct (Nat.eq_dec i m) as [->|]; [congruence | apply Hv; lia]).
(* m is active: it joins the set, its active neighbours are excluded *)
assert (Hnb : forall j, In j (adj m) -> x j <> C).
{ intros j Hj Hcj. apply (Hc j m Hcj (adj_sym _ _ Hj)). exact Em. }
set (y := mark (upd x m C) (adj m)).
assert (Hy : forall k, y k = if Nat.eqb k m then C else
             match x k with Act => if existsb (Nat.eqb k) (adj m) then Fx else Act | s => s end).
{ intros k. unfold y. rewrite mark_spec. unfold upd. destruct (Nat.eqb k m); reflexivity. }
assert (HyC : forall k, y k = C <-> k = m \/ x k = C).
{ intros k. rewrite Hy. destruct (Nat.eqb_spec k m) as [->|Hne]; [tauto|].
  destruct (x k) eqn:Ek; [destruct (existsb _ _)|..]; split; intros H; try discriminate; try tauto;
  destruct H as [H|H]; congruence. }
constructor.
- intros i Hlt. rewrite Hy. destruct (Nat.eqb_spec i m) as [->|Hne]; [discriminate|].
  assert (Hx : x i <> Act) by (apply Hv; lia). destruct (x i); [congruence|discriminate|discriminate].
- intros i j Hci Hcj Hij. apply HyC in Hci. apply HyC in Hcj.
  destruct Hci as [->|Hci], Hcj as [->|Hcj]; auto.
  + exfalso. exact (Hnb j Hij Hcj).
  + exfalso. exact (Hnb i (adj_sym _ _ Hij) Hci).
- intros i Hf. rewrite Hy in Hf. destruct (Nat.eqb_spec i m) as [E|Hne]; [discriminate|].
  destruct (x i) eqn:Ei.
  + destruct (existsb (Nat.eqb i) (adj m)) eqn:Ex; [|discriminate].
    apply existsb_In in Ex. exists m. split; [apply adj_sym; exact Ex | apply HyC; auto].
  + discriminate.
  + destruct (Hd i Ei) as (j & Hj & Hcj). exists j. split; auto. apply HyC; auto.
- intros i j Hci Hij. apply HyC in Hci. rewrite Hy.
  destruct (Nat.eqb_spec j m) as [->|Hne]; [discriminate|].
  destruct Hci as [->|Hci].
  + destruct (x j); [|discriminate|discriminate].
    assert (E : existsb (Nat.eqb j) (adj m) = true) by (apply existsb_In; exact Hij).
    rewrite E. discriminate.
  + assert (Hx := Hc i j Hci Hij). destruct (x j); [congruence|discriminate|discriminate].
Qed.

Lemma fold_inv : forall k m x, m + k <= n -> Inv m x -> Inv (m + k) (fold_left step (seq m k) x).
Proof.
induction k as [|k IH]; intros m x Hle H; cbn [seq fold_left].
- now rewrite Nat.add_0_r.
- replace (m + S k) with (S m + k) by lia. apply IH; [lia|]. apply step_inv; [lia|exact H].
Qed.

Theorem mis_serial_correct (x0 : state) : (forall i, x0 i = Act) ->
  let x := mis x0 in
  (forall i, i < n -> x i = C \/ x i = Fx) /\
  (forall i j, x i = C -> x j = C -> In j (adj i) -> i = j) /\          (* independent *)
  (forall i, i < n -> x i <> C -> exists j, In j (adj i) /\ x j = C).   (* maximal *)
Proof.
intros H0 x.
assert (I0 : Inv 0 x0).
{ constructor.
  - intros i Hi; lia.
  - intros i j Hi; rewrite H0 in Hi; discriminate.
  - intros i Hi; rewrite H0 in Hi; discriminate.
  - intros i j Hi; rewrite H0 in Hi; discriminate. }
assert (I : Inv n x) by (apply (fold_inv n 0 x0); [lia|exact I0]).
destruct I as [Hv Hi Hd Hc]. repeat split.
- intros i Hlt. specialize (Hv i Hlt). destruct (x i); [congruence|auto|auto].
- exact Hi.
- intros i Hlt Hn. specialize (Hv i Hlt). apply Hd. destruct (x i); congruence.
Qed.
End Mis.
