(* C13 / C18, unbounded: with integer weights (ties broken by the vertex index, as in the kernel) the
   parallel maximal-independent-set model terminates: every pass decides at least one vertex, so the
   fuel n + 2 used by the model always suffices.  Together with ParMis.v: total correctness. *)
From Coq Require Import ZArith List Bool Lia.
Import ListNotations.
Require Import PV.Model.GraphAlg.
Require Import PV.Proofs.NaiveAggProofs PV.Proofs.ParMisProofs.
Open Scope Z_scope.

Lemma in_zr a b k : In k (zr a b) -> a <= k < b.
Proof. unfold zr. intro H. apply in_map_iff in H. destruct H as [q [<- Hq]]. apply in_seq in Hq. lia. Qed.

Section S.
Variables (N : nat) (Ap Aj : list Z).
Let n := Z.of_nat N.
Hypothesis cols_in_range : forall i, 0 <= i < n -> forall j, In j (nbrs Ap Aj i) -> 0 <= j < n.
Hypothesis sym : forall i j, 0 <= i < n -> In j (nbrs Ap Aj i) -> In i (nbrs Ap Aj j).
Variables (active c f : Z).
Hypothesis ac : active <> c.
Hypothesis af : active <> f.
Hypothesis cf : c <> f.
Variable y : list Z.
Notation wt := WtZ.
Notation gw := (getw WtZ y).

(* number of undecided vertices *)
Definition cnt (x : list Z) : nat := length (filter (fun k => get x k =? active) (zr 0 n)).
Lemma filter_le {A} (p q : A -> bool) : forall l, (forall a, In a l -> q a = true -> p a = true) ->
  (length (filter q l) <= length (filter p l))%nat.
Proof.
  induction l as [|a l IH]; intro H; cbn [filter]; [lia|].
  assert (IH' := IH (fun b Hb => H b (or_intror Hb))).
  destruct (q a) eqn:Q; [rewrite (H a (or_introl eq_refl) Q); cbn [length]; lia|].
  destruct (p a); cbn [length]; lia.
Qed.
Lemma filter_lt {A} (p q : A -> bool) : forall l, (forall a, In a l -> q a = true -> p a = true) ->
  forall w, In w l -> p w = true -> q w = false -> (length (filter q l) < length (filter p l))%nat.
Proof.
  induction l as [|a l IH]; intros H w Hw Pw Qw; [destruct Hw|]. cbn [filter].
  pose proof (filter_le p q l (fun b Hb => H b (or_intror Hb))) as LE.
  destruct Hw as [<-|Hw].
  - rewrite Pw, Qw. cbn [length]. lia.
  - pose proof (IH (fun b Hb => H b (or_intror Hb)) w Hw Pw Qw) as LT.
    destruct (q a) eqn:Q; [rewrite (H a (or_introl eq_refl) Q); cbn [length]; lia|].
    destruct (p a); cbn [length]; lia.
Qed.

(* a BreakW needs an undecided neighbour that beats i *)
Definition beats (i j : Z) : bool := (gw i <? gw j) || ((gw j =? gw i) && (j >? i)).
Lemma scan_w x i : forall js, scan_row wt active c x y i (gw i) js = BreakW -> exists j, In j js /\ get x j = active /\ beats i j = true.
Proof.
  induction js as [|j js IH]; intro H; [discriminate|]. cbn [scan_row] in H.
  destruct (Z.eqb_spec (get x j) c) as [E|E]; [discriminate|].
  destruct (Z.eqb_spec (get x j) active) as [Ea|Ea].
  - cbn [wlt weq WtZ] in H. unfold beats.
    destruct (gw i <? gw j) eqn:B1; [exists j; repeat split; [left; reflexivity|exact Ea|rewrite B1; reflexivity]|].
    destruct ((gw j =? gw i) && (j >? i)) eqn:B2; [exists j; repeat split; [left; reflexivity|exact Ea|rewrite B1, B2; reflexivity]|].
    destruct (IH H) as [k (K1 & K2 & K3)]. exists k. repeat split; auto. right; exact K1.
  - destruct (IH H) as [k (K1 & K2 & K3)]. exists k. repeat split; auto. right; exact K1.
Qed.

(* a maximal undecided vertex exists *)
Definition ismax (x : list Z) (a : Z) : Prop :=
  0 <= a < n /\ get x a = active /\ forall j, 0 <= j < n -> get x j = active -> beats a j = false.
Lemma beats_total a b : a <> b -> beats a b = false -> beats b a = true.
Proof.
  unfold beats. intros Hne H. apply orb_false_iff in H. destruct H as [H1 H2]. apply Z.ltb_ge in H1.
  destruct (Z.ltb_spec (gw b) (gw a)); [reflexivity|]. cbn [orb].
  assert (E : gw a = gw b) by lia. rewrite E, Z.eqb_refl in *. cbn [andb] in *.
  destruct (Z.gtb_spec b a); [discriminate|]. destruct (Z.gtb_spec a b); [reflexivity|lia].
Qed.
Lemma beats_trans a b d : beats a b = true -> beats b d = true -> beats a d = true.
Proof.
  unfold beats. intros H1 H2. apply orb_true_iff in H1. apply orb_true_iff in H2. apply orb_true_iff.
  destruct H1 as [H1|H1]; destruct H2 as [H2|H2]; try apply Z.ltb_lt in H1; try apply Z.ltb_lt in H2;
    try (apply andb_true_iff in H1; destruct H1 as [E1 G1]; apply Z.eqb_eq in E1);
    try (apply andb_true_iff in H2; destruct H2 as [E2 G2]; apply Z.eqb_eq in E2).
  - left. apply Z.ltb_lt. lia.
  - left. apply Z.ltb_lt. lia.
  - left. apply Z.ltb_lt. lia.
  - right. apply andb_true_iff. split; [apply Z.eqb_eq; lia|]. destruct (Z.gtb_spec b a); [|discriminate].
    destruct (Z.gtb_spec d b); [|discriminate]. destruct (Z.gtb_spec d a); [reflexivity|lia].
Qed.
Lemma beats_irrefl a : beats a a = false.
Proof. unfold beats. rewrite Z.ltb_irrefl, Z.eqb_refl. cbn. destruct (Z.gtb_spec a a); [lia|reflexivity]. Qed.
(* the best undecided vertex of a list, by a left-to-right scan *)
Definition pick (x : list Z) (best : option Z) (k : Z) : option Z :=
  if get x k =? active then match best with None => Some k | Some b => if beats b k then Some k else Some b end else best.
Lemma pick_spec x : forall l best,
  (forall b, best = Some b -> get x b = active) ->
  match fold_left (pick x) l best with
  | None => best = None /\ forall k, In k l -> get x k <> active
  | Some a => get x a = active /\ (In a l \/ best = Some a) /\
              (forall j, In j l -> get x j = active -> beats a j = false) /\
              (forall b, best = Some b -> b = a \/ beats b a = true)
  end.
Proof.
  induction l as [|k l IH]; intros best Hb; cbn [fold_left].
  - destruct best as [b|]; [|split; [reflexivity|intros k []]].
    repeat split; auto. intros k []. intros b' E; injection E as <-; left; reflexivity.
  - unfold pick at 2. destruct (Z.eqb_spec (get x k) active) as [E|E].
    + destruct best as [b|].
      * destruct (beats b k) eqn:B.
        -- specialize (IH (Some k) (fun b' Eq => ltac:(injection Eq as <-; exact E))).
           destruct (fold_left (pick x) l (Some k)) as [a|]; [|destruct IH as [Q _]; discriminate].
           destruct IH as (A1 & A2 & A3 & A4). repeat split; auto.
           ++ destruct A2 as [A2|A2]; [left; right; exact A2|injection A2 as <-; left; left; reflexivity].
           ++ intros j [<-|Hj] Hact; [|apply A3; assumption].
              destruct (A4 k eq_refl) as [<-|Bk]; [apply beats_irrefl|].
              destruct (beats a k) eqn:Q; [|reflexivity].
              (* k -> a and a -> k would both hold *)
              exfalso. pose proof (beats_trans _ _ _ Bk Q) as T. rewrite beats_irrefl in T. discriminate.
           ++ intros b' Eq. injection Eq as <-. right. destruct (A4 k eq_refl) as [<-|Bk]; [exact B|exact (beats_trans _ _ _ B Bk)].
        -- specialize (IH (Some b) Hb).
           destruct (fold_left (pick x) l (Some b)) as [a|]; [|destruct IH as [Q _]; discriminate].
           destruct IH as (A1 & A2 & A3 & A4). repeat split; auto.
           ++ destruct A2 as [A2|A2]; [left; right; exact A2|right; exact A2].
           ++ intros j [<-|Hj] Hact; [|apply A3; assumption].
              destruct (A4 b eq_refl) as [<-|Bb]; [exact B|].
              destruct (beats a k) eqn:Q; [|reflexivity].
              pose proof (beats_trans _ _ _ Bb Q) as T. rewrite B in T. discriminate.
      * specialize (IH (Some k) (fun b' Eq => ltac:(injection Eq as <-; exact E))).
        destruct (fold_left (pick x) l (Some k)) as [a|]; [|destruct IH as [Q _]; discriminate].
        destruct IH as (A1 & A2 & A3 & A4). repeat split; auto.
        -- destruct A2 as [A2|A2]; [left; right; exact A2|injection A2 as <-; left; left; reflexivity].
        -- intros j [<-|Hj] Hact; [|apply A3; assumption].
           destruct (A4 k eq_refl) as [<-|Bk]; [apply beats_irrefl|].
           destruct (beats a k) eqn:Q; [|reflexivity].
           exfalso. pose proof (beats_trans _ _ _ Bk Q) as T. rewrite beats_irrefl in T. discriminate.
        -- intros b' Eq; discriminate.
    + specialize (IH best Hb). destruct (fold_left (pick x) l best) as [a|].
      * destruct IH as (A1 & A2 & A3 & A4). repeat split; auto.
        -- destruct A2 as [A2|A2]; [left; right; exact A2|right; exact A2].
        -- intros j [<-|Hj] Hact; [contradiction|apply A3; assumption].
      * destruct IH as [Q1 Q2]. split; [exact Q1|]. intros j [<-|Hj]; [exact E|apply Q2; exact Hj].
Qed.
Lemma max_exists x : (exists k, 0 <= k < n /\ get x k = active) -> exists a, ismax x a.
Proof.
  intros [w [Hw Aw]]. pose proof (pick_spec x (zr 0 n) None (fun b E => ltac:(discriminate))) as P.
  destruct (fold_left (pick x) (zr 0 n) None) as [a|].
  - destruct P as (A1 & A2 & A3 & _). destruct A2 as [A2|A2]; [|discriminate].
    exists a. split; [apply in_zr in A2; lia|]. split; [exact A1|].
    intros j Hj Hact. apply A3; [|exact Hact]. unfold zr. apply in_map_iff. exists (Z.to_nat j). split; [lia|].
    apply in_seq. unfold n in *. lia.
  - destruct P as [_ Q]. exfalso. apply (Q w); [|exact Aw].
    unfold zr. apply in_map_iff. exists (Z.to_nat w). split; [lia|]. apply in_seq. unfold n in *. lia.
Qed.

(* one pass decides the maximal undecided vertex and never un-decides anything *)
Notation sstep := (sweep_step Ap Aj active c f WtZ y).
Definition Shr (x : list Z) (a : Z) (m : nat) (s : list Z * Z * bool) : Prop :=
  let '(x', _, _) := s in
  length x' = N /\ (forall k, 0 <= k < n -> get x' k = active -> get x k = active) /\ (a < Z.of_nat m -> get x' a <> active).
Lemma step_shr x a m s : (m < N)%nat -> ismax x a -> Shr x a m s -> Shr x a (S m) (sstep s (Z.of_nat m)).
Proof.
  destruct s as [[x' Nn] act]. intros Hm (Ha & Aa & Mx) (Lx & Sub & Dn).
  assert (Hmn : 0 <= Z.of_nat m < n) by (unfold n; lia).
  assert (Hrow : forall j, In j (nbrs Ap Aj (Z.of_nat m)) -> 0 <= j < n) by (exact (cols_in_range _ Hmn)).
  unfold sweep_step, Shr.
  destruct (Z.eqb_spec (get x' (Z.of_nat m)) active) as [E|E]; cbn [negb].
  2:{ split; [exact Lx|]. split; [exact Sub|]. intro Hlt. destruct (Z.eq_dec a (Z.of_nat m)) as [->|Hne]; [exact E|apply Dn; lia]. }
  destruct (scan_row WtZ active c x' y (Z.of_nat m) (getw WtZ y (Z.of_nat m)) (nbrs Ap Aj (Z.of_nat m))) eqn:Sc.
  - destruct (mark_spec N active c f ac af cf (nbrs Ap Aj (Z.of_nat m)) x' Lx Hrow) as (L & A & _).
    set (x1 := mark_active active f x' (nbrs Ap Aj (Z.of_nat m))) in *.
    assert (X'm : get (set x1 (Z.of_nat m) c) (Z.of_nat m) = c) by (apply get_set_same; rewrite L; unfold n in *; lia).
    split; [rewrite length_set; exact L|]. split.
    + intros k Hk Hx. destruct (Z.eq_dec k (Z.of_nat m)) as [->|Hne]; [rewrite X'm in Hx; congruence|].
      rewrite get_set_other in Hx by lia. destruct (A k Hk) as [Q|(_ & Q & _)]; [rewrite Q in Hx; apply Sub; assumption|rewrite Q in Hx; congruence].
    + intro Hlt. destruct (Z.eq_dec a (Z.of_nat m)) as [->|Hne]; [rewrite X'm; congruence|].
      rewrite get_set_other by lia. destruct (A a Ha) as [Q|(_ & Q & _)]; [rewrite Q; apply Dn; lia|rewrite Q; congruence].
  - assert (Sm : get (set x' (Z.of_nat m) f) (Z.of_nat m) = f) by (apply get_set_same; rewrite Lx; unfold n in *; lia).
    split; [rewrite length_set; exact Lx|]. split.
    + intros k Hk Hx. destruct (Z.eq_dec k (Z.of_nat m)) as [->|Hne]; [rewrite Sm in Hx; congruence|].
      rewrite get_set_other in Hx by lia. apply Sub; assumption.
    + intro Hlt. destruct (Z.eq_dec a (Z.of_nat m)) as [->|Hne]; [rewrite Sm; congruence|].
      rewrite get_set_other by lia. apply Dn; lia.
  - (* postponed: then m is not the maximal vertex *)
    split; [exact Lx|]. split; [exact Sub|]. intro Hlt.
    destruct (Z.eq_dec a (Z.of_nat m)) as [->|Hne]; [|apply Dn; lia].
    exfalso. destruct (scan_w _ _ _ Sc) as [j (J1 & J2 & J3)].
    assert (Hjr : 0 <= j < n) by (apply Hrow; exact J1).
    rewrite (Mx j Hjr (Sub j Hjr J2)) in J3. discriminate.
Qed.
Lemma fold_shr x a : ismax x a -> forall (k m : nat) s, (m + k <= N)%nat -> Shr x a m s ->
  Shr x a (m + k) (fold_left sstep (map Z.of_nat (seq m k)) s).
Proof.
  intros Mx. induction k as [|k IH]; intros m s Hb I; cbn [seq map fold_left]; [rewrite Nat.add_0_r; exact I|].
  replace (m + S k)%nat with (S m + k)%nat by lia. apply IH; [lia|apply step_shr; [lia|exact Mx|exact I]].
Qed.
Lemma sweep_progress x Nn : length x = N -> (exists k, 0 <= k < n /\ get x k = active) ->
  let '(x', _, _) := par_sweep n Ap Aj WtZ active c f y (x, Nn) in (cnt x' < cnt x)%nat.
Proof.
  intros Lx Ex. destruct (max_exists x Ex) as [a Mx]. unfold par_sweep. cbn [fst snd].
  assert (I0 : Shr x a 0 (x, Nn, false)) by (split; [exact Lx|split; [auto|intro Hlt; destruct Mx as (Ha0 & _); lia]]).
  pose proof (fold_shr x a Mx N 0 (x, Nn, false) ltac:(lia) I0) as F.
  rewrite <- (zr_seq N) in F. fold n in F. cbn [Nat.add] in F.
  change (fold_left _ (zr 0 n) (x, Nn, false)) with (fold_left sstep (zr 0 n) (x, Nn, false)).
  destruct (fold_left sstep (zr 0 n) (x, Nn, false)) as [[x' N'] act]. destruct F as (L' & Sub & Dn).
  destruct Mx as (Ha & Aa & _). unfold cnt.
  apply (filter_lt (fun k => get x k =? active) (fun k => get x' k =? active) (zr 0 n)) with (w := a).
  - intros k Hk Q. apply in_zr in Hk. apply Z.eqb_eq in Q. apply Z.eqb_eq. apply Sub; [lia|exact Q].
  - unfold zr. apply in_map_iff. exists (Z.to_nat a). split; [lia|]. apply in_seq. unfold n in *. lia.
  - apply Z.eqb_eq. exact Aa.
  - apply Z.eqb_neq. apply Dn. unfold n in *. lia.
Qed.
Lemma sweep_idle x Nn : (forall k, 0 <= k < n -> get x k <> active) ->
  par_sweep n Ap Aj WtZ active c f y (x, Nn) = (x, Nn, false).
Proof.
  intro D. unfold par_sweep. cbn [fst snd].
  assert (G : forall l, (forall k, In k l -> 0 <= k < n) -> fold_left sstep l (x, Nn, false) = (x, Nn, false)).
  { induction l as [|k l IH]; intro Hr; cbn [fold_left]; [reflexivity|].
    unfold sweep_step at 2. destruct (Z.eqb_spec (get x k) active) as [E|E]; [exfalso; exact (D k (Hr k (or_introl eq_refl)) E)|].
    cbn [negb]. apply IH. intros q Hq; apply Hr; right; exact Hq. }
  apply G. intros k Hk. apply in_zr in Hk. lia.
Qed.
Lemma cnt_zero x : cnt x = 0%nat -> forall k, 0 <= k < n -> get x k <> active.
Proof.
  unfold cnt. intros H k Hk E.
  assert (Hin : In k (filter (fun k => get x k =? active) (zr 0 n))).
  { apply filter_In. split; [|apply Z.eqb_eq; exact E]. unfold zr. apply in_map_iff. exists (Z.to_nat k). split; [lia|].
    apply in_seq. unfold n in *. lia. }
  destruct (filter (fun k => get x k =? active) (zr 0 n)); [destruct Hin|discriminate].
Qed.
Lemma cnt_le x : (cnt x <= N)%nat.
Proof.
  unfold cnt. assert (G : forall (p : Z -> bool) l, (length (filter p l) <= length l)%nat).
  { intros p l. induction l as [|a l IH]; cbn [filter length]; [lia|]. destruct (p a); cbn [length]; lia. }
  etransitivity; [apply G|]. unfold zr. rewrite map_length, seq_length. unfold n. lia.
Qed.

Theorem par_loop_terminates : forall fuel iters x Nn, J N Ap Aj active c f x -> (cnt x < fuel)%nat ->
  exists r, par_loop n Ap Aj WtZ fuel active c f y (-1) iters (x, Nn) = Some r.
Proof.
  induction fuel as [|fuel IH]; intros iters x Nn Jx Hc; [lia|]. cbn [par_loop].
  change (-1 =? -1) with true. cbn [negb andb].
  destruct (Nat.eq_dec (cnt x) 0) as [Z0|Nz].
  - rewrite (sweep_idle x Nn (cnt_zero x Z0)). eexists; reflexivity.
  - assert (Ex : exists k, 0 <= k < n /\ get x k = active).
    { unfold cnt in Nz. destruct (filter (fun k => get x k =? active) (zr 0 n)) as [|k l] eqn:Fl; [contradiction|].
      assert (Hin : In k (filter (fun k => get x k =? active) (zr 0 n))) by (rewrite Fl; left; reflexivity).
      apply filter_In in Hin. destruct Hin as [H1 H2]. apply in_zr in H1. apply Z.eqb_eq in H2. exists k. split; [lia|exact H2]. }
    pose proof (sweep_progress x Nn (j_l N Ap Aj active c f x Jx) Ex) as Pg.
    pose proof (@par_sweep_spec N Ap Aj cols_in_range sym active c f ac af cf Z WtZ y x Nn Jx) as Sp. fold n in Sp.
    destruct (par_sweep n Ap Aj WtZ active c f y (x, Nn)) as [[x1 N1] act]. destruct Sp as [J1 _].
    destruct act; [|eexists; reflexivity].
    apply IH; [exact J1|lia].
Qed.

Theorem mis_parallel_terminates (x0 : list Z) : length x0 = N -> (forall k, 0 <= k < n -> get x0 k = active) ->
  exists r, mis_parallel n Ap Aj WtZ active c f x0 y (-1) = Some r.
Proof.
  intros Hl Hall. unfold mis_parallel.
  assert (J0 : J N Ap Aj active c f x0).
  { constructor; auto.
    - intros i j Hi Hc. rewrite (Hall i Hi) in Hc. congruence.
    - intros i Hi Hf. rewrite (Hall i Hi) in Hf. congruence. }
  apply par_loop_terminates; [exact J0|]. pose proof (cnt_le x0). unfold n. rewrite Nat2Z.id. lia.
Qed.
End S.
