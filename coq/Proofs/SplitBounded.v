(* Bounded theorems for the splitting models (C13): every directed pattern on <= 3 vertices and
   every symmetric graph on <= 4 vertices (no stored diagonal, as the callers remove it). *)
From Coq Require Import ZArith List Bool.
Import ListNotations.
Require Import PV.Model.GraphAlg PV.Model.Split PV.Proofs.GraphSpec PV.Proofs.GraphBounded.
Open Scope Z_scope.

Definition arcs_of (n : Z) : list (Z * Z) :=
  flat_map (fun i => map (fun j => (i, j)) (filter (fun j => negb (i =? j)) (zr 0 n))) (zr 0 n).
Definition hasarc (e : list (Z * Z)) (i j : Z) : bool := existsb (fun p => (fst p =? i) && (snd p =? j)) e.
(* (Sp, Sj, Tp, Tj): row i of S = { j | i -> j },  T = S^T *)
Definition dir_graph (n : Z) (e : list (Z * Z)) : list Z * list Z * list Z * list Z :=
  let '(Sp, Sj) := csr_of_adj n (fun i => filter (fun j => hasarc e i j) (zr 0 n)) in
  let '(Tp, Tj) := csr_of_adj n (fun i => filter (fun j => hasarc e j i) (zr 0 n)) in
  (Sp, Sj, Tp, Tj).
Definition symmetric_arcs (e : list (Z * Z)) : bool := forallb (fun p => hasarc e (snd p) (fst p)) e.
Definition patterns_le3 : list (Z * list (Z * Z)) :=
  flat_map (fun n => map (fun e => (n, e)) (subsets (arcs_of n))) [1; 2; 3].
Definition sym_patterns_4 : list (Z * list (Z * Z)) :=
  map (fun e => (4, e ++ map (fun p => (snd p, fst p)) e)) (subsets (pairs 4)).
Definition all_patterns := patterns_le3 ++ sym_patterns_4.

Section Spec.
Variables (n : Z) (e : list (Z * Z)).
Definition binary (s : list Z) : bool :=
  (Z.of_nat (length s) =? n) && forallb (fun i => (get s i =? 0) || (get s i =? 1)) (zr 0 n).
Definition some_C (s : list Z) : bool :=
  match e with [] => true | _ => existsb (fun i => get s i =? 1) (zr 0 n) end.
Definition sadj (i j : Z) : bool := hasarc e i j || hasarc e j i.
Definition indep_dom (s : list Z) : bool :=
  forallb (fun i =>
    if get s i =? 1 then negb (existsb (fun j => sadj i j && (get s j =? 1)) (zr 0 n))
    else negb (existsb (fun j => sadj i j) (zr 0 n)) || existsb (fun j => sadj i j && (get s j =? 1)) (zr 0 n))
  (zr 0 n).
(* every F point that strongly depends on some node strongly depends on a C point *)
Definition cover (s : list Z) : bool :=
  forallb (fun i => (get s i =? 1) || negb (existsb (fun j => hasarc e i j) (zr 0 n))
                    || existsb (fun j => hasarc e i j && (get s j =? 1)) (zr 0 n)) (zr 0 n).
End Spec.

Definition ok_rs (p : Z * list (Z * Z)) : bool :=
  let '(n, e) := p in
  let '(Sp, Sj, Tp, Tj) := dir_graph n e in
  let s := rs_cf_splitting n Sp Sj Tp Tj (fillz n 0) in
  binary n s && some_C n e s && (negb (symmetric_arcs e) || indep_dom n e s).
Definition ok_rs2 (p : Z * list (Z * Z)) : bool :=
  let '(n, e) := p in
  let '(Sp, Sj, Tp, Tj) := dir_graph n e in
  let s := rs_pass2 n Sp Sj (rs_cf_splitting n Sp Sj Tp Tj (fillz n 0)) in
  binary n s && some_C n e s && cover n e s.
(* CLJP with every tied initial weight vector w0/3, w0 in {0,1,2}^n *)
Definition ok_cljp (p : Z * list (Z * Z)) : bool :=
  let '(n, e) := p in
  let '(Sp, Sj, Tp, Tj) := dir_graph n e in
  forallb (fun w0 => match cljp (WcZ 3) n Sp Sj Tp Tj w0 with
                     | Some s => binary n s && some_C n e s && cover n e s
                     | None => false end) (vectors [0; 1; 2] (Z.to_nat n)).

Lemma all_rs : forallb ok_rs all_patterns = true. Proof. vm_compute. reflexivity. Qed.
Lemma all_rs2 : forallb ok_rs2 all_patterns = true. Proof. vm_compute. reflexivity. Qed.
Lemma all_cljp : forallb ok_cljp all_patterns = true. Proof. vm_compute. reflexivity. Qed.
Definition bounded_rs := lift _ _ all_rs.
Definition bounded_rs2 := lift _ _ all_rs2.
Definition bounded_cljp := lift _ _ all_cljp.
Example all_patterns_count : length all_patterns = 133%nat. Proof. vm_compute. reflexivity. Qed.
