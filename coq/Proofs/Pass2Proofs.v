(* C13, unbounded: the second pass of Ruge-Stuben splitting (rs_cf_splitting_pass2), run on ANY 0/1 splitting and ANY
   strength pattern with column indices below n, returns 0/1 flags in which every fine point with a nonempty strength
   row strongly depends on a coarse point.  (The kernel differs from the textbook: on a second conflict in a row it
   puts the tentative coarse point back and promotes the new one; the argument: coarse points present when a row starts
   are never demoted, and after the first entry of a fine row has been looked at the row always contains a coarse
   point.) *)
From Coq Require Import ZArith List Bool Lia.
Import ListNotations.
Require Import PV.Model.GraphAlg PV.Model.Split.
Require Import PV.Proofs.NaiveAggProofs PV.Proofs.RsIndep PV.Proofs.RsBuckets PV.Proofs.RsInit PV.Proofs.RsDom PV.Proofs.RsFinal.
Open Scope Z_scope.

Section P2.
Variables (N : nat) (Sp Sj : list Z).
Let n := Z.of_nat N.
Notation srow := (srow Sp Sj).
Hypothesis s_range : forall i, 0 <= i < n -> forall j, In j (srow i) -> 0 <= j < n.

Definition binary (v : list Z) : Prop := forall k, 0 <= k < n -> get v k = F_NODE \/ get v k = C_NODE.
Definition hasC (v : list Z) (i : Z) : Prop := exists x, In x (srow i) /\ get v x = C_NODE.

Definition jstep (row : Z) (s : list Z * Z) (j : Z) : list Z * Z :=
  let '(spl, cpt0) := s in
  if negb (get spl j =? F_NODE) then s
  else if common_C Sp Sj spl row j then s
  else if cpt0 <? 0 then (set spl j C_NODE, j)
  else (set (set spl cpt0 F_NODE) j C_NODE, j).

(* invariant inside a fine row, relative to the splitting v0 at the start of the row *)
Record RI (v0 : list Z) (row : Z) (s : list Z * Z) : Prop := {
  r_len : length (fst s) = N;
  r_keep : forall k, 0 <= k < n -> get v0 k = C_NODE -> get (fst s) k = C_NODE;
  r_cpt : snd s < 0 \/ (0 <= snd s < n /\ get v0 (snd s) = F_NODE /\ get (fst s) (snd s) = C_NODE);
  r_bin : binary (fst s)
}.

Lemma common_C_hasC v row j : common_C Sp Sj v row j = true -> hasC v row.
Proof.
  unfold common_C. rewrite existsb_exists. intros (ri & Hin & Hc). apply andb_true_iff in Hc. destruct Hc as [Hc _].
  apply Z.eqb_eq in Hc. exists ri. split; assumption.
Qed.

Lemma jstep_RI v0 row s j : binary v0 -> 0 <= row < n -> RI v0 row s -> In j (srow row) ->
  RI v0 row (jstep row s j) /\ hasC (fst (jstep row s j)) row.
Proof.
  intros B0 Hrow [L Keep Cpt Bin] Hj. destruct s as [v c]. cbn [fst snd] in *.
  pose proof (s_range row Hrow j Hj) as Rj.
  unfold jstep.
  destruct (Z.eqb_spec (get v j) F_NODE) as [EF|NF]; cbn [negb].
  2:{ (* j is coarse already *)
      assert (Cj : get v j = C_NODE) by (destruct (Bin j Rj); [contradiction|assumption]).
      split; [constructor; assumption|]. exists j; split; assumption. }
  destruct (common_C Sp Sj v row j) eqn:ECC.
  { split; [constructor; assumption|]. apply (common_C_hasC v row j ECC). }
  assert (Hnew : forall w, length w = N -> get (set w j C_NODE) j = C_NODE).
  { intros w Lw. rewrite gs by lia. rewrite Z.eqb_refl, Lw. fold n. destruct (Z.ltb_spec j n); [reflexivity|lia]. }
  assert (V0j : get v0 j = F_NODE).
  { destruct (B0 j Rj) as [E|E]; [exact E|]. rewrite (Keep j Rj E) in EF. discriminate. }
  destruct (Z.ltb_spec c 0) as [Hc|Hc]; cbn [fst snd].
  - (* first conflict: j becomes the tentative coarse point *)
    split.
    + constructor; cbn [fst snd].
      * rewrite length_set. exact L.
      * intros k Hk H0. rewrite gs by lia. destruct (_ && _); [reflexivity|apply Keep; assumption].
      * right. split; [exact Rj|]. split; [exact V0j|apply Hnew; exact L].
      * intros k Hk. rewrite gs by lia. destruct (_ && _); [right; reflexivity|apply Bin; exact Hk].
    + exists j. split; [exact Hj|apply Hnew; exact L].
  - (* another conflict: the tentative point goes back, j is promoted *)
    split.
    + constructor; cbn [fst snd].
      * rewrite !length_set. exact L.
      * intros k Hk H0. destruct Cpt as [Cn|(Rc & C0 & C1)]; [lia|].
        rewrite gs by lia. destruct (_ && _); [reflexivity|]. rewrite gs by lia.
        destruct (Z.eqb_spec c k) as [E|E]; cbn [andb]; [subst k; rewrite C0 in H0; discriminate|apply Keep; assumption].
      * right. split; [exact Rj|]. split; [exact V0j|apply Hnew; rewrite length_set; exact L].
      * intros k Hk. rewrite gs by lia. destruct (_ && _); [right; reflexivity|]. rewrite gs by lia.
        destruct (_ && _); [left; reflexivity|apply Bin; exact Hk].
    + exists j. split; [exact Hj|apply Hnew; rewrite length_set; exact L].
Qed.

(* a step keeps "the row contains a coarse point" *)
Lemma jstep_hasC v0 row s j : binary v0 -> 0 <= row < n -> RI v0 row s -> In j (srow row) -> hasC (fst (jstep row s j)) row.
Proof. intros B0 Hr R Hj. exact (proj2 (jstep_RI v0 row s j B0 Hr R Hj)). Qed.

Lemma row_fold v0 row : binary v0 -> 0 <= row < n ->
  forall l s, RI v0 row s -> (forall j, In j l -> In j (srow row)) ->
  RI v0 row (fold_left (jstep row) l s) /\ (l <> [] \/ hasC (fst s) row -> hasC (fst (fold_left (jstep row) l s)) row).
Proof.
  intros B0 Hr. induction l as [|j l IH]; intros s R Hl; cbn [fold_left].
  - split; [exact R|]. intros [H|H]; [contradiction|exact H].
  - destruct (jstep_RI v0 row s j B0 Hr R (Hl j (or_introl eq_refl))) as [R1 H1].
    destruct (IH (jstep row s j) R1 (fun j' Hj' => Hl j' (or_intror Hj'))) as [R2 H2].
    split; [exact R2|]. intros _. apply H2. right. exact H1.
Qed.

(* one row of the kernel *)
Definition row_step (v : list Z) (row : Z) : list Z :=
  if negb (get v row =? F_NODE) then v else fst (fold_left (jstep row) (srow row) (v, -1)).

Lemma pass2_unfold v : rs_pass2 n Sp Sj v = fold_left row_step (zr 0 n) v.
Proof. reflexivity. Qed.

Definition covered (v : list Z) (i : Z) : Prop := get v i = C_NODE \/ srow i = [] \/ hasC v i.

Lemma row_step_spec v row : binary v -> length v = N -> 0 <= row < n ->
  let v' := row_step v row in
  binary v' /\ length v' = N /\ (forall k, 0 <= k < n -> get v k = C_NODE -> get v' k = C_NODE) /\ covered v' row.
Proof.
  intros B L Hr. unfold row_step.
  destruct (Z.eqb_spec (get v row) F_NODE) as [EF|NF]; cbn [negb].
  - assert (R0 : RI v row (v, -1)) by (constructor; cbn [fst snd]; auto; left; lia).
    destruct (row_fold v row B Hr (srow row) (v, -1) R0 (fun j H => H)) as [[L' Keep _ Bin] Hc].
    cbv zeta. split; [exact Bin|]. split; [exact L'|]. split; [exact Keep|].
    assert (D : srow row = [] \/ srow row <> []) by (destruct (srow row); [left; reflexivity|right; discriminate]).
    destruct D as [E|E]; [right; left; exact E|]. right. right. apply Hc. left. exact E.
  - cbv zeta. split; [exact B|]. split; [exact L|]. split; [auto|]. left. destruct (B row Hr); [contradiction|assumption].
Qed.

Lemma covered_keep v v' i : (forall k, 0 <= k < n -> get v k = C_NODE -> get v' k = C_NODE) -> 0 <= i < n ->
  covered v i -> covered v' i.
Proof.
  intros Keep Hi [C|[E|(x & Hx & Cx)]]; [left; apply Keep; assumption|right; left; exact E|].
  right. right. exists x. split; [exact Hx|]. apply Keep; [apply (s_range i Hi x Hx)|exact Cx].
Qed.

Theorem rs_pass2_cover v : binary v -> length v = N ->
  let r := rs_pass2 n Sp Sj v in
  length r = N /\ binary r /\
  forall i, 0 <= i < n -> get r i = F_NODE -> srow i <> [] -> exists j, In j (srow i) /\ get r j = C_NODE.
Proof.
  intros B L. rewrite pass2_unfold.
  assert (K : binary (fold_left row_step (zr 0 n) v) /\ length (fold_left row_step (zr 0 n) v) = N /\
              forall i, 0 <= i < Z.of_nat N -> covered (fold_left row_step (zr 0 n) v) i).
  { unfold n.
    apply (RsInit.fold_seq_inv row_step (fun m w => binary w /\ length w = N /\ forall i, 0 <= i < Z.of_nat m -> covered w i) N).
    - split; [exact B|]. split; [exact L|]. intros i Hi. lia.
    - intros m w Hm (Bw & Lw & Cw).
      destruct (row_step_spec w (Z.of_nat m) Bw Lw ltac:(unfold n; lia)) as (B' & L' & Keep & Cm).
      split; [exact B'|]. split; [exact L'|]. intros i Hi.
      destruct (Z.eq_dec i (Z.of_nat m)) as [->|Hne]; [exact Cm|].
      apply (covered_keep w); [exact Keep|unfold n; lia|apply Cw; lia]. }
  destruct K as (Br & Lr & Cr). cbv zeta. split; [exact Lr|]. split; [exact Br|].
  intros i Hi Hf Hne. destruct (Cr i Hi) as [C|[E|H]]; [rewrite Hf in C; discriminate|contradiction|exact H].
Qed.
End P2.

(* ---------------------------------------------------------------- first pass: 0/1 flags on every pattern *)
Section Bin.
Variables (N : nat) (Sp Sj Tp Tj : list Z).
Let n := Z.of_nat N.

Definition tern (v : list Z) : Prop :=
  length v = N /\ forall k, 0 <= k < n -> get v k = F_NODE \/ get v k = C_NODE \/ get v k = U_NODE.

Lemma makeC_tern s i : tern (spl s) -> tern (spl (make_C n Sp Sj Tp Tj s i)).
Proof.
  intros [L V]. unfold n. rewrite (spl_makeC N Sp Sj Tp Tj s i). fold n. set (v := spl s) in *. set (row := Split.row Tp Tj i).
  set (v1 := set v i C_NODE).
  assert (L1 : length v1 = N) by (unfold v1; rewrite length_set; exact L).
  assert (V1 : forall k, 0 <= k < n -> get v1 k = F_NODE \/ get v1 k = C_NODE \/ get v1 k = U_NODE).
  { intros k Hk. unfold v1. rewrite gs by lia. destruct (_ && _); [right; left; reflexivity|apply V; exact Hk]. }
  destruct (repl_spec U_NODE PRE_F_NODE ltac:(discriminate) row v1) as (La & Aa & Ba).
  set (v2 := repl U_NODE PRE_F_NODE v1 row) in *.
  destruct (repl_spec PRE_F_NODE F_NODE ltac:(discriminate) row v2) as (Lb & Ab & Bb).
  rewrite La, L1 in *. fold n in Aa, Ba, Ab, Bb.
  split; [exact Lb|]. intros k Hk.
  destruct (Ab k Hk) as [Q|(_ & Q)]; [|left; exact Q]. rewrite Q.
  destruct (Aa k Hk) as [R|(R1 & R2)]; [rewrite R; apply V1; exact Hk|].
  (* marked tentative: then k is in the row, and the second loop over the same row finalises it *)
  exfalso. destruct (in_dec Z.eq_dec k row) as [Hin|Hout].
  - pose proof (Bb k Hk Hin R2) as Fk. rewrite Q, R2 in Fk. discriminate.
  - unfold v2 in R2. rewrite repl_notin in R2 by (lia || exact Hout). rewrite R1 in R2. discriminate.
Qed.

Lemma main_tern : forall tops s, tern (spl s) -> tern (spl (main n Sp Sj Tp Tj tops s)).
Proof.
  induction tops as [|t rest IH]; intros s T; [exact T|].
  rewrite (main_cons N Sp Sj Tp Tj). cbv zeta.
  destruct (_ <=? 0); [exact T|]. destruct (_ =? U_NODE); apply IH; [apply makeC_tern; exact T|exact T].
Qed.

Theorem rs_first_pass_binary (infl : list Z) :
  let r := rs_cf_splitting n Sp Sj Tp Tj infl in
  length r = N /\ forall k, 0 <= k < n -> get r k = F_NODE \/ get r k = C_NODE.
Proof.
  unfold rs_cf_splitting.
  assert (T0 : tern (spl (init n Tp Tj infl))).
  { unfold n. rewrite (RsFinal.init_eq N Tp Tj infl). cbn [spl]. split.
    - unfold RsFinal.spl0. rewrite map_length, RsFinal.length_zr. lia.
    - intros k Hk. rewrite (RsFinal.spl0_at N Tp Tj infl k Hk). destruct (_ || _); [left|right; right]; reflexivity. }
  destruct (main_tern (rev (zr 0 n)) _ T0) as [L V].
  set (v := spl (main n Sp Sj Tp Tj (rev (zr 0 n)) (init n Tp Tj infl))) in *.
  cbv zeta. split; [rewrite map_length; exact L|]. intros k Hk.
  rewrite (get_map (fun v0 => if v0 =? U_NODE then F_NODE else v0)) by (rewrite L; fold n; exact Hk).
  destruct (V k Hk) as [Q|[Q|Q]]; rewrite Q; cbn; auto.
Qed.
End Bin.

(* ---------------------------------------------------------------- two-pass Ruge-Stuben *)
Theorem rs_two_pass_cover (N : nat) (Sp Sj Tp Tj infl : list Z) :
  (forall i, 0 <= i < Z.of_nat N -> forall j, In j (srow Sp Sj i) -> 0 <= j < Z.of_nat N) ->
  let r := rs_pass2 (Z.of_nat N) Sp Sj (rs_cf_splitting (Z.of_nat N) Sp Sj Tp Tj infl) in
  length r = N /\
  (forall k, 0 <= k < Z.of_nat N -> get r k = 0 \/ get r k = 1) /\
  forall i, 0 <= i < Z.of_nat N -> get r i = 0 -> srow Sp Sj i <> [] -> exists j, In j (srow Sp Sj i) /\ get r j = 1.
Proof.
  intros Hs. destruct (rs_first_pass_binary N Sp Sj Tp Tj infl) as [L B].
  destruct (rs_pass2_cover N Sp Sj Hs _ B L) as (Lr & Br & Cr). cbv zeta. split; [exact Lr|]. split; [exact Br|exact Cr].
Qed.
Print Assumptions rs_two_pass_cover.
