(* Bounded theorem for stencil_grid: for every grid with 1..3 points per dimension in 1, 2 and
   3 dimensions (1-wide and non-square grids included) and the "generic" stencils of size 3^d
   (and 5 in 1-D) whose entry at row-major position k is 4^k, the algorithm model equals the
   specification.  Because the algorithm only ever adds stencil entries (it is additive in the
   stencil), and each matrix entry receives at most 3 copies of any stencil entry, agreement on
   base-4 digits means the same multiset of stencil positions contributes to every matrix entry. *)
From Coq Require Import ZArith List Bool.
Import ListNotations.
Require Import PV.Base.Ops PV.Model.Stencil PV.Model.StencilRun.
Open Scope Z_scope.

Definition generic (shape : list Z) : list Z := map (fun k => 4 ^ Z.of_nat k) (seq 0 (Z.to_nat (prodl shape))).
Definition grids : list (list Z) :=
  map (fun a => [a]) [1; 2; 3; 4; 5] ++
  flat_map (fun a => map (fun b => [a; b]) [1; 2; 3]) [1; 2; 3] ++
  flat_map (fun a => flat_map (fun b => map (fun c => [a; b; c]) [1; 2; 3]) [1; 2; 3]) [1; 2; 3].
Definition shape_for (g : list Z) : list (list Z) :=
  match g with [_] => [[3]; [5]; [1]] | [_; _] => [[3; 3]; [1; 3]; [3; 5]] | _ => [[3; 3; 3]] end.
Definition ok (g : list Z) : bool :=
  forallb (fun shape => list_eqb (list_eqb Z.eqb) (sgZ shape g (generic shape)) (specZ shape g (generic shape))) (shape_for g).
Lemma all_ok : forallb ok grids = true. Proof. vm_compute. reflexivity. Qed.
Theorem stencil_bounded : forall g, In g grids -> ok g = true.
Proof. intros g H. pose proof all_ok as A. rewrite forallb_forall in A. exact (A g H). Qed.
