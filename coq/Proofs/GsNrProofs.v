(* C09: the column step of gauss_seidel_nr (CSC storage, residual vector r = b - A x kept up to date) over an
   arbitrary field and conjugation: with d = sum_j conj(a_ji) r_j and delta = d Dinv_i omega the step sets
   x_i += delta and r -= delta a_i; afterwards  sum_j conj(a_ji) r'_j = d - (sum_j conj(a_ji) a_ji) delta, i.e.
   (1 - omega) d when Dinv_i is the inverse of the squared column norm (omega = 1: the residual becomes orthogonal
   to column i); other entries of x and entries of r outside the column are untouched; d = 0 leaves everything
   unchanged. *)
From Coq Require Import ZArith List Lia Ring Field Setoid Bool.
Import ListNotations.
Require Import PV.Base.Ops PV.Model.Relax PV.Proofs.RelaxProofs.

Section G.
Variable F : Type.
Variables (r0 r1 : F) (radd rmul rsub : F -> F -> F) (ropp : F -> F) (rdiv : F -> F -> F) (rinv : F -> F).
Variables (rabs : F -> F) (reqb rleb rltb : F -> F -> bool).
Hypothesis Fth : field_theory r0 r1 radd rmul rsub ropp rdiv rinv (@eq F).
Add Field Fg : Fth.
Variable conj : F -> F.
Let o : Ops F := mkOps F r0 r1 radd rsub rmul rdiv ropp rabs reqb rleb rltb.
Notation "a + b" := (radd a b). Notation "a * b" := (rmul a b).
Notation "a - b" := (rsub a b).

(* generic: weights u in the dot product, increments v * delta in the update, positions c *)
Variables (c : Z -> nat) (u v : Z -> F).
Fixpoint sumf (f : Z -> F) (l : list Z) : F := match l with [] => r0 | j :: t => f j + sumf f t end.
Lemma fold_sumf (f : Z -> F) l : forall acc, fold_left (fun d j => d + f j) l acc = acc + sumf f l.
Proof. induction l as [|j t IH]; intro acc; cbn [fold_left sumf]; [ring|]. rewrite IH. ring. Qed.
Definition gdot (cols : list Z) (x : list F) : F := sumf (fun j => u j * nth (c j) x r0) cols.
Definition guv (cols : list Z) : F := sumf (fun j => u j * v j) cols.
Definition gincr (cols : list Z) (delta : F) (k : nat) : F :=
  sumf (fun j => if Nat.eqb (c j) k then v j * delta else r0) cols.
Definition gupd (cols : list Z) (delta : F) (x : list F) : list F :=
  fold_left (fun x j => upd x (c j) (nth (c j) x r0 + v j * delta)) cols x.

Lemma length_gupd cols delta : forall x, length (gupd cols delta x) = length x.
Proof. induction cols as [|j t IH]; intro x; cbn [gupd fold_left]; [reflexivity|]. unfold gupd in IH. rewrite IH. apply length_upd. Qed.
Lemma nth_gupd cols delta : forall x k, (forall j, In j cols -> (c j < length x)%nat) ->
  nth k (gupd cols delta x) r0 = nth k x r0 + gincr cols delta k.
Proof.
  induction cols as [|j t IH]; intros x k Hin; cbn [gupd fold_left gincr sumf]; [ring|].
  unfold gupd in IH. rewrite IH.
  2:{ intros j' Hj'. rewrite length_upd. apply Hin. right; exact Hj'. }
  fold (gincr t delta k).
  destruct (Nat.eqb_spec (c j) k) as [E|E].
  - subst k. rewrite nth_upd_same by (apply Hin; left; reflexivity). ring.
  - rewrite nth_upd_other by exact E. ring.
Qed.
Lemma gincr_out cols delta k : ~ In k (map c cols) -> gincr cols delta k = r0.
Proof.
  induction cols as [|j t IH]; intro Hk; [reflexivity|]. cbn [gincr sumf]. fold (gincr t delta k).
  destruct (Nat.eqb_spec (c j) k) as [E|E]; [exfalso; apply Hk; cbn [map]; left; exact E|].
  rewrite IH; [ring|]. intro H. apply Hk. cbn [map]. right. exact H.
Qed.
Lemma gincr_nodup cols delta : NoDup (map c cols) -> forall j, In j cols -> gincr cols delta (c j) = v j * delta.
Proof.
  induction cols as [|j0 t IH]; intros Nd j Hj; [destruct Hj|].
  cbn [map] in Nd. inversion Nd as [|? ? Hnot Nd']; subst. cbn [gincr sumf]. fold (gincr t delta (c j)).
  destruct Hj as [<-|Hj].
  - rewrite Nat.eqb_refl. rewrite (gincr_out t delta (c j0) Hnot). ring.
  - destruct (Nat.eqb_spec (c j0) (c j)) as [E|E].
    + exfalso. apply Hnot. rewrite E. apply in_map. exact Hj.
    + rewrite IH by assumption. ring.
Qed.
Lemma sumf_ext (f g : Z -> F) l : (forall j, In j l -> f j = g j) -> sumf f l = sumf g l.
Proof. induction l as [|j t IH]; intro H; cbn [sumf]; [reflexivity|]. rewrite (H j) by (left; reflexivity). rewrite IH; [reflexivity|]. intros; apply H; right; assumption. Qed.
Lemma sumf_add (f g : Z -> F) l : sumf (fun j => f j + g j) l = sumf f l + sumf g l.
Proof. induction l as [|j t IH]; cbn [sumf]; [ring|]. rewrite IH. ring. Qed.
Lemma sumf_scale (f : Z -> F) k l : sumf (fun j => f j * k) l = sumf f l * k.
Proof. induction l as [|j t IH]; cbn [sumf]; [ring|]. rewrite IH. ring. Qed.

Theorem gdot_gupd cols delta x : NoDup (map c cols) -> (forall j, In j cols -> (c j < length x)%nat) ->
  gdot cols (gupd cols delta x) = gdot cols x + guv cols * delta.
Proof.
  intros Nd Hin. unfold gdot, guv.
  rewrite (sumf_ext _ (fun j => u j * nth (c j) x r0 + (u j * v j) * delta)).
  - rewrite sumf_add, sumf_scale. reflexivity.
  - intros j Hj. rewrite nth_gupd by exact Hin. rewrite gincr_nodup by assumption. ring.
Qed.
Lemma gupd_zero cols : forall x, gupd cols r0 x = x.
Proof.
  induction cols as [|j t IH]; intro x; cbn [gupd fold_left]; [reflexivity|]. unfold gupd in IH.
  replace (nth (c j) x r0 + v j * r0) with (nth (c j) x r0) by ring. rewrite upd_same. apply IH.
Qed.
End G.

(* ---- instance: the model's column step ---- *)
Section NR.
Variable F : Type.
Variables (r0 r1 : F) (radd rmul rsub : F -> F -> F) (ropp : F -> F) (rdiv : F -> F -> F) (rinv : F -> F).
Variables (rabs : F -> F) (reqb rleb rltb : F -> F -> bool).
Hypothesis Fth : field_theory r0 r1 radd rmul rsub ropp rdiv rinv (@eq F).
Add Field Fn : Fth.
Variable conj : F -> F.
Let o : Ops F := mkOps F r0 r1 radd rsub rmul rdiv ropp rabs reqb rleb rltb.
Notation "a + b" := (radd a b). Notation "a * b" := (rmul a b).
Notation "a - b" := (rsub a b).
Variables (Ap Aj : list Z) (Ax Dinv : list F) (omega : F) (i : Z).
Let rows := zrange (nthZ Ap i 0%Z) (nthZ Ap (i + 1) 0%Z).
Let cj (j : Z) : nat := Z.to_nat (nthZ Aj j 0%Z).
Let a (j : Z) : F := nthZ Ax j r0.
Let uu (j : Z) : F := conj (a j).
Let vv (j : Z) : F := ropp (a j).
Definition cdot (r : list F) : F := gdot F r0 radd rmul cj uu rows r.
Definition cnorm2 : F := sumf F r0 radd (fun j => conj (a j) * a j) rows.
Definition ndelta (r : list F) : F := cdot r * (nthZ Dinv i r0 * omega).

Lemma upd_fold dl : forall r,
  fold_left (fun r j => upd r (Z.to_nat (nthZ Aj j 0%Z)) (sub o (nthZ r (nthZ Aj j 0%Z) (zero o)) (mul o dl (nthZ Ax j (zero o))))) rows r
  = gupd F r0 radd rmul cj vv rows dl r.
Proof.
  unfold gupd. induction rows as [|j t IH]; intro acc; cbn [fold_left]; [reflexivity|].
  rewrite IH. f_equal. unfold vv, a, cj, nthZ, o; cbn. f_equal. ring.
Qed.

Lemma gs_nr_col_is x r : gs_nr_col o conj Ap Aj Ax Dinv omega (x, r) i =
  (upd x (Z.to_nat i) (nthZ x i r0 + ndelta r), gupd F r0 radd rmul cj vv rows (ndelta r) r).
Proof.
  unfold gs_nr_col. fold rows.
  assert (E : fold_left (fun d j => add o d (mul o (conj (nthZ Ax j (zero o))) (nthZ r (nthZ Aj j 0%Z) (zero o)))) rows (zero o) = cdot r).
  { unfold cdot, gdot. change (zero o) with r0.
    change (fold_left (fun d j => d + (fun j => uu j * nth (cj j) r r0) j) rows r0 = sumf F r0 radd (fun j => uu j * nth (cj j) r r0) rows).
    rewrite (fold_sumf F r0 r1 radd rmul rsub ropp rdiv rinv Fth). ring. }
  rewrite E. rewrite upd_fold. reflexivity.
Qed.

Theorem gs_nr_column x r : NoDup (map cj rows) -> (forall j, In j rows -> (cj j < length r)%nat) ->
  let '(x', r') := gs_nr_col o conj Ap Aj Ax Dinv omega (x, r) i in
  cdot r' = cdot r - cnorm2 * ndelta r /\
  (nthZ Dinv i r0 * cnorm2 = r1 -> cdot r' = (r1 - omega) * cdot r) /\
  (forall k, ~ In k (map cj rows) -> nth k r' r0 = nth k r r0) /\
  (forall k, k <> Z.to_nat i -> nth k x' r0 = nth k x r0) /\
  length r' = length r /\ length x' = length x /\
  (cdot r = r0 -> x' = x /\ r' = r).
Proof.
  intros Nd Hin. rewrite gs_nr_col_is.
  pose proof (gdot_gupd F r0 r1 radd rmul rsub ropp rdiv rinv Fth cj uu vv rows (ndelta r) r Nd Hin) as E1.
  fold (cdot (gupd F r0 radd rmul cj vv rows (ndelta r) r)) in E1. fold (cdot r) in E1.
  assert (Eg : guv F r0 radd rmul uu vv rows = ropp cnorm2).
  { unfold guv, cnorm2, uu, vv. generalize rows as l. induction l as [|j t IH]; cbn [sumf]; [ring|]. rewrite IH. ring. }
  rewrite Eg in E1.
  split; [rewrite E1; ring|]. split; [|split; [|split; [|split; [|split]]]].
  - intro Hd. rewrite E1. unfold ndelta.
    transitivity (cdot r - (nthZ Dinv i r0 * cnorm2) * (cdot r * omega)); [ring|]. rewrite Hd. ring.
  - intros k Hk. rewrite (nth_gupd F r0 r1 radd rmul rsub ropp rdiv rinv Fth cj vv rows (ndelta r) r k Hin).
    rewrite (gincr_out F r0 r1 radd rmul rsub ropp rdiv rinv Fth cj vv rows (ndelta r) k Hk). ring.
  - intros k Hk. apply nth_upd_other. congruence.
  - apply length_gupd.
  - apply length_upd.
  - intro Hz. unfold ndelta. rewrite Hz.
    replace (r0 * (nthZ Dinv i r0 * omega)) with r0 by ring. split.
    + replace (nthZ x i r0 + r0) with (nthZ x i r0) by ring. unfold nthZ. apply upd_same.
    + apply (gupd_zero F r0 r1 radd rmul rsub ropp rdiv rinv Fth cj vv).
Qed.
End NR.
