(* C17, unbounded: the bounds-checked breadth_first_search never leaves Ap, Aj, order[0..n), level[0..n) on any
   structurally valid CSR graph (symmetric or not, any size) and returns what the unchecked model returns -- in
   particular order[N] is written only while fewer than n vertices are labelled. *)
From Coq Require Import ZArith List Bool Lia.
Import ListNotations.
Require Import PV.Model.GraphAlg PV.Model.SplitChk PV.Model.BfsChk.
Require Import PV.Proofs.NaiveAggProofs PV.Proofs.NaiveAggSafe PV.Proofs.CmisProofs PV.Proofs.BfsProofs.
Open Scope Z_scope.

Section S.
Variables (N : nat) (Ap Aj : list Z).
Let n := Z.of_nat N.
Hypothesis Ap_len : length Ap = S N.
Hypothesis Ap_mono : forall i, 0 <= i < n -> 0 <= get Ap i <= get Ap (i + 1) /\ get Ap (i + 1) <= Z.of_nat (length Aj).
Hypothesis cols_in_range : forall i, 0 <= i < n -> forall j, In j (nbrs Ap Aj i) -> 0 <= j < n.
Variable seed : Z.
Hypothesis seed_in : 0 <= seed < n.

Notation BI := (BI N).
Notation RI := (RI N Ap Aj).
Notation LI := (LI N Ap Aj seed).

Definition cstep (cur : Z) (st : list Z * list Z * Z) (j : Z) : option (list Z * list Z * Z) :=
  let '(order, level, Nn) := st in
  lj <- cget level j ;;
  if lj =? -1 then o' <- cset order Nn j ;; l' <- cset level j cur ;; Some (o', l', Nn + 1) else Some st.

Lemma row_fold_ok cur : cur <> -1 -> forall row order level Nn, (forall j, In j row -> 0 <= j < n) -> BI order level Nn ->
  ofold (cstep cur) row (order, level, Nn) = Some (fold_left (vstep cur) row (order, level, Nn)).
Proof.
  intros Hc. induction row as [|j row IH]; intros order level Nn Hr B; cbn [ofold fold_left]; [reflexivity|].
  assert (Hj : 0 <= j < n) by (apply Hr; left; reflexivity).
  pose proof (vstep_BI N Ap Aj cols_in_range seed seed_in cur order level Nn j Hc Hj B) as V.
  unfold cstep at 1. unfold vstep at 2. unfold vstep in V.
  destruct B as [Lo Ll HN Nd Hin].
  rewrite cget_get by (rewrite Ll; unfold n in *; lia). cbn [obind].
  destruct (Z.eqb_spec (get level j) (-1)) as [E|E].
  - pose proof (room N order level Nn j (Build_BI N order level Nn Lo Ll HN Nd Hin) Hj E) as Hroom.
    rewrite cset_set by (rewrite Lo; unfold n in *; lia). cbn [obind].
    rewrite cset_set by (rewrite Ll; unfold n in *; lia). cbn [obind].
    destruct V as (B1 & _ & _). apply IH; [intros q Hq; apply Hr; right; exact Hq|exact B1].
  - destruct V as (B1 & _ & _). apply IH; [intros q Hq; apply Hr; right; exact Hq|exact B1].
Qed.

Lemma visit_chk_ok cur i order level Nn : cur <> -1 -> 0 <= i < n -> BI order level Nn ->
  bfs_visit_chk Ap Aj (order, level, Nn) cur i = Some (bfs_visit Ap Aj (order, level, Nn) cur i).
Proof.
  intros Hc Hi B. unfold bfs_visit_chk. rewrite (row_chk_nbrs N Ap Aj Ap_len Ap_mono i Hi). cbn [obind].
  exact (row_fold_ok cur Hc (nbrs Ap Aj i) order level Nn (cols_in_range i Hi) B).
Qed.

Section Round.
Variables (cur le lb : Z) (o0 l0 : list Z).
Hypothesis cur1 : 1 <= cur.
Hypothesis le0 : 0 <= le.
Hypothesis lb0 : 0 <= lb.
Hypothesis Fr : forall k, lb <= k < le -> 0 <= get o0 k < n /\ get l0 (get o0 k) = cur - 1.

Lemma round_chk_ok : forall ps order level Nn, (forall k, In k ps -> lb <= k < le) -> RI cur le o0 l0 order level Nn ->
  ofold (fun (st : list Z * list Z * Z) ii => i <- cget (fst (fst st)) ii ;; bfs_visit_chk Ap Aj st cur i) ps (order, level, Nn)
  = Some (fold_left (fun st ii => bfs_visit Ap Aj st cur (get (fst (fst st)) ii)) ps (order, level, Nn)).
Proof.
  induction ps as [|p ps IH]; intros order level Nn Hps I; cbn [ofold fold_left]; [reflexivity|].
  assert (Hp : lb <= p < le) by (apply Hps; left; reflexivity).
  destruct (Fr p Hp) as [Hi Li].
  pose proof I as I0. destruct I as [Bi Hle Pre Old New Seg].
  cbn [fst].
  assert (Lo : length order = N) by (destruct Bi; assumption).
  assert (HN : 0 <= Nn <= n) by (destruct Bi; assumption).
  rewrite cget_get by (rewrite Lo; unfold n in *; lia). cbn [obind].
  rewrite (Pre p ltac:(lia)).
  rewrite (visit_chk_ok cur (get o0 p) order level Nn ltac:(lia) Hi Bi). cbn [obind].
  pose proof (visit_RI N Ap Aj cols_in_range seed seed_in cur le o0 l0 cur1 le0 (get o0 p) Hi Li (nbrs Ap Aj (get o0 p)) order level Nn (fun j H => H) I0) as V.
  change (bfs_visit Ap Aj (order, level, Nn) cur (get o0 p)) with (fold_left (vstep cur) (nbrs Ap Aj (get o0 p)) (order, level, Nn)).
  destruct (fold_left (vstep cur) (nbrs Ap Aj (get o0 p)) (order, level, Nn)) as [[o1 l1] N1]. destruct V as (I1 & _ & _).
  apply IH; [intros k Hk; apply Hps; right; exact Hk|exact I1].
Qed.
End Round.

Lemma loop_chk_ok : forall (fuel : nat) cur lb le order level, LI cur lb le order level ->
  bfs_loop_chk Ap Aj fuel (order, level, le) lb le cur = bfs_loop Ap Aj fuel (order, level, le) lb le cur.
Proof.
  induction fuel as [|k IH]; intros cur lb le order level I; cbn [bfs_loop_chk bfs_loop]; [reflexivity|].
  destruct (lb <? le) eqn:E; cbn [negb]; [|reflexivity].
  pose proof I as I0. destruct I as [Bi Hc Hlb Lev Compl Fr Fr2].
  rewrite (round_chk_ok cur le lb order level Hc ltac:(lia) ltac:(lia) Fr (zr lb le) order level le
             (fun k Hk => proj1 (in_zr lb le k) Hk) (RI_start N Ap Aj cur le order level Bi)).
  cbn [obind].
  pose proof (round_LI N Ap Aj cols_in_range seed seed_in cur lb le order level I0) as R.
  destruct (fold_left _ (zr lb le) (order, level, le)) as [[o1 l1] N1]. destruct R as (_ & I1). cbn [snd].
  apply IH. exact I1.
Qed.

Theorem bfs_safe order0 : length order0 = N ->
  bfs_chk n Ap Aj seed order0 = bfs n Ap Aj seed order0 /\ exists r, bfs_chk n Ap Aj seed order0 = Some r.
Proof.
  intro Lo. assert (HN : (1 <= N)%nat) by (unfold n in *; lia).
  assert (E : bfs_chk n Ap Aj seed order0 = bfs n Ap Aj seed order0).
  { unfold bfs_chk, bfs.
    rewrite cset_set by (rewrite Lo; lia). cbn [obind].
    rewrite cset_set by (unfold n; rewrite length_fillz; exact seed_in). cbn [obind].
    apply (loop_chk_ok (S (S (Z.to_nat n))) 1 0 1). apply (LI_init N Ap Aj cols_in_range seed seed_in order0 Lo). }
  split; [exact E|].
  destruct (bfs_correct N Ap Aj cols_in_range seed seed_in order0 Lo) as (o & l & Nn & Eb & _).
  exists (o, l, Nn). rewrite E. exact Eb.
Qed.
End S.
