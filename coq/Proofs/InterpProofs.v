(* C11: direct interpolation -- identity rows at C points, support of F rows, and weights that
   sum to one on M-matrix rows with zero row sum (constants are interpolated exactly). *)
From Coq Require Import ZArith List Bool Lia Ring Field.
Import ListNotations.
Require Import PV.Base.Ops PV.Model.Interp.

Section P.
Variable F : Type.
Variables (r0 r1 : F) (radd rmul rsub : F -> F -> F) (ropp : F -> F) (rdiv : F -> F -> F) (rinv : F -> F).
Variables (rabs : F -> F) (reqb rleb rltb : F -> F -> bool).
Hypothesis Fth : field_theory r0 r1 radd rmul rsub ropp rdiv rinv (@eq F).
Hypothesis eqb_spec : forall a b, reqb a b = true <-> a = b.
Add Field Ff : Fth.
Let o : Ops F := mkOps F r0 r1 radd rsub rmul rdiv ropp rabs reqb rleb rltb.
Notation "a + b" := (radd a b). Notation "a * b" := (rmul a b).
Notation "a - b" := (rsub a b). Notation "a / b" := (rdiv a b). Notation "- a" := (ropp a).

Variables (n : Z) (Ap Aj : list Z) (Ax : list F) (Sp Sj : list Z) (Sx : list F) (spl : list Z).
Notation direct_row := (direct_row o Ap Aj Ax Sp Sj Sx spl).
Notation isC := (isC spl).
Notation strongC := (strongC Sj spl).
Notation srange := (srange Sp).
Notation arange := (arange Ap).

(* coarse points get an identity row *)
Theorem direct_C_identity i : isC i = true -> direct_row i = [(cmap spl i, r1)].
Proof. intro H. unfold Interp.direct_row. rewrite H. reflexivity. Qed.

(* fine points interpolate only from their strongly connected coarse points *)
Theorem direct_F_support i : isC i = false ->
  map fst (direct_row i) = map (fun jj => cmap spl (gz Sj jj)) (filter (strongC i) (srange i)).
Proof.
  intro H. unfold Interp.direct_row. rewrite H.
  destruct (fold_left _ (srange i) _) as [ssp ssn].
  destruct (fold_left _ (arange i) _) as [[sap san] diag].
  destruct (eqb o ssp (zero o)); cbn; rewrite map_map; reflexivity.
Qed.

(* ---- the weights sum to one on an M-matrix row with zero row sum ---- *)
Definition sumF (l : list F) : F := fold_left radd l r0.
Lemma sumF_acc l : forall a, fold_left radd l a = a + sumF l.
Proof.
  unfold sumF. induction l as [|x l IH]; intro a; cbn; [ring|].
  rewrite IH, (IH (r0 + x)). ring.
Qed.
Lemma sumF_cons x l : sumF (x :: l) = x + sumF l.
Proof. unfold sumF at 1. cbn [fold_left]. rewrite sumF_acc. ring. Qed.
Lemma sumF_scale c l : sumF (map (fun x => c * x) l) = c * sumF l.
Proof.
  unfold sumF. induction l as [|x l IH]; cbn; [ring|].
  rewrite sumF_acc, (sumF_acc l (r0 + x)). unfold sumF. rewrite IH. ring.
Qed.

Section Row.
Variable i : Z.
Hypothesis HF : isC i = false.
(* every strongly connected C entry of the row is negative *)
Hypothesis strong_neg : forall jj, In jj (srange i) -> strongC i jj = true -> rltb (gf o Sx jj) r0 = true.
(* every off-diagonal entry of the matrix row is negative *)
Hypothesis off_neg : forall jj, In jj (arange i) -> gz Aj jj <> i -> rltb (gf o Ax jj) r0 = true.

Definition strong_vals : list F := map (gf o Sx) (filter (strongC i) (srange i)).
Definition offdiag_vals : list F := map (gf o Ax) (filter (fun jj => negb (gz Aj jj =? i)%Z) (arange i)).
Definition diag_vals : list F := map (gf o Ax) (filter (fun jj => (gz Aj jj =? i)%Z) (arange i)).

Lemma strong_fold : forall l acc, (forall jj, In jj l -> In jj (srange i)) ->
  fold_left (fun (acc : F * F) jj =>
      if strongC i jj then
        if ltb o (gf o Sx jj) (zero o) then (fst acc, add o (snd acc) (gf o Sx jj)) else (add o (fst acc) (gf o Sx jj), snd acc)
      else acc) l acc
  = (fst acc, snd acc + sumF (map (gf o Sx) (filter (strongC i) l))).
Proof.
  induction l as [|jj l IH]; intros acc Hin; cbn [fold_left filter map].
  - destruct acc; cbn. f_equal. unfold sumF; cbn. ring.
  - assert (Hl : forall k, In k l -> In k (srange i)) by (intros k Hk; apply Hin; right; exact Hk).
    destruct (strongC i jj) eqn:Es.
    + pose proof (strong_neg jj (Hin jj (or_introl eq_refl)) Es) as Hn.
      change (ltb o (gf o Sx jj) (zero o)) with (rltb (gf o Sx jj) r0). rewrite Hn.
      rewrite (IH _ Hl). cbn [fst snd map]. f_equal.
      rewrite sumF_cons. unfold o; cbn. ring.
    + apply (IH _ Hl).
Qed.

Lemma all_fold : forall l acc, (forall jj, In jj l -> In jj (arange i)) ->
  fold_left (fun (acc : F * F * F) jj =>
      let '(p, ng, d) := acc in
      if (gz Aj jj =? i)%Z then (p, ng, add o d (gf o Ax jj))
      else if ltb o (gf o Ax jj) (zero o) then (p, add o ng (gf o Ax jj), d) else (add o p (gf o Ax jj), ng, d)) l acc
  = (fst (fst acc),
     snd (fst acc) + sumF (map (gf o Ax) (filter (fun jj => negb (gz Aj jj =? i)%Z) l)),
     snd acc + sumF (map (gf o Ax) (filter (fun jj => (gz Aj jj =? i)%Z) l))).
Proof.
  induction l as [|jj l IH]; intros [[p ng] d] Hin; cbn [fold_left filter map fst snd].
  - f_equal; [f_equal|]; unfold sumF; cbn; ring.
  - assert (Hl : forall k, In k l -> In k (arange i)) by (intros k Hk; apply Hin; right; exact Hk).
    destruct (Z.eqb_spec (gz Aj jj) i) as [E|E]; cbn [negb].
    + rewrite (IH _ Hl). cbn [fst snd map]. f_equal.
      rewrite sumF_cons. unfold o; cbn. ring.
    + pose proof (off_neg jj (Hin jj (or_introl eq_refl)) E) as Hn.
      change (ltb o (gf o Ax jj) (zero o)) with (rltb (gf o Ax jj) r0). rewrite Hn.
      rewrite (IH _ Hl). cbn [fst snd map]. f_equal. f_equal.
      rewrite sumF_cons. unfold o; cbn. ring.
Qed.

(* zero row sum, nonzero diagonal, at least one strong C neighbour with nonzero total *)
Theorem direct_rowsum_one :
  sumF diag_vals + sumF offdiag_vals = r0 -> sumF diag_vals <> r0 -> sumF strong_vals <> r0 ->
  sumF (map snd (direct_row i)) = r1.
Proof.
  intros Hrow Hd Hs. unfold Interp.direct_row. rewrite HF.
  rewrite (strong_fold (srange i) (zero o, zero o) (fun _ H => H)).
  rewrite (all_fold (arange i) (zero o, zero o, zero o) (fun _ H => H)).
  cbn [fst snd]. fold strong_vals. fold offdiag_vals. fold diag_vals.
  change (zero o) with r0.
  assert (E0 : reqb r0 r0 = true) by (apply eqb_spec; reflexivity).
  change (eqb o r0 r0) with (reqb r0 r0). rewrite E0.
  set (ssn := r0 + sumF strong_vals). set (san := r0 + sumF offdiag_vals). set (dg := r0 + sumF diag_vals).
  cbn [fst snd].
  (* every strong entry is negative: each weight is neg_coeff * Sx *)
  rewrite map_map. cbn [snd].
  assert (Em : map (fun jj => if ltb o (gf o Sx jj) r0
                              then mul o (div o (opp o (div o san ssn)) (add o dg r0)) (gf o Sx jj)
                              else mul o (div o (opp o r0) (add o dg r0)) (gf o Sx jj))
                   (filter (strongC i) (srange i))
             = map (fun x => ((- (san / ssn)) / (dg + r0)) * x) strong_vals).
  { unfold strong_vals. rewrite map_map. apply map_ext_in. intros jj Hj. apply filter_In in Hj. destruct Hj as [Hj1 Hj2].
    change (ltb o (gf o Sx jj) r0) with (rltb (gf o Sx jj) r0). rewrite (strong_neg jj Hj1 Hj2). reflexivity. }
  rewrite Em, sumF_scale.
  assert (Hssn : ssn <> r0) by (unfold ssn; intro H; apply Hs; rewrite <- H; ring).
  assert (Hdg : dg + r0 <> r0) by (unfold dg; intro H; apply Hd; rewrite <- H; ring).
  assert (Hsan : san = - (dg + r0)).
  { unfold san, dg.
    assert (G : sumF offdiag_vals = - sumF diag_vals).
    { transitivity ((sumF diag_vals + sumF offdiag_vals) - sumF diag_vals); [ring|]. rewrite Hrow. ring. }
    rewrite G. ring. }
  replace (sumF strong_vals) with ssn by (unfold ssn; ring).
  rewrite Hsan. field. split; [exact Hssn|]. intro H. apply Hdg. rewrite H. ring.
Qed.
End Row.
End P.

(* packaging for the property statements (the same lists, as functions of an [Ops] record) *)
Definition osum {F} (o : Ops F) (l : list F) : F := fold_left (add o) l (zero o).
Definition row_diag {F} (o : Ops F) (Ap Aj : list Z) (Ax : list F) (i : Z) : list F :=
  map (gf o Ax) (filter (fun jj => (gz Aj jj =? i)%Z) (arange Ap i)).
Definition row_offdiag {F} (o : Ops F) (Ap Aj : list Z) (Ax : list F) (i : Z) : list F :=
  map (gf o Ax) (filter (fun jj => negb (gz Aj jj =? i)%Z) (arange Ap i)).
Definition row_strongC {F} (o : Ops F) (Sp Sj : list Z) (Sx : list F) (spl : list Z) (i : Z) : list F :=
  map (gf o Sx) (filter (strongC Sj spl i) (srange Sp i)).
