(* Bounded theorems for the aggregation models (C12): all symmetric graphs on <= 4 vertices. *)
From Coq Require Import ZArith List Bool.
Import ListNotations.
Require Import PV.Model.GraphAlg PV.Model.Aggregate PV.Proofs.GraphSpec PV.Proofs.GraphBounded.
Open Scope Z_scope.

Section Spec.
Variables (n : Z) (Ap Aj : list Z).
Definition members (x : list Z) (k : Z) : list Z := filter (fun i => get x i =? k) (zr 0 n).
(* ids in [-1, c), no aggregate empty, root k lies in aggregate k (hence roots are distinct) *)
Definition is_partition (x y : list Z) (c : Z) : bool :=
  (Z.of_nat (length x) =? n) &&
  forallb (fun i => (-1 <=? get x i) && (get x i <? c)) (zr 0 n) &&
  forallb (fun k => negb (match members x k with [] => true | _ => false end)) (zr 0 c) &&
  forallb (fun k => (0 <=? get y k) && (get y k <? n) && (get x (get y k) =? k)) (zr 0 c).
Definition isolated (i : Z) : bool := negb (existsb (fun j => negb (i =? j)) (nbrs Ap Aj i)).
(* closure of {root} inside the aggregate *)
Fixpoint grow (k : nat) (mem S : list Z) : list Z :=
  match k with
  | O => S
  | S k' => let S' := grow k' mem S in
            filter (fun j => existsb (Z.eqb j) S' || existsb (fun i => adjb Ap Aj i j) S') mem
  end.
Definition connected_agg (x y : list Z) (k : Z) : bool :=
  let mem := members x k in
  Nat.eqb (length (grow (Z.to_nat n) mem [get y k])) (length mem).
End Spec.

Definition ok_standard (g : list Z * list Z) : bool :=
  let n := nof g in
  let '(x, y, c) := standard_aggregation n (fst g) (snd g) (fillz n (-7)) in
  is_partition n x y c &&
  forallb (fun i => Bool.eqb (get x i =? -1) (isolated (fst g) (snd g) i)) (zr 0 n) &&
  forallb (connected_agg n (fst g) (snd g) x y) (zr 0 c) &&
  (* the third pass never opens an aggregate *)
  (let '(_, _, next1) := std_pass1 n (fst g) (snd g) (fillz n (-7)) in c =? next1 - 1).

Definition ok_naive (g : list Z * list Z) : bool :=
  let n := nof g in
  let '(x1, y, c) := naive_aggregation n (fst g) (snd g) (fillz n (-7)) in
  let x := map (fun v => v - 1) x1 in       (* the kernel numbers aggregates from 1; the wrapper subtracts 1 *)
  is_partition n x y c && forallb (fun i => 0 <=? get x i) (zr 0 n).

(* pairwise: x is 1-based as the kernel leaves it; all weight vectors over {1,2} per stored entry *)
Definition ok_pairwise (g : list Z * list Z) : bool :=
  let n := nof g in
  forallb (fun w =>
    match pairwise_aggregation n (fst g) (snd g) w (fillz n (-7)) with
    | Some (x1, y, c) =>
        let x := map (fun v => v - 1) x1 in
        is_partition n x y c && forallb (fun i => 0 <=? get x i) (zr 0 n) &&
        forallb (fun k => Nat.leb (length (members n x k)) 2) (zr 0 c)
    | None => false
    end) (vectors [1; 2] (length (snd g))).

Lemma all_standard : forallb ok_standard graphs_le4 = true. Proof. vm_compute. reflexivity. Qed.
Lemma all_naive : forallb ok_naive graphs_le4 = true. Proof. vm_compute. reflexivity. Qed.
Lemma all_pairwise : forallb ok_pairwise graphs_le4 = true. Proof. vm_compute. reflexivity. Qed.
Definition bounded_standard := lift _ _ all_standard.
Definition bounded_naive := lift _ _ all_naive.
Definition bounded_pairwise := lift _ _ all_pairwise.
