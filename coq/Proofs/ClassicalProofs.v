(* C11: standard classical interpolation (rs_classical_interpolation_pass2, modified = false) -- identity rows at C
   points, support of F rows on the strongly connected C points, and weights that sum to one on rows with zero row
   sum (constants are interpolated exactly). *)
From Coq Require Import ZArith List Bool Lia Ring Field.
Import ListNotations.
Require Import PV.Base.Ops PV.Model.Interp.

Section P.
Variable F : Type.
Variables (r0 r1 : F) (radd rmul rsub : F -> F -> F) (ropp : F -> F) (rdiv : F -> F -> F) (rinv : F -> F).
Variables (rabs : F -> F) (reqb rleb rltb : F -> F -> bool).
Hypothesis Fth : field_theory r0 r1 radd rmul rsub ropp rdiv rinv (@eq F).
Add Field Fc : Fth.
Let o : Ops F := mkOps F r0 r1 radd rsub rmul rdiv ropp rabs reqb rleb rltb.
Notation "a + b" := (radd a b). Notation "a * b" := (rmul a b).
Notation "a - b" := (rsub a b). Notation "a / b" := (rdiv a b). Notation "- a" := (ropp a).

Variables (Ap Aj : list Z) (Ax : list F) (Sp Sj : list Z) (Sx : list F) (spl : list Z).
Variable eps15 : F.
Notation isC := (isC spl).
Notation isF := (isF spl).
Notation srange := (srange Sp).
Notation arange := (arange Ap).
Notation classical_row m := (classical_row o Ap Aj Ax Sp Sj Sx spl eps15 m).
Notation ffirst := (find_first o Ap Aj Ax).

Theorem classical_C_identity m i : isC i = true -> classical_row m i = [(cmap spl i, r1)].
Proof. intro H. unfold Interp.classical_row. rewrite H. reflexivity. Qed.

Theorem classical_F_support m i : isC i = false ->
  map fst (classical_row m i) = map (fun jj => cmap spl (gz Sj jj)) (filter (fun jj => isC (gz Sj jj)) (srange i)).
Proof. intro H. unfold Interp.classical_row. rewrite H. rewrite map_map. reflexivity. Qed.

(* ---- sums ---- *)
Fixpoint sm {A} (f : A -> F) (l : list A) : F := match l with [] => r0 | x :: t => f x + sm f t end.
Lemma fold_sm {A} (c : A -> bool) (f : A -> F) l : forall acc,
  fold_left (fun a x => if c x then a + f x else a) l acc = acc + sm (fun x => if c x then f x else r0) l.
Proof. induction l as [|x t IH]; intro acc; cbn [fold_left sm]; [ring|]. rewrite IH. destruct (c x); ring. Qed.
Lemma fold_sm_all {A} (f : A -> F) l : forall acc, fold_left (fun a x => a + f x) l acc = acc + sm f l.
Proof. induction l as [|x t IH]; intro acc; cbn [fold_left sm]; [ring|]. rewrite IH. ring. Qed.
Lemma sm_ext {A} (f g : A -> F) l : (forall x, In x l -> f x = g x) -> sm f l = sm g l.
Proof. induction l as [|x t IH]; intro H; cbn [sm]; [reflexivity|]. rewrite (H x) by (left; reflexivity). rewrite IH; [reflexivity|]. intros; apply H; right; assumption. Qed.
Lemma sm_add {A} (f g : A -> F) l : sm (fun x => f x + g x) l = sm f l + sm g l.
Proof. induction l as [|x t IH]; cbn [sm]; [ring|]. rewrite IH. ring. Qed.
Lemma sm_scale_l {A} (f : A -> F) c l : sm (fun x => c * f x) l = c * sm f l.
Proof. induction l as [|x t IH]; cbn [sm]; [ring|]. rewrite IH. ring. Qed.
Lemma sm_zero {A} (l : list A) : sm (fun _ => r0) l = r0.
Proof. induction l as [|x t IH]; cbn [sm]; [reflexivity|]. rewrite IH. ring. Qed.
Lemma sm_swap {A B} (f : A -> B -> F) (la : list A) (lb : list B) :
  sm (fun a => sm (fun b => f a b) lb) la = sm (fun b => sm (fun a => f a b) la) lb.
Proof.
  induction la as [|a ta IH]; cbn [sm].
  - rewrite sm_zero. reflexivity.
  - rewrite IH. rewrite <- sm_add. reflexivity.
Qed.
Lemma sm_filter {A} (c : A -> bool) (f : A -> F) l : sm f (filter c l) = sm (fun x => if c x then f x else r0) l.
Proof. induction l as [|x t IH]; cbn [filter sm]; [reflexivity|]. destruct (c x); cbn [sm]; rewrite IH; ring. Qed.
Lemma sm_map {A B} (g : A -> B) (f : B -> F) l : sm f (map g l) = sm (fun x => f (g x)) l.
Proof. induction l as [|x t IH]; cbn [map sm]; [reflexivity|]. rewrite IH. reflexivity. Qed.
Lemma sm_split {A} (c : A -> bool) (f : A -> F) l :
  sm f l = sm (fun x => if c x then f x else r0) l + sm (fun x => if c x then r0 else f x) l.
Proof. induction l as [|x t IH]; cbn [sm]; [ring|]. rewrite IH. destruct (c x); ring. Qed.

Section Row.
Variable i : Z.
Hypothesis HF : isC i = false.
Let Cs := filter (fun jj => isC (gz Sj jj)) (srange i).
Let fk (kk : Z) : bool := isF (gz Sj kk) && negb (gz Sj kk =? i)%Z.
(* every strongly connected node is a C point or an F point *)
Hypothesis cf_only : forall mm, In mm (srange i) -> isF (gz Sj mm) = negb (isC (gz Sj mm)).
(* inner_k: the sum of row k of A over the strongly connected C points of i *)
Definition inner (kk : Z) : F := sm (fun ll => ffirst (gz Sj kk) (gz Sj ll)) Cs.
Hypothesis inner_nz : forall kk, In kk (srange i) -> fk kk = true -> inner kk <> r0.
(* the 1e-15 filter drops no nonzero entry *)
Hypothesis no_drop : forall kk jj, In kk (srange i) -> fk kk = true -> In jj Cs ->
  rltb (eps15 * rabs (gf o Sx kk)) (rabs (ffirst (gz Sj kk) (gz Sj jj))) = true \/ ffirst (gz Sj kk) (gz Sj jj) = r0.

Definition den0 : F := sm (fun mm => gf o Ax mm) (arange i).
Definition soff : F := sm (fun mm => if (gz Sj mm =? i)%Z then r0 else gf o Sx mm) (srange i).

Lemma inner_model kk :
  fold_left (fun acc ll => let l := gz Sj ll in
      if isC l then match find (fun t => (gz Aj t =? l)%Z) (arange (gz Sj kk)) with
                    | Some t => add o acc (gf o Ax t) | None => acc end
      else acc) (srange i) (zero o) = inner kk.
Proof.
  unfold inner, Cs. rewrite sm_filter.
  assert (G : forall l acc,
    fold_left (fun acc ll => let l := gz Sj ll in
      if isC l then match find (fun t => (gz Aj t =? l)%Z) (arange (gz Sj kk)) with
                    | Some t => add o acc (gf o Ax t) | None => acc end
      else acc) l acc = acc + sm (fun ll => if isC (gz Sj ll) then ffirst (gz Sj kk) (gz Sj ll) else r0) l).
  { induction l as [|ll t IH]; intro acc; cbn [fold_left sm]; [ring|].
    rewrite IH. destruct (isC (gz Sj ll)); [|ring].
    unfold Interp.find_first. destruct (find _ _); unfold o; cbn; ring. }
  rewrite G. change (zero o) with r0. ring.
Qed.

Theorem classical_rowsum_one : den0 = r0 -> soff <> r0 ->
  sm snd (classical_row false i) = r1.
Proof.
  intros Hrow Hs. unfold Interp.classical_row. rewrite HF. fold Cs.
  rewrite sm_map. cbn [snd].
  (* denominator *)
  set (D := fold_left _ (srange i) _).
  assert (ED : D = den0 - soff).
  { unfold D, den0, soff. change (zero o) with r0.
    assert (E1 : fold_left (fun d mm => add o d (gf o Ax mm)) (arange i) r0 = r0 + sm (fun mm => gf o Ax mm) (arange i)).
    { apply (fold_sm_all (fun mm => gf o Ax mm)). }
    rewrite E1.
    assert (G : forall l acc, fold_left (fun d mm => if (gz Sj mm =? i)%Z then d else sub o d (gf o Sx mm)) l acc
                              = acc - sm (fun mm => if (gz Sj mm =? i)%Z then r0 else gf o Sx mm) l).
    { induction l as [|mm t IH]; intro acc; cbn [fold_left sm]; [ring|].
      rewrite IH. destruct (gz Sj mm =? i)%Z; unfold o; cbn; ring. }
    rewrite G. ring. }
  (* numerators *)
  set (num := fun jj : Z => gf o Sx jj + sm (fun kk => if fk kk then (gf o Sx kk * ffirst (gz Sj kk) (gz Sj jj)) / inner kk else r0) (srange i)).
  rewrite (sm_ext _ (fun jj => (- num jj) / D)).
  2:{ intros jj Hjj. change (opp o) with ropp. change (div o) with rdiv. f_equal. f_equal. unfold num.
      match goal with |- fold_left ?f _ _ = _ =>
        assert (G : forall l acc, (forall kk, In kk l -> In kk (srange i)) ->
          fold_left f l acc = acc + sm (fun kk => if fk kk then (gf o Sx kk * ffirst (gz Sj kk) (gz Sj jj)) / inner kk else r0) l)
      end.
      { induction l as [|kk t IH]; intros acc Hin; cbn [fold_left sm]; [ring|].
        rewrite IH by (intros; apply Hin; right; assumption).
        fold (fk kk). destruct (fk kk) eqn:Ek; [|ring].
        cbn [andb negb orb].
        pose proof (inner_model kk) as Ei. cbn [negb orb] in Ei.
        change (ltb o (mul o eps15 (abs o (gf o Sx kk))) (abs o (ffirst (gz Sj kk) (gz Sj jj))))
          with (rltb (eps15 * rabs (gf o Sx kk)) (rabs (ffirst (gz Sj kk) (gz Sj jj)))).
        destruct (no_drop kk jj (Hin kk (or_introl eq_refl)) Ek Hjj) as [Ht|Hz].
        - rewrite Ht. rewrite Ei. unfold o; cbn. ring.
        - destruct (rltb _ _).
          + rewrite Ei. unfold o; cbn. ring.
          + rewrite Hz. assert (Hn := inner_nz kk (Hin kk (or_introl eq_refl)) Ek). field. exact Hn. }
      rewrite (G (srange i) (gf o Sx jj) (fun _ H => H)). reflexivity. }
  (* total of the numerators = soff *)
  assert (ET : sm num Cs = soff).
  { unfold num. rewrite sm_add. rewrite sm_swap.
    assert (E2 : sm (fun kk => sm (fun jj => if fk kk then (gf o Sx kk * ffirst (gz Sj kk) (gz Sj jj)) / inner kk else r0) Cs) (srange i)
                 = sm (fun kk => if fk kk then gf o Sx kk else r0) (srange i)).
    { apply sm_ext. intros kk Hkk. destruct (fk kk) eqn:Ek; [|apply sm_zero].
      assert (Hn := inner_nz kk Hkk Ek).
      rewrite (sm_ext _ (fun jj => (gf o Sx kk / inner kk) * ffirst (gz Sj kk) (gz Sj jj))).
      2:{ intros jj _. field. exact Hn. }
      rewrite sm_scale_l. fold (inner kk). field. exact Hn. }
    rewrite E2. unfold Cs. rewrite sm_filter. rewrite <- sm_add. unfold soff.
    apply sm_ext. intros mm Hmm. unfold fk. rewrite (cf_only mm Hmm).
    destruct (isC (gz Sj mm)) eqn:Ec; cbn [negb andb].
    - destruct (Z.eqb_spec (gz Sj mm) i) as [E|E]; [rewrite E in Ec; congruence|ring].
    - destruct (gz Sj mm =? i)%Z; cbn [negb]; ring. }
  assert (HD : D <> r0). { rewrite ED, Hrow. intro H. apply Hs. transitivity (- (r0 - soff)); [ring|]. rewrite H. ring. }
  transitivity ((- sm num Cs) / D).
  - clear -Fth HD. induction Cs as [|jj t IH]; cbn [sm]; [field; exact HD|]. rewrite IH. field. exact HD.
  - rewrite ET, ED, Hrow. field. intro H. apply HD. rewrite ED, Hrow. transitivity (- soff); [ring|exact H].
Qed.
End Row.
End P.

(* the quantities of the theorem, over an [Ops] record (for the property file) *)
Definition osm {F A} (o : Ops F) (f : A -> F) (l : list A) : F := sm F (zero o) (add o) f l.
Definition cl_Cs (Sp Sj spl : list Z) (i : Z) : list Z := filter (fun jj => isC spl (gz Sj jj)) (srange Sp i).
Definition cl_isFk (Sj spl : list Z) (i kk : Z) : bool := isF spl (gz Sj kk) && negb (gz Sj kk =? i)%Z.
Definition cl_inner {F} (o : Ops F) Ap Aj Ax Sp Sj spl (i kk : Z) : F :=
  osm o (fun ll => find_first o Ap Aj Ax (gz Sj kk) (gz Sj ll)) (cl_Cs Sp Sj spl i).
Definition cl_rowsum {F} (o : Ops F) Ap (Ax : list F) (i : Z) : F := osm o (fun mm => gf o Ax mm) (arange Ap i).
Definition cl_strong_offdiag {F} (o : Ops F) Sp Sj (Sx : list F) (i : Z) : F :=
  osm o (fun mm => if (gz Sj mm =? i)%Z then zero o else gf o Sx mm) (srange Sp i).
