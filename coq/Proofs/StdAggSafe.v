(* C17, unbounded: the bounds-checked standard aggregation (three passes, -n sentinel, ids shifted in
   place, y written at next_aggregate-1 in pass 1 and at next_aggregate in pass 3) never leaves Ap,
   Aj, x[0..n), y[0..n) on ANY structurally valid CSR graph -- symmetric or not -- and returns what
   the unchecked model returns.  Key invariant: the roots recorded in y are pairwise distinct
   vertices, and a vertex that opens an aggregate in pass 3 is none of them, so the number of
   aggregates stays below n whenever y is written. *)
From Coq Require Import ZArith List Bool Lia.
Import ListNotations.
Require Import PV.Model.GraphAlg PV.Model.Aggregate PV.Model.SplitChk PV.Model.AggChk.
Require Import PV.Proofs.NaiveAggProofs PV.Proofs.NaiveAggSafe.
Open Scope Z_scope.

Section S.
Variables (N : nat) (Ap Aj : list Z).
Let n := Z.of_nat N.
Hypothesis Ap_len : length Ap = S N.
Hypothesis Ap_mono : forall i, 0 <= i < n -> 0 <= get Ap i <= get Ap (i + 1) /\ get Ap (i + 1) <= Z.of_nat (length Aj).
Hypothesis cols_in_range : forall i, 0 <= i < n -> forall j, In j (nbrs Ap Aj i) -> 0 <= j < n.

Definition inr (l : list Z) : Prop := forall j, In j l -> 0 <= j < n.

(* ---- small folds ---- *)
Lemma setall_chk v : forall row x, length x = N -> inr row ->
  ofold (fun x j => cset x j v) row x = Some (fold_left (fun x j => set x j v) row x).
Proof.
  induction row as [|j row IH]; intros x Hl Hr; cbn [ofold fold_left]; [reflexivity|].
  rewrite cset_set by (rewrite Hl; apply Hr; left; reflexivity). cbn [obind].
  apply IH; [rewrite length_set; exact Hl|intros k Hk; apply Hr; right; exact Hk].
Qed.
Lemma setall_spec v : v <> 0 -> forall row x, length x = N ->
  let x' := fold_left (fun x j => set x j v) row x in
  length x' = N /\ (forall k, 0 <= k -> get x k <> 0 -> get x' k <> 0).
Proof.
  intros Hv. induction row as [|j row IH]; intros x Hl; cbn [fold_left]; [split; auto|].
  destruct (IH (set x j v) ltac:(rewrite length_set; exact Hl)) as [L K]. split; [exact L|].
  intros k Hk Hx. apply K; [exact Hk|].
  destruct (Z.eq_dec j k) as [->|Hne].
  - destruct (Z_lt_dec k (Z.of_nat (length x))).
    + rewrite get_set_same by lia. exact Hv.
    + unfold set. destruct (k <? 0); [exact Hx|]. unfold get in *.
      rewrite nth_overflow in Hx by lia. contradiction.
  - destruct (Z_lt_dec j 0).
    + unfold set. destruct (Z.ltb_spec j 0); [exact Hx|lia].
    + rewrite get_set_other by lia. exact Hx.
Qed.
Lemma grab_keep next : forall row x, length x = N ->
  let x' := grab next x row in
  length x' = N /\ (forall k, 0 <= k -> get x k <> 0 -> get x' k = get x k).
Proof.
  induction row as [|j row IH]; intros x Hl; cbn [grab fold_left]; [split; auto|].
  fold (grab next (if get x j =? 0 then set x j next else x) row).
  destruct (Z.eqb_spec (get x j) 0) as [E|E].
  - destruct (IH (set x j next) ltac:(rewrite length_set; exact Hl)) as [L K]. split; [exact L|].
    intros k Hk Hx. assert (j <> k) by (intro; subst; contradiction).
    destruct (Z_lt_dec j 0).
    + unfold set in *. destruct (Z.ltb_spec j 0); [|lia]. apply K; assumption.
    + rewrite K; [apply get_set_other; lia|exact Hk|rewrite get_set_other by lia; exact Hx].
  - apply IH. exact Hl.
Qed.

(* ---- pass 1 ---- *)
Definition Qp (i j : Z) : bool := negb (i =? j).
Definition Pp (x : list Z) (i j : Z) : bool := negb (i =? j) && negb (get x j =? 0).
Definition scanf (x : list Z) (i : Z) (f : bool * bool) (j : Z) : option (bool * bool) :=
  if snd f then Some f else if i =? j then Some f else obind (cget x j) (fun xj => Some (true, negb (xj =? 0))).
Lemma scan_true x i : forall row, ofold (scanf x i) row (true, true) = Some (true, true).
Proof. induction row as [|j row IH]; cbn [ofold]; [reflexivity|]. unfold scanf at 1. cbn [snd obind]. exact IH. Qed.
Lemma scan_ok x i : length x = N -> forall row nb, inr row ->
  ofold (scanf x i) row (nb, false) = Some (nb || existsb (Qp i) row, existsb (Pp x i) row).
Proof.
  intro Hl. induction row as [|j row IH]; intros nb Hr; cbn [ofold existsb]; [rewrite orb_false_r; reflexivity|].
  assert (Hr' : inr row) by (intros k Hk; apply Hr; right; exact Hk).
  unfold scanf at 1. cbn [snd]. unfold Qp at 1, Pp at 1.
  destruct (Z.eqb_spec i j) as [E|E]; cbn [negb andb orb obind].
  - rewrite IH by exact Hr'. reflexivity.
  - rewrite cget_get by (rewrite Hl; apply Hr; left; reflexivity). cbn [obind].
    destruct (get x j =? 0); cbn [negb].
    + rewrite IH by exact Hr'. rewrite orb_true_r. cbn [orb]. reflexivity.
    + rewrite scan_true. rewrite orb_true_r. reflexivity.
Qed.

Definition step1 (s : list Z * list Z * Z) (i : Z) : list Z * list Z * Z :=
  let '(x, y, next) := s in
  if negb (get x i =? 0) then s
  else
    let row := nbrs Ap Aj i in
    let has_nb := existsb (fun j => negb (i =? j)) row in
    let has_agg := existsb (fun j => negb (i =? j) && negb (get x j =? 0)) row in
    if negb has_nb then (set x i (- n), y, next)
    else if negb has_agg then
      (fold_left (fun x j => set x j next) row (set x i next), set y (next - 1) i, next + 1)
    else s.
Definition step1_chk (s : list Z * list Z * Z) (i : Z) : option (list Z * list Z * Z) :=
  let '(x, y, next) := s in
  obind (cget x i) (fun xi =>
  if negb (xi =? 0) then Some s
  else obind (nbrs_chk Ap Aj i) (fun row =>
       obind (ofold (fun (f : bool * bool) j =>
                  if snd f then Some f
                  else if i =? j then Some f
                  else obind (cget x j) (fun xj => Some (true, negb (xj =? 0)))) row (false, false)) (fun scan =>
       let '(has_nb, has_agg) := scan in
       if negb has_nb then obind (cset x i (- n)) (fun x' => Some (x', y, next))
       else if negb has_agg then
         obind (cset x i next) (fun x1 =>
         obind (cset y (next - 1) i) (fun y' =>
         obind (ofold (fun x j => cset x j next) row x1) (fun x2 => Some (x2, y', next + 1))))
       else Some s))).

(* roots: the vertices recorded in y so far *)
Record I1 (m : nat) (x y : list Z) (next : Z) (roots : list Z) : Prop := {
  a_lx : length x = N; a_ly : length y = N;
  a_next : 1 <= next <= Z.of_nat m + 1;
  a_len : Z.of_nat (length roots) = next - 1;
  a_nd : NoDup roots;
  a_in : forall r, In r roots -> 0 <= r < Z.of_nat m;
  a_nz : forall r, In r roots -> get x r <> 0
}.
Lemma step1_ok m x y next roots : (m < N)%nat -> I1 m x y next roots ->
  step1_chk (x, y, next) (Z.of_nat m) = Some (step1 (x, y, next) (Z.of_nat m)) /\
  let '(x', y', next') := step1 (x, y, next) (Z.of_nat m) in exists roots', I1 (S m) x' y' next' roots'.
Proof.
  intros Hm I. destruct I as [Lx Ly Hn Hlen Nd Rin Rnz].
  assert (Hmn : 0 <= Z.of_nat m < n) by (unfold n; lia).
  assert (Hrow : inr (nbrs Ap Aj (Z.of_nat m))) by (exact (cols_in_range _ Hmn)).
  unfold step1_chk, step1.
  rewrite cget_get by (rewrite Lx; lia). cbn [obind].
  destruct (Z.eqb_spec (get x (Z.of_nat m)) 0) as [E|E]; cbn [negb].
  2:{ split; [reflexivity|]. exists roots. constructor; auto; try lia. intros r Hr. specialize (Rin r Hr). lia. }
  unfold nbrs_chk. rewrite (row_chk_nbrs N Ap Aj Ap_len Ap_mono) by exact Hmn. cbn [obind].
  change (fun (f : bool * bool) j => if snd f then Some f else if Z.of_nat m =? j then Some f
            else obind (cget x j) (fun xj => Some (true, negb (xj =? 0)))) with (scanf x (Z.of_nat m)).
  rewrite scan_ok by assumption. cbn [orb obind].
  change (existsb (Qp (Z.of_nat m)) (nbrs Ap Aj (Z.of_nat m))) with (existsb (fun j => negb (Z.of_nat m =? j)) (nbrs Ap Aj (Z.of_nat m))).
  change (existsb (Pp x (Z.of_nat m)) (nbrs Ap Aj (Z.of_nat m))) with (existsb (fun j => negb (Z.of_nat m =? j) && negb (get x j =? 0)) (nbrs Ap Aj (Z.of_nat m))).
  destruct (existsb (fun j => negb (Z.of_nat m =? j)) (nbrs Ap Aj (Z.of_nat m))); cbn [negb].
  2:{ rewrite cset_set by (rewrite Lx; lia). cbn [obind]. split; [reflexivity|].
      exists roots. constructor; auto; try lia.
      - rewrite length_set; exact Lx.
      - intros r Hr. specialize (Rin r Hr). lia.
      - intros r Hr. specialize (Rin r Hr). rewrite get_set_other by lia. apply Rnz; exact Hr. }
  destruct (existsb (fun j => negb (Z.of_nat m =? j) && negb (get x j =? 0)) (nbrs Ap Aj (Z.of_nat m))); cbn [negb].
  { split; [reflexivity|]. exists roots. constructor; auto; try lia. intros r Hr. specialize (Rin r Hr). lia. }
  rewrite cset_set by (rewrite Lx; lia). cbn [obind].
  rewrite cset_set by (rewrite Ly; lia). cbn [obind].
  rewrite setall_chk; [|rewrite length_set; exact Lx|exact Hrow]. cbn [obind]. split; [reflexivity|].
  assert (Hnz : next <> 0) by lia.
  destruct (setall_spec next Hnz (nbrs Ap Aj (Z.of_nat m)) (set x (Z.of_nat m) next) ltac:(rewrite length_set; exact Lx)) as [L K].
  exists (Z.of_nat m :: roots). constructor.
  - exact L.
  - rewrite length_set; exact Ly.
  - lia.
  - cbn [length]. lia.
  - constructor; [|exact Nd]. intro Hin. specialize (Rin _ Hin). lia.
  - intros r [<-|Hr]; [lia|]. specialize (Rin r Hr). lia.
  - intros r [<-|Hr].
    + apply K; [lia|]. rewrite get_set_same by (rewrite Lx; lia). exact Hnz.
    + specialize (Rin r Hr). apply K; [lia|]. rewrite get_set_other by lia. apply Rnz; exact Hr.
Qed.
Lemma fold1 : forall (k m : nat) x y next roots, (m + k <= N)%nat -> I1 m x y next roots ->
  ofold step1_chk (map Z.of_nat (seq m k)) (x, y, next) = Some (fold_left step1 (map Z.of_nat (seq m k)) (x, y, next)) /\
  let '(x', y', next') := fold_left step1 (map Z.of_nat (seq m k)) (x, y, next) in exists roots', I1 (m + k) x' y' next' roots'.
Proof.
  induction k as [|k IH]; intros m x y next roots Hb I; cbn [seq map ofold fold_left].
  - split; [reflexivity|]. rewrite Nat.add_0_r. exists roots; exact I.
  - destruct (step1_ok m x y next roots ltac:(lia) I) as [E S1]. rewrite E. cbn [obind].
    destruct (step1 (x, y, next) (Z.of_nat m)) as [[x1 y1] next1]. destruct S1 as [roots1 I'].
    replace (m + S k)%nat with (S m + k)%nat by lia. apply (IH (S m) x1 y1 next1 roots1); [lia|exact I'].
Qed.

(* ---- pass 2 ---- *)
Definition findf (x : list Z) (f : option Z) (j : Z) : option (option Z) :=
  match f with Some _ => Some f | None => obind (cget x j) (fun xj => Some (if 0 <? xj then Some xj else None)) end.
Lemma find_some x v : forall row, ofold (findf x) row (Some v) = Some (Some v).
Proof. induction row as [|j row IH]; cbn [ofold]; [reflexivity|]. cbn [findf obind]. exact IH. Qed.
Lemma find_ok x : length x = N -> forall row, inr row ->
  ofold (findf x) row None = Some (option_map (get x) (find (fun j => 0 <? get x j) row)).
Proof.
  intro Hl. induction row as [|j row IH]; intro Hr; cbn [ofold find]; [reflexivity|].
  cbn [findf]. rewrite cget_get by (rewrite Hl; apply Hr; left; reflexivity). cbn [obind].
  destruct (0 <? get x j).
  - rewrite find_some. reflexivity.
  - apply IH. intros k Hk; apply Hr; right; exact Hk.
Qed.
Definition step2 (x : list Z) (i : Z) : list Z :=
  if negb (get x i =? 0) then x
  else match find (fun j => 0 <? get x j) (nbrs Ap Aj i) with
       | Some j => set x i (- get x j)
       | None => x
       end.
Definition step2_chk (x : list Z) (i : Z) : option (list Z) :=
  obind (cget x i) (fun xi =>
  if negb (xi =? 0) then Some x
  else obind (nbrs_chk Ap Aj i) (fun row =>
       obind (ofold (fun (f : option Z) j => match f with Some _ => Some f | None =>
                obind (cget x j) (fun xj => Some (if 0 <? xj then Some xj else None)) end) row None) (fun r =>
       match r with Some xj => cset x i (- xj) | None => Some x end))).
(* pass 2 keeps the length and never turns a nonzero entry into zero *)
Definition mono (x x' : list Z) : Prop := length x' = N /\ forall k, 0 <= k -> get x k <> 0 -> get x' k <> 0.
Lemma step2_ok x i : length x = N -> 0 <= i < n ->
  step2_chk x i = Some (step2 x i) /\ mono x (step2 x i).
Proof.
  intros Hl Hi. unfold step2_chk, step2.
  rewrite cget_get by (rewrite Hl; unfold n in *; lia). cbn [obind].
  destruct (Z.eqb_spec (get x i) 0) as [E|E]; cbn [negb]; [|split; [reflexivity|split; auto]].
  unfold nbrs_chk. rewrite (row_chk_nbrs N Ap Aj Ap_len Ap_mono) by exact Hi. cbn [obind].
  change (fun (f : option Z) j => match f with Some _ => Some f | None =>
            obind (cget x j) (fun xj => Some (if 0 <? xj then Some xj else None)) end) with (findf x).
  rewrite find_ok; [|exact Hl|exact (cols_in_range _ Hi)]. cbn [obind].
  destruct (find (fun j => 0 <? get x j) (nbrs Ap Aj i)) as [j|] eqn:F; cbn [option_map].
  - rewrite cset_set by (rewrite Hl; unfold n in *; lia). split; [reflexivity|].
    split; [rewrite length_set; exact Hl|]. intros k Hk Hx. assert (i <> k) by (intro; subst; contradiction).
    rewrite get_set_other by lia. exact Hx.
  - split; [reflexivity|split; auto].
Qed.
Lemma fold2 : forall (l : list Z) x, length x = N -> inr l ->
  ofold step2_chk l x = Some (fold_left step2 l x) /\ mono x (fold_left step2 l x).
Proof.
  induction l as [|i l IH]; intros x Hl Hr; cbn [ofold fold_left]; [split; [reflexivity|split; auto]|].
  destruct (step2_ok x i Hl (Hr i (or_introl eq_refl))) as [E [L K]]. rewrite E. cbn [obind].
  destruct (IH (step2 x i) L (fun k Hk => Hr k (or_intror Hk))) as [E' [L' K']]. split; [exact E'|].
  split; [exact L'|]. intros k Hk Hx. apply K'; [exact Hk|apply K; assumption].
Qed.

(* ---- pass 3 ---- *)
Definition conv (xi : Z) : Z := if 0 <? xi then xi - 1 else if xi =? - n then -1 else - xi - 1.
Definition step3 (s : list Z * list Z * Z) (i : Z) : list Z * list Z * Z :=
  let '(x, y, next) := s in
  let xi := get x i in
  if negb (xi =? 0) then (set x i (conv xi), y, next)
  else (fold_left (fun x j => if get x j =? 0 then set x j next else x) (nbrs Ap Aj i) (set x i next), set y next i, next + 1).
Definition step3_chk (s : list Z * list Z * Z) (i : Z) : option (list Z * list Z * Z) :=
  let '(x, y, next) := s in
  obind (cget x i) (fun xi =>
  if negb (xi =? 0) then obind (cset x i (conv xi)) (fun x' => Some (x', y, next))
  else obind (nbrs_chk Ap Aj i) (fun row =>
       obind (cset x i next) (fun x1 =>
       obind (cset y next i) (fun y' =>
       obind (ofold (fun x j => obind (cget x j) (fun xj => if xj =? 0 then cset x j next else Some x)) row x1) (fun x2 =>
       Some (x2, y', next + 1)))))).
Record I3 (m : nat) (x y : list Z) (next : Z) (roots : list Z) : Prop := {
  c_lx : length x = N; c_ly : length y = N;
  c_len : Z.of_nat (length roots) = next;
  c_nd : NoDup roots;
  c_in : forall r, In r roots -> 0 <= r < n;
  c_nz : forall r, In r roots -> Z.of_nat m <= r -> get x r <> 0
}.
Lemma nodup_bound (l : list Z) : NoDup l -> (forall r, In r l -> 0 <= r < n) -> (length l <= N)%nat.
Proof.
  intros Nd Hin. assert (H : incl l (map Z.of_nat (seq 0 N))).
  { intros r Hr. specialize (Hin r Hr). apply in_map_iff. exists (Z.to_nat r). split; [lia|apply in_seq; unfold n in *; lia]. }
  pose proof (NoDup_incl_length Nd H) as B. rewrite map_length, seq_length in B. exact B.
Qed.
Lemma step3_ok m x y next roots : (m < N)%nat -> I3 m x y next roots ->
  step3_chk (x, y, next) (Z.of_nat m) = Some (step3 (x, y, next) (Z.of_nat m)) /\
  let '(x', y', next') := step3 (x, y, next) (Z.of_nat m) in exists roots', I3 (S m) x' y' next' roots'.
Proof.
  intros Hm I. destruct I as [Lx Ly Hlen Nd Rin Rnz].
  assert (Hmn : 0 <= Z.of_nat m < n) by (unfold n; lia).
  unfold step3_chk, step3.
  rewrite cget_get by (rewrite Lx; lia). cbn [obind].
  destruct (Z.eqb_spec (get x (Z.of_nat m)) 0) as [E|E]; cbn [negb].
  - (* a new aggregate in pass 3: m is not a recorded root, so fewer than n roots exist *)
    assert (Hnot : ~ In (Z.of_nat m) roots) by (intro Hin; apply (Rnz _ Hin); [lia|exact E]).
    assert (Nd' : NoDup (Z.of_nat m :: roots)) by (constructor; assumption).
    assert (Hb : (length (Z.of_nat m :: roots) <= N)%nat).
    { apply nodup_bound; [exact Nd'|]. intros r [<-|Hr]; [exact Hmn|apply Rin; exact Hr]. }
    cbn [length] in Hb.
    unfold nbrs_chk. rewrite (row_chk_nbrs N Ap Aj Ap_len Ap_mono) by exact Hmn. cbn [obind].
    rewrite cset_set by (rewrite Lx; lia). cbn [obind].
    rewrite cset_set by (rewrite Ly; lia). cbn [obind].
    rewrite (grab_chk N Ap Ap_len); [|rewrite length_set; exact Lx|exact (cols_in_range _ Hmn)]. cbn [obind].
    split; [reflexivity|].
    destruct (grab_keep next (nbrs Ap Aj (Z.of_nat m)) (set x (Z.of_nat m) next) ltac:(rewrite length_set; exact Lx)) as [L K].
    exists (Z.of_nat m :: roots). constructor.
    + exact L.
    + rewrite length_set; exact Ly.
    + cbn [length]. lia.
    + exact Nd'.
    + intros r [<-|Hr]; [exact Hmn|apply Rin; exact Hr].
    + intros r [<-|Hr] Hge; [lia|].
      assert (Hr0 : 0 <= r < n) by (apply Rin; exact Hr).
      assert (Hx : get x r <> 0) by (apply Rnz; [exact Hr|lia]).
      change (fold_left (fun x j => if get x j =? 0 then set x j next else x) (nbrs Ap Aj (Z.of_nat m)) (set x (Z.of_nat m) next))
        with (grab next (set x (Z.of_nat m) next) (nbrs Ap Aj (Z.of_nat m))).
      rewrite K; [rewrite get_set_other by lia; exact Hx|lia|rewrite get_set_other by lia; exact Hx].
  - rewrite cset_set by (rewrite Lx; lia). cbn [obind]. split; [reflexivity|].
    exists roots. constructor; auto.
    + rewrite length_set; exact Lx.
    + intros r Hr Hge. assert (0 <= r < n) by (apply Rin; exact Hr).
      rewrite get_set_other by lia. apply Rnz; [exact Hr|lia].
Qed.
Lemma fold3 : forall (k m : nat) x y next roots, (m + k <= N)%nat -> I3 m x y next roots ->
  ofold step3_chk (map Z.of_nat (seq m k)) (x, y, next) = Some (fold_left step3 (map Z.of_nat (seq m k)) (x, y, next)).
Proof.
  induction k as [|k IH]; intros m x y next roots Hb I; cbn [seq map ofold fold_left]; [reflexivity|].
  destruct (step3_ok m x y next roots ltac:(lia) I) as [E S1]. rewrite E. cbn [obind].
  destruct (step3 (x, y, next) (Z.of_nat m)) as [[x1 y1] next1]. destruct S1 as [roots1 I'].
  apply (IH (S m) x1 y1 next1 roots1); [lia|exact I'].
Qed.

Theorem standard_aggregation_safe (y0 : list Z) : length y0 = N ->
  standard_aggregation_chk n Ap Aj y0 = Some (standard_aggregation n Ap Aj y0).
Proof.
  intro Hy. unfold standard_aggregation_chk, standard_aggregation, std_pass1_chk, std_pass1, std_pass2_chk, std_pass2, std_pass3_chk, std_pass3.
  assert (I0 : I1 0 (fillz n 0) y0 1 []).
  { constructor; try (intros r []).
    - apply length_fillz.
    - exact Hy.
    - lia.
    - reflexivity.
    - constructor. }
  destruct (fold1 N 0 (fillz n 0) y0 1 [] ltac:(lia) I0) as [E1 S1].
  rewrite <- !(zr_seq N) in E1. rewrite <- (zr_seq N) in S1. fold n in E1, S1.
  change (ofold _ (zr 0 n) (fillz n 0, y0, 1)) with (ofold step1_chk (zr 0 n) (fillz n 0, y0, 1)).
  rewrite E1. cbn [obind].
  change (fold_left _ (zr 0 n) (fillz n 0, y0, 1)) with (fold_left step1 (zr 0 n) (fillz n 0, y0, 1)).
  destruct (fold_left step1 (zr 0 n) (fillz n 0, y0, 1)) as [[x1 y1] next1]. cbn [Nat.add] in S1.
  destruct S1 as [roots1 [Lx Ly Hn Hlen Nd Rin Rnz]].
  assert (Hzr : inr (zr 0 n)) by (intros k Hk; apply in_zr in Hk; exact Hk).
  destruct (fold2 (zr 0 n) x1 Lx Hzr) as [E2 [L2 K2]].
  change (ofold _ (zr 0 n) x1) with (ofold step2_chk (zr 0 n) x1). rewrite E2. cbn [obind].
  change (fold_left _ (zr 0 n) x1) with (fold_left step2 (zr 0 n) x1).
  assert (I3_0 : I3 0 (fold_left step2 (zr 0 n) x1) y1 (next1 - 1) roots1).
  { constructor.
    - exact L2.
    - exact Ly.
    - exact Hlen.
    - exact Nd.
    - intros r Hr. specialize (Rin r Hr). unfold n; lia.
    - intros r Hr _. specialize (Rin r Hr). apply K2; [lia|apply Rnz; exact Hr]. }
  pose proof (fold3 N 0 _ y1 (next1 - 1) roots1 ltac:(lia) I3_0) as E3.
  rewrite <- !(zr_seq N) in E3. fold n in E3.
  change (ofold _ (zr 0 n) (fold_left step2 (zr 0 n) x1, y1, next1 - 1))
    with (ofold step3_chk (zr 0 n) (fold_left step2 (zr 0 n) x1, y1, next1 - 1)).
  rewrite E3. reflexivity.
Qed.
End S.
