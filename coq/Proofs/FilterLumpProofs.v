(* C19: filter_matrix_rows WITH lumping, one row that stores its diagonal: every off-diagonal entry with
   |a| < theta |a_ii| is set to zero and added to the diagonal, every other entry is kept; hence the row sum is
   preserved.  Any field, any comparison/abs. *)
From Coq Require Import ZArith List Bool Lia Ring Field FinFun.
Import ListNotations.
Require Import PV.Base.Ops PV.Model.Utils PV.Proofs.UtilsProofs.
Open Scope Z_scope.

Section L.
Variable F : Type.
Variables (r0 r1 : F) (radd rmul rsub : F -> F -> F) (ropp : F -> F) (rdiv : F -> F -> F) (rinv : F -> F).
Variables (rabs : F -> F) (reqb rleb rltb : F -> F -> bool).
Hypothesis Fth : field_theory r0 r1 radd rmul rsub ropp rdiv rinv (@eq F).
Add Field Fl : Fth.
Let o : Ops F := mkOps F r0 r1 radd rsub rmul rdiv ropp rabs reqb rleb rltb.
Notation gv := (gV o).
Notation "a +f b" := (radd a b) (at level 50, left associativity).

Variables (theta : F) (Ap Aj : list Z) (ax : list F) (i d : Z).
Let lo := gI Ap i.
Let hi := gI Ap (i + 1).
Hypothesis Hlo : 0 <= lo.
Hypothesis Hhi : lo <= hi <= Z.of_nat (length ax).
Hypothesis Hd : find (fun jj => gI Aj jj =? i) (zrange lo hi) = Some d.
Let thr : F := rmul theta (rabs (gv ax d)).
Definition removed (jj : Z) : bool := rltb (rabs (gv ax jj)) thr && negb (gI Aj jj =? i).
Fixpoint sumz (f : Z -> F) (l : list Z) : F := match l with [] => r0 | j :: t => f j +f sumz f t end.
Lemma sumz_snoc f l j : sumz f (l ++ [j]) = sumz f l +f f j.
Proof. induction l as [|k t IH]; cbn [app sumz]; [ring|]. rewrite IH. ring. Qed.

Lemma d_in : lo <= d < hi /\ gI Aj d = i.
Proof. apply find_some in Hd. destruct Hd as [H1 H2]. apply in_zrange in H1. split; [exact H1|]. apply Z.eqb_eq. exact H2. Qed.

Lemma zseq_S a (k : nat) : zseq a (S k) = zseq a k ++ [a + Z.of_nat k].
Proof. unfold zseq. rewrite seq_S, map_app. reflexivity. Qed.

Lemma lump_fold : forall (k : nat), lo + Z.of_nat k <= hi ->
  let st := fold_left (fun ax jj =>
      if ltb o (abs o (gv ax jj)) thr && (negb true || negb (gI Aj jj =? i)) then
        updZ (updZ ax d (add o (gv ax d) (gv ax jj))) jj (zero o)
      else ax) (zseq lo k) ax in
  length st = length ax /\
  (forall jj, lo <= jj < lo + Z.of_nat k -> jj <> d -> gv st jj = if removed jj then r0 else gv ax jj) /\
  (forall jj, 0 <= jj -> ~ (lo <= jj < lo + Z.of_nat k) -> jj <> d -> gv st jj = gv ax jj) /\
  gv st d = gv ax d +f sumz (fun jj => if removed jj then gv ax jj else r0) (zseq lo k).
Proof.
  destruct d_in as [Din Dj].
  induction k as [|k IH]; intro Hk.
  - cbn [zseq seq map fold_left sumz]. split; [reflexivity|]. split; [intros jj H; lia|]. split; [intros jj _ _ _; reflexivity|]. ring.
  - rewrite zseq_S, fold_left_app. cbn [fold_left].
    destruct (IH ltac:(lia)) as (L & A & B & D). clear IH.
    set (st := fold_left _ (zseq lo k) ax) in *.
    set (jj := lo + Z.of_nat k).
    cbn [negb orb].
    destruct (Z.eq_dec jj d) as [Ejd|Ejd].
    + (* the diagonal position itself: never removed *)
      assert (C0 : (gI Aj jj =? i) = true) by (rewrite Ejd; apply Z.eqb_eq; exact Dj).
      rewrite C0. cbn [negb]. rewrite andb_false_r.
      assert (R0 : removed jj = false) by (unfold removed; rewrite C0; cbn [negb]; apply andb_false_r).
      repeat split.
      * exact L.
      * intros q Hq Hne. apply A; [|exact Hne]. unfold jj in Ejd. lia.
      * intros q Hq Hn Hne. apply B; [exact Hq| |exact Hne]. lia.
      * rewrite D, sumz_snoc. fold jj. rewrite R0. ring.
    + assert (Cur : gv st jj = gv ax jj) by (apply B; unfold jj; [lia|lia|exact Ejd]).
      change (ltb o (abs o (gv st jj)) thr) with (rltb (rabs (gv st jj)) thr). rewrite Cur.
      fold (removed jj). destruct (removed jj) eqn:Rj.
      * assert (Ld : 0 <= d < Z.of_nat (length st)) by (rewrite L; lia).
        assert (Lj : forall v, 0 <= jj < Z.of_nat (length (updZ st d v))) by (intro v; rewrite length_updZ, L; unfold jj; lia).
        repeat split.
        -- rewrite !length_updZ. exact L.
        -- intros q Hq Hne. destruct (Z.eq_dec q jj) as [->|Hqj].
           ++ unfold gV. rewrite nthZ_updZ_same by apply Lj. rewrite Rj. reflexivity.
           ++ unfold gV. rewrite nthZ_updZ_other by (unfold jj; lia). rewrite nthZ_updZ_other by lia.
              apply A; [unfold jj in *; lia|exact Hne].
        -- intros q Hq Hn Hne. unfold gV. rewrite nthZ_updZ_other by (unfold jj in *; lia). rewrite nthZ_updZ_other by lia.
           apply B; [exact Hq|unfold jj in *; lia|exact Hne].
        -- unfold gV at 1. rewrite nthZ_updZ_other by (unfold jj; lia). rewrite nthZ_updZ_same by exact Ld.
           fold (gv st d). fold (gv ax jj). rewrite D, sumz_snoc. fold jj. rewrite Rj. unfold o; cbn. ring.
      * repeat split.
        -- exact L.
        -- intros q Hq Hne. destruct (Z.eq_dec q jj) as [->|Hqj]; [rewrite Rj; exact Cur|]. apply A; [unfold jj in *; lia|exact Hne].
        -- intros q Hq Hn Hne. apply B; [exact Hq|unfold jj in *; lia|exact Hne].
        -- rewrite D, sumz_snoc. fold jj. rewrite Rj. ring.
Qed.

Theorem filter_row_lump_spec :
  let ax' := filter_row o theta true Ap Aj ax i in
  length ax' = length ax /\
  (forall jj, lo <= jj < hi -> jj <> d -> gv ax' jj = if removed jj then r0 else gv ax jj) /\
  (forall jj, 0 <= jj -> ~ (lo <= jj < hi) -> gv ax' jj = gv ax jj) /\
  gv ax' d = gv ax d +f sumz (fun jj => if removed jj then gv ax jj else r0) (zrange lo hi) /\
  sumz (gv ax') (zrange lo hi) = sumz (gv ax) (zrange lo hi).
Proof.
  destruct d_in as [Din Dj].
  assert (Dne : (d =? -1) = false) by (apply Z.eqb_neq; lia).
  unfold filter_row. fold lo. fold hi. rewrite Hd, Dne. fold thr.
  unfold zrange.
  destruct (lump_fold (Z.to_nat (hi - lo)) ltac:(lia)) as (L & A & B & D).
  set (st := fold_left _ (zseq lo (Z.to_nat (hi - lo))) ax) in *.
  assert (E : lo + Z.of_nat (Z.to_nat (hi - lo)) = hi) by lia. rewrite E in *.
  split; [exact L|]. split; [exact A|]. split; [intros jj H0 Hn; apply B; [exact H0|exact Hn|lia]|]. split; [exact D|].
  (* row sum: split every list sum into the diagonal position and the rest *)
  fold (zrange lo hi) in *.
  assert (G : forall l, NoDup l -> (forall q, In q l -> lo <= q < hi) ->
    sumz (gv st) l = (if in_dec Z.eq_dec d l then gv st d else r0) +f
                     sumz (fun q => if Z.eq_dec q d then r0 else if removed q then r0 else gv ax q) l).
  { induction l as [|q t IH]; intros Nd Hin; cbn [sumz]; [destruct (in_dec Z.eq_dec d []); [contradiction|ring]|].
    inversion Nd as [|? ? Hnot Nd']; subst. rewrite (IH Nd' (fun z Hz => Hin z (or_intror Hz))).
    destruct (Z.eq_dec q d) as [->|Hne].
    - destruct (in_dec Z.eq_dec d (d :: t)) as [_|N]; [|exfalso; apply N; left; reflexivity].
      destruct (in_dec Z.eq_dec d t) as [I|_]; [contradiction|]. ring.
    - rewrite (A q (Hin q (or_introl eq_refl)) Hne).
      destruct (in_dec Z.eq_dec d (q :: t)) as [I|N]; destruct (in_dec Z.eq_dec d t) as [I'|N'].
      + ring.
      + destruct I as [I|I]; [congruence|contradiction].
      + exfalso. apply N. right. exact I'.
      + ring. }
  assert (G0 : forall l, NoDup l -> 
    sumz (gv ax) l = (if in_dec Z.eq_dec d l then gv ax d else r0) +f
                     sumz (fun q => if Z.eq_dec q d then r0 else gv ax q) l).
  { induction l as [|q t IH]; intros Nd; cbn [sumz]; [destruct (in_dec Z.eq_dec d []); [contradiction|ring]|].
    inversion Nd as [|? ? Hnot Nd']; subst. rewrite (IH Nd').
    destruct (Z.eq_dec q d) as [->|Hne].
    - destruct (in_dec Z.eq_dec d (d :: t)) as [_|N]; [|exfalso; apply N; left; reflexivity].
      destruct (in_dec Z.eq_dec d t) as [I|_]; [contradiction|]. ring.
    - destruct (in_dec Z.eq_dec d (q :: t)) as [I|N]; destruct (in_dec Z.eq_dec d t) as [I'|N'].
      + ring.
      + destruct I as [I|I]; [congruence|contradiction].
      + exfalso. apply N. right. exact I'.
      + ring. }
  assert (Nd : NoDup (zrange lo hi)).
  { unfold zrange, zseq. apply FinFun.Injective_map_NoDup; [intros a b H; lia|apply seq_NoDup]. }
  assert (Inr : forall q, In q (zrange lo hi) -> lo <= q < hi) by (intros q Hq; apply in_zrange; exact Hq).
  assert (Id : In d (zrange lo hi)) by (apply in_zrange; exact Din).
  rewrite (G _ Nd Inr), (G0 _ Nd).
  destruct (in_dec Z.eq_dec d (zrange lo hi)) as [_|N]; [|contradiction].
  rewrite D.
  (* sum of removed + sum of kept = sum of all off-diagonal entries *)
  assert (S3 : forall l, sumz (fun jj => if removed jj then gv ax jj else r0) l +f
                         sumz (fun q => if Z.eq_dec q d then r0 else if removed q then r0 else gv ax q) l
                         = sumz (fun q => if Z.eq_dec q d then r0 else gv ax q) l).
  { induction l as [|q t IH]; cbn [sumz]; [ring|].
    transitivity ((if removed q then gv ax q else r0) +f (if Z.eq_dec q d then r0 else if removed q then r0 else gv ax q)
                  +f (sumz (fun jj => if removed jj then gv ax jj else r0) t
                     +f sumz (fun q0 => if Z.eq_dec q0 d then r0 else if removed q0 then r0 else gv ax q0) t)); [ring|].
    rewrite IH. destruct (Z.eq_dec q d) as [->|Hne].
    - assert (R0 : removed d = false) by (unfold removed; rewrite Dj, Z.eqb_refl; cbn [negb]; apply andb_false_r).
      rewrite R0. ring.
    - destruct (removed q); ring. }
  rewrite <- (S3 (zrange lo hi)). ring.
Qed.
End L.

(* the quantities of the theorem over an [Ops] record (for the property file) *)
Definition lump_removed {F} (o : Ops F) (theta : F) (Aj : list Z) (ax : list F) (i d jj : Z) : bool :=
  ltb o (abs o (gV o ax jj)) (mul o theta (abs o (gV o ax d))) && negb (gI Aj jj =? i).
Definition osumz {F} (o : Ops F) (f : Z -> F) (l : list Z) : F := sumz F (zero o) (add o) f l.
