(* C17 (and C11): the second pass of direct and of classical interpolation writes, for every row, exactly as many
   entries as the first pass reserved for it -- the Python callers size P.indices / P.data with nnz = P.indptr[n] --
   for any number of rows and any strength pattern (the two passes use the same predicate "C point other than i";
   the classical kernel tests only "C point", which is the same thing on a fine row). *)
From Coq Require Import ZArith List Bool Lia.
Import ListNotations.
Require Import PV.Base.Ops PV.Model.Interp.
Open Scope Z_scope.

Lemma zrange_snoc (k : nat) : zrange 0 (Z.of_nat (S k)) = zrange 0 (Z.of_nat k) ++ [Z.of_nat k].
Proof.
  unfold zrange, zseq. replace (Z.to_nat (Z.of_nat (S k) - 0)) with (S k) by lia.
  replace (Z.to_nat (Z.of_nat k - 0)) with k by lia. rewrite seq_S, map_app. reflexivity.
Qed.

Lemma last_nth' {A} (l : list A) d : last l d = nth (length l - 1) l d.
Proof.
  induction l as [|a t IH]; [reflexivity|]. destruct t as [|b t']; [reflexivity|].
  change (last (a :: b :: t') d) with (last (b :: t') d). rewrite IH. cbn [length]. 
  replace (S (S (length t')) - 1)%nat with (S (S (length t') - 1)) by lia. reflexivity.
Qed.

Section S.
Context {F : Type} (o : Ops F).
Variables (Ap Aj : list Z) (Ax : list F) (Sp Sj : list Z) (Sx : list F) (spl : list Z).
Notation isC := (isC spl).
Notation srange := (srange Sp).
Notation strongC := (strongC Sj spl).

(* entries reserved for row i by pass 1 *)
Definition slots (i : Z) : Z := if isC i then 1 else Z.of_nat (length (filter (strongC i) (srange i))).

Lemma direct_row_slots i : Z.of_nat (length (direct_row o Ap Aj Ax Sp Sj Sx spl i)) = slots i.
Proof.
  unfold direct_row, slots. destruct (isC i); [reflexivity|].
  repeat match goal with |- context [let '(a, b) := ?e in _] => destruct e end.
  rewrite map_length. reflexivity.
Qed.

Lemma filter_ext_in' {A} (f g : A -> bool) l : (forall x, In x l -> f x = g x) -> filter f l = filter g l.
Proof.
  induction l as [|x t IH]; intro H; cbn [filter]; [reflexivity|].
  rewrite (H x (or_introl eq_refl)). rewrite IH by (intros y Hy; apply H; right; exact Hy). reflexivity.
Qed.

Lemma classical_row_slots eps15 modified i :
  Z.of_nat (length (classical_row o Ap Aj Ax Sp Sj Sx spl eps15 modified i)) = slots i.
Proof.
  unfold classical_row, slots. destruct (isC i) eqn:Ci; [reflexivity|].
  rewrite map_length. f_equal. f_equal. apply filter_ext_in'. intros jj _. unfold Interp.strongC.
  destruct (Z.eqb_spec (gz Sj jj) i) as [E|E]; cbn [negb]; [rewrite E, Ci; reflexivity|rewrite andb_true_r; reflexivity].
Qed.

(* pass 1: prefix sums of the slots *)
Definition psum (m : Z) : list Z := fold_left (fun acc i => acc ++ [last acc 0 + slots i]) (zrange 0 m) [0].
Lemma pass1_unfold m : interp_pass1 m Sp Sj spl = psum m.
Proof. reflexivity. Qed.
Lemma pass1_spec (N : nat) :
  let Bp := interp_pass1 (Z.of_nat N) Sp Sj spl in
  length Bp = S N /\ nthZ Bp 0 0 = 0 /\
  forall i, 0 <= i < Z.of_nat N -> nthZ Bp (i + 1) 0 = nthZ Bp i 0 + slots i.
Proof.
  rewrite pass1_unfold. unfold psum.
  induction N as [|k IH].
  - cbn. repeat split; try reflexivity. intros i Hi. lia.
  - rewrite zrange_snoc, fold_left_app. cbn [fold_left].
    set (P := fold_left (fun acc i => acc ++ [last acc 0 + slots i]) (zrange 0 (Z.of_nat k)) [0]) in *.
    cbv zeta in IH. destruct IH as (L & Z0 & St).
    assert (Lst : last P 0 = nthZ P (Z.of_nat k) 0).
    { unfold nthZ. rewrite Nat2Z.id. rewrite last_nth', L. f_equal. lia. }
    cbv zeta. repeat split.
    + rewrite app_length, L. cbn. lia.
    + unfold nthZ in *. rewrite app_nth1 by lia. exact Z0.
    + intros i Hi. unfold nthZ in *.
      destruct (Z.eq_dec i (Z.of_nat k)) as [->|Hne].
      * rewrite app_nth2 by lia. replace (Z.to_nat (Z.of_nat k + 1) - length P)%nat with O by lia. cbn [nth].
        rewrite app_nth1 by lia. rewrite Lst. reflexivity.
      * rewrite !app_nth1 by lia. apply St. lia.
Qed.

(* what pass 2 writes for row i fits exactly the slice [Bp[i], Bp[i+1]) *)
Theorem direct_fills_reserved (N : nat) i : 0 <= i < Z.of_nat N ->
  let Bp := interp_pass1 (Z.of_nat N) Sp Sj spl in
  nthZ Bp i 0 + Z.of_nat (length (direct_row o Ap Aj Ax Sp Sj Sx spl i)) = nthZ Bp (i + 1) 0.
Proof. intros Hi Bp. destruct (pass1_spec N) as (_ & _ & St). unfold Bp. rewrite (St i Hi), direct_row_slots. reflexivity. Qed.

Theorem classical_fills_reserved (N : nat) eps15 modified i : 0 <= i < Z.of_nat N ->
  let Bp := interp_pass1 (Z.of_nat N) Sp Sj spl in
  nthZ Bp i 0 + Z.of_nat (length (classical_row o Ap Aj Ax Sp Sj Sx spl eps15 modified i)) = nthZ Bp (i + 1) 0.
Proof. intros Hi Bp. destruct (pass1_spec N) as (_ & _ & St). unfold Bp. rewrite (St i Hi), classical_row_slots. reflexivity. Qed.

(* all rows together fill the nnz = Bp[n] entries the caller allocates, no more and no fewer *)
Lemma total_rows (rowf : Z -> list (Z * F)) (N : nat) :
  (forall i, Z.of_nat (length (rowf i)) = slots i) ->
  Z.of_nat (length (concat (map rowf (zrange 0 (Z.of_nat N))))) = nthZ (interp_pass1 (Z.of_nat N) Sp Sj spl) (Z.of_nat N) 0.
Proof.
  intro H.
  assert (G : forall k : nat, (k <= N)%nat ->
            Z.of_nat (length (concat (map rowf (zrange 0 (Z.of_nat k))))) = nthZ (interp_pass1 (Z.of_nat N) Sp Sj spl) (Z.of_nat k) 0).
  { destruct (pass1_spec N) as (_ & Z0 & St). cbv zeta in *.
    induction k as [|k IH]; intro Hk; [change (Z.of_nat 0) with 0; rewrite Z0; reflexivity|].
    rewrite zrange_snoc, map_app, concat_app, app_length. cbn [map concat]. rewrite app_nil_r.
    rewrite Nat2Z.inj_add, IH by lia. rewrite H. replace (Z.of_nat (S k)) with (Z.of_nat k + 1) by lia.
    rewrite (St (Z.of_nat k)) by lia. reflexivity. }
  apply G. lia.
Qed.
End S.
