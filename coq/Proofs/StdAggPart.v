(* C12, unbounded: standard_aggregation on EVERY graph with a symmetric pattern (any number of
   vertices) returns a partition with named roots: ids in [-1, c); id -1 exactly for the vertices
   without off-diagonal connection; aggregate a contains its root y[a]; every member of an aggregate
   is within distance 2 of its root inside the aggregate's neighbourhood (root, neighbour of the
   root, or neighbour of such a neighbour); the third pass never opens an aggregate. *)
From Coq Require Import ZArith List Bool Lia.
Import ListNotations.
Require Import PV.Model.GraphAlg PV.Model.Aggregate.
Require Import PV.Proofs.NaiveAggProofs.
Open Scope Z_scope.

Section S.
Variables (N : nat) (Ap Aj : list Z).
Let n := Z.of_nat N.
Hypothesis cols_in_range : forall i, 0 <= i < n -> forall j, In j (nbrs Ap Aj i) -> 0 <= j < n.
Hypothesis sym : forall i j, 0 <= i < n -> In j (nbrs Ap Aj i) -> In i (nbrs Ap Aj j).

Definition isolated (i : Z) : Prop := forall j, In j (nbrs Ap Aj i) -> j = i.
Definition near (r k : Z) : Prop := k = r \/ In k (nbrs Ap Aj r).

Lemma existsb_nb i row : existsb (fun j => negb (i =? j)) row = false -> forall j, In j row -> j = i.
Proof.
  intros H j Hj. destruct (Z.eq_dec j i) as [E|E]; [exact E|].
  assert (T : existsb (fun j => negb (i =? j)) row = true).
  { apply existsb_exists. exists j. split; [exact Hj|]. destruct (Z.eqb_spec i j); [congruence|reflexivity]. }
  congruence.
Qed.
Lemma existsb_agg x i row : existsb (fun j => negb (i =? j) && negb (get x j =? 0)) row = false ->
  forall j, In j row -> j <> i -> get x j = 0.
Proof.
  intros H j Hj Hne. destruct (Z.eq_dec (get x j) 0) as [E|E]; [exact E|].
  assert (T : existsb (fun j => negb (i =? j) && negb (get x j =? 0)) row = true).
  { apply existsb_exists. exists j. split; [exact Hj|].
    destruct (Z.eqb_spec i j); [congruence|]. destruct (Z.eqb_spec (get x j) 0); [contradiction|reflexivity]. }
  congruence.
Qed.

(* all neighbours of a new root get its id *)
Lemma setall_spec2 v : forall row x, length x = N -> (forall j, In j row -> 0 <= j < n) ->
  let x' := fold_left (fun x j => set x j v) row x in
  length x' = N /\ (forall k, In k row -> get x' k = v) /\ (forall k, 0 <= k -> ~ In k row -> get x' k = get x k).
Proof.
  induction row as [|j row IH]; intros x Hl Hr; cbn [fold_left].
  - repeat split; auto. intros k [].
  - assert (Hj : 0 <= j < n) by (apply Hr; left; reflexivity).
    destruct (IH (set x j v) ltac:(rewrite length_set; exact Hl) (fun k Hk => Hr k (or_intror Hk))) as (L & A & B).
    repeat split.
    + exact L.
    + intros k [<-|Hk]; [|apply A; exact Hk].
      destruct (in_dec Z.eq_dec j row) as [Hin|Hnin]; [apply A; exact Hin|].
      rewrite B by (try lia; exact Hnin). apply get_set_same. rewrite Hl. unfold n in *. lia.
    + intros k Hk Hnin. rewrite B by (try lia; intro; apply Hnin; right; assumption).
      apply get_set_other; try lia. intro; subst; apply Hnin; left; reflexivity.
Qed.

Definition step1 (s : list Z * list Z * Z) (i : Z) : list Z * list Z * Z :=
  let '(x, y, next) := s in
  if negb (get x i =? 0) then s
  else
    let row := nbrs Ap Aj i in
    let has_nb := existsb (fun j => negb (i =? j)) row in
    let has_agg := existsb (fun j => negb (i =? j) && negb (get x j =? 0)) row in
    if negb has_nb then (set x i (- n), y, next)
    else if negb has_agg then
      (fold_left (fun x j => set x j next) row (set x i next), set y (next - 1) i, next + 1)
    else s.

Record P1 (m : nat) (x y : list Z) (next : Z) (roots : list Z) : Prop := {
  p_lx : length x = N; p_ly : length y = N;
  p_next : 1 <= next <= Z.of_nat m + 1;
  p_rng : forall k, 0 <= k < n -> get x k = 0 \/ get x k = - n \/ 1 <= get x k < next;
  p_iso : forall k, 0 <= k < n -> get x k = - n -> isolated k;
  p_root : forall a, 1 <= a < next -> 0 <= get y (a - 1) < Z.of_nat m /\ get x (get y (a - 1)) = a;
  p_mem : forall k, 0 <= k < n -> 1 <= get x k -> near (get y (get x k - 1)) k;
  p_done : forall i, 0 <= i < Z.of_nat m -> get x i <> 0 \/ exists j, In j (nbrs Ap Aj i) /\ j <> i /\ 1 <= get x j;
  p_len : Z.of_nat (length roots) = next - 1;
  p_nd : NoDup roots;
  p_rin : forall r, In r roots -> 0 <= r < Z.of_nat m /\ get y (get x r - 1) = r /\ 1 <= get x r;
  p_wit : 2 <= next -> exists w, 0 <= w < n /\ 1 <= get x w /\ get y (get x w - 1) <> w;
  p_rnb : forall a, 1 <= a < next -> exists j, In j (nbrs Ap Aj (get y (a - 1))) /\ j <> get y (a - 1)
}.

Lemma step1_inv m x y next roots : (m < N)%nat -> P1 m x y next roots ->
  let '(x', y', next') := step1 (x, y, next) (Z.of_nat m) in exists roots', P1 (S m) x' y' next' roots'.
Proof.
  intros Hm I. destruct I as [Lx Ly Hn Rng Iso Root Mem Done Hlen Nd Rin Wit Rnb].
  assert (Hmn : 0 <= Z.of_nat m < n) by (unfold n; lia).
  assert (Hn1 : 1 <= n) by (unfold n; lia).
  unfold step1.
  destruct (Z.eqb_spec (get x (Z.of_nat m)) 0) as [E|E]; cbn [negb].
  2:{ exists roots. constructor; auto; try lia.
      - intros a Ha. destruct (Root a Ha) as [R1 R2]. split; [lia|exact R2].
      - intros i Hi. destruct (Z.eq_dec i (Z.of_nat m)) as [->|Hne]; [left; exact E|apply Done; lia].
      - intros r Hr. destruct (Rin r Hr) as (A & B & C). repeat split; auto; lia. }
  set (row := nbrs Ap Aj (Z.of_nat m)).
  assert (Hrow : forall j, In j row -> 0 <= j < n) by (exact (cols_in_range _ Hmn)).
  destruct (existsb (fun j => negb (Z.of_nat m =? j)) row) eqn:Hnb; cbn [negb].
  2:{ (* isolated vertex: marked -n *)
      pose proof (existsb_nb _ _ Hnb) as Hiso.
      exists roots. constructor; auto; try lia.
      - rewrite length_set; exact Lx.
      - intros k Hk. destruct (Z.eq_dec k (Z.of_nat m)) as [->|Hne].
        + rewrite get_set_same by (rewrite Lx; unfold n in *; lia). right; left; reflexivity.
        + rewrite get_set_other by lia. apply Rng; exact Hk.
      - intros k Hk. destruct (Z.eq_dec k (Z.of_nat m)) as [->|Hne]; [intros _; exact Hiso|].
        rewrite get_set_other by lia. apply Iso; exact Hk.
      - intros a Ha. destruct (Root a Ha) as [R1 R2]. split; [lia|]. rewrite get_set_other by lia. exact R2.
      - intros k Hk. destruct (Z.eq_dec k (Z.of_nat m)) as [->|Hne].
        + rewrite get_set_same by (rewrite Lx; unfold n in *; lia). lia.
        + rewrite get_set_other by lia. apply Mem; exact Hk.
      - intros i Hi. destruct (Z.eq_dec i (Z.of_nat m)) as [->|Hne].
        + left. rewrite get_set_same by (rewrite Lx; unfold n in *; lia). lia.
        + destruct (Done i ltac:(lia)) as [D|[j (J1 & J2 & J3)]].
          * left. rewrite get_set_other by lia. exact D.
          * right. exists j. repeat split; auto.
            assert (j <> Z.of_nat m) by (intro; subst; lia).
            assert (0 <= j < n) by (apply (cols_in_range i); [unfold n in *; lia|exact J1]).
            rewrite get_set_other by lia. exact J3.
      - intros r Hr. destruct (Rin r Hr) as (A & B & C). rewrite !get_set_other by lia. repeat split; auto; lia.
      - intro H2. destruct (Wit H2) as [w (W1 & W2 & W3)]. exists w.
        assert (w <> Z.of_nat m) by (intro; subst; lia). rewrite !get_set_other by lia. auto. }
  destruct (existsb (fun j => negb (Z.of_nat m =? j) && negb (get x j =? 0)) row) eqn:Hagg; cbn [negb].
  { (* an aggregated neighbour exists: skip; by symmetry that neighbour is not an isolated one *)
    exists roots. constructor; auto; try lia.
    - intros a Ha. destruct (Root a Ha) as [R1 R2]. split; [lia|exact R2].
    - intros i Hi. destruct (Z.eq_dec i (Z.of_nat m)) as [->|Hne]; [|apply Done; lia].
      right. apply existsb_exists in Hagg. destruct Hagg as [j [Hj Hc]].
      apply andb_true_iff in Hc. destruct Hc as [C1 C2].
      assert (Hjm : j <> Z.of_nat m) by (destruct (Z.eqb_spec (Z.of_nat m) j); [discriminate|congruence]).
      assert (Hxj : get x j <> 0) by (destruct (Z.eqb_spec (get x j) 0); [discriminate|assumption]).
      assert (Hjr : 0 <= j < n) by (apply Hrow; exact Hj).
      exists j. repeat split; auto.
      destruct (Rng j Hjr) as [Z0|[Zn|Zp]]; [contradiction| |lia].
      exfalso. apply Hjm. symmetry. apply (Iso j Hjr Zn). apply (sym (Z.of_nat m) j Hmn Hj).
    - intros r Hr. destruct (Rin r Hr) as (A & B & C). repeat split; auto; lia. }
  (* a new aggregate rooted at m *)
  pose proof (existsb_agg _ _ _ Hagg) as Hzero.
  assert (Hnz : next <> 0) by lia.
  set (x1 := set x (Z.of_nat m) next).
  assert (L1 : length x1 = N) by (unfold x1; rewrite length_set; exact Lx).
  destruct (setall_spec2 next row x1 L1 Hrow) as (L & Sin & Sout).
  set (x' := fold_left (fun x j => set x j next) row x1) in *.
  assert (X'm : get x' (Z.of_nat m) = next).
  { destruct (in_dec Z.eq_dec (Z.of_nat m) row) as [Hin|Hnin]; [apply Sin; exact Hin|].
    rewrite Sout by (try lia; exact Hnin). unfold x1. apply get_set_same. rewrite Lx. unfold n in *; lia. }
  assert (Xold : forall k, 0 <= k < n -> k <> Z.of_nat m -> ~ In k row -> get x' k = get x k).
  { intros k Hk H1 H2. rewrite Sout by (try lia; exact H2). unfold x1. apply get_set_other; lia. }
  assert (Xrow : forall k, In k row -> k <> Z.of_nat m -> get x k = 0) by (intros k Hk Hne; apply Hzero; assumption).
  (* a vertex that is already aggregated is neither m nor in the row *)
  assert (Keep : forall k, 0 <= k < n -> get x k <> 0 -> get x' k = get x k).
  { intros k Hk Hx. apply Xold; [exact Hk|intro Ek; rewrite Ek in Hx; contradiction|].
    intro Hin. destruct (Z.eq_dec k (Z.of_nat m)) as [->|Hne]; [contradiction|]. apply Hx. apply Xrow; assumption. }
  assert (Ynew : get (set y (next - 1) (Z.of_nat m)) (next - 1) = Z.of_nat m) by (apply get_set_same; rewrite Ly; lia).
  assert (Yold : forall a, 1 <= a < next -> get (set y (next - 1) (Z.of_nat m)) (a - 1) = get y (a - 1)) by (intros a Ha; apply get_set_other; lia).
  (* the witness: an off-diagonal neighbour of m *)
  apply existsb_exists in Hnb. destruct Hnb as [j0 [Hj0 Hc0]].
  assert (Hj0m : j0 <> Z.of_nat m) by (destruct (Z.eqb_spec (Z.of_nat m) j0); [discriminate|congruence]).
  assert (Hj0r : 0 <= j0 < n) by (apply Hrow; exact Hj0).
  exists (Z.of_nat m :: roots). constructor.
  - exact L.
  - rewrite length_set; exact Ly.
  - lia.
  - intros k Hk. destruct (Z.eq_dec k (Z.of_nat m)) as [->|Hne]; [rewrite X'm; right; right; lia|].
    destruct (in_dec Z.eq_dec k row) as [Hin|Hnin]; [rewrite (Sin k Hin); right; right; lia|].
    rewrite Xold by assumption. destruct (Rng k Hk) as [A|[A|A]]; [left; exact A|right; left; exact A|right; right; lia].
  - intros k Hk Hx. destruct (Z.eq_dec k (Z.of_nat m)) as [->|Hne]; [rewrite X'm in Hx; lia|].
    destruct (in_dec Z.eq_dec k row) as [Hin|Hnin]; [rewrite (Sin k Hin) in Hx; lia|].
    rewrite Xold in Hx by assumption. apply Iso; assumption.
  - intros a Ha. destruct (Z.eq_dec a next) as [->|Hne].
    + rewrite Ynew. split; [lia|exact X'm].
    + assert (Ha' : 1 <= a < next) by lia. rewrite (Yold a Ha'). destruct (Root a Ha') as [R1 R2]. split; [lia|].
      rewrite Keep; [exact R2|unfold n in *; lia|lia].
  - intros k Hk Hx. destruct (Z.eq_dec (get x k) 0) as [Zk|Nzk].
    + (* newly aggregated: k = m or k in row *)
      assert (Hnew : get x' k = next).
      { destruct (Z.eq_dec k (Z.of_nat m)) as [->|Hne]; [exact X'm|].
        destruct (in_dec Z.eq_dec k row) as [Hin|Hnin]; [apply Sin; exact Hin|].
        rewrite Xold in Hx by assumption. lia. }
      rewrite Hnew. replace (next - 1) with (next - 1) by lia. rewrite Ynew.
      destruct (Z.eq_dec k (Z.of_nat m)) as [->|Hne]; [left; reflexivity|].
      right. destruct (in_dec Z.eq_dec k row) as [Hin|Hnin]; [exact Hin|].
      rewrite Xold in Hnew by assumption. lia.
    + rewrite (Keep k Hk Nzk) in Hx. rewrite (Keep k Hk Nzk). destruct (Rng k Hk) as [A|[A|A]]; try lia.
      rewrite (Yold (get x k)) by lia. apply Mem; [exact Hk|lia].
  - intros i Hi. destruct (Z.eq_dec i (Z.of_nat m)) as [->|Hne]; [left; rewrite X'm; exact Hnz|].
    assert (Hir : 0 <= i < n) by (unfold n in *; lia).
    destruct (Done i ltac:(lia)) as [D|[j (J1 & J2 & J3)]].
    + left. rewrite Keep by assumption. exact D.
    + right. exists j. repeat split; auto.
      assert (0 <= j < n) by (apply (cols_in_range i); assumption).
      rewrite Keep by (try assumption; lia). exact J3.
  - cbn [length]. lia.
  - constructor; [|exact Nd]. intro Hin. destruct (Rin _ Hin) as (A & _ & _). lia.
  - intros r [<-|Hr].
    + rewrite X'm. replace (next - 1) with (next - 1) by lia. rewrite Ynew. repeat split; lia.
    + destruct (Rin r Hr) as (A & B & C). assert (Hrr : 0 <= r < n) by (unfold n in *; lia).
      rewrite Keep by (try assumption; lia). rewrite (Yold (get x r)).
      * repeat split; auto; lia.
      * destruct (Rng r Hrr) as [Q|[Q|Q]]; lia.
  - intros _. exists j0. rewrite (Sin j0 Hj0). rewrite Ynew. repeat split; auto; lia.
  - intros a Ha. destruct (Z.eq_dec a next) as [->|Hne].
    + rewrite Ynew. exists j0. split; assumption.
    + rewrite (Yold a) by lia. apply Rnb. lia.
Qed.

Lemma fold1_inv : forall (k m : nat) x y next roots, (m + k <= N)%nat -> P1 m x y next roots ->
  let '(x', y', next') := fold_left step1 (map Z.of_nat (seq m k)) (x, y, next) in exists roots', P1 (m + k) x' y' next' roots'.
Proof.
  induction k as [|k IH]; intros m x y next roots Hb I; cbn [seq map fold_left].
  - rewrite Nat.add_0_r. exists roots; exact I.
  - pose proof (step1_inv m x y next roots ltac:(lia) I) as S1.
    destruct (step1 (x, y, next) (Z.of_nat m)) as [[x1 y1] next1]. destruct S1 as [roots1 I'].
    replace (m + S k)%nat with (S m + k)%nat by lia. apply (IH (S m) x1 y1 next1 roots1); [lia|exact I'].
Qed.

Lemma nodup_bound (l : list Z) : NoDup l -> (forall r, In r l -> 0 <= r < n) -> (length l <= N)%nat.
Proof.
  intros Nd Hin. assert (H : incl l (map Z.of_nat (seq 0 N))).
  { intros r Hr. specialize (Hin r Hr). apply in_map_iff. exists (Z.to_nat r). split; [lia|apply in_seq; unfold n in *; lia]. }
  pose proof (NoDup_incl_length Nd H) as B. rewrite map_length, seq_length in B. exact B.
Qed.
(* fewer than n aggregates: a non-root member exists as soon as there is an aggregate *)
Lemma ids_below_n x y next roots : P1 N x y next roots -> next - 1 < n \/ (next = 1 /\ n = 0).
Proof.
  intros [Lx Ly Hn Rng Iso Root Mem Done Hlen Nd Rin Wit Rnb].
  destruct (Z_lt_dec next 2) as [H1|H2]; [unfold n in *; lia|]. left.
  destruct (Wit ltac:(lia)) as [w (W1 & W2 & W3)].
  assert (Hnot : ~ In w roots) by (intro Hin; destruct (Rin w Hin) as (_ & B & _); contradiction).
  assert (Nd' : NoDup (w :: roots)) by (constructor; assumption).
  assert (Hb : (length (w :: roots) <= N)%nat).
  { apply nodup_bound; [exact Nd'|]. intros r [<-|Hr]; [exact W1|]. destruct (Rin r Hr) as (A & _ & _). unfold n; lia. }
  cbn [length] in Hb. unfold n. lia.
Qed.

(* ---- pass 2 ---- *)
Definition step2 (x : list Z) (i : Z) : list Z :=
  if negb (get x i =? 0) then x
  else match find (fun j => 0 <? get x j) (nbrs Ap Aj i) with
       | Some j => set x i (- get x j)
       | None => x
       end.
Section Pass2.
Variables (x1 : list Z).
Hypothesis L1 : length x1 = N.
Hypothesis done1 : forall i, 0 <= i < n -> get x1 i <> 0 \/ exists j, In j (nbrs Ap Aj i) /\ j <> i /\ 1 <= get x1 j.
Record P2 (m : nat) (x : list Z) : Prop := {
  q_l : length x = N;
  q_keep : forall k, 0 <= k < n -> get x1 k <> 0 -> get x k = get x1 k;
  q_zero : forall k, 0 <= k < n -> get x1 k = 0 ->
           (get x k = 0 /\ Z.of_nat m <= k) \/ (exists j, In j (nbrs Ap Aj k) /\ 1 <= get x1 j /\ get x k = - get x1 j)
}.
Lemma step2_inv m x : (m < N)%nat -> P2 m x -> P2 (S m) (step2 x (Z.of_nat m)).
Proof.
  intros Hm [Lx Keep Zero]. assert (Hmn : 0 <= Z.of_nat m < n) by (unfold n; lia). unfold step2.
  destruct (Z.eqb_spec (get x (Z.of_nat m)) 0) as [E|E]; cbn [negb].
  - (* x[m] = 0: then x1[m] = 0 and a positive neighbour exists *)
    assert (E1 : get x1 (Z.of_nat m) = 0).
    { destruct (Z.eq_dec (get x1 (Z.of_nat m)) 0) as [Q|Q]; [exact Q|]. rewrite (Keep _ Hmn Q) in E. contradiction. }
    destruct (done1 _ Hmn) as [D|[j (J1 & J2 & J3)]]; [contradiction|].
    assert (Hjr : 0 <= j < n) by (apply (cols_in_range _ Hmn); exact J1).
    assert (Xj : get x j = get x1 j) by (apply Keep; [exact Hjr|lia]).
    destruct (find (fun j => 0 <? get x j) (nbrs Ap Aj (Z.of_nat m))) as [j'|] eqn:F.
    + apply find_some in F. destruct F as [F1 F2]. apply Z.ltb_lt in F2.
      assert (Hj'r : 0 <= j' < n) by (apply (cols_in_range _ Hmn); exact F1).
      assert (Xj' : 1 <= get x1 j' /\ get x j' = get x1 j').
      { destruct (Z.eq_dec (get x1 j') 0) as [Q|Q].
        - destruct (Zero j' Hj'r Q) as [[A _]|[q (_ & B & C)]]; lia.
        - rewrite (Keep j' Hj'r Q) in F2. split; [lia|apply Keep; assumption]. }
      destruct Xj' as [P1' P2'].
      constructor.
      * rewrite length_set; exact Lx.
      * intros k Hk Hx. assert (k <> Z.of_nat m) by (intro; subst; contradiction).
        rewrite get_set_other by lia. apply Keep; assumption.
      * intros k Hk Hx. destruct (Z.eq_dec k (Z.of_nat m)) as [->|Hne].
        -- right. exists j'. rewrite get_set_same by (rewrite Lx; unfold n in *; lia). rewrite P2'. auto.
        -- rewrite get_set_other by lia. destruct (Zero k Hk Hx) as [[A B]|C]; [left; split; [exact A|lia]|right; exact C].
    + exfalso. pose proof (find_none _ _ F j J1) as Fn. cbn beta in Fn. apply Z.ltb_ge in Fn. lia.
  - constructor; auto. intros k Hk Hx. destruct (Zero k Hk Hx) as [[A B]|C]; [|right; exact C].
    left. split; [exact A|]. destruct (Z.eq_dec k (Z.of_nat m)) as [->|Hne]; [contradiction|lia].
Qed.
Lemma fold2_inv : forall (k m : nat) x, (m + k <= N)%nat -> P2 m x -> P2 (m + k) (fold_left step2 (map Z.of_nat (seq m k)) x).
Proof.
  induction k as [|k IH]; intros m x Hb I; cbn [seq map fold_left]; [rewrite Nat.add_0_r; exact I|].
  replace (m + S k)%nat with (S m + k)%nat by lia. apply IH; [lia|apply step2_inv; [lia|exact I]].
Qed.
End Pass2.

(* ---- pass 3 when no entry is zero: a pointwise conversion ---- *)
Definition conv (xi : Z) : Z := if 0 <? xi then xi - 1 else if xi =? - n then -1 else - xi - 1.
Definition step3 (s : list Z * list Z * Z) (i : Z) : list Z * list Z * Z :=
  let '(x, y, next) := s in
  let xi := get x i in
  if negb (xi =? 0) then (set x i (conv xi), y, next)
  else (fold_left (fun x j => if get x j =? 0 then set x j next else x) (nbrs Ap Aj i) (set x i next), set y next i, next + 1).
Lemma fold3_conv (x2 y : list Z) (c : Z) : length x2 = N -> (forall k, 0 <= k < n -> get x2 k <> 0) ->
  forall (k m : nat) x, (m + k <= N)%nat -> length x = N ->
  (forall q, 0 <= q < Z.of_nat m -> get x q = conv (get x2 q)) -> (forall q, Z.of_nat m <= q < n -> get x q = get x2 q) ->
  exists x', fold_left step3 (map Z.of_nat (seq m k)) (x, y, c) = (x', y, c) /\ length x' = N /\
             (forall q, 0 <= q < Z.of_nat (m + k) -> get x' q = conv (get x2 q)) /\ (forall q, Z.of_nat (m + k) <= q < n -> get x' q = get x2 q).
Proof.
  intros L2 Nz. induction k as [|k IH]; intros m x Hb Lx Lo Hi; cbn [seq map fold_left].
  - exists x. rewrite Nat.add_0_r. auto.
  - unfold step3 at 2.
    assert (Hmn : 0 <= Z.of_nat m < n) by (unfold n; lia).
    assert (E : get x (Z.of_nat m) = get x2 (Z.of_nat m)) by (apply Hi; lia).
    destruct (Z.eqb_spec (get x (Z.of_nat m)) 0) as [Q|Q]; [rewrite E in Q; exfalso; exact (Nz _ Hmn Q)|]. cbn [negb].
    destruct (IH (S m) (set x (Z.of_nat m) (conv (get x (Z.of_nat m)))) ltac:(lia) ltac:(rewrite length_set; exact Lx)) as [x' (F & L' & A & B)].
    + intros q Hq. destruct (Z.eq_dec q (Z.of_nat m)) as [->|Hne].
      * rewrite get_set_same by (rewrite Lx; unfold n in *; lia). rewrite E. reflexivity.
      * rewrite get_set_other by lia. apply Lo. lia.
    + intros q Hq. rewrite get_set_other by lia. apply Hi. lia.
    + exists x'. replace (m + S k)%nat with (S m + k)%nat by lia. auto.
Qed.

Theorem standard_aggregation_partition (y0 : list Z) : length y0 = N ->
  let '(x, y, c) := standard_aggregation n Ap Aj y0 in
  length x = N /\ 0 <= c <= n /\
  (forall k, 0 <= k < n -> -1 <= get x k < c) /\
  (forall k, 0 <= k < n -> (get x k = -1 <-> isolated k)) /\
  (forall a, 0 <= a < c -> 0 <= get y a < n /\ get x (get y a) = a) /\
  (forall k, 0 <= k < n -> 0 <= get x k ->
     near (get y (get x k)) k \/ exists j, In j (nbrs Ap Aj k) /\ near (get y (get x k)) j /\ get x j = get x k).
Proof.
  intro Hy. unfold standard_aggregation, std_pass1, std_pass2, std_pass3.
  assert (I0 : P1 0 (fillz n 0) y0 1 []).
  { constructor.
    - apply length_fillz.
    - exact Hy.
    - lia.
    - intros k Hk. left. unfold n in *. apply get_fillz. lia.
    - intros k Hk Hx. unfold n in *. rewrite get_fillz in Hx by lia. lia.
    - intros a Ha. lia.
    - intros k Hk Hx. unfold n in *. rewrite get_fillz in Hx by lia. lia.
    - intros i Hi. lia.
    - reflexivity.
    - constructor.
    - intros r [].
    - intro H2. lia.
    - intros a Ha. lia. }
  pose proof (fold1_inv N 0 (fillz n 0) y0 1 [] ltac:(lia) I0) as S1.
  rewrite <- (zr_seq N) in S1. fold n in S1.
  change (fold_left _ (zr 0 n) (fillz n 0, y0, 1)) with (fold_left step1 (zr 0 n) (fillz n 0, y0, 1)).
  destruct (fold_left step1 (zr 0 n) (fillz n 0, y0, 1)) as [[x1 y1] next1]. cbn [Nat.add] in S1.
  destruct S1 as [roots1 I1].
  pose proof (ids_below_n _ _ _ _ I1) as Hb.
  destruct I1 as [Lx Ly Hn Rng Iso Root Mem Done Hlen Nd Rin Wit Rnb].
  assert (Done' : forall i, 0 <= i < n -> get x1 i <> 0 \/ exists j, In j (nbrs Ap Aj i) /\ j <> i /\ 1 <= get x1 j) by (intros i Hi; apply Done; unfold n in *; lia).
  assert (I20 : P2 x1 0 x1).
  { constructor; auto. intros k Hk Hx. left. split; [exact Hx|lia]. }
  pose proof (fold2_inv x1 Lx Done' N 0 x1 ltac:(lia) I20) as S2.
  rewrite <- (zr_seq N) in S2. fold n in S2. cbn [Nat.add] in S2.
  change (fold_left _ (zr 0 n) x1) with (fold_left step2 (zr 0 n) x1).
  set (x2 := fold_left step2 (zr 0 n) x1) in *.
  destruct S2 as [L2 Keep2 Zero2].
  assert (Nz2 : forall k, 0 <= k < n -> get x2 k <> 0).
  { intros k Hk. destruct (Z.eq_dec (get x1 k) 0) as [Q|Q].
    - destruct (Zero2 k Hk Q) as [[_ B]|[j (_ & B & C)]]; [unfold n in *; lia|lia].
    - rewrite (Keep2 k Hk Q). exact Q. }
  destruct (fold3_conv x2 y1 (next1 - 1) L2 Nz2 N 0 x2 ltac:(lia) L2 ltac:(intros q Hq; lia) ltac:(intros q Hq; reflexivity)) as [x3 (F3 & L3 & A3 & _)].
  rewrite <- (zr_seq N) in F3. fold n in F3.
  change (fold_left _ (zr 0 n) (x2, y1, next1 - 1)) with (fold_left step3 (zr 0 n) (x2, y1, next1 - 1)).
  rewrite F3. cbn [Nat.add] in A3. fold n in A3.
  (* value of x2 by cases on x1 *)
  assert (V : forall k, 0 <= k < n ->
            (get x1 k = - n /\ get x3 k = -1) \/
            (1 <= get x1 k < next1 /\ get x3 k = get x1 k - 1) \/
            (get x1 k = 0 /\ exists j, In j (nbrs Ap Aj k) /\ 1 <= get x1 j < next1 /\ get x3 k = get x1 j - 1)).
  { intros k Hk. rewrite (A3 k Hk). unfold conv.
    destruct (Rng k Hk) as [Q|[Q|Q]].
    - right; right. split; [exact Q|]. destruct (Zero2 k Hk Q) as [[_ B]|[j (J1 & J2 & J3)]]; [unfold n in *; lia|].
      assert (Hjr : 0 <= j < n) by (apply (cols_in_range k Hk); exact J1).
      exists j. split; [exact J1|]. destruct (Rng j Hjr) as [R|[R|R]]; try lia. split; [lia|].
      rewrite J3. destruct (Z.ltb_spec 0 (- get x1 j)); [lia|]. destruct (Z.eqb_spec (- get x1 j) (- n)); lia.
    - left. split; [exact Q|]. rewrite (Keep2 k Hk ltac:(lia)). rewrite Q.
      destruct (Z.ltb_spec 0 (- n)); [lia|]. rewrite Z.eqb_refl. reflexivity.
    - right; left. split; [exact Q|]. rewrite (Keep2 k Hk ltac:(lia)). destruct (Z.ltb_spec 0 (get x1 k)); lia. }
  repeat split.
  - exact L3.
  - lia.
  - lia.
  - destruct (V k H) as [[_ B]|[[A B]|[_ [j (_ & A & B)]]]]; lia.
  - destruct (V k H) as [[_ B]|[[A B]|[_ [j (_ & A & B)]]]]; lia.
  - intro Hx. destruct (V k H) as [[A _]|[[A B]|[_ [j (_ & A & B)]]]]; [apply Iso; assumption|lia|lia].
  - intro Hiso. destruct (V k H) as [[_ B]|[[A B]|[A [j (J1 & _)]]]]; [exact B| |].
    + exfalso. destruct (Mem k H ltac:(lia)) as [E|E].
      * destruct (Rnb (get x1 k) A) as [j (J1 & J2)]. rewrite <- E in J1, J2. apply J2. apply Hiso. exact J1.
      * destruct (Root (get x1 k) A) as [R1 R2].
        assert (Hr : 0 <= get y1 (get x1 k - 1) < n) by (unfold n in *; lia).
        pose proof (sym _ _ Hr E) as S. pose proof (Hiso _ S) as Eq.
        destruct (Rnb (get x1 k) A) as [j (J1 & J2)]. rewrite Eq in J1, J2. apply J2. apply Hiso. exact J1.
    + exfalso. destruct (Done' k H) as [D|[j' (Q1 & Q2 & _)]]; [contradiction|]. apply Q2. apply Hiso. exact Q1.
  - destruct (Root (a + 1) ltac:(lia)) as [R1 _]. replace (a + 1 - 1) with a in R1 by lia. lia.
  - destruct (Root (a + 1) ltac:(lia)) as [R1 _]. replace (a + 1 - 1) with a in R1 by lia. unfold n; lia.
  - destruct (Root (a + 1) ltac:(lia)) as [R1 R2]. replace (a + 1 - 1) with a in R1, R2 by lia.
    assert (Hr : 0 <= get y1 a < n) by (unfold n in *; lia).
    destruct (V _ Hr) as [[A _]|[[A B]|[A _]]]; lia.
  - intros k Hk Hx. destruct (V k Hk) as [[_ B]|[[A B]|[A [j (J1 & J2 & J3)]]]]; [lia| |].
    + left. rewrite B. apply Mem; [exact Hk|lia].
    + right. exists j. assert (Hjr : 0 <= j < n) by (apply (cols_in_range k Hk); exact J1).
      split; [exact J1|]. rewrite J3. split; [apply Mem; [exact Hjr|lia]|].
      destruct (V j Hjr) as [[Q _]|[[Q R]|[Q _]]]; lia.
Qed.
End S.
