(* C13 / C17, unbounded: the counting sort at the start of rs_cf_splitting builds lambda buckets that satisfy the
   bucket invariant of Proofs/RsBuckets.v, for every number of vertices and every admissible lambda vector. *)
From Coq Require Import ZArith List Bool Lia.
Import ListNotations.
Require Import PV.Model.GraphAlg PV.Model.Split.
Require Import PV.Proofs.NaiveAggProofs PV.Proofs.RsIndep PV.Proofs.RsBuckets.
Open Scope Z_scope.

Lemma fold_seq_inv {A} (f : A -> Z -> A) (P : nat -> A -> Prop) (N : nat) :
  forall a0, P O a0 -> (forall m a, (m < N)%nat -> P m a -> P (S m) (f a (Z.of_nat m))) ->
  P N (fold_left f (zr 0 (Z.of_nat N)) a0).
Proof.
  intros a0 H0 Hs. rewrite zr_seq.
  assert (Gen : forall k m a, (m + k = N)%nat -> P m a -> P N (fold_left f (map Z.of_nat (seq m k)) a)).
  { induction k as [|k IH]; intros m a E Pa; cbn [seq map fold_left].
    - replace N with m by lia. exact Pa.
    - apply IH; [lia|]. apply Hs; [lia|exact Pa]. }
  apply (Gen N O a0); [lia|exact H0].
Qed.

Lemma fold_max_ge : forall l a, a <= fold_left Z.max l a /\ forall x, In x l -> x <= fold_left Z.max l a.
Proof.
  induction l as [|h t IH]; intro a; cbn [fold_left]; [split; [lia|intros x []]|].
  destruct (IH (Z.max a h)) as [A B]. split; [lia|]. intros x [->|Hx]; [lia|apply B; exact Hx].
Qed.

Section I.
Variables (N : nat) (lamL : list Z).
Let n := Z.of_nat N.
Hypothesis LlamL : length lamL = N.
Definition lamf (i : nat) : Z := get lamL (Z.of_nat i).
Hypothesis lam_nonneg : forall i, (i < N)%nat -> 0 <= lamf i.

Definition lmax : Z := Z.max (2 * fold_left Z.max lamL 0) (n + 1).
Definition Ln : nat := Z.to_nat lmax.
Let Lz := Z.of_nat Ln.
Lemma Lz_eq : Lz = lmax. Proof. unfold Lz, Ln, lmax. lia. Qed.
Lemma Lz_n : n + 1 <= Lz. Proof. rewrite Lz_eq. unfold lmax. lia. Qed.
Lemma lam_lt : forall i, (i < N)%nat -> 0 <= lamf i < Lz.
Proof.
  intros i Hi. split; [apply lam_nonneg; exact Hi|]. rewrite Lz_eq. unfold lmax.
  destruct (fold_max_ge lamL 0) as [A B].
  assert (lamf i <= fold_left Z.max lamL 0).
  { apply B. unfold lamf, get. apply nth_In. rewrite LlamL. lia. }
  pose proof (lam_nonneg i Hi). lia.
Qed.

(* counting functions *)
Fixpoint cntf (m : nat) (l : Z) : Z :=
  match m with O => 0 | S m' => cntf m' l + (if lamf m' =? l then 1 else 0) end.
Fixpoint sumc (L : nat) (m : nat) : Z :=
  match L with O => 0 | S L' => sumc L' m + cntf m (Z.of_nat L') end.
Definition startz (l : Z) : Z := sumc (Z.to_nat l) N.
Definition pos (i : nat) : Z := startz (lamf i) + cntf i (lamf i).

Lemma cntf_nonneg m l : 0 <= cntf m l.
Proof. induction m as [|m IH]; cbn [cntf]; [lia|]. destruct (_ =? _); lia. Qed.
Lemma cntf_mono m m' l : (m <= m')%nat -> cntf m l <= cntf m' l.
Proof. induction 1 as [|m' H IH]; [lia|]. cbn [cntf]. destruct (_ =? _); lia. Qed.
Lemma cntf_lt i m : (i < m)%nat -> cntf i (lamf i) < cntf m (lamf i).
Proof.
  intro H. pose proof (cntf_mono (S i) m (lamf i) ltac:(lia)) as M. cbn [cntf] in M. rewrite Z.eqb_refl in M. lia.
Qed.
Lemma sumc_nonneg L m : 0 <= sumc L m.
Proof. induction L as [|L IH]; cbn [sumc]; [lia|]. pose proof (cntf_nonneg m (Z.of_nat L)). lia. Qed.
Lemma sumc_mono L L' m : (L <= L')%nat -> sumc L m <= sumc L' m.
Proof. induction 1 as [|L' H IH]; [lia|]. cbn [sumc]. pose proof (cntf_nonneg m (Z.of_nat L')). lia. Qed.
Lemma sumc_S L m : sumc L (S m) = sumc L m + (if (0 <=? lamf m) && (lamf m <? Z.of_nat L) then 1 else 0).
Proof.
  induction L as [|L IH]; cbn [sumc].
  - destruct (Z.leb_spec 0 (lamf m)); cbn [andb]; [|reflexivity]. destruct (Z.ltb_spec (lamf m) (Z.of_nat 0)); lia.
  - rewrite IH. cbn [cntf].
    destruct (Z.leb_spec 0 (lamf m)); cbn [andb];
      destruct (Z.ltb_spec (lamf m) (Z.of_nat L)), (Z.ltb_spec (lamf m) (Z.of_nat (S L))), (Z.eqb_spec (lamf m) (Z.of_nat L)); lia.
Qed.
Lemma sumc_total m : (m <= N)%nat -> sumc Ln m = Z.of_nat m.
Proof.
  induction m as [|m IH]; intro H.
  - clear. induction Ln as [|L IHL]; cbn [sumc cntf]; lia.
  - rewrite sumc_S, IH by lia. destruct (lam_lt m ltac:(lia)) as [A B]. fold Lz.
    destruct (Z.leb_spec 0 (lamf m)), (Z.ltb_spec (lamf m) Lz); cbn [andb]; lia.
Qed.
Lemma startz_S l : 0 <= l -> startz (l + 1) = startz l + cntf N l.
Proof. intro H. unfold startz. replace (Z.to_nat (l + 1)) with (S (Z.to_nat l)) by lia. cbn [sumc]. rewrite Z2Nat.id by lia. reflexivity. Qed.
Lemma startz_gap l1 l2 : 0 <= l1 -> l1 < l2 -> startz l1 + cntf N l1 <= startz l2.
Proof. intros H0 H. rewrite <- startz_S by lia. unfold startz. apply sumc_mono. lia. Qed.
Lemma startz_top l : 0 <= l < Lz -> startz l + cntf N l <= n.
Proof.
  intros H. rewrite <- startz_S by lia. unfold startz, n. rewrite <- (sumc_total N (le_n N)). apply sumc_mono. unfold Lz in H. lia.
Qed.
Lemma startz_nonneg l : 0 <= startz l. Proof. apply sumc_nonneg. Qed.

Lemma pos_range i : (i < N)%nat -> 0 <= pos i < n.
Proof.
  intro H. unfold pos. pose proof (startz_nonneg (lamf i)). pose proof (cntf_nonneg i (lamf i)).
  pose proof (cntf_lt i N H). pose proof (startz_top (lamf i) (lam_lt i H)). lia.
Qed.
Lemma pos_inj i j : (i < j)%nat -> (j < N)%nat -> pos i <> pos j.
Proof.
  intros Hij Hj. unfold pos.
  destruct (Z.lt_total (lamf i) (lamf j)) as [L|[E|L]].
  - pose proof (startz_gap (lamf i) (lamf j) (lam_nonneg i ltac:(lia)) L).
    pose proof (cntf_lt i N ltac:(lia)). pose proof (cntf_nonneg j (lamf j)). lia.
  - rewrite <- E. pose proof (cntf_lt i j Hij). lia.
  - pose proof (startz_gap (lamf j) (lamf i) (lam_nonneg j Hj) L).
    pose proof (cntf_lt j N Hj). pose proof (cntf_nonneg i (lamf i)). lia.
Qed.
Lemma exists_rank l : forall m r, 0 <= r < cntf m l -> exists v, (v < m)%nat /\ lamf v = l /\ cntf v l = r.
Proof.
  induction m as [|m IH]; intros r Hr; cbn [cntf] in Hr; [lia|].
  destruct (Z_lt_dec r (cntf m l)) as [H|H].
  - destruct (IH r ltac:(lia)) as (v & Hv & A & B). exists v. repeat split; [lia|exact A|exact B].
  - destruct (Z.eqb_spec (lamf m) l) as [E|E]; [|lia]. exists m. repeat split; [lia|exact E|lia].
Qed.
(* every position belongs to a bucket *)
Lemma bucket_of p : 0 <= p < n -> exists v, (v < N)%nat /\ pos v = p.
Proof.
  intro Hp.
  assert (Ex : forall L : nat, p < sumc L N -> exists l, 0 <= l /\ startz l <= p < startz l + cntf N l).
  { induction L as [|L IHL]; cbn [sumc]; intro H; [lia|].
    destruct (Z_lt_dec p (sumc L N)) as [H1|H1]; [apply IHL; exact H1|].
    exists (Z.of_nat L). split; [lia|]. unfold startz. rewrite Nat2Z.id. lia. }
  destruct (Ex Ln) as (l & Hl0 & Hl). { rewrite sumc_total by lia. fold n. lia. }
  destruct (exists_rank l N (p - startz l) ltac:(lia)) as (v & Hv & A & B).
  exists v. split; [exact Hv|]. unfold pos. rewrite A, B. lia.
Qed.

(* ------------------------------------------------------------- the three loops *)
Definition zerosL : list Z := map (fun _ => 0) (zr 0 lmax).
Definition cntA : list Z :=
  fold_left (fun c i => set c (get lamL i) (get c (get lamL i) + 1)) (zr 0 n) zerosL.
Definition ptrP : list Z * Z :=
  fold_left (fun '(p, cum) l => (set p l cum, cum + get cntA l)) (zr 0 lmax) (zerosL, 0).
Definition zn : list Z := map (fun _ => 0) (zr 0 n).
Definition fillT : list Z * list Z * list Z :=
  fold_left (fun '(c, a, b) i =>
        let l := get lamL i in let idx := get (fst ptrP) l + get c l in
        (set c l (get c l + 1), set a idx i, set b i idx)) (zr 0 n) (zerosL, zn, zn).

Lemma len_zerosL : length zerosL = Ln.
Proof. unfold zerosL, zr. rewrite !map_length, seq_length. unfold Ln. f_equal. lia. Qed.
Lemma get_zerosL l : get zerosL l = 0.
Proof.
  unfold zerosL, get. destruct (Nat.lt_ge_cases (Z.to_nat l) (length (zr 0 lmax))) as [H|H].
  - apply nth_map_const. exact H.
  - apply nth_overflow. rewrite map_length. exact H.
Qed.
Lemma len_zn : length zn = N.
Proof. unfold zn, zr. rewrite !map_length, seq_length. unfold n. lia. Qed.

Lemma cntA_spec : length cntA = Ln /\ forall l, 0 <= l < Lz -> get cntA l = cntf N l.
Proof.
  unfold cntA, n.
  apply (fold_seq_inv (fun c i => set c (get lamL i) (get c (get lamL i) + 1))
           (fun m c => length c = Ln /\ forall l, 0 <= l < Lz -> get c l = cntf m l)).
  - split; [exact len_zerosL|]. intros l _. rewrite get_zerosL. reflexivity.
  - intros m c Hm [Lc Hc]. split; [rewrite length_set; exact Lc|]. intros l Hl.
    fold (lamf m). destruct (lam_lt m Hm) as [A B]. rewrite gs by lia. rewrite Lc. fold Lz. cbn [cntf].
    destruct (Z.eqb_spec (lamf m) l) as [E|E]; cbn [andb].
    + destruct (Z.ltb_spec (lamf m) Lz); [|lia]. rewrite (Hc (lamf m)) by lia. rewrite E. reflexivity.
    + rewrite (Hc l Hl). lia.
Qed.

Lemma ptrP_spec : length (fst ptrP) = Ln /\ forall l, 0 <= l < Lz -> get (fst ptrP) l = startz l.
Proof.
  destruct cntA_spec as [LcA HcA].
  assert (K : (fun (pc : list Z * Z) => length (fst pc) = Ln /\ snd pc = sumc Ln N /\
                 forall l, 0 <= l < Lz -> get (fst pc) l = startz l) ptrP).
  { unfold ptrP. rewrite <- Lz_eq. unfold Lz.
    apply (fold_seq_inv (fun '(p, cum) l => (set p l cum, cum + get cntA l))
             (fun m pc => length (fst pc) = Ln /\ snd pc = sumc m N /\
                          forall l, 0 <= l < Z.of_nat m -> get (fst pc) l = startz l)).
    - cbn [fst snd sumc]. split; [exact len_zerosL|]. split; [reflexivity|]. intros l Hl. lia.
    - intros m [p cum] Hm (Lp & Ec & Hp). cbn [fst snd] in *. split; [rewrite length_set; exact Lp|].
      split; [cbn [sumc]; rewrite Ec, HcA by (unfold Lz; lia); reflexivity|].
      intros l Hl. rewrite gs by lia. rewrite Lp.
      destruct (Z.eqb_spec (Z.of_nat m) l) as [E|E]; cbn [andb].
      + destruct (Z.ltb_spec (Z.of_nat m) (Z.of_nat Ln)); [|lia]. rewrite Ec. unfold startz. rewrite <- E, Nat2Z.id. reflexivity.
      + apply Hp. lia. }
  cbv beta in K. destruct K as (A & _ & C). split; [exact A|]. intros l Hl. apply C. exact Hl.
Qed.

Lemma fillT_spec :
  let '(c, a, b) := fillT in
  length c = Ln /\ length a = N /\ length b = N /\
  (forall l, 0 <= l < Lz -> get c l = cntf N l) /\
  (forall i, (i < N)%nat -> get b (Z.of_nat i) = pos i /\ get a (pos i) = Z.of_nat i).
Proof.
  destruct ptrP_spec as [LpP HpP].
  assert (K : (fun (t : list Z * list Z * list Z) => let '(c, a, b) := t in
                 length c = Ln /\ length a = N /\ length b = N /\
                 (forall l, 0 <= l < Lz -> get c l = cntf N l) /\
                 (forall i, (i < N)%nat -> get b (Z.of_nat i) = pos i /\ get a (pos i) = Z.of_nat i)) fillT).
  { unfold fillT, n.
    apply (fold_seq_inv (fun '(c, a, b) i =>
               let l := get lamL i in let idx := get (fst ptrP) l + get c l in
               (set c l (get c l + 1), set a idx i, set b i idx))
             (fun m t => let '(c, a, b) := t in
                 length c = Ln /\ length a = N /\ length b = N /\
                 (forall l, 0 <= l < Lz -> get c l = cntf m l) /\
                 (forall i, (i < m)%nat -> get b (Z.of_nat i) = pos i /\ get a (pos i) = Z.of_nat i))).
    - split; [exact len_zerosL|]. split; [exact len_zn|]. split; [exact len_zn|].
      split; [intros l _; rewrite get_zerosL; reflexivity|]. intros i Hi. lia.
    - intros m [[c a] b] Hm (Lc & La & Lb & Hc & Hab). cbv zeta. fold (lamf m).
      destruct (lam_lt m Hm) as [A B].
      assert (Eidx : get (fst ptrP) (lamf m) + get c (lamf m) = pos m).
      { unfold pos. rewrite HpP, Hc by lia. reflexivity. }
      rewrite Eidx. pose proof (pos_range m Hm) as Rm.
      split; [rewrite length_set; exact Lc|]. split; [rewrite length_set; exact La|]. split; [rewrite length_set; exact Lb|].
      split.
      + intros l Hl. rewrite gs by lia. rewrite Lc. fold Lz. cbn [cntf].
        destruct (Z.eqb_spec (lamf m) l) as [E|E]; cbn [andb].
        * destruct (Z.ltb_spec (lamf m) Lz); [|lia]. rewrite (Hc (lamf m)) by lia. rewrite E. reflexivity.
        * rewrite (Hc l Hl). lia.
      + intros i Hi. destruct (Nat.eq_dec i m) as [->|Hne].
        * split.
          -- rewrite gs by lia. rewrite Z.eqb_refl, Lb. fold n. destruct (Z.ltb_spec (Z.of_nat m) n); [reflexivity|unfold n in *; lia].
          -- rewrite gs by lia. rewrite Z.eqb_refl, La. fold n. destruct (Z.ltb_spec (pos m) n); [reflexivity|lia].
        * destruct (Hab i ltac:(lia)) as [Hb Ha]. split.
          -- rewrite gs by lia. destruct (Z.eqb_spec (Z.of_nat m) (Z.of_nat i)); [lia|exact Hb].
          -- pose proof (pos_range i ltac:(lia)). pose proof (pos_inj i m ltac:(lia) Hm).
             rewrite gs by lia. destruct (Z.eqb_spec (pos m) (pos i)); [lia|exact Ha]. }
  exact K.
Qed.
End I.
