(* C18, unbounded: partial correctness of bellman_ford (pyamg/amg_core/graph.h) with integer weights: whenever the
   kernel model returns (its loop ran until a pass changed nothing), on every weighted graph of any size with column
   indices below n and centres below n,
     - every finite distance d[v] is the weight of a walk from the centre number m[v] to v        (sound),
     - no walk from any centre to v is lighter than d[v], and v is reached whenever such a walk exists   (optimal),
   so d is the shortest-path distance to the nearest centre and m names a centre attaining it. *)
From Coq Require Import ZArith List Bool Lia.
Import ListNotations.
Require Import PV.Model.GraphAlg.
Require Import PV.Proofs.NaiveAggProofs PV.Proofs.RsBuckets PV.Proofs.RsInit.
Open Scope Z_scope.

Lemma getd_set (d : list (option Z)) j x v : 0 <= v ->
  getd (set d j x) v = if (j =? v) && (j <? Z.of_nat (length d)) then x else getd d v.
Proof.
  intro Hv. unfold getd, set. destruct (Z.ltb_spec j 0) as [Hj|Hj].
  - destruct (Z.eqb_spec j v); [lia|reflexivity].
  - destruct (Z.eqb_spec j v) as [E|E]; cbn [andb].
    + subst v. destruct (Z.ltb_spec j (Z.of_nat (length d))) as [H|H].
      * apply nth_setn_same. lia.
      * rewrite setn_oob'; [reflexivity|lia].
    + apply nth_setn_other. lia.
Qed.

Lemma length_set' {A} (l : list A) i v : length (set l i v) = length l.
Proof. unfold set. destruct (i <? 0); [reflexivity|apply length_setn]. Qed.

Section BF.
Variables (N : nat) (Ap Aj Ax centers : list Z).
Let n := Z.of_nat N.
Hypothesis cols : forall i, 0 <= i < n -> forall jj, get Ap i <= jj < get Ap (i + 1) -> 0 <= get Aj jj < n.

Definition edge (i j w : Z) : Prop := exists jj, get Ap i <= jj < get Ap (i + 1) /\ get Aj jj = j /\ get Ax jj = w.
Inductive walk (u : Z) : Z -> Z -> Prop :=
| walk_nil : walk u u 0
| walk_step i j w L : walk u i L -> 0 <= i < n -> edge i j w -> walk u j (L + w).
Definition cen (k : Z) : Z := get centers k.

Definition state := (list (option Z) * list Z * list Z * bool)%type.
Definition sd (s : state) := fst (fst (fst s)).
Definition sm (s : state) := snd (fst (fst s)).
Definition sdone (s : state) := snd s.

(* soundness: every finite distance is the weight of a walk from the recorded centre *)
Definition sound (d : list (option Z)) (m : list Z) : Prop :=
  length d = N /\ length m = N /\
  forall v x, 0 <= v < n -> getd d v = Some x ->
    0 <= get m v < Z.of_nat (length centers) /\ walk (cen (get m v)) v x.
(* distances only decrease *)
Definition below (d0 d : list (option Z)) : Prop :=
  forall v y, 0 <= v < n -> getd d0 v = Some y -> exists x, getd d v = Some x /\ x <= y.
Definition relaxable (d : list (option Z)) (i jj : Z) : bool :=
  dlt (dadd (getd d i) (get Ax jj)) (getd d (get Aj jj)).

Definition estep (i : Z) (s : state) (jj : Z) : state :=
  let '(d, m, p, done) := s in
  let j := get Aj jj in
  let nd := dadd (getd d i) (get Ax jj) in
  if dlt nd (getd d j) then (set d j nd, set m j (get m i), set p j i, false) else s.

Lemma below_refl d : below d d.
Proof. intros v y _ H. exists y. split; [exact H|lia]. Qed.
Lemma below_trans a b c : below a b -> below b c -> below a c.
Proof.
  intros H1 H2 v y Hv Ha. destruct (H1 v y Hv Ha) as (x & Hb & Lx). destruct (H2 v x Hv Hb) as (z & Hc & Lz).
  exists z. split; [exact Hc|lia].
Qed.

Lemma estep_spec i s jj : 0 <= i < n -> get Ap i <= jj < get Ap (i + 1) -> sound (sd s) (sm s) ->
  let s' := estep i s jj in
  sound (sd s') (sm s') /\ below (sd s) (sd s') /\
  (sdone s' = true -> s' = s /\ relaxable (sd s) i jj = false) /\ (sdone s = false -> sdone s' = false).
Proof.
  intros Hi Hjj. destruct s as [[[d m] p] done]. unfold sd, sm, sdone. cbn [fst snd]. intros (Ld & Lm & Snd).
  unfold estep, relaxable. set (j := get Aj jj). pose proof (cols i Hi jj Hjj) as Rj. fold j in Rj.
  destruct (dlt (dadd (getd d i) (get Ax jj)) (getd d j)) eqn:E; cbn [fst snd].
  - (* relaxation *)
    destruct (getd d i) as [xi|] eqn:Di; cbn [dadd] in *; [|destruct (getd d j); discriminate].
    split; [|split; [|split]].
    + split; [rewrite length_set'; exact Ld|]. split; [rewrite length_set'; exact Lm|].
      intros v x Hv. rewrite getd_set by lia. rewrite Ld. fold n. rewrite gs by lia. rewrite Lm. fold n.
      destruct (Z.eqb_spec j v) as [Ev|Ev]; cbn [andb].
      * destruct (Z.ltb_spec j n); [|lia]. intro Hx. injection Hx as <-.
        destruct (Snd i xi Hi Di) as [Rm Wi]. split; [exact Rm|].
        apply (walk_step _ i v (get Ax jj) xi); [exact Wi|exact Hi|]. exists jj. subst v. repeat split; try lia; reflexivity.
      * apply Snd. exact Hv.
    + intros v y Hv Hy. rewrite getd_set by lia. rewrite Ld. fold n.
      destruct (Z.eqb_spec j v) as [Ev|Ev]; cbn [andb]; [|exists y; split; [exact Hy|lia]].
      destruct (Z.ltb_spec j n); [|lia]. subst v. rewrite Hy in E. cbn [dlt] in E. apply Z.ltb_lt in E.
      exists (xi + get Ax jj). split; [reflexivity|lia].
    + discriminate.
    + reflexivity.
  - split; [split; [exact Ld|split; [exact Lm|exact Snd]]|]. split; [apply below_refl|]. split; [intros _; split; reflexivity|auto].
Qed.

Lemma in_zr2 a b k : In k (zr a b) -> a <= k < b.
Proof. unfold zr. rewrite in_map_iff. intros (x & <- & Hx). apply in_seq in Hx. lia. Qed.

Lemma row_fold_spec i : 0 <= i < n -> forall l s, (forall jj, In jj l -> get Ap i <= jj < get Ap (i + 1)) ->
  sound (sd s) (sm s) ->
  let s' := fold_left (estep i) l s in
  sound (sd s') (sm s') /\ below (sd s) (sd s') /\
  (sdone s' = true -> s' = s /\ forall jj, In jj l -> relaxable (sd s) i jj = false) /\
  (sdone s = false -> sdone s' = false).
Proof.
  intro Hi. induction l as [|jj l IH]; intros s Hl So; cbn [fold_left].
  - split; [exact So|]. split; [apply below_refl|]. split; [intros _; split; [reflexivity|intros jj []]|auto].
  - destruct (estep_spec i s jj Hi (Hl jj (or_introl eq_refl)) So) as (S1 & B1 & D1 & F1).
    destruct (IH (estep i s jj) (fun j' H => Hl j' (or_intror H)) S1) as (S2 & B2 & D2 & F2).
    split; [exact S2|]. split; [eapply below_trans; eassumption|]. split.
    + intro Hd. destruct (D2 Hd) as [E2 R2].
      assert (Hd1 : sdone (estep i s jj) = true) by (rewrite <- E2; exact Hd).
      destruct (D1 Hd1) as [E1 R1]. split; [rewrite E2; exact E1|].
      intros j' [<-|Hj']; [exact R1|]. rewrite E1 in R2. apply R2. exact Hj'.
    + intro Hf. apply F2. apply F1. exact Hf.
Qed.

Definition rstep (s : state) (i : Z) : state := fold_left (estep i) (zr (get Ap i) (get Ap (i + 1))) s.
Definition closed (d : list (option Z)) : Prop :=
  forall i jj, 0 <= i < n -> get Ap i <= jj < get Ap (i + 1) -> relaxable d i jj = false.

Lemma rows_fold_spec : forall l s, (forall i, In i l -> 0 <= i < n) -> sound (sd s) (sm s) ->
  let s' := fold_left rstep l s in
  sound (sd s') (sm s') /\ below (sd s) (sd s') /\
  (sdone s' = true -> s' = s /\ forall i jj, In i l -> get Ap i <= jj < get Ap (i + 1) -> relaxable (sd s) i jj = false) /\
  (sdone s = false -> sdone s' = false).
Proof.
  induction l as [|i l IH]; intros s Hl So; cbn [fold_left].
  - split; [exact So|]. split; [apply below_refl|]. split; [intros _; split; [reflexivity|intros i jj []]|auto].
  - destruct (row_fold_spec i (Hl i (or_introl eq_refl)) (zr (get Ap i) (get Ap (i + 1))) s (fun jj H => in_zr2 _ _ _ H) So)
      as (S1 & B1 & D1 & F1). fold (rstep s i) in S1, B1, D1, F1.
    destruct (IH (rstep s i) (fun i' H => Hl i' (or_intror H)) S1) as (S2 & B2 & D2 & F2).
    split; [exact S2|]. split; [eapply below_trans; eassumption|]. split.
    + intro Hd. destruct (D2 Hd) as [E2 R2].
      assert (Hd1 : sdone (rstep s i) = true) by (rewrite <- E2; exact Hd).
      destruct (D1 Hd1) as [E1 R1]. split; [rewrite E2; exact E1|].
      intros i' jj [<-|Hi'] Hjj.
      * apply R1. unfold zr. apply in_map_iff. exists (Z.to_nat (jj - get Ap i)). split; [lia|]. apply in_seq. lia.
      * rewrite E1 in R2. apply R2; assumption.
    + intro Hf. apply F2. apply F1. exact Hf.
Qed.

Lemma in_zr0 k : 0 <= k < n -> In k (zr 0 n).
Proof. intro H. unfold zr. apply in_map_iff. exists (Z.to_nat k). split; [lia|]. apply in_seq. lia. Qed.

Lemma bf_pass_spec d m p b : sound d m ->
  let '(d', m', p', done) := bf_pass n Ap Aj Ax (d, m, p, b) in
  sound d' m' /\ below d d' /\ (done = true -> d' = d /\ m' = m /\ closed d).
Proof.
  intro So. unfold bf_pass. cbn [fst snd].
  change (fold_left _ (zr 0 n) (d, m, p, true)) with (fold_left rstep (zr 0 n) (d, m, p, true)).
  destruct (rows_fold_spec (zr 0 n) (d, m, p, true) (fun i H => in_zr2 _ _ _ H) So) as (S1 & B1 & D1 & _).
  destruct (fold_left rstep (zr 0 n) (d, m, p, true)) as [[[d' m'] p'] done]. unfold sd, sm, sdone in *. cbn [fst snd] in *.
  split; [exact S1|]. split; [exact B1|]. intro Hd. destruct (D1 Hd) as [E R]. injection E as -> -> _.
  split; [reflexivity|]. split; [reflexivity|]. intros i jj Hi Hjj. apply R; [apply in_zr0; exact Hi|exact Hjj].
Qed.

Lemma bf_loop_spec d0 : forall fuel d m p r, sound d m -> below d0 d ->
  bf_loop n Ap Aj fuel Ax d m p = Some r ->
  let '(d', m', p') := r in sound d' m' /\ below d0 d' /\ closed d'.
Proof.
  induction fuel as [|k IH]; intros d m p r So Be H; cbn [bf_loop] in H; [discriminate|].
  pose proof (bf_pass_spec d m p true So) as PS.
  destruct (bf_pass n Ap Aj Ax (d, m, p, true)) as [[[d' m'] p'] done].
  destruct PS as (S1 & B1 & D1). destruct done.
  - injection H as <-. destruct (D1 eq_refl) as (-> & -> & Cl). split; [exact So|]. split; [exact Be|exact Cl].
  - apply (IH d' m' p' r S1); [eapply below_trans; eassumption|exact H].
Qed.

(* a closed distance vector is below every walk from a vertex whose distance is <= 0 *)
Lemma closed_walk d c : closed d -> 0 <= c < n -> (exists x0, getd d c = Some x0 /\ x0 <= 0) ->
  forall v L, walk c v L -> 0 <= v < n /\ exists x, getd d v = Some x /\ x <= L.
Proof.
  intros Cl Hc H0 v L W. induction W as [|i j w L W IH Hi (jj & Hjj & Ej & Ew)].
  - split; [exact Hc|]. destruct H0 as (x0 & E & Le). exists x0. split; [exact E|lia].
  - destruct IH as [_ (x & Ex & Lx)]. pose proof (cols i Hi jj Hjj) as Rj. rewrite Ej in Rj. split; [exact Rj|].
    pose proof (Cl i jj Hi Hjj) as R. unfold relaxable in R. rewrite Ex, Ej, Ew in R. cbn [dadd] in R.
    destruct (getd d j) as [y|]; cbn [dlt] in R; [|discriminate]. apply Z.ltb_ge in R. exists y. split; [reflexivity|lia].
Qed.

(* ---- the initial state ---- *)
Hypothesis centers_in : forall c, In c centers -> 0 <= c < n.

Lemma fold_d0 : forall cs d, length d = N ->
  let d' := fold_left (fun d c => set d c (Some 0)) cs d in
  length d' = N /\ forall v, 0 <= v < n ->
    (In v cs -> getd d' v = Some 0) /\ (~ In v cs -> getd d' v = getd d v).
Proof.
  induction cs as [|c cs IH]; intros d L; cbn [fold_left].
  - split; [exact L|]. intros v Hv. split; [intros []|reflexivity].
  - destruct (IH (set d c (Some 0)) ltac:(rewrite length_set'; exact L)) as [L' H']. split; [exact L'|].
    intros v Hv. destruct (H' v Hv) as [A B]. split.
    + intros [->|Hin]; [|apply A; exact Hin].
      destruct (in_dec Z.eq_dec v cs) as [Hin|Hout]; [apply A; exact Hin|].
      rewrite (B Hout). rewrite getd_set by lia. rewrite Z.eqb_refl, L. fold n. destruct (Z.ltb_spec v n); [reflexivity|lia].
    + intro Hn. rewrite B by (intro; apply Hn; right; assumption). rewrite getd_set by lia.
      destruct (Z.eqb_spec c v) as [E|E]; [exfalso; apply Hn; left; exact E|reflexivity].
Qed.

Lemma fold_m0 : forall cs (a : nat) m, length m = N -> (forall c, In c cs -> 0 <= c < n) ->
  let m' := fold_left (fun m (ck : Z * Z) => set m (fst ck) (snd ck)) (combine cs (map Z.of_nat (seq a (length cs)))) m in
  length m' = N /\ forall v, 0 <= v < n -> In v cs ->
    Z.of_nat a <= get m' v < Z.of_nat a + Z.of_nat (length cs) /\ nth (Z.to_nat (get m' v) - a) cs 0 = v.
Proof.
  induction cs as [|c cs IH]; intros a m L Hc; cbn [length seq map combine fold_left fst snd].
  - split; [exact L|]. intros v _ [].
  - destruct (IH (S a) (set m c (Z.of_nat a)) ltac:(rewrite length_set; exact L) (fun c' H => Hc c' (or_intror H))) as [L' H'].
    split; [exact L'|]. intros v Hv Hin.
    destruct (in_dec Z.eq_dec v cs) as [Hin'|Hout].
    + destruct (H' v Hv Hin') as [R E]. split; [lia|].
      replace (Z.to_nat (get _ v) - a)%nat with (S (Z.to_nat (get (fold_left (fun m0 ck => set m0 (fst ck) (snd ck))
         (combine cs (map Z.of_nat (seq (S a) (length cs)))) (set m c (Z.of_nat a))) v) - S a)) by lia.
      cbn [nth]. exact E.
    + destruct Hin as [->|Hin]; [|contradiction].
      assert (Un : forall l m1, (forall ck, In ck l -> fst ck <> v) ->
                get (fold_left (fun m0 (ck : Z * Z) => set m0 (fst ck) (snd ck)) l m1) v = get m1 v).
      { induction l as [|ck l IHl]; intros m1 Hl; cbn [fold_left]; [reflexivity|].
        rewrite IHl by (intros ck' H; apply Hl; right; exact H). rewrite gs by lia.
        destruct (Z.eqb_spec (fst ck) v) as [E|E]; [exfalso; apply (Hl ck (or_introl eq_refl)); exact E|reflexivity]. }
      rewrite Un.
      * rewrite gs by lia. rewrite Z.eqb_refl, L. fold n. destruct (Z.ltb_spec v n); [|lia]. cbn [andb].
        split; [lia|]. replace (Z.to_nat (Z.of_nat a) - a)%nat with O by lia. reflexivity.
      * intros [c' k'] Hck. apply in_combine_l in Hck. cbn [fst]. intro E. subst c'. exact (Hout Hck).
Qed.

Theorem bellman_ford_correct d m p :
  bellman_ford n Ap Aj Ax centers = Some (d, m, p) ->
  (forall v x, 0 <= v < n -> getd d v = Some x ->
     In (cen (get m v)) centers /\ walk (cen (get m v)) v x) /\
  (forall c v L, In c centers -> walk c v L -> 0 <= v < n /\ exists x, getd d v = Some x /\ x <= L).
Proof.
  unfold bellman_ford. cbv zeta. intro H.
  set (d0 := fold_left (fun d c => set d c (Some 0)) centers (map (fun _ => None) (zr 0 n))) in H.
  set (m0 := fold_left (fun m (ck : Z * Z) => set m (fst ck) (snd ck))
               (combine centers (zr 0 (Z.of_nat (length centers)))) (fillz n (-1))) in H.
  assert (LN : length (map (fun _ : Z => @None Z) (zr 0 n)) = N) by (rewrite map_length; unfold zr; rewrite map_length, seq_length; unfold n; lia).
  destruct (fold_d0 centers _ LN) as [Ld0 Hd0]. fold d0 in Ld0, Hd0.
  assert (Lf : length (fillz n (-1)) = N) by (unfold n; apply length_fillz).
  pose proof (fold_m0 centers O (fillz n (-1)) Lf centers_in) as Hm0. rewrite <- zr_seq in Hm0. fold m0 in Hm0.
  destruct Hm0 as [Lm0 Hm0].
  assert (None0 : forall v, 0 <= v < n -> getd (map (fun _ : Z => @None Z) (zr 0 n)) v = None).
  { intros v Hv. unfold getd. apply nth_map_const. rewrite map_length in LN. rewrite LN. unfold n in *. lia. }
  assert (S0 : sound d0 m0).
  { split; [exact Ld0|]. split; [exact Lm0|]. intros v x Hv Hx.
    destruct (Hd0 v Hv) as [A B].
    destruct (in_dec Z.eq_dec v centers) as [Hin|Hout]; [|rewrite (B Hout), None0 in Hx by exact Hv; discriminate].
    rewrite (A Hin) in Hx. injection Hx as <-.
    destruct (Hm0 v Hv Hin) as [R E]. rewrite Nat.sub_0_r in E. split; [lia|].
    change (cen (get m0 v)) with (nth (Z.to_nat (get m0 v)) centers 0). rewrite E. constructor. }
  pose proof (bf_loop_spec d0 _ d0 m0 (fillz n (-1)) (d, m, p) S0 (below_refl d0) H) as (Sf & Bf & Cf).
  destruct Sf as (_ & _ & Snd). split.
  - intros v x Hv Hx. destruct (Snd v x Hv Hx) as [R W]. split; [|exact W]. change (cen (get m v)) with (nth (Z.to_nat (get m v)) centers 0). apply nth_In. lia.
  - intros c v L Hc W. apply (closed_walk d c Cf (centers_in c Hc)); [|exact W].
    destruct (Hd0 c (centers_in c Hc)) as [A _]. apply (Bf c 0 (centers_in c Hc) (A Hc)).
Qed.
End BF.
