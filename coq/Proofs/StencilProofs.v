(* C20: stencil_grid equals its specification on EVERY grid (any number of dimensions, any positive extents) and
   every stencil with as many dimensions as the grid, whatever its extents and entries: the row of a grid point holds the
   stencil entries of the neighbours that exist.  The proof is the mixed-radix bijection between the flat index and the
   multi-index (ravel / unravel), and the observation that the boundary slices of a diagonal keep exactly the columns
   whose multi-index minus the stencil offset is again a grid point. *)
From Coq Require Import ZArith List Bool Lia.
Import ListNotations.
Require Import PV.Model.Stencil.
Open Scope Z_scope.

(* ---------- arithmetic of prodl / dotz ---------- *)
Lemma fold_mul_acc : forall g a, fold_left Z.mul g a = a * fold_left Z.mul g 1.
Proof.
  induction g as [|d t IH]; intros a; cbn [fold_left].
  - lia.
  - rewrite IH. rewrite (IH (1 * d)). lia.
Qed.
Lemma prodl_cons : forall d t, prodl (d :: t) = d * prodl t.
Proof. intros d t. unfold prodl. cbn [fold_left]. rewrite fold_mul_acc. lia. Qed.
Lemma prodl_nil : prodl [] = 1. Proof. reflexivity. Qed.
Lemma prodl_pos : forall g, Forall (fun d => 0 < d) g -> 0 < prodl g.
Proof.
  induction g as [|d t IH]; intros H.
  - rewrite prodl_nil. lia.
  - inversion H as [|? ? Hd Ht]; subst. rewrite prodl_cons. specialize (IH Ht). nia.
Qed.

Lemma fold_add_acc : forall l a, fold_left Z.add l a = a + fold_left Z.add l 0.
Proof.
  induction l as [|x t IH]; intros a; cbn [fold_left].
  - lia.
  - rewrite IH. rewrite (IH (0 + x)). lia.
Qed.
Lemma dotz_cons : forall a b x y, dotz (x :: a) (y :: b) = x * y + dotz a b.
Proof. intros a b x y. unfold dotz. cbn [combine map fold_left fst snd]. rewrite fold_add_acc. lia. Qed.
Lemma dotz_nil_l : forall b, dotz [] b = 0. Proof. reflexivity. Qed.
Lemma dotz_nil_r : forall a, dotz a [] = 0. Proof. intros [|x a]; reflexivity. Qed.

Lemma strides_cons : forall d t, strides (d :: t) = prodl t :: strides t. Proof. reflexivity. Qed.
Lemma strides_length : forall g, length (strides g) = length g.
Proof. induction g as [|d t IH]; cbn [strides length]; congruence. Qed.

Lemma unravel_cons : forall d t j, unravel (d :: t) j = (j / prodl t) mod d :: unravel t j.
Proof. reflexivity. Qed.
Lemma unravel_length : forall g j, length (unravel g j) = length g.
Proof.
  intros g j. unfold unravel. rewrite map_length, combine_length, strides_length. lia.
Qed.

(* a grid point *)
Inductive valid : list Z -> list Z -> Prop :=
| valid_nil : valid [] []
| valid_cons : forall d t q0 qt, 0 <= q0 < d -> valid t qt -> valid (d :: t) (q0 :: qt).

Lemma unravel_shift : forall g, Forall (fun d => 0 < d) g -> forall j m, unravel g (j + m * prodl g) = unravel g j.
Proof.
  induction g as [|d t IH]; intros Hg j m.
  - reflexivity.
  - inversion Hg as [|? ? Hd Ht]; subst. pose proof (prodl_pos t Ht) as HP.
    rewrite !unravel_cons, prodl_cons. f_equal.
    + replace (j + m * (d * prodl t)) with (j + (m * d) * prodl t) by lia.
      rewrite Z.div_add by lia. rewrite Z.mod_add by lia. reflexivity.
    + replace (j + m * (d * prodl t)) with (j + (m * d) * prodl t) by lia. apply IH; assumption.
Qed.

Lemma unravel_valid : forall g, Forall (fun d => 0 < d) g -> forall j, valid g (unravel g j).
Proof.
  induction g as [|d t IH]; intros Hg j.
  - constructor.
  - inversion Hg as [|? ? Hd Ht]; subst. rewrite unravel_cons. constructor.
    + apply Z.mod_pos_bound; lia.
    + apply IH; assumption.
Qed.

Lemma ravel_unravel : forall g, Forall (fun d => 0 < d) g -> forall j, 0 <= j < prodl g ->
  dotz (strides g) (unravel g j) = j.
Proof.
  induction g as [|d t IH]; intros Hg j Hj.
  - rewrite prodl_nil in Hj. cbn. lia.
  - inversion Hg as [|? ? Hd Ht]; subst. pose proof (prodl_pos t Ht) as HP.
    rewrite prodl_cons in Hj. rewrite strides_cons, unravel_cons, dotz_cons.
    assert (Hq : 0 <= j / prodl t < d).
    { split. - apply Z.div_pos; lia. - apply Z.div_lt_upper_bound; lia. }
    rewrite (Z.mod_small (j / prodl t) d) by lia.
    assert (E : unravel t j = unravel t (j mod prodl t)).
    { rewrite (Z.div_mod j (prodl t)) at 1 by lia.
      replace (prodl t * (j / prodl t) + j mod prodl t) with (j mod prodl t + (j / prodl t) * prodl t) by lia.
      apply unravel_shift; assumption. }
    rewrite E, IH by (try assumption; apply Z.mod_pos_bound; lia).
    pose proof (Z.div_mod j (prodl t)). lia.
Qed.

Lemma ravel_range : forall g q, valid g q -> 0 <= dotz (strides g) q < prodl g.
Proof.
  intros g q H. induction H as [|d t q0 qt Hq Hv IH].
  - cbn. lia.
  - rewrite strides_cons, dotz_cons, prodl_cons. nia.
Qed.

Lemma valid_pos : forall g q, valid g q -> Forall (fun d => 0 < d) g.
Proof. intros g q H. induction H; constructor; try lia; assumption. Qed.

Lemma unravel_ravel : forall g q, valid g q -> unravel g (dotz (strides g) q) = q.
Proof.
  intros g q H. induction H as [|d t q0 qt Hq Hv IH].
  - reflexivity.
  - pose proof (valid_pos _ _ Hv) as Ht. pose proof (prodl_pos t Ht) as HP.
    pose proof (ravel_range _ _ Hv) as Hr.
    rewrite strides_cons, dotz_cons, unravel_cons. f_equal.
    + replace (prodl t * q0 + dotz (strides t) qt) with (dotz (strides t) qt + q0 * prodl t) by lia.
      rewrite Z.div_add by lia. rewrite (Z.div_small (dotz (strides t) qt)) by lia.
      rewrite Z.mod_small; lia.
    + replace (prodl t * q0 + dotz (strides t) qt) with (dotz (strides t) qt + q0 * prodl t) by lia.
      rewrite unravel_shift by assumption. exact IH.
Qed.

(* ---------- the boundary slices: kept <-> (column index minus offset) is a grid point ---------- *)
Definition vec_sub (a b : list Z) := map (fun p => fst p - snd p) (combine a b).

Lemma kept_cons : forall d t o0 ot q0 qt,
  kept (d :: t) (o0 :: ot) (q0 :: qt) =
  (if 0 <? o0 then o0 <=? q0 else if o0 <? 0 then q0 <? d + o0 else true) && kept t ot qt.
Proof. reflexivity. Qed.

Lemma kept_iff : forall g q, valid g q -> forall o, length o = length g ->
  (kept g o q = true <-> valid g (vec_sub q o)).
Proof.
  intros g q H. induction H as [|d t q0 qt Hq Hv IH]; intros o Ho.
  - destruct o; [|discriminate]. cbn. split; [constructor|reflexivity].
  - destruct o as [|o0 ot]; [discriminate|]. cbn [length] in Ho.
    rewrite kept_cons. unfold vec_sub. cbn [combine map fst snd]. fold (vec_sub qt ot).
    rewrite andb_true_iff, IH by lia. split.
    + intros [H1 H2]. constructor; [|exact H2].
      destruct (0 <? o0) eqn:E1; [|destruct (o0 <? 0) eqn:E2]; lia.
    + intros H2. inversion H2 as [|? ? ? ? Hr Hv2]; subst. split; [|exact Hv2].
      destruct (0 <? o0) eqn:E1; [|destruct (o0 <? 0) eqn:E2]; lia.
Qed.

Lemma dotz_sub : forall s a b, length a = length s -> length b = length s ->
  dotz s (vec_sub a b) = dotz s a - dotz s b.
Proof.
  induction s as [|x s IH]; intros a b Ha Hb.
  - rewrite !dotz_nil_l. lia.
  - destruct a as [|a0 a]; [discriminate|]. destruct b as [|b0 b]; [discriminate|].
    unfold vec_sub. cbn [combine map fst snd]. fold (vec_sub a b).
    rewrite !dotz_cons, IH by (cbn in Ha, Hb; lia). lia.
Qed.

Lemma valid_length : forall g q, valid g q -> length q = length g.
Proof. intros g q H. induction H; cbn; congruence. Qed.

Lemma leqb_add_iff : forall p o q, length p = length q -> length o = length q ->
  (leqb (vec_add p o) q = true <-> p = vec_sub q o).
Proof.
  induction p as [|p0 p IH]; intros o q Hp Ho.
  - destruct q; [|discriminate]. destruct o; [|discriminate]. cbn. tauto.
  - destruct q as [|q0 q]; [discriminate|]. destruct o as [|o0 o]; [discriminate|].
    unfold leqb, vec_add, vec_sub. cbn [combine map forallb fst snd].
    fold (vec_add p o). fold (vec_sub q o). fold (leqb (vec_add p o) q).
    rewrite andb_true_iff, IH by (cbn in Hp, Ho; lia). split.
    + intros [H1 H2]. f_equal; [lia|exact H2].
    + intros H. injection H as H1 H2. split; [lia|exact H2].
Qed.

(* the equivalence at the heart of the theorem *)
Lemma diag_iff : forall g, Forall (fun d => 0 < d) g -> forall o i j, length o = length g ->
  0 <= i < prodl g -> 0 <= j < prodl g ->
  ((Z.abs (dotz (strides g) o) <? prodl g) && (dotz (strides g) o =? j - i) && kept g o (unravel g j) = true
   <-> leqb (vec_add (unravel g i) o) (unravel g j) = true).
Proof.
  intros g Hg o i j Ho Hi Hj.
  pose proof (unravel_valid g Hg i) as Vi. pose proof (unravel_valid g Hg j) as Vj.
  pose proof (valid_length _ _ Vi) as Li. pose proof (valid_length _ _ Vj) as Lj.
  rewrite leqb_add_iff by lia.
  rewrite !andb_true_iff, (kept_iff g _ Vj o Ho). split.
  - intros [[_ Hoff] Hv]. apply Z.eqb_eq in Hoff.
    rewrite <- (unravel_ravel g _ Hv).
    rewrite dotz_sub by (rewrite strides_length; lia).
    rewrite ravel_unravel by assumption. f_equal. lia.
  - intros E.
    assert (Hv : valid g (vec_sub (unravel g j) o)) by (rewrite <- E; exact Vi).
    assert (Hoff : dotz (strides g) o = j - i).
    { pose proof (ravel_unravel g Hg i Hi) as Ri. rewrite E in Ri.
      rewrite dotz_sub in Ri by (rewrite strides_length; lia).
      rewrite ravel_unravel in Ri by assumption. lia. }
    repeat split; [apply Z.ltb_lt; lia | apply Z.eqb_eq; exact Hoff | exact Hv].
Qed.

(* ---------- the row-major enumeration of the grid points ---------- *)
Definition idx (n : Z) : list Z := map Z.of_nat (seq 0 (Z.to_nat n)).

Lemma in_idx : forall n k, In k (idx n) -> 0 <= k < n.
Proof.
  intros n k H. unfold idx in H. apply in_map_iff in H. destruct H as [m [E Hm]].
  apply in_seq in Hm. lia.
Qed.

Lemma seq_add_map : forall a n, seq a n = map (fun r => (a + r)%nat) (seq 0 n).
Proof.
  induction a as [|a IH]; intros n.
  - rewrite map_id. reflexivity.
  - rewrite <- seq_shift, IH, map_map. reflexivity.
Qed.

Lemma map_flat_map : forall (A B C : Type) (f : B -> C) (g : A -> list B) l,
  map f (flat_map g l) = flat_map (fun x => map f (g x)) l.
Proof. induction l as [|x l IH]; cbn; [reflexivity|]. rewrite map_app, IH. reflexivity. Qed.

Lemma flat_map_ext_in : forall (A B : Type) (f g : A -> list B) l,
  (forall x, In x l -> f x = g x) -> flat_map f l = flat_map g l.
Proof.
  induction l as [|x l IH]; intros H; cbn; [reflexivity|].
  rewrite H by (left; reflexivity). rewrite IH; [reflexivity|]. intros y Hy. apply H. right. exact Hy.
Qed.

Lemma blocks_nat : forall Pn dn,
  map Z.of_nat (seq 0 (dn * Pn)) =
  flat_map (fun i => map (fun r => i * Z.of_nat Pn + r) (map Z.of_nat (seq 0 Pn))) (map Z.of_nat (seq 0 dn)).
Proof.
  intros Pn. induction dn as [|dn IH].
  - reflexivity.
  - replace (S dn * Pn)%nat with (dn * Pn + Pn)%nat by lia.
    rewrite seq_app, map_app, IH. rewrite seq_S, map_app, flat_map_app. f_equal.
    cbn [map flat_map]. rewrite app_nil_r. cbn [plus].
    rewrite (seq_add_map (dn * Pn) Pn), !map_map. apply map_ext. intros r. lia.
Qed.

Lemma blocks : forall d P, 0 <= d -> 0 <= P ->
  idx (d * P) = flat_map (fun i => map (fun r => i * P + r) (idx P)) (idx d).
Proof.
  intros d P Hd HP. unfold idx. rewrite Z2Nat.inj_mul by lia. rewrite blocks_nat.
  rewrite Z2Nat.id by lia. reflexivity.
Qed.

Lemma box_unravel : forall g, Forall (fun d => 0 < d) g -> box g = map (unravel g) (idx (prodl g)).
Proof.
  induction g as [|d t IH]; intros Hg.
  - reflexivity.
  - inversion Hg as [|? ? Hd Ht]; subst. pose proof (prodl_pos t Ht) as HP.
    cbn [box]. fold (idx d). rewrite prodl_cons, blocks by lia. rewrite map_flat_map.
    apply flat_map_ext_in. intros i Hi. apply in_idx in Hi.
    rewrite (IH Ht), !map_map. apply map_ext_in. intros r Hr. apply in_idx in Hr.
    rewrite unravel_cons. f_equal.
    + replace (i * prodl t + r) with (r + i * prodl t) by lia.
      rewrite Z.div_add by lia. rewrite Z.div_small by lia. rewrite Z.mod_small; lia.
    + replace (i * prodl t + r) with (r + i * prodl t) by lia. symmetry. apply unravel_shift; assumption.
Qed.

Lemma box_length : forall s p, In p (box s) -> length p = length s.
Proof.
  induction s as [|d t IH]; intros p H.
  - cbn in H. destruct H as [H|[]]. subst. reflexivity.
  - cbn [box] in H. apply in_flat_map in H. destruct H as [i [_ H]].
    apply in_map_iff in H. destruct H as [p' [E H]]. subst. cbn. f_equal. apply IH. exact H.
Qed.

(* ---------- folds ---------- *)
Lemma fold_filter : forall (A B : Type) (f : A -> B -> A) (P : B -> bool) l a,
  fold_left f (filter P l) a = fold_left (fun acc x => if P x then f acc x else acc) l a.
Proof.
  induction l as [|x l IH]; intros a; cbn [filter fold_left]; [reflexivity|].
  destruct (P x); cbn [fold_left]; apply IH.
Qed.
Lemma fold_map : forall (A B C : Type) (f : A -> C -> A) (F : B -> C) l a,
  fold_left f (map F l) a = fold_left (fun acc x => f acc (F x)) l a.
Proof. induction l as [|x l IH]; intros a; cbn [map fold_left]; [reflexivity|]. apply IH. Qed.
Lemma fold_ext_in : forall (A B : Type) (f g : A -> B -> A) l a,
  (forall acc x, In x l -> f acc x = g acc x) -> fold_left f l a = fold_left g l a.
Proof.
  induction l as [|x l IH]; intros a H; cbn [fold_left]; [reflexivity|].
  rewrite H by (left; reflexivity). apply IH. intros acc y Hy. apply H. right. exact Hy.
Qed.

Lemma nth_idx_map : forall (V : Type) (f : Z -> V) n j dflt, 0 <= j < n ->
  nth (Z.to_nat j) (map f (idx n)) dflt = f j.
Proof.
  intros V f n j dflt Hj. unfold idx. rewrite map_map.
  rewrite (nth_indep _ dflt (f (Z.of_nat 0))) by (rewrite map_length, seq_length; lia).
  rewrite (map_nth (fun k => f (Z.of_nat k)) (seq 0 (Z.to_nat n)) 0%nat).
  rewrite seq_nth by lia. cbn [plus]. rewrite Z2Nat.id by lia. reflexivity.
Qed.

Section Main.
Variable V : Type.
Variables (vzero : V) (vadd : V -> V -> V) (vnz : V -> bool).
Hypothesis vadd_zero : forall a, vadd a vzero = a.

Lemma centred_length : forall shape pos, length pos = length shape -> length (centred shape pos) = length shape.
Proof. intros shape pos H. unfold centred. rewrite map_length, combine_length. lia. Qed.

Lemma entry_spec : forall shape g vals, Forall (fun d => 0 < d) g -> length shape = length g ->
  forall i j, 0 <= i < prodl g -> 0 <= j < prodl g ->
  entry V vzero vadd (masked V (prodl g) (diagonals V vzero vnz shape g vals)) i j
  = spec_entry V vzero vadd vnz shape g vals (unravel g i) (unravel g j).
Proof.
  intros shape g vals Hg Hs i j Hi Hj.
  unfold entry, masked, diagonals, spec_entry.
  rewrite fold_filter, fold_map, fold_filter.
  apply fold_ext_in. intros acc e He.
  assert (Le : length (centred shape (fst e)) = length g).
  { rewrite centred_length; [exact Hs|]. apply box_length.
    destruct e as [pos v]. apply in_combine_l in He. exact He. }
  cbn [fst snd].
  destruct (vnz (snd e)); cbn [andb]; [|reflexivity].
  fold (idx (prodl g)). rewrite nth_idx_map by lia.
  pose proof (diag_iff g Hg (centred shape (fst e)) i j Le Hi Hj) as D.
  destruct (leqb (vec_add (unravel g i) (centred shape (fst e))) (unravel g j)) eqn:EL.
  - destruct D as [_ D]. specialize (D eq_refl). rewrite !andb_true_iff in D. destruct D as [[D1 D2] D3].
    rewrite D1, D2, D3. reflexivity.
  - destruct (Z.abs (dotz (strides g) (centred shape (fst e))) <? prodl g) eqn:E1; [|reflexivity].
    destruct (dotz (strides g) (centred shape (fst e)) =? j - i) eqn:E2; [|reflexivity].
    destruct (kept g (centred shape (fst e)) (unravel g j)) eqn:E3.
    + destruct D as [D _]. specialize (D eq_refl). discriminate.
    + apply vadd_zero.
Qed.

Theorem stencil_grid_is_spec : forall shape g vals, Forall (fun d => 0 < d) g -> length shape = length g ->
  stencil_grid V vzero vadd vnz shape g vals = spec V vzero vadd vnz shape g vals.
Proof.
  intros shape g vals Hg Hs. unfold stencil_grid, spec. fold (idx (prodl g)).
  rewrite (box_unravel g Hg), map_map. apply map_ext_in. intros i Hi. apply in_idx in Hi.
  rewrite map_map. apply map_ext_in. intros j Hj. apply in_idx in Hj.
  apply entry_spec; assumption.
Qed.
End Main.
