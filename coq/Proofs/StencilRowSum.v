(* C20: row sums of the stencil matrix.  The sum of row p is the sum of the (nonzero) stencil entries whose neighbour p + offset
   exists in the grid -- every grid, every dimension, every integer stencil.  For the finite-difference Poisson stencil this
   gives weak diagonal dominance: every row sum is >= 0 (the stencil sums to zero and only non-positive entries are cut off). *)
From Coq Require Import ZArith List Bool Lia FinFun.
Import ListNotations.
Require Import PV.Base.Ops PV.Model.Stencil PV.Model.StencilRun PV.Model.Poisson PV.Proofs.StencilProofs PV.Proofs.StencilEntry PV.Proofs.PoissonProofs.
Open Scope Z_scope.

Definition sumZ (l : list Z) : Z := fold_left Z.add l 0.
Lemma sumZ_cons a l : sumZ (a :: l) = a + sumZ l.
Proof. unfold sumZ. cbn [fold_left]. rewrite (fold_add_acc l (0 + a)). lia. Qed.
Lemma sumZ_nil : sumZ [] = 0. Proof. reflexivity. Qed.
Lemma sumZ_app a b : sumZ (a ++ b) = sumZ a + sumZ b.
Proof. induction a as [|x a IH]; [cbn [app]; rewrite sumZ_nil; lia|]. cbn [app]. rewrite !sumZ_cons, IH. lia. Qed.

Lemma fold_cond_sum {E} (c : E -> bool) (w : E -> Z) es : forall a,
  fold_left (fun acc e => if c e then acc + w e else acc) es a = a + sumZ (map (fun e => if c e then w e else 0) es).
Proof.
  induction es as [|e es IH]; intros a; cbn [fold_left map]; [rewrite sumZ_nil; lia|].
  rewrite IH, sumZ_cons. destruct (c e); lia.
Qed.

Lemma sum_exchange {A B} (f : A -> B -> Z) (qs : list A) (es : list B) :
  sumZ (map (fun q => sumZ (map (f q) es)) qs) = sumZ (map (fun e => sumZ (map (fun q => f q e) qs)) es).
Proof.
  induction qs as [|q qs IH]; cbn [map].
  - rewrite sumZ_nil. induction es as [|e es IHe]; [reflexivity|].
    cbn [map]. rewrite sumZ_cons, <- IHe. lia.
  - rewrite sumZ_cons, IH. clear IH. induction es as [|e es IHe]; cbn [map]; [rewrite !sumZ_nil; lia|].
    rewrite !sumZ_cons, <- IHe. lia.
Qed.

Lemma leqb_eq : forall a b, length a = length b -> (leqb a b = true <-> a = b).
Proof.
  induction a as [|x a IH]; intros [|y b] H; try discriminate; [cbn; tauto|].
  unfold leqb. cbn [combine forallb fst snd]. fold (leqb a b). rewrite andb_true_iff, IH by (cbn in H; lia). split.
  - intros [H1 H2]. f_equal; [lia|exact H2].
  - intros E. injection E as E1 E2. split; [lia|exact E2].
Qed.

Lemma sum_single (t : list Z) (w : Z) : forall qs, NoDup qs -> (forall q, In q qs -> length q = length t) ->
  sumZ (map (fun q => if leqb t q then w else 0) qs) = if in_dec list_eq_dec_Z t qs then w else 0.
Proof.
  induction qs as [|q qs IH]; intros ND HL; [reflexivity|].
  inversion ND as [|? ? Hq ND']; subst. cbn [map]. rewrite sumZ_cons, IH by (try assumption; intros q' Hq'; apply HL; right; exact Hq').
  destruct (leqb t q) eqn:E.
  - apply leqb_eq in E; [|symmetry; apply HL; left; reflexivity]. subst q.
    destruct (in_dec list_eq_dec_Z t (t :: qs)) as [_|n]; [|exfalso; apply n; left; reflexivity].
    destruct (in_dec list_eq_dec_Z t qs); [contradiction|lia].
  - assert (t <> q). { intros ->. rewrite (proj2 (leqb_eq q q eq_refl) eq_refl) in E. discriminate. }
    destruct (in_dec list_eq_dec_Z t (q :: qs)) as [i|n]; destruct (in_dec list_eq_dec_Z t qs) as [i'|n']; try lia.
    + destruct i as [i|i]; [congruence|contradiction].
    + exfalso. apply n. right. exact i'.
Qed.

Lemma nodup_map_in {A B} (f : A -> B) l : (forall a b, In a l -> In b l -> f a = f b -> a = b) -> NoDup l -> NoDup (map f l).
Proof.
  induction l as [|x l IH]; intros Hinj ND; [constructor|]. inversion ND as [|? ? Hx ND']; subst. cbn [map]. constructor.
  - intros H. apply in_map_iff in H. destruct H as [y [E Hy]]. apply Hx.
    rewrite (Hinj x y (or_introl eq_refl) (or_intror Hy) (eq_sym E)). exact Hy.
  - apply IH; [|exact ND']. intros a b Ha Hb. apply Hinj; right; assumption.
Qed.
Lemma box_nodup g : Forall (fun d => 0 < d) g -> NoDup (box g).
Proof.
  intros Hg. rewrite (box_unravel g Hg). apply nodup_map_in.
  - intros a b Ha Hb E. apply in_idx in Ha. apply in_idx in Hb.
    rewrite <- (ravel_unravel g Hg a Ha), <- (ravel_unravel g Hg b Hb), E. reflexivity.
  - apply idx_nodup.
Qed.
Lemma in_box_iff g q : Forall (fun d => 0 < d) g -> (In q (box g) <-> valid g q).
Proof.
  intros Hg. rewrite (box_unravel g Hg). split.
  - intros H. apply in_map_iff in H. destruct H as [k [E _]]. subst q. apply unravel_valid. exact Hg.
  - intros H. apply in_map_iff. exists (dotz (strides g) q). split; [apply unravel_ravel; exact H|].
    apply idx_in. apply ravel_range. exact H.
Qed.

Definition row_sum (shape g vals p : list Z) : Z := sumZ (map (fun q => spec_entry Z 0 Z.add (fun v => negb (v =? 0)) shape g vals p q) (box g)).

Theorem stencil_row_sum shape g vals p : Forall (fun d => 0 < d) g -> length shape = length g -> length p = length g ->
  row_sum shape g vals p =
  sumZ (map (fun e => if negb (snd e =? 0) && validb g (vec_add p (centred shape (fst e))) then snd e else 0) (combine (box shape) vals)).
Proof.
  intros Hg Hs Hp. unfold row_sum, spec_entry.
  rewrite (map_ext _ (fun q => sumZ (map (fun e => if negb (snd e =? 0) && leqb (vec_add p (centred shape (fst e))) q then snd e else 0)
                                          (combine (box shape) vals)))) by (intros q; rewrite fold_cond_sum; lia).
  rewrite (sum_exchange (fun q e => if negb (snd e =? 0) && leqb (vec_add p (centred shape (fst e))) q then snd e else 0)).
  f_equal. apply map_ext_in. intros e He.
  assert (Lt : length (vec_add p (centred shape (fst e))) = length g).
  { unfold vec_add. rewrite map_length, combine_length, centred_length; [lia|].
    apply box_length. destruct e as [pos v]. apply in_combine_l in He. exact He. }
  destruct (negb (snd e =? 0)); cbn [andb].
  - rewrite (sum_single _ (snd e) (box g) (box_nodup g Hg)) by (intros q Hq; rewrite Lt; apply box_length; exact Hq).
    destruct (in_dec list_eq_dec_Z _ (box g)) as [i|n].
    + apply (in_box_iff g _ Hg) in i. apply validb_iff in i. rewrite i. reflexivity.
    + destruct (validb g _) eqn:E; [|reflexivity]. exfalso. apply n. apply (in_box_iff g _ Hg). apply validb_iff. exact E.
  - clear. induction (box g) as [|q qs IH]; [reflexivity|]. cbn [map]. rewrite sumZ_cons, IH. reflexivity.
Qed.

(* ---- the FD Poisson stencil sums to zero, in every dimension ---- *)
Lemma box3_cons s : box (3 :: s) = map (cons 0) (box s) ++ map (cons 1) (box s) ++ map (cons 2) (box s).
Proof. cbn [box]. change (map Z.of_nat (seq 0 (Z.to_nat 3))) with [0; 1; 2]. cbn [flat_map]. rewrite app_nil_r. reflexivity. Qed.

Definition sel (c0 c1 : Z) (t : list Z) : Z := match ndiff t with O => c0 | S O => c1 | _ => 0 end.
Lemma ndiff_cons x t : ndiff (x :: t) = ((if (x =? 1)%Z then 0 else 1) + ndiff t)%nat.
Proof. unfold ndiff. cbn [filter]. destruct (x =? 1); reflexivity. Qed.

Lemma stencil_total : forall (N : nat) c0 c1, sumZ (map (sel c0 c1) (box (repeat 3 N))) = c0 + 2 * Z.of_nat N * c1.
Proof.
  induction N as [|N IH]; intros c0 c1.
  - cbn. unfold sumZ. cbn. lia.
  - cbn [repeat]. rewrite box3_cons, !map_app, !map_map, !sumZ_app.
    rewrite (map_ext (fun t => sel c0 c1 (0 :: t)) (sel c1 0)), (map_ext (fun t => sel c0 c1 (1 :: t)) (sel c0 c1)),
            (map_ext (fun t => sel c0 c1 (2 :: t)) (sel c1 0)).
    + rewrite !IH. lia.
    + intros t. unfold sel. rewrite ndiff_cons. cbn. destruct (ndiff t) as [|[|k]]; reflexivity.
    + intros t. unfold sel. rewrite ndiff_cons. cbn. reflexivity.
    + intros t. unfold sel. rewrite ndiff_cons. cbn. destruct (ndiff t) as [|[|k]]; reflexivity.
Qed.

Lemma sumZ_le (f h : list Z -> Z) l : (forall t, In t l -> f t <= h t) -> sumZ (map f l) <= sumZ (map h l).
Proof.
  induction l as [|t l IH]; intros H; [unfold sumZ; cbn; lia|]. cbn [map]. rewrite !sumZ_cons.
  specialize (H t (or_introl eq_refl)) as H1. specialize (IH (fun t' Ht' => H t' (or_intror Ht'))). lia.
Qed.

(* weak diagonal dominance of the FD Poisson matrix: every row sum is >= 0 (and the diagonal is 2N, the rest <= 0) *)
Theorem poisson_fd_row_sums_nonneg g p : Forall (fun d => 0 < d) g -> valid g p ->
  0 <= sumZ (map (fun q => fd_entry (length g) p q) (box g)).
Proof.
  intros Hg Hp. set (N := length g). pose proof (valid_length _ _ Hp) as Lp.
  assert (E : sumZ (map (fun q => fd_entry N p q) (box g)) = row_sum (poisson_shape N) g (map (poisson_fd N) (box (poisson_shape N))) p).
  { unfold row_sum. f_equal. apply map_ext_in. intros q Hq. symmetry.
    apply (poisson_spec_entry false g p q); [exact Lp|apply box_length; exact Hq]. }
  rewrite E, stencil_row_sum by (try assumption; apply poisson_shape_length).
  rewrite combine_map_l, map_map. cbn [fst snd].
  pose proof (stencil_total N (2 * Z.of_nat N) (-1)) as T.
  change (sel (2 * Z.of_nat N) (-1)) with (poisson_fd N) in T. fold (poisson_shape N) in T.
  assert (Z0 : 2 * Z.of_nat N + 2 * Z.of_nat N * -1 = 0) by lia. rewrite Z0 in T.
  apply Z.le_trans with (sumZ (map (poisson_fd N) (box (poisson_shape N)))); [rewrite T; lia|].
  apply sumZ_le. intros t Ht.
  destruct (negb (poisson_fd N t =? 0)) eqn:E1; cbn [andb].
  - destruct (validb g (vec_add p (centred (poisson_shape N) t))) eqn:E2; cbv iota; [lia|].
    (* cut off: t is not the centre, so the entry is <= 0 *)
    unfold poisson_fd. destruct (ndiff t) as [|[|k]] eqn:En; try lia.
    exfalso. (* ndiff t = 0: t is the centre, offset zero, p + 0 = p is valid *)
    assert (Lt : length t = N) by (rewrite (box_length _ _ Ht); apply poisson_shape_length).
    assert (Hc : vec_add p (centred (poisson_shape N) t) = p).
    { rewrite centred_sub, centre_poisson. clear -En Lt Lp. subst N. revert t p Lt Lp En.
      induction g as [|d g' IH]; intros [|x t] [|y p] Lt Lp En; try discriminate; [reflexivity|].
      cbn [length repeat] in *. rewrite ndiff_cons in En. destruct (Z.eqb_spec x 1); [|discriminate]. subst x.
      unfold vec_add, vec_sub. cbn [combine map fst snd]. f_equal; [lia|].
      apply IH; cbn in *; lia. }
    rewrite Hc in E2. apply validb_iff in Hp. congruence.
  - cbv iota. apply negb_false_iff in E1. apply Z.eqb_eq in E1. lia.
Qed.
