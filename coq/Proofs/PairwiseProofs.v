(* C12, unbounded: one pairwise matching (kernel pairwise_aggregation as modelled in Model/Aggregate.v) on EVERY graph whose
   column indices are in range and for every weight vector: the kernel returns (the multimap of unaggregated nodes shrinks in
   every round), every node receives an aggregate id in 1..c, every aggregate 1..c has one or two members.  The invariant:
   the values stored in the multimap are exactly the unaggregated nodes, each once. *)
From Coq Require Import ZArith List Bool Lia FinFun.
Import ListNotations.
Require Import PV.Model.GraphAlg PV.Model.Aggregate PV.Proofs.NaiveAggProofs.
Open Scope Z_scope.

Definition vals (m : mm) : list Z := map snd m.

Lemma in_vals_insert m k w v : In v (vals (mm_insert m k w)) <-> v = w \/ In v (vals m).
Proof.
  induction m as [|[k' v'] t IH]; cbn [mm_insert vals map snd In].
  - intuition.
  - destruct (k' <=? k); cbn [vals map snd In]; [|intuition].
    fold (vals (mm_insert t k w)). fold (vals t). rewrite IH. intuition.
Qed.
Lemma in_vals_erase m w v : In v (vals (mm_erase m w)) <-> In v (vals m) /\ v <> w.
Proof.
  unfold vals, mm_erase. rewrite !in_map_iff. split.
  - intros [p [E H]]. apply filter_In in H. destruct H as [H1 H2]. subst v.
    split; [exists p; auto|]. apply negb_true_iff in H2. apply Z.eqb_neq in H2. exact H2.
  - intros [[p [E H]] Hne]. exists p. split; [exact E|]. apply filter_In. split; [exact H|].
    apply negb_true_iff. apply Z.eqb_neq. congruence.
Qed.
Lemma nodup_insert m k w : NoDup (vals m) -> ~ In w (vals m) -> NoDup (vals (mm_insert m k w)).
Proof.
  induction m as [|[k' v'] t IH]; intros ND Hn; cbn [mm_insert].
  - cbn. constructor; [intros []|constructor].
  - destruct (k' <=? k).
    + cbn [vals map snd] in *. fold (vals t) in *. fold (vals (mm_insert t k w)).
      inversion ND as [|? ? Hv ND']; subst. constructor.
      * rewrite in_vals_insert. intros [E|H]; [subst; apply Hn; left; reflexivity|contradiction].
      * apply IH; [exact ND'|]. intros H. apply Hn. right. exact H.
    + cbn [vals map snd]. constructor; [exact Hn|exact ND].
Qed.
Lemma nodup_erase m w : NoDup (vals m) -> NoDup (vals (mm_erase m w)).
Proof.
  induction m as [|[k' v'] t IH]; intros ND; cbn [mm_erase filter]; [constructor|].
  cbn [vals map snd] in ND. fold (vals t) in ND. inversion ND as [|? ? Hv ND']; subst.
  cbn [snd]. destruct (negb (v' =? w)); [|apply IH; exact ND'].
  cbn [vals map snd]. fold (mm_erase t w). fold (vals (mm_erase t w)). constructor; [|apply IH; exact ND'].
  rewrite in_vals_erase. tauto.
Qed.

Lemma vals_decr x : forall row m v,
  In v (vals (mm_decr_row x m row)) <-> In v (vals m) \/ (In v row /\ get x v = 0).
Proof.
  induction row as [|j row IH]; intros m v; cbn [mm_decr_row fold_left].
  - cbn. tauto.
  - fold (mm_decr_row x (if get x j =? 0 then mm_insert (mm_erase m j) (mm_key m j - 1) j else m) row).
    rewrite IH. destruct (Z.eqb_spec (get x j) 0) as [E|E].
    + rewrite in_vals_insert, in_vals_erase. cbn [In]. split.
      * intros [[H|[H _]]|[H1 H2]]; [subst; right; split; [left; reflexivity|exact E]|left; exact H|right; split; [right; exact H1|exact H2]].
      * intros [H|[[H|H] H2]].
        -- destruct (Z.eq_dec v j) as [->|Hne]; [left; left; reflexivity|left; right; split; assumption].
        -- subst. left. left. reflexivity.
        -- right. split; assumption.
    + cbn [In]. split; [intros [H|[H1 H2]]; [left; exact H|right; split; [right; exact H1|exact H2]]|].
      intros [H|[[H|H] H2]]; [left; exact H|subst; contradiction|right; split; assumption].
Qed.
Lemma nodup_decr x : forall row m, NoDup (vals m) -> NoDup (vals (mm_decr_row x m row)).
Proof.
  induction row as [|j row IH]; intros m ND; cbn [mm_decr_row fold_left]; [exact ND|].
  fold (mm_decr_row x (if get x j =? 0 then mm_insert (mm_erase m j) (mm_key m j - 1) j else m) row).
  apply IH. destruct (get x j =? 0); [|exact ND].
  apply nodup_insert; [apply nodup_erase; exact ND|]. rewrite in_vals_erase. tauto.
Qed.

(* count of an id in x *)
Lemma count_setn (x : list Z) : forall i v c, (i < length x)%nat ->
  (count_occ Z.eq_dec (setn x i v) c + (if Z.eq_dec (nth i x 0%Z) c then 1 else 0)
   = count_occ Z.eq_dec x c + (if Z.eq_dec v c then 1 else 0))%nat.
Proof.
  induction x as [|h t IH]; intros [|i] v c H; cbn [length] in H; try lia.
  - cbn [setn nth count_occ]. destruct (Z.eq_dec v c), (Z.eq_dec h c); lia.
  - cbn [setn nth count_occ]. specialize (IH i v c ltac:(lia)). destruct (Z.eq_dec h c); lia.
Qed.
Lemma count_set (x : list Z) i v c : 0 <= i < Z.of_nat (length x) ->
  (count_occ Z.eq_dec (set x i v) c + (if Z.eq_dec (get x i) c then 1 else 0)
   = count_occ Z.eq_dec x c + (if Z.eq_dec v c then 1 else 0))%nat.
Proof.
  intros H. unfold set, get. destruct (Z.ltb_spec i 0); [lia|]. apply count_setn. lia.
Qed.
Lemma count_zero_above (x : list Z) c : (forall v, In v x -> v < c) -> count_occ Z.eq_dec x c = 0%nat.
Proof. intros H. apply count_occ_not_In. intros Hin. specialize (H c Hin). lia. Qed.

Section N.
Variables (N : nat) (Ap Aj : list Z).
Let n := Z.of_nat N.
Hypothesis cols_in_range : forall i, 0 <= i < n -> forall j, In j (nbrs Ap Aj i) -> 0 <= j < n.
Variable Sx : list Z.

Lemma in_get (x : list Z) v : length x = N -> In v x -> exists k, 0 <= k < n /\ get x k = v.
Proof.
  intros L H. destruct (In_nth x v 0 H) as [k [Hk E]]. exists (Z.of_nat k). split; [unfold n; lia|].
  unfold get. rewrite Nat2Z.id. exact E.
Qed.

Record Inv (x : list Z) (m : mm) (next : Z) : Prop := {
  iL : length x = N;
  iV : forall v, In v (vals m) <-> (0 <= v < n /\ get x v = 0);
  iND : NoDup (vals m);
  iB : 1 <= next /\ forall k, 0 <= k < n -> 0 <= get x k < next;
  iC2 : forall c, 1 <= c -> (count_occ Z.eq_dec x c <= 2)%nat;
  iC1 : forall c, 1 <= c < next -> exists r, 0 <= r < n /\ get x r = c }.

(* the strongest unaggregated neighbour *)
Definition bstep (x1 : list Z) (b : option (Z * Z)) (jj : Z) : option (Z * Z) :=
  let j := get Aj jj in
  if (get x1 j =? 0) && (match b with None => true | Some (mv, _) => mv <=? get Sx jj end)
  then Some (get Sx jj, j) else b.
Definition best_of (x1 : list Z) (i : Z) : option (Z * Z) :=
  fold_left (bstep x1) (zr (get Ap i) (get Ap (i + 1))) None.
Lemma best_spec x1 i mv j : best_of x1 i = Some (mv, j) -> In j (nbrs Ap Aj i) /\ get x1 j = 0.
Proof.
  unfold best_of, nbrs.
  assert (G : forall l b, (match b with Some (_, j) => In j (map (get Aj) (zr (get Ap i) (get Ap (i + 1)))) /\ get x1 j = 0 | None => True end) ->
     incl l (zr (get Ap i) (get Ap (i + 1))) ->
     match fold_left (bstep x1) l b with
     | Some (_, j) => In j (map (get Aj) (zr (get Ap i) (get Ap (i + 1)))) /\ get x1 j = 0 | None => True end).
  { induction l as [|jj l IH]; intros b Hb Hl; cbn [fold_left]; [exact Hb|].
    apply IH; [|intros a Ha; apply Hl; right; exact Ha].
    unfold bstep. cbv zeta. destruct (get x1 (get Aj jj) =? 0) eqn:E; cbn [andb]; [|exact Hb].
    destruct (match b with None => true | Some (mv0, _) => mv0 <=? get Sx jj end); [|exact Hb].
    split; [apply in_map; apply Hl; left; reflexivity|apply Z.eqb_eq; exact E]. }
  intros H. specialize (G (zr (get Ap i) (get Ap (i + 1))) None I (incl_refl _)).
  rewrite H in G. exact G.
Qed.

Definition step (x y : list Z) (m : mm) (next i : Z) : list Z * list Z * mm * Z :=
  let idx := zr (get Ap i) (get Ap (i + 1)) in
  let x1 := set x i next in
  let best := best_of x1 i in
  let x2 := match best with Some (_, j) => set x1 j next | None => x1 end in
  let y' := set y (next - 1) i in
  let m1 := mm_erase (mm_decr_row x2 m (map (get Aj) idx)) i in
  let m2 := match best with
            | Some (_, j) => mm_erase (mm_decr_row x2 m1 (nbrs Ap Aj j)) j
            | None => m1 end in
  (x2, y', m2, next + 1).

Lemma pw_loop_step fuel x y k i t next :
  pw_loop Ap Aj (S fuel) Sx x y ((k, i) :: t) next =
  let '(x2, y', m2, next') := step x y ((k, i) :: t) next i in pw_loop Ap Aj fuel Sx x2 y' m2 next'.
Proof. reflexivity. Qed.

Lemma step_inv x y k i t next : Inv x ((k, i) :: t) next ->
  let '(x2, y', m2, next') := step x y ((k, i) :: t) next i in
  Inv x2 m2 next' /\ (length m2 < length ((k, i) :: t))%nat.
Proof.
  intros [L V ND [B1 B] C2 C1]. set (m := (k, i) :: t) in *.
  assert (Hi : 0 <= i < n /\ get x i = 0) by (apply V; left; reflexivity). destruct Hi as [Hi Hxi].
  unfold step. set (x1 := set x i next).
  assert (L1 : length x1 = N) by (unfold x1; rewrite length_set; exact L).
  assert (X1i : get x1 i = next) by (unfold x1; apply get_set_same; rewrite L; exact Hi).
  assert (X1o : forall v, 0 <= v -> v <> i -> get x1 v = get x v) by (intros v Hv Hne; unfold x1; apply get_set_other; lia).
  assert (Cx : forall v, In v x -> v < next).
  { intros v Hv. destruct (in_get x v L Hv) as [q [Hq E]]. specialize (B q Hq). lia. }
  assert (Cn0 : count_occ Z.eq_dec x next = 0%nat) by (apply count_zero_above; exact Cx).
  assert (Cx1 : forall c, 1 <= c -> count_occ Z.eq_dec x1 c = (count_occ Z.eq_dec x c + (if Z.eq_dec next c then 1 else 0))%nat).
  { intros c Hc. pose proof (count_set x i next c ltac:(rewrite L; exact Hi)) as E. fold x1 in E. rewrite Hxi in E.
    destruct (Z.eq_dec 0 c); [lia|]. lia. }
  destruct (best_of x1 i) as [[mv j]|] eqn:EB.
  - destruct (best_spec x1 i mv j EB) as [Hjn Hj0].
    assert (Hj : 0 <= j < n) by (apply (cols_in_range i Hi); exact Hjn).
    assert (Hji : j <> i) by (intros E; subst j; rewrite X1i in Hj0; lia).
    assert (Hxj : get x j = 0) by (rewrite <- X1o by lia; exact Hj0).
    set (x2 := set x1 j next).
    assert (L2 : length x2 = N) by (unfold x2; rewrite length_set; exact L1).
    assert (X2 : forall v, 0 <= v < n -> get x2 v = if Z.eq_dec v i then next else if Z.eq_dec v j then next else get x v).
    { intros v Hv. unfold x2. destruct (Z.eq_dec v j) as [->|Hnj].
      - rewrite get_set_same by (rewrite L1; exact Hj). destruct (Z.eq_dec j i); reflexivity.
      - rewrite get_set_other by lia. destruct (Z.eq_dec v i) as [->|Hni]; [exact X1i|apply X1o; lia]. }
    assert (Z2 : forall v, 0 <= v < n -> (get x2 v = 0 <-> get x v = 0 /\ v <> i /\ v <> j)).
    { intros v Hv. rewrite (X2 v Hv). destruct (Z.eq_dec v i); [lia|]. destruct (Z.eq_dec v j); [lia|]. tauto. }
    set (m1 := mm_erase (mm_decr_row x2 m (map (get Aj) (zr (get Ap i) (get Ap (i + 1))))) i).
    set (m2 := mm_erase (mm_decr_row x2 m1 (nbrs Ap Aj j)) j).
    assert (V2 : forall v, In v (vals m2) <-> (0 <= v < n /\ get x2 v = 0)).
    { intros v. unfold m2, m1. rewrite in_vals_erase, vals_decr, in_vals_erase, vals_decr, V. fold (nbrs Ap Aj i). split.
      - intros [[[[[Hv Hx]|[Hr Hx]] Hni]|[Hr Hx]] Hnj].
        + split; [exact Hv|]. apply Z2; tauto.
        + assert (Hv : 0 <= v < n) by (apply (cols_in_range i Hi); exact Hr). tauto.
        + assert (Hv : 0 <= v < n) by (apply (cols_in_range j Hj); exact Hr). tauto.
      - intros [Hv Hx]. pose proof (proj1 (Z2 v Hv) Hx) as [H0 [H1 H2]]. split; [|exact H2]. left. split; [|exact H1]. left. tauto. }
    assert (ND2 : NoDup (vals m2)) by (unfold m2, m1; apply nodup_erase, nodup_decr, nodup_erase, nodup_decr; exact ND).
    split; [constructor|].
    + exact L2.
    + exact V2.
    + exact ND2.
    + split; [lia|]. intros v Hv. rewrite (X2 v Hv). destruct (Z.eq_dec v i); [lia|]. destruct (Z.eq_dec v j); [lia|].
      specialize (B v Hv). lia.
    + intros c Hc. pose proof (count_set x1 j next c ltac:(rewrite L1; exact Hj)) as E. fold x2 in E. rewrite Hj0 in E.
      rewrite (Cx1 c Hc) in E. specialize (C2 c Hc). destruct (Z.eq_dec 0 c); [lia|]. destruct (Z.eq_dec next c); [subst c; lia|lia].
    + intros c Hc. destruct (Z.eq_dec c next) as [->|Hne].
      * exists i. split; [exact Hi|]. rewrite (X2 i Hi). destruct (Z.eq_dec i i); [reflexivity|congruence].
      * destruct (C1 c ltac:(lia)) as [r [Hr Er]]. exists r. split; [exact Hr|]. rewrite (X2 r Hr).
        destruct (Z.eq_dec r i); [subst r; lia|]. destruct (Z.eq_dec r j); [subst r; lia|exact Er].
    + (* the multimap shrinks *)
      assert (Hincl : incl (vals m2) (remove Z.eq_dec i (vals m))).
      { intros v Hv. apply V2 in Hv. destruct Hv as [Hv Hx]. apply Z2 in Hx; [|exact Hv]. apply in_in_remove; [tauto|]. apply V. tauto. }
      pose proof (NoDup_incl_length ND2 Hincl) as H1.
      pose proof (remove_length_lt Z.eq_dec (vals m) i ltac:(left; reflexivity)) as H2.
      unfold vals in H1, H2. rewrite !map_length in *. lia.
  - set (m1 := mm_erase (mm_decr_row x1 m (map (get Aj) (zr (get Ap i) (get Ap (i + 1))))) i).
    assert (Z1 : forall v, 0 <= v < n -> (get x1 v = 0 <-> get x v = 0 /\ v <> i)).
    { intros v Hv. destruct (Z.eq_dec v i) as [->|Hne]; [rewrite X1i; lia|]. rewrite X1o by lia. tauto. }
    assert (V1 : forall v, In v (vals m1) <-> (0 <= v < n /\ get x1 v = 0)).
    { intros v. unfold m1. rewrite in_vals_erase, vals_decr, V. fold (nbrs Ap Aj i). split.
      - intros [[[Hv Hx]|[Hr Hx]] Hni].
        + split; [exact Hv|]. apply Z1; tauto.
        + assert (Hv : 0 <= v < n) by (apply (cols_in_range i Hi); exact Hr). tauto.
      - intros [Hv Hx]. pose proof (proj1 (Z1 v Hv) Hx) as [H0 H1]. split; [|exact H1]. left. tauto. }
    assert (ND1 : NoDup (vals m1)) by (unfold m1; apply nodup_erase, nodup_decr; exact ND).
    split; [constructor|].
    + exact L1.
    + exact V1.
    + exact ND1.
    + split; [lia|]. intros v Hv. destruct (Z.eq_dec v i) as [->|Hne]; [rewrite X1i; lia|]. rewrite X1o by lia. specialize (B v Hv). lia.
    + intros c Hc. rewrite (Cx1 c Hc). specialize (C2 c Hc). destruct (Z.eq_dec next c); [subst c; lia|lia].
    + intros c Hc. destruct (Z.eq_dec c next) as [->|Hne].
      * exists i. split; [exact Hi|exact X1i].
      * destruct (C1 c ltac:(lia)) as [r [Hr Er]]. exists r. split; [exact Hr|]. rewrite X1o; [exact Er|lia|intros E; subst r; lia].
    + assert (Hincl : incl (vals m1) (remove Z.eq_dec i (vals m))).
      { intros v Hv. apply V1 in Hv. destruct Hv as [Hv Hx]. apply Z1 in Hx; [|exact Hv]. apply in_in_remove; [tauto|]. apply V. tauto. }
      pose proof (NoDup_incl_length ND1 Hincl) as H1.
      pose proof (remove_length_lt Z.eq_dec (vals m) i ltac:(left; reflexivity)) as H2.
      unfold vals in H1, H2. rewrite !map_length in *. lia.
Qed.

Definition post (r : list Z * list Z * Z) : Prop :=
  let '(x, _, c) := r in
  length x = N /\ 0 <= c /\
  (forall k, 0 <= k < n -> 1 <= get x k <= c) /\
  (forall a, 1 <= a <= c -> (1 <= count_occ Z.eq_dec x a <= 2)%nat).

Lemma pw_loop_total : forall fuel x y m next, Inv x m next -> (length m < fuel)%nat ->
  exists r, pw_loop Ap Aj fuel Sx x y m next = Some r /\ post r.
Proof.
  induction fuel as [|fuel IH]; intros x y m next HI Hf; [lia|].
  destruct m as [|[k i] t].
  - cbn [pw_loop]. eexists. split; [reflexivity|]. destruct HI as [L V ND [B1 B] C2 C1]. unfold post.
    split; [exact L|]. split; [lia|]. split.
    + intros q Hq. specialize (B q Hq). assert (get x q <> 0) by (intros E; assert (HF : In q (vals [])) by (apply V; tauto); destruct HF). lia.
    + intros a Ha. split; [|apply C2; lia]. destruct (C1 a ltac:(lia)) as [r [Hr Er]].
      assert (Hin : In a x). { rewrite <- Er. unfold get. apply nth_In. rewrite L. unfold n in Hr. lia. }
      apply (count_occ_In Z.eq_dec) in Hin. lia.
  - rewrite pw_loop_step. pose proof (step_inv x y k i t next HI) as S.
    destruct (step x y ((k, i) :: t) next i) as [[[x2 y'] m2] next']. destruct S as [HI2 Hlen].
    apply IH; [exact HI2|cbn [length] in *; lia].
Qed.

Lemma vals_init (deg : list Z) : forall l m, (forall v, In v (vals (fold_left (fun m i => mm_insert m (get deg i) i) l m)) <-> In v (vals m) \/ In v l).
Proof.
  induction l as [|a l IH]; intros m v; cbn [fold_left]; [cbn; tauto|].
  rewrite IH, in_vals_insert. cbn [In]. intuition.
Qed.
Lemma nodup_init (deg : list Z) : forall l m, NoDup (vals m) -> NoDup l -> (forall v, In v l -> ~ In v (vals m)) ->
  NoDup (vals (fold_left (fun m i => mm_insert m (get deg i) i) l m)).
Proof.
  induction l as [|a l IH]; intros m NDm NDl Hd; cbn [fold_left]; [exact NDm|].
  inversion NDl as [|? ? Ha NDl']; subst. apply IH; [apply nodup_insert; [exact NDm|apply Hd; left; reflexivity]|exact NDl'|].
  intros v Hv. rewrite in_vals_insert. intros [E|H]; [subst; contradiction|]. apply (Hd v); [right; exact Hv|exact H].
Qed.

Lemma in_zr a b v : In v (zr a b) <-> a <= v < b.
Proof.
  unfold zr. rewrite in_map_iff. split.
  - intros [k [E H]]. apply in_seq in H. lia.
  - intros H. exists (Z.to_nat (v - a)). split; [lia|]. apply in_seq. lia.
Qed.
Lemma nodup_zr a b : NoDup (zr a b).
Proof. unfold zr. apply Injective_map_NoDup; [|apply seq_NoDup]. intros p q H. lia. Qed.

Theorem pairwise_matching_correct (y0 : list Z) :
  exists r, pairwise_aggregation n Ap Aj Sx y0 = Some r /\ post r.
Proof.
  unfold pairwise_aggregation.
  set (deg := fold_left _ (zr 0 n) (fillz n 0)).
  set (m0 := fold_left (fun m i => mm_insert m (get deg i) i) (zr 0 n) []).
  assert (V0 : forall v, In v (vals m0) <-> 0 <= v < n).
  { intros v. unfold m0. rewrite vals_init, in_zr. cbn. tauto. }
  assert (ND0 : NoDup (vals m0)).
  { unfold m0. apply nodup_init; [constructor|apply nodup_zr|intros v _ []]. }
  assert (Len : length m0 = N).
  { assert (E : length (vals m0) = length (zr 0 n)).
    { apply Nat.le_antisymm; apply NoDup_incl_length; try assumption; try apply nodup_zr; intros v Hv.
      - apply in_zr. apply V0. exact Hv. - apply V0. apply in_zr. exact Hv. }
    unfold vals in E. rewrite map_length in E. rewrite E. unfold zr. rewrite map_length, seq_length. unfold n. lia. }
  apply pw_loop_total.
  - unfold n in *. constructor.
    + apply length_fillz.
    + intros v. rewrite V0. split; [intros H; split; [exact H|apply get_fillz; exact H]|tauto].
    + exact ND0.
    + split; [lia|]. intros k Hk. rewrite get_fillz by exact Hk. lia.
    + intros c Hc. rewrite count_zero_above; [lia|]. intros v Hv. unfold fillz in Hv. apply in_map_iff in Hv. destruct Hv as [? [E _]]. lia.
    + intros c Hc. lia.
  - rewrite Len. unfold n. rewrite Nat2Z.id. lia.
Qed.
End N.
