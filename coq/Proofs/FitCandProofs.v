(* C10: the tentative prolongator reproduces the candidates: every column b_j of the local
   candidate block equals  sum_{i<j} R[i,j] q_i + R[j,j] q_j  (when it is not dropped), and the
   defect of a dropped column is exactly the discarded remainder.  Over any field, for any
   function used as square root. *)
From Coq Require Import ZArith List Bool Lia Ring Field.
Import ListNotations.
Require Import PV.Base.Ops PV.Model.FitCand.

Section P.
Variable F : Type.
Variables (r0 r1 : F) (radd rmul rsub : F -> F -> F) (ropp : F -> F) (rdiv : F -> F -> F) (rinv : F -> F).
Variables (rabs : F -> F) (reqb rleb rltb : F -> F -> bool) (fsqrt : F -> F).
Hypothesis Fth : field_theory r0 r1 radd rmul rsub ropp rdiv rinv (@eq F).
Add Field Ff : Fth.
Let o : Ops F := mkOps F r0 r1 radd rsub rmul rdiv ropp rabs reqb rleb rltb.
Notation "a + b" := (radd a b). Notation "a * b" := (rmul a b). Notation "a - b" := (rsub a b).

(* entry k of a vector, zero beyond its end *)
Definition at_ (v : list F) (k : nat) : F := nth k v r0.
(* entry k of  sum_i d_i q_i *)
Fixpoint comb (qs : list (list F)) (ds : list F) (k : nat) : F :=
  match qs, ds with q :: qs', d :: ds' => d * at_ q k + comb qs' ds' k | _, _ => r0 end.

Lemma at_vaxmy d q v k : length q = length v -> at_ (vaxmy o d q v) k = at_ v k - d * at_ q k.
Proof.
  unfold at_, vaxmy. revert q k. induction v as [|a v IH]; intros [|b q] k H; cbn in *; try discriminate.
  - destruct k; cbn; ring.
  - destruct k as [|k]; cbn; [reflexivity|apply IH; lia].
Qed.
Lemma length_vaxmy d q v : length q = length v -> length (vaxmy o d q v) = length v.
Proof.
  unfold vaxmy. revert q. induction v as [|a v IH]; intros [|b q] H; cbn in *; try discriminate; [reflexivity|].
  f_equal. apply IH. lia.
Qed.
Lemma comb_app qs ds q d k : length qs = length ds -> comb (qs ++ [q]) (ds ++ [d]) k = comb qs ds k + d * at_ q k.
Proof.
  revert ds. induction qs as [|q0 qs IH]; intros [|d0 ds] H; cbn in *; try discriminate; [ring|].
  rewrite IH by lia. ring.
Qed.

(* the orthogonalisation loop: remainder = column - sum of the removed components *)
Lemma ortho_spec (n : nat) : forall qs v acc_v acc_d qs0,
  (forall q, In q qs -> length q = n) -> length acc_v = n -> length qs0 = length acc_d ->
  (forall k, at_ acc_v k = at_ v k - comb qs0 acc_d k) ->
  let '(w, ds) := fold_left (fun (acc : list F * list F) q =>
        let d := vdot o (fst acc) q in (vaxmy o d q (fst acc), snd acc ++ [d])) qs (acc_v, acc_d) in
  length w = n /\ length ds = length (qs0 ++ qs) /\ forall k, at_ w k = at_ v k - comb (qs0 ++ qs) ds k.
Proof.
  induction qs as [|q qs IH]; intros v av ad qs0 Hq Hl Hd Hk; cbn [fold_left].
  - rewrite app_nil_r. repeat split; auto.
  - cbn [fst snd].
    assert (Hql : length q = n) by (apply Hq; left; reflexivity).
    replace (qs0 ++ q :: qs) with ((qs0 ++ [q]) ++ qs) by (rewrite <- app_assoc; reflexivity).
    apply IH.
    + intros q' H'. apply Hq. right; exact H'.
    + rewrite length_vaxmy; lia.
    + rewrite !app_length. cbn. lia.
    + intro k. rewrite at_vaxmy by lia. rewrite Hk, comb_app by exact Hd. ring.
Qed.

Lemma at_vscale s v k : at_ (vscale o s v) k = at_ v k * s.
Proof.
  unfold at_, vscale. revert k. induction v as [|a v IH]; intros [|k]; cbn; try ring; try reflexivity. apply IH.
Qed.

(* one column: b = sum_{i<j} R[i,j] q_i + R[j,j] q_j  when kept; when dropped (q_j = 0, R[j,j] = 0)
   the defect is the discarded remainder *)
Theorem mgs_col_reconstructs (n : nat) tol qs col :
  (forall q, In q qs -> length q = n) -> length col = n ->
  let '(q, r) := mgs_col o fsqrt tol qs col in
  let '(v, ds) := ortho o qs col in
  let nrm := fsqrt (vnormsq o v) in
  length r = S (length qs) /\
  (rltb (tol * fsqrt (vnormsq o col)) nrm = true -> nrm <> r0 ->
     forall k, at_ col k = comb (qs ++ [q]) r k) /\
  (rltb (tol * fsqrt (vnormsq o col)) nrm = false ->
     forall k, at_ col k = comb (qs ++ [q]) r k + at_ v k).
Proof.
  intros Hq Hc. unfold mgs_col, ortho.
  pose proof (ortho_spec n qs col col [] [] Hq Hc eq_refl (fun k => ltac:(cbn; ring))) as S.
  destruct (fold_left _ qs (col, [])) as [v ds]. cbn [app] in S. destruct S as (Hv & Hds & Hk).
  change (ltb o (mul o tol (fsqrt (vnormsq o col))) (fsqrt (vnormsq o v)))
    with (rltb (tol * fsqrt (vnormsq o col)) (fsqrt (vnormsq o v))).
  destruct (rltb (tol * fsqrt (vnormsq o col)) (fsqrt (vnormsq o v))) eqn:E.
  - split; [rewrite app_length; cbn; lia|]. split; [|discriminate].
    intros _ Hn k. rewrite comb_app by lia. rewrite at_vscale. specialize (Hk k).
    unfold o; cbn. transitivity (at_ v k + comb qs ds k); [rewrite Hk; ring|]. field. exact Hn.
  - split; [rewrite app_length; cbn; lia|]. split; [discriminate|].
    intros _ k. rewrite comb_app by lia. rewrite at_vscale. specialize (Hk k). rewrite Hk. unfold o; cbn. ring.
Qed.
End P.
