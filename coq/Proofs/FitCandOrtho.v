(* C10: modified Gram-Schmidt yields pairwise orthogonal columns, each of unit length (kept) or
   zero (dropped).  Over any field; the only fact used about the square-root function is
   nrm * nrm = |v|^2 for the remainder at hand. *)
From Coq Require Import ZArith List Bool Lia Ring Field.
Import ListNotations.
Require Import PV.Base.Ops PV.Model.FitCand PV.Proofs.FitCandProofs.

Section P.
Variable F : Type.
Variables (r0 r1 : F) (radd rmul rsub : F -> F -> F) (ropp : F -> F) (rdiv : F -> F -> F) (rinv : F -> F).
Variables (rabs : F -> F) (reqb rleb rltb : F -> F -> bool) (fsqrt : F -> F).
Hypothesis Fth : field_theory r0 r1 radd rmul rsub ropp rdiv rinv (@eq F).
Add Field Ff2 : Fth.
Let o : Ops F := mkOps F r0 r1 radd rsub rmul rdiv ropp rabs reqb rleb rltb.
Notation "a + b" := (radd a b). Notation "a * b" := (rmul a b). Notation "a - b" := (rsub a b).
Notation dot := (vdot o).

Lemma dot_fold (l : list (F * F)) (a : F) :
  fold_left (fun acc p => radd acc (rmul (snd p) (fst p))) l a = a + fold_left (fun acc p => radd acc (rmul (snd p) (fst p))) l r0.
Proof.
  revert a. induction l as [|p l IH]; intro a; cbn [fold_left]; [ring|].
  rewrite IH. rewrite (IH (r0 + snd p * fst p)). ring.
Qed.
Lemma dot_nil_l v : dot [] v = r0. Proof. reflexivity. Qed.
Lemma dot_nil_r u : dot u [] = r0. Proof. destruct u; reflexivity. Qed.
Lemma dot_cons a u b v : dot (a :: u) (b :: v) = b * a + dot u v.
Proof. unfold vdot. cbn [combine fold_left fst snd]. change (mul o b a) with (b * a). change (add o (zero o) (b * a)) with (r0 + b * a).
  change (fun acc p => add o acc (mul o (snd p) (fst p))) with (fun acc p => radd acc (rmul (snd p) (fst p))).
  rewrite dot_fold. change (zero o) with r0. ring. Qed.
Lemma dot_sym : forall u v, dot u v = dot v u.
Proof. induction u as [|a u IH]; intros [|b v]; try reflexivity. rewrite !dot_cons, IH. ring. Qed.
Lemma dot_vaxmy d : forall q v w, length q = length v -> length w = length v ->
  dot (vaxmy o d q v) w = dot v w - d * dot q w.
Proof.
  unfold vaxmy. induction q as [|a q IH]; intros [|b v] [|c w] H1 H2; cbn in H1, H2; try discriminate.
  - cbn [vmap2]. rewrite !dot_nil_l. ring.
  - cbn [vmap2]. rewrite !dot_cons. rewrite IH by lia. change (sub o b (mul o d a)) with (b - d * a). ring.
Qed.
Lemma dot_vscale s : forall v w, dot (vscale o s v) w = s * dot v w.
Proof.
  unfold vscale. induction v as [|a v IH]; intros [|c w]; cbn [map]; rewrite ?dot_nil_l, ?dot_nil_r; try ring.
  rewrite !dot_cons, IH. change (mul o a s) with (a * s). ring.
Qed.
Lemma normsq_dot : forall v, vnormsq o v = dot v v.
Proof.
  assert (G : forall v a, fold_left (fun acc x => add o acc (mul o x x)) v a = a + dot v v).
  { induction v as [|x v IH]; intro a; cbn [fold_left]; [rewrite dot_nil_l; ring|].
    rewrite IH, dot_cons. change (add o a (mul o x x)) with (a + x * x). ring. }
  intro v. unfold vnormsq. rewrite G. change (zero o) with r0. ring.
Qed.
Lemma len_vaxmy d : forall q v, length q = length v -> length (vaxmy o d q v) = length v.
Proof.
  unfold vaxmy. induction q as [|a q IH]; intros [|b v] H; cbn in *; try discriminate; [reflexivity|].
  f_equal. apply IH. lia.
Qed.
Lemma length_vscale s v : length (vscale o s v) = length v. Proof. unfold vscale. apply map_length. Qed.

(* "unit or zero": w.q * q.q = w.q for every w (q.q = 1, or q is orthogonal to everything) *)
Definition uoz (n : nat) (q : list F) : Prop := forall w, length w = n -> dot w q * dot q q = dot w q.
Definition orthset (l : list (list F)) : Prop := forall q q', In q l -> In q' l -> q = q' \/ dot q q' = r0.
Definition Inv (n : nat) (l : list (list F)) : Prop :=
  (forall q, In q l -> length q = n) /\ orthset l /\ (forall q, In q l -> uoz n q).

(* the remainder of the orthogonalisation loop is orthogonal to every processed column *)
Lemma ortho_fold_orth (n : nat) : forall rest done acc ds,
  Inv n (done ++ rest) -> length acc = n -> (forall q, In q done -> dot acc q = r0) ->
  let '(w, _) := fold_left (fun (a : list F * list F) q =>
        let d := vdot o (fst a) q in (vaxmy o d q (fst a), snd a ++ [d])) rest (acc, ds) in
  length w = n /\ forall q, In q (done ++ rest) -> dot w q = r0.
Proof.
  induction rest as [|q0 rest IH]; intros done acc ds I Hl Hd; cbn [fold_left].
  - rewrite app_nil_r. split; assumption.
  - cbn [fst snd]. destruct I as (IL & IO & IU).
    assert (Hq0 : In q0 (done ++ q0 :: rest)) by (apply in_or_app; right; left; reflexivity).
    pose proof (IL q0 Hq0) as Lq0.
    replace (done ++ q0 :: rest) with ((done ++ [q0]) ++ rest) in * by (rewrite <- app_assoc; reflexivity).
    apply IH.
    + repeat split; assumption.
    + rewrite len_vaxmy; lia.
    + assert (E0 : dot (vaxmy o (vdot o acc q0) q0 acc) q0 = r0).
      { rewrite dot_vaxmy by lia. pose proof (IU q0 Hq0 acc Hl) as U. rewrite U. ring. }
      intros q Hq. apply in_app_or in Hq. destruct Hq as [Hq|[<-|[]]]; [|exact E0].
      assert (Hq' : In q ((done ++ [q0]) ++ rest)) by (apply in_or_app; left; apply in_or_app; left; exact Hq).
      destruct (IO q0 q Hq0 Hq') as [<-|Z]; [exact E0|].
      pose proof (IL q Hq') as Lq. rewrite dot_vaxmy by lia.
      rewrite (Hd q Hq), Z. ring.
Qed.

(* one Gram-Schmidt step preserves the invariant *)
Theorem mgs_col_orthonormal (n : nat) tol qs col : Inv n qs -> length col = n ->
  let '(q, _) := mgs_col o fsqrt tol qs col in
  let '(v, _) := ortho o qs col in
  let nrm := fsqrt (vnormsq o v) in
  (rltb (tol * fsqrt (vnormsq o col)) nrm = true -> nrm * nrm = vnormsq o v -> nrm <> r0 ->
     Inv n (qs ++ [q]) /\ dot q q = r1) /\
  (rltb (tol * fsqrt (vnormsq o col)) nrm = false -> Inv n (qs ++ [q]) /\ forall w, dot w q = r0).
Proof.
  intros I Hc. unfold mgs_col, ortho.
  pose proof (ortho_fold_orth n qs [] col [] I Hc (fun q H => match H with end)) as S.
  destruct (fold_left _ qs (col, [])) as [v ds]. cbn [app] in S. destruct S as (Hv & Ho).
  change (ltb o (mul o tol (fsqrt (vnormsq o col))) (fsqrt (vnormsq o v)))
    with (rltb (tol * fsqrt (vnormsq o col)) (fsqrt (vnormsq o v))).
  destruct I as (IL & IO & IU).
  assert (Step : forall s, (dot (vscale o s v) (vscale o s v) = r1 \/ forall w, dot w (vscale o s v) = r0) ->
                 Inv n (qs ++ [vscale o s v])).
  { intros s Hs. repeat split.
    - intros q Hq. apply in_app_or in Hq. destruct Hq as [Hq|[<-|[]]]; [apply IL; exact Hq|rewrite length_vscale; exact Hv].
    - intros q q' Hq Hq'. apply in_app_or in Hq. apply in_app_or in Hq'.
      destruct Hq as [Hq|[<-|[]]]; destruct Hq' as [Hq'|[<-|[]]].
      + apply IO; assumption.
      + right. rewrite dot_sym, dot_vscale, (Ho q Hq). ring.
      + right. rewrite dot_vscale, (Ho q' Hq'). ring.
      + left; reflexivity.
    - intros q Hq. apply in_app_or in Hq. destruct Hq as [Hq|[<-|[]]]; [apply IU; exact Hq|].
      intros w Hw. destruct Hs as [Hs|Hs]; [rewrite Hs; ring|rewrite (Hs w); ring]. }
  destruct (rltb (tol * fsqrt (vnormsq o col)) (fsqrt (vnormsq o v))) eqn:E.
  - split; [|discriminate]. intros _ Hn Hz.
    remember (fsqrt (vnormsq o v)) as nrm eqn:En.
    assert (U : dot (vscale o (div o (one o) nrm) v) (vscale o (div o (one o) nrm) v) = r1).
    { rewrite dot_vscale, (dot_sym v), dot_vscale, <- normsq_dot, <- Hn.
      change (div o (one o) nrm) with (rdiv r1 nrm). field. exact Hz. }
    split; [apply Step; left; exact U|exact U].
  - split; [discriminate|]. intros _.
    assert (Z : forall w, dot w (vscale o (zero o) v) = r0).
    { intro w. rewrite dot_sym, dot_vscale. change (zero o) with r0. ring. }
    split; [apply Step; right; exact Z|exact Z].
Qed.

Lemma Inv_nil n : Inv n []. Proof. split; [|split]; intros q; [|intros q'|]; intro H; destruct H. Qed.


(* ---- all columns of one aggregate ---- *)
(* the square-root function is exact on the squared norms that occur, and a kept column has a nonzero norm *)
Hypothesis sqrt_sq : forall v : list F, fsqrt (vnormsq o v) * fsqrt (vnormsq o v) = vnormsq o v.
Variable tol : F.
Hypothesis kept_nonzero : forall a b : F, rltb (tol * fsqrt a) (fsqrt b) = true -> fsqrt b <> r0.

(* positional form: columns i < j are orthogonal; every column has unit length or is orthogonal to everything *)
Definition PInv (n : nat) (Q : list (list F)) : Prop :=
  Inv n Q /\
  (forall i j, (i < j < length Q)%nat -> dot (nth i Q []) (nth j Q []) = r0) /\
  (forall i, (i < length Q)%nat -> dot (nth i Q []) (nth i Q []) = r1 \/ forall w, dot w (nth i Q []) = r0).

Lemma mgs_step_PInv (n : nat) qs col : PInv n qs -> length col = n ->
  PInv n (qs ++ [fst (mgs_col o fsqrt tol qs col)]).
Proof.
  intros (I & PO & PU) Hc.
  pose proof (mgs_col_orthonormal n tol qs col I Hc) as St.
  unfold mgs_col, ortho in *.
  pose proof (ortho_fold_orth n qs [] col [] I Hc (fun q H => match H with end)) as S.
  destruct (fold_left _ qs (col, [])) as [v ds]. cbn [app] in S. destruct S as (Hv & Ho).
  change (ltb o (mul o tol (fsqrt (vnormsq o col))) (fsqrt (vnormsq o v)))
    with (rltb (tol * fsqrt (vnormsq o col)) (fsqrt (vnormsq o v))) in *.
  destruct (rltb (tol * fsqrt (vnormsq o col)) (fsqrt (vnormsq o v))) eqn:E; cbn [fst] in *.
  - destruct St as [St _]. destruct (St eq_refl (sqrt_sq v) (kept_nonzero _ _ E)) as (I' & U).
    split; [exact I'|]. split.
    + intros i j Hij. rewrite app_length in Hij. cbn [length] in Hij.
      destruct (Nat.eq_dec j (length qs)) as [->|Hj].
      * rewrite (app_nth1 qs _ []) by lia. rewrite app_nth2 by lia. rewrite Nat.sub_diag. cbn [nth].
        rewrite dot_sym, dot_vscale. rewrite (Ho (nth i qs [])) by (apply nth_In; lia). ring.
      * rewrite !(app_nth1 qs _ []) by lia. apply PO. lia.
    + intros i Hi. rewrite app_length in Hi. cbn [length] in Hi.
      destruct (Nat.eq_dec i (length qs)) as [->|Hne].
      * rewrite app_nth2 by lia. rewrite Nat.sub_diag. cbn [nth]. left. exact U.
      * rewrite (app_nth1 qs _ []) by lia. apply PU. lia.
  - destruct St as [_ St]. destruct (St eq_refl) as (I' & Z).
    split; [exact I'|]. split.
    + intros i j Hij. rewrite app_length in Hij. cbn [length] in Hij.
      destruct (Nat.eq_dec j (length qs)) as [->|Hj].
      * rewrite (app_nth1 qs _ []) by lia. rewrite app_nth2 by lia. rewrite Nat.sub_diag. cbn [nth]. apply Z.
      * rewrite !(app_nth1 qs _ []) by lia. apply PO. lia.
    + intros i Hi. rewrite app_length in Hi. cbn [length] in Hi.
      destruct (Nat.eq_dec i (length qs)) as [->|Hne].
      * rewrite app_nth2 by lia. rewrite Nat.sub_diag. cbn [nth]. right. exact Z.
      * rewrite (app_nth1 qs _ []) by lia. apply PU. lia.
Qed.

Lemma PInv_nil n : PInv n [].
Proof. split; [apply Inv_nil|]. split; [intros i j H; cbn in H; lia|intros i H; cbn in H; lia]. Qed.

(* Q^T Q = diag(1 or 0) for the whole aggregate *)
Theorem mgs_all_orthonormal (n : nat) (cols : list (list F)) : (forall c, In c cols -> length c = n) ->
  let Q := fst (mgs o fsqrt tol cols) in
  length Q = length cols /\ PInv n Q.
Proof.
  intro Hc. unfold mgs.
  assert (G : forall l Q R, (forall c, In c l -> length c = n) -> PInv n Q ->
     let Q' := fst (fold_left (fun (acc : list (list F) * list (list F)) col =>
        let '(q, r) := mgs_col o fsqrt tol (fst acc) col in (fst acc ++ [q], snd acc ++ [r])) l (Q, R)) in
     length Q' = (length Q + length l)%nat /\ PInv n Q').
  { induction l as [|c l IH]; intros Q R Hl P; cbn [fold_left].
    - cbn [fst length]. split; [lia|exact P].
    - cbn [fst snd]. pose proof (mgs_step_PInv n Q c P (Hl c (or_introl eq_refl))) as P1.
      destruct (mgs_col o fsqrt tol Q c) as [q r]. cbn [fst] in P1.
      destruct (IH (Q ++ [q]) (R ++ [r]) (fun x Hx => Hl x (or_intror Hx)) P1) as (L & P2).
      split; [rewrite L, app_length; cbn [length]; lia|exact P2]. }
  destruct (G cols [] [] Hc (PInv_nil n)) as (L & P). split; [exact L|exact P].
Qed.
End P.
