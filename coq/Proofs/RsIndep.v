(* C13, unbounded: the first pass of Ruge-Stuben splitting returns 0/1 flags whose coarse set is
   INDEPENDENT on EVERY strength pattern whose transpose T is symmetric as a graph -- for any number of
   vertices and whatever the lambda buckets contain: the buckets only decide the ORDER in which undecided
   vertices are promoted, and the argument holds for every order (the accessors of the model are total, so
   not even bucket consistency is needed). *)
From Coq Require Import ZArith List Bool Lia.
Import ListNotations.
Require Import PV.Model.GraphAlg PV.Model.Split.
Require Import PV.Proofs.NaiveAggProofs.
Open Scope Z_scope.

Lemma spl_incr n s k : spl (incr_lambda n s k) = spl s.
Proof. unfold incr_lambda. destruct (negb (get (spl s) k =? U_NODE)); [reflexivity|]. destruct (get (lam s) k >=? n - 1); reflexivity. Qed.
Lemma spl_decr s j : spl (decr_lambda s j) = spl s.
Proof. unfold decr_lambda. destruct (negb (get (spl s) j =? U_NODE)); [reflexivity|]. destruct (get (lam s) j =? 0); reflexivity. Qed.
Lemma spl_fold_incr n : forall l s, spl (fold_left (incr_lambda n) l s) = spl s.
Proof. induction l as [|k l IH]; intro s; cbn [fold_left]; [reflexivity|]. rewrite IH. apply spl_incr. Qed.
Lemma spl_fold_decr : forall l s, spl (fold_left decr_lambda l s) = spl s.
Proof. induction l as [|k l IH]; intro s; cbn [fold_left]; [reflexivity|]. rewrite IH. apply spl_decr. Qed.

(* replace the value a by b at the positions listed in row (positions outside the array are no-ops) *)
Definition repl (a b : Z) (v : list Z) (row : list Z) : list Z :=
  fold_left (fun v j => if get v j =? a then set v j b else v) row v.
Lemma setn_oob {A} (l : list A) i v : (length l <= i)%nat -> setn l i v = l.
Proof. revert i; induction l as [|h t IH]; intros [|i] H; cbn in *; try lia; auto. f_equal. apply IH. lia. Qed.
Lemma repl_spec a b : a <> b -> forall row v,
  let v' := repl a b v row in
  length v' = length v /\
  (forall k, 0 <= k < Z.of_nat (length v) -> get v' k = get v k \/ (get v k = a /\ get v' k = b)) /\
  (forall k, 0 <= k < Z.of_nat (length v) -> In k row -> get v k = a -> get v' k = b).
Proof.
  intros Hab. induction row as [|j row IH]; intro v; cbn [repl fold_left].
  - repeat split; auto. intros k _ [].
  - fold (repl a b (if get v j =? a then set v j b else v) row).
    destruct (Z.eqb_spec (get v j) a) as [E|E].
    + destruct (IH (set v j b)) as (L & A & B). rewrite length_set in *.
      destruct (Z_lt_dec j 0) as [Hneg|Hnn].
      * (* negative position: the write is dropped *)
        assert (Same : set v j b = v) by (unfold set; destruct (Z.ltb_spec j 0); [reflexivity|lia]).
        rewrite Same in *. repeat split; auto. intros k Hk [->|Hin] Hx; [lia|apply B; assumption].
      * destruct (Z_lt_dec j (Z.of_nat (length v))) as [Hin|Hout].
        -- assert (Sj : get (set v j b) j = b) by (apply get_set_same; lia).
           assert (Fj : get (repl a b (set v j b) row) j = b).
           { destruct (A j ltac:(lia)) as [Q|(Q & _)]; [rewrite Q; exact Sj|rewrite Sj in Q; congruence]. }
           repeat split.
           ++ exact L.
           ++ intros k Hk. destruct (Z.eq_dec k j) as [->|Hne]; [right; split; [exact E|exact Fj]|].
              destruct (A k Hk) as [Q|(Q1 & Q2)].
              ** left. rewrite Q. apply get_set_other; lia.
              ** right. rewrite get_set_other in Q1 by lia. split; assumption.
           ++ intros k Hk [<-|Hr] Hx; [exact Fj|]. destruct (Z.eq_dec k j) as [->|Hne]; [exact Fj|].
              apply B; [exact Hk|exact Hr|]. rewrite get_set_other by lia. exact Hx.
        -- (* position past the end: the write is dropped, and reading it gives the default 0 *)
           assert (Same : set v j b = v).
           { unfold set. destruct (Z.ltb_spec j 0); [reflexivity|]. apply setn_oob. lia. }
           rewrite Same in *. repeat split; auto. intros k Hk [->|Hr] Hx; [lia|apply B; assumption].
    + destruct (IH v) as (L & A & B). repeat split; auto. intros k Hk [->|Hr] Hx; [contradiction|apply B; assumption].
Qed.

Lemma get_map (f : Z -> Z) l k : 0 <= k < Z.of_nat (length l) -> get (map f l) k = f (get l k).
Proof.
  intro H. unfold get. rewrite nth_indep with (d' := f 0) by (rewrite map_length; lia). apply map_nth.
Qed.

Section S.
Variables (N : nat) (Sp Sj Tp Tj : list Z).
Let n := Z.of_nat N.
Notation trow := (nbrs Tp Tj).
Hypothesis cols_in_range : forall i, 0 <= i < n -> forall j, In j (trow i) -> 0 <= j < n.
Hypothesis sym : forall i j, 0 <= i < n -> In j (trow i) -> In i (trow j).

Lemma spl_makeC s i : spl (make_C n Sp Sj Tp Tj s i) =
  repl PRE_F_NODE F_NODE (repl U_NODE PRE_F_NODE (set (spl s) i C_NODE) (row Tp Tj i)) (row Tp Tj i).
Proof.
  unfold make_C. rewrite spl_fold_decr.
  assert (P1 : forall l s0, spl (fold_left (fun s j => if get (spl s) j =? U_NODE then with_spl s (set (spl s) j PRE_F_NODE) else s) l s0)
               = repl U_NODE PRE_F_NODE (spl s0) l).
  { induction l as [|j l IH]; intro s0; cbn [fold_left repl]; [reflexivity|].
    fold (repl U_NODE PRE_F_NODE (if get (spl s0) j =? U_NODE then set (spl s0) j PRE_F_NODE else spl s0) l).
    rewrite IH. destruct (get (spl s0) j =? U_NODE); reflexivity. }
  assert (P2 : forall l s0, spl (fold_left (fun s0 j => if get (spl s0) j =? PRE_F_NODE
                 then let s' := with_spl s0 (set (spl s0) j F_NODE) in fold_left (incr_lambda n) (row Sp Sj j) s' else s0) l s0)
               = repl PRE_F_NODE F_NODE (spl s0) l).
  { induction l as [|j l IH]; intro s0; cbn [fold_left repl]; [reflexivity|].
    fold (repl PRE_F_NODE F_NODE (if get (spl s0) j =? PRE_F_NODE then set (spl s0) j F_NODE else spl s0) l).
    rewrite IH. destruct (get (spl s0) j =? PRE_F_NODE); [cbv zeta; rewrite spl_fold_incr; reflexivity|reflexivity]. }
  rewrite P2, P1. reflexivity.
Qed.

(* the invariant on the splitting array *)
Record G (v : list Z) : Prop := {
  g_l : length v = N;
  g_val : forall k, 0 <= k < n -> get v k = F_NODE \/ get v k = C_NODE \/ get v k = U_NODE;
  g_ind : forall i j, 0 <= i < n -> get v i = C_NODE -> In j (trow i) -> j <> i -> get v j <> C_NODE;
  g_cl : forall i j, 0 <= i < n -> get v i = C_NODE -> In j (trow i) -> get v j <> U_NODE
}.

(* U -> PRE_F -> F along a row, on an array without PRE_F entries *)
Lemma two_marks v1 row : length v1 = N -> (forall k, 0 <= k < n -> get v1 k <> PRE_F_NODE) ->
  let v' := repl PRE_F_NODE F_NODE (repl U_NODE PRE_F_NODE v1 row) row in
  length v' = N /\
  (forall k, 0 <= k < n -> get v' k = get v1 k \/ (get v1 k = U_NODE /\ get v' k = F_NODE)) /\
  (forall k, 0 <= k < n -> In k row -> get v1 k = U_NODE -> get v' k = F_NODE).
Proof.
  intros L1 NoP. destruct (repl_spec U_NODE PRE_F_NODE ltac:(discriminate) row v1) as (La & Aa & Ba).
  set (v2 := repl U_NODE PRE_F_NODE v1 row) in *.
  destruct (repl_spec PRE_F_NODE F_NODE ltac:(discriminate) row v2) as (Lb & Ab & Bb).
  rewrite La, L1 in *. fold n in Aa, Ba, Ab, Bb. repeat split.
  - exact Lb.
  - intros k Hk. destruct (Ab k Hk) as [Q|(Q1 & Q2)].
    + destruct (Aa k Hk) as [R|(R1 & R2)]; [left; congruence|].
      (* marked PRE_F but not finalised: impossible, the second loop runs over the same row *)
      right. split; [exact R1|]. rewrite Q. exfalso.
      assert (Hin : In k row).
      { destruct (in_dec Z.eq_dec k row) as [H|H]; [exact H|]. exfalso.
        assert (Un : forall l v, ~ In k l -> get (repl U_NODE PRE_F_NODE v l) k = get v k).
        { induction l as [|j l IH]; intros v Hn; cbn [repl fold_left]; [reflexivity|].
          fold (repl U_NODE PRE_F_NODE (if get v j =? U_NODE then set v j PRE_F_NODE else v) l).
          rewrite IH by (intro; apply Hn; right; assumption).
          destruct (get v j =? U_NODE); [|reflexivity].
          destruct (Z_lt_dec j 0); [unfold set; destruct (Z.ltb_spec j 0); [reflexivity|lia]|].
          apply get_set_other; try lia. intro; subst; apply Hn; left; reflexivity. }
        fold v2 in R2. unfold v2 in R2. rewrite (Un row v1 H) in R2. rewrite R1 in R2. discriminate. }
      pose proof (Bb k Hk Hin R2) as Fk. rewrite Q, R2 in Fk. discriminate.
    + destruct (Aa k Hk) as [R|(R1 & R2)]; [exfalso; rewrite R in Q1; exact (NoP k Hk Q1)|right; split; assumption].
  - intros k Hk Hin Hu. apply Bb; [exact Hk|exact Hin|]. apply Ba; assumption.
Qed.

Lemma makeC_G s i : G (spl s) -> get (spl s) i = U_NODE -> G (spl (make_C n Sp Sj Tp Tj s i)).
Proof.
  intros [Lv Val Ind Cl] Hu. rewrite spl_makeC. set (v := spl s) in *.
  set (v1 := set v i C_NODE).
  assert (L1 : length v1 = N) by (unfold v1; rewrite length_set; exact Lv).
  assert (NoP : forall k, 0 <= k < n -> get v1 k <> PRE_F_NODE).
  { intros k Hk. unfold v1. destruct (Z.eq_dec k i) as [->|Hne].
    - destruct (Z_lt_dec i 0); [unfold set; destruct (Z.ltb_spec i 0); [|lia]; destruct (Val i Hk) as [Q|[Q|Q]]; rewrite Q; discriminate|].
      rewrite get_set_same by (rewrite Lv; unfold n in *; lia). discriminate.
    - destruct (Z_lt_dec i 0); [unfold set; destruct (Z.ltb_spec i 0); [|lia]; destruct (Val k Hk) as [Q|[Q|Q]]; rewrite Q; discriminate|].
      rewrite get_set_other by lia. destruct (Val k Hk) as [Q|[Q|Q]]; rewrite Q; discriminate. }
  destruct (two_marks v1 (row Tp Tj i) L1 NoP) as (L & A & B).
  set (v' := repl PRE_F_NODE F_NODE (repl U_NODE PRE_F_NODE v1 (row Tp Tj i)) (row Tp Tj i)) in *.
  destruct (Z_lt_dec i 0) as [Hneg|Hnn].
  - (* a position outside the array: nothing is promoted, some undecided vertices may become fine *)
    assert (Same : v1 = v) by (unfold v1, set; destruct (Z.ltb_spec i 0); [reflexivity|lia]).
    rewrite Same in *. constructor.
    + exact L.
    + intros k Hk. destruct (A k Hk) as [Q|(_ & Q)]; [rewrite Q; apply Val; exact Hk|left; exact Q].
    + intros p q Hp Hc Hq Hne. assert (Hqr : 0 <= q < n) by (apply (cols_in_range p Hp); exact Hq).
      destruct (A p Hp) as [Qp|(_ & Qp)]; [|rewrite Qp in Hc; discriminate]. rewrite Qp in Hc.
      destruct (A q Hqr) as [Qq|(_ & Qq)]; [rewrite Qq; apply (Ind p q); assumption|rewrite Qq; discriminate].
    + intros p q Hp Hc Hq. assert (Hqr : 0 <= q < n) by (apply (cols_in_range p Hp); exact Hq).
      destruct (A p Hp) as [Qp|(_ & Qp)]; [|rewrite Qp in Hc; discriminate]. rewrite Qp in Hc.
      destruct (A q Hqr) as [Qq|(_ & Qq)]; [rewrite Qq; apply (Cl p q); assumption|rewrite Qq; discriminate].
  - assert (Hir : 0 <= i < n).
    { split; [lia|]. destruct (Z_lt_dec i n) as [H|H]; [exact H|]. exfalso. unfold get in Hu. rewrite nth_overflow in Hu by (rewrite Lv; unfold n in *; lia). discriminate. }
    assert (V1i : get v1 i = C_NODE) by (unfold v1; apply get_set_same; rewrite Lv; unfold n in *; lia).
    assert (V1o : forall k, 0 <= k -> k <> i -> get v1 k = get v k) by (intros k H0 H1; unfold v1; apply get_set_other; lia).
    assert (V'i : get v' i = C_NODE) by (destruct (A i Hir) as [Q|(Q & _)]; [rewrite Q; exact V1i|rewrite V1i in Q; discriminate]).
    (* no neighbour of i is coarse: i would not be undecided *)
    assert (NoC : forall j, In j (trow i) -> j <> i -> get v j <> C_NODE).
    { intros j Hj Hne Hc. assert (Hjr : 0 <= j < n) by (apply (cols_in_range i Hir); exact Hj).
      exact (Cl j i Hjr Hc (sym i j Hir Hj) Hu). }
    assert (Cv' : forall k, 0 <= k < n -> k <> i -> (get v' k = C_NODE <-> get v k = C_NODE)).
    { intros k Hk Hne. destruct (A k Hk) as [Q|(Q1 & Q2)].
      - rewrite Q, V1o by lia. tauto.
      - rewrite V1o in Q1 by lia. split; intro H; [rewrite Q2 in H; discriminate|rewrite Q1 in H; discriminate]. }
    constructor.
    + exact L.
    + intros k Hk. destruct (Z.eq_dec k i) as [->|Hne]; [right; left; exact V'i|].
      destruct (A k Hk) as [Q|(_ & Q)]; [rewrite Q, V1o by lia; apply Val; exact Hk|left; exact Q].
    + intros p q Hp Hc Hq Hne. assert (Hqr : 0 <= q < n) by (apply (cols_in_range p Hp); exact Hq).
      destruct (Z.eq_dec p i) as [->|Hpi].
      * intro Qc. apply (Cv' q Hqr Hne) in Qc. exact (NoC q Hq Hne Qc).
      * apply (Cv' p Hp Hpi) in Hc. destruct (Z.eq_dec q i) as [->|Hqi].
        -- exfalso. apply (NoC p); [apply (sym p i Hp Hq)|exact Hpi|exact Hc].
        -- intro Qc. apply (Cv' q Hqr Hqi) in Qc. exact (Ind p q Hp Hc Hq Hne Qc).
    + intros p q Hp Hc Hq. assert (Hqr : 0 <= q < n) by (apply (cols_in_range p Hp); exact Hq).
      destruct (Z.eq_dec q i) as [->|Hqi]; [rewrite V'i; discriminate|].
      destruct (Z.eq_dec p i) as [->|Hpi].
      * destruct (Z.eq_dec (get v1 q) U_NODE) as [Qu|Qu]; [rewrite (B q Hqr Hq Qu); discriminate|].
        destruct (A q Hqr) as [Q|(Q & _)]; [rewrite Q; exact Qu|contradiction].
      * apply (Cv' p Hp Hpi) in Hc. destruct (A q Hqr) as [Q|(_ & Q)]; [|rewrite Q; discriminate].
        rewrite Q, V1o by lia. exact (Cl p q Hp Hc Hq).
Qed.

Lemma main_G : forall tops s, G (spl s) -> G (spl (main n Sp Sj Tp Tj tops s)).
Proof.
  induction tops as [|top rest IH]; intros s Gs; cbn [main]; [exact Gs|]. cbv zeta.
  match goal with |- context [if ?c then _ else _] => destruct c end; [exact Gs|].
  match goal with |- context [if ?c then _ else _] => destruct c eqn:E end; [|apply IH; exact Gs].
  apply Z.eqb_eq in E. apply IH. apply makeC_G; [exact Gs|exact E].
Qed.

Theorem rs_first_pass_independent (infl : list Z) :
  let s := rs_cf_splitting n Sp Sj Tp Tj infl in
  length s = N /\
  (forall k, 0 <= k < n -> get s k = 0 \/ get s k = 1) /\
  (forall i j, 0 <= i < n -> get s i = 1 -> In j (trow i) -> j <> i -> get s j <> 1).
Proof.
  unfold rs_cf_splitting.
  assert (G0 : G (spl (init n Tp Tj infl))).
  { unfold init.
    repeat match goal with |- context [let '(a, b) := ?e in _] => destruct e end.
    cbn [spl].
    match goal with |- G (map ?f ?l) => set (fn := f); set (ll := l) end.
    assert (Ll : length ll = N) by (unfold ll, zr; rewrite map_length, seq_length; unfold n; lia).
    assert (FU : forall k, 0 <= k < n -> get (map fn ll) k = F_NODE \/ get (map fn ll) k = U_NODE).
    { intros k Hk. rewrite get_map by (rewrite Ll; unfold n in *; lia). unfold fn. destruct (_ || _); [left; reflexivity|right; reflexivity]. }
    constructor.
    - rewrite map_length. exact Ll.
    - intros k Hk. destruct (FU k Hk) as [Q|Q]; rewrite Q; auto.
    - intros i j Hi Hc. exfalso. destruct (FU i Hi) as [Q|Q]; rewrite Q in Hc; discriminate.
    - intros i j Hi Hc. exfalso. destruct (FU i Hi) as [Q|Q]; rewrite Q in Hc; discriminate. }
  pose proof (main_G (rev (zr 0 n)) _ G0) as [Lv Val Ind Cl].
  set (v := spl (main n Sp Sj Tp Tj (rev (zr 0 n)) (init n Tp Tj infl))) in *.
  assert (Gm : forall k, 0 <= k < n -> get (map (fun v0 => if v0 =? U_NODE then F_NODE else v0) v) k
                = if get v k =? U_NODE then F_NODE else get v k).
  { intros k Hk. apply (get_map (fun v0 => if v0 =? U_NODE then F_NODE else v0)). rewrite Lv. unfold n in *; lia. }
  repeat split.
  - rewrite map_length. exact Lv.
  - intros k Hk. rewrite (Gm k Hk). destruct (Val k Hk) as [Q|[Q|Q]]; rewrite Q; cbn; auto.
  - intros i j Hi Hc Hj Hne. assert (Hjr : 0 <= j < n) by (apply (cols_in_range i Hi); exact Hj).
    rewrite (Gm i Hi) in Hc. rewrite (Gm j Hjr).
    destruct (Val i Hi) as [Q|[Q|Q]]; rewrite Q in Hc; cbn in Hc; try discriminate.
    pose proof (Ind i j Hi Q Hj Hne) as Nc.
    destruct (Val j Hjr) as [R|[R|R]]; rewrite R; cbn; try discriminate. contradiction.
Qed.
End S.
