(* C17, bounded: on every directed strength pattern on <= 3 vertices and every symmetric one on
   4 vertices (133 patterns, T = S^T) and every influence vector in {0,1,3}^n the bounds-checked Ruge-Stuben splitting
   never leaves its arrays and returns what the unchecked model returns. *)
From Coq Require Import ZArith List Bool.
Import ListNotations.
Require Import PV.Model.GraphAlg PV.Model.Split PV.Model.SplitChk PV.Proofs.GraphSpec PV.Proofs.GraphBounded PV.Proofs.SplitBounded.
Open Scope Z_scope.

Definition zl_eqb (a b : list Z) : bool := (length a =? length b)%nat && forallb (fun p => fst p =? snd p) (combine a b).
Definition ok_rs_chk (p : Z * list (Z * Z)) : bool :=
  let '(n, e) := p in
  let '(Sp, Sj, Tp, Tj) := dir_graph n e in
  forallb (fun infl =>
    match rs_cf_splitting_chk n Sp Sj Tp Tj infl with
    | Some s => zl_eqb s (rs_cf_splitting n Sp Sj Tp Tj infl)
    | None => false
    end) (vectors [0; 1; 3] (Z.to_nat n)).
Lemma all_rs_chk : forallb ok_rs_chk all_patterns = true. Proof. vm_compute. reflexivity. Qed.
Definition bounded_rs_chk := lift _ _ all_rs_chk.

(* the check is not vacuous: one index too few in the bucket arrays is caught.  With S = T = the
   complete graph on 3 vertices lambda = 2 for every node; an influence of n pushes lambda to the
   guard value and beyond the arrays if they were sized without the factor 2 -- here we only show
   that an out-of-range column index in Sj makes the checked model fail. *)
Example rs_chk_detects_bad_index :
  rs_cf_splitting_chk 2 [0; 1; 2] [1; 2] [0; 1; 2] [1; 0] [0; 0] = None.
Proof. vm_compute. reflexivity. Qed.
