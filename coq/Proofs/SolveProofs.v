From Coq Require Import List Arith Lia Bool.
Import ListNotations.
Require Import PV.Model.Solve.

Section SolveProofs.
Variables (V F : Type).
Variable ltb : F -> F -> bool.
Variable cyc : V -> V.
Variable rn  : V -> F.
Variable thr : F.
Variable maxiter : nat.
Notation loop := (loop V F ltb cyc rn thr maxiter).
Notation solve := (solve V F ltb cyc rn thr maxiter).

Fixpoint iter (k : nat) (x : V) : V := match k with O => x | S k' => iter k' (cyc x) end.
Definition iterates (k : nat) (x0 : V) : list V := map (fun j => iter (S j) x0) (seq 0 k).

Lemma iter_S k x : iter (S k) x = cyc (iter k x).
Proof. revert x; induction k as [|k IH]; intros x; cbn in *; auto. Qed.

Lemma iterates_S k x0 : iterates (S k) x0 = iterates k x0 ++ [iter (S k) x0].
Proof. unfold iterates. rewrite seq_S, map_app. reflexivity. Qed.

(* invariant-carrying specification of the loop *)
Lemma loop_spec : forall fuel it x0,
  it + fuel = maxiter -> 1 <= fuel ->
  (forall j, j < it -> ltb (rn (iter (S j) x0)) thr = false) ->
  exists k st,
    loop fuel it (iter it x0) (rn x0 :: map rn (iterates it x0)) (iterates it x0)
      = Some {| rx := iter k x0; rstatus := st;
                rres := rn x0 :: map rn (iterates k x0); rcb := iterates k x0 |}
    /\ it < k <= maxiter
    /\ (forall j, j < k - 1 -> ltb (rn (iter (S j) x0)) thr = false)
    /\ (st = 0 <-> ltb (rn (iter k x0)) thr = true)
    /\ (st <> 0 -> st = k /\ k = maxiter).
Proof.
induction fuel as [|f IH]; intros it x0 Hsum Hf Hprev; [lia|].
cbn [loop]. rewrite <- iter_S.
assert (Hres : (rn x0 :: map rn (iterates it x0)) ++ [rn (iter (S it) x0)]
               = rn x0 :: map rn (iterates (S it) x0)).
{ rewrite iterates_S, map_app. reflexivity. }
rewrite Hres, <- iterates_S.
destruct (ltb (rn (iter (S it) x0)) thr) eqn:E.
- exists (S it), 0. split; [reflexivity|]. split; [lia|]. split.
  + intros j Hj. apply Hprev. lia.
  + split; [tauto|]. intros H; congruence.
- destruct (Nat.eqb (S it) maxiter) eqn:Em.
  + apply Nat.eqb_eq in Em. exists (S it), (S it). split; [reflexivity|]. split; [lia|]. split.
    * intros j Hj. apply Hprev. lia.
    * split; [split; [discriminate | congruence] | intros _; split; [reflexivity | exact Em]].
  + apply Nat.eqb_neq in Em.
    destruct (IH (S it) x0) as (k & st & Hl & Hk & Hp & Hs & Hn); try lia.
    { intros j Hj. destruct (Nat.eq_dec j it) as [->|]; [exact E | apply Hprev; lia]. }
    exists k, st. split; [exact Hl|]. split; [lia|]. auto.
Qed.

Theorem solve_spec x0 : 1 <= maxiter ->
  exists k st,
    solve x0 = Some {| rx := iter k x0; rstatus := st;
                       rres := map rn (x0 :: iterates k x0); rcb := iterates k x0 |}
    /\ 1 <= k <= maxiter                                    (* at most maxiter cycles, fuel suffices *)
    /\ (forall j, j < k - 1 -> ltb (rn (iter (S j) x0)) thr = false)  (* stops at the first success *)
    /\ (st = 0 <-> ltb (rn (iter k x0)) thr = true)          (* success reported iff last residual passes *)
    /\ (st <> 0 -> st = k /\ k = maxiter).                   (* otherwise the cycle count *)
Proof.
intros Hm. unfold solve.
destruct (loop_spec maxiter 0 x0) as (k & st & Hl & Hk & Hp & Hs & Hn); try lia.
exists k, st. cbn [map]. split; [exact Hl|]. split; [lia|]. split; [exact Hp|]. split; [exact Hs|exact Hn].
Qed.

Corollary history_length x0 r : solve x0 = Some r -> length (rres r) = S (length (rcb r)).
Proof.
intros H. destruct (Nat.eq_dec maxiter 0) as [Em|Em].
{ unfold Solve.solve in H. rewrite Em in H. discriminate. }
destruct (solve_spec x0) as (k & st & Hl & _); [lia|].
rewrite Hl in H. inversion H; subst r; cbn. now rewrite map_length.
Qed.

Lemma iterates_length k x0 : length (iterates k x0) = k.
Proof. unfold iterates. now rewrite map_length, seq_length. Qed.

Lemma iterates_last k x0 : 1 <= k -> last (iterates k x0) x0 = iter k x0.
Proof.
  destruct k as [|k]; [lia|]. intros _. rewrite iterates_S. apply last_last.
Qed.

Corollary solve_terminates x0 : 1 <= maxiter -> exists r, solve x0 = Some r.
Proof. intro H. destruct (solve_spec x0 H) as (k & st & Hl & _). eauto. Qed.

(* everything the caller can observe, in one statement about the returned record *)
Corollary solve_result x0 r : 1 <= maxiter -> solve x0 = Some r ->
  exists k, 1 <= k <= maxiter
    /\ rx r = iter k x0                                   (* the k-th iterate is returned *)
    /\ rcb r = iterates k x0                              (* the callback saw exactly the iterates *)
    /\ last (rcb r) x0 = rx r                             (* ... the last one being the result *)
    /\ rres r = map rn (x0 :: rcb r)                      (* one recomputed norm per iterate, x0 included *)
    /\ length (rres r) = S k
    /\ (forall j, j < k - 1 -> ltb (rn (iter (S j) x0)) thr = false)
    /\ (rstatus r = 0 <-> ltb (rn (rx r)) thr = true)     (* success iff the returned iterate passes *)
    /\ (rstatus r <> 0 -> rstatus r = k /\ k = maxiter).  (* else: number of cycles performed *)
Proof.
  intros Hm H. destruct (solve_spec x0 Hm) as (k & st & Hl & Hk & Hp & Hs & Hn).
  rewrite Hl in H. inversion H; subst r; cbn [rx rstatus rres rcb].
  exists k. split; [exact Hk|]. split; [reflexivity|]. split; [reflexivity|].
  split; [apply iterates_last; lia|]. split; [reflexivity|].
  split; [cbn [map length]; now rewrite map_length, iterates_length|].
  split; [exact Hp|]. split; [exact Hs|exact Hn].
Qed.
End SolveProofs.
