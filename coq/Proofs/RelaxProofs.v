(* Row equations of the point relaxation models (C09), over an arbitrary field
   given by a Stdlib [field_theory] (section closed: no axioms). *)
From Coq Require Import ZArith List Lia Ring Field Setoid Bool.
Import ListNotations.
Require Import PV.Base.Ops PV.Model.Relax.

Section Proofs.
Variable F : Type.
Variables (r0 r1 : F) (radd rmul rsub : F -> F -> F) (ropp : F -> F) (rdiv : F -> F -> F) (rinv : F -> F).
Variables (rabs : F -> F) (reqb rleb rltb : F -> F -> bool).
Hypothesis Fth : field_theory r0 r1 radd rmul rsub ropp rdiv rinv (@eq F).
Hypothesis eqb_spec : forall a b, reqb a b = true <-> a = b.
Add Field Ff : Fth.
Let o : Ops F := mkOps F r0 r1 radd rsub rmul rdiv ropp rabs reqb rleb rltb.
Notation "a + b" := (radd a b). Notation "a * b" := (rmul a b).
Notation "a - b" := (rsub a b). Notation "a / b" := (rdiv a b).

Lemma isz_spec a : isz o a = true <-> a = r0.
Proof. unfold isz, o; cbn. apply eqb_spec. Qed.

(* meaning of a CSR row segment [p, p+c): off-diagonal sum and last stored diagonal *)
Fixpoint offsum (Aj : list Z) (Ax x : list F) (i : Z) (p c : nat) : F :=
  match c with
  | O => r0
  | S c' => let j := nth p Aj 0%Z in
            (if Z.eqb i j then r0 else nth p Ax r0 * nthZ x j r0) + offsum Aj Ax x i (S p) c'
  end.
Fixpoint lastdiag (Aj : list Z) (Ax : list F) (i : Z) (p c : nat) (d : F) : F :=
  match c with
  | O => d
  | S c' => lastdiag Aj Ax i (S p) c' (if Z.eqb i (nth p Aj 0%Z) then nth p Ax r0 else d)
  end.

Lemma row_spec Aj Ax x i c : forall p rs d,
  row o Aj Ax x i p c rs d = (rs + offsum Aj Ax x i p c, lastdiag Aj Ax i p c d).
Proof.
  induction c as [|c IH]; intros p rs d; cbn [row offsum lastdiag].
  - f_equal. ring.
  - destruct (Z.eqb i (nth p Aj 0%Z)) eqn:E.
    + rewrite IH. f_equal. unfold o; cbn. ring.
    + rewrite IH. f_equal. unfold o; cbn. ring.
Qed.

Lemma nth_upd_same {A} (l : list A) i v d : (i < length l)%nat -> nth i (upd l i v) d = v.
Proof. revert i; induction l as [|h t IH]; intros [|i] H; cbn in *; try lia; auto. apply IH; lia. Qed.
Lemma nth_upd_other {A} (l : list A) i k v d : i <> k -> nth k (upd l i v) d = nth k l d.
Proof. revert i k; induction l as [|h t IH]; intros [|i] [|k] H; cbn; auto; try congruence. Qed.
Lemma length_upd {A} (l : list A) i v : length (upd l i v) = length l.
Proof. revert i; induction l as [|h t IH]; intros [|i]; cbn; auto. Qed.
Lemma upd_same {A} (l : list A) i d : upd l i (nth i l d) = l.
Proof. revert i; induction l as [|h t IH]; intros [|i]; cbn; auto. f_equal. apply IH. Qed.

(* the off-diagonal sum does not read x[i] *)
Lemma offsum_upd Aj Ax x i v c : forall p, (0 <= i)%Z ->
  (forall q, (p <= q < p + c)%nat -> (0 <= nth q Aj 0%Z)%Z) ->
  offsum Aj Ax (upd x (Z.to_nat i) v) i p c = offsum Aj Ax x i p c.
Proof.
  induction c as [|c IH]; intros p Hi Hpos; cbn [offsum]; auto.
  rewrite IH by (auto; intros; apply Hpos; lia).
  destruct (Z.eqb i (nth p Aj 0%Z)) eqn:E; auto.
  f_equal. f_equal. unfold nthZ. apply nth_upd_other.
  apply Z.eqb_neq in E. specialize (Hpos p ltac:(lia)). intro H. apply E.
  apply Z2Nat.inj in H; lia.
Qed.

Section Row.
Variables (Ap Aj : list Z) (Ax b : list F) (i : Z).
Let s := Z.to_nat (nthZ Ap i 0%Z).
Let c := Z.to_nat (nthZ Ap (i + 1) 0%Z - nthZ Ap i 0%Z).
Let d := lastdiag Aj Ax i s c r0.
Hypothesis Hi : (0 <= i)%Z.
Hypothesis Hcols : forall q, (s <= q < s + c)%nat -> (0 <= nth q Aj 0%Z)%Z.

Lemma row_of_spec x : row_of o Ap Aj Ax x i = (r0 + offsum Aj Ax x i s c, d).
Proof. unfold row_of. fold s. fold c. rewrite row_spec. reflexivity. Qed.

(* Gauss-Seidel: d x'_i + sum_{j<>i} a_ij x'_j = b_i ; d = 0 leaves x alone *)
Theorem gs_row_equation x : (Z.to_nat i < length x)%nat ->
  let x' := gs_row o Ap Aj Ax b x i in
  (d <> r0 -> d * nthZ x' i r0 + offsum Aj Ax x' i s c = nthZ b i r0) /\
  (d = r0 -> x' = x) /\
  (forall k, k <> Z.to_nat i -> nth k x' r0 = nth k x r0) /\
  length x' = length x.
Proof.
  intros Hlen x'. subst x'. unfold gs_row. rewrite row_of_spec.
  destruct (isz o d) eqn:Ez.
  - apply isz_spec in Ez. repeat split; auto. intros H; contradiction.
  - assert (Hd : d <> r0) by (intro H; apply isz_spec in H; congruence).
    repeat split.
    + intros _. rewrite offsum_upd by auto. unfold nthZ at 1. rewrite nth_upd_same by auto.
      unfold o; cbn. field. exact Hd.
    + intros H; contradiction.
    + intros k Hk. apply nth_upd_other. congruence.
    + apply length_upd.
Qed.

(* SOR: d x'_i = omega (b_i - sum_{j<>i} a_ij x'_j) + (1 - omega) d x_i *)
Theorem sor_row_equation omega x : (Z.to_nat i < length x)%nat ->
  let x' := sor_row o omega Ap Aj Ax b x i in
  (d <> r0 -> d * nthZ x' i r0 =
              omega * (nthZ b i r0 - offsum Aj Ax x' i s c) + (r1 - omega) * (d * nthZ x i r0)) /\
  (d = r0 -> x' = x) /\
  (forall k, k <> Z.to_nat i -> nth k x' r0 = nth k x r0) /\
  length x' = length x.
Proof.
  intros Hlen x'. subst x'. unfold sor_row. rewrite row_of_spec.
  destruct (isz o d) eqn:Ez.
  - apply isz_spec in Ez. repeat split; auto. intros H; contradiction.
  - assert (Hd : d <> r0) by (intro H; apply isz_spec in H; congruence).
    repeat split.
    + intros _. rewrite offsum_upd by auto. unfold nthZ at 1. rewrite nth_upd_same by auto.
      unfold o; cbn. field. exact Hd.
    + intros H; contradiction.
    + intros k Hk. apply nth_upd_other. congruence.
    + apply length_upd.
Qed.

(* weighted Jacobi row, all reads from the frozen copy [temp] *)
Theorem jac_row_equation omega temp x : (Z.to_nat i < length x)%nat ->
  let x' := jac_row o omega Ap Aj Ax b temp x i in
  (d <> r0 -> d * nthZ x' i r0 =
              (r1 - omega) * (d * nthZ temp i r0) + omega * (nthZ b i r0 - offsum Aj Ax temp i s c)) /\
  (d = r0 -> x' = x) /\
  (forall k, k <> Z.to_nat i -> nth k x' r0 = nth k x r0) /\
  length x' = length x.
Proof.
  intros Hlen x'. subst x'. unfold jac_row. rewrite row_of_spec.
  destruct (isz o d) eqn:Ez.
  - apply isz_spec in Ez. repeat split; auto. intros H; contradiction.
  - assert (Hd : d <> r0) by (intro H; apply isz_spec in H; congruence).
    repeat split.
    + intros _. unfold nthZ at 1. rewrite nth_upd_same by auto.
      unfold o; cbn. field. exact Hd.
    + intros H; contradiction.
    + intros k Hk. apply nth_upd_other. congruence.
    + apply length_upd.
Qed.

(* a row whose equation already holds (or whose diagonal is zero) is a fixed point *)
Definition row_solved (x : list F) : Prop :=
  d = r0 \/ d * nthZ x i r0 + offsum Aj Ax x i s c = nthZ b i r0.

Lemma gs_row_fixed x : row_solved x -> gs_row o Ap Aj Ax b x i = x.
Proof.
  intros H. unfold gs_row. rewrite row_of_spec.
  destruct (isz o d) eqn:Ez; [reflexivity|].
  assert (Hd : d <> r0) by (intro E; apply isz_spec in E; congruence).
  destruct H as [H|H]; [contradiction|].
  replace (div o (sub o (nthZ b i (zero o)) (r0 + offsum Aj Ax x i s c)) d) with (nthZ x i r0).
  - apply upd_same.
  - unfold o; cbn. rewrite <- H. field. exact Hd.
Qed.

Lemma sor_row_fixed omega x : row_solved x -> sor_row o omega Ap Aj Ax b x i = x.
Proof.
  intros H. unfold sor_row. rewrite row_of_spec.
  destruct (isz o d) eqn:Ez; [reflexivity|].
  assert (Hd : d <> r0) by (intro E; apply isz_spec in E; congruence).
  destruct H as [H|H]; [contradiction|].
  match goal with |- upd x _ ?v = x => replace v with (nthZ x i r0) end.
  - apply upd_same.
  - unfold o; cbn. rewrite <- H. field. exact Hd.
Qed.

Lemma jac_row_fixed omega x : row_solved x -> jac_row o omega Ap Aj Ax b x x i = x.
Proof.
  intros H. unfold jac_row. rewrite row_of_spec.
  destruct (isz o d) eqn:Ez; [reflexivity|].
  assert (Hd : d <> r0) by (intro E; apply isz_spec in E; congruence).
  destruct H as [H|H]; [contradiction|].
  match goal with |- upd x _ ?v = x => replace v with (nthZ x i r0) end.
  - apply upd_same.
  - unfold o; cbn. rewrite <- H. field. exact Hd.
Qed.

(* SOR with omega = 1 is the Gauss-Seidel row update *)
Lemma sor_one_is_gs x : sor_row o r1 Ap Aj Ax b x i = gs_row o Ap Aj Ax b x i.
Proof.
  unfold sor_row, gs_row. rewrite row_of_spec.
  destruct (isz o d) eqn:Ez; [reflexivity|].
  assert (Hd : d <> r0) by (intro E; apply isz_spec in E; congruence).
  f_equal. unfold o; cbn. field. exact Hd.
Qed.
End Row.

(* ---- whole sweeps ---- *)
Definition csr_ok (Ap Aj : list Z) (rows : list Z) : Prop :=
  forall i, In i rows -> (0 <= i)%Z /\
    forall q, (Z.to_nat (nthZ Ap i 0%Z) <= q <
               Z.to_nat (nthZ Ap i 0%Z) + Z.to_nat (nthZ Ap (i + 1) 0%Z - nthZ Ap i 0%Z))%nat ->
              (0 <= nth q Aj 0%Z)%Z.

Definition solved (Ap Aj : list Z) (Ax b x : list F) (rows : list Z) : Prop :=
  forall i, In i rows -> row_solved Ap Aj Ax b i x.

(* the exact solution (every swept row equation holds) is a fixed point of the sweep,
   for any order of the rows: forward, backward, indexed *)
Theorem gs_sweep_fixed Ap Aj Ax b x rows :
  solved Ap Aj Ax b x rows -> fold_left (fun x i => gs_row o Ap Aj Ax b x i) rows x = x.
Proof.
  induction rows as [|i rows IH]; intro H; cbn [fold_left]; [reflexivity|].
  rewrite gs_row_fixed by (apply H; left; reflexivity). apply IH. intros k Hk. apply H. right; exact Hk.
Qed.

Theorem sor_sweep_fixed omega Ap Aj Ax b x rows :
  solved Ap Aj Ax b x rows -> fold_left (fun x i => sor_row o omega Ap Aj Ax b x i) rows x = x.
Proof.
  induction rows as [|i rows IH]; intro H; cbn [fold_left]; [reflexivity|].
  rewrite sor_row_fixed by (apply H; left; reflexivity). apply IH. intros k Hk. apply H. right; exact Hk.
Qed.

Theorem gauss_seidel_fixed_point Ap Aj Ax x b start stop step :
  solved Ap Aj Ax b x (loop_idx start stop step) -> gauss_seidel o Ap Aj Ax x b start stop step = x.
Proof. apply gs_sweep_fixed. Qed.

Theorem sor_fixed_point Ap Aj Ax x b start stop step omega :
  solved Ap Aj Ax b x (loop_idx start stop step) -> sor_gauss_seidel o Ap Aj Ax x b start stop step omega = x.
Proof. apply sor_sweep_fixed. Qed.

Theorem sor_one_is_gauss_seidel Ap Aj Ax x b start stop step :
  sor_gauss_seidel o Ap Aj Ax x b start stop step r1 = gauss_seidel o Ap Aj Ax x b start stop step.
Proof.
  unfold sor_gauss_seidel, gauss_seidel. generalize (loop_idx start stop step) as rows. intro rows.
  revert x. induction rows as [|i rows IH]; intro x; cbn [fold_left]; [reflexivity|].
  rewrite sor_one_is_gs. apply IH.
Qed.

(* iterations are the k-fold composition of one application *)
Theorem iterate_succ {A} (f : A -> A) k a : iterate (S k) f a = iterate k f (f a).
Proof. reflexivity. Qed.
Theorem iterate_fixed {A} (f : A -> A) k a : f a = a -> iterate k f a = a.
Proof. intro H. induction k as [|k IH]; cbn [iterate]; [reflexivity|]. rewrite H. exact IH. Qed.

(* the driver: exact solution is a fixed point for every sweep direction, iteration count and omega *)
Theorem driver_gs_fixed_point Ap Aj Ax b N its sw omega x :
  solved Ap Aj Ax b x (loop_idx 0 N 1) -> solved Ap Aj Ax b x (loop_idx (N - 1) (-1) (-1)) ->
  drv_gauss_seidel_csr o true Ap Aj Ax b N its sw omega x = x.
Proof.
  intros Hf Hb. unfold drv_gauss_seidel_csr.
  assert (One : forall w s, drv_gs_one o w Ap Aj Ax b omega s N x = x).
  { intros w s0. unfold drv_gs_one. destruct s0; cbn [range_of]; destruct w;
      first [apply gauss_seidel_fixed_point; assumption | apply sor_fixed_point; assumption]. }
  destruct sw; apply iterate_fixed; rewrite ?One; reflexivity.
Qed.
End Proofs.

(* ---- packaging for the property statements ---- *)
Definition is_field {F} (o : Ops F) (inv : F -> F) : Prop :=
  field_theory (zero o) (one o) (add o) (mul o) (sub o) (opp o) (div o) inv (@eq F) /\
  (forall a b, eqb o a b = true <-> a = b).
Definition seg_start (Ap : list Z) (i : Z) : nat := Z.to_nat (nthZ Ap i 0%Z).
Definition seg_len (Ap : list Z) (i : Z) : nat := Z.to_nat (nthZ Ap (i + 1) 0%Z - nthZ Ap i 0%Z).
(* stored diagonal a_ii (last one if duplicated, 0 if absent) and  sum_{j<>i} a_ij x_j  of CSR row i *)
Definition rdiag {F} (o : Ops F) (Ap Aj : list Z) (Ax : list F) (i : Z) : F :=
  lastdiag F (zero o) Aj Ax i (seg_start Ap i) (seg_len Ap i) (zero o).
Definition rsum {F} (o : Ops F) (Ap Aj : list Z) (Ax x : list F) (i : Z) : F :=
  offsum F (zero o) (add o) (mul o) Aj Ax x i (seg_start Ap i) (seg_len Ap i).
Definition cols_nonneg (Ap Aj : list Z) (i : Z) : Prop :=
  forall q, (seg_start Ap i <= q < seg_start Ap i + seg_len Ap i)%nat -> (0 <= nth q Aj 0%Z)%Z.
Definition rows_solved {F} (o : Ops F) (Ap Aj : list Z) (Ax b x : list F) (rows : list Z) : Prop :=
  forall i, In i rows ->
    rdiag o Ap Aj Ax i = zero o \/
    add o (mul o (rdiag o Ap Aj Ax i) (nthZ x i (zero o))) (rsum o Ap Aj Ax x i) = nthZ b i (zero o).
