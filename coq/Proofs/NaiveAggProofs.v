(* C12, unbounded: naive_aggregation returns a partition for EVERY graph whose column indices are
   in range: every node is in exactly one aggregate 1..c, every aggregate contains its root (so
   no aggregate is empty and the roots are distinct), and every member of an aggregate is the
   root or a neighbour of the root. *)
From Coq Require Import ZArith List Bool Lia.
Import ListNotations.
Require Import PV.Model.GraphAlg PV.Model.Aggregate.
Open Scope Z_scope.

Lemma nth_setn_same {A} (l : list A) i v d : (i < length l)%nat -> nth i (setn l i v) d = v.
Proof. revert i; induction l as [|h t IH]; intros [|i] H; cbn in *; try lia; auto. apply IH; lia. Qed.
Lemma nth_setn_other {A} (l : list A) i k v d : i <> k -> nth k (setn l i v) d = nth k l d.
Proof. revert i k; induction l as [|h t IH]; intros [|i] [|k] H; cbn; auto; try congruence. Qed.
Lemma length_setn {A} (l : list A) i v : length (setn l i v) = length l.
Proof. revert i; induction l as [|h t IH]; intros [|i]; cbn; auto. Qed.
Lemma length_set (x : list Z) i v : length (set x i v) = length x.
Proof. unfold set. destruct (i <? 0); [reflexivity|apply length_setn]. Qed.
Lemma get_set_same (x : list Z) i v : 0 <= i < Z.of_nat (length x) -> get (set x i v) i = v.
Proof. intro H. unfold get, set. destruct (Z.ltb_spec i 0); [lia|]. apply nth_setn_same. lia. Qed.
Lemma get_set_other (x : list Z) i k v : 0 <= i -> 0 <= k -> i <> k -> get (set x i v) k = get x k.
Proof. intros Hi Hk Hne. unfold get, set. destruct (Z.ltb_spec i 0); [lia|]. apply nth_setn_other. lia. Qed.
Lemma zr_seq (k : nat) : zr 0 (Z.of_nat k) = map Z.of_nat (seq 0 k).
Proof. unfold zr. rewrite Z.sub_0_r, Nat2Z.id. apply map_ext. intros a. lia. Qed.
Lemma nth_map_const {A B} (l : list A) (v d : B) k : (k < length l)%nat -> nth k (map (fun _ => v) l) d = v.
Proof. revert k; induction l as [|h t IH]; intros [|k] H; cbn in *; try lia; auto. apply IH; lia. Qed.
Lemma get_fillz (N : nat) v k : 0 <= k < Z.of_nat N -> get (fillz (Z.of_nat N) v) k = v.
Proof.
  intro H. unfold get, fillz. apply nth_map_const. rewrite zr_seq, map_length, seq_length. lia.
Qed.
Lemma length_fillz (N : nat) v : length (fillz (Z.of_nat N) v) = N.
Proof. unfold fillz. rewrite zr_seq, !map_length, seq_length. reflexivity. Qed.

Section N.
Variables (N : nat) (Ap Aj : list Z).
Let n := Z.of_nat N.
Hypothesis cols_in_range : forall i, 0 <= i < n -> forall j, In j (nbrs Ap Aj i) -> 0 <= j < n.

(* inner loop: give the id `next` to every still unassigned neighbour *)
Definition grab (next : Z) (x : list Z) (row : list Z) : list Z :=
  fold_left (fun x j => if get x j =? 0 then set x j next else x) row x.
Lemma grab_spec next : next <> 0 -> forall row x, length x = N -> (forall j, In j row -> 0 <= j < n) ->
  let x' := grab next x row in
  length x' = N /\
  (forall k, 0 <= k < n -> get x k <> 0 -> get x' k = get x k) /\
  (forall k, 0 <= k < n -> get x' k = get x k \/ (get x' k = next /\ get x k = 0 /\ In k row)) /\
  (forall k, In k row -> get x' k <> 0).
Proof.
  intros Hnz. induction row as [|j row IH]; intros x Hl Hr; cbn [grab fold_left].
  - repeat split; auto; intros k [] .
  - assert (Hj : 0 <= j < n) by (apply Hr; left; reflexivity).
    assert (Hr' : forall k, In k row -> 0 <= k < n) by (intros k Hk; apply Hr; right; exact Hk).
    destruct (Z.eqb_spec (get x j) 0) as [E|E].
    + assert (Hl' : length (set x j next) = N) by (rewrite length_set; exact Hl).
      destruct (IH (set x j next) Hl' Hr') as (L & Keep & Ch & Nz). fold (grab next (set x j next) row).
      repeat split.
      * exact L.
      * intros k Hk Hx. assert (k <> j) by (intro; subst; contradiction).
        rewrite Keep; [apply get_set_other; lia|exact Hk|rewrite get_set_other by lia; exact Hx].
      * intros k Hk. destruct (Z.eq_dec k j) as [->|Hne].
        -- right. repeat split; [|exact E|left; reflexivity].
           rewrite Keep; [apply get_set_same; unfold n in *; lia|exact Hj|rewrite get_set_same by (unfold n in *; lia); exact Hnz].
        -- destruct (Ch k Hk) as [Same|(A & B & C)].
           ++ left. rewrite Same. apply get_set_other; lia.
           ++ right. repeat split; [exact A| rewrite get_set_other in B by lia; exact B|right; exact C].
      * intros k [<-|Hk]; [|apply Nz; exact Hk].
        rewrite Keep; [rewrite get_set_same by (unfold n in *; lia); exact Hnz|exact Hj|rewrite get_set_same by (unfold n in *; lia); exact Hnz].
    + destruct (IH x Hl Hr') as (L & Keep & Ch & Nz). fold (grab next x row).
      repeat split; auto.
      * intros k Hk. destruct (Ch k Hk) as [Same|(A & B & C)]; [left; exact Same|right; repeat split; auto; right; exact C].
      * intros k [<-|Hk]; [rewrite Keep; auto|apply Nz; exact Hk].
Qed.

(* one outer step and the invariant after m nodes *)
Definition step (s : list Z * list Z * Z) (i : Z) : list Z * list Z * Z :=
  let '(x, y, next) := s in
  if negb (get x i =? 0) then s
  else (grab next (set x i next) (nbrs Ap Aj i), set y (next - 1) i, next + 1).

Record Inv (m : nat) (x y : list Z) (next : Z) : Prop := {
  i_lx : length x = N; i_ly : length y = N;
  i_next : 1 <= next <= Z.of_nat m + 1;
  i_rng : forall k, 0 <= k < n -> 0 <= get x k < next;
  i_done : forall k, 0 <= k < Z.of_nat m -> get x k <> 0;
  i_root : forall a, 1 <= a < next -> 0 <= get y (a - 1) < Z.of_nat m /\ get x (get y (a - 1)) = a;
  i_mem : forall k, 0 <= k < n -> forall a, 1 <= a -> get x k = a -> k = get y (a - 1) \/ In k (nbrs Ap Aj (get y (a - 1)))
}.

Lemma step_inv m x y next : (m < N)%nat -> Inv m x y next ->
  let '(x', y', next') := step (x, y, next) (Z.of_nat m) in Inv (S m) x' y' next'.
Proof.
  intros Hm I. destruct I as [Lx Ly Hn Rng Done Root Mem]. unfold step.
  assert (Hmn : 0 <= Z.of_nat m < n) by (unfold n; lia).
  destruct (Z.eqb_spec (get x (Z.of_nat m)) 0) as [E|E]; cbn [negb].
  - (* a new aggregate rooted at m *)
    set (x1 := set x (Z.of_nat m) next).
    assert (L1 : length x1 = N) by (unfold x1; rewrite length_set; exact Lx).
    assert (Hnz : next <> 0) by lia.
    destruct (grab_spec next Hnz (nbrs Ap Aj (Z.of_nat m)) x1 L1 (cols_in_range _ Hmn)) as (L & Keep & Ch & _).
    set (x' := grab next x1 (nbrs Ap Aj (Z.of_nat m))) in *.
    assert (X1m : get x1 (Z.of_nat m) = next) by (unfold x1; apply get_set_same; rewrite Lx; unfold n in *; lia).
    assert (X'm : get x' (Z.of_nat m) = next) by (rewrite Keep; [exact X1m|exact Hmn|rewrite X1m; exact Hnz]).
    assert (X1o : forall k, 0 <= k -> k <> Z.of_nat m -> get x1 k = get x k) by (intros k H0 H1; unfold x1; apply get_set_other; lia).
    assert (Ynew : get (set y (next - 1) (Z.of_nat m)) (next - 1) = Z.of_nat m) by (apply get_set_same; rewrite Ly; lia).
    assert (Yold : forall a, 1 <= a < next -> get (set y (next - 1) (Z.of_nat m)) (a - 1) = get y (a - 1)) by (intros a Ha; apply get_set_other; lia).
    constructor.
    + exact L.
    + rewrite length_set. exact Ly.
    + lia.
    + intros k Hk. destruct (Ch k Hk) as [Same|(A & _ & _)]; [|lia].
      rewrite Same. destruct (Z.eq_dec k (Z.of_nat m)) as [->|Hne]; [rewrite X1m; lia|].
      rewrite X1o by lia. specialize (Rng k Hk). lia.
    + intros k Hk. destruct (Z.eq_dec k (Z.of_nat m)) as [->|Hne]; [rewrite X'm; exact Hnz|].
      assert (Hk' : 0 <= k < n) by (unfold n in *; lia).
      rewrite Keep; [rewrite X1o by lia; apply Done; lia|exact Hk'|rewrite X1o by lia; apply Done; lia].
    + intros a Ha. destruct (Z.eq_dec a next) as [->|Hne].
      * rewrite Ynew. split; [lia|exact X'm].
      * assert (Ha' : 1 <= a < next) by lia. rewrite (Yold a Ha'). destruct (Root a Ha') as [R1 R2].
        split; [lia|].
        assert (Hr : 0 <= get y (a - 1) < n) by (unfold n in *; lia).
        assert (Hne' : get y (a - 1) <> Z.of_nat m) by lia.
        rewrite Keep; [rewrite X1o by lia; exact R2|exact Hr|rewrite X1o by lia; lia].
    + intros k Hk a Ha Hx. destruct (Ch k Hk) as [Same|(A & B & C)].
      * destruct (Z.eq_dec k (Z.of_nat m)) as [->|Hne].
        -- rewrite Same, X1m in Hx. subst a. rewrite Ynew. left; reflexivity.
        -- rewrite Same, X1o in Hx by lia. specialize (Rng k Hk).
           assert (Ha' : 1 <= a < next) by lia. rewrite (Yold a Ha'). apply Mem; assumption.
      * rewrite A in Hx. subst a. rewrite Ynew. right; exact C.
  - (* already aggregated *)
    constructor; auto; try lia.
    + intros k Hk. destruct (Z.eq_dec k (Z.of_nat m)) as [->|Hne]; [exact E|apply Done; lia].
    + intros a Ha. destruct (Root a Ha) as [R1 R2]. split; [lia|exact R2].
Qed.

Lemma fold_inv : forall (k m : nat) x y next, (m + k <= N)%nat -> Inv m x y next ->
  let '(x', y', next') := fold_left step (map Z.of_nat (seq m k)) (x, y, next) in Inv (m + k) x' y' next'.
Proof.
  induction k as [|k IH]; intros m x y next Hb I; cbn [seq map fold_left].
  - rewrite Nat.add_0_r. exact I.
  - pose proof (step_inv m x y next ltac:(lia) I) as S1.
    destruct (step (x, y, next) (Z.of_nat m)) as [[x1 y1] next1].
    replace (m + S k)%nat with (S m + k)%nat by lia. apply IH; [lia|exact S1].
Qed.

Theorem naive_aggregation_partition (y0 : list Z) : length y0 = N ->
  let '(x, y, c) := naive_aggregation n Ap Aj y0 in
  length x = N /\ 0 <= c <= n /\
  (forall k, 0 <= k < n -> 1 <= get x k <= c) /\
  (forall a, 1 <= a <= c -> 0 <= get y (a - 1) < n /\ get x (get y (a - 1)) = a) /\
  (forall k, 0 <= k < n -> k = get y (get x k - 1) \/ In k (nbrs Ap Aj (get y (get x k - 1)))).
Proof.
  intro Hy. unfold naive_aggregation.
  assert (I0 : Inv 0 (fillz n 0) y0 1).
  { constructor.
    - apply length_fillz.
    - exact Hy.
    - lia.
    - intros k Hk. unfold n in *. rewrite get_fillz by lia. lia.
    - intros k Hk. lia.
    - intros a Ha. lia.
    - intros k Hk a Ha Hx. unfold n in *. rewrite get_fillz in Hx by lia. lia. }
  pose proof (fold_inv N 0 (fillz n 0) y0 1 ltac:(lia) I0) as F.
  unfold n at 1 in F. rewrite <- zr_seq in F. fold n in F.
  change (fun s i => let '(x, y, next) := s in
          if negb (get x i =? 0) then s
          else (fold_left (fun x j => if get x j =? 0 then set x j next else x) (nbrs Ap Aj i) (set x i next), set y (next - 1) i, next + 1))
    with step.
  destruct (fold_left step (zr 0 n) (fillz n 0, y0, 1)) as [[x y] next]. cbn [Nat.add] in F.
  destruct F as [Lx Ly Hn Rng Done Root Mem].
  repeat split.
  - exact Lx.
  - lia.
  - unfold n; lia.
  - specialize (Rng k H). specialize (Done k ltac:(unfold n in *; lia)). lia.
  - specialize (Rng k H). lia.
  - destruct (Root a ltac:(lia)) as [R1 _]. lia.
  - destruct (Root a ltac:(lia)) as [R1 _]. unfold n; lia.
  - destruct (Root a ltac:(lia)) as [_ R2]. exact R2.
  - intros k Hk. apply Mem; [exact Hk| |reflexivity].
    specialize (Rng k Hk). specialize (Done k ltac:(unfold n in *; lia)). lia.
Qed.
End N.
