(* C09: the Kaczmarz row step (gauss_seidel_ne) over an arbitrary field and an arbitrary conjugation function:
   after row i has been processed, a_i . x' = a_i . x + (sum_j a_ij conj(a_ij)) * delta with
   delta = (b_i - a_i . x) Dinv_i omega; so with Dinv_i the inverse of the squared row norm the residual of row i
   is multiplied by (1 - omega) (omega = 1 solves the row), entries outside the row's columns do not change, and a
   solved row is left alone. *)
From Coq Require Import ZArith List Lia Ring Field Setoid Bool.
Import ListNotations.
Require Import PV.Base.Ops PV.Model.Relax PV.Proofs.RelaxProofs.

Section K.
Variable F : Type.
Variables (r0 r1 : F) (radd rmul rsub : F -> F -> F) (ropp : F -> F) (rdiv : F -> F -> F) (rinv : F -> F).
Variables (rabs : F -> F) (reqb rleb rltb : F -> F -> bool).
Hypothesis Fth : field_theory r0 r1 radd rmul rsub ropp rdiv rinv (@eq F).
Add Field Fk : Fth.
Variable conj : F -> F.
Let o : Ops F := mkOps F r0 r1 radd rsub rmul rdiv ropp rabs reqb rleb rltb.
Notation "a + b" := (radd a b). Notation "a * b" := (rmul a b).
Notation "a - b" := (rsub a b).

Variables (Aj : list Z) (Ax : list F).
Let cj (j : Z) : nat := Z.to_nat (nthZ Aj j 0%Z).
Let a (j : Z) : F := nthZ Ax j r0.

Fixpoint sumf (f : Z -> F) (l : list Z) : F := match l with [] => r0 | j :: t => f j + sumf f t end.
Lemma fold_sumf (f : Z -> F) l : forall acc, fold_left (fun d j => d + f j) l acc = acc + sumf f l.
Proof. induction l as [|j t IH]; intro acc; cbn [fold_left sumf]; [ring|]. rewrite IH. ring. Qed.

Definition rdot (cols : list Z) (x : list F) : F := sumf (fun j => a j * nth (cj j) x r0) cols.
Definition sqs (cols : list Z) : F := sumf (fun j => a j * conj (a j)) cols.
Definition incr (cols : list Z) (delta : F) (k : nat) : F :=
  sumf (fun j => if Nat.eqb (cj j) k then conj (a j) * delta else r0) cols.
Definition updall (cols : list Z) (delta : F) (x : list F) : list F :=
  fold_left (fun x j => upd x (cj j) (nth (cj j) x r0 + conj (a j) * delta)) cols x.

Lemma length_updall cols delta : forall x, length (updall cols delta x) = length x.
Proof. induction cols as [|j t IH]; intro x; cbn [updall fold_left]; [reflexivity|]. unfold updall in IH. rewrite IH. apply length_upd. Qed.

Lemma nth_updall cols delta : forall x k, (forall j, In j cols -> (cj j < length x)%nat) ->
  nth k (updall cols delta x) r0 = nth k x r0 + incr cols delta k.
Proof.
  induction cols as [|j t IH]; intros x k Hin; cbn [updall fold_left incr sumf]; [ring|].
  unfold updall in IH. rewrite IH.
  2:{ intros j' Hj'. rewrite length_upd. apply Hin. right; exact Hj'. }
  fold (incr t delta k).
  destruct (Nat.eqb_spec (cj j) k) as [E|E].
  - subst k. rewrite nth_upd_same by (apply Hin; left; reflexivity). ring.
  - rewrite nth_upd_other by exact E. ring.
Qed.

Lemma incr_nodup cols delta : NoDup (map cj cols) -> forall j, In j cols -> incr cols delta (cj j) = conj (a j) * delta.
Proof.
  induction cols as [|j0 t IH]; intros Nd j Hj; [destruct Hj|].
  cbn [map] in Nd. inversion Nd as [|? ? Hnot Nd']; subst. cbn [incr sumf]. fold (incr t delta (cj j)).
  destruct Hj as [<-|Hj].
  - rewrite Nat.eqb_refl.
    assert (Z0 : incr t delta (cj j0) = r0).
    { clear IH Nd Nd'. induction t as [|j1 t IHt]; [reflexivity|]. cbn [incr sumf]. fold (incr t delta (cj j0)).
      destruct (Nat.eqb_spec (cj j1) (cj j0)) as [E|E].
      - exfalso. apply Hnot. cbn [map]. left. exact E.
      - rewrite IHt; [ring|]. intro H. apply Hnot. cbn [map]. right. exact H. }
    rewrite Z0. ring.
  - destruct (Nat.eqb_spec (cj j0) (cj j)) as [E|E].
    + exfalso. apply Hnot. rewrite E. apply in_map. exact Hj.
    + rewrite IH by assumption. ring.
Qed.

Lemma sumf_ext (f g : Z -> F) l : (forall j, In j l -> f j = g j) -> sumf f l = sumf g l.
Proof. induction l as [|j t IH]; intro H; cbn [sumf]; [reflexivity|]. rewrite (H j) by (left; reflexivity). rewrite IH; [reflexivity|]. intros; apply H; right; assumption. Qed.
Lemma sumf_add (f g : Z -> F) l : sumf (fun j => f j + g j) l = sumf f l + sumf g l.
Proof. induction l as [|j t IH]; cbn [sumf]; [ring|]. rewrite IH. ring. Qed.
Lemma sumf_scale (f : Z -> F) c l : sumf (fun j => f j * c) l = sumf f l * c.
Proof. induction l as [|j t IH]; cbn [sumf]; [ring|]. rewrite IH. ring. Qed.

Theorem rdot_updall cols delta x : NoDup (map cj cols) -> (forall j, In j cols -> (cj j < length x)%nat) ->
  rdot cols (updall cols delta x) = rdot cols x + sqs cols * delta.
Proof.
  intros Nd Hin. unfold rdot, sqs.
  rewrite (sumf_ext _ (fun j => a j * nth (cj j) x r0 + (a j * conj (a j)) * delta)).
  - rewrite sumf_add, sumf_scale. reflexivity.
  - intros j Hj. rewrite nth_updall by exact Hin. rewrite incr_nodup by assumption. ring.
Qed.

Lemma updall_zero cols : forall x, updall cols r0 x = x.
Proof.
  induction cols as [|j t IH]; intro x; cbn [updall fold_left]; [reflexivity|]. unfold updall in IH.
  replace (nth (cj j) x r0 + conj (a j) * r0) with (nth (cj j) x r0) by ring. rewrite upd_same. apply IH.
Qed.

(* ---- the model's row step ---- *)
Section Row.
Variables (Ap : list Z) (b Dinv : list F) (i : Z).
Let cols := zrange (nthZ Ap i 0%Z) (nthZ Ap (i + 1) 0%Z).
Definition kdelta (omega : F) (x : list F) : F := ((nthZ b i r0 - rdot cols x) * nthZ Dinv i r0) * omega.

Lemma gs_ne_row_is_updall omega x : gs_ne_row o conj Ap Aj Ax b Dinv x omega i = updall cols (kdelta omega x) x.
Proof.
  unfold gs_ne_row. fold cols. unfold kdelta, rdot, updall.
  change (zero o) with r0.
  assert (E : fold_left (fun d j => add o d (mul o (nthZ Ax j r0) (nthZ x (nthZ Aj j 0%Z) r0))) cols r0
              = sumf (fun j => a j * nth (cj j) x r0) cols).
  { change (fold_left (fun d j => d + (fun j => a j * nth (cj j) x r0) j) cols r0 = sumf (fun j => a j * nth (cj j) x r0) cols).
    rewrite fold_sumf. ring. }
  rewrite E. reflexivity.
Qed.

Theorem kaczmarz_row omega x : NoDup (map cj cols) -> (forall j, In j cols -> (cj j < length x)%nat) ->
  let x' := gs_ne_row o conj Ap Aj Ax b Dinv x omega i in
  rdot cols x' = rdot cols x + sqs cols * kdelta omega x /\
  (nthZ Dinv i r0 * sqs cols = r1 ->
     nthZ b i r0 - rdot cols x' = (r1 - omega) * (nthZ b i r0 - rdot cols x)) /\
  (forall k, ~ In k (map cj cols) -> nth k x' r0 = nth k x r0) /\
  length x' = length x /\
  (rdot cols x = nthZ b i r0 -> x' = x).
Proof.
  intros Nd Hin x'. unfold x'. rewrite gs_ne_row_is_updall.
  assert (E1 := rdot_updall cols (kdelta omega x) x Nd Hin).
  split; [exact E1|]. split; [|split; [|split]].
  - intro Hd. rewrite E1. unfold kdelta.
    transitivity (nthZ b i r0 - rdot cols x - (nthZ Dinv i r0 * sqs cols) * ((nthZ b i r0 - rdot cols x) * omega)); [ring|].
    rewrite Hd. ring.
  - intros k Hk. rewrite nth_updall by exact Hin.
    assert (Z0 : incr cols (kdelta omega x) k = r0).
    { clear -Hk Fth. induction cols as [|j t IHt]; [reflexivity|]. cbn [incr sumf]. fold (incr t (kdelta omega x) k).
      destruct (Nat.eqb_spec (cj j) k) as [E|E].
      - exfalso. apply Hk. cbn [map]. left. exact E.
      - rewrite IHt; [ring|]. intro H. apply Hk. cbn [map]. right. exact H. }
    rewrite Z0. ring.
  - apply length_updall.
  - intro Hs. unfold kdelta. rewrite Hs.
    replace ((nthZ b i r0 - nthZ b i r0) * nthZ Dinv i r0 * omega) with r0 by ring. apply updall_zero.
Qed.
Lemma gs_ne_row_fixed omega x : rdot cols x = nthZ b i r0 -> gs_ne_row o conj Ap Aj Ax b Dinv x omega i = x.
Proof.
  intro Hs. rewrite gs_ne_row_is_updall. unfold kdelta. rewrite Hs.
  replace ((nthZ b i r0 - nthZ b i r0) * nthZ Dinv i r0 * omega) with r0 by ring. apply updall_zero.
Qed.
End Row.

(* a vector that satisfies every row equation of the sweep is a fixed point of the whole sweep, in any row order *)
Theorem gauss_seidel_ne_fixed_point Ap b Dinv x start stop step omega :
  (forall i, In i (loop_idx start stop step) ->
     rdot (zrange (nthZ Ap i 0%Z) (nthZ Ap (i + 1) 0%Z)) x = nthZ b i r0) ->
  gauss_seidel_ne o conj Ap Aj Ax x b start stop step Dinv omega = x.
Proof.
  unfold gauss_seidel_ne. generalize (loop_idx start stop step) as rows.
  induction rows as [|i t IH]; intro H; cbn [fold_left]; [reflexivity|].
  rewrite gs_ne_row_fixed by (apply H; left; reflexivity). apply IH. intros; apply H; right; assumption.
Qed.
End K.
