(* C09: "rows whose diagonal is zero are left unchanged" (and so is every entry outside the swept range), for whole sweeps of
   the point kernels gauss_seidel, sor_gauss_seidel, gauss_seidel_indexed, jacobi and jacobi_indexed as modelled in
   Model/Relax.v.  No algebra is needed: any value type, any operations. *)
From Coq Require Import ZArith List Lia Bool.
Import ListNotations.
Require Import PV.Base.Ops PV.Model.Relax PV.Proofs.RelaxProofs.

Section Frame.
Context {F : Type} (o : Ops F).

(* the stored diagonal of row i as the kernels find it (last stored entry with column i); it does not depend on x *)
Lemma row_diag_indep Aj Ax x y i c : forall p rs rs' d,
  snd (row o Aj Ax x i p c rs d) = snd (row o Aj Ax y i p c rs' d).
Proof.
  induction c as [|c IH]; intros p rs rs' d; cbn [row]; [reflexivity|].
  destruct (Z.eqb i (nth p Aj 0%Z)); apply IH.
Qed.
Definition diag_of (Ap Aj : list Z) (Ax : list F) (i : Z) : F := snd (row_of o Ap Aj Ax [] i).
Lemma diag_of_spec Ap Aj Ax x i : snd (row_of o Ap Aj Ax x i) = diag_of Ap Aj Ax i.
Proof. unfold diag_of, row_of. apply row_diag_indep. Qed.

Definition frame (zd : Z -> bool) (u : list F -> Z -> list F) : Prop :=
  forall x i k dflt, (k <> Z.to_nat i \/ zd i = true) -> nth k (u x i) dflt = nth k x dflt.

Lemma fold_frame zd u : frame zd u -> forall rows x k dflt,
  (forall i, In i rows -> Z.to_nat i = k -> zd i = true) ->
  nth k (fold_left u rows x) dflt = nth k x dflt.
Proof.
  intros Hu. induction rows as [|i rows IH]; intros x k dflt H; cbn [fold_left]; [reflexivity|].
  rewrite IH by (intros j Hj; apply H; right; exact Hj).
  apply Hu. destruct (Nat.eq_dec k (Z.to_nat i)) as [E|E]; [right|left; exact E].
  apply H; [left; reflexivity|symmetry; exact E].
Qed.

Variables (Ap Aj : list Z) (Ax b : list F).
Let zd (i : Z) : bool := isz o (diag_of Ap Aj Ax i).

Lemma gs_row_frame : frame zd (fun x i => gs_row o Ap Aj Ax b x i).
Proof.
  intros x i k dflt H. unfold gs_row.
  pose proof (diag_of_spec Ap Aj Ax x i) as D. destruct (row_of o Ap Aj Ax x i) as [rs dg]. cbn [snd] in D. subst dg.
  fold (zd i). destruct (zd i) eqn:E; [reflexivity|].
  destruct H as [H|H]; [|discriminate]. apply nth_upd_other. congruence.
Qed.
Lemma sor_row_frame omega : frame zd (fun x i => sor_row o omega Ap Aj Ax b x i).
Proof.
  intros x i k dflt H. unfold sor_row.
  pose proof (diag_of_spec Ap Aj Ax x i) as D. destruct (row_of o Ap Aj Ax x i) as [rs dg]. cbn [snd] in D. subst dg.
  fold (zd i). destruct (zd i) eqn:E; [reflexivity|].
  destruct H as [H|H]; [|discriminate]. apply nth_upd_other. congruence.
Qed.
Lemma jac_row_frame omega temp : frame zd (fun x i => jac_row o omega Ap Aj Ax b temp x i).
Proof.
  intros x i k dflt H. unfold jac_row.
  pose proof (diag_of_spec Ap Aj Ax temp i) as D. destruct (row_of o Ap Aj Ax temp i) as [rs dg]. cbn [snd] in D. subst dg.
  fold (zd i). destruct (zd i) eqn:E; [reflexivity|].
  destruct H as [H|H]; [|discriminate]. apply nth_upd_other. congruence.
Qed.

(* whole sweeps: entry k of the result equals entry k of the input unless some swept row i = k has a nonzero diagonal *)
Theorem sweeps_leave_zero_diagonal_rows k dflt x start stop step omega temp (Id indices : list Z) :
  let swept := loop_idx start stop step in
  (forall i, In i swept -> Z.to_nat i = k -> zd i = true) ->
  nth k (gauss_seidel o Ap Aj Ax x b start stop step) dflt = nth k x dflt /\
  nth k (sor_gauss_seidel o Ap Aj Ax x b start stop step omega) dflt = nth k x dflt /\
  nth k (jacobi o Ap Aj Ax x b temp start stop step omega) dflt = nth k x dflt.
Proof.
  intros swept H. split; [|split].
  - unfold gauss_seidel. apply (fold_frame zd _ gs_row_frame). exact H.
  - unfold sor_gauss_seidel. apply (fold_frame zd _ (sor_row_frame omega)). exact H.
  - unfold jacobi. apply (fold_frame zd _ (jac_row_frame omega _)). exact H.
Qed.

Theorem indexed_sweeps_leave_zero_diagonal_rows k dflt x start stop step omega (Id indices : list Z) :
  (forall i, In i (loop_idx start stop step) -> Z.to_nat (nthZ Id i 0%Z) = k -> zd (nthZ Id i 0%Z) = true) ->
  (forall i, In i indices -> Z.to_nat i = k -> zd i = true) ->
  nth k (gauss_seidel_indexed o Ap Aj Ax x b Id start stop step) dflt = nth k x dflt /\
  nth k (jacobi_indexed o Ap Aj Ax x b indices omega) dflt = nth k x dflt.
Proof.
  intros H1 H2. split.
  - unfold gauss_seidel_indexed.
    assert (G : forall rows y, (forall i, In i rows -> Z.to_nat (nthZ Id i 0%Z) = k -> zd (nthZ Id i 0%Z) = true) ->
                nth k (fold_left (fun x i => gs_row o Ap Aj Ax b x (nthZ Id i 0%Z)) rows y) dflt = nth k y dflt).
    { induction rows as [|i rows IH]; intros y H; cbn [fold_left]; [reflexivity|].
      rewrite IH by (intros j Hj; apply H; right; exact Hj).
      apply gs_row_frame. destruct (Nat.eq_dec k (Z.to_nat (nthZ Id i 0%Z))) as [E|E]; [right|left; exact E].
      apply H; [left; reflexivity|symmetry; exact E]. }
    apply G. exact H1.
  - unfold jacobi_indexed. apply (fold_frame zd _ (jac_row_frame omega x)). exact H2.
Qed.
End Frame.
