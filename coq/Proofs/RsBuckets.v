(* C13 / C17, unbounded: the lambda buckets of rs_cf_splitting (pyamg/amg_core/ruge_stuben.h) are a sorted,
   gap-free partition of the unprocessed positions, kept so by incr_lambda, decr_lambda and the removal of the top
   node -- for every number of vertices and every strength pattern. *)
From Coq Require Import ZArith List Bool Lia.
Import ListNotations.
Require Import PV.Model.GraphAlg PV.Model.Split.
Require Import PV.Proofs.NaiveAggProofs.
Open Scope Z_scope.

Lemma setn_oob' {A} (l : list A) i v : (length l <= i)%nat -> setn l i v = l.
Proof. revert i; induction l as [|h t IH]; intros [|i] H; cbn in *; try reflexivity; try lia. f_equal. apply IH. lia. Qed.

Lemma gs (x : list Z) i k v : 0 <= k ->
  get (set x i v) k = if (i =? k) && (i <? Z.of_nat (length x)) then v else get x k.
Proof.
  intro Hk. destruct (Z.eqb_spec i k) as [E|E]; cbn [andb].
  - subst k. destruct (Z.ltb_spec i (Z.of_nat (length x))) as [H|H].
    + apply get_set_same. lia.
    + unfold set. destruct (Z.ltb_spec i 0); [reflexivity|]. rewrite setn_oob'; [reflexivity|lia].
  - unfold set. destruct (Z.ltb_spec i 0); [reflexivity|].
    unfold get. apply nth_setn_other. lia.
Qed.

Definition posl (s : st) (p : Z) : Z := get (lam s) (get (i2n s) p).

Section B.
Variables (N Ln : nat).
Let n := Z.of_nat N.
Let Lz := Z.of_nat Ln.

Record BI (top : Z) (s : st) : Prop := {
  b_top : 0 <= top <= n;
  b_llam : length (lam s) = N; b_li2n : length (i2n s) = N; b_ln2i : length (n2i s) = N;
  b_lspl : length (spl s) = N; b_lptr : length (iptr s) = Ln; b_lcnt : length (icnt s) = Ln;
  b_L : n + 1 <= Lz;
  b_p2 : forall v, 0 <= v < n -> 0 <= get (n2i s) v < n /\ get (i2n s) (get (n2i s) v) = v;
  b_p1 : forall p, 0 <= p < top -> 0 <= get (i2n s) p < n /\ get (n2i s) (get (i2n s) p) = p;
  b_lam : forall v, 0 <= v < n -> 0 <= get (lam s) v < Lz;
  b_own : forall p, 0 <= p < top ->
          get (iptr s) (posl s p) <= p < get (iptr s) (posl s p) + get (icnt s) (posl s p);
  b_hom : forall l p, 0 <= l < Lz -> get (iptr s) l <= p < get (iptr s) l + get (icnt s) l ->
          0 <= p < top /\ posl s p = l;
  b_sort : forall p q, 0 <= p -> p <= q -> q < top -> posl s p <= posl s q;
  b_cnt : forall l, 0 <= l < Lz -> 0 <= get (icnt s) l;
  b_done : forall v, 0 <= v < n -> top <= get (n2i s) v -> get (spl s) v <> U_NODE
}.

(* --------------------------------------------------------------- incr_lambda *)
Lemma incr_BI top s k : BI top s -> 0 <= k < n -> BI top (incr_lambda n s k).
Proof.
  intros B Hk. unfold incr_lambda.
  destruct (get (spl s) k =? U_NODE) eqn:EU; cbn [negb]; [|exact B].
  destruct (get (lam s) k >=? n - 1) eqn:EG; [exact B|].
  apply Z.eqb_eq in EU. rewrite Z.geb_leb in EG. apply Z.leb_gt in EG.
  destruct B as [Ht Ll Li Ln2 Ls Lp Lc LL P2 P1 Lam Own Hom Sort Cnt Done].
  set (lk := get (lam s) k) in *.
  set (p0 := get (n2i s) k).
  destruct (P2 k Hk) as [Rp0 Ip0]. fold p0 in Rp0, Ip0.
  assert (Hp0 : p0 < top).
  { destruct (Z_lt_dec p0 top) as [H|H]; [exact H|]. exfalso. apply (Done k Hk); [fold p0; lia|exact EU]. }
  assert (Pl0 : posl s p0 = lk) by (unfold posl; rewrite Ip0; reflexivity).
  pose proof (Own p0 ltac:(lia)) as O0. rewrite Pl0 in O0.
  destruct (Lam k Hk) as [Lk0 Lk1]. fold lk in Lk0, Lk1.
  set (c := get (icnt s) lk) in *. set (a := get (iptr s) lk) in *.
  set (q := a + c - 1).
  assert (Hq : q = a + c - 1) by reflexivity.
  destruct (Hom lk q ltac:(lia) ltac:(unfold q; fold a c; lia)) as [Rq Plq].
  set (b := get (i2n s) q).
  destruct (P1 q Rq) as [Rb Iq]. fold b in Rb, Iq.
  assert (Lb : get (lam s) b = lk) by (exact Plq).
  (* views of the new arrays *)
  assert (Vi : forall p, 0 <= p -> get (i2n (swap_pos s p0 q)) p =
               if p =? q then k else if p =? p0 then b else get (i2n s) p).
  { intros p Hp. unfold swap_pos; cbn [i2n]. rewrite gs by exact Hp. rewrite length_set, Li. fold n.
    rewrite gs by exact Hp. rewrite Li. fold n. fold b. rewrite Ip0.
    destruct (Z.eqb_spec q p), (Z.eqb_spec p q); try lia; cbn [andb].
    - destruct (Z.ltb_spec q n); [reflexivity|lia].
    - destruct (Z.eqb_spec p0 p), (Z.eqb_spec p p0); try lia; cbn [andb]; [|reflexivity].
      destruct (Z.ltb_spec p0 n); [reflexivity|lia]. }
  assert (Vn : forall v, 0 <= v -> get (n2i (swap_pos s p0 q)) v =
               if v =? b then p0 else if v =? k then q else get (n2i s) v).
  { intros v Hv. unfold swap_pos; cbn [n2i]. rewrite gs by exact Hv. rewrite length_set, Ln2. fold n.
    rewrite gs by exact Hv. rewrite Ln2. fold n. fold b. rewrite Ip0.
    destruct (Z.eqb_spec b v), (Z.eqb_spec v b); try lia; cbn [andb].
    - destruct (Z.ltb_spec b n); [reflexivity|lia].
    - destruct (Z.eqb_spec k v), (Z.eqb_spec v k); try lia; cbn [andb]; [|reflexivity].
      destruct (Z.ltb_spec k n); [reflexivity|lia]. }
  assert (bk : b = k -> q = p0) by (intro E; rewrite <- Iq, E; reflexivity).
  cbv zeta.
  set (s1 := swap_pos s p0 q) in *.
  assert (E1 : lam s1 = lam s /\ iptr s1 = iptr s /\ icnt s1 = icnt s /\ spl s1 = spl s) by (repeat split).
  destruct E1 as (El & Ep & Ec & Es). rewrite El, Ep, Ec, Es.
  assert (Li1 : length (i2n s1) = N) by (unfold s1, swap_pos; cbn [i2n]; rewrite !length_set; exact Li).
  assert (Ln1 : length (n2i s1) = N) by (unfold s1, swap_pos; cbn [n2i]; rewrite !length_set; exact Ln2).
  fold lk c.
  (* views of lam / iptr / icnt after the update *)
  assert (Vl : forall v, 0 <= v -> get (set (lam s) k (lk + 1)) v = if v =? k then lk + 1 else get (lam s) v).
  { intros v Hv. rewrite gs by exact Hv. rewrite Ll. fold n.
    destruct (Z.eqb_spec k v), (Z.eqb_spec v k); try lia; cbn [andb]; [|reflexivity].
    destruct (Z.ltb_spec k n); [reflexivity|lia]. }
  assert (Vp : forall l, 0 <= l -> get (set (iptr s) (lk + 1) q) l = if l =? lk + 1 then q else get (iptr s) l).
  { intros l Hl. rewrite gs by exact Hl. rewrite Lp. fold Lz.
    destruct (Z.eqb_spec (lk + 1) l), (Z.eqb_spec l (lk + 1)); try lia; cbn [andb]; [|reflexivity].
    destruct (Z.ltb_spec (lk + 1) Lz); [reflexivity|lia]. }
  assert (Vc : forall l, 0 <= l ->
          get (set (set (icnt s) lk (c - 1)) (lk + 1) (get (set (icnt s) lk (c - 1)) (lk + 1) + 1)) l =
          if l =? lk + 1 then get (icnt s) (lk + 1) + 1 else if l =? lk then c - 1 else get (icnt s) l).
  { intros l Hl. rewrite gs by exact Hl. rewrite length_set, Lc. fold Lz.
    rewrite (gs (icnt s) lk (lk + 1)) by lia. rewrite Lc. fold Lz.
    destruct (Z.eqb_spec lk (lk + 1)); [lia|]. cbn [andb].
    destruct (Z.eqb_spec (lk + 1) l), (Z.eqb_spec l (lk + 1)); try lia; cbn [andb].
    - destruct (Z.ltb_spec (lk + 1) Lz); [reflexivity|lia].
    - rewrite gs by exact Hl. rewrite Lc. fold Lz.
      destruct (Z.eqb_spec lk l), (Z.eqb_spec l lk); try lia; cbn [andb]; [|reflexivity].
      destruct (Z.ltb_spec lk Lz); [reflexivity|lia]. }
  (* position-wise lambda after the update *)
  assert (Vpos : forall p, 0 <= p < top ->
          get (set (lam s) k (lk + 1)) (get (i2n s1) p) = if p =? q then lk + 1 else posl s p).
  { intros p Hp. rewrite Vi by lia.
    destruct (Z.eqb_spec p q) as [Eq|Nq].
    - rewrite Vl by lia. rewrite Z.eqb_refl. reflexivity.
    - destruct (Z.eqb_spec p p0) as [E0|N0].
      + rewrite Vl by lia. destruct (Z.eqb_spec b k) as [Ebk|Nbk]; [exfalso; apply bk in Ebk; lia|].
        subst p. rewrite Pl0. exact Lb.
      + destruct (P1 p Hp) as [Rv Iv]. rewrite Vl by lia.
        destruct (Z.eqb_spec (get (i2n s) p) k) as [Ek|Nk]; [exfalso; rewrite Ek in Iv; fold p0 in Iv; lia|reflexivity]. }
  (* adjacency: a non-empty bucket lk+1 starts right after bucket lk *)
  assert (Adj : 0 < get (icnt s) (lk + 1) -> get (iptr s) (lk + 1) = q + 1).
  { intro Hc1. set (a1 := get (iptr s) (lk + 1)) in *.
    destruct (Hom (lk + 1) a1 ltac:(lia) ltac:(fold a1; lia)) as [Ra1 Pa1].
    assert (q < a1).
    { destruct (Z_lt_dec q a1) as [H|H]; [exact H|]. exfalso.
      pose proof (Sort a1 q ltac:(lia) ltac:(lia) ltac:(lia)). lia. }
    destruct (Z.eq_dec a1 (q + 1)) as [E|E]; [exact E|]. exfalso.
    assert (Rq1 : 0 <= q + 1 < top) by lia.
    pose proof (Sort q (q + 1) ltac:(lia) ltac:(lia) ltac:(lia)) as S1.
    pose proof (Sort (q + 1) a1 ltac:(lia) ltac:(lia) ltac:(lia)) as S2.
    pose proof (Own (q + 1) Rq1) as O1.
    assert (Cs : posl s (q + 1) = lk \/ posl s (q + 1) = lk + 1) by lia.
    destruct Cs as [Cs|Cs]; rewrite Cs in O1; [fold a c in O1; lia|fold a1 in O1; lia]. }
  constructor; cbn [lam iptr icnt i2n n2i spl]; try assumption.
  - rewrite length_set. exact Ll.
  - rewrite length_set. exact Lp.
  - rewrite !length_set. exact Lc.
  - (* p2 *) intros v Hv. rewrite Vn by lia.
    destruct (Z.eqb_spec v b) as [Eb|Nb].
    + split; [lia|]. rewrite Vi by lia.
      destruct (Z.eqb_spec p0 q) as [E|E].
      * subst v. unfold b. rewrite <- E. rewrite Ip0. reflexivity.
      * rewrite Z.eqb_refl. symmetry; exact Eb.
    + destruct (Z.eqb_spec v k) as [Ek|Nk].
      * split; [lia|]. rewrite Vi by lia. rewrite Z.eqb_refl. lia.
      * destruct (P2 v Hv) as [Rv Iv]. split; [exact Rv|]. rewrite Vi by lia.
        destruct (Z.eqb_spec (get (n2i s) v) q) as [E|E]; [exfalso; rewrite E in Iv; fold b in Iv; lia|].
        destruct (Z.eqb_spec (get (n2i s) v) p0) as [E'|E']; [exfalso; rewrite E' in Iv; rewrite Ip0 in Iv; lia|exact Iv].
  - (* p1 *) intros p Hp. rewrite Vi by lia.
    destruct (Z.eqb_spec p q) as [Eq|Nq].
    + split; [lia|]. rewrite Vn by lia. destruct (Z.eqb_spec k b) as [E|E]; [symmetry in E; apply bk in E; lia|].
      rewrite Z.eqb_refl. lia.
    + destruct (Z.eqb_spec p p0) as [E0|N0].
      * split; [lia|]. rewrite Vn by lia. rewrite Z.eqb_refl. lia.
      * destruct (P1 p Hp) as [Rv Iv]. split; [exact Rv|]. rewrite Vn by lia.
        destruct (Z.eqb_spec (get (i2n s) p) b) as [E|E]; [exfalso; rewrite E in Iv; lia|].
        destruct (Z.eqb_spec (get (i2n s) p) k) as [E'|E']; [exfalso; rewrite E' in Iv; fold p0 in Iv; lia|exact Iv].
  - (* lam range *) intros v Hv. rewrite Vl by lia. destruct (Z.eqb_spec v k); [lia|apply Lam; exact Hv].
  - (* own *) intros p Hp. unfold posl; cbn [lam i2n]. rewrite (Vpos p Hp).
    pose proof (Own p Hp) as Op. pose proof (Cnt (lk + 1) ltac:(lia)) as C1.
    destruct (Z.eqb_spec p q) as [Eq|Nq].
    + rewrite Vp, Vc by lia. rewrite !Z.eqb_refl. lia.
    + assert (R : 0 <= posl s p < Lz) by (destruct (P1 p Hp) as [Rv _]; apply Lam; exact Rv).
      rewrite Vp, Vc by lia.
      destruct (Z.eqb_spec (posl s p) (lk + 1)) as [E1|N1].
      * rewrite E1 in Op. rewrite Adj in Op by lia. lia.
      * destruct (Z.eqb_spec (posl s p) lk) as [E2|N2]; [rewrite E2 in *; fold a c in Op |-*; lia|exact Op].
  - (* hom *) intros l p Hl. rewrite Vp, Vc by lia. intro Hin.
    pose proof (Cnt (lk + 1) ltac:(lia)) as C1.
    assert (Key : 0 <= p < top /\ (if p =? q then lk + 1 else posl s p) = l).
    { destruct (Z.eqb_spec l (lk + 1)) as [E1|N1].
      - destruct (Z.eqb_spec p q) as [Eq|Nq]; [lia|].
        assert (Hc1 : 0 < get (icnt s) (lk + 1)) by lia.
        pose proof (Adj Hc1) as A1.
        destruct (Hom (lk + 1) p ltac:(lia) ltac:(lia)) as [Rp Pp]. split; [exact Rp|lia].
      - destruct (Z.eqb_spec l lk) as [E2|N2].
        + subst l. fold a in Hin. destruct (Hom lk p ltac:(lia) ltac:(fold a c; lia)) as [Rp Pp].
          destruct (Z.eqb_spec p q); [lia|]. split; assumption.
        + destruct (Hom l p Hl Hin) as [Rp Pp]. destruct (Z.eqb_spec p q) as [Eq|Nq]; [subst p; lia|]. split; assumption. }
    destruct Key as [Rp Kp]. split; [exact Rp|]. unfold posl; cbn [lam i2n]. rewrite (Vpos p Rp). exact Kp.
  - (* sorted *) intros p r Hp Hpr Hr. unfold posl; cbn [lam i2n]. rewrite !Vpos by lia.
    pose proof (Sort p r Hp Hpr Hr) as Spr.
    destruct (Z.eqb_spec p q) as [Eq|Nq], (Z.eqb_spec r q) as [Er|Nr].
    + lia.
    + (* p = q < r *) rewrite Eq in Spr. rewrite Plq in Spr.
      pose proof (Own r ltac:(lia)) as Or.
      destruct (Z.eq_dec (posl s r) lk) as [E|E]; [rewrite E in Or; fold a c in Or; lia|lia].
    + rewrite Er in Spr. rewrite Plq in Spr. lia.
    + exact Spr.
  - (* cnt *) intros l Hl. rewrite Vc by lia. pose proof (Cnt l Hl). pose proof (Cnt (lk + 1) ltac:(lia)).
    destruct (Z.eqb_spec l (lk + 1)); [lia|]. destruct (Z.eqb_spec l lk) as [El2|Nl2]; [rewrite El2 in *; fold c in H; lia|lia].
  - (* done *) intros v Hv. rewrite Vn by lia.
    destruct (Z.eqb_spec v b); [lia|]. destruct (Z.eqb_spec v k); [lia|]. apply Done. exact Hv.
Qed.
(* --------------------------------------------------------------- decr_lambda *)
Lemma decr_BI top s k : BI top s -> 0 <= k < n -> BI top (decr_lambda s k).
Proof.
  intros B Hk. unfold decr_lambda.
  destruct (get (spl s) k =? U_NODE) eqn:EU; cbn [negb]; [|exact B].
  destruct (get (lam s) k =? 0) eqn:EG; [exact B|].
  apply Z.eqb_eq in EU. apply Z.eqb_neq in EG.
  destruct B as [Ht Ll Li Ln2 Ls Lp Lc LL P2 P1 Lam Own Hom Sort Cnt Done].
  set (lk := get (lam s) k) in *.
  set (p0 := get (n2i s) k).
  destruct (P2 k Hk) as [Rp0 Ip0]. fold p0 in Rp0, Ip0.
  assert (Hp0 : p0 < top).
  { destruct (Z_lt_dec p0 top) as [H|H]; [exact H|]. exfalso. apply (Done k Hk); [fold p0; lia|exact EU]. }
  assert (Pl0 : posl s p0 = lk) by (unfold posl; rewrite Ip0; reflexivity).
  pose proof (Own p0 ltac:(lia)) as O0. rewrite Pl0 in O0.
  destruct (Lam k Hk) as [Lk0 Lk1]. fold lk in Lk0, Lk1.
  set (c := get (icnt s) lk) in *. set (a := get (iptr s) lk) in *.
  set (q := a).
  assert (Hq : q = a) by reflexivity.
  destruct (Hom lk q ltac:(lia) ltac:(unfold q; fold a c; lia)) as [Rq Plq].
  set (b := get (i2n s) q).
  destruct (P1 q Rq) as [Rb Iq]. fold b in Rb, Iq.
  assert (Lb : get (lam s) b = lk) by (exact Plq).
  assert (Vi : forall p, 0 <= p -> get (i2n (swap_pos s p0 q)) p =
               if p =? q then k else if p =? p0 then b else get (i2n s) p).
  { intros p Hp. unfold swap_pos; cbn [i2n]. rewrite gs by exact Hp. rewrite length_set, Li. fold n.
    rewrite gs by exact Hp. rewrite Li. fold n. fold b. rewrite Ip0.
    destruct (Z.eqb_spec q p), (Z.eqb_spec p q); try lia; cbn [andb].
    - destruct (Z.ltb_spec q n); [reflexivity|lia].
    - destruct (Z.eqb_spec p0 p), (Z.eqb_spec p p0); try lia; cbn [andb]; [|reflexivity].
      destruct (Z.ltb_spec p0 n); [reflexivity|lia]. }
  assert (Vn : forall v, 0 <= v -> get (n2i (swap_pos s p0 q)) v =
               if v =? b then p0 else if v =? k then q else get (n2i s) v).
  { intros v Hv. unfold swap_pos; cbn [n2i]. rewrite gs by exact Hv. rewrite length_set, Ln2. fold n.
    rewrite gs by exact Hv. rewrite Ln2. fold n. fold b. rewrite Ip0.
    destruct (Z.eqb_spec b v), (Z.eqb_spec v b); try lia; cbn [andb].
    - destruct (Z.ltb_spec b n); [reflexivity|lia].
    - destruct (Z.eqb_spec k v), (Z.eqb_spec v k); try lia; cbn [andb]; [|reflexivity].
      destruct (Z.ltb_spec k n); [reflexivity|lia]. }
  assert (bk : b = k -> q = p0) by (intro E; rewrite <- Iq, E; reflexivity).
  cbv zeta.
  set (s1 := swap_pos s p0 q) in *.
  assert (E1 : lam s1 = lam s /\ iptr s1 = iptr s /\ icnt s1 = icnt s /\ spl s1 = spl s) by (repeat split).
  destruct E1 as (El & Ep & Ec & Es). rewrite El, Ep, Ec, Es.
  assert (Li1 : length (i2n s1) = N) by (unfold s1, swap_pos; cbn [i2n]; rewrite !length_set; exact Li).
  assert (Ln1 : length (n2i s1) = N) by (unfold s1, swap_pos; cbn [n2i]; rewrite !length_set; exact Ln2).
  fold lk c a.
  set (c' := get (icnt s) (lk - 1)).
  assert (Vl : forall v, 0 <= v -> get (set (lam s) k (lk - 1)) v = if v =? k then lk - 1 else get (lam s) v).
  { intros v Hv. rewrite gs by exact Hv. rewrite Ll. fold n.
    destruct (Z.eqb_spec k v), (Z.eqb_spec v k); try lia; cbn [andb]; [|reflexivity].
    destruct (Z.ltb_spec k n); [reflexivity|lia]. }
  assert (Vc : forall l, 0 <= l ->
          get (set (set (icnt s) lk (c - 1)) (lk - 1) (get (set (icnt s) lk (c - 1)) (lk - 1) + 1)) l =
          if l =? lk - 1 then c' + 1 else if l =? lk then c - 1 else get (icnt s) l).
  { intros l Hl. rewrite gs by exact Hl. rewrite length_set, Lc. fold Lz.
    rewrite (gs (icnt s) lk (lk - 1)) by lia. rewrite Lc. fold Lz.
    destruct (Z.eqb_spec lk (lk - 1)); [lia|]. cbn [andb]. fold c'.
    destruct (Z.eqb_spec (lk - 1) l), (Z.eqb_spec l (lk - 1)); try lia; cbn [andb].
    - destruct (Z.ltb_spec (lk - 1) Lz); [reflexivity|lia].
    - rewrite gs by exact Hl. rewrite Lc. fold Lz.
      destruct (Z.eqb_spec lk l), (Z.eqb_spec l lk); try lia; cbn [andb]; [|reflexivity].
      destruct (Z.ltb_spec lk Lz); [reflexivity|lia]. }
  assert (Vp : forall l, 0 <= l ->
          get (set (set (iptr s) lk (a + 1)) (lk - 1)
                 (get (set (iptr s) lk (a + 1)) lk -
                  get (set (set (icnt s) lk (c - 1)) (lk - 1) (get (set (icnt s) lk (c - 1)) (lk - 1) + 1)) (lk - 1))) l =
          if l =? lk - 1 then a - c' else if l =? lk then a + 1 else get (iptr s) l).
  { intros l Hl. rewrite (Vc (lk - 1)) by lia. rewrite Z.eqb_refl.
    rewrite (gs (iptr s) lk lk) by lia. rewrite Lp. fold Lz. rewrite Z.eqb_refl.
    destruct (Z.ltb_spec lk Lz); [|lia]. cbn [andb].
    rewrite gs by exact Hl. rewrite length_set, Lp. fold Lz.
    destruct (Z.eqb_spec (lk - 1) l), (Z.eqb_spec l (lk - 1)); try lia; cbn [andb].
    - destruct (Z.ltb_spec (lk - 1) Lz); [lia|lia].
    - rewrite gs by exact Hl. rewrite Lp. fold Lz.
      destruct (Z.eqb_spec lk l), (Z.eqb_spec l lk); try lia; cbn [andb]; [|reflexivity].
      destruct (Z.ltb_spec lk Lz); [reflexivity|lia]. }
  assert (Vpos : forall p, 0 <= p < top ->
          get (set (lam s) k (lk - 1)) (get (i2n s1) p) = if p =? q then lk - 1 else posl s p).
  { intros p Hp. rewrite Vi by lia.
    destruct (Z.eqb_spec p q) as [Eq|Nq].
    - rewrite Vl by lia. rewrite Z.eqb_refl. reflexivity.
    - destruct (Z.eqb_spec p p0) as [E0|N0].
      + rewrite Vl by lia. destruct (Z.eqb_spec b k) as [Ebk|Nbk]; [exfalso; apply bk in Ebk; lia|].
        subst p. rewrite Pl0. exact Lb.
      + destruct (P1 p Hp) as [Rv Iv]. rewrite Vl by lia.
        destruct (Z.eqb_spec (get (i2n s) p) k) as [Ek|Nk]; [exfalso; rewrite Ek in Iv; fold p0 in Iv; lia|reflexivity]. }
  (* adjacency: a non-empty bucket lk-1 ends right where bucket lk starts *)
  assert (Adj : 0 < c' -> get (iptr s) (lk - 1) + c' = a).
  { intro Hc1. set (a1 := get (iptr s) (lk - 1)) in *. set (e1 := a1 + c' - 1).
    assert (He1 : e1 = a1 + c' - 1) by reflexivity.
    destruct (Hom (lk - 1) e1 ltac:(lia) ltac:(fold a1 c'; lia)) as [Re1 Pe1].
    assert (e1 < a).
    { destruct (Z_lt_dec e1 a) as [H|H]; [exact H|]. exfalso.
      pose proof (Sort a e1 ltac:(lia) ltac:(lia) ltac:(lia)). rewrite <- Hq in H0. lia. }
    destruct (Z.eq_dec (e1 + 1) a) as [E|E]; [lia|]. exfalso.
    assert (Rq1 : 0 <= e1 + 1 < top) by lia.
    pose proof (Sort e1 (e1 + 1) ltac:(lia) ltac:(lia) ltac:(lia)) as S1.
    pose proof (Sort (e1 + 1) q ltac:(lia) ltac:(lia) ltac:(lia)) as S2.
    pose proof (Own (e1 + 1) Rq1) as O1.
    assert (Cs : posl s (e1 + 1) = lk \/ posl s (e1 + 1) = lk - 1) by lia.
    destruct Cs as [Cs|Cs]; rewrite Cs in O1; [fold a c in O1; lia|fold a1 c' in O1; lia]. }
  pose proof (Cnt (lk - 1) ltac:(lia)) as C1. fold c' in C1.
  constructor; cbn [lam iptr icnt i2n n2i spl]; try assumption.
  - rewrite length_set. exact Ll.
  - rewrite !length_set. exact Lp.
  - rewrite !length_set. exact Lc.
  - (* p2 *) intros v Hv. rewrite Vn by lia.
    destruct (Z.eqb_spec v b) as [Eb|Nb].
    + split; [lia|]. rewrite Vi by lia.
      destruct (Z.eqb_spec p0 q) as [E|E].
      * subst v. unfold b. rewrite <- E. rewrite Ip0. reflexivity.
      * rewrite Z.eqb_refl. symmetry; exact Eb.
    + destruct (Z.eqb_spec v k) as [Ek|Nk].
      * split; [lia|]. rewrite Vi by lia. rewrite Z.eqb_refl. lia.
      * destruct (P2 v Hv) as [Rv Iv]. split; [exact Rv|]. rewrite Vi by lia.
        destruct (Z.eqb_spec (get (n2i s) v) q) as [E|E]; [exfalso; rewrite E in Iv; fold b in Iv; lia|].
        destruct (Z.eqb_spec (get (n2i s) v) p0) as [E'|E']; [exfalso; rewrite E' in Iv; rewrite Ip0 in Iv; lia|exact Iv].
  - (* p1 *) intros p Hp. rewrite Vi by lia.
    destruct (Z.eqb_spec p q) as [Eq|Nq].
    + split; [lia|]. rewrite Vn by lia. destruct (Z.eqb_spec k b) as [E|E]; [symmetry in E; apply bk in E; lia|].
      rewrite Z.eqb_refl. lia.
    + destruct (Z.eqb_spec p p0) as [E0|N0].
      * split; [lia|]. rewrite Vn by lia. rewrite Z.eqb_refl. lia.
      * destruct (P1 p Hp) as [Rv Iv]. split; [exact Rv|]. rewrite Vn by lia.
        destruct (Z.eqb_spec (get (i2n s) p) b) as [E|E]; [exfalso; rewrite E in Iv; lia|].
        destruct (Z.eqb_spec (get (i2n s) p) k) as [E'|E']; [exfalso; rewrite E' in Iv; fold p0 in Iv; lia|exact Iv].
  - (* lam range *) intros v Hv. rewrite Vl by lia. destruct (Z.eqb_spec v k); [lia|apply Lam; exact Hv].
  - (* own *) intros p Hp. unfold posl; cbn [lam i2n]. rewrite (Vpos p Hp).
    pose proof (Own p Hp) as Op.
    destruct (Z.eqb_spec p q) as [Eq|Nq].
    + rewrite Vp, Vc by lia. rewrite !Z.eqb_refl. lia.
    + assert (R : 0 <= posl s p < Lz) by (destruct (P1 p Hp) as [Rv _]; apply Lam; exact Rv).
      rewrite Vp, Vc by lia.
      destruct (Z.eqb_spec (posl s p) (lk - 1)) as [E1|N1].
      * rewrite E1 in Op. fold c' in Op. assert (0 < c') by lia. pose proof (Adj H). lia.
      * destruct (Z.eqb_spec (posl s p) lk) as [E2|N2]; [rewrite E2 in *; fold a c in Op |-*; lia|exact Op].
  - (* hom *) intros l p Hl. rewrite Vp, Vc by lia. intro Hin.
    assert (Key : 0 <= p < top /\ (if p =? q then lk - 1 else posl s p) = l).
    { destruct (Z.eqb_spec l (lk - 1)) as [E1|N1].
      - destruct (Z.eqb_spec p q) as [Eq|Nq]; [lia|].
        assert (Hc1 : 0 < c') by lia.
        pose proof (Adj Hc1) as A1.
        destruct (Hom (lk - 1) p ltac:(lia) ltac:(fold c'; lia)) as [Rp Pp]. split; [exact Rp|lia].
      - destruct (Z.eqb_spec l lk) as [E2|N2].
        + subst l. destruct (Hom lk p ltac:(lia) ltac:(fold a c; lia)) as [Rp Pp].
          destruct (Z.eqb_spec p q); [lia|]. split; assumption.
        + destruct (Hom l p Hl Hin) as [Rp Pp]. destruct (Z.eqb_spec p q) as [Eq|Nq]; [subst p; lia|]. split; assumption. }
    destruct Key as [Rp Kp]. split; [exact Rp|]. unfold posl; cbn [lam i2n]. rewrite (Vpos p Rp). exact Kp.
  - (* sorted *) intros p r Hp Hpr Hr. unfold posl; cbn [lam i2n]. rewrite !Vpos by lia.
    pose proof (Sort p r Hp Hpr Hr) as Spr.
    destruct (Z.eqb_spec p q) as [Eq|Nq], (Z.eqb_spec r q) as [Er|Nr].
    + lia.
    + rewrite Eq in Spr. rewrite Plq in Spr. lia.
    + (* p < q = r *) rewrite Er in Spr. rewrite Plq in Spr.
      pose proof (Own p ltac:(lia)) as Or.
      destruct (Z.eq_dec (posl s p) lk) as [E|E]; [rewrite E in Or; fold a c in Or; lia|lia].
    + exact Spr.
  - (* cnt *) intros l Hl. rewrite Vc by lia. pose proof (Cnt l Hl).
    destruct (Z.eqb_spec l (lk - 1)); [lia|]. destruct (Z.eqb_spec l lk) as [El2|Nl2]; [rewrite El2 in *; fold c in H; lia|lia].
  - (* done *) intros v Hv. rewrite Vn by lia.
    destruct (Z.eqb_spec v b); [lia|]. destruct (Z.eqb_spec v k); [lia|]. apply Done. exact Hv.
Qed.
(* --------------------------------------------------------------- the splitting array *)
Lemma spl_BI top s v' : BI top s -> length v' = N ->
  (forall v, 0 <= v < n -> get (spl s) v <> U_NODE -> get v' v <> U_NODE) -> BI top (with_spl s v').
Proof.
  intros [Ht Ll Li Ln2 Ls Lp Lc LL P2 P1 Lam Own Hom Sort Cnt Done] Lv Hv.
  constructor; cbn [with_spl lam iptr icnt i2n n2i spl]; try assumption.
  intros v Rv Hd. apply Hv; [exact Rv|]. apply Done; assumption.
Qed.

(* --------------------------------------------------------------- removing the top node *)
Definition pop (s : st) (t : Z) : st :=
  let i := get (i2n s) t in
  let li := get (lam s) i in
  {| lam := lam s; iptr := iptr s; icnt := set (icnt s) li (get (icnt s) li - 1);
     i2n := i2n s; n2i := n2i s; spl := spl s |}.

Lemma pop_BI top s : BI top s -> 0 < top -> get (spl s) (get (i2n s) (top - 1)) <> U_NODE ->
  BI (top - 1) (pop s (top - 1)).
Proof.
  intros [Ht Ll Li Ln2 Ls Lp Lc LL P2 P1 Lam Own Hom Sort Cnt Done] Htop HnU.
  set (t := top - 1). assert (Et : t = top - 1) by reflexivity.
  unfold pop. fold (posl s t).
  set (i := get (i2n s) t) in *. set (l := posl s t).
  destruct (P1 t ltac:(lia)) as [Ri It]. fold i in Ri, It.
  destruct (Lam i Ri) as [Rl0 Rl1]. change (get (lam s) i) with l in Rl0, Rl1.
  pose proof (Own t ltac:(lia)) as Ot. fold l in Ot.
  set (a := get (iptr s) l) in *. set (c := get (icnt s) l) in *.
  assert (Eend : a + c = top).
  { destruct (Hom l (a + c - 1) ltac:(lia) ltac:(fold a c; lia)) as [R _]. lia. }
  assert (Vc : forall l', 0 <= l' -> get (set (icnt s) l (c - 1)) l' = if l' =? l then c - 1 else get (icnt s) l').
  { intros l' Hl'. rewrite gs by exact Hl'. rewrite Lc. fold Lz.
    destruct (Z.eqb_spec l l'), (Z.eqb_spec l' l); try lia; cbn [andb]; [|reflexivity].
    destruct (Z.ltb_spec l Lz); [reflexivity|lia]. }
  constructor; cbn [lam iptr icnt i2n n2i spl]; try assumption.
  - lia.
  - rewrite length_set. exact Lc.
  - intros p Hp. apply P1. lia.
  - (* own *) intros p Hp. change (posl _ p) with (posl s p).
    pose proof (Own p ltac:(lia)) as Op.
    assert (R : 0 <= posl s p < Lz) by (destruct (P1 p ltac:(lia)) as [Rv _]; apply Lam; exact Rv).
    rewrite Vc by lia. destruct (Z.eqb_spec (posl s p) l) as [E|E]; [rewrite E in *; fold a c in Op |- *; lia|exact Op].
  - (* hom *) intros l' p Hl'. rewrite Vc by lia. intro Hin. change (posl _ p) with (posl s p).
    destruct (Z.eqb_spec l' l) as [E|E].
    + subst l'. fold a in Hin. destruct (Hom l p ltac:(lia) ltac:(fold a c; lia)) as [Rp Pp]. split; [lia|exact Pp].
    + destruct (Hom l' p Hl' Hin) as [Rp Pp]. split; [|exact Pp].
      destruct (Z.eq_dec p t) as [Ep|Ep]; [exfalso; subst p; fold l in Pp; lia|lia].
  - intros p q Hp Hpq Hq. change (posl _ p) with (posl s p). change (posl _ q) with (posl s q). apply Sort; lia.
  - intros l' Hl'. rewrite Vc by lia. pose proof (Cnt l' Hl') as Cl. destruct (Z.eqb_spec l' l) as [E|E]; [rewrite E in Cl; fold c in Cl; lia|lia].
  - intros v Rv Hd. destruct (Z.eq_dec (get (n2i s) v) t) as [E|E].
    + destruct (P2 v Rv) as [_ Iv]. rewrite E in Iv. fold i in Iv. subst v. exact HnU.
    + apply Done; [exact Rv|lia].
Qed.

(* the node on top carries the largest lambda of all unprocessed nodes *)
Lemma top_max top s : BI top s -> forall p, 0 <= p < top -> posl s p <= posl s (top - 1).
Proof. intros B p Hp. apply (b_sort _ _ B); lia. Qed.
End B.
