(* C17, unbounded: the bounds-checked naive aggregation never leaves Ap, Aj, x[0..n), y[0..n) on any
   structurally valid CSR graph and returns what the unchecked model returns. *)
From Coq Require Import ZArith List Bool Lia.
Import ListNotations.
Require Import PV.Model.GraphAlg PV.Model.Aggregate PV.Model.SplitChk PV.Model.AggChk PV.Proofs.NaiveAggProofs.
Open Scope Z_scope.

Lemma cget_get (l : list Z) i : 0 <= i < Z.of_nat (length l) -> cget l i = Some (get l i).
Proof.
  intro H. unfold cget, get. destruct (Z.ltb_spec i 0); [lia|]. apply nth_error_nth'. lia.
Qed.
Lemma cset_set (l : list Z) i v : 0 <= i < Z.of_nat (length l) -> cset l i v = Some (set l i v).
Proof.
  intro H. unfold cset, set. destruct (Z.ltb_spec i 0); [lia|].
  destruct (Nat.ltb_spec (Z.to_nat i) (length l)); [reflexivity|lia].
Qed.
Lemma omap_cget (J : list Z) : forall l, (forall k, In k l -> 0 <= k < Z.of_nat (length J)) ->
  omap (cget J) l = Some (map (get J) l).
Proof.
  induction l as [|k l IH]; intro H; cbn [omap map]; [reflexivity|].
  rewrite cget_get by (apply H; left; reflexivity). cbn [obind].
  rewrite IH by (intros q Hq; apply H; right; exact Hq). reflexivity.
Qed.
Lemma in_zr a b k : In k (zr a b) -> a <= k < b.
Proof. unfold zr. intro H. apply in_map_iff in H. destruct H as [q [<- Hq]]. apply in_seq in Hq. lia. Qed.

Section S.
Variables (N : nat) (Ap Aj : list Z).
Let n := Z.of_nat N.
(* structurally valid CSR *)
Hypothesis Ap_len : length Ap = S N.
Hypothesis Ap_mono : forall i, 0 <= i < n -> 0 <= get Ap i <= get Ap (i + 1) /\ get Ap (i + 1) <= Z.of_nat (length Aj).
Hypothesis cols_in_range : forall i, 0 <= i < n -> forall j, In j (nbrs Ap Aj i) -> 0 <= j < n.

Lemma row_chk_nbrs i : 0 <= i < n -> row_chk Ap Aj i = Some (nbrs Ap Aj i).
Proof.
  intro Hi. unfold row_chk, nbrs. destruct (Ap_mono i Hi) as [[M0 M1] M2].
  rewrite cget_get by (rewrite Ap_len; unfold n in *; lia). cbn [obind].
  rewrite cget_get by (rewrite Ap_len; unfold n in *; lia). cbn [obind].
  apply omap_cget. intros k Hk. apply in_zr in Hk. lia.
Qed.

Lemma grab_chk next : forall row x, length x = N -> (forall j, In j row -> 0 <= j < n) ->
  ofold (fun x j => obind (cget x j) (fun xj => if xj =? 0 then cset x j next else Some x)) row x = Some (grab next x row).
Proof.
  induction row as [|j row IH]; intros x Hl Hr; cbn [ofold grab fold_left]; [reflexivity|].
  assert (Hj : 0 <= j < n) by (apply Hr; left; reflexivity).
  rewrite cget_get by (rewrite Hl; unfold n in *; lia). cbn [obind].
  destruct (get x j =? 0).
  - rewrite cset_set by (rewrite Hl; unfold n in *; lia). cbn [obind].
    apply IH; [rewrite length_set; exact Hl|intros k Hk; apply Hr; right; exact Hk].
  - cbn [obind]. apply IH; [exact Hl|intros k Hk; apply Hr; right; exact Hk].
Qed.

Definition step_chk (s : list Z * list Z * Z) (i : Z) : option (list Z * list Z * Z) :=
  let '(x, y, next) := s in
  obind (cget x i) (fun xi =>
  if negb (xi =? 0) then Some s
  else obind (nbrs_chk Ap Aj i) (fun row =>
       obind (cset x i next) (fun x1 =>
       obind (ofold (fun x j => obind (cget x j) (fun xj => if xj =? 0 then cset x j next else Some x)) row x1) (fun x2 =>
       obind (cset y (next - 1) i) (fun y' => Some (x2, y', next + 1)))))).

Lemma step_chk_ok m x y next : (m < N)%nat -> Inv N Ap Aj m x y next ->
  step_chk (x, y, next) (Z.of_nat m) = Some (step Ap Aj (x, y, next) (Z.of_nat m)).
Proof.
  intros Hm I. destruct I as [Lx Ly Hn Rng Done Root Mem]. unfold step_chk, step.
  assert (Hmn : 0 <= Z.of_nat m < n) by (unfold n; lia).
  rewrite cget_get by (rewrite Lx; lia). cbn [obind].
  destruct (get x (Z.of_nat m) =? 0); cbn [negb]; [|reflexivity].
  unfold nbrs_chk. rewrite row_chk_nbrs by exact Hmn. cbn [obind].
  rewrite cset_set by (rewrite Lx; lia). cbn [obind].
  rewrite grab_chk; [|rewrite length_set; exact Lx|apply cols_in_range; exact Hmn]. cbn [obind].
  rewrite cset_set by (rewrite Ly; lia). reflexivity.
Qed.

Lemma fold_chk : forall (k m : nat) x y next, (m + k <= N)%nat -> Inv N Ap Aj m x y next ->
  ofold step_chk (map Z.of_nat (seq m k)) (x, y, next) = Some (fold_left (step Ap Aj) (map Z.of_nat (seq m k)) (x, y, next)).
Proof.
  induction k as [|k IH]; intros m x y next Hb I; cbn [seq map ofold fold_left]; [reflexivity|].
  rewrite (step_chk_ok m x y next ltac:(lia) I). cbn [obind].
  pose proof (step_inv N Ap Aj cols_in_range m x y next ltac:(lia) I) as S1.
  destruct (step Ap Aj (x, y, next) (Z.of_nat m)) as [[x1 y1] next1].
  apply IH; [lia|exact S1].
Qed.

Theorem naive_aggregation_safe (y0 : list Z) : length y0 = N ->
  naive_aggregation_chk n Ap Aj y0 = Some (naive_aggregation n Ap Aj y0).
Proof.
  intro Hy. unfold naive_aggregation_chk, naive_aggregation.
  assert (I0 : Inv N Ap Aj 0 (fillz n 0) y0 1).
  { constructor.
    - apply length_fillz.
    - exact Hy.
    - lia.
    - intros k Hk. unfold n in *. rewrite get_fillz by lia. lia.
    - intros k Hk. lia.
    - intros a Ha. lia.
    - intros k Hk a Ha Hx. unfold n in *. rewrite get_fillz in Hx by lia. lia. }
  pose proof (fold_chk N 0 (fillz n 0) y0 1 ltac:(lia) I0) as F.
  unfold n at 1 2 in F. rewrite <- zr_seq in F. fold n in F.
  change (fun s i => let '(x, y, next) := s in
          if negb (get x i =? 0) then s
          else (fold_left (fun x j => if get x j =? 0 then set x j next else x) (nbrs Ap Aj i) (set x i next), set y (next - 1) i, next + 1))
    with (step Ap Aj).
  match goal with |- obind ?a _ = _ => replace a with (ofold step_chk (zr 0 n) (fillz n 0, y0, 1)) by reflexivity end.
  rewrite F. cbn [obind]. destruct (fold_left (step Ap Aj) (zr 0 n) (fillz n 0, y0, 1)) as [[x y] next]. reflexivity.
Qed.
End S.
