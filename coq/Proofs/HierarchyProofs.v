From Coq Require Import List Arith Bool Lia.
Import ListNotations.
Require Import PV.Model.Hierarchy.

Section P.
Variable step : nat -> nat -> outcome.
Variables (max_levels max_coarse : nat).
Notation grow := (grow step max_levels max_coarse).

(* consecutive sizes are produced by the level extension: dimensions chain *)
Fixpoint chained (i : nat) (sizes : list nat) : Prop :=
  match sizes with
  | a :: ((b :: _) as t) => step i a = Next b /\ chained (S i) t
  | _ => True
  end.

Lemma last_app1 (l : list nat) (x : nat) : last (l ++ [x]) 0 = x.
Proof. apply last_last. Qed.

Lemma chained_app i sizes nc : sizes <> [] -> chained i sizes ->
  step (i + length sizes - 1) (last sizes 0) = Next nc -> chained i (sizes ++ [nc]).
Proof.
  revert i. induction sizes as [|a t IH]; intros i Hne Hc Hs; [contradiction|].
  destruct t as [|b t'].
  - cbn in *. replace (i + 1 - 1) with i in Hs by lia. split; [exact Hs|exact I].
  - cbn [app chained] in *. destruct Hc as [H1 H2]. split; [exact H1|].
    apply IH; [discriminate|exact H2|].
    replace (S i + length (b :: t') - 1) with (i + length (a :: b :: t') - 1) by (cbn; lia). exact Hs.
Qed.

Record Inv (n0 : nat) (sizes : list nat) : Prop := {
  inv_ne : sizes <> [];
  inv_hd : hd 0 sizes = n0;
  inv_chain : chained 0 sizes;
  inv_len : length sizes <= Nat.max 1 max_levels
}.

Lemma grow_spec : forall fuel sizes n0, Inv n0 sizes -> length sizes + fuel > max_levels -> fuel >= 1 ->
  exists r, grow fuel sizes = Some r /\ Inv n0 r /\
    (length r >= max_levels \/ last r 0 <= max_coarse \/ step (length r - 1) (last r 0) = Stall).
Proof.
  induction fuel as [|f IH]; intros sizes n0 HI Hf Hf1.
  - lia.
  - cbn [Hierarchy.grow].
    destruct (Nat.ltb_spec (length sizes) max_levels) as [Hl|Hl]; cbn [andb].
    + destruct (Nat.ltb_spec max_coarse (last sizes 0)) as [Hc|Hc].
      * destruct (step (length sizes - 1) (last sizes 0)) as [|nc] eqn:Es.
        -- exists sizes. split; [reflexivity|]. split; [exact HI|]. right; right; exact Es.
        -- destruct HI as [Hne Hhd Hch Hlen].
           apply IH.
           ++ constructor.
              ** destruct sizes; discriminate.
              ** destruct sizes; [contradiction|exact Hhd].
              ** apply chained_app; [exact Hne|exact Hch|exact Es].
              ** rewrite app_length. cbn [length]. lia.
           ++ rewrite app_length. cbn [length]. lia.
           ++ lia.
      * exists sizes. split; [reflexivity|]. split; [exact HI|]. right; left; exact Hc.
    + exists sizes. split; [reflexivity|]. split; [exact HI|]. left; lia.
Qed.

Theorem build_spec n0 : exists r, build step max_levels max_coarse n0 = Some r /\
  (* finest level is the input; at least one level; never more than max_levels (>= 1) *)
  hd 0 r = n0 /\ 1 <= length r <= Nat.max 1 max_levels /\
  (* dimensions chain: level i+1 is what the extension of level i produced *)
  chained 0 r /\
  (* coarsening stops only because of max_levels, max_coarse, or a stall *)
  (length r >= max_levels \/ last r 0 <= max_coarse \/ step (length r - 1) (last r 0) = Stall).
Proof.
  unfold build.
  destruct (grow_spec (S max_levels) [n0] n0) as (r & Hr & HI & Hstop).
  - constructor; cbn [hd chained length]; [discriminate|reflexivity|exact I|lia].
  - cbn [length]. lia.
  - lia.
  - exists r. split; [exact Hr|]. destruct HI as [Hne Hhd Hch Hlen].
    split; [exact Hhd|]. split; [|split; assumption].
    destruct r; [contradiction|cbn [length] in *; lia].
Qed.

(* if every extension strictly shrinks (classical / AIR: 0 < #C < n is forced by the stall
   test), level sizes strictly decrease *)
Fixpoint decreasing (sizes : list nat) : Prop :=
  match sizes with a :: ((b :: _) as t) => b < a /\ decreasing t | _ => True end.
Lemma chained_decreasing : (forall i n nc, step i n = Next nc -> nc < n) ->
  forall sizes i, chained i sizes -> decreasing sizes.
Proof.
  intros Hs. induction sizes as [|a t IH]; intros i Hc; [exact I|].
  destruct t as [|b t']; [exact I|]. cbn [chained decreasing] in *. destruct Hc as [H1 H2].
  split; [eapply Hs; exact H1|eapply IH; exact H2].
Qed.
Theorem build_decreasing n0 r : (forall i n nc, step i n = Next nc -> nc < n) ->
  build step max_levels max_coarse n0 = Some r -> decreasing r.
Proof.
  intros Hs Hb. destruct (build_spec n0) as (r' & Hr' & _ & _ & Hch & _).
  rewrite Hb in Hr'. injection Hr' as <-. eapply chained_decreasing; eassumption.
Qed.
End P.
