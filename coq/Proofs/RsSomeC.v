(* C13, unbounded: on EVERY pair of valid strength patterns (S, T not necessarily symmetric) with nonnegative
   influence, first-pass Ruge-Stuben marks a coarse point whenever some vertex has an off-diagonal entry in its row of T
   (somebody strongly depends on it), and the second pass keeps every coarse point of the first. *)
From Coq Require Import ZArith List Bool Lia.
Import ListNotations.
Require Import PV.Model.GraphAlg PV.Model.Split PV.Model.SplitChk.
Require Import PV.Proofs.NaiveAggProofs PV.Proofs.RsIndep PV.Proofs.RsBuckets PV.Proofs.RsInit PV.Proofs.RsDom PV.Proofs.RsFinal
               PV.Proofs.RsSafe PV.Proofs.Pass2Proofs.
Open Scope Z_scope.

Section SC.
Variables (N : nat) (Sp Sj Tp Tj infl : list Z).
Let n := Z.of_nat N.
Hypothesis VS : valid_csr N Sp Sj.
Hypothesis VT : valid_csr N Tp Tj.
Hypothesis Linfl : (N <= length infl)%nat.
Hypothesis infl_nonneg : forall i, 0 <= i < n -> 0 <= get infl i.
Notation LN := (Ln N (lamL N Tp infl)).
Notation BI := (BI N LN).

Definition hasCp (v : list Z) : Prop := exists c, 0 <= c < n /\ get v c = C_NODE.

Lemma makeC_keeps s i c : 0 <= c < n -> length (spl s) = N -> get (spl s) c = C_NODE \/ c = i ->
  get (spl (make_C n Sp Sj Tp Tj s i)) c = C_NODE.
Proof.
  intros Hc L H. unfold n. rewrite (spl_makeC N Sp Sj Tp Tj s i). fold n.
  set (v1 := set (spl s) i C_NODE).
  assert (V1 : get v1 c = C_NODE).
  { unfold v1. rewrite gs by lia. rewrite L. fold n. destruct H as [H| ->].
    - destruct (_ && _); [reflexivity|exact H].
    - rewrite Z.eqb_refl. destruct (Z.ltb_spec i n); [reflexivity|lia]. }
  assert (L1 : length v1 = N) by (unfold v1; rewrite length_set; exact L).
  destruct (repl_spec U_NODE PRE_F_NODE ltac:(discriminate) (Split.row Tp Tj i) v1) as (La & Aa & _).
  set (v2 := repl U_NODE PRE_F_NODE v1 (Split.row Tp Tj i)) in *.
  destruct (repl_spec PRE_F_NODE F_NODE ltac:(discriminate) (Split.row Tp Tj i) v2) as (Lb & Ab & _).
  rewrite La, L1 in *. fold n in Aa, Ab.
  destruct (Ab c Hc) as [Q|(Q & _)].
  - rewrite Q. destruct (Aa c Hc) as [R|(R & _)]; [rewrite R; exact V1|rewrite V1 in R; discriminate].
  - destruct (Aa c Hc) as [R|(R & _)]; [rewrite R, V1 in Q; discriminate|rewrite V1 in R; discriminate].
Qed.

Section K.
Variable k : Z.
Hypothesis Hk : 0 <= k < n.

Definition Inv (top : Z) (s : st) : Prop :=
  BI top s /\ (hasCp (spl s) \/ (get (spl s) k = U_NODE /\ 1 <= get (lam s) k /\ get (n2i s) k < top)).

Lemma main_someC : forall (m : nat) s, Inv (Z.of_nat m) s ->
  hasCp (spl (main n Sp Sj Tp Tj (rev (zr 0 (Z.of_nat m))) s)).
Proof.
  induction m as [|m IH]; intros s [B H].
  - cbn. destruct H as [H|(_ & _ & H)]; [exact H|]. destruct (b_p2 _ _ _ _ B k Hk) as [R _]. lia.
  - rewrite rev_zr_S. unfold n. rewrite (main_cons N Sp Sj Tp Tj). fold n. cbv zeta.
    set (top := Z.of_nat (S m)) in *. assert (Et : Z.of_nat m = top - 1) by (unfold top; lia).
    rewrite Et in *. set (t := top - 1) in *. set (i := get (i2n s) t).
    assert (Htop : 0 < top) by (unfold top; lia).
    destruct (b_p1 _ _ _ _ B t ltac:(unfold t; lia)) as [Ri Ii]. fold i in Ri, Ii.
    pose proof (b_lspl _ _ _ _ B) as Ls.
    destruct (Z.leb_spec (get (lam s) i) 0) as [Hle|Hgt].
    + change (spl (pop s t)) with (spl s). destruct H as [H|(Hu & Hl & Hp)]; [exact H|]. exfalso.
      pose proof (top_max N LN top s B (get (n2i s) k) ltac:(destruct (b_p2 _ _ _ _ B k Hk); lia)) as Hm.
      unfold posl in Hm. destruct (b_p2 _ _ _ _ B k Hk) as [_ Ik]. rewrite Ik in Hm. fold t in Hm. fold i in Hm. lia.
    + destruct (Z.eqb_spec (get (spl s) i) U_NODE) as [HU|HnU].
      * apply IH. destruct (makeC_ok N LN Sp Sj Tp Tj VS VT top s B Htop HU) as [_ Bc]. fold t in Bc. fold i in Bc. fold n in Bc.
        split; [exact Bc|]. left. exists i. split; [exact Ri|]. apply makeC_keeps; [exact Ri|exact Ls|right; reflexivity].
      * apply IH. split; [unfold t; apply pop_BI; assumption|].
        change (spl (pop s t)) with (spl s). change (lam (pop s t)) with (lam s). change (n2i (pop s t)) with (n2i s).
        destruct H as [H|(Hu & Hl & Hp)]; [left; exact H|]. right. split; [exact Hu|]. split; [exact Hl|].
        destruct (Z.eq_dec (get (n2i s) k) t) as [E|E]; [|lia]. exfalso.
        destruct (b_p2 _ _ _ _ B k Hk) as [_ Ik]. rewrite E in Ik. fold i in Ik. rewrite Ik in HnU. exact (HnU Hu).
Qed.
End K.

Lemma Tp_mono' : forall i, 0 <= i < n -> get Tp i <= get Tp (i + 1).
Proof. exact (Tp_mono N Tp Tj VT). Qed.

Theorem rs_first_pass_some_C k j : 0 <= k < n -> In j (nbrs Tp Tj k) -> j <> k ->
  exists c, 0 <= c < n /\ get (rs_cf_splitting n Sp Sj Tp Tj infl) c = 1.
Proof.
  intros Hk Hj Hne.
  pose proof (init_BI N Tp Tj infl infl_nonneg Tp_mono') as B0. fold n in B0.
  assert (I0 : Inv k n (init n Tp Tj infl)).
  { split; [exact B0|]. right.
    destruct (b_p2 _ _ _ _ B0 k Hk) as [Rp _].
    unfold n. rewrite (init_eq N Tp Tj infl). cbn [spl lam n2i]. fold n.
    pose proof (lamL_at N Tp infl k Hk) as El. pose proof (infl_nonneg k Hk) as Hi. pose proof (Tp_mono' k Hk) as Hm.
    (* the row of k is not empty *)
    assert (Hrow : get Tp k < get Tp (k + 1)).
    { unfold nbrs in Hj. destruct (Z_lt_dec (get Tp k) (get Tp (k + 1))) as [H|H]; [exact H|].
      rewrite (zr_empty N (get Tp k) (get Tp (k + 1)) ltac:(lia)) in Hj. destruct Hj. }
    rewrite (spl0_at N Tp Tj infl k Hk). fold n in El.
    assert (Eu : (get (lamL N Tp infl) k =? 0) || ((get (lamL N Tp infl) k =? 1) && (get Tp k <? get Tp (k + 1)) && (get Tj (get Tp k) =? k)) = false).
    { destruct (Z.eqb_spec (get (lamL N Tp infl) k) 0) as [E|E]; [lia|]. cbn [orb].
      destruct (Z.eqb_spec (get (lamL N Tp infl) k) 1) as [E1|E1]; [|reflexivity]. cbn [andb].
      destruct (Z.ltb_spec (get Tp k) (get Tp (k + 1))); [|lia]. cbn [andb].
      (* one entry only: it is j *)
      assert (Eq1 : get Tp (k + 1) = get Tp k + 1) by lia.
      unfold nbrs in Hj. rewrite Eq1, (zr_one N) in Hj. cbn [map In] in Hj. destruct Hj as [Hj|[]].
      destruct (Z.eqb_spec (get Tj (get Tp k)) k); [lia|reflexivity]. }
    rewrite Eu. split; [reflexivity|]. split; [lia|].
    unfold n in Rp. rewrite (init_eq N Tp Tj infl) in Rp. cbn [n2i] in Rp. unfold n. lia. }
  pose proof (main_someC k Hk N (init n Tp Tj infl) I0) as (c & Hc & Ec).
  exists c. split; [exact Hc|]. unfold rs_cf_splitting.
  destruct (main_tern N Sp Sj Tp Tj (rev (zr 0 n)) (init n Tp Tj infl)) as [L _].
  { unfold tern. fold n. unfold n. rewrite (init_eq N Tp Tj infl). cbn [spl]. split.
    - unfold spl0. rewrite map_length, length_zr. lia.
    - intros x Hx. rewrite (spl0_at N Tp Tj infl x Hx). destruct (_ || _); [left|right; right]; reflexivity. }
  fold n in L. rewrite (get_map (fun v0 => if v0 =? U_NODE then F_NODE else v0)) by (rewrite L; exact Hc).
  fold n in Ec. rewrite Ec. reflexivity.
Qed.

Lemma s_range_of : forall i, 0 <= i < n -> forall j, In j (srow Sp Sj i) -> 0 <= j < n.
Proof. intros i Hi j Hj. exact (proj2 (row_ok N Sp Sj i VS Hi) j Hj). Qed.

Lemma pass2_keeps_C v c : binary N v -> length v = N -> 0 <= c < n -> get v c = C_NODE ->
  get (rs_pass2 n Sp Sj v) c = C_NODE.
Proof.
  intros B L Hc E. unfold n. rewrite (pass2_unfold N Sp Sj v).
  assert (K : binary N (fold_left (row_step Sp Sj) (zr 0 (Z.of_nat N)) v) /\ length (fold_left (row_step Sp Sj) (zr 0 (Z.of_nat N)) v) = N /\
              get (fold_left (row_step Sp Sj) (zr 0 (Z.of_nat N)) v) c = C_NODE).
  { apply (fold_seq_inv (row_step Sp Sj) (fun _ w => binary N w /\ length w = N /\ get w c = C_NODE) N).
    - split; [exact B|]. split; [exact L|exact E].
    - intros m w Hm (Bw & Lw & Ew).
      destruct (row_step_spec N Sp Sj s_range_of w (Z.of_nat m) Bw Lw ltac:(lia)) as (B' & L' & Keep & _).
      split; [exact B'|]. split; [exact L'|]. apply Keep; [exact Hc|exact Ew]. }
  exact (proj2 (proj2 K)).
Qed.

Theorem rs_two_pass_some_C k j : 0 <= k < n -> In j (nbrs Tp Tj k) -> j <> k ->
  exists c, 0 <= c < n /\ get (rs_pass2 n Sp Sj (rs_cf_splitting n Sp Sj Tp Tj infl)) c = 1.
Proof.
  intros Hk Hj Hne. destruct (rs_first_pass_some_C k j Hk Hj Hne) as (c & Hc & Ec).
  destruct (rs_first_pass_binary N Sp Sj Tp Tj infl) as [L B].
  exists c. split; [exact Hc|]. apply pass2_keeps_C; assumption.
Qed.
End SC.
Print Assumptions rs_two_pass_some_C.
