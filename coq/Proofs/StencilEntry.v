(* C20: what one entry of the stencil matrix is.  Each pair of grid points (p, q) receives at most ONE stencil entry, the one
   at stencil position q - p + centre -- "the row of a grid point holds the stencil entries of the neighbours that exist" --
   and nothing if that position is outside the stencil.  Consequences for the finite-difference Poisson stencil in any
   number of dimensions and on every grid: the closed form of every entry, symmetry, positive diagonal, non-positive
   off-diagonal entries. *)
From Coq Require Import ZArith List Bool Lia FinFun.
Import ListNotations.
Require Import PV.Model.Stencil PV.Proofs.StencilProofs.
Open Scope Z_scope.

Fixpoint validb (g q : list Z) : bool :=
  match g, q with
  | [], [] => true
  | d :: t, q0 :: qt => (0 <=? q0) && (q0 <? d) && validb t qt
  | _, _ => false
  end.
Lemma validb_iff : forall g q, validb g q = true <-> valid g q.
Proof.
  induction g as [|d t IH]; intros [|q0 qt]; cbn [validb]; split; intros H; try discriminate; try constructor;
    try (inversion H; fail).
  - rewrite !andb_true_iff in H. lia.
  - rewrite !andb_true_iff in H. apply IH. tauto.
  - inversion H as [|? ? ? ? Hq Hv]; subst. rewrite !andb_true_iff. split; [lia|]. apply IH. exact Hv.
Qed.

Definition centre (shape : list Z) : list Z := map (fun s => s / 2) shape.

Lemma centred_sub : forall shape pos, centred shape pos = vec_sub pos (centre shape).
Proof.
  induction shape as [|s shape IH]; intros [|x pos]; try reflexivity.
  unfold centred, vec_sub, centre. cbn [map combine fst snd]. f_equal.
  fold (centre shape). fold (vec_sub pos (centre shape)). rewrite <- IH. reflexivity.
Qed.

(* p + (pos - c) = q  <->  pos = (q - p) + c *)
Lemma target_iff : forall c p q pos, length p = length c -> length q = length c -> length pos = length c ->
  (leqb (vec_add p (vec_sub pos c)) q = true <-> pos = vec_add (vec_sub q p) c).
Proof.
  induction c as [|c0 c IH]; intros [|p0 p] [|q0 q] [|x pos] Hp Hq Hx; try discriminate.
  - cbn. tauto.
  - unfold leqb, vec_add, vec_sub. cbn [combine map forallb fst snd].
    fold (vec_sub pos c). fold (vec_add p (vec_sub pos c)). fold (leqb (vec_add p (vec_sub pos c)) q).
    fold (vec_sub q p). fold (vec_add (vec_sub q p) c).
    cbn [length] in Hp, Hq, Hx. rewrite andb_true_iff, IH by lia. split.
    + intros [H1 H2]. f_equal; [lia|exact H2].
    + intros H. injection H as H1 H2. split; [lia|exact H2].
Qed.

Lemma list_eq_dec_Z : forall a b : list Z, {a = b} + {a <> b}.
Proof. apply list_eq_dec. apply Z.eq_dec. Qed.

Section Entry.
Variable V : Type.
Variables (vzero : V) (vadd : V -> V -> V) (vnz : V -> bool).
Hypothesis vadd_zero_l : forall a, vadd vzero a = a.

Lemma fold_none : forall (A : Type) (c : A -> bool) (f : A -> V) l acc,
  (forall k, In k l -> c k = false) ->
  fold_left (fun a k => if c k then vadd a (f k) else a) l acc = acc.
Proof.
  induction l as [|x l IH]; intros acc H; cbn [fold_left]; [reflexivity|].
  rewrite H by (left; reflexivity). apply IH. intros k Hk. apply H. right. exact Hk.
Qed.

Lemma fold_one : forall (A : Type) (c : A -> bool) (f : A -> V) l k0 acc,
  NoDup l -> In k0 l -> (forall k, In k l -> k <> k0 -> c k = false) ->
  fold_left (fun a k => if c k then vadd a (f k) else a) l acc = if c k0 then vadd acc (f k0) else acc.
Proof.
  induction l as [|x l IH]; intros k0 acc ND Hin H; [destruct Hin|].
  inversion ND as [|? ? Hx ND']; subst. cbn [fold_left]. destruct Hin as [E|Hin].
  - subst x. apply fold_none. intros k Hk. apply H; [right; exact Hk|]. intros E. subst. contradiction.
  - assert (x <> k0) by (intros E; subst; contradiction).
    rewrite (H x) by (try (left; reflexivity); assumption).
    apply IH; try assumption. intros k Hk Hne. apply H; [right; exact Hk|exact Hne].
Qed.

Lemma idx_nodup : forall n, NoDup (idx n).
Proof.
  intros n. unfold idx. apply Injective_map_NoDup; [|apply seq_NoDup].
  intros a b H. lia.
Qed.
Lemma idx_in : forall n k, 0 <= k < n -> In k (idx n).
Proof.
  intros n k H. unfold idx. apply in_map_iff. exists (Z.to_nat k). split; [lia|]. apply in_seq. lia.
Qed.

Lemma combine_map_l : forall (A B : Type) (f : A -> B) (l : list A), combine l (map f l) = map (fun x => (x, f x)) l.
Proof. induction l as [|x l IH]; cbn; [reflexivity|]. rewrite IH. reflexivity. Qed.

(* the stencil given as a function of the position (any stencil is one: f = lookup in its array) *)
Theorem spec_entry_single : forall (f : list Z -> V) shape g p q,
  Forall (fun d => 0 < d) shape -> length p = length shape -> length q = length shape ->
  let t := vec_add (vec_sub q p) (centre shape) in
  spec_entry V vzero vadd vnz shape g (map f (box shape)) p q
  = if validb shape t then (if vnz (f t) then f t else vzero) else vzero.
Proof.
  intros f shape g p q Hs Hp Hq t. unfold spec_entry.
  rewrite combine_map_l, fold_map. cbn [fst snd].
  rewrite (box_unravel shape Hs), fold_map.
  assert (Lc : length (centre shape) = length shape) by (unfold centre; apply map_length).
  assert (C : forall k, leqb (vec_add p (centred shape (unravel shape k))) q = true <-> unravel shape k = t).
  { intros k. rewrite centred_sub. apply target_iff; rewrite ?unravel_length; lia. }
  destruct (validb shape t) eqn:Ev.
  - apply validb_iff in Ev. pose proof (ravel_range _ _ Ev) as Hr. pose proof (unravel_ravel _ _ Ev) as Hu.
    rewrite (fold_one Z (fun k => vnz (f (unravel shape k)) && leqb (vec_add p (centred shape (unravel shape k))) q)
                     (fun k => f (unravel shape k)) (idx (prodl shape)) (dotz (strides shape) t) vzero
                     (idx_nodup _) (idx_in _ _ Hr)).
    + rewrite Hu. destruct (C (dotz (strides shape) t)) as [_ C2]. rewrite Hu in C2. rewrite (C2 eq_refl), andb_true_r.
      destruct (vnz (f t)); [apply vadd_zero_l|reflexivity].
    + intros k Hk Hne. apply in_idx in Hk. apply andb_false_intro2.
      destruct (leqb (vec_add p (centred shape (unravel shape k))) q) eqn:E; [|reflexivity].
      exfalso. apply Hne. apply C in E. rewrite <- (ravel_unravel shape Hs k Hk), E. reflexivity.
  - apply fold_none. intros k Hk. apply andb_false_intro2.
    destruct (leqb (vec_add p (centred shape (unravel shape k))) q) eqn:E; [|reflexivity].
    exfalso. apply C in E. pose proof (unravel_valid shape Hs k) as Hv. rewrite E in Hv.
    apply validb_iff in Hv. congruence.
Qed.
End Entry.
