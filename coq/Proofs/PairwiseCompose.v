(* C12: "pairwise aggregation yields aggregates of at most 2^matchings nodes".  The Python driver multiplies the 0/1 matrices of
   the successive matchings (T = T @ T_temp: one entry per row, so the product is the composition of the id maps).  If every
   matching puts at most two nodes into an aggregate (PairwiseProofs.pairwise_matching_correct), the composition of m matchings
   puts at most 2^m nodes into one. *)
From Coq Require Import ZArith List Bool Lia.
Import ListNotations.
Require Import PV.Model.GraphAlg PV.Model.Aggregate.
Open Scope Z_scope.

Lemma count_filter (l : list Z) a : count_occ Z.eq_dec l a = length (filter (fun v => v =? a) l).
Proof.
  induction l as [|h t IH]; [reflexivity|]. cbn [count_occ filter].
  destruct (Z.eq_dec h a) as [E|E]; destruct (Z.eqb_spec h a); try contradiction; cbn [length]; rewrite IH; reflexivity.
Qed.
Lemma count_map_filter (g : Z -> Z) (l : list Z) b : count_occ Z.eq_dec (map g l) b = length (filter (fun a => g a =? b) l).
Proof.
  induction l as [|h t IH]; [reflexivity|]. cbn [map count_occ filter].
  destruct (Z.eq_dec (g h) b) as [E|E]; destruct (Z.eqb_spec (g h) b); try contradiction; cbn [length]; rewrite IH; reflexivity.
Qed.
Lemma filter_or_length {A} (f g : A -> bool) l :
  (length (filter (fun x => f x || g x) l) <= length (filter f l) + length (filter g l))%nat.
Proof. induction l as [|h t IH]; cbn [filter]; [lia|]. destruct (f h), (g h); cbn [orb length]; lia. Qed.
Lemma filter_impl_length {A} (f g : A -> bool) l : (forall a, In a l -> f a = true -> g a = true) ->
  (length (filter f l) <= length (filter g l))%nat.
Proof.
  induction l as [|h t IH]; intros H; cbn [filter]; [lia|].
  assert (IH' := IH (fun a Ha => H a (or_intror Ha))).
  destruct (f h) eqn:E; [rewrite (H h (or_introl eq_refl) E); cbn [length]; lia|]. destruct (g h); cbn [length]; lia.
Qed.

Definition memb (ids : list Z) (a : Z) : bool := existsb (Z.eqb a) ids.
Lemma memb_bound (l : list Z) p : (forall a, (count_occ Z.eq_dec l a <= p)%nat) ->
  forall ids, (length (filter (memb ids) l) <= p * length ids)%nat.
Proof.
  intros Hp. induction ids as [|a ids IH].
  - assert (E : filter (memb []) l = []) by (clear Hp; induction l as [|h t IHl]; [reflexivity|exact IHl]).
    rewrite E. cbn. lia.
  - unfold memb in *. cbn [existsb length].
    pose proof (filter_or_length (fun x => x =? a) (fun x => existsb (Z.eqb x) ids) l) as H.
    rewrite <- count_filter in H. specialize (Hp a). lia.
Qed.

Lemma zr_cons a b : a < b -> zr a b = a :: zr (a + 1) b.
Proof.
  intros H. unfold zr. replace (Z.to_nat (b - a)) with (S (Z.to_nat (b - (a + 1)))) by lia.
  cbn [seq map]. f_equal; [lia|]. rewrite <- seq_shift, map_map. apply map_ext. intros k. lia.
Qed.
Lemma zr_nil a b : b <= a -> zr a b = [].
Proof. intros H. unfold zr. replace (Z.to_nat (b - a)) with 0%nat by lia. reflexivity. Qed.

Lemma preimage_ids (x2 : list Z) b : forall off,
  length (filter (fun a => nth (Z.to_nat (a - off)) x2 0 =? b) (zr off (off + Z.of_nat (length x2)))) = count_occ Z.eq_dec x2 b.
Proof.
  induction x2 as [|h t IH]; intros off.
  - cbn [length]. rewrite zr_nil by lia. reflexivity.
  - cbn [length]. rewrite zr_cons by lia. cbn [filter]. rewrite Z.sub_diag. change (nth (Z.to_nat 0) (h :: t) 0) with h.
    assert (E : filter (fun a => nth (Z.to_nat (a - off)) (h :: t) 0 =? b) (zr (off + 1) (off + Z.of_nat (S (length t))))
              = filter (fun a => nth (Z.to_nat (a - (off + 1))) t 0 =? b) (zr (off + 1) (off + 1 + Z.of_nat (length t)))).
    { replace (off + Z.of_nat (S (length t))) with (off + 1 + Z.of_nat (length t)) by lia.
      apply filter_ext_in. intros a Ha. unfold zr in Ha. apply in_map_iff in Ha. destruct Ha as [k [E _]].
      replace (Z.to_nat (a - off)) with (S (Z.to_nat (a - (off + 1)))) by lia. reflexivity. }
    rewrite E. cbn [count_occ]. specialize (IH (off + 1)).
    destruct (Z.eqb_spec h b); destruct (Z.eq_dec h b); try contradiction; cbn [length]; rewrite IH; reflexivity.
Qed.

Theorem compose_bound (x1 x2 : list Z) (p q : nat) :
  (forall a, (count_occ Z.eq_dec x1 a <= p)%nat) -> (forall b, (count_occ Z.eq_dec x2 b <= q)%nat) ->
  (forall a, In a x1 -> 1 <= a <= Z.of_nat (length x2)) ->
  forall b, (count_occ Z.eq_dec (compose x1 x2) b <= p * q)%nat.
Proof.
  intros Hp Hq Hr b. unfold compose. rewrite count_map_filter.
  set (ids := filter (fun a => nth (Z.to_nat (a - 1)) x2 0 =? b) (zr 1 (1 + Z.of_nat (length x2)))).
  assert (Hl : length ids = count_occ Z.eq_dec x2 b) by apply preimage_ids.
  assert (H1 : (length (filter (fun a => (get x2 (a - 1) =? b)%Z) x1) <= length (filter (memb ids) x1))%nat).
  { apply filter_impl_length. intros a Ha E. unfold memb. apply existsb_exists. exists a. split; [|apply Z.eqb_refl].
    unfold ids. apply filter_In. split; [|exact E]. specialize (Hr a Ha).
    unfold zr. apply in_map_iff. exists (Z.to_nat (a - 1)). split; [lia|]. apply in_seq. lia. }
  pose proof (memb_bound x1 p Hp ids) as H2. specialize (Hq b). nia.
Qed.

(* m matchings *)
Fixpoint chain (x : list Z) (xs : list (list Z)) : Prop :=
  match xs with
  | [] => True
  | x2 :: r => (forall a, In a x -> 1 <= a <= Z.of_nat (length x2)) /\ chain x2 r
  end.
Lemma compose_values x1 x2 : (forall a, In a x1 -> 1 <= a <= Z.of_nat (length x2)) ->
  forall v, In v (compose x1 x2) -> In v x2.
Proof.
  intros Hr v Hv. unfold compose in Hv. apply in_map_iff in Hv. destruct Hv as [a [E Ha]]. subst v.
  specialize (Hr a Ha). unfold get. apply nth_In. lia.
Qed.

Theorem pairwise_size_bound : forall (xs : list (list Z)) (x1 : list Z) (p : nat),
  (forall a, (count_occ Z.eq_dec x1 a <= p)%nat) ->
  (forall x, In x xs -> forall a, (count_occ Z.eq_dec x a <= 2)%nat) ->
  chain x1 xs ->
  forall b, (count_occ Z.eq_dec (fold_left compose xs x1) b <= p * 2 ^ length xs)%nat.
Proof.
  induction xs as [|x2 r IH]; intros x1 p Hp H2 Hc b; cbn [fold_left length].
  - specialize (Hp b). cbn. lia.
  - destruct Hc as [Hr Hc].
    assert (Hb : forall a, (count_occ Z.eq_dec (compose x1 x2) a <= p * 2)%nat).
    { apply compose_bound; [exact Hp|apply H2; left; reflexivity|exact Hr]. }
    assert (Hc' : chain (compose x1 x2) r).
    { destruct r as [|x3 r']; [exact I|]. destruct Hc as [Hr3 Hc3]. split; [|exact Hc3].
      intros a Ha. apply Hr3. apply (compose_values x1 x2 Hr). exact Ha. }
    specialize (IH (compose x1 x2) (p * 2)%nat Hb (fun x Hx => H2 x (or_intror Hx)) Hc' b).
    rewrite Nat.pow_succ_r'. lia.
Qed.
