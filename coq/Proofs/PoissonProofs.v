(* C20: every entry of the Poisson matrices, on every grid in any number of dimensions, in closed form; symmetry and signs. *)
From Coq Require Import ZArith List Bool Lia.
Import ListNotations.
Require Import PV.Base.Ops PV.Model.Stencil PV.Model.StencilRun PV.Model.Poisson PV.Proofs.StencilProofs PV.Proofs.StencilEntry.
Open Scope Z_scope.

Definition near (d : list Z) : bool := forallb (fun x => (-1 <=? x) && (x <=? 1)) d.
Definition nnz (d : list Z) : nat := length (filter (fun x => negb (x =? 0)) d).
Definition fd_entry (N : nat) (p q : list Z) : Z :=
  let d := vec_sub q p in
  if near d then match nnz d with O => 2 * Z.of_nat N | S O => -1 | _ => 0 end else 0.
Definition fe_entry (N : nat) (p q : list Z) : Z :=
  let d := vec_sub q p in
  if near d then match nnz d with O => 3 ^ Z.of_nat N - 1 | _ => -1 end else 0.

Lemma centre_poisson : forall N, centre (poisson_shape N) = repeat 1 N.
Proof. induction N as [|N IH]; [reflexivity|]. unfold centre, poisson_shape in *. cbn [repeat map]. rewrite IH. reflexivity. Qed.
Lemma poisson_shape_pos : forall N, Forall (fun d => 0 < d) (poisson_shape N).
Proof. induction N as [|N IH]; constructor; [lia|exact IH]. Qed.
Lemma poisson_shape_length : forall N, length (poisson_shape N) = N.
Proof. intros N. apply repeat_length. Qed.

Lemma target_poisson : forall d, 
  validb (poisson_shape (length d)) (vec_add d (repeat 1 (length d))) = near d /\
  ndiff (vec_add d (repeat 1 (length d))) = nnz d.
Proof.
  induction d as [|x d [IH1 IH2]]; [split; reflexivity|].
  unfold vec_add, poisson_shape, near, ndiff, nnz in *. cbn [length repeat combine map validb forallb filter fst snd]. split.
  - rewrite IH1. f_equal. destruct (0 <=? x + 1) eqn:E1, (x + 1 <? 3) eqn:E2, (-1 <=? x) eqn:E3, (x <=? 1) eqn:E4; try reflexivity; lia.
  - destruct (x + 1 =? 1) eqn:E1, (x =? 0) eqn:E2; try lia; cbn [negb length]; rewrite IH2; reflexivity.
Qed.

Lemma vnzZ : forall v : Z, (if negb (v =? 0) then v else 0) = v.
Proof. intros v. destruct (v =? 0) eqn:E; cbn [negb]; lia. Qed.

Lemma vec_sub_length : forall a b, length a = length b -> length (vec_sub a b) = length a.
Proof. intros a b H. unfold vec_sub. rewrite map_length, combine_length. lia. Qed.

Lemma poisson_spec_entry : forall (fe : bool) g p q, length p = length g -> length q = length g ->
  spec_entry Z 0 Z.add (fun v => negb (v =? 0)) (poisson_shape (length g)) g
             (map (if fe then poisson_fe (length g) else poisson_fd (length g)) (box (poisson_shape (length g)))) p q
  = if fe then fe_entry (length g) p q else fd_entry (length g) p q.
Proof.
  intros fe g p q Hp Hq.
  rewrite (spec_entry_single Z 0 Z.add (fun v => negb (v =? 0)) Z.add_0_l _ _ g p q (poisson_shape_pos _))
    by (rewrite poisson_shape_length; assumption).
  rewrite centre_poisson, vnzZ.
  assert (L : length (vec_sub q p) = length g) by (rewrite vec_sub_length; lia).
  destruct (target_poisson (vec_sub q p)) as [T1 T2]. rewrite L in T1, T2. rewrite T1.
  destruct fe; unfold fe_entry, fd_entry, poisson_fe, poisson_fd; rewrite T2; reflexivity.
Qed.

(* the matrix pyamg.gallery.poisson assembles, on every grid *)
Theorem poisson_matrix : forall fe g, Forall (fun d => 0 < d) g ->
  poissonZ fe g = map (fun p => map (fun q => if fe then fe_entry (length g) p q else fd_entry (length g) p q) (box g)) (box g).
Proof.
  intros fe g Hg. unfold poissonZ, sgZ.
  rewrite (stencil_grid_is_spec Z 0 Z.add (fun v => negb (v =? 0)) Z.add_0_r) by (try assumption; apply poisson_shape_length).
  unfold spec. apply map_ext_in. intros p Hp. apply map_ext_in. intros q Hq.
  apply poisson_spec_entry; apply box_length; assumption.
Qed.

(* symmetry and signs of the closed form *)
Lemma near_sym : forall p q, near (vec_sub q p) = near (vec_sub p q).
Proof.
  induction p as [|x p IH]; intros [|y q]; try reflexivity.
  unfold near, vec_sub in *. cbn [combine map forallb fst snd]. rewrite IH. f_equal.
  destruct (-1 <=? y - x) eqn:E1, (y - x <=? 1) eqn:E2, (-1 <=? x - y) eqn:E3, (x - y <=? 1) eqn:E4; try reflexivity; lia.
Qed.
Lemma nnz_sym : forall p q, nnz (vec_sub q p) = nnz (vec_sub p q).
Proof.
  induction p as [|x p IH]; intros [|y q]; try reflexivity.
  unfold nnz, vec_sub in *. cbn [combine map filter fst snd].
  destruct (y - x =? 0) eqn:E1, (x - y =? 0) eqn:E2; try lia; cbn [negb length]; rewrite IH; reflexivity.
Qed.
Theorem poisson_symmetric : forall N p q, fd_entry N p q = fd_entry N q p /\ fe_entry N p q = fe_entry N q p.
Proof. intros N p q. unfold fd_entry, fe_entry. rewrite (near_sym p q), (nnz_sym p q). split; reflexivity. Qed.

Lemma self_sub : forall p, near (vec_sub p p) = true /\ nnz (vec_sub p p) = O.
Proof.
  induction p as [|x p [IH1 IH2]]; [split; reflexivity|].
  unfold near, nnz, vec_sub in *. cbn [combine map forallb filter fst snd]. rewrite Z.sub_diag. cbn. split; assumption.
Qed.
Theorem poisson_diagonal : forall N p, fd_entry N p p = 2 * Z.of_nat N /\ fe_entry N p p = 3 ^ Z.of_nat N - 1.
Proof. intros N p. unfold fd_entry, fe_entry. destruct (self_sub p) as [H1 H2]. rewrite H1, H2. split; reflexivity. Qed.

Lemma nnz0_eq : forall p q, length p = length q -> nnz (vec_sub q p) = O -> p = q.
Proof.
  induction p as [|x p IH]; intros [|y q] HL H; try discriminate; [reflexivity|].
  unfold nnz, vec_sub in *. cbn [combine map filter fst snd] in H.
  destruct (y - x =? 0) eqn:E; cbn [negb length] in H; [|discriminate].
  f_equal; [lia|]. apply IH; [cbn in HL; lia|exact H].
Qed.
Theorem poisson_offdiagonal : forall N p q, length p = length q -> p <> q ->
  (fd_entry N p q = -1 \/ fd_entry N p q = 0) /\ (fe_entry N p q = -1 \/ fe_entry N p q = 0).
Proof.
  intros N p q HL Hne. unfold fd_entry, fe_entry.
  destruct (near (vec_sub q p)); [|split; right; reflexivity].
  destruct (nnz (vec_sub q p)) as [|[|k]] eqn:E.
  - exfalso. apply Hne. apply nnz0_eq; assumption.
  - split; left; reflexivity.
  - split; [right|left]; reflexivity.
Qed.
