(* The three-branch flag derivation of change_smoothers equals the per-level conjunction
   over the smoothers actually installed (lists extended by their last entry). *)
From Coq Require Import ZArith List Bool Arith Lia.
Import ListNotations.
Require Import PV.Model.SmoothFlag.
Open Scope nat_scope.

Section P.
Variables (symlist krylist : list Z) (cf_j fc_j cf_bj fc_bj : Z) (cffc_prefix : Z -> bool) (d : spec).
Notation pair_ok := (pair_ok symlist krylist cf_j fc_j cf_bj fc_bj cffc_prefix).
Notation flag := (flag symlist krylist cf_j fc_j cf_bj fc_bj cffc_prefix d).
Notation flag_spec := (flag_spec symlist krylist cf_j fc_j cf_bj fc_bj cffc_prefix d).
Notation eff := (eff d).

Lemma range_split (a b c : nat) : a <= b -> b <= c -> range a c = range a b ++ range b c.
Proof.
  intros H1 H2. unfold range. replace (c - a) with ((b - a) + (c - b)) by lia.
  rewrite seq_app. f_equal. f_equal. lia.
Qed.
Lemma in_range (i a b : nat) : In i (range a b) <-> a <= i < b.
Proof. unfold range. rewrite in_seq. lia. Qed.
Lemma forallb_range_ext (f g : nat -> bool) (a b : nat) :
  (forall i, a <= i < b -> f i = g i) -> forallb f (range a b) = forallb g (range a b).
Proof.
  intro H. apply eq_true_iff_eq. rewrite !forallb_forall. split; intros G i Hi.
  - rewrite <- H by (apply in_range; exact Hi). apply G; exact Hi.
  - rewrite H by (apply in_range; exact Hi). apply G; exact Hi.
Qed.
(* a tail whose tests all repeat an earlier test does not change the conjunction *)
Lemma forallb_range_tail (f : nat -> bool) (a b c : nat) : a <= b -> b <= c ->
  (b = c \/ exists j0, a <= j0 < b /\ forall i, b <= i < c -> f i = f j0) ->
  forallb f (range a c) = forallb f (range a b).
Proof.
  intros H1 H2 H. rewrite (range_split a b c H1 H2), forallb_app.
  destruct H as [->|[j0 [Hj H]]].
  - unfold range at 2. rewrite Nat.sub_diag. cbn. apply andb_true_r.
  - destruct (forallb f (range a b)) eqn:E; [|reflexivity]. cbn.
    apply forallb_forall. intros i Hi. apply in_range in Hi. rewrite H by exact Hi.
    rewrite forallb_forall in E. apply E. apply in_range. exact Hj.
Qed.

Lemma eff_lt l (i : nat) : i < length l -> eff l i = nth i l d.
Proof. intro H. unfold SmoothFlag.eff. f_equal. lia. Qed.
Lemma eff_ge l (i : nat) : length l - 1 <= i -> eff l i = nth (length l - 1) l d.
Proof. intro H. unfold SmoothFlag.eff. f_equal. lia. Qed.

Theorem flag_is_per_level_conjunction pre post (L : nat) :
  1 <= length pre -> 1 <= length post -> flag pre post L = flag_spec pre post L.
Proof.
  intros Hp Hq. unfold SmoothFlag.flag, SmoothFlag.flag_spec.
  set (p := length pre) in *. set (q := length post) in *.
  set (F := fun i => pair_ok (eff pre i) (eff post i)).
  set (ml := Nat.min (Nat.min p q) L).
  assert (E1 : forallb (fun i => pair_ok (nth i pre d) (nth i post d)) (range 0 ml) = forallb F (range 0 ml)).
  { apply forallb_range_ext. intros i Hi. unfold F. rewrite !eff_lt by (fold p; fold q; lia). reflexivity. }
  rewrite E1.
  destruct (Nat.ltb_spec p q) as [Hpq|Hpq].
  - (* fewer pre-smoothers than post-smoothers *)
    set (mid := Nat.min q L).
    assert (E2 : forallb (fun i => pair_ok (nth (ml - 1) pre d) (nth i post d)) (range ml mid) = forallb F (range ml mid)).
    { apply forallb_range_ext. intros i Hi. unfold F.
      rewrite (eff_ge pre) by (fold p; lia). rewrite (eff_lt post) by (fold q; lia).
      fold p. replace (ml - 1) with (p - 1) by lia. reflexivity. }
    rewrite E2, <- forallb_app, <- (range_split 0 ml mid) by lia.
    symmetry. apply forallb_range_tail; [lia|lia|].
    destruct (Nat.eq_dec mid L) as [->|Hne]; [left; reflexivity|right].
    exists (q - 1). split; [lia|]. intros i Hi. unfold F.
    rewrite !(eff_ge pre), !(eff_ge post) by (fold p; fold q; lia). reflexivity.
  - destruct (Nat.ltb_spec q p) as [Hqp|Hqp].
    + set (mid := Nat.min p L).
      assert (E2 : forallb (fun i => pair_ok (nth i pre d) (nth (ml - 1) post d)) (range ml mid) = forallb F (range ml mid)).
      { apply forallb_range_ext. intros i Hi. unfold F.
        rewrite (eff_ge post) by (fold q; lia). rewrite (eff_lt pre) by (fold p; lia).
        fold q. replace (ml - 1) with (q - 1) by lia. reflexivity. }
      rewrite E2, <- forallb_app, <- (range_split 0 ml mid) by lia.
      symmetry. apply forallb_range_tail; [lia|lia|].
      destruct (Nat.eq_dec mid L) as [->|Hne]; [left; reflexivity|right].
      exists (p - 1). split; [lia|]. intros i Hi. unfold F.
      rewrite !(eff_ge pre), !(eff_ge post) by (fold p; fold q; lia). reflexivity.
    + (* equal lengths *)
      symmetry. apply forallb_range_tail; [lia|lia|].
      destruct (Nat.eq_dec ml L) as [->|Hne]; [left; reflexivity|right].
      exists (p - 1). split; [lia|]. intros i Hi. unfold F.
      rewrite !(eff_ge pre), !(eff_ge post) by (fold p; fold q; lia). reflexivity.
Qed.
End P.
