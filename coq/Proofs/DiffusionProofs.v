(* C20: both 2-D diffusion stencils are exact on quadratic polynomials: applied to 1, x, y they give
   0 and applied to x^2, y^2, xy they give -2 K11, -2 K22, -2 K12 with K = Q diag(1, eps) Q^T,
   Q the rotation by theta -- i.e. they discretise  -div K grad u  consistently (h = 1).  Any field
   in which 2 and 3 are invertible; the FD stencil needs cos^2 + sin^2 = 1 for the constant. *)
From Coq Require Import ZArith List Bool Ring Field.
Import ListNotations.
Require Import PV.Base.Ops PV.Model.Diffusion.

Section P.
Variable F : Type.
Variables (r0 r1 : F) (radd rmul rsub : F -> F -> F) (ropp : F -> F) (rdiv : F -> F -> F) (rinv : F -> F).
Variables (rabs : F -> F) (reqb rleb rltb : F -> F -> bool).
Hypothesis Fth : field_theory r0 r1 radd rmul rsub ropp rdiv rinv (@eq F).
Add Field Fd : Fth.
Let o : Ops F := mkOps F r0 r1 radd rsub rmul rdiv ropp rabs reqb rleb rltb.
Notation "a + b" := (radd a b). Notation "a * b" := (rmul a b). Notation "a - b" := (rsub a b). Notation "- a" := (ropp a).
Hypothesis two_nz : r1 + r1 <> r0.
Hypothesis three_nz : (r1 + r1) + r1 <> r0.
Variables (eps C S : F).
Definition K11 := C * C + eps * (S * S).
Definition K22 := S * S + eps * (C * C).
Definition K12 := (r1 - eps) * (C * S).
Definition two := r1 + r1.

Lemma mul_nz a b : a <> r0 -> b <> r0 -> a * b <> r0.
Proof.
  intros Ha Hb H. apply Hb. transitivity (rdiv r1 a * (a * b)); [field; exact Ha|]. rewrite H. ring.
Qed.
Lemma six_nz : (r1 + r1) * (r1 + (r1 + r1)) <> r0.
Proof. apply mul_nz; [exact two_nz|]. intro H. apply three_nz. rewrite <- H. ring. Qed.

Ltac go := unfold apply_stencil, entry, coord, fe_stencil, fd_stencil, fe_stencil_of, fd_stencil_of, chalf, c8, c6, c4, c3, c2, c1, K11, K22, K12, two;
           cbn [fold_left map nth fst snd zero one add sub mul div opp o]; field; repeat split; auto using six_nz.

Theorem fe_const : apply_stencil o (fe_stencil o eps C S) (fun _ _ => r1) = r0. Proof. go. Qed.
Theorem fe_x : apply_stencil o (fe_stencil o eps C S) (fun x _ => x) = r0. Proof. go. Qed.
Theorem fe_y : apply_stencil o (fe_stencil o eps C S) (fun _ y => y) = r0. Proof. go. Qed.
Theorem fe_xx : apply_stencil o (fe_stencil o eps C S) (fun x _ => x * x) = - (two * K11). Proof. go. Qed.
Theorem fe_yy : apply_stencil o (fe_stencil o eps C S) (fun _ y => y * y) = - (two * K22). Proof. go. Qed.
Theorem fe_xy : apply_stencil o (fe_stencil o eps C S) (fun x y => x * y) = - (two * K12). Proof. go. Qed.

Hypothesis pyth : C * C + S * S = r1.
Theorem fd_const : apply_stencil o (fd_stencil o eps C S) (fun _ _ => r1) = r0.
Proof.
  assert (E : apply_stencil o (fd_stencil o eps C S) (fun _ _ => r1) = two * (eps + r1) * (r1 - (C * C + S * S))) by go.
  rewrite E, pyth. unfold two. ring.
Qed.
Theorem fd_x : apply_stencil o (fd_stencil o eps C S) (fun x _ => x) = r0. Proof. go. Qed.
Theorem fd_y : apply_stencil o (fd_stencil o eps C S) (fun _ y => y) = r0. Proof. go. Qed.
Theorem fd_xx : apply_stencil o (fd_stencil o eps C S) (fun x _ => x * x) = - (two * K11). Proof. go. Qed.
Theorem fd_yy : apply_stencil o (fd_stencil o eps C S) (fun _ y => y * y) = - (two * K22). Proof. go. Qed.
Theorem fd_xy : apply_stencil o (fd_stencil o eps C S) (fun x y => x * y) = - (two * K12). Proof. go. Qed.
End P.
