(* Bounded theorems: every model of a graph kernel satisfies its specification on
   ALL symmetric graphs with at most 4 vertices (with and without stored
   diagonal), all tied weight vectors over {0,1,2}, all seeds, all centre sets of
   size <= 2 and edge weights in {1,2}.  Decided by vm_compute over the complete
   enumeration; the bound is part of every statement. *)
From Coq Require Import ZArith List Bool.
Import ListNotations.
Require Import PV.Model.GraphAlg PV.Proofs.GraphSpec.
Open Scope Z_scope.

Definition nof (g : list Z * list Z) : Z := Z.of_nat (length (fst g)) - 1.
Definition graphs_le4 : list (list Z * list Z) := flat_map all_graphs [1; 2; 3; 4].
Fixpoint vectors (vals : list Z) (k : nat) : list (list Z) :=
  match k with O => [[]] | S k' => flat_map (fun v => map (cons v) (vectors vals k')) vals end.
Definition weights3 (g : list Z * list Z) := vectors [0; 1; 2] (Z.to_nat (nof g)).
Definition count1 (x : list Z) : Z := Z.of_nat (length (filter (Z.eqb 1) x)).

Definition ok_mis_serial (g : list Z * list Z) : bool :=
  let n := nof g in
  let '(x, N) := mis_serial n (fst g) (snd g) (-1) 1 0 (fillz n (-1)) in
  is_mis n (fst g) (snd g) 1 x && (N =? count1 x).

Definition ok_mis_parallel (g : list Z * list Z) : bool :=
  let n := nof g in
  forallb (fun y => match mis_parallel n (fst g) (snd g) WtZ (-1) 1 0 (fillz n (-1)) y (-1) with
                    | Some (x, N) => is_mis n (fst g) (snd g) 1 x && (N =? count1 x)
                    | None => false end) (weights3 g).

Definition ok_mis_k (g : list Z * list Z) : bool :=
  let n := nof g in
  forallb (fun k => forallb (fun y =>
      match mis_k n (fst g) (snd g) WtZ k y (fun v => v) (-1) with
      | Some x => is_mis n (fst g) (snd g) (Z.to_nat k) x | None => false end) (weights3 g)) [1; 2].

Definition ok_coloring_mis (g : list Z * list Z) : bool :=
  match coloring_mis (nof g) (fst g) (snd g) with
  | Some (x, K) => is_coloring (nof g) (fst g) (snd g) x K | None => false end.
Definition ok_coloring_jp (g : list Z * list Z) : bool :=
  forallb (fun z => match coloring_jp (nof g) (fst g) (snd g) WtZ z with
                    | Some (x, K) => is_coloring (nof g) (fst g) (snd g) x (K + 1) | None => false end) (weights3 g).
Definition ok_coloring_ldf (g : list Z * list Z) : bool :=
  forallb (fun z => match coloring_ldf (nof g) (fst g) (snd g) WtZ z with
                    | Some (x, K) => is_coloring (nof g) (fst g) (snd g) x (K + 1) | None => false end) (weights3 g).

Definition ok_components (g : list Z * list Z) : bool :=
  match connected_components (nof g) (fst g) (snd g) with
  | Some (comp, c) => is_components (nof g) (fst g) (snd g) comp c | None => false end.

Definition ok_bfs (g : list Z * list Z) : bool :=
  let n := nof g in
  forallb (fun seed => match bfs n (fst g) (snd g) seed (fillz n (-7)) with
                       | Some (order, level, N) => is_bfs n (fst g) (snd g) seed order level N
                       | None => false end) (zr 0 n).

(* weighted symmetric graphs: edge weights in {1,2} *)
Definition wgraphs (n : Z) : list (list Z * list Z * list Z) :=
  flat_map (fun e =>
    map (fun ws =>
      let '(Ap, Aj) := sym_graph n e false in
      (* weight of entry jj in row i: look the edge up by its position in e *)
      let idx i j := length (fst (fold_left (fun (acc : list (Z * Z) * bool) p =>
                        if snd acc then acc
                        else if ((fst p =? i) && (snd p =? j)) || ((fst p =? j) && (snd p =? i)) then (fst acc, true)
                        else (p :: fst acc, false)) e ([], false))) in
      (Ap, Aj, flat_map (fun i => map (fun j => nth (idx i j) ws 1) (nbrs Ap Aj i)) (zr 0 n)))
      (vectors [1; 2] (length e)))
    (subsets (pairs n)).
Definition centre_sets (n : Z) : list (list Z) :=
  map (fun c => [c]) (zr 0 n) ++ map (fun p => [fst p; snd p]) (pairs n).
Definition wgraphs_le4 := flat_map wgraphs [1; 2; 3; 4].
Definition ok_bf (g : list Z * list Z * list Z) : bool :=
  let '(Ap, Aj, Ax) := g in
  let n := Z.of_nat (length Ap) - 1 in
  forallb (fun cs => match bellman_ford n Ap Aj Ax cs with
                     | Some (d, m, p) => is_bf n Ap Aj Ax cs d m p | None => false end) (centre_sets n).

Lemma all_mis_serial : forallb ok_mis_serial graphs_le4 = true. Proof. vm_compute. reflexivity. Qed.
Lemma all_mis_parallel : forallb ok_mis_parallel graphs_le4 = true. Proof. vm_compute. reflexivity. Qed.
Lemma all_mis_k : forallb ok_mis_k graphs_le4 = true. Proof. vm_compute. reflexivity. Qed.
Lemma all_coloring_mis : forallb ok_coloring_mis graphs_le4 = true. Proof. vm_compute. reflexivity. Qed.
Lemma all_coloring_jp : forallb ok_coloring_jp graphs_le4 = true. Proof. vm_compute. reflexivity. Qed.
Lemma all_coloring_ldf : forallb ok_coloring_ldf graphs_le4 = true. Proof. vm_compute. reflexivity. Qed.
Lemma all_components : forallb ok_components graphs_le4 = true. Proof. vm_compute. reflexivity. Qed.
Lemma all_bfs : forallb ok_bfs graphs_le4 = true. Proof. vm_compute. reflexivity. Qed.
Lemma all_bf : forallb ok_bf wgraphs_le4 = true. Proof. vm_compute. reflexivity. Qed.

Lemma lift {A} (ok : A -> bool) (l : list A) : forallb ok l = true -> forall g, In g l -> ok g = true.
Proof. intros H g Hg. rewrite forallb_forall in H. exact (H g Hg). Qed.

Definition bounded_mis_serial := lift _ _ all_mis_serial.
Definition bounded_mis_parallel := lift _ _ all_mis_parallel.
Definition bounded_mis_k := lift _ _ all_mis_k.
Definition bounded_coloring_mis := lift _ _ all_coloring_mis.
Definition bounded_coloring_jp := lift _ _ all_coloring_jp.
Definition bounded_coloring_ldf := lift _ _ all_coloring_ldf.
Definition bounded_components := lift _ _ all_components.
Definition bounded_bfs := lift _ _ all_bfs.
Definition bounded_bf := lift _ _ all_bf.

(* the enumeration is what it claims to be: sizes *)
Example graphs_le4_count : length graphs_le4 = 150%nat. Proof. vm_compute. reflexivity. Qed.
