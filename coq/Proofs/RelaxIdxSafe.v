(* C17: the indexed point kernels (gauss_seidel_indexed, jacobi_indexed -- the C/F relaxation of the classical and AIR solvers)
   stay inside their arrays on every structurally valid CSR matrix and every index array with entries in [0, n). *)
From Coq Require Import ZArith List Bool Lia.
Import ListNotations.
Require Import PV.Base.Ops PV.Model.Relax PV.Model.RelaxChk PV.Proofs.RelaxChkProofs.
Open Scope Z_scope.

Section P.
Context {F : Type} (o : Ops F).

Theorem gauss_seidel_indexed_safe n nnz Ap Aj Ax b (Id : list Z) :
  (forall k, (k < length Id)%nat -> 0 <= nth k Id 0 < Z.of_nat n) ->
  forall rows x, wf n nnz Ap Aj Ax x b -> (forall ii, In ii rows -> 0 <= ii < Z.of_nat (length Id)) ->
  fold_left (fun ox ii => bind ox (fun x => bind (getZ Id ii) (fun i => gs_row_chk o Ap Aj Ax b x i))) rows (Some x) =
  Some (fold_left (fun x ii => gs_row o Ap Aj Ax b x (nthZ Id ii 0)) rows x).
Proof.
  intros HId. induction rows as [|ii rows IH]; intros x W Hr; cbn [fold_left]; [reflexivity|].
  pose proof (Hr ii (or_introl eq_refl)) as Hii.
  cbn [bind]. rewrite (getZ_Some Id ii 0) by exact Hii. cbn [bind].
  assert (Hi : 0 <= nthZ Id ii 0 < Z.of_nat n) by (unfold nthZ; apply HId; lia).
  destruct (gs_row_chk_ok o n nnz Ap Aj Ax x b (nthZ Id ii 0) W Hi) as [E W']. rewrite E.
  apply IH; [exact W'|]. intros k Hk. apply Hr. right; exact Hk.
Qed.

Corollary gauss_seidel_indexed_kernel_safe n nnz Ap Aj Ax x b Id start stop step :
  (forall k, (k < length Id)%nat -> 0 <= nth k Id 0 < Z.of_nat n) -> wf n nnz Ap Aj Ax x b ->
  (forall ii, In ii (loop_idx start stop step) -> 0 <= ii < Z.of_nat (length Id)) ->
  gauss_seidel_indexed_chk o Ap Aj Ax x b Id start stop step = Some (gauss_seidel_indexed o Ap Aj Ax x b Id start stop step).
Proof. intros HId W Hr. unfold gauss_seidel_indexed_chk, gauss_seidel_indexed. apply (gauss_seidel_indexed_safe n nnz); assumption. Qed.

Theorem jacobi_indexed_safe n nnz omega Ap Aj Ax x b (indices : list Z) :
  wf n nnz Ap Aj Ax x b -> (forall i, In i indices -> 0 <= i < Z.of_nat n) ->
  jacobi_indexed_chk o Ap Aj Ax x b indices omega = Some (jacobi_indexed o Ap Aj Ax x b indices omega).
Proof.
  intros W Hr. unfold jacobi_indexed_chk, jacobi_indexed.
  apply (jac_fold_safe o n nnz omega Ap Aj Ax b x (wf_x_len _ _ _ _ _ _ _ W)); assumption.
Qed.
End P.
