(* C20: closed-form gallery facts over an arbitrary commutative ring. *)
From Coq Require Import ZArith List Ring.
Import ListNotations.

Section Diffusion.
Variable R : Type.
Variables (r0 r1 : R) (radd rmul rsub : R -> R -> R) (ropp : R -> R).
Hypothesis Rth : ring_theory r0 r1 radd rmul rsub ropp (@eq R).
Add Ring Rr : Rth.
Notation "a + b" := (radd a b). Notation "a * b" := (rmul a b). Notation "a - b" := (rsub a b).
Notation "- a" := (ropp a).
Definition two := r1 + r1. Definition three := two + r1. Definition four := two + two. Definition eight := four + four.

(* diffusion_stencil_2d(type='FE'): the nine entries (before the common division by 6) *)
Section FE.
Variables (eps CC SS CS : R).
Definition fe_a := (- eps - r1) * CC + (- eps - r1) * SS + (three * eps - three) * CS.
Definition fe_b := (two * eps - four) * CC + (- (four * eps) + two) * SS.
Definition fe_c := (- eps - r1) * CC + (- eps - r1) * SS + (- (three * eps) + three) * CS.
Definition fe_d := (- (four * eps) + two) * CC + (two * eps - four) * SS.
Definition fe_e := (eight * eps + eight) * CC + (eight * eps + eight) * SS.
(* [[a,b,c],[d,e,d],[c,b,a]] sums to zero, for every epsilon and every C, S (no trigonometric identity needed) *)
Theorem fe_stencil_sums_to_zero : fe_a + fe_b + fe_c + (fe_d + fe_e + fe_d) + (fe_c + fe_b + fe_a) = r0.
Proof. unfold fe_a, fe_b, fe_c, fe_d, fe_e, eight, four, three, two. ring. Qed.
End FE.

(* diffusion_stencil_2d(type='FD') with half = 1/2: needs C^2 + S^2 = 1 *)
Section FD.
Variables (eps CC SS CS half : R).
Hypothesis trig : CC + SS = r1.
Definition fd_a := half * (eps - r1) * CS.
Definition fd_b := - (eps * SS + CC).
Definition fd_c := - fd_a.
Definition fd_d := - (eps * CC + SS).
Definition fd_e := two * (eps + r1).
Theorem fd_stencil_sums_to_zero : fd_a + fd_b + fd_c + (fd_d + fd_e + fd_d) + (fd_c + fd_b + fd_a) = r0.
Proof.
  assert (E : fd_a + fd_b + fd_c + (fd_d + fd_e + fd_d) + (fd_c + fd_b + fd_a)
              = two * (eps + r1) * (r1 - (CC + SS))).
  { unfold fd_c, fd_a, fd_b, fd_d, fd_e, two. ring. }
  rewrite E, trig. ring.
Qed.
End FD.
End Diffusion.
