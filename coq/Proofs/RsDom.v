(* C13, unbounded: first-pass Ruge-Stuben on a symmetric strength pattern returns a DOMINATING coarse set: every
   fine point with a strong off-diagonal connection has a strongly connected coarse point -- for any number of
   vertices.  The argument needs the bucket structure (Proofs/RsBuckets.v): the loop visits every vertex or stops
   when the largest lambda among the unvisited ones is <= 0, and an undecided vertex always has lambda >= 1. *)
From Coq Require Import ZArith List Bool Lia.
Import ListNotations.
Require Import PV.Model.GraphAlg PV.Model.Split.
Require Import PV.Proofs.NaiveAggProofs PV.Proofs.RsIndep PV.Proofs.RsBuckets.
Open Scope Z_scope.

Lemma repl_notin a b row : forall v k, 0 <= k -> ~ In k row -> get (repl a b v row) k = get v k.
Proof.
  induction row as [|j row IH]; intros v k Hk Hn; cbn [repl fold_left]; [reflexivity|].
  fold (repl a b (if get v j =? a then set v j b else v) row).
  rewrite IH by (auto; intro; apply Hn; right; assumption).
  destruct (get v j =? a); [|reflexivity]. rewrite gs by exact Hk.
  destruct (Z.eqb_spec j k) as [E|E]; [exfalso; apply Hn; left; exact E|reflexivity].
Qed.

Definition lam_le (s s' : st) : Prop := forall v, 0 <= v -> get (lam s) v <= get (lam s') v.
Lemma lam_le_refl s : lam_le s s. Proof. intros v _. lia. Qed.
Lemma lam_le_trans a b c : lam_le a b -> lam_le b c -> lam_le a c.
Proof. intros H1 H2 v Hv. specialize (H1 v Hv). specialize (H2 v Hv). lia. Qed.

Lemma incr_mono n s k : lam_le s (incr_lambda n s k).
Proof.
  unfold incr_lambda. destruct (negb _); [apply lam_le_refl|]. destruct (_ >=? _); [apply lam_le_refl|].
  intros v Hv. cbn [lam swap_pos]. rewrite gs by exact Hv.
  destruct (Z.eqb_spec k v) as [E|E]; cbn [andb]; [|lia]. destruct (_ <? _); [subst; lia|lia].
Qed.

Section D.
Variables (N Ln : nat) (Sp Sj Tp Tj : list Z).
Let n := Z.of_nat N.
Notation trow := (nbrs Tp Tj).
Notation srow := (row Sp Sj).
Hypothesis t_range : forall i, 0 <= i < n -> forall j, In j (trow i) -> 0 <= j < n.
Hypothesis s_range : forall i, 0 <= i < n -> forall j, In j (srow i) -> 0 <= j < n.
Hypothesis sym : forall i j, 0 <= i < n -> In j (trow i) -> In i (trow j).
Hypothesis s_sub_t : forall i j, 0 <= i < n -> In j (srow i) -> In j (trow i).
Notation BI := (BI N Ln).

Lemma fold_incr top : forall l s, BI top s -> (forall k, In k l -> 0 <= k < n) ->
  BI top (fold_left (incr_lambda n) l s) /\ lam_le s (fold_left (incr_lambda n) l s).
Proof.
  induction l as [|k l IH]; intros s B Hl; cbn [fold_left]; [split; [exact B|apply lam_le_refl]|].
  destruct (IH (incr_lambda n s k)) as [B' M'].
  - apply incr_BI; [exact B|apply Hl; left; reflexivity].
  - intros k' Hk'. apply Hl. right. exact Hk'.
  - split; [exact B'|]. eapply lam_le_trans; [apply incr_mono|exact M'].
Qed.

Definition f1 (s : st) (j : Z) : st := if get (spl s) j =? U_NODE then with_spl s (set (spl s) j PRE_F_NODE) else s.
Definition f2 (s : st) (j : Z) : st :=
  if get (spl s) j =? PRE_F_NODE then
    let s' := with_spl s (set (spl s) j F_NODE) in fold_left (incr_lambda n) (srow j) s'
  else s.

Lemma set_nonU top s j x : BI top s -> x <> U_NODE -> BI top (with_spl s (set (spl s) j x)).
Proof.
  intros B Hx. apply spl_BI; [exact B|rewrite length_set; apply (b_lspl _ _ _ _ B)|].
  intros v Hv Hu. rewrite gs by lia. destruct (_ && _); [exact Hx|exact Hu].
Qed.

Lemma fold_f1 top : forall l s, BI top s -> BI top (fold_left f1 l s) /\ lam (fold_left f1 l s) = lam s.
Proof.
  induction l as [|j l IH]; intros s B; cbn [fold_left]; [split; [exact B|reflexivity]|].
  destruct (IH (f1 s j)) as [B' E'].
  - unfold f1. destruct (_ =? _); [apply set_nonU; [exact B|discriminate]|exact B].
  - split; [exact B'|]. rewrite E'. unfold f1. destruct (_ =? _); reflexivity.
Qed.

Lemma fold_f2 top : forall l s, BI top s -> (forall j, In j l -> 0 <= j < n) ->
  BI top (fold_left f2 l s) /\ lam_le s (fold_left f2 l s).
Proof.
  induction l as [|j l IH]; intros s B Hl; cbn [fold_left]; [split; [exact B|apply lam_le_refl]|].
  assert (S1 : BI top (f2 s j) /\ lam_le s (f2 s j)).
  { unfold f2. destruct (_ =? _); [|split; [exact B|apply lam_le_refl]]. cbv zeta.
    destruct (fold_incr top (srow j) (with_spl s (set (spl s) j F_NODE))) as [B' M'].
    - apply set_nonU; [exact B|discriminate].
    - apply s_range. apply Hl. left. reflexivity.
    - split; [exact B'|exact M']. }
  destruct S1 as [B1 M1]. destruct (IH (f2 s j) B1) as [B' M'].
  - intros j' Hj'. apply Hl. right. exact Hj'.
  - split; [exact B'|]. eapply lam_le_trans; eassumption.
Qed.

Lemma fold_decr_id : forall l s, (forall j, In j l -> get (spl s) j <> U_NODE) -> fold_left decr_lambda l s = s.
Proof.
  induction l as [|j l IH]; intros s H; cbn [fold_left]; [reflexivity|].
  assert (E : decr_lambda s j = s).
  { unfold decr_lambda. destruct (Z.eqb_spec (get (spl s) j) U_NODE) as [E|E]; [exfalso; apply (H j); [left; reflexivity|exact E]|reflexivity]. }
  rewrite E. apply IH. intros j' Hj'. apply H. right. exact Hj'.
Qed.

(* ghost invariant: undecided vertices have lambda >= 1; fine vertices are isolated or next to a coarse vertex *)
Definition U1 (s : st) : Prop := forall k, 0 <= k < n -> get (spl s) k = U_NODE -> 1 <= get (lam s) k.
Definition Fd (v : list Z) : Prop := forall k, 0 <= k < n -> get v k = F_NODE ->
  (forall i, In i (trow k) -> i = k) \/ exists i, In i (trow k) /\ i <> k /\ get v i = C_NODE.
Definition J (top : Z) (s : st) : Prop := BI top s /\ G N Tp Tj (spl s) /\ U1 s /\ Fd (spl s).

Lemma makeC_J top s : J top s -> 0 < top ->
  let t := top - 1 in let i := get (i2n s) t in
  get (spl s) i = U_NODE -> J t (make_C n Sp Sj Tp Tj (pop s t) i).
Proof.
  intros (B & Gs & Hu1 & Hfd) Htop t i HU.
  destruct (b_p1 _ _ _ _ B t ltac:(unfold t; lia)) as [Ri _]. fold i in Ri.
  pose proof (b_lspl _ _ _ _ B) as Ls.
  (* the state after the pop with i already coarse *)
  set (sA := pop (with_spl s (set (spl s) i C_NODE)) t).
  assert (BA : BI t sA).
  { unfold sA, t. apply pop_BI; [apply set_nonU; [exact B|discriminate]|exact Htop|].
    cbn [with_spl spl i2n]. fold t. fold i. rewrite gs by lia. rewrite Z.eqb_refl, Ls. fold n.
    destruct (Z.ltb_spec i n); [discriminate|lia]. }
  set (R := make_C n Sp Sj Tp Tj (pop s t) i).
  set (s2 := fold_left f1 (row Tp Tj i) sA).
  set (s3 := fold_left f2 (row Tp Tj i) s2).
  assert (ER : R = fold_left decr_lambda (srow i) s3) by reflexivity.
  destruct (fold_f1 t (row Tp Tj i) sA BA) as [B2 L2]. fold s2 in B2, L2.
  destruct (fold_f2 t (row Tp Tj i) s2 B2 (t_range i Ri)) as [B3 M3]. fold s3 in B3, M3.
  (* the splitting array of the result *)
  pose proof (spl_makeC N Sp Sj Tp Tj (pop s t) i) as SR. fold n in SR. fold R in SR.
  change (spl (pop s t)) with (spl s) in SR.
  set (v := spl s) in *. set (v1 := set v i C_NODE) in *.
  assert (L1 : length v1 = N) by (unfold v1; rewrite length_set; exact Ls).
  destruct Gs as [_ Val Ind Cl].
  assert (V1i : get v1 i = C_NODE).
  { unfold v1. rewrite gs by lia. rewrite Z.eqb_refl. fold v in Ls. rewrite Ls. fold n. destruct (Z.ltb_spec i n); [reflexivity|lia]. }
  assert (V1o : forall k, 0 <= k -> k <> i -> get v1 k = get v k).
  { intros k H0 H1. unfold v1. rewrite gs by lia. destruct (Z.eqb_spec i k); [lia|reflexivity]. }
  assert (NoP : forall k, 0 <= k < n -> get v1 k <> PRE_F_NODE).
  { intros k Hk. destruct (Z.eq_dec k i) as [->|Hne]; [rewrite V1i; discriminate|].
    rewrite V1o by lia. destruct (Val k Hk) as [Q|[Q|Q]]; rewrite Q; discriminate. }
  destruct (two_marks N Tp Tj t_range sym v1 (row Tp Tj i) L1 NoP) as (L' & A & Bm).
  rewrite <- SR in L', A, Bm.
  assert (Nin : forall k, 0 <= k -> ~ In k (row Tp Tj i) -> get (spl R) k = get v1 k).
  { intros k Hk Hn. rewrite SR. rewrite !repl_notin by assumption. reflexivity. }
  assert (S3 : spl s3 = spl R) by (rewrite ER, spl_fold_decr; reflexivity).
  (* the decrement loop finds no undecided vertex: S_i is inside T_i *)
  assert (Eid : R = s3).
  { rewrite ER. apply fold_decr_id. intros j Hj. rewrite S3.
    pose proof (s_range i Ri j Hj) as Rj. pose proof (s_sub_t i j Ri Hj) as Tj'.
    destruct (Z.eq_dec (get v1 j) U_NODE) as [Qu|Qu]; [rewrite (Bm j Rj Tj' Qu); discriminate|].
    destruct (A j Rj) as [Q|(Q & _)]; [rewrite Q; exact Qu|contradiction]. }
  assert (LamR : lam_le s R).
  { rewrite Eid. eapply lam_le_trans; [|exact M3]. intros x _. rewrite L2. unfold sA, pop. cbn [lam with_spl]. lia. }
  unfold J. fold R. split; [|split; [|split]].
  - rewrite Eid. exact B3.
  - apply (makeC_G N Sp Sj Tp Tj t_range sym (pop s t) i); [constructor; assumption|exact HU].
  - (* U1 *) intros k Hk Hu. destruct (A k Hk) as [Q|(_ & Q)]; [|rewrite Q in Hu; discriminate].
    rewrite Q in Hu. assert (k <> i) by (intro; subst; rewrite V1i in Hu; discriminate).
    rewrite V1o in Hu by lia. specialize (Hu1 k Hk Hu). specialize (LamR k ltac:(lia)). lia.
  - (* Fd *) intros k Hk Hf.
    assert (Ckeep : forall x, 0 <= x < n -> get v1 x = C_NODE -> get (spl R) x = C_NODE).
    { intros x Hx Hc. destruct (A x Hx) as [Q|(Q & _)]; [rewrite Q; exact Hc|rewrite Hc in Q; discriminate]. }
    destruct (in_dec Z.eq_dec k (row Tp Tj i)) as [Hin|Hout].
    + (* k depends on the new coarse vertex i *)
      destruct (Z.eq_dec k i) as [->|Hne].
      * exfalso. destruct (A i Ri) as [Q|(Q & _)]; [rewrite Q, V1i in Hf; discriminate|rewrite V1i in Q; discriminate].
      * right. exists i. split; [apply (sym i k Ri Hin)|]. split; [lia|]. apply Ckeep; [exact Ri|exact V1i].
    + rewrite (Nin k ltac:(lia) Hout) in Hf.
      assert (k <> i) by (intro; subst; rewrite V1i in Hf; discriminate).
      rewrite V1o in Hf by lia.
      destruct (Hfd k Hk Hf) as [Iso|(x & Hx & Hxk & Hc)]; [left; exact Iso|].
      right. exists x. split; [exact Hx|]. split; [exact Hxk|].
      pose proof (t_range k Hk x Hx) as Rx. apply Ckeep; [exact Rx|].
      destruct (Z.eq_dec x i) as [->|Hxi]; [exact V1i|rewrite V1o by lia; exact Hc].
Qed.
Lemma main_cons t rest s : main n Sp Sj Tp Tj (t :: rest) s =
  let i := get (i2n s) t in
  if get (lam s) i <=? 0 then pop s t
  else if get (spl s) i =? U_NODE then main n Sp Sj Tp Tj rest (make_C n Sp Sj Tp Tj (pop s t) i)
       else main n Sp Sj Tp Tj rest (pop s t).
Proof. reflexivity. Qed.

Lemma rev_zr_S (m : nat) : rev (zr 0 (Z.of_nat (S m))) = Z.of_nat m :: rev (zr 0 (Z.of_nat m)).
Proof. rewrite !zr_seq. rewrite seq_S, map_app, rev_app_distr. reflexivity. Qed.

Lemma main_J : forall (m : nat) s, J (Z.of_nat m) s ->
  let sf := main n Sp Sj Tp Tj (rev (zr 0 (Z.of_nat m))) s in
  G N Tp Tj (spl sf) /\ Fd (spl sf) /\ (forall k, 0 <= k < n -> get (spl sf) k <> U_NODE).
Proof.
  induction m as [|m IH]; intros s (B & Gs & Hu1 & Hfd).
  - cbn. split; [exact Gs|]. split; [exact Hfd|]. intros k Hk.
    apply (b_done _ _ _ _ B k Hk). destruct (b_p2 _ _ _ _ B k Hk) as [R _]. lia.
  - rewrite rev_zr_S. cbv zeta. rewrite main_cons. cbv zeta.
    set (top := Z.of_nat (S m)) in *. assert (Et : Z.of_nat m = top - 1) by (unfold top; lia).
    rewrite Et in *. set (t := top - 1) in *. set (i := get (i2n s) t).
    assert (Htop : 0 < top) by (unfold top; lia).
    destruct (b_p1 _ _ _ _ B t ltac:(unfold t; lia)) as [Ri Ii]. fold i in Ri, Ii.
    destruct (Z.leb_spec (get (lam s) i) 0) as [Hle|Hgt].
    + (* break: every unvisited vertex has lambda <= 0, so none of them is undecided *)
      change (spl (pop s t)) with (spl s). split; [exact Gs|]. split; [exact Hfd|].
      intros k Hk Hu. destruct (b_p2 _ _ _ _ B k Hk) as [Rp Ip].
      destruct (Z_lt_dec (get (n2i s) k) top) as [Hl|Hl]; [|apply (b_done _ _ _ _ B k Hk); [lia|exact Hu]].
      pose proof (top_max N Ln top s B (get (n2i s) k) ltac:(lia)) as Hm.
      unfold posl in Hm. rewrite Ip in Hm. fold t in Hm. fold i in Hm.
      specialize (Hu1 k Hk Hu). lia.
    + destruct (Z.eqb_spec (get (spl s) i) U_NODE) as [HU|HnU].
      * apply IH. apply (makeC_J top s); [exact (conj B (conj Gs (conj Hu1 Hfd)))|exact Htop|exact HU].
      * apply IH. split; [unfold t; apply pop_BI; assumption|]. split; [exact Gs|]. split; [|exact Hfd].
        intros k Hk Hu. exact (Hu1 k Hk Hu).
Qed.

(* the statement about the kernel's result, given that the initial state satisfies the invariant *)
Lemma rs_dom_of_init (infl : list Z) :
  J n (init n Tp Tj infl) ->
  let r := rs_cf_splitting n Sp Sj Tp Tj infl in
  forall k, 0 <= k < n -> get r k = 0 ->
    (forall i, In i (trow k) -> i = k) \/ exists i, In i (trow k) /\ i <> k /\ get r i = 1.
Proof.
  intros J0 r k Hk Hr. unfold r, rs_cf_splitting in *.
  destruct (main_J N (init n Tp Tj infl) J0) as (Gf & Fdf & NoU). fold n in Gf, Fdf, NoU.
  set (v := spl (main n Sp Sj Tp Tj (rev (zr 0 n)) (init n Tp Tj infl))) in *.
  destruct Gf as [Lv Val _ _].
  assert (Gm : forall x, 0 <= x < n -> get (map (fun v0 => if v0 =? U_NODE then F_NODE else v0) v) x = get v x).
  { intros x Hx. rewrite (get_map (fun v0 => if v0 =? U_NODE then F_NODE else v0)) by (rewrite Lv; fold n; exact Hx).
    destruct (Z.eqb_spec (get v x) U_NODE) as [E|E]; [exfalso; exact (NoU x Hx E)|reflexivity]. }
  rewrite (Gm k Hk) in Hr.
  destruct (Fdf k Hk Hr) as [Iso|(x & Hx & Hxk & Hc)]; [left; exact Iso|].
  right. exists x. split; [exact Hx|]. split; [exact Hxk|]. rewrite (Gm x (t_range k Hk x Hx)). exact Hc.
Qed.
End D.
