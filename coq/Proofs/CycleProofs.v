(* C03: the cycle model is the textbook recursion -- for every hierarchy whose
   levels are abelian groups and whose operators are additive maps. *)
From Coq Require Import List Arith Lia.
Import ListNotations.
Require Import PV.Model.Cycle.

Record GrpLaws {V} (g : Grp V) : Prop := {
  add_assoc : forall a b c, gadd g (gadd g a b) c = gadd g a (gadd g b c);
  add_comm : forall a b, gadd g a b = gadd g b a;
  add_0_l : forall a, gadd g (gz g) a = a;
  sub_add : forall a b, gadd g (gsub g a b) b = a      (* a - b is the solution of  y + b = a *)
}.

Definition additive {V W} (g : Grp V) (g' : Grp W) (f : V -> W) : Prop :=
  forall a b, f (gadd g a b) = gadd g' (f a) (f b).

Section GroupFacts.
Context {V} (g : Grp V) (L : GrpLaws g).
Notation "a + b" := (gadd g a b). Notation "a - b" := (gsub g a b). Notation "0" := (gz g).

Lemma add_0_r a : a + 0 = a.
Proof. rewrite (add_comm g L). apply (add_0_l g L). Qed.
Lemma cancel_r a b c : a + c = b + c -> a = b.
Proof.
  intro H. pose proof (sub_add g L 0 c) as D. set (d := 0 - c) in *.
  assert (E : forall y, (y + c) + d = y).
  { intro y. rewrite (add_assoc g L), (add_comm g L c d), D. apply add_0_r. }
  rewrite <- (E a), <- (E b), H. reflexivity.
Qed.
Lemma sub_0_r a : a - 0 = a.
Proof. apply (cancel_r _ _ 0). rewrite (sub_add g L). symmetry; apply add_0_r. Qed.
Lemma sub_self a : a - a = 0.
Proof. apply (cancel_r _ _ a). rewrite (sub_add g L). symmetry; apply (add_0_l g L). Qed.
Lemma sub_add_distr b u v : b - (u + v) = (b - u) - v.
Proof.
  apply (cancel_r _ _ (u + v)). rewrite (sub_add g L).
  rewrite (add_comm g L u v), <- (add_assoc g L), (sub_add g L), (sub_add g L). reflexivity.
Qed.
End GroupFacts.

Section AdditiveFacts.
Context {V W} (g : Grp V) (g' : Grp W) (L : GrpLaws g) (L' : GrpLaws g') (f : V -> W) (Hf : additive g g' f).
Lemma additive_zero : f (gz g) = gz g'.
Proof.
  apply (cancel_r g' L' _ _ (f (gz g))). rewrite <- Hf, (add_0_l g L), (add_0_l g' L'). reflexivity.
Qed.
Lemma additive_sub a b : f (gsub g a b) = gsub g' (f a) (f b).
Proof.
  apply (cancel_r g' L' _ _ (f b)). rewrite <- Hf, (sub_add g L), (sub_add g' L'). reflexivity.
Qed.
End AdditiveFacts.

(* well-formed hierarchy: every level an abelian group, every operator additive *)
Fixpoint wf {V} (h : hier V) : Prop :=
  match h with
  | Coarsest _ g A Ainv => GrpLaws g /\ additive g g A /\ additive g g Ainv
  | Level _ g A Bpre Bpost Vc P R hc =>
      GrpLaws g /\ additive g g A /\ additive g g Bpre /\ additive g g Bpost /\
      additive (hgrp hc) g P /\ additive g (hgrp hc) R /\ wf hc
  end.

Lemma wf_grp {V} (h : hier V) : wf h -> GrpLaws (hgrp h).
Proof. destruct h; cbn; tauto. Qed.
Lemma wf_A {V} (h : hier V) : wf h -> additive (hgrp h) (hgrp h) (hA h).
Proof. destruct h; cbn; tauto. Qed.

Lemma repeat_fn_ext {X} (f f' : X -> X) k : (forall x, f x = f' x) -> forall x, repeat_fn k f x = repeat_fn k f' x.
Proof. intro H. induction k as [|k IH]; intro x; cbn; [reflexivity|]. rewrite H. apply IH. Qed.

(* ---- the main theorem: one cycle is  x + M (b - A x)  with M the textbook operator ---- *)
Fixpoint wfx {V} (h : hier V) : Prop :=      (* wf + the coarsest solve is a left inverse of A *)
  match h with
  | Coarsest _ g A Ainv => GrpLaws g /\ additive g g A /\ additive g g Ainv /\ (forall x, Ainv (A x) = x)
  | Level _ g A Bpre Bpost Vc P R hc =>
      GrpLaws g /\ additive g g A /\ additive g g Bpre /\ additive g g Bpost /\
      additive (hgrp hc) g P /\ additive g (hgrp hc) R /\ wfx hc
  end.
Lemma wfx_grp {V} (h : hier V) : wfx h -> GrpLaws (hgrp h).
Proof. destruct h; cbn; tauto. Qed.
Lemma wfx_A {V} (h : hier V) : wfx h -> additive (hgrp h) (hgrp h) (hA h).
Proof. destruct h; cbn; tauto. Qed.

Theorem cycle_affine : forall V (h : hier V), wfx h -> forall ct cpl x b,
  cycle h ct cpl x b = gadd (hgrp h) x (Mtb h ct cpl (gsub (hgrp h) b (hA h x))).
Proof.
  intros V h. induction h as [V g A Ainv | V g A Bpre Bpost Vc P R hc IH]; intros Hwf ct cpl x b.
  - cbn in *. destruct Hwf as (L & HA & HI & Hinv).
    rewrite (additive_sub g g L L Ainv HI), Hinv.
    rewrite (add_comm g L), (sub_add g L). reflexivity.
  - cbn [wfx] in Hwf. destruct Hwf as (L & HA & Hpre & Hpost & HP & HR & Hc).
    pose proof (wfx_grp hc Hc) as Lc. pose proof (wfx_A hc Hc) as HAc.
    cbn [cycle Mtb hgrp hA].
    set (e := gsub g b (A x)).
    (* zero coarse guess: cycle hc ct' k 0 cb = Mtb hc ct' k cb *)
    assert (Z0 : forall ct' k cb, cycle hc ct' k (gz (hgrp hc)) cb = Mtb hc ct' k cb).
    { intros ct' k cb. rewrite (IH Hc).
      rewrite (additive_zero (hgrp hc) (hgrp hc) Lc Lc (hA hc) HAc), (sub_0_r _ Lc), (add_0_l _ Lc). reflexivity. }
    (* residual after pre-smoothing *)
    assert (Er : gsub g b (A (gadd g x (Bpre e))) = gsub g e (A (Bpre e))).
    { rewrite HA. unfold e. apply (sub_add_distr g L). }
    rewrite Er.
    set (cb := R (gsub g e (A (Bpre e)))).
    (* the coarse correction is the same element in both recursions *)
    assert (Ecx :
      match ct with
      | CV => cycle hc CV 1 (gz (hgrp hc)) cb
      | CW => cycle hc CW cpl (cycle hc CW cpl (gz (hgrp hc)) cb) cb
      | CF => repeat_fn cpl (fun cx => cycle hc CV 1 cx cb) (cycle hc CF cpl (gz (hgrp hc)) cb)
      end =
      match ct with
      | CV => Mtb hc CV 1 cb
      | CW => corr (hgrp hc) (hA hc) (Mtb hc CW cpl) cb (Mtb hc CW cpl cb)
      | CF => repeat_fn cpl (corr (hgrp hc) (hA hc) (Mtb hc CV 1) cb) (Mtb hc CF cpl cb)
      end).
    { destruct ct.
      - apply Z0.
      - rewrite Z0. rewrite (IH Hc). reflexivity.
      - rewrite Z0. apply repeat_fn_ext. intro s. rewrite (IH Hc). reflexivity. }
    rewrite Ecx. clear Ecx.
    set (cx := match ct with CV => _ | CW => _ | CF => _ end).
    (* x2 = x + x2' *)
    rewrite (add_assoc g L x (Bpre e) (P cx)).
    set (x2' := gadd g (Bpre e) (P cx)).
    rewrite HA. fold e.
    rewrite (sub_add_distr g L b (A x) (A x2')). fold e.
    apply (add_assoc g L).
Qed.

(* the exact solution is a fixed point of every cycle *)
Theorem cycle_fixed_point : forall V (h : hier V), wfx h -> forall ct cpl x b,
  hA h x = b -> cycle h ct cpl x b = x.
Proof.
  intros V h Hwf ct cpl x b E. rewrite (cycle_affine V h Hwf). rewrite E.
  pose proof (wfx_grp h Hwf) as L. rewrite (sub_self _ L).
  assert (M0 : Mtb h ct cpl (gz (hgrp h)) = gz (hgrp h)).
  { (* apply the affine form at x = 0, b = 0 and the fixed structure: cycle 0 0 = 0 + M 0; show cycle 0 0 = 0
       directly is circular, so prove additivity of M at zero by the same induction *)
    clear E x b. revert ct cpl. induction h as [V g A Ainv | V g A Bpre Bpost Vc P R hc IH]; intros ct cpl.
    - cbn in *. destruct Hwf as (L0 & HA & HI & _). apply (additive_zero g g L0 L0 Ainv HI).
    - cbn [wfx] in Hwf. destruct Hwf as (L0 & HA & Hpre & Hpost & HP & HR & Hc).
      pose proof (wfx_grp hc Hc) as Lc. pose proof (wfx_A hc Hc) as HAc.
      cbn [Mtb hgrp].
      rewrite (additive_zero g g L0 L0 Bpre Hpre), (additive_zero g g L0 L0 A HA), (sub_self g L0).
      rewrite (additive_zero g (hgrp hc) L0 Lc R HR).
      assert (Cz : forall M0', (M0' (gz (hgrp hc)) = gz (hgrp hc)) ->
                   corr (hgrp hc) (hA hc) M0' (gz (hgrp hc)) (gz (hgrp hc)) = gz (hgrp hc)).
      { intros M0' HM. unfold corr. rewrite (additive_zero _ _ Lc Lc (hA hc) HAc), (sub_self _ Lc), HM.
        apply (add_0_l _ Lc). }
      assert (Ecx : match ct with
                    | CV => Mtb hc CV 1 (gz (hgrp hc))
                    | CW => corr (hgrp hc) (hA hc) (Mtb hc CW cpl) (gz (hgrp hc)) (Mtb hc CW cpl (gz (hgrp hc)))
                    | CF => repeat_fn cpl (corr (hgrp hc) (hA hc) (Mtb hc CV 1) (gz (hgrp hc))) (Mtb hc CF cpl (gz (hgrp hc)))
                    end = gz (hgrp hc)).
      { destruct ct.
        - apply (IH Hc Lc).
        - rewrite (IH Hc Lc). apply Cz. apply (IH Hc Lc).
        - rewrite (IH Hc Lc). induction cpl as [|k IHk]; cbn [repeat_fn]; [reflexivity|].
          rewrite Cz by apply (IH Hc Lc). exact IHk. }
      rewrite Ecx. rewrite (additive_zero (hgrp hc) g Lc L0 P HP), (add_0_l g L0).
      rewrite (additive_zero g g L0 L0 A HA), (sub_self g L0), (additive_zero g g L0 L0 Bpost Hpost).
      apply (add_0_l g L0). }
  rewrite M0. apply (add_0_r _ L).
Qed.

(* the preconditioner handed to Krylov methods: one cycle from the zero guess is exactly M *)
Theorem precond_is_M : forall V (h : hier V), wfx h -> forall ct cpl b,
  cycle h ct cpl (gz (hgrp h)) b = Mtb h ct cpl b.
Proof.
  intros V h Hwf ct cpl b. rewrite (cycle_affine V h Hwf).
  pose proof (wfx_grp h Hwf) as L. pose proof (wfx_A h Hwf) as HA.
  rewrite (additive_zero _ _ L L (hA h) HA), (sub_0_r _ L), (add_0_l _ L). reflexivity.
Qed.

(* k one-cycle calls equal one k-cycle call: both are the k-fold composition *)
Theorem k_calls_compose {X} (f : X -> X) j k x : repeat_fn (j + k) f x = repeat_fn k f (repeat_fn j f x).
Proof. revert x. induction j as [|j IH]; intro x; cbn; [reflexivity|apply IH]. Qed.

(* ---- M is additive (a fixed linear operator determined by the hierarchy and the cycle type) ---- *)
Section Combinators.
Context {U V} (gu : Grp U) (g : Grp V) (Lu : GrpLaws gu) (L : GrpLaws g).
Lemma add_swap4 a b c d : gadd g (gadd g a b) (gadd g c d) = gadd g (gadd g a c) (gadd g b d).
Proof.
  rewrite (add_assoc g L a b), <- (add_assoc g L b c d), (add_comm g L b c), (add_assoc g L c b d),
          <- (add_assoc g L a c). reflexivity.
Qed.
Lemma sub_add4 a b c d : gsub g (gadd g a b) (gadd g c d) = gadd g (gsub g a c) (gsub g b d).
Proof.
  apply (cancel_r g L _ _ (gadd g c d)). rewrite (sub_add g L), add_swap4, !(sub_add g L). reflexivity.
Qed.
Lemma additive_add (f h : U -> V) : additive gu g f -> additive gu g h -> additive gu g (fun r => gadd g (f r) (h r)).
Proof. intros Hf Hh a b. rewrite Hf, Hh. apply add_swap4. Qed.
Lemma additive_subf (f h : U -> V) : additive gu g f -> additive gu g h -> additive gu g (fun r => gsub g (f r) (h r)).
Proof. intros Hf Hh a b. rewrite Hf, Hh. apply sub_add4. Qed.
End Combinators.
Lemma additive_comp {U V W} (gu : Grp U) (gv : Grp V) (gw : Grp W) (f : U -> V) (h : V -> W) :
  additive gu gv f -> additive gv gw h -> additive gu gw (fun r => h (f r)).
Proof. intros Hf Hh a b. rewrite Hf, Hh. reflexivity. Qed.
Lemma additive_id {V} (g : Grp V) : additive g g (fun r => r).
Proof. intros a b; reflexivity. Qed.

Theorem Mtb_additive : forall V (h : hier V), wfx h -> forall ct cpl,
  additive (hgrp h) (hgrp h) (Mtb h ct cpl).
Proof.
  intros V h. induction h as [V g A Ainv | V g A Bpre Bpost Vc P R hc IH]; intros Hwf ct cpl.
  - cbn in *. tauto.
  - cbn [wfx] in Hwf. destruct Hwf as (L & HA & Hpre & Hpost & HP & HR & Hc).
    pose proof (wfx_grp hc Hc) as Lc. pose proof (wfx_A hc Hc) as HAc.
    cbn [hgrp].
    (* the coarse operator as a function of the coarse right-hand side *)
    set (C := fun cb =>
      match ct with
      | CV => Mtb hc CV 1 cb
      | CW => corr (hgrp hc) (hA hc) (Mtb hc CW cpl) cb (Mtb hc CW cpl cb)
      | CF => repeat_fn cpl (corr (hgrp hc) (hA hc) (Mtb hc CV 1) cb) (Mtb hc CF cpl cb)
      end).
    assert (Hcorr : forall (Mc s0 : Vc -> Vc), additive (hgrp hc) (hgrp hc) Mc -> additive (hgrp hc) (hgrp hc) s0 ->
              additive (hgrp hc) (hgrp hc) (fun cb => corr (hgrp hc) (hA hc) Mc cb (s0 cb))).
    { intros Mc s0 HM Hs. unfold corr. set (gc := hgrp hc) in *.
      apply (additive_add gc gc Lc); [exact Hs|].
      apply (additive_comp gc gc gc (fun cb => gsub gc cb (hA hc (s0 cb))) Mc); [|exact HM].
      apply (additive_subf gc gc Lc); [apply additive_id|].
      apply (additive_comp gc gc gc s0 (hA hc)); assumption. }
    assert (HC : additive (hgrp hc) (hgrp hc) C).
    { unfold C. destruct ct.
      - apply (IH Hc).
      - apply Hcorr; apply (IH Hc).
      - assert (G : forall k s0, additive (hgrp hc) (hgrp hc) s0 ->
                    additive (hgrp hc) (hgrp hc)
                      (fun cb => repeat_fn k (corr (hgrp hc) (hA hc) (Mtb hc CV 1) cb) (s0 cb))).
        { induction k as [|k IHk]; intros s0 Hs; cbn [repeat_fn]; [exact Hs|].
          apply (IHk (fun cb => corr (hgrp hc) (hA hc) (Mtb hc CV 1) cb (s0 cb))).
          apply Hcorr; [apply (IH Hc)|exact Hs]. }
        apply G. apply (IH Hc). }
    (* assemble the level *)
    set (f2 := fun r => gsub g r (A (Bpre r))).
    assert (H2 : additive g g f2).
    { unfold f2. apply (additive_subf g g L); [apply additive_id|].
      apply (additive_comp g g g Bpre A); assumption. }
    set (f4 := fun r => gadd g (Bpre r) (P (C (R (f2 r))))).
    assert (H4 : additive g g f4).
    { unfold f4. apply (additive_add g g L); [exact Hpre|].
      apply (additive_comp g (hgrp hc) g (fun r => C (R (f2 r))) P); [|exact HP].
      apply (additive_comp g (hgrp hc) (hgrp hc) (fun r => R (f2 r)) C); [|exact HC].
      apply (additive_comp g g (hgrp hc) f2 R); assumption. }
    change (additive g g (fun r => gadd g (f4 r) (Bpost (gsub g r (A (f4 r)))))).
    apply (additive_add g g L); [exact H4|].
    apply (additive_comp g g g (fun r => gsub g r (A (f4 r))) Bpost); [|exact Hpost].
    apply (additive_subf g g L); [apply additive_id|].
    apply (additive_comp g g g f4 A); assumption.
Qed.
