(* C17: on every structurally valid CSR graph (any size) and every x of n entries, the bounds-checked twin of
   maximal_independent_set_serial never reports an access outside an array, and computes what the kernel model computes. *)
From Coq Require Import ZArith List Bool Lia.
Import ListNotations.
Require Import PV.Model.GraphAlg PV.Model.Split PV.Model.SplitChk PV.Model.MisChk PV.Proofs.NaiveAggProofs PV.Proofs.RsSafe.
Open Scope Z_scope.

Section S.
Variables (N : nat) (Ap Aj : list Z).
Let n := Z.of_nat N.
Hypothesis V : valid_csr N Ap Aj.
Variables (active c f : Z).

Lemma mark_ok : forall (js : list Z) (x : list Z), length x = N -> (forall j, In j js -> 0 <= j < n) ->
  mark_active_chk active f x js = Some (mark_active active f x js) /\ length (mark_active active f x js) = N.
Proof.
  intros js x L H. unfold mark_active_chk, mark_active.
  apply (ofold_ok (fun x => length x = N)); [exact L|].
  intros a j La Hj. specialize (H j Hj). rewrite (cget_ok a j) by (rewrite La; exact H). cbn [obind].
  destruct (get a j =? active).
  - rewrite (cset_ok a j f) by (rewrite La; exact H). split; [reflexivity|rewrite length_set; exact La].
  - split; [reflexivity|exact La].
Qed.

Theorem mis_chk_safe (x : list Z) : length x = N ->
  mis_serial_chk n Ap Aj active c f x = Some (mis_serial n Ap Aj active c f x).
Proof.
  intros L. unfold mis_serial_chk, mis_serial.
  apply (ofold_ok (fun s : list Z * Z => length (fst s) = N)); [exact L|].
  intros [a k] i La Hi. cbn [fst] in La. apply in_zr' in Hi.
  rewrite (cget_ok a i) by (rewrite La; exact Hi). cbn [obind].
  destruct (negb (get a i =? active)); [split; [reflexivity|exact La]|].
  rewrite (cset_ok a i c) by (rewrite La; exact Hi). cbn [obind].
  destruct (row_ok N Ap Aj i V Hi) as [R1 R2]. rewrite R1. cbn [obind].
  assert (L1 : length (set a i c) = N) by (rewrite length_set; exact La).
  destruct (mark_ok (row Ap Aj i) (set a i c) L1 R2) as [M1 M2]. rewrite M1. cbn [obind].
  split; [reflexivity|exact M2].
Qed.
End S.
