(* C13 / C18, unbounded (partial correctness): whenever the model of maximal_independent_set_parallel
   (run without iteration limit) returns, the returned marking is a maximal independent set of the
   symmetric graph: no two adjacent vertices are both in the set, no vertex is left undecided, and
   every vertex outside the set has a neighbour in it -- for ANY number of vertices and ANY weights
   (no property of the weight comparison is used; it only influences termination). *)
From Coq Require Import ZArith List Bool Lia.
Import ListNotations.
Require Import PV.Model.GraphAlg.
Require Import PV.Proofs.NaiveAggProofs.
Open Scope Z_scope.

Section S.
Variables (N : nat) (Ap Aj : list Z).
Let n := Z.of_nat N.
Hypothesis cols_in_range : forall i, 0 <= i < n -> forall j, In j (nbrs Ap Aj i) -> 0 <= j < n.
Hypothesis sym : forall i j, 0 <= i < n -> In j (nbrs Ap Aj i) -> In i (nbrs Ap Aj j).
Variables (active c f : Z).
Hypothesis ac : active <> c.
Hypothesis af : active <> f.
Hypothesis cf : c <> f.
Context {W : Type} (wt : Wt W).
Variable y : list W.

Record J (x : list Z) : Prop := {
  j_l : length x = N;
  j_val : forall k, 0 <= k < n -> get x k = active \/ get x k = c \/ get x k = f;
  j_ind : forall i j, 0 <= i < n -> get x i = c -> In j (nbrs Ap Aj i) -> j <> i -> get x j <> c;
  j_dom : forall i, 0 <= i < n -> get x i = f -> exists j, In j (nbrs Ap Aj i) /\ j <> i /\ get x j = c
}.

(* mark_active: active entries of the row become f, nothing else changes *)
Lemma mark_spec : forall js x, length x = N -> (forall j, In j js -> 0 <= j < n) ->
  let x' := mark_active active f x js in
  length x' = N /\
  (forall k, 0 <= k < n -> get x' k = get x k \/ (get x k = active /\ get x' k = f /\ In k js)) /\
  (forall k, In k js -> get x k = active -> get x' k = f).
Proof.
  induction js as [|j js IH]; intros x Hl Hr; cbn [mark_active fold_left].
  - repeat split; auto. intros k [].
  - assert (Hj : 0 <= j < n) by (apply Hr; left; reflexivity).
    fold (mark_active active f (if get x j =? active then set x j f else x) js).
    destruct (Z.eqb_spec (get x j) active) as [E|E].
    + destruct (IH (set x j f) ltac:(rewrite length_set; exact Hl) (fun k Hk => Hr k (or_intror Hk))) as (L & A & B).
      assert (Sj : get (set x j f) j = f) by (apply get_set_same; rewrite Hl; unfold n in *; lia).
      repeat split.
      * exact L.
      * intros k Hk. destruct (Z.eq_dec k j) as [->|Hne].
        -- right. split; [exact E|]. split; [|left; reflexivity].
           destruct (A j Hj) as [Q|(Q & _)]; [rewrite Q; exact Sj|rewrite Sj in Q; congruence].
        -- destruct (A k Hk) as [Q|(Q1 & Q2 & Q3)].
           ++ left. rewrite Q. apply get_set_other; lia.
           ++ right. rewrite get_set_other in Q1 by lia. repeat split; auto. right; exact Q3.
      * intros k [<-|Hk] Hx.
        -- destruct (A j Hj) as [Q|(Q & _)]; [rewrite Q; exact Sj|rewrite Sj in Q; congruence].
        -- destruct (Z.eq_dec k j) as [->|Hne].
           ++ destruct (A j Hj) as [Q|(Q & _)]; [rewrite Q; exact Sj|rewrite Sj in Q; congruence].
           ++ apply B; [exact Hk|]. pose proof (Hr k (or_intror Hk)) as Hkr. rewrite get_set_other by lia. exact Hx.
    + destruct (IH x Hl (fun k Hk => Hr k (or_intror Hk))) as (L & A & B).
      repeat split; auto.
      * intros k Hk. destruct (A k Hk) as [Q|(Q1 & Q2 & Q3)]; [left; exact Q|right; repeat split; auto; right; exact Q3].
      * intros k [<-|Hk] Hx; [contradiction|apply B; assumption].
Qed.

(* what the row scan establishes *)
Lemma scan_end x i yi : forall js, scan_row wt active c x y i yi js = ScanEnd -> forall j, In j js -> get x j <> c.
Proof.
  induction js as [|j js IH]; intros H k Hk; [destruct Hk|]. cbn [scan_row] in H.
  destruct (Z.eqb_spec (get x j) c) as [E|E]; [discriminate|].
  assert (H' : scan_row wt active c x y i yi js = ScanEnd).
  { destruct (get x j =? active); [|exact H].
    destruct (wlt wt yi (getw wt y j)); [discriminate|].
    destruct (weq wt (getw wt y j) yi && (j >? i)); [discriminate|exact H]. }
  destruct Hk as [<-|Hk]; [exact E|apply IH; assumption].
Qed.
Lemma scan_c x i yi : forall js, scan_row wt active c x y i yi js = BreakC -> exists j, In j js /\ get x j = c.
Proof.
  induction js as [|j js IH]; intro H; [discriminate|]. cbn [scan_row] in H.
  destruct (Z.eqb_spec (get x j) c) as [E|E]; [exists j; split; [left; reflexivity|exact E]|].
  assert (H' : scan_row wt active c x y i yi js = BreakC).
  { destruct (get x j =? active); [|exact H].
    destruct (wlt wt yi (getw wt y j)); [discriminate|].
    destruct (weq wt (getw wt y j) yi && (j >? i)); [discriminate|exact H]. }
  destruct (IH H') as [k [K1 K2]]. exists k. split; [right; exact K1|exact K2].
Qed.

Definition sweep_step (s : list Z * Z * bool) (i : Z) : list Z * Z * bool :=
  let '(x, Nn, act) := s in
  if negb (get x i =? active) then s
  else match scan_row wt active c x y i (getw wt y i) (nbrs Ap Aj i) with
       | ScanEnd => (set (mark_active active f x (nbrs Ap Aj i)) i c, Nn + 1, act)
       | BreakC => (set x i f, Nn, true)
       | BreakW => (x, Nn, true)
       end.

(* invariant of one sweep after m vertices: J, and if nothing was postponed so far no processed
   vertex is still undecided *)
Definition SwInv (m : nat) (s : list Z * Z * bool) : Prop :=
  let '(x, _, act) := s in
  J x /\ (act = false -> forall k, 0 <= k < Z.of_nat m -> get x k <> active).

Lemma sweep_step_inv m s : (m < N)%nat -> SwInv m s -> SwInv (S m) (sweep_step s (Z.of_nat m)).
Proof.
  destruct s as [[x Nn] act]. intros Hm [Jx Hact]. destruct Jx as [Lx Val Ind Dom].
  assert (Hmn : 0 <= Z.of_nat m < n) by (unfold n; lia).
  assert (Hrow : forall j, In j (nbrs Ap Aj (Z.of_nat m)) -> 0 <= j < n) by (exact (cols_in_range _ Hmn)).
  unfold sweep_step, SwInv.
  destruct (Z.eqb_spec (get x (Z.of_nat m)) active) as [E|E]; cbn [negb].
  2:{ split; [constructor; assumption|]. intros Ha k Hk.
      destruct (Z.eq_dec k (Z.of_nat m)) as [->|Hne]; [exact E|apply Hact; [exact Ha|lia]]. }
  destruct (scan_row wt active c x y (Z.of_nat m) (getw wt y (Z.of_nat m)) (nbrs Ap Aj (Z.of_nat m))) eqn:Sc.
  - (* m joins the set; its undecided neighbours are excluded *)
    pose proof (scan_end _ _ _ _ Sc) as NoC.
    destruct (mark_spec (nbrs Ap Aj (Z.of_nat m)) x Lx Hrow) as (L & A & B).
    set (x1 := mark_active active f x (nbrs Ap Aj (Z.of_nat m))) in *.
    assert (X'm : get (set x1 (Z.of_nat m) c) (Z.of_nat m) = c) by (apply get_set_same; rewrite L; unfold n in *; lia).
    assert (X'o : forall k, 0 <= k -> k <> Z.of_nat m -> get (set x1 (Z.of_nat m) c) k = get x1 k) by (intros k H0 H1; apply get_set_other; lia).
    (* entries equal to c are exactly the old ones plus m *)
    assert (Cold : forall k, 0 <= k < n -> k <> Z.of_nat m -> (get x1 k = c <-> get x k = c)).
    { intros k Hk Hne. destruct (A k Hk) as [Q|(Q1 & Q2 & _)]; [rewrite Q; tauto|].
      split; intro H; [rewrite Q2 in H; congruence|rewrite Q1 in H; congruence]. }
    split.
    + constructor.
      * rewrite length_set; exact L.
      * intros k Hk. destruct (Z.eq_dec k (Z.of_nat m)) as [->|Hne]; [rewrite X'm; auto|].
        rewrite X'o by lia. destruct (A k Hk) as [Q|(_ & Q & _)]; [rewrite Q; apply Val; exact Hk|rewrite Q; auto].
      * intros i j Hi Hc Hj Hne.
        assert (Hjr : 0 <= j < n) by (apply (cols_in_range i Hi); exact Hj).
        destruct (Z.eq_dec i (Z.of_nat m)) as [->|Him].
        -- rewrite X'o by lia. intro Q. apply (Cold j Hjr Hne) in Q. exact (NoC j Hj Q).
        -- rewrite X'o in Hc by lia. apply (Cold i Hi Him) in Hc.
           destruct (Z.eq_dec j (Z.of_nat m)) as [->|Hjm].
           ++ exfalso. apply (NoC i); [apply (sym i (Z.of_nat m) Hi Hj)|exact Hc].
           ++ rewrite X'o by lia. intro Q. apply (Cold j Hjr Hjm) in Q. exact (Ind i j Hi Hc Hj Hne Q).
      * intros i Hi Hf. destruct (Z.eq_dec i (Z.of_nat m)) as [->|Him]; [rewrite X'm in Hf; congruence|].
        rewrite X'o in Hf by lia.
        destruct (A i Hi) as [Q|(Q1 & Q2 & Q3)].
        -- rewrite Q in Hf. destruct (Dom i Hi Hf) as [j (J1 & J2 & J3)].
           assert (Hjr : 0 <= j < n) by (apply (cols_in_range i Hi); exact J1).
           exists j. repeat split; auto. destruct (Z.eq_dec j (Z.of_nat m)) as [->|Hjm]; [exact X'm|].
           rewrite X'o by lia. apply (Cold j Hjr Hjm). exact J3.
        -- exists (Z.of_nat m). repeat split; [apply (sym (Z.of_nat m) i Hmn Q3)|congruence|exact X'm].
    + intros Ha k Hk. destruct (Z.eq_dec k (Z.of_nat m)) as [->|Hne]; [rewrite X'm; congruence|].
      rewrite X'o by lia. assert (Hkr : 0 <= k < n) by (unfold n in *; lia).
      destruct (A k Hkr) as [Q|(_ & Q & _)]; [rewrite Q; apply Hact; [exact Ha|lia]|rewrite Q; congruence].
  - (* a neighbour is already in the set: m is excluded *)
    destruct (scan_c _ _ _ _ Sc) as [j0 [J1 J2]].
    assert (Hj0 : j0 <> Z.of_nat m) by (intro; subst; congruence).
    assert (Sm : get (set x (Z.of_nat m) f) (Z.of_nat m) = f) by (apply get_set_same; rewrite Lx; unfold n in *; lia).
    assert (So : forall k, 0 <= k -> k <> Z.of_nat m -> get (set x (Z.of_nat m) f) k = get x k) by (intros k H0 H1; apply get_set_other; lia).
    split; [|discriminate].
    constructor.
    + rewrite length_set; exact Lx.
    + intros k Hk. destruct (Z.eq_dec k (Z.of_nat m)) as [->|Hne]; [rewrite Sm; auto|rewrite So by lia; apply Val; exact Hk].
    + intros i j Hi Hc Hj Hne. assert (Hjr : 0 <= j < n) by (apply (cols_in_range i Hi); exact Hj).
      destruct (Z.eq_dec i (Z.of_nat m)) as [->|Him]; [rewrite Sm in Hc; congruence|]. rewrite So in Hc by lia.
      destruct (Z.eq_dec j (Z.of_nat m)) as [->|Hjm]; [rewrite Sm; congruence|]. rewrite So by lia. exact (Ind i j Hi Hc Hj Hne).
    + intros i Hi Hf. destruct (Z.eq_dec i (Z.of_nat m)) as [->|Him].
      * exists j0. assert (0 <= j0 < n) by (apply Hrow; exact J1). repeat split; auto. rewrite So by lia. exact J2.
      * rewrite So in Hf by lia. destruct (Dom i Hi Hf) as [j (K1 & K2 & K3)].
        assert (Hjr : 0 <= j < n) by (apply (cols_in_range i Hi); exact K1).
        exists j. repeat split; auto. destruct (Z.eq_dec j (Z.of_nat m)) as [->|Hjm]; [congruence|]. rewrite So by lia. exact K3.
  - split; [constructor; assumption|discriminate].
Qed.

Lemma sweep_fold : forall (k m : nat) s, (m + k <= N)%nat -> SwInv m s -> SwInv (m + k) (fold_left sweep_step (map Z.of_nat (seq m k)) s).
Proof.
  induction k as [|k IH]; intros m s Hb I; cbn [seq map fold_left]; [rewrite Nat.add_0_r; exact I|].
  replace (m + S k)%nat with (S m + k)%nat by lia. apply IH; [lia|apply sweep_step_inv; [lia|exact I]].
Qed.

Definition decided (x : list Z) : Prop := forall k, 0 <= k < n -> get x k <> active.

Lemma par_sweep_spec x Nn : J x ->
  let '(x', _, act) := par_sweep n Ap Aj wt active c f y (x, Nn) in J x' /\ (act = false -> decided x').
Proof.
  intro Jx. unfold par_sweep. cbn [fst snd].
  assert (I0 : SwInv 0 (x, Nn, false)) by (split; [exact Jx|intros _ k Hk; lia]).
  pose proof (sweep_fold N 0 (x, Nn, false) ltac:(lia) I0) as F.
  rewrite <- (zr_seq N) in F. fold n in F. cbn [Nat.add] in F.
  change (fold_left _ (zr 0 n) (x, Nn, false)) with (fold_left sweep_step (zr 0 n) (x, Nn, false)).
  destruct (fold_left sweep_step (zr 0 n) (x, Nn, false)) as [[x' N'] act]. destruct F as [J' D].
  split; [exact J'|]. intros Ha k Hk. apply D; [exact Ha|unfold n in *; lia].
Qed.

Lemma par_loop_spec : forall fuel iters x Nn, J x ->
  forall x' N', par_loop n Ap Aj wt fuel active c f y (-1) iters (x, Nn) = Some (x', N') -> J x' /\ decided x'.
Proof.
  induction fuel as [|fuel IH]; intros iters x Nn Jx x' N' H; cbn [par_loop] in H; [discriminate|].
  change (-1 =? -1) with true in H. cbn [negb andb] in H.
  pose proof (par_sweep_spec x Nn Jx) as S.
  destruct (par_sweep n Ap Aj wt active c f y (x, Nn)) as [[x1 N1] act]. destruct S as [J1 D1].
  destruct act.
  - apply (IH _ _ _ J1 _ _ H).
  - injection H as <- <-. split; [exact J1|apply D1; reflexivity].
Qed.

(* the returned marking is a maximal independent set *)
Theorem mis_parallel_partial_correctness (x0 : list Z) : length x0 = N -> (forall k, 0 <= k < n -> get x0 k = active) ->
  forall x Nn, mis_parallel n Ap Aj wt active c f x0 y (-1) = Some (x, Nn) ->
  length x = N /\
  (forall k, 0 <= k < n -> get x k = c \/ get x k = f) /\
  (forall i j, 0 <= i < n -> get x i = c -> In j (nbrs Ap Aj i) -> j <> i -> get x j <> c) /\
  (forall i, 0 <= i < n -> get x i <> c -> exists j, In j (nbrs Ap Aj i) /\ j <> i /\ get x j = c).
Proof.
  intros Hl Hall x Nn H. unfold mis_parallel in H.
  assert (J0 : J x0).
  { constructor; auto.
    - intros i j Hi Hc. rewrite (Hall i Hi) in Hc. congruence.
    - intros i Hi Hf. rewrite (Hall i Hi) in Hf. congruence. }
  destruct (par_loop_spec _ _ _ _ J0 _ _ H) as [[Lx Val Ind Dom] Dec].
  repeat split.
  - exact Lx.
  - intros k Hk. destruct (Val k Hk) as [Q|Q]; [exfalso; exact (Dec k Hk Q)|exact Q].
  - exact Ind.
  - intros i Hi Hc. apply Dom; [exact Hi|]. destruct (Val i Hi) as [Q|[Q|Q]]; [exfalso; exact (Dec i Hi Q)|contradiction|exact Q].
Qed.
End S.
