(* The executable CSR/list model [GraphAlg.mis_serial] refines the abstract algorithm
   of MisAbstract.v; hence it returns an independent, maximal set on every
   symmetric graph of any size. *)
From Coq Require Import ZArith List Arith Lia Bool.
Import ListNotations.
Require Import PV.Model.GraphAlg PV.Proofs.MisAbstract.

Section Sim.
Variable n : nat.
Variables (Ap Aj : list Z).
Variables (active c f : Z).
Hypothesis Hac : active <> c.
Hypothesis Hfa : f <> active.
Hypothesis Hfc : f <> c.
(* well-formed: column indices of the first n rows are vertices *)
Hypothesis wf : forall i, (i < n)%nat -> forall j, In j (nbrs Ap Aj (Z.of_nat i)) -> (0 <= j < Z.of_nat n)%Z.

Definition adj (i : nat) : list nat :=
  if (i <? n)%nat then map Z.to_nat (nbrs Ap Aj (Z.of_nat i)) else [].
Definition decode (v : Z) : st :=
  if (v =? c)%Z then C else if (v =? active)%Z then Act else Fx.
Definition R (x : list Z) (a : nat -> st) : Prop :=
  length x = n /\ forall k, (k < n)%nat -> decode (get x (Z.of_nat k)) = a k.

Lemma decode_active : decode active = Act.
Proof. unfold decode. destruct (Z.eqb_spec active c); [contradiction|]. now rewrite Z.eqb_refl. Qed.
Lemma decode_c : decode c = C.
Proof. unfold decode. now rewrite Z.eqb_refl. Qed.
Lemma decode_f : decode f = Fx.
Proof. unfold decode. destruct (Z.eqb_spec f c); [contradiction|]. destruct (Z.eqb_spec f active); [contradiction|]. reflexivity. Qed.
Lemma decode_Act v : decode v = Act <-> v = active.
Proof.
  unfold decode. destruct (Z.eqb_spec v c) as [E|E].
  - split; [discriminate|]. intro H. congruence.
  - destruct (Z.eqb_spec v active) as [E'|E']; split; auto; try discriminate. intro; contradiction.
Qed.
Lemma decode_C v : decode v = C <-> v = c.
Proof.
  unfold decode. destruct (Z.eqb_spec v c) as [E|E]; [tauto|].
  destruct (Z.eqb_spec v active); split; try discriminate; intros; contradiction.
Qed.

Lemma nth_setn_same {A} (l : list A) i v d : (i < length l)%nat -> nth i (setn l i v) d = v.
Proof. revert i; induction l as [|h t IH]; intros [|i] H; cbn in *; try lia; auto. apply IH; lia. Qed.
Lemma nth_setn_other {A} (l : list A) i k v d : i <> k -> nth k (setn l i v) d = nth k l d.
Proof. revert i k; induction l as [|h t IH]; intros [|i] [|k] H; cbn; auto; try congruence. Qed.
Lemma length_setn {A} (l : list A) i v : length (setn l i v) = length l.
Proof. revert i; induction l as [|h t IH]; intros [|i]; cbn; auto. Qed.

Lemma get_set (x : list Z) (i k : nat) v : (i < length x)%nat ->
  get (set x (Z.of_nat i) v) (Z.of_nat k) = if Nat.eqb k i then v else get x (Z.of_nat k).
Proof.
  intros Hi. unfold get, set. destruct (Z.ltb_spec (Z.of_nat i) 0); [lia|]. rewrite !Nat2Z.id.
  destruct (Nat.eqb_spec k i) as [->|Hne]; [apply nth_setn_same; exact Hi|apply nth_setn_other; congruence].
Qed.
Lemma length_set (x : list Z) i v : length (set x i v) = length x.
Proof. unfold set. destruct (i <? 0)%Z; [reflexivity|apply length_setn]. Qed.

Lemma R_set x a i v : R x a -> (i < n)%nat -> R (set x (Z.of_nat i) v) (upd a i (decode v)).
Proof.
  intros [Hl Hr] Hi. split; [rewrite length_set; exact Hl|].
  intros k Hk. rewrite get_set by lia. unfold upd. destruct (Nat.eqb k i); [reflexivity|apply Hr; exact Hk].
Qed.

Lemma R_mark js : forall x a, R x a -> (forall j, In j js -> (0 <= j < Z.of_nat n)%Z) ->
  R (mark_active active f x js) (mark a (map Z.to_nat js)).
Proof.
  induction js as [|j js IH]; intros x a HR Hjs; cbn [mark_active mark fold_left map]; [exact HR|].
  assert (Hj : (0 <= j < Z.of_nat n)%Z) by (apply Hjs; left; reflexivity).
  assert (Hjn : (Z.to_nat j < n)%nat) by lia.
  change (fold_left _ js ?y) with (mark_active active f y js).
  change (fold_left _ (map Z.to_nat js) ?y) with (mark y (map Z.to_nat js)).
  apply IH; [|intros j' Hj'; apply Hjs; right; exact Hj'].
  destruct HR as [Hl Hr]. pose proof (Hr (Z.to_nat j) Hjn) as E. rewrite Z2Nat.id in E by lia.
  destruct (Z.eqb_spec (get x j) active) as [Ea|Ea].
  - assert (Ha : a (Z.to_nat j) = Act) by (rewrite <- E; apply decode_Act; exact Ea).
    rewrite Ha. rewrite <- decode_f. rewrite <- (Z2Nat.id j) at 1 by lia. apply R_set; [split; assumption|exact Hjn].
  - assert (Ha : a (Z.to_nat j) <> Act) by (rewrite <- E; intro H; apply decode_Act in H; contradiction).
    destruct (a (Z.to_nat j)); [contradiction| |]; split; assumption.
Qed.

Lemma adj_in i : (i < n)%nat -> adj i = map Z.to_nat (nbrs Ap Aj (Z.of_nat i)).
Proof. intro H. unfold adj. destruct (Nat.ltb_spec i n); [reflexivity|lia]. Qed.

Lemma R_step x a N i : R x a -> (i < n)%nat ->
  R (fst (let '(x, N) := (x, N) in
          if negb (get x (Z.of_nat i) =? active)%Z then (x, N)
          else (mark_active active f (set x (Z.of_nat i) c) (nbrs Ap Aj (Z.of_nat i)), (N + 1)%Z)))
    (step adj a i).
Proof.
  intros HR Hi. destruct HR as [Hl Hr]. pose proof (Hr i Hi) as E. unfold step.
  destruct (Z.eqb_spec (get x (Z.of_nat i)) active) as [Ea|Ea]; cbn [negb fst].
  - assert (Ha : a i = Act) by (rewrite <- E; apply decode_Act; exact Ea). rewrite Ha.
    rewrite adj_in by exact Hi. apply R_mark; [|apply wf; exact Hi].
    rewrite <- decode_c. apply R_set; [split; assumption|exact Hi].
  - assert (Ha : a i <> Act) by (rewrite <- E; intro H; apply decode_Act in H; contradiction).
    destruct (a i); [contradiction| |]; split; assumption.
Qed.

Lemma zr_seq (k : nat) : zr 0 (Z.of_nat k) = map Z.of_nat (seq 0 k).
Proof.
  unfold zr. rewrite Z.sub_0_r, Nat2Z.id. apply map_ext. intros a. lia.
Qed.

Lemma R_fold : forall (l : list nat) x N a, (forall i, In i l -> (i < n)%nat) -> R x a ->
  R (fst (fold_left (fun (s : list Z * Z) i =>
            let '(x, N) := s in
            if negb (get x i =? active)%Z then (x, N)
            else (mark_active active f (set x i c) (nbrs Ap Aj i), (N + 1)%Z)) (map Z.of_nat l) (x, N)))
    (fold_left (step adj) l a).
Proof.
  induction l as [|i l IH]; intros x N a Hl HR; cbn [map fold_left]; [exact HR|].
  pose proof (R_step x a N i HR (Hl i (or_introl eq_refl))) as H1.
  cbn beta iota in H1.
  destruct (negb (get x (Z.of_nat i) =? active)%Z); cbn [fst] in H1;
    apply IH; try exact H1; intros k Hk; apply Hl; right; exact Hk.
Qed.

Theorem mis_serial_refines x0 a0 : R x0 a0 ->
  R (fst (mis_serial (Z.of_nat n) Ap Aj active c f x0)) (mis n adj a0).
Proof.
  intro HR. unfold mis_serial, mis. rewrite zr_seq. apply R_fold; [|exact HR].
  intros i Hi. apply in_seq in Hi. lia.
Qed.
End Sim.

Lemma nth_map_const {A B} (l : list A) (v d : B) k : (k < length l)%nat -> nth k (map (fun _ => v) l) d = v.
Proof. revert k; induction l as [|a l IH]; intros [|k] H; cbn in *; try lia; auto. apply IH; lia. Qed.

(* ---- the end-to-end statement about the executable model ---- *)
Section Main.
Variable n : nat.
Variables (Ap Aj : list Z) (active c f : Z).
Hypothesis Hac : active <> c.
Hypothesis Hfa : f <> active.
Hypothesis Hfc : f <> c.
Hypothesis wf : forall i, (i < n)%nat -> forall j, In j (nbrs Ap Aj (Z.of_nat i)) -> (0 <= j < Z.of_nat n)%Z.
(* symmetric pattern *)
Hypothesis sym : forall i j, (i < n)%nat -> (j < n)%nat ->
  In (Z.of_nat j) (nbrs Ap Aj (Z.of_nat i)) -> In (Z.of_nat i) (nbrs Ap Aj (Z.of_nat j)).

Lemma adj_lt i j : In j (adj n Ap Aj i) -> (j < n)%nat.
Proof.
  unfold adj. destruct (Nat.ltb_spec i n) as [Hlt|Hge]; [|intros []]. intro H. apply in_map_iff in H.
  destruct H as [z [<- Hz]]. pose proof (wf i Hlt z Hz). lia.
Qed.
Lemma in_adj i j : (i < n)%nat -> (In j (adj n Ap Aj i) <-> (j < n)%nat /\ In (Z.of_nat j) (nbrs Ap Aj (Z.of_nat i))).
Proof.
  intro Hi. rewrite adj_in by exact Hi. rewrite in_map_iff. split.
  - intros [z [<- Hz]]. pose proof (wf i Hi z Hz). split; [lia|]. rewrite Z2Nat.id by lia. exact Hz.
  - intros [Hj H]. exists (Z.of_nat j). split; [apply Nat2Z.id|exact H].
Qed.
Lemma adj_sym i j : In j (adj n Ap Aj i) -> In i (adj n Ap Aj j).
Proof.
  intro H. pose proof (adj_lt _ _ H) as Hj.
  assert (Hi : (i < n)%nat). { unfold adj in H. destruct (Nat.ltb_spec i n) as [Hlt|Hge]; [exact Hlt|destruct H]. }
  apply in_adj in H; [|exact Hi]. apply in_adj; [exact Hj|]. split; [exact Hi|]. apply sym; tauto.
Qed.

Theorem mis_serial_correct_csr :
  let x := fst (mis_serial (Z.of_nat n) Ap Aj active c f (fillz (Z.of_nat n) active)) in
  length x = n /\
  (* every vertex is decided: in the set (c) or excluded (not active) *)
  (forall i, (i < n)%nat -> get x (Z.of_nat i) <> active) /\
  (* independent *)
  (forall i j, (i < n)%nat -> (j < n)%nat -> get x (Z.of_nat i) = c -> get x (Z.of_nat j) = c ->
               In (Z.of_nat j) (nbrs Ap Aj (Z.of_nat i)) -> i = j) /\
  (* maximal: every vertex outside the set has a neighbour in it *)
  (forall i, (i < n)%nat -> get x (Z.of_nat i) <> c ->
             exists j, (j < n)%nat /\ In (Z.of_nat j) (nbrs Ap Aj (Z.of_nat i)) /\ get x (Z.of_nat j) = c).
Proof.
  intro x.
  assert (R0 : R n active c (fillz (Z.of_nat n) active) (fun _ => Act)).
  { split.
    - unfold fillz. rewrite map_length. unfold zr. rewrite map_length, seq_length. lia.
    - intros k Hk. unfold fillz, get. rewrite Nat2Z.id.
      rewrite nth_map_const by (unfold zr; rewrite map_length, seq_length; lia).
      apply decode_active; exact Hac. }
  pose proof (mis_serial_refines n Ap Aj active c f Hac Hfa Hfc wf _ _ R0) as [Hl Hr]. fold x in Hl, Hr.
  destruct (mis_serial_correct n (adj n Ap Aj) adj_sym (fun _ => Act) (fun _ => eq_refl)) as (Hd & Hi & Hm).
  split; [exact Hl|]. split; [|split].
  - intros i Hlt E. specialize (Hr i Hlt). rewrite E in Hr. rewrite (decode_active active c Hac) in Hr.
    destruct (Hd i Hlt) as [H|H]; congruence.
  - intros i j Hi' Hj' Ei Ej Hin. apply (Hi i j).
    + rewrite <- (Hr i Hi'). apply decode_C. exact Ei.
    + rewrite <- (Hr j Hj'). apply decode_C. exact Ej.
    + apply in_adj; [exact Hi'|]. split; assumption.
  - intros i Hlt Hne.
    assert (Hn : mis n (adj n Ap Aj) (fun _ => Act) i <> C).
    { rewrite <- (Hr i Hlt). intro H. apply decode_C in H. contradiction. }
    destruct (Hm i Hlt Hn) as (j & Hj & Hc). pose proof (adj_lt _ _ Hj) as Hjn.
    apply in_adj in Hj; [|exact Hlt]. exists j. split; [exact Hjn|]. split; [tauto|].
    rewrite <- (Hr j Hjn) in Hc. apply decode_C in Hc. exact Hc.
Qed.
End Main.
