(* C08: the fallback wrapper's residual history (proofs). *)
From Coq Require Import List Arith Bool Lia.
Import ListNotations.
Require Import PV.Model.Accel.

Lemma fallback_history_spec V F (rn : V -> F) x0 calls :
  fallback_history V F rn x0 calls =
  rn x0 :: map (fun c => match c with CbVec _ _ x => rn x | CbScalar _ _ s => s end) calls.
Proof.
  assert (G : forall cs acc, fold_left (wrapper_step V F rn) cs acc =
              acc ++ map (fun c => match c with CbVec _ _ x => rn x | CbScalar _ _ s => s end) cs).
  { induction cs as [|c cs IH]; intro acc; cbn [fold_left map]; [now rewrite app_nil_r|].
    rewrite IH. unfold wrapper_step. now rewrite <- app_assoc. }
  unfold fallback_history. rewrite G. reflexivity.
Qed.
Lemma history_populated V F (rn : V -> F) x0 calls :
  fallback_history V F rn x0 calls =
    rn x0 :: map (fun c => match c with CbVec _ _ x => rn x | CbScalar _ _ s => s end) calls /\
  length (fallback_history V F rn x0 calls) = S (length calls).
Proof.
  split; [apply fallback_history_spec|]. rewrite fallback_history_spec. cbn. now rewrite map_length.
Qed.
