From Coq Require Import List Bool.
Import ListNotations.
Require Import PV.Model.Cache.

Section P.
Variables (K Val Arg Out : Type) (keq : K -> K -> bool) (def : K -> Val) (uses : Arg -> list K) (out : Arg -> (K -> Val) -> Out).
Hypothesis keq_eq : forall a b, keq a b = true -> a = b.
Hypothesis out_ext : forall a f g, (forall k, f k = g k) -> out a f = out a g.
Notation fill := (fill K Val keq def).
Notation step := (step K Val Arg Out keq def uses out).
Notation run := (run K Val Arg Out keq def uses out).
Notation view := (view K Val def).

(* cache coherence: every filled entry holds its defining value *)
Definition coherent (s : K -> option Val) : Prop := forall k v, s k = Some v -> v = def k.

Lemma fill_coherent s k : coherent s -> coherent (fill s k).
Proof.
  intros H k' v. unfold Cache.fill. destruct (s k) eqn:E; [apply H|].
  destruct (keq k' k) eqn:Ek; [intro E'; injection E' as <-; apply keq_eq in Ek; subst; reflexivity|apply H].
Qed.
Lemma fold_fill_coherent ks : forall s, coherent s -> coherent (fold_left fill ks s).
Proof. induction ks as [|k ks IH]; intros s H; cbn; [exact H|]. apply IH, fill_coherent, H. Qed.
Lemma view_coherent s : coherent s -> forall k, view s k = def k.
Proof. intros H k. unfold Cache.view. destruct (s k) eqn:E; [apply H; exact E|reflexivity]. Qed.

Theorem step_spec s a : coherent s -> coherent (fst (step s a)) /\ snd (step s a) = out a def.
Proof.
  intro H. unfold Cache.step. cbn. split; [apply fold_fill_coherent, H|].
  apply out_ext. apply view_coherent. apply fold_fill_coherent, H.
Qed.
Lemma run_coherent ops : forall s, coherent s -> coherent (run s ops).
Proof. induction ops as [|a t IH]; intros s H; cbn; [exact H|]. apply IH. apply step_spec, H. Qed.

(* the result of an operation is the same whatever operations were performed before *)
Theorem history_independent ops a : snd (step (run (empty K Val) ops) a) = snd (step (empty K Val) a).
Proof.
  assert (E : coherent (empty K Val)) by (intros k v H; discriminate).
  rewrite (proj2 (step_spec _ a (run_coherent ops _ E))), (proj2 (step_spec _ a E)). reflexivity.
Qed.
End P.
