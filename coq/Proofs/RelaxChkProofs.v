From Coq Require Import ZArith List Bool Lia.
Import ListNotations.
Require Import PV.Base.Ops PV.Model.Relax PV.Model.RelaxChk.
Open Scope Z_scope.

Section P.
Context {F : Type} (o : Ops F).

Lemma getZ_Some {A} (l : list A) (i : Z) d : 0 <= i < Z.of_nat (length l) -> getZ l i = Some (nthZ l i d).
Proof.
  intros H. unfold getZ, nthZ. destruct (Z.ltb_spec i 0); [lia|].
  apply nth_error_nth'. lia.
Qed.
Lemma nth_error_Some' {A} (l : list A) (k : nat) d : (k < length l)%nat -> nth_error l k = Some (nth k l d).
Proof. intro H. apply nth_error_nth'. exact H. Qed.
Lemma length_upd' {A} (l : list A) i v : length (upd l i v) = length l.
Proof. revert i; induction l as [|h t IH]; intros [|i]; cbn; auto. Qed.
Lemma setZ_Some {A} (l : list A) (i : Z) v : 0 <= i < Z.of_nat (length l) -> setZ l i v = Some (upd l (Z.to_nat i) v).
Proof.
  intros H. unfold setZ. destruct (Z.ltb_spec i 0); [lia|].
  destruct (Nat.ltb_spec (Z.to_nat i) (length l)); [reflexivity|lia].
Qed.

(* structural validity of the CSR arrays and of the vectors *)
Record wf (n nnz : nat) (Ap Aj : list Z) (Ax x b : list F) : Prop := {
  wf_Ap_len : length Ap = S n;
  wf_Ap_rng : forall i, (i < n)%nat -> 0 <= nthZ Ap (Z.of_nat i) 0 <= nthZ Ap (Z.of_nat i + 1) 0 /\
                                       nthZ Ap (Z.of_nat i + 1) 0 <= Z.of_nat nnz;
  wf_Aj_len : length Aj = nnz;
  wf_Ax_len : length Ax = nnz;
  wf_Aj_rng : forall jj, (jj < nnz)%nat -> 0 <= nth jj Aj 0 < Z.of_nat n;
  wf_x_len : length x = n;
  wf_b_len : length b = n
}.

Lemma row_chk_ok n nnz Aj Ax (x : list F) i : length Aj = nnz -> length Ax = nnz -> length x = n ->
  (forall jj, (jj < nnz)%nat -> 0 <= nth jj Aj 0 < Z.of_nat n) ->
  forall cnt jj rs d, (jj + cnt <= nnz)%nat ->
  row_chk o Aj Ax x i jj cnt rs d = Some (row o Aj Ax x i jj cnt rs d).
Proof.
  intros HAj HAx Hx Hr. induction cnt as [|c IH]; intros jj rs d Hb; cbn [row_chk row]; [reflexivity|].
  rewrite (nth_error_Some' Aj jj 0) by lia. rewrite (nth_error_Some' Ax jj (zero o)) by lia. cbn [bind].
  destruct (i =? nth jj Aj 0); [apply IH; lia|].
  rewrite (getZ_Some x (nth jj Aj 0) (zero o)) by (rewrite Hx; apply Hr; lia). cbn [bind]. apply IH. lia.
Qed.

Lemma gs_row_chk_ok n nnz Ap Aj Ax x b i : wf n nnz Ap Aj Ax x b -> 0 <= i < Z.of_nat n ->
  gs_row_chk o Ap Aj Ax b x i = Some (gs_row o Ap Aj Ax b x i) /\ wf n nnz Ap Aj Ax (gs_row o Ap Aj Ax b x i) b.
Proof.
  intros W Hi. destruct W as [HApl HApr HAjl HAxl HAjr Hxl Hbl].
  pose proof (HApr (Z.to_nat i) ltac:(lia)) as R. rewrite Z2Nat.id in R by lia. destruct R as [[R0 R1] R2].
  unfold gs_row_chk, gs_row, row_of.
  rewrite (getZ_Some Ap i 0) by (rewrite HApl; lia). cbn [bind].
  rewrite (getZ_Some Ap (i + 1) 0) by (rewrite HApl; lia). cbn [bind].
  destruct (Z.ltb_spec (nthZ Ap i 0) 0); [lia|].
  rewrite (row_chk_ok n nnz Aj Ax x i HAjl HAxl Hxl HAjr) by lia. cbn [bind].
  destruct (row o Aj Ax x i _ _ _ _) as [rsum diag].
  destruct (isz o diag).
  - split; [reflexivity|]. constructor; assumption.
  - rewrite (getZ_Some b i (zero o)) by (rewrite Hbl; lia). cbn [bind].
    rewrite setZ_Some by (rewrite Hxl; lia). split; [reflexivity|].
    constructor; try assumption. rewrite length_upd'. exact Hxl.
Qed.

(* every access of the sweep stays inside its array: the checked kernel never fails and agrees
   with the unchecked one, for any list of rows inside [0, n) *)
Theorem gauss_seidel_safe n nnz Ap Aj Ax b : forall rows x, wf n nnz Ap Aj Ax x b ->
  (forall i, In i rows -> 0 <= i < Z.of_nat n) ->
  fold_left (fun ox i => bind ox (fun x => gs_row_chk o Ap Aj Ax b x i)) rows (Some x) =
  Some (fold_left (fun x i => gs_row o Ap Aj Ax b x i) rows x).
Proof.
  induction rows as [|i rows IH]; intros x W Hr; cbn [fold_left]; [reflexivity|].
  destruct (gs_row_chk_ok n nnz Ap Aj Ax x b i W (Hr i (or_introl eq_refl))) as [E W'].
  cbn [bind]. rewrite E. apply IH; [exact W'|]. intros k Hk. apply Hr. right; exact Hk.
Qed.

(* the ranges the Python callers produce: forward (0, n, 1) and backward (n-1, -1, -1) *)
Lemma loop_idx_forward (n : nat) i : In i (loop_idx 0 (Z.of_nat n) 1) -> 0 <= i < Z.of_nat n.
Proof.
  unfold loop_idx. change (1 =? 0) with false. cbv iota.
  assert (E : Z.to_nat ((Z.of_nat n - 0) / 1) = n) by (rewrite Z.sub_0_r, Z.div_1_r; apply Nat2Z.id).
  rewrite E. intro H. apply in_map_iff in H. destruct H as [k [<- Hk]]. apply in_seq in Hk. lia.
Qed.
Lemma loop_idx_backward (n : nat) i : In i (loop_idx (Z.of_nat n - 1) (-1) (-1)) -> 0 <= i < Z.of_nat n.
Proof.
  unfold loop_idx. change (-1 =? 0) with false. cbv iota.
  assert (E : Z.to_nat ((-1 - (Z.of_nat n - 1)) / -1) = n).
  { replace (-1 - (Z.of_nat n - 1)) with (- Z.of_nat n) by lia. change (-1) with (- (1)).
    rewrite Z.div_opp_opp by lia. rewrite Z.div_1_r. apply Nat2Z.id. }
  rewrite E. intro H. apply in_map_iff in H. destruct H as [k [<- Hk]]. apply in_seq in Hk. lia.
Qed.

Corollary gauss_seidel_forward_backward_safe n nnz Ap Aj Ax x b : wf n nnz Ap Aj Ax x b ->
  gauss_seidel_chk o Ap Aj Ax x b 0 (Z.of_nat n) 1 = Some (gauss_seidel o Ap Aj Ax x b 0 (Z.of_nat n) 1) /\
  gauss_seidel_chk o Ap Aj Ax x b (Z.of_nat n - 1) (-1) (-1) = Some (gauss_seidel o Ap Aj Ax x b (Z.of_nat n - 1) (-1) (-1)).
Proof.
  intro W. split; apply gauss_seidel_safe with (n := n) (nnz := nnz); try exact W;
    [apply loop_idx_forward|apply loop_idx_backward].
Qed.

(* ---- SOR ---- *)
Lemma sor_row_chk_ok n nnz omega Ap Aj Ax x b i : wf n nnz Ap Aj Ax x b -> 0 <= i < Z.of_nat n ->
  sor_row_chk o omega Ap Aj Ax b x i = Some (sor_row o omega Ap Aj Ax b x i) /\ wf n nnz Ap Aj Ax (sor_row o omega Ap Aj Ax b x i) b.
Proof.
  intros W Hi. destruct W as [HApl HApr HAjl HAxl HAjr Hxl Hbl].
  pose proof (HApr (Z.to_nat i) ltac:(lia)) as R. rewrite Z2Nat.id in R by lia. destruct R as [[R0 R1] R2].
  unfold sor_row_chk, sor_row, row_of.
  rewrite (getZ_Some Ap i 0) by (rewrite HApl; lia). cbn [bind].
  rewrite (getZ_Some Ap (i + 1) 0) by (rewrite HApl; lia). cbn [bind].
  destruct (Z.ltb_spec (nthZ Ap i 0) 0); [lia|].
  rewrite (row_chk_ok n nnz Aj Ax x i HAjl HAxl Hxl HAjr) by lia. cbn [bind].
  destruct (row o Aj Ax x i _ _ _ _) as [rsum diag].
  destruct (isz o diag).
  - split; [reflexivity|]. constructor; assumption.
  - rewrite (getZ_Some b i (zero o)) by (rewrite Hbl; lia). cbn [bind].
    rewrite (getZ_Some x i (zero o)) by (rewrite Hxl; lia). cbn [bind].
    rewrite setZ_Some by (rewrite Hxl; lia). split; [reflexivity|].
    constructor; try assumption. rewrite length_upd'. exact Hxl.
Qed.
Theorem sor_safe n nnz omega Ap Aj Ax b : forall rows x, wf n nnz Ap Aj Ax x b ->
  (forall i, In i rows -> 0 <= i < Z.of_nat n) ->
  fold_left (fun ox i => bind ox (fun x => sor_row_chk o omega Ap Aj Ax b x i)) rows (Some x) =
  Some (fold_left (fun x i => sor_row o omega Ap Aj Ax b x i) rows x).
Proof.
  induction rows as [|i rows IH]; intros x W Hr; cbn [fold_left]; [reflexivity|].
  destruct (sor_row_chk_ok n nnz omega Ap Aj Ax x b i W (Hr i (or_introl eq_refl))) as [E W'].
  cbn [bind]. rewrite E. apply IH; [exact W'|]. intros k Hk. apply Hr. right; exact Hk.
Qed.

(* ---- Jacobi ---- *)
Lemma copy_rows_chk_ok (n : nat) (x : list F) : length x = n -> forall rows temp, length temp = n ->
  (forall i, In i rows -> 0 <= i < Z.of_nat n) ->
  copy_rows_chk x temp rows = Some (copy_rows o x temp rows) /\ length (copy_rows o x temp rows) = n.
Proof.
  intros Hx. unfold copy_rows_chk, copy_rows.
  induction rows as [|i rows IH]; intros temp Ht Hr; cbn [fold_left]; [split; [reflexivity|exact Ht]|].
  pose proof (Hr i (or_introl eq_refl)) as Hi. cbn [bind].
  rewrite (getZ_Some x i (zero o)) by (rewrite Hx; lia). cbn [bind].
  rewrite setZ_Some by (rewrite Ht; lia).
  apply IH; [rewrite length_upd'; exact Ht|]. intros k Hk. apply Hr. right; exact Hk.
Qed.
Lemma jac_row_chk_ok n nnz omega Ap Aj Ax x b temp i : wf n nnz Ap Aj Ax x b -> length temp = n -> 0 <= i < Z.of_nat n ->
  jac_row_chk o omega Ap Aj Ax b temp x i = Some (jac_row o omega Ap Aj Ax b temp x i) /\
  wf n nnz Ap Aj Ax (jac_row o omega Ap Aj Ax b temp x i) b.
Proof.
  intros W Ht Hi. destruct W as [HApl HApr HAjl HAxl HAjr Hxl Hbl].
  pose proof (HApr (Z.to_nat i) ltac:(lia)) as R. rewrite Z2Nat.id in R by lia. destruct R as [[R0 R1] R2].
  unfold jac_row_chk, jac_row, row_of.
  rewrite (getZ_Some Ap i 0) by (rewrite HApl; lia). cbn [bind].
  rewrite (getZ_Some Ap (i + 1) 0) by (rewrite HApl; lia). cbn [bind].
  destruct (Z.ltb_spec (nthZ Ap i 0) 0); [lia|].
  rewrite (row_chk_ok n nnz Aj Ax temp i HAjl HAxl Ht HAjr) by lia. cbn [bind].
  destruct (row o Aj Ax temp i _ _ _ _) as [rsum diag].
  destruct (isz o diag).
  - split; [reflexivity|]. constructor; assumption.
  - rewrite (getZ_Some b i (zero o)) by (rewrite Hbl; lia). cbn [bind].
    rewrite (getZ_Some temp i (zero o)) by (rewrite Ht; lia). cbn [bind].
    rewrite setZ_Some by (rewrite Hxl; lia). split; [reflexivity|].
    constructor; try assumption. rewrite length_upd'. exact Hxl.
Qed.
Lemma jac_fold_safe n nnz omega Ap Aj Ax b temp : length temp = n -> forall rows x, wf n nnz Ap Aj Ax x b ->
  (forall i, In i rows -> 0 <= i < Z.of_nat n) ->
  fold_left (fun ox i => bind ox (fun x => jac_row_chk o omega Ap Aj Ax b temp x i)) rows (Some x) =
  Some (fold_left (fun x i => jac_row o omega Ap Aj Ax b temp x i) rows x).
Proof.
  intro Ht. induction rows as [|i rows IH]; intros x W Hr; cbn [fold_left]; [reflexivity|].
  destruct (jac_row_chk_ok n nnz omega Ap Aj Ax x b temp i W Ht (Hr i (or_introl eq_refl))) as [E W'].
  cbn [bind]. rewrite E. apply IH; [exact W'|]. intros k Hk. apply Hr. right; exact Hk.
Qed.
Theorem jacobi_safe n nnz omega Ap Aj Ax x b temp start stop step : wf n nnz Ap Aj Ax x b -> length temp = n ->
  (forall i, In i (loop_idx start stop step) -> 0 <= i < Z.of_nat n) ->
  jacobi_chk o Ap Aj Ax x b temp start stop step omega = Some (jacobi o Ap Aj Ax x b temp start stop step omega).
Proof.
  intros W Ht Hr. unfold jacobi_chk, jacobi.
  destruct (copy_rows_chk_ok n x (wf_x_len _ _ _ _ _ _ _ W) _ temp Ht Hr) as [E L]. rewrite E. cbn [bind].
  apply jac_fold_safe with (n := n) (nnz := nnz); assumption.
Qed.
End P.
