(* C19: the CSC scaling kernels and the diagonal-relative row filter satisfy their definitions, for every
   structurally valid matrix of any size, over any scalar type (scaling) / any field (lumping). *)
From Coq Require Import ZArith List Bool Lia Ring.
Import ListNotations.
Require Import PV.Base.Ops PV.Model.Utils.
Open Scope Z_scope.

Lemma nth_upd_same {A} (l : list A) i v d : (i < length l)%nat -> nth i (upd l i v) d = v.
Proof. revert i; induction l as [|h t IH]; intros [|i] H; cbn in *; try lia; auto. apply IH; lia. Qed.
Lemma nth_upd_other {A} (l : list A) i k v d : i <> k -> nth k (upd l i v) d = nth k l d.
Proof. revert i k; induction l as [|h t IH]; intros [|i] [|k] H; cbn; auto; try congruence. Qed.
Lemma length_upd {A} (l : list A) i v : length (upd l i v) = length l.
Proof. revert i; induction l as [|h t IH]; intros [|i]; cbn; auto. Qed.
Lemma length_updZ {A} (l : list A) i v : length (updZ l i v) = length l.
Proof. unfold updZ. destruct (i <? 0); [reflexivity|apply length_upd]. Qed.
Lemma nthZ_updZ_same {A} (l : list A) i v d : 0 <= i < Z.of_nat (length l) -> nthZ (updZ l i v) i d = v.
Proof. intro H. unfold nthZ, updZ. destruct (Z.ltb_spec i 0); [lia|]. apply nth_upd_same. lia. Qed.
Lemma nthZ_updZ_other {A} (l : list A) i k v d : 0 <= i -> 0 <= k -> i <> k -> nthZ (updZ l i v) k d = nthZ l k d.
Proof. intros Hi Hk Hne. unfold nthZ, updZ. destruct (Z.ltb_spec i 0); [lia|]. apply nth_upd_other. lia. Qed.
Lemma in_zrange a b k : In k (zrange a b) <-> a <= k < b.
Proof.
  unfold zrange, zseq. split.
  - intro H. apply in_map_iff in H. destruct H as [q [<- Hq]]. apply in_seq in Hq. lia.
  - intro H. apply in_map_iff. exists (Z.to_nat (k - a)). split; [lia|apply in_seq; lia].
Qed.
Lemma zrange_split a b : a < b -> zrange a b = a :: zrange (a + 1) b.
Proof.
  intro H. unfold zrange, zseq. replace (Z.to_nat (b - a)) with (S (Z.to_nat (b - (a + 1)))) by lia.
  cbn [seq map]. f_equal; [lia|]. rewrite <- seq_shift, map_map. apply map_ext. intro k. lia.
Qed.
Lemma zrange_nil a b : b <= a -> zrange a b = [].
Proof. intro H. unfold zrange, zseq. replace (Z.to_nat (b - a)) with 0%nat by lia. reflexivity. Qed.

Section S.
Context {F : Type} (o : Ops F).
Notation gv := (gV o).

(* a pointwise in-place update of the entries lo, lo+1, ..., hi-1 *)
Lemma pointwise_fold (f : Z -> F -> F) : forall (len : nat) (lo : Z) (ax : list F),
  0 <= lo -> lo + Z.of_nat len <= Z.of_nat (length ax) ->
  let ax' := fold_left (fun ax i => updZ ax i (f i (gv ax i))) (zseq lo len) ax in
  length ax' = length ax /\
  (forall k, lo <= k < lo + Z.of_nat len -> gv ax' k = f k (gv ax k)) /\
  (forall k, 0 <= k -> ~ (lo <= k < lo + Z.of_nat len) -> gv ax' k = gv ax k).
Proof.
  induction len as [|len IH]; intros lo ax Hlo Hb.
  - cbn. repeat split; auto. intros k Hk. lia.
  - change (zseq lo (S len)) with (map (fun k => lo + Z.of_nat k) (seq 0 (S len))). cbn [seq map fold_left].
    replace (lo + Z.of_nat 0) with lo by lia.
    assert (E : map (fun k => lo + Z.of_nat k) (seq 1 len) = zseq (lo + 1) len).
    { unfold zseq. rewrite <- seq_shift, map_map. apply map_ext. intro k. lia. }
    rewrite E.
    set (ax1 := updZ ax lo (f lo (gv ax lo))).
    destruct (IH (lo + 1) ax1 ltac:(lia) ltac:(unfold ax1; rewrite length_updZ; lia)) as (L & A & B).
    unfold ax1 in *. rewrite length_updZ in *. repeat split.
    + exact L.
    + intros k Hk. destruct (Z.eq_dec k lo) as [->|Hne].
      * rewrite B by lia. unfold gV. apply nthZ_updZ_same. lia.
      * rewrite A by lia. unfold gV. rewrite nthZ_updZ_other by lia. reflexivity.
    + intros k Hk Hn. rewrite B by lia. unfold gV. apply nthZ_updZ_other; lia.
Qed.

(* csc_scale_rows: entry i of the data array is multiplied by the scale of its row index *)
Theorem csc_scale_rows_spec ncol Ap Aj Ax Xx : 0 <= gI Ap ncol <= Z.of_nat (length Ax) ->
  let ax' := csc_scale_rows o ncol Ap Aj Ax Xx in
  length ax' = length Ax /\
  (forall i, 0 <= i < gI Ap ncol -> gv ax' i = mul o (gv Ax i) (gv Xx (gI Aj i))) /\
  (forall i, gI Ap ncol <= i -> gv ax' i = gv Ax i).
Proof.
  intro H. unfold csc_scale_rows, zrange. rewrite Z.sub_0_r.
  destruct (pointwise_fold (fun i a => mul o a (gv Xx (gI Aj i))) (Z.to_nat (gI Ap ncol)) 0 Ax ltac:(lia) ltac:(lia)) as (L & A & B).
  repeat split.
  - exact L.
  - intros i Hi. apply A. lia.
  - intros i Hi. apply B; lia.
Qed.

(* csc_scale_columns: every entry of column c is multiplied by the scale of column c *)
Theorem csc_scale_columns_spec (ncol : nat) Ap Ax Xx :
  gI Ap 0 = 0 -> (forall c, 0 <= c < Z.of_nat ncol -> gI Ap c <= gI Ap (c + 1)) -> gI Ap (Z.of_nat ncol) <= Z.of_nat (length Ax) ->
  let ax' := csc_scale_columns o (Z.of_nat ncol) Ap Ax Xx in
  length ax' = length Ax /\
  (forall c jj, 0 <= c < Z.of_nat ncol -> gI Ap c <= jj < gI Ap (c + 1) -> gv ax' jj = mul o (gv Ax jj) (gv Xx c)) /\
  (forall jj, gI Ap (Z.of_nat ncol) <= jj -> gv ax' jj = gv Ax jj).
Proof.
  intros H0 Hm Hb. unfold csc_scale_columns, zrange. rewrite Z.sub_0_r, Nat2Z.id.
  (* generalise over the number of processed columns *)
  assert (G : forall (k : nat), (k <= ncol)%nat ->
     let ax' := fold_left (fun ax i => fold_left (fun ax jj => updZ ax jj (mul o (gv ax jj) (gv Xx i))) (zseq (gI Ap i) (Z.to_nat (gI Ap (i + 1) - gI Ap i))) ax) (zseq 0 k) Ax in
     length ax' = length Ax /\
     (forall c jj, 0 <= c < Z.of_nat k -> gI Ap c <= jj < gI Ap (c + 1) -> gv ax' jj = mul o (gv Ax jj) (gv Xx c)) /\
     (forall jj, gI Ap (Z.of_nat k) <= jj -> gv ax' jj = gv Ax jj)).
  { assert (Mono : forall a b : nat, (a <= b <= ncol)%nat -> gI Ap (Z.of_nat a) <= gI Ap (Z.of_nat b)).
    { intros a b [Hab Hbn]. induction Hab as [|b Hab IH]; [lia|]. specialize (IH ltac:(lia)).
      pose proof (Hm (Z.of_nat b) ltac:(lia)). replace (Z.of_nat (S b)) with (Z.of_nat b + 1) by lia. lia. }
    assert (Pos : forall a : nat, (a <= ncol)%nat -> 0 <= gI Ap (Z.of_nat a)) by (intros a Ha; rewrite <- H0; apply (Mono 0%nat a); lia).
    induction k as [|k IH]; intro Hk.
    - cbn. repeat split; auto. intros c jj Hc. lia.
    - unfold zseq. rewrite seq_S, map_app, fold_left_app. cbn [map fold_left]. fold (zseq 0 k).
      replace (0 + Z.of_nat (0 + k)) with (Z.of_nat k) by lia.
      destruct (IH ltac:(lia)) as (L & A & B).
      set (axk := fold_left _ (zseq 0 k) Ax) in *.
      pose proof (Hm (Z.of_nat k) ltac:(lia)) as Mk. pose proof (Pos k ltac:(lia)) as Pk.
      pose proof (Mono (S k) ncol ltac:(lia)) as Mn. replace (Z.of_nat (S k)) with (Z.of_nat k + 1) in Mn by lia.
      destruct (pointwise_fold (fun jj a => mul o a (gv Xx (Z.of_nat k))) (Z.to_nat (gI Ap (Z.of_nat k + 1) - gI Ap (Z.of_nat k))) (gI Ap (Z.of_nat k)) axk Pk ltac:(rewrite L; lia)) as (L' & A' & B').
      rewrite L in L'. repeat split.
      + exact L'.
      + intros c jj Hc Hjj. destruct (Z.eq_dec c (Z.of_nat k)) as [->|Hne].
        * rewrite A' by lia. rewrite B by lia. reflexivity.
        * assert (Hck : 0 <= c < Z.of_nat k) by lia.
          pose proof (Mono (Z.to_nat (c + 1)) k ltac:(lia)) as M2. rewrite Z2Nat.id in M2 by lia.
          pose proof (Pos (Z.to_nat c) ltac:(lia)) as Pc. rewrite Z2Nat.id in Pc by lia.
          rewrite B' by lia. apply A; assumption.
      + intros jj Hjj. replace (Z.of_nat (S k)) with (Z.of_nat k + 1) in Hjj by lia.
        rewrite B' by lia. apply B. lia. }
  apply (G ncol). lia.
Qed.

(* a conditional in-place reset of the entries lo .. lo+len-1 *)
Lemma cond_fold (p : Z -> F -> bool) (z : F) : forall (len : nat) (lo : Z) (ax : list F),
  0 <= lo -> lo + Z.of_nat len <= Z.of_nat (length ax) ->
  let ax' := fold_left (fun ax jj => if p jj (gv ax jj) then updZ ax jj z else ax) (zseq lo len) ax in
  length ax' = length ax /\
  (forall k, lo <= k < lo + Z.of_nat len -> gv ax' k = if p k (gv ax k) then z else gv ax k) /\
  (forall k, 0 <= k -> ~ (lo <= k < lo + Z.of_nat len) -> gv ax' k = gv ax k).
Proof.
  induction len as [|len IH]; intros lo ax Hlo Hb.
  - cbn. repeat split; auto. intros k Hk. lia.
  - change (zseq lo (S len)) with (map (fun k => lo + Z.of_nat k) (seq 0 (S len))). cbn [seq map fold_left].
    replace (lo + Z.of_nat 0) with lo by lia.
    assert (E : map (fun k => lo + Z.of_nat k) (seq 1 len) = zseq (lo + 1) len).
    { unfold zseq. rewrite <- seq_shift, map_map. apply map_ext. intro k. lia. }
    rewrite E.
    set (ax1 := if p lo (gv ax lo) then updZ ax lo z else ax).
    assert (L1 : length ax1 = length ax) by (unfold ax1; destruct (p lo (gv ax lo)); [apply length_updZ|reflexivity]).
    assert (V1 : gv ax1 lo = if p lo (gv ax lo) then z else gv ax lo).
    { unfold ax1. destruct (p lo (gv ax lo)); [unfold gV; apply nthZ_updZ_same; lia|reflexivity]. }
    assert (O1 : forall k, 0 <= k -> k <> lo -> gv ax1 k = gv ax k).
    { intros k Hk Hne. unfold ax1. destruct (p lo (gv ax lo)); [unfold gV; apply nthZ_updZ_other; lia|reflexivity]. }
    destruct (IH (lo + 1) ax1 ltac:(lia) ltac:(rewrite L1; lia)) as (L & A & B).
    rewrite L1 in L. repeat split.
    + exact L.
    + intros k Hk. destruct (Z.eq_dec k lo) as [->|Hne].
      * rewrite B by lia. exact V1.
      * rewrite A by lia. rewrite O1 by lia. reflexivity.
    + intros k Hk Hn. rewrite B by lia. apply O1; lia.
Qed.

(* filter_matrix_rows without lumping: in row i every entry with |a| < theta |a_ii| is set to zero (a_ii = the first
   stored diagonal entry of the row, 0 if none), nothing else changes -- any valid CSR matrix of any size *)
Definition row_thr (theta : F) (Ap Aj : list Z) (Ax : list F) (i : Z) : F :=
  let dind := match find (fun jj => gI Aj jj =? i) (zrange (gI Ap i) (gI Ap (i + 1))) with Some jj => jj | None => -1 end in
  mul o theta (if dind =? -1 then zero o else abs o (gv Ax dind)).
Lemma filter_row_spec theta Ap Aj ax i : 0 <= gI Ap i -> gI Ap i <= gI Ap (i + 1) <= Z.of_nat (length ax) ->
  let ax' := filter_row o theta false Ap Aj ax i in
  length ax' = length ax /\
  (forall jj, gI Ap i <= jj < gI Ap (i + 1) -> gv ax' jj = if ltb o (abs o (gv ax jj)) (row_thr theta Ap Aj ax i) then zero o else gv ax jj) /\
  (forall k, 0 <= k -> ~ (gI Ap i <= k < gI Ap (i + 1)) -> gv ax' k = gv ax k).
Proof.
  intros H0 H1. unfold filter_row, row_thr, zrange. cbn [negb orb].
  set (thr := mul o theta _).
  destruct (cond_fold (fun _ a => ltb o (abs o a) thr && true) (zero o) (Z.to_nat (gI Ap (i + 1) - gI Ap i)) (gI Ap i) ax H0 ltac:(lia)) as (L & A & B).
  repeat split.
  - exact L.
  - intros jj Hjj. rewrite A by lia. rewrite andb_true_r. reflexivity.
  - intros k Hk Hn. apply B; lia.
Qed.

Theorem filter_matrix_rows_spec (n : nat) theta Ap Aj Ax :
  gI Ap 0 = 0 -> (forall r, 0 <= r < Z.of_nat n -> gI Ap r <= gI Ap (r + 1)) -> gI Ap (Z.of_nat n) <= Z.of_nat (length Ax) ->
  let ax' := filter_matrix_rows o (Z.of_nat n) theta Ap Aj Ax false in
  length ax' = length Ax /\
  (forall r jj, 0 <= r < Z.of_nat n -> gI Ap r <= jj < gI Ap (r + 1) ->
     gv ax' jj = if ltb o (abs o (gv Ax jj)) (row_thr theta Ap Aj Ax r) then zero o else gv Ax jj) /\
  (forall jj, gI Ap (Z.of_nat n) <= jj -> gv ax' jj = gv Ax jj).
Proof.
  intros H0 Hm Hb. unfold filter_matrix_rows, zrange. rewrite Z.sub_0_r, Nat2Z.id.
  assert (Mono : forall a b : nat, (a <= b <= n)%nat -> gI Ap (Z.of_nat a) <= gI Ap (Z.of_nat b)).
  { intros a b [Hab Hbn]. induction Hab as [|b Hab IH]; [lia|]. specialize (IH ltac:(lia)).
    pose proof (Hm (Z.of_nat b) ltac:(lia)). replace (Z.of_nat (S b)) with (Z.of_nat b + 1) by lia. lia. }
  assert (Pos : forall a : nat, (a <= n)%nat -> 0 <= gI Ap (Z.of_nat a)) by (intros a Ha; rewrite <- H0; apply (Mono 0%nat a); lia).
  assert (G : forall (k : nat), (k <= n)%nat ->
     let ax' := fold_left (filter_row o theta false Ap Aj) (zseq 0 k) Ax in
     length ax' = length Ax /\
     (forall r jj, 0 <= r < Z.of_nat k -> gI Ap r <= jj < gI Ap (r + 1) ->
        gv ax' jj = if ltb o (abs o (gv Ax jj)) (row_thr theta Ap Aj Ax r) then zero o else gv Ax jj) /\
     (forall jj, gI Ap (Z.of_nat k) <= jj -> gv ax' jj = gv Ax jj)).
  { induction k as [|k IH]; intro Hk.
    - cbn. repeat split; auto. intros r jj Hr. lia.
    - unfold zseq. rewrite seq_S, map_app, fold_left_app. cbn [map fold_left]. fold (zseq 0 k).
      replace (0 + Z.of_nat (0 + k)) with (Z.of_nat k) by lia.
      destruct (IH ltac:(lia)) as (L & A & B).
      set (axk := fold_left _ (zseq 0 k) Ax) in *.
      pose proof (Hm (Z.of_nat k) ltac:(lia)) as Mk. pose proof (Pos k ltac:(lia)) as Pk.
      pose proof (Mono (S k) n ltac:(lia)) as Mn. replace (Z.of_nat (S k)) with (Z.of_nat k + 1) in Mn by lia.
      destruct (filter_row_spec theta Ap Aj axk (Z.of_nat k) Pk ltac:(rewrite L; lia)) as (L' & A' & B').
      rewrite L in L'.
      (* the threshold of row k is computed from entries of row k, which are still the original ones *)
      assert (Thr : row_thr theta Ap Aj axk (Z.of_nat k) = row_thr theta Ap Aj Ax (Z.of_nat k)).
      { unfold row_thr. destruct (find _ _) as [d|] eqn:Fd; [|reflexivity].
        apply find_some in Fd. destruct Fd as [Fd _]. apply in_zrange in Fd.
        destruct (d =? -1); [reflexivity|]. rewrite B by lia. reflexivity. }
      repeat split.
      + exact L'.
      + intros r jj Hr Hjj. destruct (Z.eq_dec r (Z.of_nat k)) as [->|Hne].
        * rewrite A' by lia. rewrite Thr. rewrite B by lia. reflexivity.
        * assert (Hrk : 0 <= r < Z.of_nat k) by lia.
          pose proof (Mono (Z.to_nat (r + 1)) k ltac:(lia)) as M2. rewrite Z2Nat.id in M2 by lia.
          pose proof (Pos (Z.to_nat r) ltac:(lia)) as Pr. rewrite Z2Nat.id in Pr by lia.
          rewrite B' by lia. apply A; assumption.
      + intros jj Hjj. replace (Z.of_nat (S k)) with (Z.of_nat k + 1) in Hjj by lia.
        rewrite B' by lia. apply B. lia. }
  apply (G n). lia.
Qed.
End S.
