#!/bin/bash
# MANIFEST.setup_cmd: build the framework from files on disk only (offline).
set -e
cd /verif
export PYTHONPATH=/verif:/repo PYTHONHASHSEED=0 PYTHONWARNINGS=ignore
# 1. grep gate (no Admitted/admit/Axiom/Parameter/... anywhere in the development)
/venv/bin/python -c "
from pv import core
import sys
g = core.gate()
print('gate:', 'clean' if not g else g)
sys.exit(1 if g else 0)"
# 2. full .vo build of the Coq development
cd /verif/coq
coq_makefile -f _CoqProject -o Makefile > /dev/null
timeout 3000 make -j16 > /verif/build-coq.log 2>&1 || { tail -40 /verif/build-coq.log; exit 1; }
cd /verif
mkdir -p build evidence replays
mv -f build-coq.log build/coq.log
# 3. native kernels of /repo's working tree through the minipb stand-in
CORE=$(/venv/bin/python native/build_core.py)
echo "native core: $CORE"
ASAN=$(/venv/bin/python native/build_core.py --asan)
echo "native core (ASan+UBSan, C17): $ASAN"
# 4. plumbing self-check: the rebuilt kernels are the ones imported under the hook
PYAMG_VERIF_CORE_DIR=$CORE /venv/bin/python -c "
import pyamg.amg_core.relaxation as r, pyamg
assert r.__minipb__ and r.__file__.startswith('$CORE'), r.__file__
print('hook ok:', r.__file__)" 2>&1 | grep -v conda
echo "setup done"
