#!/usr/bin/env python3
"""Rebuild pyamg's native extension modules from /repo's *working tree*.

The in-tree *.so files are stale git-ignored binaries and pybind11 is not
installed, so an edit to amg_core/*.h would otherwise never be executed.  The
unchanged `*_bind.cpp` files are compiled against `native/minipb` (a minimal
pybind11 stand-in) into real CPython extension modules with the same names,
placed in /verif/build/core/<hash>/ and selected through the guarded hook
PYAMG_VERIF_CORE_DIR.  The directory is keyed by a hash of every input of the
build, so a changed header always gives a fresh build and an unchanged tree
costs nothing.

usage: build_core.py [--asan] [--repo /repo]   -> prints the directory
"""
import hashlib
import time
import os
import subprocess
import sys
import sysconfig
import shutil
from concurrent.futures import ThreadPoolExecutor

HERE = os.path.dirname(os.path.abspath(__file__))
VERIF = os.path.dirname(HERE)
MODS = ['air', 'evolution_strength', 'graph', 'krylov', 'linalg', 'relaxation',
        'ruge_stuben', 'smoothed_aggregation']
PY = '/venv/bin/python'


def py_info():
    out = subprocess.check_output(
        [PY, '-c', "import sysconfig;print(sysconfig.get_paths()['include']);"
                   "print(sysconfig.get_config_var('EXT_SUFFIX'))"],
        text=True).split('\n')
    return out[0].strip(), out[1].strip()


def tree_hash(core, flags):
    h = hashlib.sha256()
    h.update(' '.join(flags).encode())
    for root in (core, os.path.join(HERE, 'minipb', 'pybind11')):
        for fn in sorted(os.listdir(root)):
            if fn.endswith(('.h', '.cpp')):
                h.update(fn.encode())
                with open(os.path.join(root, fn), 'rb') as f:
                    h.update(f.read())
    return h.hexdigest()[:16]


def build(repo='/repo', asan=False, quiet=True):
    core = os.path.join(repo, 'pyamg', 'amg_core')
    inc, suf = py_info()
    if asan:
        flags = ['g++', '-O1', '-g', '-fno-omit-frame-pointer',
                 '-fsanitize=address,undefined', '-fno-sanitize-recover=undefined']
    else:
        flags = ['g++', '-O2']
    flags += ['-shared', '-fPIC', '-std=c++17', '-fno-fast-math', '-ffp-contract=off',
              '-I', os.path.join(HERE, 'minipb'), '-I', inc, '-I', core]
    # (the hash covers the compiler options and every source file, not the location of the checkout)
    tag = tree_hash(core, [f for f in flags if not f.startswith('/')]) + ('-asan' if asan else '')
    out = os.path.join(VERIF, 'build', 'core', tag)
    stamp = os.path.join(out, 'OK')
    if os.path.exists(stamp):
        try:
            os.utime(out, None)          # recently used builds are evicted last
        except OSError:
            pass
        return out
    # build in a private directory and publish it with one rename, so that concurrent checks that need the
    # same build never see (or delete) a half-written one
    final = out
    out = '%s.tmp%d' % (final, os.getpid())
    if os.path.isdir(out):
        shutil.rmtree(out)
    os.makedirs(out)

    def one(m):
        src = os.path.join(core, m + '_bind.cpp')
        if not os.path.exists(src):
            return m, 1, 'missing ' + src
        p = subprocess.run(flags + [src, '-o', os.path.join(out, m + suf)],
                           capture_output=True, text=True)
        return m, p.returncode, p.stderr[-4000:]
    with ThreadPoolExecutor(8) as ex:
        res = list(ex.map(one, MODS))
    bad = [(m, e) for m, rc, e in res if rc != 0]
    if bad:
        for m, e in bad:
            sys.stderr.write('build_core: %s failed\n%s\n' % (m, e))
        shutil.rmtree(out, ignore_errors=True)
        raise SystemExit(3)
    open(os.path.join(out, 'OK'), 'w').write('ok\n')
    try:
        os.rename(out, final)
    except OSError:
        shutil.rmtree(out, ignore_errors=True)      # somebody else published the same build first
    out = final
    # keep at most 12 cached builds, but never evict one used within the last 8 hours: a concurrent check may
    # still be running on it (a sanitizer report is symbolized from the files at process exit)
    base = os.path.dirname(out)
    now = time.time()
    dirs = sorted((os.path.getmtime(os.path.join(base, d)), d) for d in os.listdir(base))
    for mt, d in dirs[:-12]:
        if now - mt > 8 * 3600:
            shutil.rmtree(os.path.join(base, d), ignore_errors=True)
    return out


if __name__ == '__main__':
    repo = '/repo'
    if '--repo' in sys.argv:
        repo = sys.argv[sys.argv.index('--repo') + 1]
    print(build(repo, asan='--asan' in sys.argv))
