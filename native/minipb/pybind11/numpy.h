#pragma once
#include "pybind11.h"
