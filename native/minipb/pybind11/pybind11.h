// minipb: a minimal stand-in for the subset of pybind11 that pyamg's generated
// *_bind.cpp files use.  pybind11 itself is not installed in this sandbox, so
// the real extension modules cannot be rebuilt; with this header the
// *unchanged* bind files of the working tree compile into CPython extension
// modules with the same names, functions, argument names and overload
// resolution (array arguments: exact dtype, no conversion; scalars: Python
// number conversion; overloads tried in registration order, first a
// no-convert pass, then a converting pass -- as pybind11 does).
//
// Only the CPython C API and the buffer protocol are used (no NumPy headers).
#pragma once
#include <Python.h>
#include <complex>
#include <cstring>
#include <map>
#include <memory>
#include <stdexcept>
#include <string>
#include <tuple>
#include <type_traits>
#include <utility>
#include <vector>
#include <iostream>
#include <algorithm>
#include <cmath>
#include <limits>

namespace pybind11 {

struct cast_error : std::runtime_error { using std::runtime_error::runtime_error; };

// ---------------------------------------------------------------- dtype tags
template <class T> struct fmt_of;
template <> struct fmt_of<int> { static bool ok(const Py_buffer &v) { return v.itemsize == 4 && v.format && (!strcmp(v.format, "i") || !strcmp(v.format, "l") || !strcmp(v.format, "=i") || !strcmp(v.format, "<i")); } };
template <> struct fmt_of<long> { static bool ok(const Py_buffer &v) { return v.itemsize == 8 && v.format && (!strcmp(v.format, "l") || !strcmp(v.format, "q") || !strcmp(v.format, "<q")); } };
template <> struct fmt_of<float> { static bool ok(const Py_buffer &v) { return v.itemsize == 4 && v.format && (!strcmp(v.format, "f") || !strcmp(v.format, "<f")); } };
template <> struct fmt_of<double> { static bool ok(const Py_buffer &v) { return v.itemsize == 8 && v.format && (!strcmp(v.format, "d") || !strcmp(v.format, "<d")); } };
template <> struct fmt_of<std::complex<float>> { static bool ok(const Py_buffer &v) { return v.itemsize == 8 && v.format && (!strcmp(v.format, "Zf") || !strcmp(v.format, "<Zf")); } };
template <> struct fmt_of<std::complex<double>> { static bool ok(const Py_buffer &v) { return v.itemsize == 16 && v.format && (!strcmp(v.format, "Zd") || !strcmp(v.format, "<Zd")); } };
template <> struct fmt_of<bool> { static bool ok(const Py_buffer &v) { return v.itemsize == 1 && v.format && !strcmp(v.format, "?"); } };
template <> struct fmt_of<char> { static bool ok(const Py_buffer &v) { return v.itemsize == 1 && v.format && (!strcmp(v.format, "b") || !strcmp(v.format, "c") || !strcmp(v.format, "B")); } };

inline bool is_ndarray(PyObject *o) {
    static PyObject *nd = nullptr;
    if (!nd) {
        PyObject *np = PyImport_ImportModule("numpy");
        if (!np) { PyErr_Clear(); return false; }
        nd = PyObject_GetAttrString(np, "ndarray");
        Py_DECREF(np);
        if (!nd) { PyErr_Clear(); return false; }
    }
    return PyObject_IsInstance(o, nd) == 1;
}

// -------------------------------------------------------------- array proxy
template <class T> struct unchecked_ref {
    T *p; Py_ssize_t n;
    const T *data() const { return p; }
    T *mutable_data() const { return p; }
};

template <class T> class array_t {
public:
    array_t() : held(false) { view.obj = nullptr; }
    array_t(const array_t &) = delete;
    array_t &operator=(const array_t &) = delete;
    ~array_t() { release(); }
    void release() { if (held) { PyBuffer_Release(&view); held = false; } }
    // exact-dtype load (the bind files mark every array argument noconvert)
    bool load(PyObject *o) {
        release();
        if (!is_ndarray(o)) return false;
        if (PyObject_GetBuffer(o, &view, PyBUF_STRIDES | PyBUF_FORMAT) != 0) { PyErr_Clear(); return false; }
        held = true;
        if (!fmt_of<T>::ok(view)) { release(); return false; }
        return true;
    }
    Py_ssize_t shape(int i) const {
        if (i < 0 || i >= view.ndim) throw std::out_of_range("invalid axis");
        return view.shape[i];
    }
    Py_ssize_t ndim() const { return view.ndim; }
    Py_ssize_t size() const { Py_ssize_t s = 1; for (int i = 0; i < view.ndim; i++) s *= view.shape[i]; return s; }
    unchecked_ref<const T> unchecked() const { return unchecked_ref<const T>{static_cast<const T *>(view.buf), size()}; }
    unchecked_ref<T> mutable_unchecked() {
        if (view.readonly) throw std::domain_error("array is not writeable");
        return unchecked_ref<T>{static_cast<T *>(view.buf), size()};
    }
    const T *data() const { return static_cast<const T *>(view.buf); }
    T *mutable_data() { if (view.readonly) throw std::domain_error("array is not writeable"); return static_cast<T *>(view.buf); }
private:
    Py_buffer view; bool held;
};

// ------------------------------------------------------------------- arg
struct arg {
    const char *name; bool nc;
    explicit arg(const char *n) : name(n), nc(false) {}
    arg &noconvert(bool f = true) { nc = f; return *this; }
};

struct options { void disable_function_signatures() {} void disable_user_defined_docstrings() {} void enable_function_signatures() {} };

// ------------------------------------------------------------ scalar casters
template <class T, class E = void> struct caster;

template <class T> struct caster<T, typename std::enable_if<std::is_integral<T>::value && !std::is_same<T, bool>::value && !std::is_same<T, char>::value>::type> {
    T value;
    bool load(PyObject *o, bool convert) {
        if (PyFloat_Check(o)) return false;
        if (!convert && !PyLong_Check(o) && !PyIndex_Check(o)) return false;
        PyObject *idx = PyNumber_Index(o);
        if (!idx) { PyErr_Clear(); if (!convert) return false; idx = PyNumber_Long(o); if (!idx) { PyErr_Clear(); return false; } }
        long long v = PyLong_AsLongLong(idx);
        Py_DECREF(idx);
        if (v == -1 && PyErr_Occurred()) { PyErr_Clear(); return false; }
        if (v < (long long)std::numeric_limits<T>::min() || v > (long long)std::numeric_limits<T>::max()) return false;
        value = (T)v; return true;
    }
    T &get() { return value; }
};
template <> struct caster<char> {
    char value;
    bool load(PyObject *o, bool) {
        if (!PyUnicode_Check(o)) return false;
        Py_ssize_t n = 0;
        const char *s = PyUnicode_AsUTF8AndSize(o, &n);
        if (!s) { PyErr_Clear(); return false; }
        if (n != 1) return false;
        value = s[0]; return true;
    }
    char &get() { return value; }
};
template <> struct caster<bool> {
    bool value;
    bool load(PyObject *o, bool convert) {
        if (o == Py_True) { value = true; return true; }
        if (o == Py_False) { value = false; return true; }
        if (convert || !strcmp("numpy.bool", Py_TYPE(o)->tp_name) || !strcmp("numpy.bool_", Py_TYPE(o)->tp_name)) {
            int r = PyObject_IsTrue(o);
            if (r < 0) { PyErr_Clear(); return false; }
            value = r != 0; return true;
        }
        return false;
    }
    bool &get() { return value; }
};
template <class T> struct caster<T, typename std::enable_if<std::is_floating_point<T>::value>::type> {
    T value;
    bool load(PyObject *o, bool convert) {
        if (!convert && !PyFloat_Check(o)) return false;
        double d = PyFloat_AsDouble(o);
        if (d == -1.0 && PyErr_Occurred()) { PyErr_Clear(); return false; }
        value = (T)d; return true;
    }
    T &get() { return value; }
};
template <class R> struct caster<std::complex<R>> {
    std::complex<R> value;
    bool load(PyObject *o, bool convert) {
        if (!convert && !PyComplex_Check(o)) return false;
        Py_complex c = PyComplex_AsCComplex(o);
        if (c.real == -1.0 && PyErr_Occurred()) { PyErr_Clear(); return false; }
        value = std::complex<R>((R)c.real, (R)c.imag); return true;
    }
    std::complex<R> &get() { return value; }
};
template <class T> struct caster<array_t<T>> {
    array_t<T> value;
    bool load(PyObject *o, bool) { return value.load(o); }
    array_t<T> &get() { return value; }
};

template <class T> using bare = typename std::remove_cv<typename std::remove_reference<T>::type>::type;

// ------------------------------------------------------------ return values
inline PyObject *to_py(int v) { return PyLong_FromLong(v); }
inline PyObject *to_py(long v) { return PyLong_FromLong(v); }
inline PyObject *to_py(long long v) { return PyLong_FromLongLong(v); }
inline PyObject *to_py(bool v) { return PyBool_FromLong(v); }
inline PyObject *to_py(float v) { return PyFloat_FromDouble(v); }
inline PyObject *to_py(double v) { return PyFloat_FromDouble(v); }
template <class R> inline PyObject *to_py(std::complex<R> v) { return PyComplex_FromDoubles(v.real(), v.imag()); }

// ---------------------------------------------------------------- overloads
struct overload_base {
    std::vector<arg> args;
    virtual ~overload_base() {}
    // returns nullptr without a Python error set when the arguments do not match
    virtual PyObject *try_call(PyObject *const *argv, bool convert) = 0;
    virtual size_t arity() const = 0;
};

template <class Ret, class... Args> struct overload : overload_base {
    Ret (*f)(Args...);
    explicit overload(Ret (*fp)(Args...)) : f(fp) {}
    size_t arity() const override { return sizeof...(Args); }
    template <size_t... Is> PyObject *go(PyObject *const *argv, bool convert, std::index_sequence<Is...>) {
        std::tuple<caster<bare<Args>>...> cs;
        bool ok[] = {true, std::get<Is>(cs).load(argv[Is], convert && !(Is < args.size() && args[Is].nc))...};
        for (bool b : ok) if (!b) return nullptr;
        return invoke(cs, std::index_sequence<Is...>{}, std::is_void<Ret>{});
    }
    template <class C, size_t... Is> PyObject *invoke(C &cs, std::index_sequence<Is...>, std::true_type) {
        f(std::get<Is>(cs).get()...);
        Py_RETURN_NONE;
    }
    template <class C, size_t... Is> PyObject *invoke(C &cs, std::index_sequence<Is...>, std::false_type) {
        return to_py(f(std::get<Is>(cs).get()...));
    }
    PyObject *try_call(PyObject *const *argv, bool convert) override {
        return go(argv, convert, std::index_sequence_for<Args...>{});
    }
};

struct function_record {
    std::string name;
    std::string doc;
    std::vector<std::unique_ptr<overload_base>> ovl;
    PyMethodDef def;
};

inline PyObject *dispatch(PyObject *self, PyObject *args, PyObject *kwargs) {
    function_record *rec = static_cast<function_record *>(PyCapsule_GetPointer(self, "minipb.function_record"));
    if (!rec) return nullptr;
    Py_ssize_t npos = PyTuple_GET_SIZE(args);
    Py_ssize_t nkw = kwargs ? PyDict_Size(kwargs) : 0;
    for (int pass = 0; pass < 2; pass++) {
        for (auto &o : rec->ovl) {
            size_t n = o->arity();
            if ((size_t)(npos + nkw) != n || (size_t)npos > n) continue;
            std::vector<PyObject *> argv(n, nullptr);
            for (Py_ssize_t i = 0; i < npos; i++) argv[i] = PyTuple_GET_ITEM(args, i);
            bool good = true;
            if (nkw) {
                Py_ssize_t used = 0;
                for (size_t i = npos; i < n; i++) {
                    if (i >= o->args.size()) { good = false; break; }
                    PyObject *v = PyDict_GetItemString(kwargs, o->args[i].name);
                    if (!v) { good = false; break; }
                    argv[i] = v; used++;
                }
                if (used != nkw) good = false;
            }
            if (!good) continue;
            try {
                PyObject *r = o->try_call(argv.data(), pass == 1);
                if (r) return r;
                if (PyErr_Occurred()) return nullptr;
            } catch (const std::bad_alloc &) { return PyErr_NoMemory();
            } catch (const std::domain_error &e) { PyErr_SetString(PyExc_ValueError, e.what()); return nullptr;
            } catch (const std::invalid_argument &e) { PyErr_SetString(PyExc_ValueError, e.what()); return nullptr;
            } catch (const std::length_error &e) { PyErr_SetString(PyExc_ValueError, e.what()); return nullptr;
            } catch (const std::out_of_range &e) { PyErr_SetString(PyExc_IndexError, e.what()); return nullptr;
            } catch (const std::range_error &e) { PyErr_SetString(PyExc_ValueError, e.what()); return nullptr;
            } catch (const std::overflow_error &e) { PyErr_SetString(PyExc_OverflowError, e.what()); return nullptr;
            } catch (const std::exception &e) { PyErr_SetString(PyExc_RuntimeError, e.what()); return nullptr; }
        }
    }
    PyErr_Format(PyExc_TypeError, "%s(): incompatible function arguments.", rec->name.c_str());
    return nullptr;
}

struct doc_proxy {
    PyObject *m;
    void operator=(const char *s) { PyObject *d = PyUnicode_FromString(s); PyObject_SetAttrString(m, "__doc__", d); Py_DECREF(d); }
};

class module_ {
public:
    explicit module_(PyObject *m) : mod(m) {}
    doc_proxy doc() { return doc_proxy{mod}; }
    template <class Ret, class... Args, class... Extra>
    module_ &def(const char *name, Ret (*f)(Args...), const Extra &...extra) {
        auto &tab = table();
        function_record *rec;
        auto it = tab.find(name);
        if (it == tab.end()) {
            rec = new function_record();
            rec->name = name;
            tab[name] = rec;
            rec->def.ml_name = rec->name.c_str();
            rec->def.ml_meth = (PyCFunction)(void (*)(void))dispatch;
            rec->def.ml_flags = METH_VARARGS | METH_KEYWORDS;
            rec->def.ml_doc = nullptr;
            PyObject *cap = PyCapsule_New(rec, "minipb.function_record", nullptr);
            PyObject *fn = PyCFunction_NewEx(&rec->def, cap, nullptr);
            Py_DECREF(cap);
            PyObject_SetAttrString(mod, name, fn);
            Py_DECREF(fn);
        } else rec = it->second;
        auto o = std::unique_ptr<overload<Ret, Args...>>(new overload<Ret, Args...>(f));
        int dummy[] = {0, (process(*o, *rec, extra), 0)...};
        (void)dummy;
        rec->ovl.push_back(std::move(o));
        if (!rec->doc.empty()) {
            PyObject *fn = PyObject_GetAttrString(mod, name);
            // builtin functions take __doc__ from ml_doc
            rec->def.ml_doc = rec->doc.c_str();
            Py_XDECREF(fn);
        }
        return *this;
    }
    PyObject *ptr() const { return mod; }
private:
    std::map<std::string, function_record *> &table() { static std::map<std::string, function_record *> t; return t; }
    static void process(overload_base &o, function_record &, const arg &a) { o.args.push_back(a); }
    static void process(overload_base &, function_record &r, const char *d) { r.doc = d; }
    PyObject *mod;
};
using module = module_;

}  // namespace pybind11

#define MINIPB_CAT2(a, b) a##b
#define MINIPB_CAT(a, b) MINIPB_CAT2(a, b)
#define MINIPB_STR2(a) #a
#define MINIPB_STR(a) MINIPB_STR2(a)

#define PYBIND11_MODULE(name, variable)                                           \
    static void MINIPB_CAT(minipb_init_, name)(pybind11::module_ &);              \
    static struct PyModuleDef MINIPB_CAT(minipb_def_, name) = {                   \
        PyModuleDef_HEAD_INIT, MINIPB_STR(name), nullptr, -1, nullptr,            \
        nullptr, nullptr, nullptr, nullptr};                                      \
    extern "C" __attribute__((visibility("default"))) PyObject *MINIPB_CAT(PyInit_, name)() { \
        PyObject *m = PyModule_Create(&MINIPB_CAT(minipb_def_, name));            \
        if (!m) return nullptr;                                                   \
        pybind11::module_ mm(m);                                                  \
        try { MINIPB_CAT(minipb_init_, name)(mm); }                               \
        catch (const std::exception &e) { PyErr_SetString(PyExc_ImportError, e.what()); return nullptr; } \
        PyObject_SetAttrString(m, "__minipb__", Py_True);                         \
        return m;                                                                 \
    }                                                                             \
    void MINIPB_CAT(minipb_init_, name)(pybind11::module_ &variable)
