#!/usr/bin/env python3
"""Development aid: run a check against a seeded change applied to a SCRATCH worktree (never /repo),
several in parallel.  usage: tools/mut_par.py <mutdir-root> [ID ...] [-j N] [--tier quick]
Each <root>/<ID>/<mK>/patch.diff is applied to its own fresh worktree /tmp/mw/<ID><mK>, the check runs with
PV_REPO pointing there and PV_TAG=_<ID><mK> (scratch files, evidence and replays under build/mut/<tag>/), and the
worktree is removed.  Results: <root>/<ID>/<mK>/result_par.json."""
import json, os, re, subprocess, sys, time, shutil
from concurrent.futures import ThreadPoolExecutor
VERIF = '/verif'


def sh(cmd, **kw):
    return subprocess.run(cmd, shell=True, capture_output=True, text=True, **kw)


def one(job):
    root, pid, mk, tier = job
    mdir = os.path.join(root, pid, mk)
    tag = '_%s%s' % (pid, mk)
    wt = '/tmp/mw/%s%s' % (pid, mk)
    sh('git -C /repo worktree remove --force %s' % wt)
    shutil.rmtree(wt, ignore_errors=True)
    a = sh('git -C /repo worktree add --detach %s HEAD' % wt)
    if a.returncode != 0:
        return (pid, mk, 'worktree-failed', a.stderr[-200:])
    sh('cp /repo/pyamg/amg_core/*.so %s/pyamg/amg_core/' % wt)
    ap = sh('git -C %s apply %s' % (wt, os.path.join(mdir, 'patch.diff')))
    if ap.returncode != 0:
        sh('git -C /repo worktree remove --force %s' % wt)
        return (pid, mk, 'patch-does-not-apply', ap.stderr[-200:])
    t0 = time.time()
    env = dict(os.environ, PV_REPO=wt, PV_TAG=tag)
    meta = {}
    try:
        meta = json.load(open(os.path.join(mdir, 'meta.json')))
    except Exception:
        pass
    res = {}
    for cid in [pid] + list(meta.get('also', [])):
        p = sh('cd %s && ./check %s --tier %s' % (VERIF, cid, tier), env=env, timeout=7200)
        out = p.stdout + p.stderr
        res[cid] = dict(rc=p.returncode, violations=[l for l in out.split('\n') if l.startswith('VIOLATION')],
                        summary=[l for l in out.split('\n') if re.match(r'C\d\d (quick|thorough):', l)][-1:],
                        wall_s=round(time.time() - t0, 1))
    sh('git -C /repo worktree remove --force %s' % wt)
    shutil.rmtree(wt, ignore_errors=True)
    det = res[pid]['rc'] == 1 and bool(res[pid]['violations'])
    wi = det and not all(v.endswith('no-failing-input-found') for v in res[pid]['violations'])
    json.dump(dict(property=pid, mutant=mk, tier=tier, detected=det, failing_input=wi, checks=res),
              open(os.path.join(mdir, 'result_par.json'), 'w'), indent=1)
    return (pid, mk, 'detected' if det else 'MISSED', 'input' if wi else '-', res[pid]['summary'], res[pid]['violations'][:2])


def main(argv):
    root = argv[0]
    ids = [a.upper() for a in argv[1:] if re.match(r'[cC]\d\d$', a)] or sorted(d for d in os.listdir(root) if re.match(r'C\d\d$', d))
    j = int(argv[argv.index('-j') + 1]) if '-j' in argv else 6
    tier = argv[argv.index('--tier') + 1] if '--tier' in argv else 'quick'
    os.makedirs('/tmp/mw', exist_ok=True)
    jobs = [(root, pid, mk, tier) for pid in ids for mk in sorted(os.listdir(os.path.join(root, pid)))
            if os.path.exists(os.path.join(root, pid, mk, 'patch.diff'))]
    with ThreadPoolExecutor(j) as ex:
        for r in ex.map(one, jobs):
            print(*r, flush=True)


if __name__ == '__main__':
    main(sys.argv[1:])
