#!/usr/bin/env python3
"""Regenerate /verif/MANIFEST.json from the table below (kept valid at all times)."""
import json, os
VERIF = '/verif'
props = [json.loads(l) for l in open(os.path.join(VERIF, 'properties.jsonl'))]
ids = [p['id'] for p in props]

import sys, importlib
sys.path.insert(0, VERIF)
CLAIMED = {}
for i in ids:
    if os.path.exists(os.path.join(VERIF, 'pv', 'props', i.lower() + '.py')):
        src = open(os.path.join(VERIF, 'pv', 'props', i.lower() + '.py')).read()
        ns = {}
        # evaluate only the leading constant assignments (no imports of numpy needed)
        import ast
        tree = ast.parse(src)
        for node in tree.body:
            if isinstance(node, ast.Assign) and isinstance(node.targets[0], ast.Name) and \
                    node.targets[0].id in ('TECHNIQUE', 'LEVEL_TEXT', 'LEVEL_NOTE'):
                ns[node.targets[0].id] = ast.literal_eval(node.value)
        if len(ns) == 3:
            CLAIMED[i] = (ns['TECHNIQUE'], ns['LEVEL_TEXT'], ns['LEVEL_NOTE'], 'DESIGN.md section 3, ' + i)
NA = {}

checks = []
for i in ids:
    if i in CLAIMED:
        tech, text, note, ref = CLAIMED[i]
        checks.append({
            'property_id': i,
            'quick_cmd': './check %s --tier quick' % i,
            'thorough_cmd': './check %s --tier thorough' % i,
            'evidence_file': '/verif/evidence/%s.json' % i,
            'replay_cmd_template': './check %s --replay {path}' % i,
            'engine': 'pv-coq',
            'level_claimed': {'category': 'proof', 'text': text, 'design_ref': ref},
            'level_note': note,
            'technique': tech,
        })
na = [{'property_id': i, 'reason': NA.get(i, 'check not built yet in this session (work in progress; see DESIGN.md section 7)')}
      for i in ids if i not in CLAIMED]
man = {
 'version': 1,
 'setup_cmd': 'cd /verif && ./setup.sh',
 'hooks': {
   'guard': 'PYAMG_VERIF_CORE_DIR',
   'enable': 'checks rebuild pyamg/amg_core/*_bind.cpp + *.h of the working tree against native/minipb into '
             '/verif/build/core/<hash>/ and run /repo with PYAMG_VERIF_CORE_DIR pointing there (pure Python: PYTHONPATH=/repo)',
   'baseline_off_cmd': 'cd /repo && env -u PYAMG_VERIF_CORE_DIR /venv/bin/python -m pytest -ra -q -p no:cacheprovider --timeout=900 --continue-on-collection-errors',
   'source_commits': ['24ca066'],
   'add_only': True,
 },
 'engines': [{'name': 'pv-coq', 'path': '/verif/check', 'serves_properties': sorted(CLAIMED),
              'kind_free_text': 'Coq 8.16 development /verif/coq (models, proofs, Props/Cxx.v) + Python harness /verif/pv '
                                '(generators, correspondence by vm_compute case files, oracles, violation protocol) + '
                                'native/minipb rebuild of the working-tree kernels'}],
 'checks': checks,
 'not_applicable': na,
 'notes': 'fix: commits in /repo: e23de63 (make_system / SciPy compatibility).  Known findings: /verif/known-findings.txt.',
}
json.dump(man, open(os.path.join(VERIF, 'MANIFEST.json'), 'w'), indent=1)
print('claimed', sorted(CLAIMED), 'not_applicable', [x['property_id'] for x in na])
