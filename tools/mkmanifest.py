#!/usr/bin/env python3
"""Regenerate /verif/MANIFEST.json from the table below (kept valid at all times)."""
import json, os
VERIF = '/verif'
props = [json.loads(l) for l in open(os.path.join(VERIF, 'properties.jsonl'))]
ids = [p['id'] for p in props]

# property -> (technique, level text, level note, design ref)
CLAIMED = {
 'C14': ('Coq proof of the threshold rules + bit-exact model/implementation correspondence',
         'Kernel-checked theorems (Props/C14.v, closed under the global context) about the Gallina model of the '
         'classical (abs/min) and symmetric strength kernels and of the Python tail: iff-characterisations with the '
         'row maximum as least upper bound, pattern containment, monotonicity in theta, theta=0, entries in [0,1], '
         'row maximum 1, nonzero diagonal kept -- for every matrix over any ordered field.  The same Gallina '
         'definitions are evaluated (vm_compute) at PrimFloat and Q on the inputs the rebuilt working-tree kernels '
         'and pyamg.strength ran on and must agree bit-for-bit; an independent dense oracle decides the property '
         'on every generated case and supplies the failing input.',
         'Exact-arithmetic theorems; float behaviour only through the bit-exact correspondence.  Other measures '
         '(evolution, energy, distance, affinity, algebraic distance), BSR reductions and complex data: common '
         'contract decided by the oracle only.  Trusted: Coq kernel + vm_compute, harness, minipb rebuild, SciPy '
         'csr construction / eliminate_zeros / csr_scale_rows.', 'DESIGN.md section 3, C14'),
}
NA = {}

checks = []
for i in ids:
    if i in CLAIMED:
        tech, text, note, ref = CLAIMED[i]
        checks.append({
            'property_id': i,
            'quick_cmd': './check %s --tier quick' % i,
            'thorough_cmd': './check %s --tier thorough' % i,
            'evidence_file': '/verif/evidence/%s.json' % i,
            'replay_cmd_template': './check %s --replay {path}' % i,
            'engine': 'pv-coq',
            'level_claimed': {'category': 'proof', 'text': text, 'design_ref': ref},
            'level_note': note,
            'technique': tech,
        })
na = [{'property_id': i, 'reason': NA.get(i, 'check not built yet in this session (work in progress; see DESIGN.md section 7)')}
      for i in ids if i not in CLAIMED]
man = {
 'version': 1,
 'setup_cmd': 'cd /verif && ./setup.sh',
 'hooks': {
   'guard': 'PYAMG_VERIF_CORE_DIR',
   'enable': 'checks rebuild pyamg/amg_core/*_bind.cpp + *.h of the working tree against native/minipb into '
             '/verif/build/core/<hash>/ and run /repo with PYAMG_VERIF_CORE_DIR pointing there (pure Python: PYTHONPATH=/repo)',
   'baseline_off_cmd': 'cd /repo && env -u PYAMG_VERIF_CORE_DIR /venv/bin/python -m pytest -ra -q -p no:cacheprovider --timeout=900 --continue-on-collection-errors',
   'source_commits': ['24ca066'],
   'add_only': True,
 },
 'engines': [{'name': 'pv-coq', 'path': '/verif/check', 'serves_properties': sorted(CLAIMED),
              'kind_free_text': 'Coq 8.16 development /verif/coq (models, proofs, Props/Cxx.v) + Python harness /verif/pv '
                                '(generators, correspondence by vm_compute case files, oracles, violation protocol) + '
                                'native/minipb rebuild of the working-tree kernels'}],
 'checks': checks,
 'not_applicable': na,
 'notes': 'fix: commits in /repo: e23de63 (make_system / SciPy compatibility).  Known findings: /verif/known-findings.txt.',
}
json.dump(man, open(os.path.join(VERIF, 'MANIFEST.json'), 'w'), indent=1)
print('claimed', sorted(CLAIMED), 'not_applicable', [x['property_id'] for x in na])
