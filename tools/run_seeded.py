#!/usr/bin/env python3
"""Run the registered checks against the seeded changes kept under /verif/seeded.

usage: tools/run_seeded.py [ID ...] [--tier quick] [--only mK] [--demo]

For each /verif/seeded/<ID>/<mK>/patch.diff: apply it to /repo's working tree
(`git apply`), run `./check <ID>` (and the checks of the other properties named
in meta.json "also"), record the outcome in result.json, and ALWAYS undo the
change (`git checkout -- .`).  /repo must be clean before and is clean after.
Nothing is ever committed to /repo.
"""
import json
import os
import re
import subprocess
import sys
import time

VERIF = os.path.dirname(os.path.dirname(os.path.abspath(__file__)))
REPO = '/repo'


def sh(cmd, **kw):
    return subprocess.run(cmd, shell=True, capture_output=True, text=True, **kw)


def clean():
    return sh('git -C %s status --porcelain --untracked-files=no' % REPO).stdout.strip() == ''


def run_check(pid, tier):
    t0 = time.time()
    p = sh('cd %s && ./check %s --tier %s' % (VERIF, pid, tier), timeout=7200)
    out = p.stdout + p.stderr
    vio = [l for l in out.split('\n') if l.startswith('VIOLATION')]
    return dict(rc=p.returncode, violations=vio, wall_s=round(time.time() - t0, 1),
                summary=[l for l in out.split('\n') if re.match(r'C\d\d (quick|thorough):', l)][-1:],
                known=[l for l in out.split('\n') if l.startswith('KNOWN-FINDING')])


def main(argv):
    ids = [a.upper() for a in argv if re.match(r'[cC]\d\d$', a)]
    tier = argv[argv.index('--tier') + 1] if '--tier' in argv else 'quick'
    only = argv[argv.index('--only') + 1] if '--only' in argv else None
    base = os.path.join(VERIF, 'seeded')
    if not ids:
        ids = sorted(d for d in os.listdir(base) if re.match(r'C\d\d$', d))
    if not clean():
        print('refusing: /repo has uncommitted changes')
        return 2
    table = []
    for pid in ids:
        pdir = os.path.join(base, pid)
        if not os.path.isdir(pdir):
            continue
        for mk in sorted(os.listdir(pdir)):
            mdir = os.path.join(pdir, mk)
            patch = os.path.join(mdir, 'patch.diff')
            if not os.path.exists(patch) or (only and mk != only):
                continue
            meta = {}
            try:
                meta = json.load(open(os.path.join(mdir, 'meta.json')))
            except Exception:
                pass
            a = sh('git -C %s apply %s' % (REPO, patch))
            if a.returncode != 0:
                print('%s/%s: patch does not apply: %s' % (pid, mk, a.stderr.strip()[:200]))
                sh('git -C %s checkout -- .' % REPO)
                continue
            try:
                res = {pid: run_check(pid, tier)}
                for other in meta.get('also', []):
                    res[other] = run_check(other, tier)
                demo = None
                if '--demo' in argv and os.path.exists(os.path.join(mdir, 'demo.py')):
                    sys.path.insert(0, os.path.join(VERIF, 'native'))
                    import build_core
                    core = build_core.build(REPO)
                    d = sh('cd %s && PYTHONPATH=%s PYAMG_VERIF_CORE_DIR=%s /venv/bin/python demo.py' % (mdir, REPO, core),
                           timeout=900)
                    demo = d.returncode
            finally:
                sh('git -C %s checkout -- .' % REPO)
            assert clean()
            detected = res[pid]['rc'] == 1 and bool(res[pid]['violations'])
            with_input = detected and not all(v.endswith('no-failing-input-found') for v in res[pid]['violations'])
            out = dict(property=pid, mutant=mk, tier=tier, detected=detected, failing_input=with_input,
                       demo_rc_on_mutant=demo, checks=res)
            with open(os.path.join(mdir, 'result.json'), 'w') as f:
                json.dump(out, f, indent=1)
            table.append((pid, mk, detected, with_input, res[pid]['wall_s']))
            print('%s/%s detected=%s failing_input=%s (%.0fs) %s' % (pid, mk, detected, with_input, res[pid]['wall_s'],
                                                                    res[pid]['violations'][:1]), flush=True)
    miss = [t for t in table if not t[2]]
    print('seeded: %d run, %d detected, %d missed %s' % (len(table), len(table) - len(miss), len(miss),
                                                        [(m[0], m[1]) for m in miss]))
    return 0


if __name__ == '__main__':
    sys.exit(main(sys.argv[1:]))
