#!/bin/bash
# tools/sweep.sh "<ids>" "<seeds>" [tier]  -- run checks for several seeds, print one line per run
cd /verif
for s in $2; do for id in $1; do
  out=$(VERIF_SEED=$s ./check $id --tier ${3:-quick} 2>&1 | grep -v "^Warning :")
  echo "seed=$s $(echo "$out" | grep -E "^C[0-9]+ (quick|thorough):" | tail -1)"
  echo "$out" | grep "^VIOLATION" | sed "s/^/   seed=$s /"
done; done
