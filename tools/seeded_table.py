#!/usr/bin/env python3
"""Print the markdown table of seeded changes for DESIGN.md 8.6 from seeded/*/m*/{meta,result*}.json."""
import glob, json, os, re
ROOT = '/verif/seeded'
# what had to be strengthened for changes the first version of a check missed (kept by hand)
STRENGTHENED = {
 'C03/m3': 'smoother families dealt out systematically (incl. 2-iteration chebyshev/richardson) + post-smoother affinity test; C09 oracle now also starts from the zero guess',
 'C04/m1': 'AIR with filter_operator added (finest level must keep the user values, user matrix untouched)',
 'C04/m3': '2-candidate SA constructor, BSR inputs forced, explicit max_coarse stopping rule in the oracle',
 'C05/m2': 'directed per-level lists (shorter list extended by its last entry, one attribute differing)',
 'C05/m3': 'dense-oracle classes now per (f_iterations, c_iterations); cf/fc pairs always kept in the quick tier',
 'C06/m1': "'rr+' runs start from far initial guesses so that the moving threshold matters (failing input instead of correspondence only)",
 'C08/m2': 'badly scaled problems large enough for a real multilevel iteration in the black-box oracle',
 'C08/m3': 'badly scaled hierarchies and small maxiter for the named accelerators',
 'C10/m1': 'filtered Jacobi with degree 2 and 3',
 'C10/m2': 'finiteness of T / coarse candidates checked explicitly (NaN-blind comparison found and fixed in all oracles)',
 'C10/m3': 'root-node with naive / Lloyd aggregation (roots not in index order)',
 'C11/m1': 'row-sum check for modified classical interpolation (failing input instead of correspondence only)',
 'C11/m3': 'explicit-theta oracle (theta = 0 and 0.25 with an unrelated strength matrix passed in)',
 'C14/m1': 'BSR block-wise nodal-rule oracle',
 'C14/m2': 'scale-invariance oracle (powers of two)',
 'C15/m1': 'AIR with filter_operator in the setup-purity check',
 'C15/m2': 'directed history: accelerated solve with cycle V then W',
 'C15/m3': 'CLJP / CLJPc / PMISc / Lloyd constructors in the reproducibility check',
 'C16/m1': 'singular matrix with its zero rows/columns stored as explicit zeros',
 'C19/m1': 'scaling vectors of a wider dtype than the matrix',
 'C19/m2': 'oracle for filtering relative to the diagonal, rows without stored diagonal',
 'C19/m3': 'rectangular (wide and tall) matrices in the filtering oracle',
 'C20/m3': 'diffusion stencils modelled op-by-op (bit-exact tie) + exactness-on-quadratics oracle and theorems',
 'C02/m2': 'complex Hermitian hierarchies with a multi-unknown coarsest level, coarse solvers dealt out',
 'C01/m2': 'zero right-hand side with no initial guess',
 'C02/m4': 'several iterations of Chebyshev / Richardson in the smoother family, dealt out systematically',
 'C02/m6': 'genuine 2x2 block Gauss-Seidel smoothers (blocksize 1 is replaced by the point method in the setup); nonzero right-hand side with the guess at the solution',
 'C03/m5': 'spy accelerator: the operator handed over by solve(accel=..., cycle=...) must be M of that cycle',
 'C03/m6': 'one call with maxiter=1 from a guess already within the default tolerance',
 'C04/m4': 'CLJP / PMISc / RS with a strength threshold that leaves no strong connection (all-C / all-F stalls)',
 'C04/m5': 'MultilevelSolver built from hand-made levels without R (complex Hermitian, real, BSR)',
 'C04/m6': 'inputs rescaled by 2^-60 and 2^60; Galerkin tolerance relative to |R||A||P| (no absolute term)',
 'C05/m6': 'oracle problem stored in 2x2 blocks (BSR kernels)',
 'C06/m4': 'fixed ill-conditioned probe (cond 1e8, tol 1e-12): status 0 must survive recomputation of the residual',
 'C06/m5': 'every call repeated with only a callback, only a history list, and neither',
 'C07/m4': 'operator storage alternates between dense and CSR (complex sparse adjoint path)',
 'C07/m5': 'preconditioned CGNR / CGNE checked against their preconditioned Krylov spaces (failing input instead of correspondence only)',
 'C09/m4': 'zero initial guess combined with 2-3 iterations (systematic, was by chance)',
 'C09/m5': 'every public call gets a fresh copy of the matrix with shuffled column order (an earlier call had sorted it in place)',
 'C10/m4': 'polynomial identity fitted for Richardson and for every degree',
 'C10/m5': 'block / diagonal / local weighting on a BSR problem rescaled per unknown (diagonal blocks not multiples of the identity)',
 'C13/m4': 'strength values with S_ij = -S_ji (cancel in S + S^T) and random nonzero values',
 'C13/m6': '400 random directed patterns on 5-7 vertices',
 'C15/m4': 'constructors with Jacobi local / block / filtered, Richardson, energy smoothing, evolution strength, candidate improvement',
 'C15/m5': 'constructors with relaxation-type coarse solvers',
 'C16/m4': 'nonsingular matrices that cannot be solved without pivoting',
 'C16/m6': 'integer right-hand sides and real right-hand sides for complex matrices (direct solvers)',
 'C17/m4': 'dense-GMRES AIR paths with maxiter below the local system size in the sanitizer corpus',
 'C18/m4': 'RCM on the same pattern with nonsymmetric values',
 'C19/m4': 'condest on 1D Poisson and a periodic stencil',
 'C19/m5': 'block pseudo-inverse of blocks scaled by 2^-45 and 2^40',
 'C19/m6': 'inverse / plain / inverse call sequence on one BSR object',
 'C20/m6': 'FE Poisson: tensor-product spectrum and zero interior row sums',
}
rows = []
for mdir in sorted(glob.glob(ROOT + '/C*/m*')):
    pid, mk = mdir.split('/')[-2:]
    meta = json.load(open(mdir + '/meta.json')) if os.path.exists(mdir + '/meta.json') else {}
    res = None
    for fn in (('result_par.json', 'result.json') if mk in ('m4', 'm5', 'm6') else ('result.json', 'result_par.json')):
        if os.path.exists(os.path.join(mdir, fn)):
            res = json.load(open(os.path.join(mdir, fn)))
            break
    files = ', '.join(os.path.basename(f) for f in meta.get('files', []))
    desc = re.sub(r'\s+', ' ', meta.get('description', ''))[:150]
    if res is None:
        out = 'not run'
    elif res['detected']:
        out = 'caught' + ('' if res['failing_input'] else ' (proof/correspondence only)')
    else:
        out = 'MISSED'
    rows.append('| %s/%s | %s | %s | %s | %s |' % (pid, mk, files, desc.replace('|', '/'), out, STRENGTHENED.get('%s/%s' % (pid, mk), '')))
print('| change | file | what | result | strengthened after a first miss |')
print('|---|---|---|---|---|')
print('\n'.join(rows))
